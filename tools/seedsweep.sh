#!/bin/bash
# seedsweep.sh <seed...> — runs every claimed check with each seed on the current tree; prints only failures
cd /verif
cp -r evidence /tmp/evidence-keep.$$
for seed in "$@"; do
  for p in C01 C02 C03 C04 C05 C06 C07 C08 C09 C10 C11 C12 C13 C14 C15 C16 C17 C18 C19; do
    out=$(VERIF_SEED=$seed ./check $p 2>&1 | grep -v "^KNOWN-FINDING" | tail -3)
    case "$out" in *"-> exit 0"*) ;; *) echo "SEED $seed $p: $out" | cut -c1-700;; esac
  done
  echo "seed $seed done"
done
cp /tmp/evidence-keep.$$/* evidence/; rm -rf /tmp/evidence-keep.$$
