#!/usr/bin/env python3
"""seedrun.py <seed id> [property ids...] — applies seeded/<id>/patch.diff to
/repo, runs ./check for the given properties (default: the property the seed
targets), reverts /repo, records which checks reported a violation in meta.json."""
import json, os, subprocess, sys, time
VERIF = os.path.dirname(os.path.dirname(os.path.abspath(__file__)))
sid = sys.argv[1]
d = os.path.join(VERIF, "seeded", sid)
meta = json.load(open(os.path.join(d, "meta.json")))
pids = sys.argv[2:] or [meta["breaks_property"]]
st = subprocess.run(["git", "-C", "/repo", "status", "--porcelain"], capture_output=True, text=True).stdout.strip()
if st:
    print("refusing: /repo is not clean:\n" + st); sys.exit(2)
subprocess.run(["git", "-C", "/repo", "apply", os.path.join(d, "patch.diff")], check=True)
res = meta.setdefault("checks", {})
import shutil, tempfile
evdir = os.path.join(VERIF, "evidence")
bak = tempfile.mkdtemp(prefix="evidence-bak-")
for f in os.listdir(evdir):
    shutil.copy(os.path.join(evdir, f), os.path.join(bak, f))
try:
    for pid in pids:
        t0 = time.time()
        p = subprocess.run(["./check", pid, "--tier", os.environ.get("VERIF_TIER", "quick")], cwd=VERIF, capture_output=True, text=True)
        lines = [l for l in p.stdout.split("\n") if l.startswith("VIOLATION") or "violat" in l or l.startswith("[" + pid)]
        viol = [l for l in p.stdout.split("\n") if l.startswith("VIOLATION")]
        detail = ""
        if viol:
            try:
                rp = viol[0].split("replay=")[1].split()[0]
                r = json.load(open(rp))
                if r.get("kind") == "failing-input":
                    detail = "failing input: " + json.dumps(r["violation"], ensure_ascii=False)[:400]
                else:
                    detail = "broken obligation: " + json.dumps(r["broken_obligations"], ensure_ascii=False)[:400]
            except Exception as e:
                detail = f"(replay unreadable: {e})"
        res[pid] = {"exit": p.returncode, "verdict": viol[0] if viol else "no violation reported", "detail": detail, "wall_s": round(time.time() - t0, 1)}
        print(sid, pid, "->", res[pid]["verdict"], "|", detail[:300])
finally:
    subprocess.run(["git", "-C", "/repo", "checkout", "--", "."], check=True)
    subprocess.run(["git", "-C", "/repo", "clean", "-fdq"], check=False)
    for f in os.listdir(bak):          # evidence must come from the unchanged tree
        shutil.copy(os.path.join(bak, f), os.path.join(evdir, f))
    shutil.rmtree(bak, ignore_errors=True)
json.dump(meta, open(os.path.join(d, "meta.json"), "w"), indent=1, ensure_ascii=False)
