"""Emit the table part of the generated model: Gen/Prefixes.v, Gen/Catalogue.v,
Gen/TempTable.v, Gen/Config.v — from the JSON dump of rs2j."""
import re, hashlib
from common import *

# ---------------------------------------------------------------------------
# generic helpers on the JSON AST


def find_items(file_json, kind, pred=lambda it: True):
    return [it for it in file_json["items"] if it["k"] == kind and pred(it)]


def impl_trait_name(im):
    if im["trait"] is None:
        return None
    return im["trait"]["path"]["segs"][-1]["id"]


def impl_trait_args(im):
    if im["trait"] is None:
        return []
    return im["trait"]["path"]["segs"][-1]["args"]


def nospace(s):
    return re.sub(r"\s+", "", s)


def fn_single_expr(fn):
    """body of a fn that consists of one tail expression"""
    body = fn["body"]
    if len(body) != 1 or body[0]["k"] != "expr" or body[0]["semi"]:
        raise TieBroken(f"fn {fn['sig']['name']}: single tail expression expected (line {fn.get('line')})")
    return body[0]["e"]


def strip_paren(e):
    while e["k"] == "paren":
        e = e["e"]
    return e


def path_last(e):
    e = strip_paren(e)
    if e["k"] != "path":
        raise TieBroken(f"path expected: {e}")
    return e["path"]["segs"][-1]["id"]


def pat_key(p):
    """pattern of a table-like match arm -> ('path', ident) | ('str', s) | ('int', n) | ('wild',)"""
    k = p["k"]
    if k == "path":
        return ("path", p["path"]["segs"][-1]["id"])
    if k == "ident":  # bare identifier pattern: binds — treat as catch-all
        return ("wild",)
    if k == "wild":
        return ("wild",)
    if k == "lit":
        e = p["e"]
        if e["k"] == "lit" and e["lit"]["k"] == "str":
            return ("str", e["lit"]["v"])
        neg, digits, exp, is_int = lit_of_expr(e)
        if not is_int:
            raise TieBroken("integer pattern expected")
        return ("int", -digits if neg else digits)
    raise TieBroken(f"unsupported pattern {p}")


def match_arms(fn, scrutinee=None):
    e = strip_paren(fn_single_expr(fn))
    if e["k"] != "match":
        raise TieBroken(f"fn {fn['sig']['name']}: match expected")
    arms = []
    for a in e["arms"]:
        if a["guard"] is not None:
            raise TieBroken("match guard in table")
        arms.append((pat_key(a["pat"]), strip_paren(a["body"])))
    return e["e"], arms


def str_value(e):
    """"text".to_owned() | "text" -> text"""
    e = strip_paren(e)
    if e["k"] == "mcall" and e["method"] in ("to_owned", "to_string", "into") and not e["args"]:
        e = strip_paren(e["recv"])
    if e["k"] == "lit" and e["lit"]["k"] == "str":
        return e["lit"]["v"]
    raise TieBroken(f"string literal expected: {e}")


def opt_path_value(e):
    """Some(Self::X) -> X ; None -> None"""
    e = strip_paren(e)
    if e["k"] == "path" and e["path"]["segs"][-1]["id"] == "None":
        return None
    if e["k"] == "call" and path_last(e["func"]) == "Some" and len(e["args"]) == 1:
        return path_last(e["args"][0])
    raise TieBroken(f"Some(path)/None expected: {e}")


# ---------------------------------------------------------------------------
# Prefixes.v


def emit_prefixes(d):
    f = d["files"]["src/si_prefixes.rs"]
    enums = find_items(f, "enum", lambda it: it["id"] == "SIPrefix")
    if len(enums) != 1:
        raise TieBroken("enum SIPrefix not found")
    en = enums[0]
    derives = " ".join(a["text"] for a in en["attrs"] if a["path"] == "derive")
    variants = []
    for v in en["variants"]:
        if v["fields"]:
            raise TieBroken("SIPrefix variant with fields")
        if v["discriminant"] is None:
            raise TieBroken("SIPrefix variant without discriminant")
        neg, digits, exp, is_int = lit_of_expr(v["discriminant"])
        if not is_int:
            raise TieBroken("integer discriminant expected")
        variants.append((v["id"], -digits if neg else digits))
    fns = {}
    for im in find_items(f, "impl", lambda it: it["trait"] is None and nospace(it["self_ty"]["text"]) == "SIPrefix"):
        for it in im["items"]:
            if it["k"] == "fn":
                fns[it["sig"]["name"]] = it
    for need in ("name", "abbr", "exp", "from_abbr", "from_exp"):
        if need not in fns:
            raise TieBroken(f"SIPrefix::{need} not found")
    out = [HEADER, "From QV Require Import Rt.Prelude.\n"]
    out.append("Inductive SIPrefix : Set :=\n" + "".join(f"| {coq_ident(v)}\n" for v, _ in variants).rstrip("\n") + ".\n")
    out.append("Scheme Equality for SIPrefix.\n")
    out.append("(* variants in declaration order *)\nDefinition SIPrefix_variants : list SIPrefix :=\n  "
               + coq_list([coq_ident(v) for v, _ in variants]) + ".\n")
    out.append("Definition SIPrefix_ident (p : SIPrefix) : ustring :=\n  match p with\n"
               + "".join(f"  | {coq_ident(v)} => {ustr(v)}\n" for v, _ in variants) + "  end.\n")
    out.append("(* explicit discriminants *)\nDefinition SIPrefix_discr (p : SIPrefix) : Z :=\n  match p with\n"
               + "".join(f"  | {coq_ident(v)} => {zlit(n)}\n" for v, n in variants) + "  end.\n")
    out.append(f"(* derives on the enum: {derives.replace('(*','( *')} *)\n"
               f"Definition SIPrefix_derives_EnumIter : bool := {coq_bool('EnumIter' in derives)}.\n")
    # fn exp: `*self as i8`
    e = strip_paren(fn_single_expr(fns["exp"]))
    ok_exp = (e["k"] == "cast" and nospace(e["ty"]["text"]) == "i8" and strip_paren(e["e"])["k"] == "unary"
              and strip_paren(e["e"])["op"] == "*" and path_last(strip_paren(e["e"])["e"]) == "self")
    if not ok_exp:
        raise TieBroken("SIPrefix::exp is not `*self as i8`")
    out.append("(* fn exp(&self) -> i8 { *self as i8 } : the discriminant, wrapped to i8 *)\n"
               "Definition SIPrefix_exp (p : SIPrefix) : Z :=\n"
               "  let d := SIPrefix_discr p in ((d + 128) mod 256 - 128)%Z.\n")
    # name / abbr: match self { Self::X => "..", }
    for fname in ("name", "abbr"):
        scrut, arms = match_arms(fns[fname])
        if path_last(scrut) != "self":
            raise TieBroken(f"SIPrefix::{fname}: match self expected")
        rows = []
        for pk, body in arms:
            if pk[0] != "path":
                raise TieBroken(f"SIPrefix::{fname}: variant pattern expected")
            rows.append(f"({coq_ident(pk[1])}, {ustr_c(str_value(body))})")
        out.append(f"(* arms of fn {fname}, source order *)\nDefinition SIPrefix_{fname}_arms : list (SIPrefix * ustring) :=\n  "
                   + coq_list(rows, nl=True) + ".\n")
    # from_abbr: match abbr { "q" => Some(Self::QUECTO), ..., _ => None }
    scrut, arms = match_arms(fns["from_abbr"])
    pname = fns["from_abbr"]["sig"]["inputs"][0]["pat"]["id"]
    if path_last(scrut) != pname:
        raise TieBroken("SIPrefix::from_abbr: match on the parameter expected")
    rows, default = [], None
    for i, (pk, body) in enumerate(arms):
        v = opt_path_value(body)
        vv = coq_opt(coq_ident(v) if v else None)
        if pk[0] == "str":
            rows.append(f"({ustr_c(pk[1])}, {vv})")
        elif pk[0] == "wild":
            default = vv
            if i != len(arms) - 1:
                raise TieBroken("wildcard arm not last")
        else:
            raise TieBroken("from_abbr: string pattern expected")
    if default is None:
        raise TieBroken("from_abbr: no wildcard arm")
    out.append("(* arms of fn from_abbr, source order; the wildcard arm separately *)\n"
               "Definition SIPrefix_from_abbr_arms : list (ustring * option SIPrefix) :=\n  " + coq_list(rows, nl=True) + ".\n"
               f"Definition SIPrefix_from_abbr_default : option SIPrefix := {default}.\n")
    scrut, arms = match_arms(fns["from_exp"])
    pname = fns["from_exp"]["sig"]["inputs"][0]["pat"]["id"]
    if path_last(scrut) != pname:
        raise TieBroken("SIPrefix::from_exp: match on the parameter expected")
    if nospace(fns["from_exp"]["sig"]["inputs"][0]["ty"]["text"]) != "i8":
        raise TieBroken("from_exp parameter is not i8")
    rows, default = [], None
    for i, (pk, body) in enumerate(arms):
        v = opt_path_value(body)
        vv = coq_opt(coq_ident(v) if v else None)
        if pk[0] == "int":
            rows.append(f"({zlit(pk[1])}, {vv})")
        elif pk[0] == "wild":
            default = vv
            if i != len(arms) - 1:
                raise TieBroken("wildcard arm not last")
        else:
            raise TieBroken("from_exp: integer pattern expected")
    if default is None:
        raise TieBroken("from_exp: no wildcard arm")
    out.append("Definition SIPrefix_from_exp_arms : list (Z * option SIPrefix) :=\n  " + coq_list(rows, nl=True) + ".\n"
               f"Definition SIPrefix_from_exp_default : option SIPrefix := {default}.\n")
    return "\n".join(out)


# ---------------------------------------------------------------------------
# Catalogue.v


def tok_term(t):
    k = t["t"]
    if k == "ident":
        return f"TIdent {ustr(t['v'])}"
    if k == "punct":
        return f"TPunct {ord(t['v'])}%N"
    if k == "group":
        return "TGroup " + coq_list([tok_term(x) for x in t["inner"]])
    if k == "lit":
        l = t["lit"]
        if l["k"] == "str":
            return f"TStr {ustr_c(l['v'])}"
        if l["k"] in ("int", "float") and not l["suffix"]:
            try:
                neg, digits, exp, is_int = parse_number_text(l["digits"])
            except TieBroken:
                return "TOtherLit"
            return ("TInt " if l["k"] == "int" else "TFloat ") + lit_term(neg, digits, exp, is_int)
        return "TOtherLit"
    raise TieBroken(f"token {t}")


def raw_def_term(q):
    raw = q["raw"]
    kind = {"struct": "IStruct", "enum": "IEnum"}.get(raw["k"], "IOtherItem")
    ngen = len(raw.get("generics", {}).get("params", [])) if raw["k"] in ("struct", "enum") else 0
    nfields = len(raw.get("fields", [])) if raw["k"] == "struct" else 0
    attrs = []
    seen_q = False
    for a in raw.get("attrs", []):
        if a["path"] == "quantity" and not seen_q:
            seen_q = True
            continue
        if not seen_q:
            continue
        ak = {"unit": "AUnit", "ref_unit": "ARefUnit"}.get(a["path"], "AOtherAttr")
        if ak == "AOtherAttr":
            attrs.append("mkraw_attr AOtherAttr false []")
        else:
            attrs.append(f"mkraw_attr {ak} {coq_bool(a['kind']=='list')} " + coq_list([tok_term(t) for t in a["tokens"]]))
    qargs = coq_list([tok_term(t) for t in q["args"]])
    return (f"mkraw_def {ustr_c(q['ident'])} {kind} {ngen}%N {nfields}%N\n    {qargs}\n    "
            + coq_list(attrs, nl=True).replace("\n", "\n  "))


def type_text(t, selfname=None):
    s = nospace(t["text"])
    s = re.sub(r"&'[a-z_]+", "&", s)
    return s


def resolve_self(s, selfname):
    return re.sub(r"(?<![A-Za-z0-9_])Self(?=as[A-Z<]|(?![A-Za-z0-9_]))", selfname, s)


def canonical_template(im, fn, known_types):
    """canonical text of an impl fn: known type identifiers replaced by T0,T1.. in
    order of first appearance in (self type, trait, fn text)"""
    selfty = type_text(im["self_ty"])
    tr = im["trait"]["path"]["text"] if im["trait"] else ""
    tr = re.sub(r"&'[a-z_]+", "&", tr)
    text = selfty + " | " + tr + " | " + fn["text"]
    text = re.sub(r"&\s*'[a-z_]+\s*", "& ", text)
    order = []
    for m in re.finditer(r"[A-Za-z_][A-Za-z0-9_]*", text):
        w = m.group(0)
        if w in known_types and w not in order:
            order.append(w)

    def rep(m):
        w = m.group(0)
        return f"T{order.index(w)}" if w in order else w

    canon = re.sub(r"[A-Za-z_][A-Za-z0-9_]*", rep, text)
    canon = re.sub(r"\s+", " ", canon)
    # the only variant of a single-unit type, named in `fn unit`, is a placeholder too
    canon = re.sub(r"Self :: UnitType :: [A-Za-z_][A-Za-z0-9_]*", "Self :: UnitType :: V0", canon)
    return canon, order


def ty_shape(s, qty, enum, known_qtys, known_enums):
    ref = s.startswith("&")
    b = s.lstrip("&")
    if b == "Self":
        k = "Self"
    elif b == "AmountT":
        k = "Amnt"
    elif b.startswith("Rate<"):
        k = "Rate"
    elif b == enum or b in known_enums:
        k = "Unit"
    elif b == qty or b in known_qtys:
        k = "Qty"
    else:
        k = "X"
    return ("ref" if ref else "") + k


def analyze_expanded(q, known_qtys, known_enums, templates):
    """structured view of the generator output for one definition"""
    items = q["expanded"]["items"]
    qty = q["ident"]
    structs = [it for it in items if it["k"] == "struct"]
    enums = [it for it in items if it["k"] == "enum"]
    if len(structs) != 1 or len(enums) != 1:
        raise TieBroken(f"{qty}: expected one struct and one enum in the expansion")
    st, en = structs[0], enums[0]
    if st["id"] != qty:
        raise TieBroken(f"{qty}: generated struct is named {st['id']}")
    enum = en["id"]
    g = {"qty": qty, "enum": enum}
    g["enum_variants"] = [v["id"] for v in en["variants"]]
    for v in en["variants"]:
        if v["fields"] or v["discriminant"] is not None:
            raise TieBroken(f"{enum}: variant with fields/discriminant")
    g["struct_fields"] = [f["id"] for f in st["fields"]]
    for f in st["fields"]:
        want = "AmountT" if f["id"] == "amount" else enum
        if nospace(f["ty"]["text"]) != want:
            raise TieBroken(f"{qty}: field {f['id']} has type {f['ty']['text']}")

    def has_serde(it):
        for a in it["attrs"]:
            t = nospace(a["text"])
            if a["path"] == "cfg_attr" and 'feature="serde"' in t and "Deserialize" in t and "Serialize" in t:
                return True
        return False

    g["serde_enum"], g["serde_struct"] = has_serde(en), has_serde(st)
    g["derives_enum"] = nospace(" ".join(a["text"] for a in en["attrs"] if a["path"] == "derive"))
    g["derives_struct"] = nospace(" ".join(a["text"] for a in st["attrs"] if a["path"] == "derive"))
    g["VARIANTS"] = None
    g["name_arms"], g["symbol_arms"], g["prefix_arms"], g["scale_arms"] = [], [], [], []
    g["ref_unit_unit"] = g["ref_unit_qty"] = None
    g["consts"] = []
    g["impls"] = []
    g["traits"] = set()
    for it in items:
        if it["k"] == "const":
            if nospace(it["ty"]["text"]) != enum:
                raise TieBroken(f"{qty}: const {it['id']} of type {it['ty']['text']}")
            e = strip_paren(it["e"])
            if e["k"] != "path" or len(e["path"]["segs"]) != 2 or e["path"]["segs"][0]["id"] != enum:
                raise TieBroken(f"{qty}: const {it['id']} is not {enum}::<variant>")
            g["consts"].append((it["id"], e["path"]["segs"][1]["id"]))
        if it["k"] != "impl":
            continue
        tname = impl_trait_name(it)
        selfty = type_text(it["self_ty"])
        if tname is None:
            if selfty != enum:
                raise TieBroken(f"{qty}: inherent impl for {selfty}")
            for x in it["items"]:
                if x["k"] == "const" and x["id"] == "VARIANTS":
                    e = strip_paren(x["e"])
                    if e["k"] != "array":
                        raise TieBroken("VARIANTS is not an array literal")
                    g["VARIANTS"] = [path_last(el) for el in e["elems"]]
                    for el in e["elems"]:
                        if strip_paren(el)["path"]["segs"][0]["id"] != "Self":
                            raise TieBroken("VARIANTS element is not Self::<variant>")
                else:
                    raise TieBroken(f"{qty}: unexpected inherent item")
            continue
        g["traits"].add((tname, selfty))
        fns = {x["sig"]["name"]: x for x in it["items"] if x["k"] == "fn"}
        consts = {x["id"]: x for x in it["items"] if x["k"] == "const"}
        types = {x["id"]: x for x in it["items"] if x["k"] == "type"}
        if tname == "Unit" and selfty == enum:
            if nospace(types["QuantityType"]["ty"]["text"]) != qty:
                raise TieBroken("Unit::QuantityType mismatch")
            # iter: Self::VARIANTS.iter().cloned()
            if nospace(fns["iter"]["text"]).find("Self::VARIANTS.iter().cloned()") < 0:
                raise TieBroken(f"{enum}::iter is not Self::VARIANTS.iter().cloned()")
            for fname, key in (("name", "name_arms"), ("symbol", "symbol_arms")):
                e = strip_paren(fn_single_expr(fns[fname]))
                if e["k"] == "match":
                    scrut, arms = match_arms(fns[fname])
                    if path_last(scrut) != "self":
                        raise TieBroken("match self expected")
                    for pk, body in arms:
                        if pk[0] != "path":
                            raise TieBroken("variant pattern expected")
                        g[key].append((pk[1], str_value(body)))
                else:  # single unit: constant function
                    g[key] = [(v, str_value(e)) for v in g["enum_variants"]]
            e = strip_paren(fn_single_expr(fns["si_prefix"]))
            if e["k"] == "match":
                scrut, arms = match_arms(fns["si_prefix"])
                for i, (pk, body) in enumerate(arms):
                    v = opt_path_value(body)
                    if pk[0] == "path":
                        if v is None:
                            raise TieBroken("si_prefix arm with None")
                        g["prefix_arms"].append((pk[1], v))
                    elif pk[0] == "wild" and i == len(arms) - 1 and v is None:
                        pass
                    else:
                        raise TieBroken("si_prefix: unexpected arm")
            else:
                if opt_path_value(e) is not None:
                    raise TieBroken("si_prefix: constant Some")
        elif tname == "LinearScaledUnit" and selfty == enum:
            g["ref_unit_unit"] = path_last(consts["REF_UNIT"]["e"])
            scrut, arms = match_arms(fns["scale"])
            if path_last(scrut) != "self":
                raise TieBroken("match self expected")
            for pk, body in arms:
                if pk[0] != "path":
                    raise TieBroken("variant pattern expected")
                if body["k"] != "macro" or body["name"] != "Amnt" or not body["args"] or len(body["args"]) != 1:
                    raise TieBroken(f"{enum}::scale arm is not Amnt!(literal)")
                g["scale_arms"].append((pk[1], lit_of_expr(body["args"][0])))
        elif tname == "HasRefUnit" and selfty == qty:
            g["ref_unit_qty"] = path_last(consts["REF_UNIT"]["e"])
            e = strip_paren(consts["REF_UNIT"]["e"])
            if e["path"]["segs"][0]["id"] != enum:
                raise TieBroken("HasRefUnit::REF_UNIT not of the unit enum")
            if fns:
                raise TieBroken("HasRefUnit impl overrides methods")
        # impl table row + template classification (every impl with fns)
        args = impl_trait_args(it)
        rhs = ""
        if args:
            if args[0]["k"] != "type":
                raise TieBroken("trait argument is not a type")
            rhs = type_text(args[0]["ty"])
        base_self = selfty.lstrip("&")
        out = ""
        if "Output" in types:
            out = type_text(types["Output"]["ty"])
        row = {
            "trait": tname, "self": selfty, "rhs": resolve_self(rhs, selfty) if rhs else "",
            "rhs_written": rhs,
            "output": resolve_self(out, selfty), "where": [nospace(w["text"]) for w in it["generics"]["where"]],
            "generics": [nospace(p["id"] + (":" + "+".join(p.get("bounds", [])) if p.get("bounds") else ""))
                         for p in it["generics"]["params"]],
            "template": "",
        }
        if fns and tname not in ("Unit", "LinearScaledUnit", "HasRefUnit"):
            known = known_qtys | known_enums
            if tname == "Quantity":
                canon = " ;; ".join(canonical_template(it, fns[n], known)[0] for n in sorted(fns))
                order = [qty, enum]
                tid = "Quantity_" + q["_path"]
                fn = None
            else:
                if len(fns) != 1:
                    raise TieBroken(f"{qty}: impl {tname} with {len(fns)} fns")
                fn = list(fns.values())[0]
                canon, order = canonical_template(it, fn, known)
                sshape = ty_shape(selfty, qty, enum, known_qtys, known_enums)
                rshape = ty_shape(rhs, qty, enum, known_qtys, known_enums) if rhs else "none"
                if rshape in ("Qty", "refQty") and rhs.lstrip("&") == base_self:
                    rshape = rshape.replace("Qty", "Same")
                tid = f"{tname}_{sshape}_{rshape}"
                if rshape in ("Self", "none") and sshape == "Qty":
                    tid += "_" + q["_path"]
            if tid in templates and templates[tid]["canon"] != canon:
                raise TieBroken(f"{qty}: impl {tname}<{rhs}> for {selfty} is not an instance of template {tid}:\n"
                                f"  {canon}\n  vs\n  {templates[tid]['canon']}")
            if tid not in templates:
                templates[tid] = {"canon": canon, "impl": it, "fn": fn, "fns": fns, "from": qty, "order": order,
                                  "qty": qty, "enum": enum, "struct": st, "path": q["_path"]}
            row["template"] = tid
        g["impls"].append(row)
    if g["VARIANTS"] is None:
        raise TieBroken(f"{qty}: no VARIANTS array")
    return g


def def_path(q):
    """which code path codegen took, read off the expansion"""
    items = q["expanded"]["items"]
    traits = {(impl_trait_name(it), nospace(it["self_ty"]["text"])) for it in items if it["k"] == "impl"}
    st = [it for it in items if it["k"] == "struct"][0]
    if ("HasRefUnit", q["ident"]) in traits:
        return "PRef"
    if len(st["fields"]) == 1:
        return "PSingle"
    return "PNoRef"


def gen_def_term(g):
    def pairs(l, f):
        return coq_list([f"({ustr(a)}, {f(b)})" for a, b in l], nl=len(l) > 3).replace("\n", "\n  ")

    impls = []
    for r in g["impls"]:
        impls.append("mkimpl_row %s %s %s %s %s %s %s" % (
            ustr_c(r["trait"]), ustr_c(r["self"]), ustr_c(r["rhs"]), ustr_c(r["output"]),
            coq_list([ustr_c(w) for w in r["where"]]), coq_list([ustr_c(w) for w in r["generics"]]),
            ustr_c(r["template"])))
    return ("mkgen_def %s %s %s\n    %s\n    %s\n    %s\n    %s\n    %s\n    %s\n    %s %s\n    %s\n    %s %s %s\n    %s" % (
        ustr_c(g["qty"]), ustr_c(g["enum"]), g["path"],
        coq_list([ustr_c(v) for v in g["enum_variants"]]),
        coq_list([ustr(v) for v in g["VARIANTS"]]),
        pairs(g["name_arms"], ustr_c), pairs(g["symbol_arms"], ustr_c),
        pairs(g["prefix_arms"], coq_ident), pairs(g["scale_arms"], lambda l: lit_term(*l)),
        coq_opt(ustr(g["ref_unit_unit"]) if g["ref_unit_unit"] else None),
        coq_opt(ustr(g["ref_unit_qty"]) if g["ref_unit_qty"] else None),
        pairs(g["consts"], ustr),
        coq_list([ustr(f) for f in g["struct_fields"]]), coq_bool(g["serde_enum"]), coq_bool(g["serde_struct"]),
        coq_list(impls, nl=True).replace("\n", "\n  ")))


def crate_of(q):
    if q["file"].startswith("src/"):
        return "quantities"
    if q["file"].startswith("astronimical"):
        return "astronomical"
    return "synthetic"


def module_of(q):
    if q["file"].startswith("src/"):
        return q["file"][4:-3]
    if q["file"].startswith("astronimical"):
        return "astro"
    return q["modpath"].rstrip(":")


def entry_name(q):
    c = crate_of(q)
    pre = {"quantities": "cat", "astronomical": "astro", "synthetic": "syn"}[c]
    return f"{pre}_{coq_ident(q['ident'])}"


def collect_catalogue(d):
    """returns (entries, templates) ; entries: list of dict(q, g, name)"""
    allq = d["quantities"] + d["synthetic"]
    for q in allq:
        if not q["ok"]:
            raise TieBroken(f"{q['file']}: definition {q['ident']} is rejected by the macro: {q['error']}")
    templates = {}
    entries = []
    # known type names are per crate (astro and main both define Length...)
    for crate in ("quantities", "astronomical", "synthetic"):
        qs = [q for q in allq if crate_of(q) == crate]
        known_qtys = {q["ident"] for q in qs}
        known_enums = {q["ident"] + "Unit" for q in qs}
        for q in qs:
            q["_path"] = def_path(q)
            g = analyze_expanded(q, known_qtys, known_enums, templates)
            g["path"] = q["_path"]
            entries.append({"q": q, "g": g, "name": entry_name(q), "crate": crate, "module": module_of(q)})
    return entries, templates


def emit_catalogue(entries):
    out = [HEADER, "From QV Require Import Rt.Prelude Macro.Defs Gen.Prefixes.\n"]
    names = {"quantities": [], "astronomical": [], "synthetic": []}
    for en in entries:
        q, g, name = en["q"], en["g"], en["name"]
        out.append(f"(* {q['file']}:{q['line']}  {q['modpath']}{q['ident']} *)")
        out.append(f"Definition {name}_raw : raw_def :=\n  {raw_def_term(q)}.\n")
        out.append(f"Definition {name}_gen : gen_def SIPrefix :=\n  {gen_def_term(g)}.\n")
        out.append(f"Definition {name} : cat_entry SIPrefix :=\n  mkcat_entry {ustr_c(en['crate'])} {ustr_c(en['module'])} {name}_raw {name}_gen.\n")
        names[en["crate"]].append(name)
    out.append("Definition catalogue_main : list (cat_entry SIPrefix) :=\n  " + coq_list(names["quantities"]) + ".\n")
    out.append("Definition catalogue_astro : list (cat_entry SIPrefix) :=\n  " + coq_list(names["astronomical"]) + ".\n")
    out.append("Definition catalogue_synthetic : list (cat_entry SIPrefix) :=\n  " + coq_list(names["synthetic"]) + ".\n")
    return "\n".join(out)


# ---------------------------------------------------------------------------
# TempTable.v


def emit_temptable(d):
    f = d["files"]["src/temperature.rs"]
    consts = find_items(f, "const", lambda it: it["id"] == "TEMPERATURE_CONVERTER")
    if len(consts) != 1:
        raise TieBroken("TEMPERATURE_CONVERTER not found")
    c = consts[0]
    ty = nospace(c["ty"]["text"])
    m = re.fullmatch(r"ConversionTable<Temperature,([0-9]+)>", ty)
    if not m:
        raise TieBroken(f"TEMPERATURE_CONVERTER has type {ty}")
    e = strip_paren(c["e"])
    if e["k"] != "struct" or e["path"]["segs"][-1]["id"] != "ConversionTable" or len(e["fields"]) != 1 \
            or e["fields"][0]["member"] != "mappings":
        raise TieBroken("TEMPERATURE_CONVERTER is not ConversionTable { mappings: [...] }")
    arr = strip_paren(e["fields"][0]["e"])
    if arr["k"] != "array":
        raise TieBroken("mappings is not an array literal")
    rows = []
    for el in arr["elems"]:
        el = strip_paren(el)
        if el["k"] != "tuple" or len(el["elems"]) != 4:
            raise TieBroken("mapping is not a 4-tuple")
        fr, to = path_last(el["elems"][0]), path_last(el["elems"][1])
        lits = []
        for x in el["elems"][2:]:
            x = strip_paren(x)
            if x["k"] != "macro" or x["name"] != "Amnt" or len(x["args"] or []) != 1:
                raise TieBroken("factor/offset is not Amnt!(literal)")
            lits.append(lit_term(*lit_of_expr(x["args"][0])))
        rows.append(f"({ustr_c(fr)}, {ustr_c(to)}, {lits[0]}, {lits[1]})")
    out = [HEADER, "From QV Require Import Rt.Prelude.\n",
           f"(* src/temperature.rs: pub const TEMPERATURE_CONVERTER: {c['ty']['text']} — rows (from const, to const, factor, offset) *)",
           f"Definition temperature_table_declared_len : N := {m.group(1)}%N.",
           "Definition temperature_table_rows : list (ustring * ustring * lit * lit) :=\n  " + coq_list(rows, nl=True) + ".\n"]
    return "\n".join(out)


# ---------------------------------------------------------------------------
# Config.v


def cfg_features(attrs):
    """list of cfg predicates (as canonical text) on an item"""
    return [nospace(a["text"]) for a in attrs if a["path"] in ("cfg", "cfg_attr")]


def cfg_feature_of(text):
    """'#[cfg(feature="x")]' -> 'x' ; None if not of that simple form"""
    m = re.fullmatch(r'#\[cfg\(feature="([a-z_0-9]+)"\)\]', text)
    return m.group(1) if m else None


def emit_config(d, repo):
    import tomllib
    with open(os.path.join(repo, "Cargo.toml"), "rb") as fh:
        cargo = tomllib.load(fh)
    feats = cargo.get("features", {})
    deps = cargo.get("dependencies", {})
    out = [HEADER, "From QV Require Import Rt.Prelude.\n"]
    rows = []
    for f, l in feats.items():
        rows.append(f"({ustr_c(f)}, " + coq_list([ustr_c(x) for x in l]) + ")")
    out.append("(* [features] of Cargo.toml, in file order *)\nDefinition cargo_features : list (ustring * list ustring) :=\n  "
               + coq_list(rows, nl=True) + ".\n")
    opt = [k for k, v in deps.items() if isinstance(v, dict) and v.get("optional")]
    out.append("(* optional dependencies (implicit features unless referenced with dep:) *)\n"
               "Definition cargo_optional_deps : list ustring := " + coq_list([ustr_c(x) for x in opt]) + ".\n")
    lib = d["files"]["src/lib.rs"]
    mods = []
    for it in lib["items"]:
        if it["k"] == "mod" and not it["inline"]:
            cf = cfg_features(it["attrs"])
            gate = None
            gate_text = ""
            if cf:
                if len(cf) == 1 and cfg_feature_of(cf[0]):
                    gate = cfg_feature_of(cf[0])
                gate_text = " ".join(cf)
            mods.append((it["id"], gate, gate_text, it["vis"]))
    rows = [f"({ustr_c(m)}, {coq_opt(ustr_c(g) if g else None)}, {ustr_c(t)}, {coq_bool(v.startswith('pub'))})" for m, g, t, v in mods]
    out.append("(* `mod` items of src/lib.rs: (module, simple feature gate, all cfg text, is pub) *)\n"
               "Definition lib_modules : list (ustring * option ustring * ustring * bool) :=\n  " + coq_list(rows, nl=True) + ".\n")
    # crate-module references of each module file: `use crate::{a::X, ...}` + any path starting with crate::
    modnames = {m for m, _, _, _ in mods}
    rows = []
    inner = []
    for rel, fj in sorted(d["files"].items()):
        if not rel.startswith("src/") or rel == "src/lib.rs":
            continue
        m = rel[4:-3]
        refs = []

        def walk(x, in_test=False):
            if isinstance(x, dict):
                if x.get("k") == "mod" and any("test" in a["text"] for a in x.get("attrs", [])):
                    return
                if x.get("k") == "use":
                    for p in x["paths"]:
                        segs = p.split("::")
                        if segs[0] == "crate" and len(segs) > 1 and segs[1] in modnames and segs[1] not in refs:
                            refs.append(segs[1])
                for a in x.get("attrs", []) if isinstance(x.get("attrs"), list) else []:
                    if a["path"] in ("cfg", "cfg_attr") and "test" not in a["text"]:
                        inner.append((m, nospace(a["text"])))
                p = x.get("path")
                if isinstance(p, dict) and "segs" in p:
                    segs = [s["id"] for s in p["segs"]]
                    if segs and segs[0] == "crate" and len(segs) > 1 and segs[1] in modnames and segs[1] not in refs:
                        refs.append(segs[1])
                for v in x.values():
                    walk(v)
            elif isinstance(x, list):
                for v in x:
                    walk(v)

        walk(fj["items"])
        rows.append(f"({ustr_c(m)}, " + coq_list([ustr_c(r) for r in refs]) + ")")
    out.append("(* crate modules named by each module file (use crate::m::..., crate::m::... paths), tests excluded *)\n"
               "Definition module_refs : list (ustring * list ustring) :=\n  " + coq_list(rows, nl=True) + ".\n")
    out.append("(* cfg attributes found inside module files (outside tests) *)\n"
               "Definition module_inner_cfgs : list (ustring * ustring) :=\n  "
               + coq_list([f"({ustr_c(m)}, {ustr_c(t)})" for m, t in inner], nl=True) + ".\n")
    # which type names does each module use from crate::prelude / crate root: derivation operands
    # top-level `pub use` re-exports of lib.rs with gates
    rows = []
    for it in lib["items"]:
        if it["k"] == "use" and it["vis"].startswith("pub"):
            cf = " ".join(cfg_features(it["attrs"]))
            for p in it["paths"]:
                rows.append(f"({ustr_c(p)}, {ustr_c(cf)})")
    out.append("(* `pub use` re-exports of src/lib.rs with their cfg text *)\n"
               "Definition lib_reexports : list (ustring * ustring) :=\n  " + coq_list(rows, nl=True) + ".\n")
    pre = d["files"]["src/prelude.rs"]
    rows = []
    for it in pre["items"]:
        if it["k"] == "use":
            cf = " ".join(cfg_features(it["attrs"]))
            for p in it["paths"]:
                rows.append(f"({ustr_c(p)}, {ustr_c(cf)})")
    out.append("(* re-exports of src/prelude.rs with their cfg text *)\n"
               "Definition prelude_reexports : list (ustring * ustring) :=\n  " + coq_list(rows, nl=True) + ".\n")
    # crate-level attributes
    out.append("Definition lib_crate_attrs : list ustring :=\n  "
               + coq_list([ustr_c(nospace(a["text"])) for a in lib["attrs"] if a["path"] in ("cfg_attr", "deny", "no_std")], nl=True) + ".\n")
    return "\n".join(out)
