"""Expression translator: the executable logic of src/lib.rs (default methods of
Unit, LinearScaledUnit, Quantity, HasRefUnit; the One/AmountT impls),
src/rate.rs, src/converter.rs and the bodies of the impls the macro generates
(one per template) -> Gallina (Gen/Kernels.v).  Literal, construct by
construct; anything outside the supported subset raises TieBroken."""
import re
from common import *

# ---------------------------------------------------------------------------
# types of the translated fragment
AMNT, STR, BOOL, ORD, FSPEC, PREFIX, UNITTY, TEXT = ("amnt",), ("str",), ("bool",), ("ord",), ("fspec",), ("prefix",), ("unit_ty",), ("text",)


def t_unit(x): return ("unit", x)
def t_qty(x): return ("qty", x)
def t_opt(t): return ("opt", t)
def t_list(t): return ("list", t)


class Val:
    def __init__(self, code, ty, pure=True):
        self.code, self.ty, self.pure = code, ty, pure


class Fn:
    """a translated function"""

    def __init__(self, name):
        self.name = name
        self.insts = []        # instance variables (order)
        self.level = {}        # inst var -> "base" | "full"
        self.params = []       # (gallina name, Ty)
        self.extra = []        # extra higher-order parameters (text)
        self.ret = None
        self.pure = True
        self.body = None
        self.src = ""
        self.doc = ""


class Translator:
    def __init__(self, d, templates):
        self.d = d
        self.templates = templates
        self.fns = {}          # gallina name -> Fn (translated)
        self.order = []        # emission order
        self.pending = set()
        self.counter = 0
        self.sources = {}      # gallina name -> (ctx factory, fn json)
        self.records = []      # emitted record definitions (text)

    # -- naming
    def fresh(self, base="t"):
        self.counter += 1
        return f"{base}{self.counter}"

    # -- rendering of types
    def render_ty(self, ty):
        k = ty[0]
        if k == "amnt": return "(A am)"
        if k == "unit": return "nat"
        if k == "qty":
            return "(A am)" if ty[1] == "AMOUNT" else f"(Qt {ty[1]})"
        if k == "str": return "ustring"
        if k == "bool": return "bool"
        if k == "ord": return "comparison"
        if k == "fspec": return "fspec"
        if k == "prefix": return "SIPrefix"
        if k == "opt": return f"(option {self.render_ty(ty[1])})"
        if k == "list": return f"(list {self.render_ty(ty[1])})"
        if k == "rate": return "(rate am)"
        if k == "tuple": return "(" + " * ".join(self.render_ty(t) for t in ty[1]) + ")%type"
        if k == "text": return "ustring"
        if k == "n": return "N"
        if k == "struct": return f"({ty[1]} am)"
        if k == "convtable": return "(list (nat * nat * A am * A am))"
        if k == "tyvar": return ty[1]
        raise TieBroken(f"cannot render type {ty}")

    # -----------------------------------------------------------------------
    # function registration / on-demand translation

    def register(self, gname, ctxf, fnjson, src):
        self.sources[gname] = (ctxf, fnjson, src)

    def need(self, gname):
        if gname in self.fns:
            return self.fns[gname]
        if gname not in self.sources:
            raise TieBroken(f"call to {gname}, which is not part of the translated fragment")
        if gname in self.pending:
            raise TieBroken(f"recursive function {gname}")
        self.pending.add(gname)
        ctxf, fnjson, src = self.sources[gname]
        fn = self.translate_fn(gname, ctxf(), fnjson, src)
        self.pending.discard(gname)
        self.fns[gname] = fn
        self.order.append(gname)
        return fn

    # -----------------------------------------------------------------------

    def parse_type(self, t, ctx):
        if t is None:
            return UNITTY
        k = t["k"]
        if k == "ref":
            return self.parse_type(t["elem"], ctx)
        if k == "tuple":
            if not t["elems"]:
                return UNITTY
            return ("tuple", [self.parse_type(x, ctx) for x in t["elems"]])
        if k == "other":
            txt = nospace(t["text"])
            m = re.fullmatch(r"implIterator<Item=(.*)>", txt)
            if m:
                inner = m.group(1)
                if inner == "Self":
                    return t_list(ctx["self"])
                if inner == "Self::UnitType":
                    return t_list(ctx["assoc"]["Self::UnitType"])
            raise TieBroken(f"unsupported type {t['text']}")
        if k != "path":
            raise TieBroken(f"unsupported type {t.get('text')}")
        txt = nospace(t["text"])
        if t.get("qself"):
            # <X as Tr>::Output
            m = re.fullmatch(r"<(.+)as(Mul|Div)<(.+)>>::Output", txt)
            if m:
                return ("tyvar", "OutT")
            raise TieBroken(f"unsupported qualified type {txt}")
        if txt in ctx["assoc"]:
            return ctx["assoc"][txt]
        if txt == "AmountT": return AMNT
        if txt == "Self": return ctx["self"]
        if txt in ("String", "str"): return STR
        if txt == "bool": return BOOL
        if txt == "Ordering": return ORD
        if txt in ("fmt::Formatter<'_>", "Formatter<'_>"): return FSPEC
        if txt == "fmt::Result": return TEXT
        if txt == "usize": return ("n",)
        if txt == "One": return t_unit("AMOUNT")
        m = re.fullmatch(r"Option<(.+)>", txt)
        if m:
            seg = t["path"]["segs"][-1]["args"][0]["ty"]
            return t_opt(self.parse_type(seg, ctx))
        if txt in ctx["insts"]:
            return t_qty(txt)
        m = re.fullmatch(r"([A-Za-z0-9_]+)::UnitType", txt)
        if m and m.group(1) in ctx["insts"]:
            return t_unit(m.group(1))
        m = re.fullmatch(r"([A-Za-z0-9_]+)Unit", txt)
        if m and m.group(1) in ctx["insts"]:
            return t_unit(m.group(1))
        m = re.fullmatch(r"Rate<([A-Za-z0-9_]+),([A-Za-z0-9_]+)>", txt)
        if m:
            def r(x): return ctx["selfinst"] if x == "Self" else x
            return ("rate", r(m.group(1)), r(m.group(2)))
        if txt == "SIPrefix": return PREFIX
        raise TieBroken(f"unsupported type {txt} in {ctx['where']}")

    # -----------------------------------------------------------------------

    def translate_fn(self, gname, ctx, fnjson, src):
        fn = Fn(gname)
        fn.src = src
        ctx["fn"] = fn
        ctx["where"] = src
        fn.insts = list(ctx["insts"])
        fn.level = {x: "base" for x in fn.insts}
        env = {}
        sig = fnjson["sig"]
        for inp in sig["inputs"]:
            if inp["k"] == "self":
                env["self"] = ("self", ctx["self"])
                fn.params.append(("self", ctx["self"]))
            else:
                pat = inp["pat"]
                if pat["k"] == "wild":
                    nm = self.fresh("_w")
                    fn.params.append((nm, self.parse_type(inp["ty"], ctx)))
                    continue
                if pat["k"] != "ident":
                    raise TieBroken(f"{src}: parameter pattern")
                nm = pat["id"]
                ty = self.parse_type(inp["ty"], ctx)
                g = coq_ident(nm.lstrip("_")) if nm.startswith("_") else coq_ident(nm)
                if g in ("unit", "end", "at", "as", "in", "fix", "fun", "if", "then", "else", "return", "with", "match", "let", "type", "by", "using", "where", "for"):
                    g = g + "_"
                env[nm] = (g, ty)
                fn.params.append((g, ty))
        fn.ret = self.parse_type(sig["output"], ctx)
        ctx["ret"] = fn.ret
        if fn.ret == TEXT:
            v = self.tr_writer_block(fnjson["body"], ctx, env)
        else:
            v = self.tr_block(fnjson["body"], ctx, env)
        fn.pure = v.pure
        fn.body = v.code
        if fn.ret == UNITTY:
            raise TieBroken(f"{src}: function without result")
        return fn

    def render_fn(self, fn):
        parts = []
        for x in fn.insts:
            if x == "AMOUNT":
                continue
            parts.append(f"({x} : {'QFull' if fn.level[x]=='full' else 'QBase'} am)")
        parts += fn.extra
        for g, ty in fn.params:
            parts.append(f"({g} : {self.render_ty(ty)})")
        rty = self.render_ty(fn.ret)
        if not fn.pure:
            rty = f"(res {rty})"
        tv = ""
        if any("OutT" in p or "SelfT" in p for p in fn.extra):
            tv = ""
        return (f"(* {fn.src.replace('(*', '( *').replace('*)', '* )')} *)\nDefinition {fn.name} {{am : Amount}} {' '.join(parts)} : {rty} :=\n  {fn.body}.\n")

    # -----------------------------------------------------------------------
    # calls to other translated functions

    def call_fn(self, gname, inst_args, args, ctx):
        """inst_args: list of instance var names (in callee order); args: pure code strings"""
        callee = self.need(gname)
        me = ctx["fn"]
        actual = []
        ia = [x for x in inst_args]
        ci = [x for x in callee.insts]
        if len(ia) != len(ci):
            raise TieBroken(f"{ctx['where']}: instance arity mismatch calling {gname}")
        for mine, theirs in zip(ia, ci):
            if theirs == "AMOUNT":
                continue
            if callee.level[theirs] == "full":
                self.use_full(ctx, mine)
            actual.append(mine)
        code = "(" + " ".join([gname] + actual + args) + ")"
        return Val(code, self.subst_ty(callee.ret, dict(zip(ci, ia))), callee.pure)

    def use_full(self, ctx, x):
        if x == "AMOUNT":
            return
        if x not in ctx["fn"].level:
            raise TieBroken(f"{ctx['where']}: unknown instance {x}")
        ctx["fn"].level[x] = "full"

    # -----------------------------------------------------------------------
    # sequencing helper

    def bindall(self, vals, k):
        names, wraps = [], []
        for v in vals:
            if v.pure:
                names.append(v.code)
            else:
                t = self.fresh()
                names.append(t)
                wraps.append((t, v.code))
        r = k(names)
        if not wraps:
            return r
        body = r.code if not r.pure else f"Ok {paren(r.code)}"
        for t, c in reversed(wraps):
            body = f"bind {paren(c)} (fun {t} => {body})"
        return Val(body, r.ty, False)

    def lift(self, v):
        return v.code if not v.pure else f"Ok {paren(v.code)}"

    # -----------------------------------------------------------------------
    # blocks and statements

    def tr_block(self, stmts, ctx, env, writer=False):
        env = dict(env)
        if not stmts:
            if writer:
                return Val(ustr(""), TEXT, True)
            raise TieBroken(f"{ctx['where']}: empty block")
        s = stmts[0]
        rest = stmts[1:]
        if s["k"] == "expr" and rest:
            e = strip_paren(s["e"])
            # `s.push(c);` / `s.push_str(&t);` on a local String: the string with the piece appended
            if e["k"] == "mcall" and e["method"] in ("push", "push_str") and len(e["args"]) == 1:
                r = strip_paren(e["recv"])
                if r["k"] == "path" and len(r["path"]["segs"]) == 1 and r["path"]["segs"][0]["id"] in env:
                    nm = r["path"]["segs"][0]["id"]
                    g, ty = env[nm]
                    if g is not None and ty == STR:
                        arg = strip_paren(e["args"][0])
                        while arg["k"] == "ref":
                            arg = strip_paren(arg["e"])
                        if e["method"] == "push":
                            if arg["k"] != "lit" or arg["lit"].get("k") != "char":
                                raise TieBroken(f"{ctx['where']}: String::push of a non-literal")
                            piece = Val(f"[{ord(arg['lit']['v'])}%N]", STR, True)
                        else:
                            piece = self.tr_expr(arg, ctx, env)
                            if piece.ty != STR:
                                raise TieBroken(f"{ctx['where']}: push_str of {piece.ty}")
                        newv = self.bindall([piece], lambda c: Val(f"({g} ++ {c[0]})", STR, True))
                        return self.finish_let(nm, newv, rest, ctx, env, writer)
        if writer and s["k"] == "expr":
            e = strip_paren(s["e"])
            deferred = e["k"] == "if" and e["else"] is not None and self.assign_target(e["then"])
            if not deferred:
                head = self.tr_writer_expr(e, ctx, env)
                if not rest:
                    return head
                tail = self.tr_block(rest, ctx, env, True)
                return Val(f"({head.code} ++ {tail.code})", TEXT, True)
        if s["k"] == "let":
            cfgs = [nospace(a["text"]) for a in s["attrs"] if a["path"] == "cfg"]
            pat = s["pat"]
            declared_ty = None
            if pat["k"] == "typed":
                declared_ty = pat["ty"]
                pat = pat["pat"]
            if pat["k"] != "ident":
                raise TieBroken(f"{ctx['where']}: let pattern")
            name = pat["id"]
            if s["init"] is None:
                # deferred initialisation: `let tmp: T;` ... `if c { tmp = a } else { tmp = b }`
                env[name] = (None, self.parse_type(declared_ty, ctx))
                return self.tr_block(rest, ctx, env, writer)
            if cfgs:
                # #[cfg(feature = "fpdec")] let x = A;  #[cfg(not(feature = "fpdec"))] let x = B;
                if len(rest) >= 1 and rest[0]["k"] == "let" and rest[0]["pat"].get("id") == name:
                    c2 = [nospace(a["text"]) for a in rest[0]["attrs"] if a["path"] == "cfg"]
                    pos, neg = '#[cfg(feature="fpdec")]', '#[cfg(not(feature="fpdec"))]'
                    if cfgs == [pos] and c2 == [neg]:
                        va, vb = self.tr_expr(s["init"], ctx, env), self.tr_expr(rest[0]["init"], ctx, env)
                    elif cfgs == [neg] and c2 == [pos]:
                        vb, va = self.tr_expr(s["init"], ctx, env), self.tr_expr(rest[0]["init"], ctx, env)
                    else:
                        raise TieBroken(f"{ctx['where']}: unsupported cfg on let")
                    if va.ty != vb.ty:
                        raise TieBroken(f"{ctx['where']}: cfg alternatives of different type")
                    if va.pure and vb.pure:
                        init = Val(f"(if a_is_dec am then {va.code} else {vb.code})", va.ty, True)
                    else:
                        init = Val(f"(if a_is_dec am then {self.lift(va)} else {self.lift(vb)})", va.ty, False)
                    return self.finish_let(name, init, rest[1:], ctx, env, writer)
                raise TieBroken(f"{ctx['where']}: unsupported cfg on let")
            init_e = s["init"]
            # `let first = it.next().unwrap();` on a `let mut it`
            e0 = strip_paren(init_e)
            unwrap = False
            if e0["k"] == "mcall" and e0["method"] == "unwrap" and not e0["args"]:
                inner = strip_paren(e0["recv"])
                if inner["k"] == "mcall" and inner["method"] == "next":
                    unwrap, e0 = True, inner
            if e0["k"] == "mcall" and e0["method"] == "next" and not e0["args"]:
                r = strip_paren(e0["recv"])
                if r["k"] == "path" and len(r["path"]["segs"]) == 1 and r["path"]["segs"][0]["id"] in env:
                    itn = r["path"]["segs"][0]["id"]
                    g, ty = env[itn]
                    if ty[0] != "list":
                        raise TieBroken(f"{ctx['where']}: next() on a non-iterator")
                    o, it2 = self.fresh("nx"), self.fresh("it")
                    env2 = dict(env)
                    env2[itn] = (it2, ty)
                    ov = Val(o, t_opt(ty[1]), True)
                    if unwrap:
                        ov = Val(f"(opt_unwrap {o})", ty[1], False)
                    r2 = self.finish_let(name, ov, rest, ctx, env2, writer)
                    return Val(f"(let '({o}, {it2}) := iter_next {g} in\n  {r2.code})", r2.ty, r2.pure)
            init = self.tr_expr(init_e, ctx, env)
            return self.finish_let(name, init, rest, ctx, env, writer)
        if s["k"] == "expr":
            e = strip_paren(s["e"])
            if not rest:
                if e["k"] == "return":
                    return self.tr_expr(e["e"], ctx, env)
                return self.tr_expr(e, ctx, env)
            # `if c { return x; }` followed by the rest
            if e["k"] == "if" and e["else"] is None:
                cond = self.tr_expr(e["cond"], ctx, env)
                thenv = self.tr_block(e["then"], ctx, env)
                restv = self.tr_block(rest, ctx, env)
                return self.mk_if(cond, thenv, restv)
            # deferred initialisation by assignment in both branches
            if e["k"] == "if" and e["else"] is not None:
                tgt = self.assign_target(e["then"])
                els = strip_paren(e["else"])
                if tgt and els["k"] == "block" and self.assign_target(els["stmts"]) == tgt and tgt in env and env[tgt][0] is None:
                    va = self.tr_if_general(e, ctx, env, as_assign=tgt)
                    return self.finish_let(tgt, va, rest, ctx, env, writer)
            if e["k"] == "return":
                return self.tr_expr(e["e"], ctx, env)
            raise TieBroken(f"{ctx['where']}: unsupported statement (line {s.get('line')})")
        raise TieBroken(f"{ctx['where']}: unsupported statement kind {s['k']}")

    def assign_target(self, stmts):
        if len(stmts) == 1 and stmts[0]["k"] == "expr":
            e = strip_paren(stmts[0]["e"])
            if e["k"] == "assign" and strip_paren(e["l"])["k"] == "path":
                return strip_paren(e["l"])["path"]["segs"][0]["id"]
        return None

    def finish_let(self, name, init, rest, ctx, env, writer=False):
        env = dict(env)
        g = coq_ident(name)
        if g in ("unit", "last", "first", "scale", "tmp", "amnt", "it"):
            g = g + "_"
        env[name] = (g, init.ty)
        body = self.tr_block(rest, ctx, env, writer)
        if init.pure:
            return Val(f"(let {g} := {init.code} in\n  {body.code})", body.ty, body.pure)
        return Val(f"bind {paren(init.code)} (fun {g} =>\n  {self.lift(body)})", body.ty, False)

    def mk_if(self, cond, a, b):
        def k(cs):
            c = cs[0]
            ty = unify(a.ty, b.ty)
            if ty is None:
                raise TieBroken(f"if branches of different type {a.ty} / {b.ty}")
            if a.pure and b.pure:
                return Val(f"(if {c} then {a.code} else {b.code})", ty, True)
            return Val(f"(if {c} then {self.lift(a)} else {self.lift(b)})", ty, False)
        return self.bindall([cond], k)

    def tr_if_general(self, e, ctx, env, as_assign=None):
        def branch(stmts):
            if as_assign:
                return self.tr_expr(strip_paren(stmts[0]["e"])["r"], ctx, env)
            return self.tr_block(stmts, ctx, env)
        c = strip_paren(e["cond"])
        els = strip_paren(e["else"])
        if els["k"] == "block":
            else_stmts = els["stmts"]
            elsef = lambda env2=env: branch(else_stmts)
        elif els["k"] == "if":
            elsef = lambda: self.tr_if_general(els, ctx, env, as_assign)
        else:
            raise TieBroken(f"{ctx['where']}: else branch")
        if c["k"] == "letcond":
            # if let Some(x) = e { A } else { B }
            pat = c["pat"]
            if pat["k"] != "tuplestruct" or pat["path"]["segs"][-1]["id"] != "Some" or pat["elems"][0]["k"] != "ident":
                raise TieBroken(f"{ctx['where']}: if-let pattern")
            sv = self.tr_expr(c["e"], ctx, env)
            if sv.ty[0] != "opt":
                raise TieBroken(f"{ctx['where']}: if-let on non-option")
            x = coq_ident(pat["elems"][0]["id"])
            env2 = dict(env)
            env2[pat["elems"][0]["id"]] = (x, sv.ty[1])
            if as_assign:
                a = self.tr_expr(strip_paren(e["then"][0]["e"])["r"], ctx, env2)
            else:
                a = self.tr_block(e["then"], ctx, env2)
            b = elsef()

            def k(cs):
                if a.pure and b.pure:
                    return Val(f"(match {cs[0]} with Some {x} => {a.code} | None => {b.code} end)", a.ty, True)
                return Val(f"(match {cs[0]} with Some {x} => {self.lift(a)} | None => {self.lift(b)} end)", a.ty, False)
            return self.bindall([sv], k)
        cond = self.tr_expr(c, ctx, env)
        a = branch(e["then"])
        b = elsef()
        return self.mk_if(cond, a, b)

    # -----------------------------------------------------------------------
    # expressions

    def tr_expr(self, e, ctx, env):
        k = e["k"]
        meth = getattr(self, "e_" + k, None)
        if meth is None:
            raise TieBroken(f"{ctx['where']}: unsupported expression kind {k}: {str(e)[:200]}")
        return meth(e, ctx, env)

    def e_paren(self, e, ctx, env):
        return self.tr_expr(e["e"], ctx, env)

    def e_block(self, e, ctx, env):
        return self.tr_block(e["stmts"], ctx, env)

    def e_ref(self, e, ctx, env):
        return self.tr_expr(e["e"], ctx, env)

    def e_return(self, e, ctx, env):
        return self.tr_expr(e["e"], ctx, env)

    def e_lit(self, e, ctx, env):
        l = e["lit"]
        if l["k"] == "str":
            return Val(ustr(l["v"]), STR, True)
        if l["k"] == "bool":
            return Val(coq_bool(l["v"]), BOOL, True)
        raise TieBroken(f"{ctx['where']}: bare numeric literal {l}")

    def e_unary(self, e, ctx, env):
        v = self.tr_expr(e["e"], ctx, env)
        op = e["op"]
        if op == "*":
            return v
        if op == "-" and v.ty == AMNT:
            return self.bindall([v], lambda c: Val(f"(a_neg am {c[0]})", AMNT, True))
        if op == "!" and v.ty == BOOL:
            return self.bindall([v], lambda c: Val(f"(negb {c[0]})", BOOL, True))
        raise TieBroken(f"{ctx['where']}: unary {op} on {v.ty}")

    def e_if(self, e, ctx, env):
        if e["else"] is None:
            raise TieBroken(f"{ctx['where']}: if without else as a value")
        return self.tr_if_general(e, ctx, env)

    def e_path(self, e, ctx, env):
        segs = [s["id"] for s in e["path"]["segs"]]
        txt = e["path"]["text"]
        if len(segs) == 1 and segs[0] in env:
            g, ty = env[segs[0]]
            if g is None:
                raise TieBroken(f"{ctx['where']}: use of uninitialised {segs[0]}")
            return Val(g, ty, True)
        if txt == "AMNT_ONE": return Val("(a_one am)", AMNT, True)
        if txt == "AMNT_ZERO": return Val("(a_zero am)", AMNT, True)
        if txt == "None": return Val("None", ("opt", ("?",)), True)
        if txt == "ONE" or txt == "One::One": return Val("0%nat", t_unit("AMOUNT"), True)
        if txt == "Self::REF_UNIT":
            x = ctx["self"][1]
            return Val(f"(u_ref_unit {x})", t_unit(x), True)
        m = re.fullmatch(r"Self::UnitType::([A-Za-z0-9_]+)", txt)
        if m and ctx.get("variants") and m.group(1) in ctx["variants"]:
            return Val(f"{ctx['variants'].index(m.group(1))}%nat", t_unit(ctx["self"][1]), True)
        raise TieBroken(f"{ctx['where']}: unsupported path {txt}")

    def e_field(self, e, ctx, env):
        b = self.tr_expr(e["base"], ctx, env)
        mem = e["member"]
        if b.ty[0] == "struct":
            fields = ctx["struct_fields"][b.ty[1]]
            if mem not in fields:
                raise TieBroken(f"{ctx['where']}: no field {mem}")
            return self.bindall([b], lambda c: Val(f"({fields[mem][0]} {c[0]})", fields[mem][1], True))
        if b.ty[0] == "rate":
            f = ctx["rate_fields"]
            x = {"term_unit": b.ty[1], "per_unit": b.ty[2]}
            ty = t_unit(x[mem]) if mem in x else AMNT
            if mem not in f:
                raise TieBroken(f"{ctx['where']}: no field {mem} in Rate")
            return self.bindall([b], lambda c: Val(f"({f[mem]} {c[0]})", ty, True))
        if b.ty[0] == "qty" and mem in ("amount", "unit") and b.ty[1] != "AMOUNT":
            # a generated operator impl reading the struct's field directly instead of calling the accessor
            # (the accessors of the generated struct are field reads: templates Quantity_*_amount / _unit)
            if mem == "amount":
                return self.bindall([b], lambda c: Val(f"(q_amount {b.ty[1]} {c[0]})", AMNT, True))
            return self.bindall([b], lambda c: Val(f"(q_unit {b.ty[1]} {c[0]})", t_unit(b.ty[1]), True))
        if b.ty[0] == "convtable" and mem == "mappings":
            q = b.ty[1]
            return Val(b.code, t_list(("tuple", [t_unit(q), t_unit(q), AMNT, AMNT])), b.pure)
        raise TieBroken(f"{ctx['where']}: field access .{mem} on {b.ty}")

    def e_struct(self, e, ctx, env):
        name = e["path"]["text"]
        vals = {f["member"]: self.tr_expr(f["e"], ctx, env) for f in e["fields"]}
        if name == "Self" and ctx["self"][0] == "struct":
            sname = ctx["self"][1]
            fields = ctx["struct_fields"][sname]
            order = list(fields.keys())
            if set(vals) != set(order):
                raise TieBroken(f"{ctx['where']}: struct literal fields")
            return self.bindall([vals[f] for f in order], lambda c: Val(f"({ctx['struct_ctor'][sname]} am " + " ".join(c) + ")", ctx["self"], True))
        if name == "Self" and ctx["self"][0] == "qty" and ctx["self"][1] != "AMOUNT" and set(vals) in ({"amount"}, {"amount", "unit"}):
            # a generated operator impl building the struct by a literal instead of Self::new
            x = ctx["self"][1]
            if "unit" in vals:
                return self.bindall([vals["amount"], vals["unit"]], lambda c: Val(f"(q_new {x} {c[0]} {c[1]})", t_qty(x), True))
            return self.bindall([vals["amount"]], lambda c: Val(f"(q_new {x} {c[0]} 0%nat)", t_qty(x), True))
        if name == "Self" and ctx["self"][0] == "rate":
            order = ["term_amount", "term_unit", "per_unit_multiple", "per_unit"]
            if set(vals) != set(order):
                raise TieBroken(f"{ctx['where']}: Rate literal fields")
            return self.bindall([vals[f] for f in order], lambda c: Val("(mk_rate am " + " ".join(c) + ")", ctx["self"], True))
        raise TieBroken(f"{ctx['where']}: struct literal {name}")

    def e_binary(self, e, ctx, env):
        op = e["op"]
        a = self.tr_expr(e["l"], ctx, env)
        b = self.tr_expr(e["r"], ctx, env)
        ta, tb = a.ty, b.ty
        if op in ("&&", "||"):
            if not (a.pure and b.pure) or ta != BOOL or tb != BOOL:
                raise TieBroken(f"{ctx['where']}: {op} with effects")
            f = "andb" if op == "&&" else "orb"
            return Val(f"({f} {a.code} {b.code})", BOOL, True)
        if ta == AMNT and tb == AMNT:
            arith = {"+": "a_add", "-": "a_sub", "*": "a_mul", "/": "a_div"}
            cmpo = {"==": "a_eqb am", "!=": "a_neb am", "<": "a_lt am", "<=": "a_le am", ">": "a_gt am", ">=": "a_ge am"}
            if op in arith:
                return self.bindall([a, b], lambda c: Val(f"({arith[op]} am {c[0]} {c[1]})", AMNT, False))
            if op in cmpo:
                return self.bindall([a, b], lambda c: Val(f"({cmpo[op]} {c[0]} {c[1]})", BOOL, True))
        if ta[0] == "unit" and tb[0] == "unit" and ta == tb and op in ("==", "!="):
            f = "Nat.eqb" if op == "==" else "(fun x y => negb (Nat.eqb x y))"
            return self.bindall([a, b], lambda c: Val(f"({f} {c[0]} {c[1]})", BOOL, True))
        if ta == STR and tb == STR and op in ("==", "!="):
            f = "ustr_eqb" if op == "==" else "(fun x y => negb (ustr_eqb x y))"
            return self.bindall([a, b], lambda c: Val(f"({f} {c[0]} {c[1]})", BOOL, True))
        if ta[0] == "qty" and ta == tb and op == "/":
            x = ta[1]
            if x == "AMOUNT":
                return self.bindall([a, b], lambda c: Val(f"(a_div am {c[0]} {c[1]})", AMNT, False))
            self.use_full(ctx, x)
            return self.bindall([a, b], lambda c: Val(f"(q_div {x} {c[0]} {c[1]})", AMNT, False))
        raise TieBroken(f"{ctx['where']}: operator {op} on {ta} and {tb} (line {e.get('line')})")

    def e_macro(self, e, ctx, env):
        name = e["name"]
        if name == "panic":
            args = e["args"] or []
            msg = args[0]["lit"]["v"] if args and args[0]["k"] == "lit" and args[0]["lit"]["k"] == "str" else ""
            kind = "PUnitMismatch" if msg.startswith("Can't ") else "POther"
            return Val(f"(Panic {kind})", ("never",), False)
        if name == "Amnt":
            return Val(f"(a_lit am {lit_term(*lit_of_expr(e['args'][0]))})", AMNT, True)
        if name == "format":
            return self.tr_format(e["args"], ctx, env)
        raise TieBroken(f"{ctx['where']}: macro {name}!")

    def e_closure(self, e, ctx, env):
        raise TieBroken(f"{ctx['where']}: closure outside an iterator adaptor")

    def e_tuple(self, e, ctx, env):
        vals = [self.tr_expr(x, ctx, env) for x in e["elems"]]
        return self.bindall(vals, lambda c: Val("(" + ", ".join(c) + ")", ("tuple", [v.ty for v in vals]), True))

    def e_match(self, e, ctx, env):
        sv = self.tr_expr(e["e"], ctx, env)
        if sv.ty == BOOL and len(e["arms"]) == 2:
            # match c { true => A, false => B } (or with a wildcard second arm) is if c { A } else { B }
            def lit_bool(p):
                if p["k"] == "lit":
                    l = p.get("lit") or p.get("e", {}).get("lit") or {}
                    if l.get("k") == "bool":
                        return bool(l["v"]) if not isinstance(l["v"], str) else l["v"] == "true"
                    return None
                if p["k"] == "wild":
                    return "_"
                return None
            pats = [lit_bool(a["pat"]) for a in e["arms"]]
            if any(a["guard"] is not None for a in e["arms"]) or None in pats or pats[0] == "_":
                raise TieBroken(f"{ctx['where']}: match on bool with patterns {[a['pat'] for a in e['arms']]}")
            if pats[1] != "_" and pats[1] == pats[0]:
                raise TieBroken(f"{ctx['where']}: match on bool: duplicate arm")
            first = self.tr_expr(e["arms"][0]["body"], ctx, env)
            second = self.tr_expr(e["arms"][1]["body"], ctx, env)
            return self.mk_if(sv, first, second) if pats[0] is True else self.mk_if(sv, second, first)
        if sv.ty[0] != "opt" or len(e["arms"]) != 2:
            raise TieBroken(f"{ctx['where']}: match on {sv.ty}")
        some = none = None
        for a in e["arms"]:
            p = a["pat"]
            if a["guard"] is not None:
                raise TieBroken("guard")
            if p["k"] == "tuplestruct" and p["path"]["segs"][-1]["id"] == "Some" and p["elems"][0]["k"] == "ident":
                some = (p["elems"][0]["id"], a["body"])
            elif (p["k"] == "ident" and p["id"] == "None") or (p["k"] == "path" and p["path"]["segs"][-1]["id"] == "None"):
                none = a["body"]
            else:
                raise TieBroken(f"{ctx['where']}: match arm pattern {p}")
        if some is None or none is None:
            raise TieBroken(f"{ctx['where']}: match arms")
        x = coq_ident(some[0])
        if x in ("unit",):
            x += "_"
        env2 = dict(env)
        env2[some[0]] = (x, sv.ty[1])
        a = self.tr_expr(some[1], ctx, env2)
        b = self.tr_expr(none, ctx, env)
        mty = unify(a.ty, b.ty)
        if mty is None:
            raise TieBroken(f"{ctx['where']}: match arms of different type")
        a.ty = b.ty = mty

        def k(cs):
            if a.pure and b.pure:
                return Val(f"(match {cs[0]} with\n   | Some {x} => {a.code}\n   | None => {b.code}\n   end)", a.ty, True)
            return Val(f"(match {cs[0]} with\n   | Some {x} => {self.lift(a)}\n   | None => {self.lift(b)}\n   end)", a.ty, False)
        return self.bindall([sv], k)

    # -- closures for iterator adaptors
    def closure(self, cl, elem_ty, ctx, env, want_pure=True):
        cl = strip_paren(cl)
        if cl["k"] != "closure" or len(cl["params"]) != 1:
            raise TieBroken(f"{ctx['where']}: closure expected")
        p = cl["params"][0]
        while p["k"] == "ref":
            p = p["pat"]
        env2 = dict(env)
        if p["k"] == "ident":
            x = coq_ident(p["id"])
            if x in ("unit",):
                x += "_"
            env2[p["id"]] = (x, elem_ty)
            binder = x
        elif p["k"] == "tuple" and elem_ty[0] == "tuple":
            names = []
            for q, t in zip(p["elems"], elem_ty[1]):
                if q["k"] != "ident":
                    raise TieBroken("closure tuple pattern")
                g = coq_ident(q["id"]) + "_"
                env2[q["id"]] = (g, t)
                names.append(g)
            binder = "'(" + ", ".join(names) + ")"
        else:
            raise TieBroken(f"{ctx['where']}: closure parameter")
        body = self.tr_expr(cl["body"], ctx, env2)
        if want_pure and not body.pure:
            raise TieBroken(f"{ctx['where']}: closure with effects in a pure adaptor")
        return binder, body

    def e_mcall(self, e, ctx, env):
        m = e["method"]
        recv = self.tr_expr(e["recv"], ctx, env)
        rt = recv.ty
        args = e["args"]
        k = rt[0]
        if k == "unit":
            x = rt[1]
            fields = {"symbol": ("u_symbol", STR), "name": ("u_name", STR), "si_prefix": ("u_si_prefix", t_opt(PREFIX)),
                      "scale": ("u_scale", AMNT)}
            if x == "AMOUNT":
                return self.amount_inst_method("One", m, recv, args, ctx, env)
            if m in fields and not args:
                f, ty = fields[m]
                return self.bindall([recv], lambda c: Val(f"({f} {x} {c[0]})", ty, True))
            for tr in ("Unit", "LinearScaledUnit"):
                g = f"{tr}_{m}"
                if g in self.sources:
                    avals = [self.tr_expr(a, ctx, env) for a in args]
                    return self.bindall([recv] + avals, lambda c: self.call_fn(g, [x], c, ctx))
            raise TieBroken(f"{ctx['where']}: method {m} on a unit")
        if k == "qty":
            x = rt[1]
            if x == "AMOUNT":
                return self.amount_inst_method("AmountT", m, recv, args, ctx, env)
            fields = {"unit": ("q_unit", t_unit(x)), "amount": ("q_amount", AMNT)}
            if m in fields and not args:
                f, ty = fields[m]
                return self.bindall([recv], lambda c: Val(f"({f} {x} {c[0]})", ty, True))
            for tr in ("HasRefUnit", "Quantity"):
                g = f"{tr}_{m}"
                if g in self.sources and m not in ("eq", "partial_cmp", "add", "sub", "div", "fmt"):
                    avals = [self.tr_expr(a, ctx, env) for a in args]
                    return self.bindall([recv] + avals, lambda c: self.call_fn(g, [x], c, ctx))
            raise TieBroken(f"{ctx['where']}: method {m} on a quantity")
        if k == "struct":
            # accessor methods of the generated struct inside its own impl
            raise TieBroken(f"{ctx['where']}: method {m} on the struct")
        if k == "amnt":
            if m == "abs" and not args:
                return self.bindall([recv], lambda c: Val(f"(a_abs am {c[0]})", AMNT, True))
            if m == "is_sign_negative" and not args:
                return self.bindall([recv], lambda c: Val(f"(a_sign_neg am {c[0]})", BOOL, True))
            if ctx.get("amount_is_qty") or True:
                # AmountT is itself a quantity (impl Quantity for AmountT)
                return self.amount_inst_method("AmountT", m, recv, args, ctx, env)
        if k == "opt":
            if m == "is_some": return self.bindall([recv], lambda c: Val(f"(opt_is_some {c[0]})", BOOL, True))
            if m == "is_none": return self.bindall([recv], lambda c: Val(f"(opt_is_none {c[0]})", BOOL, True))
            if m in ("unwrap", "expect"): return self.bindall([recv], lambda c: Val(f"(opt_unwrap {c[0]})", rt[1], False))
            if m == "unwrap_or" and len(args) == 1:
                d = self.tr_expr(args[0], ctx, env)
                x = self.fresh()
                return self.bindall([recv, d], lambda c: Val(f"(match {c[0]} with Some {x} => {x} | None => {c[1]} end)", rt[1], True))
        if k == "str":
            if m == "is_empty": return self.bindall([recv], lambda c: Val(f"(match {c[0]} with [] => true | _ => false end)", BOOL, True))
            if m in ("to_owned", "to_string", "as_str"): return recv
        if k == "bool" and m == "then":
            cl = strip_paren(args[0])
            if cl["k"] != "closure" or cl["params"]:
                raise TieBroken(f"{ctx['where']}: bool::then closure")
            body = self.tr_expr(cl["body"], ctx, env)

            def kk(c):
                if body.pure:
                    return Val(f"(if {c[0]} then Some {paren(body.code)} else None)", t_opt(body.ty), True)
                t = self.fresh()
                return Val(f"(if {c[0]} then bind {paren(body.code)} (fun {t} => Ok (Some {t})) else Ok None)", t_opt(body.ty), False)
            return self.bindall([recv], kk)
        if k == "list":
            el = rt[1]
            if m in ("iter", "cloned", "copied", "into_iter") and not args:
                return recv
            if m == "find":
                b, body = self.closure(args[0], el, ctx, env)
                return self.bindall([recv], lambda c: Val(f"(iter_find (fun {b} => {body.code}) {c[0]})", t_opt(el), True))
            if m == "filter":
                b, body = self.closure(args[0], el, ctx, env)
                return self.bindall([recv], lambda c: Val(f"(iter_filter (fun {b} => {body.code}) {c[0]})", rt, True))
            if m == "last" and not args:
                return self.bindall([recv], lambda c: Val(f"(iter_last {c[0]})", t_opt(el), True))
            if m == "next" and not args:
                # on an iterator expression (not a `let mut` variable): its first element
                return self.bindall([recv], lambda c: Val(f"(List.hd_error {c[0]})", t_opt(el), True))
            if m == "find_map":
                b, body = self.closure(args[0], el, ctx, env, want_pure=False)
                if body.ty[0] != "opt":
                    raise TieBroken("find_map closure result")
                return self.bindall([recv], lambda c: Val(f"(iter_find_map_res (fun {b} => {self.lift(body)}) {c[0]})", body.ty, False))
        if k == "rate":
            g = f"Rate_{m}"
            if g in self.sources:
                avals = [self.tr_expr(a, ctx, env) for a in args]
                v = self.bindall([recv] + avals, lambda c: self.call_fn(g, [rt[1], rt[2]], c, ctx))
                return v
        if k == "fspec":
            if m == "precision" and not args:
                return Val(f"(f_prec {recv.code})", t_opt(("n",)), True)
            if m == "pad_integral" and len(args) == 3:
                nn = self.tr_expr(args[0], ctx, env)
                pre = self.tr_expr(args[1], ctx, env)
                buf = self.tr_expr(args[2], ctx, env)
                if pre.code != ustr(""):
                    raise TieBroken(f"{ctx['where']}: pad_integral with a prefix")
                return self.bindall([nn, buf], lambda c: Val(f"(fmt_pad_integral {recv.code} {c[0]} {c[1]})", TEXT, True))
        if k == "convtable":
            pass
        raise TieBroken(f"{ctx['where']}: method {m} on {rt} (line {e.get('line')})")

    def subst_ty(self, ty, m):
        if ty[0] in ("unit", "qty"):
            return (ty[0], m.get(ty[1], ty[1]))
        if ty[0] == "rate":
            return ("rate", m.get(ty[1], ty[1]), m.get(ty[2], ty[2]))
        if ty[0] in ("opt", "list"):
            return (ty[0], self.subst_ty(ty[1], m))
        return ty

    def amount_inst_method(self, who, m, recv, args, ctx, env):
        """methods of the dimensionless instance: impl Quantity for AmountT, impl Unit for One, ..."""
        cands = [f"{who}_{m}"]
        if who == "One":
            cands += [f"UnitOne_{m}", f"LinearScaledUnitOne_{m}", f"Unit_{m}", f"LinearScaledUnit_{m}"]
        else:
            cands += [f"QuantityAmountT_{m}", f"HasRefUnitAmountT_{m}"]
        for g in cands:
            if g in self.sources:
                avals = [self.tr_expr(a, ctx, env) for a in args]
                callee_insts = self.need(g).insts
                return self.bindall([recv] + avals, lambda c: self.call_fn(g, ["AMOUNT"] * len(callee_insts), c, ctx))
        raise TieBroken(f"{ctx['where']}: method {m} on the dimensionless {who}")

    def e_call(self, e, ctx, env):
        f = strip_paren(e["func"])
        if f["k"] != "path":
            raise TieBroken(f"{ctx['where']}: call of a non-path")
        txt = f["path"]["text"]
        q = f.get("qself")
        args = e["args"]
        avals = lambda: [self.tr_expr(a, ctx, env) for a in args]
        if txt == "Some" and len(args) == 1:
            v = self.tr_expr(args[0], ctx, env)
            return self.bindall([v], lambda c: Val(f"(Some {c[0]})", t_opt(v.ty), True))
        # -- constructors
        m = re.fullmatch(r"(Self|Self::Output|Self::QuantityType|[A-Z][A-Za-z0-9_]*)::new", txt)
        if m and not q:
            tgt = self.resolve_tyname(m.group(1), ctx)
            if tgt[0] == "qty":
                x = tgt[1]
                vs = avals()
                if x == "AMOUNT":
                    return self.bindall(vs, lambda c: self.call_fn("QuantityAmountT_new", ["AMOUNT"] * len(self.need("QuantityAmountT_new").insts), c, ctx))
                return self.bindall(vs, lambda c: Val(f"(q_new {x} {c[0]} {c[1]})", t_qty(x), True))
            if tgt[0] == "struct":
                # Self::new inside the struct's own impls
                g = ctx["struct_new"][tgt[1]]
                vs = avals()
                return self.bindall(vs, lambda c: self.call_fn(g, self.need(g).insts, c, ctx))
        m = re.fullmatch(r"Rate::<([A-Za-z]+),([A-Za-z]+)>::new", txt)
        if m:
            vs = avals()
            a, b = m.group(1), m.group(2)
            v = self.bindall(vs, lambda c: self.call_fn("Rate_new", [a, b], c, ctx))
            v.ty = ("rate", a, b)
            return v
        # -- iteration
        if txt in ("Self::iter", "Self::UnitType::iter", "Self::iter_units") and not args:
            s = ctx["self"]
            if txt == "Self::iter" and s[0] == "unit":
                return Val(f"(u_iter {s[1]})", t_list(s), True)
            if txt == "Self::UnitType::iter" and s[0] == "qty":
                return Val(f"(u_iter {s[1]})", t_list(t_unit(s[1])), True)
            if txt == "Self::iter_units" and s[0] == "qty":
                return self.call_fn("Quantity_iter_units", [s[1]], [], ctx)
        if txt == "Self::VARIANTS.iter":
            pass
        m = re.fullmatch(r"(Self::Output|Self)::unit_from_scale", txt)
        if m and not q:
            tgt = self.resolve_tyname(m.group(1), ctx)
            vs = avals()
            return self.bindall(vs, lambda c: self.call_fn("HasRefUnit_unit_from_scale", [tgt[1]], c, ctx))
        # -- qualified trait calls  <X as Trait>::method(args)
        if q:
            tr_name = f["path"]["segs"][0]["id"]
            meth = f["path"]["segs"][-1]["id"]
            tgt = self.resolve_tyname(nospace(q["ty"]["text"]), ctx)
            if tr_name == "HasRefUnit" and meth == "_fit":
                x = tgt[1]
                vs = avals()
                if x == "AMOUNT":
                    return self.bindall(vs, lambda c: self.call_fn("HasRefUnitAmountT__fit", ["AMOUNT"] * len(self.need("HasRefUnitAmountT__fit").insts), c, ctx))
                self.use_full(ctx, x)
                return self.bindall(vs, lambda c: Val(f"(q_fit {x} {c[0]})", t_qty(x), False))
            g = f"{tr_name}_{meth}"
            if g in self.sources and tgt[0] in ("qty", "unit"):
                vs = avals()
                return self.bindall(vs, lambda c: self.call_fn(g, [tgt[1]], c, ctx))
            raise TieBroken(f"{ctx['where']}: qualified call {txt}")
        if txt == "PartialOrd::partial_cmp" and len(args) == 2:
            vs = avals()
            if vs[0].ty == AMNT and vs[1].ty == AMNT:
                return self.bindall(vs, lambda c: Val(f"(a_cmp am {c[0]} {c[1]})", t_opt(ORD), True))
        if txt in ("Mul::mul", "Div::div") and len(args) == 2 and "owned" in ctx:
            vs = avals()
            return self.bindall(vs, lambda c: Val(f"(owned {c[0]} {c[1]})", ("tyvar", "OutT"), True))
        if txt == "fmt::Display::fmt" and len(args) == 2:
            x = self.tr_expr(args[0], ctx, env)
            fm = self.tr_expr(args[1], ctx, env)
            if x.ty == STR:
                return self.bindall([x], lambda c: Val(f"(fmt_pad {fm.code} {c[0]})", TEXT, True))
            if x.ty == AMNT:
                return self.bindall([x], lambda c: Val(f"(a_display am {fm.code} {c[0]})", TEXT, True))
        # -- Trait::method(receiver, ..) without the `<X as Trait>` qualification: resolved through the receiver's type
        m = re.fullmatch(r"(HasRefUnit|Quantity|Unit|LinearScaledUnit)::([a-z_]+)", txt)
        if m and not q and args:
            vs = avals()
            g = f"{m.group(1)}_{m.group(2)}"
            if g in self.sources and vs[0].ty[0] in ("qty", "unit"):
                return self.bindall(vs, lambda c: self.call_fn(g, [vs[0].ty[1]], c, ctx))
        raise TieBroken(f"{ctx['where']}: unsupported call {txt} (line {e.get('line')})")

    def resolve_tyname(self, name, ctx):
        if name == "Self":
            return ctx["self"]
        if name in ctx["assoc"]:
            return ctx["assoc"][name]
        if name in ctx["insts"]:
            return t_qty(name)
        if name == "AmountT":
            return t_qty("AMOUNT")
        raise TieBroken(f"{ctx['where']}: unknown type name {name}")

    # -----------------------------------------------------------------------
    # formatting: format!("{..} {..}", args) and fmt-functions in writer mode

    def parse_fmt_string(self, s, ctx):
        """-> list of ('lit', text) | ('arg', spec) ; spec in {'', '.*'}"""
        out, i, buf = [], 0, ""
        while i < len(s):
            c = s[i]
            if c == "{":
                if s.startswith("{{", i):
                    buf += "{"; i += 2; continue
                j = s.index("}", i)
                spec = s[i + 1:j]
                if buf:
                    out.append(("lit", buf)); buf = ""
                if spec not in ("", ":.*"):
                    raise TieBroken(f"{ctx['where']}: unsupported format spec {{{spec}}}")
                out.append(("arg", spec))
                i = j + 1
            elif c == "}":
                if s.startswith("}}", i):
                    buf += "}"; i += 2; continue
                raise TieBroken("format string")
            else:
                buf += c; i += 1
        if buf:
            out.append(("lit", buf))
        return out

    def display_of(self, v, spec_code, ctx):
        """code of `Display::fmt(v)` under the formatter state spec_code"""
        if v.ty == AMNT:
            return f"(a_display am {spec_code} {v.code})"
        if v.ty == STR:
            return f"(fmt_pad {spec_code} {v.code})"
        if v.ty[0] == "unit":
            x = v.ty[1]
            if x == "AMOUNT":
                r = self.call_fn("Unit_fmt", ["AMOUNT"], [v.code, spec_code], ctx) if False else None
            # impl Display for <unit enum>: template Display_Unit_none -> <Self as Unit>::fmt(self, f)
            callee = self.need("tmpl_Display_Unit_none")
            r = self.call_fn("tmpl_Display_Unit_none", [x], [v.code, spec_code], ctx)
            return r.code
        raise TieBroken(f"{ctx['where']}: Display of {v.ty}")

    def tr_format(self, args, ctx, env):
        if not args or args[0]["k"] != "lit" or args[0]["lit"]["k"] != "str":
            raise TieBroken(f"{ctx['where']}: format string literal expected")
        pieces = self.parse_fmt_string(args[0]["lit"]["v"], ctx)
        rest = [self.tr_expr(a, ctx, env) for a in args[1:]]
        for v in rest:
            if not v.pure:
                raise TieBroken(f"{ctx['where']}: effect in a format argument")
        i, parts = 0, []
        for kind, x in pieces:
            if kind == "lit":
                parts.append(ustr(x))
            elif x == "":
                parts.append(self.display_of(rest[i], "fspec_default", ctx)); i += 1
            else:  # {:.*}: precision argument then value
                prec, val = rest[i], rest[i + 1]
                i += 2
                parts.append(self.display_of(val, f"(mkfspec 32%N None false false None (Some {prec.code}))", ctx))
        if i != len(rest):
            raise TieBroken(f"{ctx['where']}: format arguments")
        code = "(" + " ++ ".join(parts) + ")" if parts else ustr("")
        return Val(code, STR, True)

    def tr_writer_block(self, stmts, ctx, env):
        """body of an `fn fmt(&self, f) -> fmt::Result`: the text written"""
        return self.tr_block(stmts, ctx, env, True)

    def tr_writer_expr(self, e, ctx, env):
        e = strip_paren(e)
        if e["k"] == "try":
            return self.tr_writer_expr(e["e"], ctx, env)
        if e["k"] == "macro" and e["name"] == "write":
            args = e["args"]
            v = self.tr_format(args[1:], ctx, env)
            return Val(v.code, TEXT, True)
        if e["k"] == "if":
            cond = self.tr_expr(e["cond"], ctx, env)
            if not cond.pure:
                raise TieBroken("effect in fmt condition")
            a = self.tr_writer_block(e["then"], ctx, env)
            els = strip_paren(e["else"])
            b = self.tr_writer_block(els["stmts"], ctx, env) if els["k"] == "block" else self.tr_writer_expr(els, ctx, env)
            return Val(f"(if {cond.code} then {a.code} else {b.code})", TEXT, True)
        if e["k"] == "block":
            return self.tr_writer_block(e["stmts"], ctx, env)
        v = self.tr_expr(e, ctx, env)
        if v.ty != TEXT or not v.pure:
            raise TieBroken(f"{ctx['where']}: fmt body expression of type {v.ty}")
        return v


def unify(a, b):
    """types equal up to the unknown element type of a bare `None`"""
    if a == b:
        return a
    if a == ("?",):
        return b
    if b == ("?",):
        return a
    if a == ("never",):
        return b
    if b == ("never",):
        return a
    if a[0] == b[0] and a[0] in ("opt", "list"):
        u = unify(a[1], b[1])
        return (a[0], u) if u else None
    return None


def paren(c):
    c = c.strip()
    if c.startswith("(") and balanced(c):
        return c
    if re.fullmatch(r"[A-Za-z0-9_'.%]+", c):
        return c
    return "(" + c + ")"


def balanced(c):
    d = 0
    for i, ch in enumerate(c):
        if ch == "(":
            d += 1
        elif ch == ")":
            d -= 1
            if d == 0 and i != len(c) - 1:
                return False
    return d == 0


def nospace(s):
    return re.sub(r"\s+", "", s)


def strip_paren(e):
    while e["k"] == "paren":
        e = e["e"]
    return e


# ---------------------------------------------------------------------------
# drivers: which source items are translated, under which typing context

import copy, json as _json


def rename_json(x, mapping):
    s = _json.dumps(x, ensure_ascii=False)
    for old in sorted(mapping, key=len, reverse=True):
        s = re.sub(r"(?<![A-Za-z0-9_])" + re.escape(old) + r"(?![A-Za-z0-9_])", mapping[old], s)
    return _json.loads(s)


def base_ctx(**kw):
    c = {"insts": [], "self": None, "assoc": {}, "selfinst": None, "where": ""}
    c.update(kw)
    return c


def lib_items(d, rel):
    return d["files"][rel]["items"]


def emit_all(d, entries, templates):
    T = Translator(d, templates)
    lib = lib_items(d, "src/lib.rs")
    # ---- 1. trait default methods
    for it in lib:
        if it["k"] == "trait" and it["id"] in ("Unit", "LinearScaledUnit", "Quantity", "HasRefUnit"):
            tname = it["id"]
            for x in it["items"]:
                if x["k"] == "fn" and x["body"] is not None:
                    is_unit_trait = tname in ("Unit", "LinearScaledUnit")

                    def ctxf(is_unit_trait=is_unit_trait):
                        return base_ctx(insts=["S"], self=(t_unit("S") if is_unit_trait else t_qty("S")), selfinst="S",
                                        assoc={"Self::QuantityType": t_qty("S"), "Self::UnitType": t_unit("S")})
                    T.register(f"{tname}_{x['sig']['name']}", ctxf, x, f"src/lib.rs:{x['line']} trait {tname}, default method {x['sig']['name']}")
    # ---- 2. the dimensionless instance: impls for One and AmountT
    one_variants = None
    one_consts = {}
    for it in lib:
        if it["k"] == "enum" and it["id"] == "One":
            one_variants = [v["id"] for v in it["variants"]]
        if it["k"] == "const" and nospace(it["ty"]["text"]) == "One":
            one_consts[it["id"]] = it["e"]["path"]["text"]
    if one_variants != ["One"] or one_consts.get("ONE") != "One::One":
        raise TieBroken("src/lib.rs: enum One { One } / const ONE: One = One::One expected")
    amount_impl_defs = []
    for it in lib:
        if it["k"] != "impl":
            continue
        selfty = nospace(it["self_ty"]["text"])
        tr = it["trait"]["path"]["text"] if it["trait"] else None
        if selfty == "One" and tr is None:
            for x in it["items"]:
                if not (x["k"] == "const" and x["id"] == "VARIANTS" and x["e"]["k"] == "array" and len(x["e"]["elems"]) == 1
                        and x["e"]["elems"][0]["k"] == "path" and x["e"]["elems"][0]["path"]["text"] == "ONE"):
                    raise TieBroken("src/lib.rs: impl One { const VARIANTS: [Self; 1] = [ONE]; } expected")
            continue
        if selfty == "One" and tr in ("Unit", "LinearScaledUnit"):
            for x in it["items"]:
                if x["k"] == "fn":
                    nm = x["sig"]["name"]
                    if nm == "iter":
                        if "Self::VARIANTS.iter().cloned()" not in nospace(x["text"]):
                            raise TieBroken("One::iter is not Self::VARIANTS.iter().cloned()")
                        amount_impl_defs.append("(* src/lib.rs: impl Unit for One, fn iter: Self::VARIANTS.iter().cloned() with VARIANTS = [ONE] *)\n"
                                                "Definition UnitOne_iter : list nat := [0%nat].\n")
                        continue
                    T.register(f"{tr}One_{nm}", lambda: base_ctx(insts=[], self=t_unit("AMOUNT")), x,
                               f"src/lib.rs:{x['line']} impl {tr} for One, fn {nm}")
                elif x["k"] == "const" and x["id"] == "REF_UNIT":
                    if x["e"]["path"]["text"] not in ("ONE", "One::One"):
                        raise TieBroken("One::REF_UNIT is not ONE")
                    amount_impl_defs.append("(* src/lib.rs: impl LinearScaledUnit for One, const REF_UNIT: Self = ONE *)\n"
                                            "Definition LinearScaledUnitOne_REF_UNIT : nat := 0%nat.\n")
        if selfty == "AmountT" and tr in ("Quantity", "HasRefUnit"):
            for x in it["items"]:
                if x["k"] == "fn":
                    nm = x["sig"]["name"]
                    T.register(f"{tr}AmountT_{nm}", lambda: base_ctx(insts=[], self=t_qty("AMOUNT"),
                               assoc={"Self::UnitType": t_unit("AMOUNT")}), x,
                               f"src/lib.rs:{x['line']} impl {tr} for AmountT, fn {nm}")
                elif x["k"] == "const" and x["id"] == "REF_UNIT":
                    if x["e"]["path"]["text"] not in ("ONE", "One::One"):
                        raise TieBroken("AmountT::REF_UNIT is not ONE")
                    amount_impl_defs.append("(* src/lib.rs: impl HasRefUnit for AmountT, const REF_UNIT: One = ONE *)\n"
                                            "Definition HasRefUnitAmountT_REF_UNIT : nat := 0%nat.\n")
        if tr == "Mul<One>" and selfty == "AmountT":
            x = [y for y in it["items"] if y["k"] == "fn"][0]
            T.register("MulOneForAmountT_mul", lambda: base_ctx(insts=[], self=AMNT, assoc={"Self::Output": AMNT}), x,
                       f"src/lib.rs:{x['line']} impl Mul<One> for AmountT")
        if tr == "Mul<AmountT>" and selfty == "One":
            x = [y for y in it["items"] if y["k"] == "fn"][0]
            T.register("MulAmountTForOne_mul", lambda: base_ctx(insts=[], self=t_unit("AMOUNT"), assoc={"Self::Output": AMNT}), x,
                       f"src/lib.rs:{x['line']} impl Mul<AmountT> for One")
    # ---- 3. rate.rs
    rate = lib_items(d, "src/rate.rs")
    rate_struct = [it for it in rate if it["k"] == "struct" and it["id"] == "Rate"]
    if len(rate_struct) != 1:
        raise TieBroken("src/rate.rs: struct Rate not found")
    want = [("term_amount", "AmountT"), ("term_unit", "TQ::UnitType"), ("per_unit_multiple", "AmountT"), ("per_unit", "PQ::UnitType")]
    got = [(f["id"], nospace(f["ty"]["text"])) for f in rate_struct[0]["fields"]]
    if got != want:
        raise TieBroken(f"src/rate.rs: struct Rate has fields {got}")
    rate_fields = {"term_amount": "rt_term_amount", "term_unit": "rt_term_unit",
                   "per_unit_multiple": "rt_per_unit_multiple", "per_unit": "rt_per_unit"}

    def rate_ctx(**kw):
        return base_ctx(insts=["TQ", "PQ"], self=("rate", "TQ", "PQ"), rate_fields=rate_fields, **kw)
    for it in rate:
        if it["k"] != "impl" or not nospace(it["self_ty"]["text"]).startswith("Rate<TQ,PQ>"):
            continue
        tr = it["trait"]["path"]["text"] if it["trait"] else None
        for x in it["items"]:
            if x["k"] != "fn":
                continue
            nm = x["sig"]["name"]
            if tr is None:
                T.register(f"Rate_{nm}", lambda: rate_ctx(), x, f"src/rate.rs:{x['line']} impl Rate, fn {nm}")
            elif tr == "Mul<PQ>":
                T.register("Rate_mul", lambda: rate_ctx(assoc={"Self::Output": t_qty("TQ")}), x, f"src/rate.rs:{x['line']} impl Mul<PQ> for Rate<TQ, PQ>")
            elif tr == "fmt::Display":
                T.register("Rate_fmt", lambda: rate_ctx(), x, f"src/rate.rs:{x['line']} impl Display for Rate")
            else:
                raise TieBroken(f"src/rate.rs: unexpected impl {tr}")
    # ---- 4. converter.rs
    conv = lib_items(d, "src/converter.rs")
    found = False
    for it in conv:
        if it["k"] == "impl" and it["trait"] and it["trait"]["path"]["text"] == "Converter<Q>":
            if nospace(it["self_ty"]["text"]) != "ConversionTable<Q,N>":
                raise TieBroken("converter.rs: impl Converter<Q> for ConversionTable<Q, N> expected")
            x = [y for y in it["items"] if y["k"] == "fn" and y["sig"]["name"] == "convert"][0]
            T.register("ConversionTable_convert", lambda: base_ctx(insts=["Q"], self=("convtable", "Q")), x,
                       f"src/converter.rs:{x['line']} impl Converter<Q> for ConversionTable<Q, N>, fn convert")
            found = True
        if it["k"] == "struct" and it["id"] == "ConversionTable":
            f = it["fields"]
            if len(f) != 1 or f[0]["id"] != "mappings" or nospace(f[0]["ty"]["text"]) != "[(Q::UnitType,Q::UnitType,AmountT,AmountT);N]":
                raise TieBroken("converter.rs: struct ConversionTable { mappings: [(Q::UnitType, Q::UnitType, AmountT, AmountT); N] } expected")
    if not found:
        raise TieBroken("converter.rs: Converter impl not found")
    # ---- 5. templates of the generated impls
    struct_defs = {}
    forwarders = []
    all_qty_names = {en["g"]["qty"] for en in entries}
    for tid, t in sorted(templates.items()):
        im = t["impl"]
        actual = {}
        qnames = [w for w in t["order"]]
        qs = []
        for w in qnames:
            base = w[:-4] if w.endswith("Unit") and w[:-4] in qnames or (w.endswith("Unit") and w != t["qty"] and w == t["enum"]) else w
            if w == t["enum"]:
                base = t["qty"]
            elif w.endswith("Unit") and w[:-4] in [q for q in qnames]:
                base = w[:-4]
            if base not in qs:
                qs.append(base)
        otxt = [nospace(x["ty"]["text"]) for x in im["items"] if x["k"] == "type" and x["id"] == "Output"]
        if otxt and otxt[0] in all_qty_names and otxt[0] not in qs:
            qs.append(otxt[0])
        mapping = {}
        for i, qn in enumerate(qs):
            mapping[qn] = f"T{i}"
            mapping[qn + "Unit"] = f"T{i}Unit"
        im2 = rename_json(im, mapping)
        insts = [f"T{i}" for i in range(len(qs))]
        gen_params = [p["id"] for p in im2["generics"]["params"] if p["k"] == "type"]
        insts_all = insts + gen_params
        selfty = re.sub(r"&('[a-z_]+)?", "", nospace(im2["self_ty"]["text"]))
        types = {x["id"]: x for x in im2["items"] if x["k"] == "type"}
        fns = {x["sig"]["name"]: x for x in im2["items"] if x["k"] == "fn"}
        if tid.startswith("Quantity_"):
            st = rename_json(t["struct"], mapping)
            fields = [(f["id"], nospace(f["ty"]["text"])) for f in st["fields"]]
            sname = f"struct{len(fields)}"
            pre = f"s{len(fields)}_"
            fmap = {}
            for fid, fty in fields:
                fmap[fid] = (pre + fid, AMNT if fty == "AmountT" else t_unit("T0"))
            if sname not in struct_defs:
                struct_defs[sname] = fmap
                flds = "; ".join(f"{pre}{fid} : {'A am' if fty=='AmountT' else 'nat'}" for fid, fty in fields)
                T.records.append(f"(* the struct the macro generates: {{ {', '.join(f'{a}: {b}' for a,b in fields)} }} *)\n"
                                 f"Record {sname} (am : Amount) := mk_{sname} {{ {flds} }}.\n"
                                 + "".join(f"Arguments {pre}{fid} {{am}}.\n" for fid, _ in fields))
            elif struct_defs[sname] != fmap:
                raise TieBroken(f"template {tid}: struct shape differs")
            variants = None
            for en in entries:
                if en["g"]["qty"] == t["qty"] and en["g"]["path"] == t["path"]:
                    variants = en["g"]["VARIANTS"]
                    break
            for nm, x in fns.items():
                def ctxf(sname=sname, fmap=fmap, variants=variants):
                    return base_ctx(insts=[], self=("struct", sname), assoc={"Self::UnitType": t_unit("T0")},
                                    struct_fields={sname: fmap}, struct_ctor={sname: f"mk_{sname}"},
                                    variants=variants if len(fmap) == 1 else None)
                T.register(f"tmpl_{tid}_{nm}", ctxf, x, f"generated impl Quantity ({t['path']}), fn {nm} — as expanded for {t['from']}")
            continue
        fn = list(fns.values())[0]
        body_txt = nospace(fn["text"])
        # borrowed-operand forwarders
        mfw = re.search(r"(Mul::mul|Div::div)\((\*?)self,(\*?)rhs\)", body_txt)
        out_ty = nospace(types["Output"]["ty"]["text"]) if "Output" in types else None
        if mfw and out_ty and out_ty.startswith("<"):
            wh = [nospace(w["text"]) for w in im2["generics"]["where"]]
            forwarders.append((tid, mfw.group(1), mfw.group(2), mfw.group(3), wh, t["from"]))
            continue
        if selfty == "AmountT":
            selft = AMNT
            selfinst = None
        elif selfty.endswith("Unit") and selfty[:-4] in insts:
            selft = t_unit(selfty[:-4]); selfinst = selfty[:-4]
        elif selfty in insts:
            selft = t_qty(selfty); selfinst = selfty
        else:
            raise TieBroken(f"template {tid}: self type {selfty}")
        assoc = {}
        if out_ty is not None:
            o = re.sub(r"&('[a-z_]+)?", "", out_ty)
            if o == "Self":
                assoc["Self::Output"] = selft
            elif o == "AmountT":
                assoc["Self::Output"] = AMNT
            elif o in insts_all:
                assoc["Self::Output"] = t_qty(o)
            else:
                raise TieBroken(f"template {tid}: Output type {out_ty}")

        def ctxf(insts_all=insts_all, selft=selft, selfinst=selfinst, assoc=assoc):
            return base_ctx(insts=list(insts_all), self=selft, selfinst=selfinst, assoc=dict(assoc), rate_fields=rate_fields)
        T.register(f"tmpl_{tid}", ctxf, fn, f"generated impl {im['trait']['path']['text'] if im['trait'] else ''} for {nospace(im['self_ty']['text'])} — template {tid}, as expanded for {t['from']}")
    # ---- translate everything
    for g in list(T.sources):
        T.need(g)
    # ---- emit
    fmt_names = set()
    changed = True
    while changed:
        changed = False
        for g in T.order:
            fn = T.fns[g]
            if g in fmt_names:
                continue
            uses_fmt = fn.ret == TEXT or re.search(r"\b(fmt_pad|fmt_pad_integral|a_display)\b", fn.body) \
                or any(re.search(r"\b" + re.escape(o) + r"\b", fn.body) for o in fmt_names)
            if uses_fmt:
                fmt_names.add(g)
                changed = True
    head = HEADER + "From QV Require Import Rt.Prelude Rt.Amount Rt.Quantity Gen.Prefixes.\n\n"
    k1 = [head,
          "(* src/rate.rs: struct Rate<TQ, PQ> { term_amount, term_unit, per_unit_multiple, per_unit } *)\n"
          "Record rate (am : Amount) := mk_rate { rt_term_amount : A am; rt_term_unit : nat; rt_per_unit_multiple : A am; rt_per_unit : nat }.\n"
          "Arguments rt_term_amount {am}. Arguments rt_term_unit {am}. Arguments rt_per_unit_multiple {am}. Arguments rt_per_unit {am}.\n"]
    k1 += T.records
    k1 += amount_impl_defs
    k2 = [HEADER + "From QV Require Import Rt.Prelude Rt.Amount Rt.Quantity Rt.Fmt Gen.Prefixes Gen.Kernels.\n\n"]
    for g in T.order:
        fn = T.fns[g]
        (k2 if g in fmt_names else k1).append(T.render_fn(fn))
    for tid, op, ds, dr, wh, frm in forwarders:
        k1.append(f"(* generated borrowed-operand impl — template {tid} (as expanded for {frm}): body `{op}( {ds}self, {dr}rhs )`,\n"
                  f"   where-clause {' , '.join(wh)}: forwards to the owned impl, which is the parameter [owned] *)\n"
                  f"Definition tmpl_{tid} {{SelfT RhsT OutT : Type}} (owned : SelfT -> RhsT -> OutT) (self : SelfT) (rhs : RhsT) : OutT :=\n"
                  f"  owned self rhs.\n")
    return {"Kernels.v": "\n".join(k1), "KernelsFmt.v": "\n".join(k2)}
