#!/usr/bin/env python3
"""j2v — emit the generated part of the Coq model (coq/Gen/*.v) from the JSON
dump of the repository produced by rs2j.  Files are rewritten only when their
content changes.  usage: main.py <repo.json> <repo dir> <out dir>"""
import sys, os, json, traceback
sys.path.insert(0, os.path.dirname(os.path.abspath(__file__)))
from common import *
import tables


def decl_of(q):
    """the unit attributes of a definition as written: kind, identifier, symbol,
    prefix identifier, scale literal text (None if absent) — for the oracles"""
    out = []
    for a in q["raw"]["attrs"]:
        if a.get("path") not in ("unit", "ref_unit"):
            continue
        toks = a.get("tokens", [])
        ident = next((t["v"] for t in toks if t["t"] == "ident"), None)
        strs = [t["lit"]["v"] for t in toks if t["t"] == "lit" and t["lit"]["k"] == "str"]
        idents = [t["v"] for t in toks if t["t"] == "ident"]
        nums = [t["lit"].get("digits") or t["lit"].get("text") for t in toks if t["t"] == "lit" and t["lit"]["k"] in ("int", "float")]
        out.append({"kind": a["path"], "ident": ident, "symbol": strs[0] if strs else None,
                    "prefix": idents[1] if len(idents) > 1 else None, "lit": nums[0] if nums else None})
    return out


# The proc-macro entry points (qty-macros/src/lib.rs) are glue the translator does not
# translate: rs2j runs parse_item / analyze / parse_args / codegen in the order
# `quantity` does, and EnumIter is modelled as "iterate in declaration order".  Their
# bodies (signature + statements, line numbers and attributes dropped) are pinned; a
# change there breaks the tie and has to be looked at.
GLUE_PINS = {"derive_variants_as_constants": "4c5dc30d30aef268", "derive_enum_iter": "068dc0dc65fc9e8d", "quantity": "d9de7f9849607625"}


def _strip_lines(x):
    if isinstance(x, dict):
        return {k: _strip_lines(v) for k, v in x.items() if k not in ("line", "attrs")}
    if isinstance(x, list):
        return [_strip_lines(v) for v in x]
    return x


def check_glue(d):
    import hashlib
    f = d["files"].get("qty-macros/src/lib.rs")
    if f is None:
        raise TieBroken("qty-macros/src/lib.rs is missing")
    seen = {}
    for it in f["items"]:
        if it["k"] == "fn":
            seen[it["sig"]["name"]] = hashlib.sha256(json.dumps(_strip_lines({"sig": it["sig"], "body": it["body"]}), sort_keys=True).encode()).hexdigest()[:16]
    for name, h in GLUE_PINS.items():
        if seen.get(name) != h:
            raise TieBroken(f"qty-macros/src/lib.rs: proc-macro entry point `{name}` " + ("is gone" if name not in seen else "changed")
                            + " (line " + str(next((it["line"] for it in f["items"] if it["k"] == "fn" and it["sig"]["name"] == name), "?")) + "): the translator assumes quantity = parse_item; analyze; "
                            "parse_args; codegen and EnumIter = declaration order")
    extra = sorted(set(seen) - set(GLUE_PINS))
    if extra:
        raise TieBroken(f"qty-macros/src/lib.rs: new proc-macro entry point(s) {extra} are not modelled")


def main():
    jpath, repo, outdir = sys.argv[1], sys.argv[2], sys.argv[3]
    d = json.load(open(jpath, encoding="utf-8"))
    changed = []
    try:
        check_glue(d)
        files = {}
        files["Prefixes.v"] = tables.emit_prefixes(d)
        entries, templates = tables.collect_catalogue(d)
        files["Catalogue.v"] = tables.emit_catalogue(entries)
        files["TempTable.v"] = tables.emit_temptable(d)
        files["Config.v"] = tables.emit_config(d, repo)
        try:
            import kernels
        except ImportError:
            kernels = None
        if kernels is not None:
            files.update(kernels.emit_all(d, entries, templates))
    except TieBroken as e:
        print("TIE-BROKEN: " + str(e))
        sys.exit(3)
    for name, text in files.items():
        if write_if_changed(os.path.join(outdir, name), text):
            changed.append(name)
    info = {"templates": {k: {"from": v["from"], "canon": v["canon"]} for k, v in templates.items()},
            "entries": [{"name": e["name"], "crate": e["crate"], "module": e["module"], "qty": e["g"]["qty"],
                         "enum": e["g"]["enum"], "path": e["g"]["path"], "VARIANTS": e["g"]["VARIANTS"],
                         "consts": e["g"]["consts"], "modpath": e["q"]["modpath"], "file": e["q"]["file"],
                         "symbols": dict(e["g"]["symbol_arms"]),
                         "scales": {k: list(v) for k, v in e["g"]["scale_arms"]},
                         "prefixes": dict(e["g"]["prefix_arms"]),
                         "ref_unit": e["g"]["ref_unit_qty"],
                         "derived": [t.get("v") for t in e["q"]["args"]],
                         "impls": e["g"]["impls"], "decl": decl_of(e["q"])} for e in entries]}
    write_if_changed(os.path.join(outdir, "gen_info.json"), json.dumps(info, indent=1, ensure_ascii=False))
    print("generated: " + (", ".join(changed) if changed else "(no change)"))


if __name__ == "__main__":
    main()
