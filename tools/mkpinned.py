#!/usr/bin/env python3
"""mkpinned.py Cxx — (re)creates coq/Pinned/Cxx.v from the theorem statements of
coq/Props/Cxx.v as they are NOW.  Run by hand when a statement is deliberately
changed; the committed Pinned file is what `./check` compiles, so a theorem
that is later weakened or renamed no longer type-checks against it."""
import re, sys, os
pid = sys.argv[1]
root = os.path.join(os.path.dirname(os.path.dirname(os.path.abspath(__file__))), "coq")
src = open(os.path.join(root, "Props", pid + ".v"), encoding="utf-8").read()
imports = re.findall(r"^From .*?\.\s*$", src, re.M | re.S)
m = re.search(r"^(From QV Require Import[^.]*?)\.\s*$", src, re.M | re.S)
hdr = []
for mm in re.finditer(r"^(From [^\n]*(?:\n  [^\n]*)*\.)\s*$", src, re.M):
    hdr.append(mm.group(1))
out = [f"(* Pinned statements of property {pid}: fails to compile if a theorem of\n   Props/{pid}.v is weakened or renamed.  Created by tools/mkpinned.py. *)"]
for h in hdr:
    out.append(h)
out.append(f"From QV Require Import Props.{pid}.")
for mm in re.finditer(r"^(Import [A-Za-z_.]+\.)[ \t]*$", src, re.M):
    out.append(mm.group(1))
for mm in re.finditer(r"^(Local Notation [^\n]*\.)[ \t]*$", src, re.M):
    out.append(mm.group(1))
for mm in re.finditer(r"^(Local (?:Open|Close) Scope [A-Za-z_]+\.)[ \t]*$", src, re.M):
    out.append(mm.group(1))
for mm in re.finditer(r"^Theorem\s+([A-Za-z0-9_']+)\s*:(.*?)\nProof\.", src, re.M | re.S):
    out.append(f"Check {mm.group(1)} :{mm.group(2)}")
open(os.path.join(root, "Pinned", pid + ".v"), "w", encoding="utf-8").write("\n".join(out) + "\n")
print("wrote Pinned/%s.v with %d statements" % (pid, len(out) - 2 - len(hdr)))
