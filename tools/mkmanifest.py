#!/usr/bin/env python3
"""Writes /verif/MANIFEST.json from the property modules in tools/corr (one per
claimed property: cXX.py with LEVEL, LEVEL_NOTE, TECHNIQUE, DESIGN_REF)."""
import importlib, json, os, sys
HERE = os.path.dirname(os.path.abspath(__file__))
VERIF = os.path.dirname(HERE)
sys.path.insert(0, os.path.join(HERE, "corr"))
props = [json.loads(l)["id"] for l in open(os.path.join(VERIF, "properties.jsonl"))]
NA_REASON = {}
try:
    NA_REASON = json.load(open(os.path.join(HERE, "not_applicable.json")))
except OSError:
    pass
checks, na, served = [], [], []
for pid in props:
    path = os.path.join(HERE, "corr", pid.lower() + ".py")
    if not os.path.exists(path) or pid in NA_REASON:
        na.append({"property_id": pid, "reason": NA_REASON.get(pid, "machinery for this property is still under construction (see DESIGN.md section 11); not claimed yet")})
        continue
    m = importlib.import_module(pid.lower())
    served.append(pid)
    checks.append({
        "property_id": pid,
        "quick_cmd": f"./check {pid} --tier quick",
        "thorough_cmd": f"./check {pid} --tier thorough",
        "evidence_file": f"evidence/{pid}.json",
        "replay_cmd_template": f"./check {pid} --replay {{path}}",
        "engine": "coq-proof+correspondence",
        "level_claimed": {"category": getattr(m, "CATEGORY", "proof"), "text": m.LEVEL, "design_ref": getattr(m, "DESIGN_REF", f"DESIGN.md section 6 {pid}")},
        "level_note": m.LEVEL_NOTE,
        "technique": getattr(m, "TECHNIQUE", "Coq proof over a model regenerated from source + differential correspondence"),
    })
man = {
    "version": 1,
    "setup_cmd": "./setup.sh",
    "hooks": {"guard": "quantities_verif",
              "enable": "RUSTFLAGS=\"--cfg quantities_verif\" (no hook is needed so far: every observation goes through the public API)",
              "baseline_off_cmd": "cd /repo && cargo test --workspace --no-fail-fast --offline",
              "source_commits": [], "add_only": True},
    "engines": [{"name": "coq-proof+correspondence", "path": "check", "serves_properties": served,
                 "kind_free_text": "Coq 8.16 theorems over a Gallina model regenerated from /repo by tools/rs2j (Rust, runs the repo's own macro code) + tools/j2v (Python); differential correspondence of model (vm_compute in coqc) vs implementation (tools/harness) and exact-arithmetic oracle"}],
    "checks": checks,
    "notes": "See DESIGN.md. Every check regenerates the Coq model from /repo's working tree, rebuilds the property's theorems (full .vo), audits axioms and pinned statements, runs model and implementation on the same inputs and judges the implementation with an exact-rational oracle.",
    "not_applicable": na,
}
json.dump(man, open(os.path.join(VERIF, "MANIFEST.json"), "w"), indent=1)
print("claimed:", served, "not applicable:", [x["property_id"] for x in na])
