// Synthetic quantity definitions.  This one file is (a) expanded by rs2j through
// the repository's macro code (model side: tables, templates) and (b) compiled
// into the harness by `include!` (implementation side).  Each definition lives
// in its own module because unit constants share one namespace.

/// the suite's fixture with reference unit (SI-prefixed reference unit)
pub mod syn_foo {
    use quantities::prelude::*;
    #[quantity]
    #[ref_unit(A, "aaa", MEGA)]
    #[unit(B, "b", 0.4)]
    #[unit(C, "c", CENTI, 0.01)]
    pub struct Foo {}
}

/// ties in scale, non-SI reference unit, non-ASCII symbols, literal forms
pub mod syn_ties {
    use quantities::prelude::*;
    #[quantity]
    #[unit(Tie_Before, "t<", 1)]
    #[unit(Half, "½", 0.5)]
    #[ref_unit(Base_Unit, "bu")]
    #[unit(Tie_After, "t>", 1.0)]
    #[unit(Kilo_Base, "kbu", 1e3)]
    #[unit(Kilo_Base_2, "kbu", 1000.)]
    #[unit(Micro_Base, "µbu", 0.000001)]
    #[unit(Third, "⅓", 0.333333333333333333)]
    pub struct Ties {}
}

/// single unit type
pub mod syn_single {
    use quantities::prelude::*;
    #[quantity]
    #[unit(Pop, "p")]
    pub struct Single {}
}

/// several units, no reference unit
pub mod syn_noref {
    use quantities::prelude::*;
    #[quantity]
    #[unit(Zeta_Unit, "ζ")]
    #[unit(Alpha_Unit, "α", "first by name")]
    #[unit(Mid_Unit, "m")]
    pub struct NoRef {}
}

/// no reference unit: the name order differs from the order of the variant
/// identifiers (multi-word vs run-together names, lower-case initial, digits)
/// and from the order of the symbols
pub mod syn_noref2 {
    use quantities::prelude::*;
    #[quantity]
    #[unit(Sea_Mile, "sm")]
    #[unit(SeaBed, "sb")]
    #[unit(mile, "mi")]
    #[unit(Yard_2, "y2")]
    #[unit(Yard_10, "y10", "ten")]
    pub struct NoRef2 {}
}

/// reference unit declared last, a scale-one unit declared before it, descending
/// declaration order, digits and acronyms in identifiers
pub mod syn_order {
    use quantities::prelude::*;
    #[quantity]
    #[unit(Big_XMLUnit, "bx", 1e6)]
    #[unit(One_Too, "1²", 1.00)]
    #[unit(Mid_2nd, "m2", 2.5)]
    #[unit(Mid_1st, "m1", 2.50)]
    #[unit(Tiny, "t", MILLI, 0.001)]
    #[ref_unit(Base, "b", NONE)]
    pub struct Order {}
}

/// the suite's derived fixtures (product and quotient of two basic types, square)
pub mod syn_derived {
    use quantities::prelude::*;
    #[quantity]
    #[ref_unit(Flop, "f")]
    #[unit(Kiloflop, "kf", 1000., "1000·f")]
    #[unit(Centiflop, "cf", 0.01, "0.01·f")]
    pub struct Flp {}

    #[quantity]
    #[ref_unit(Emil, "e")]
    #[unit(Milliemil, "me", 0.001, "0.001·e")]
    #[unit(Microemil, "µe", 0.000001, "0.000001·e")]
    #[unit(Kiloemil, "ke", 1000., "1000·e")]
    pub struct Eml {}

    #[quantity(Flp * Eml)]
    #[ref_unit(Bazoo, "b", "1·f·e")]
    #[unit(Millibazoo, "mb", 0.001, "0.001·b")]
    #[unit(Microbazoo, "µb", 0.000001, "0.000001·b")]
    #[unit(Kilobazoo, "kb", 1000., "1000·b")]
    pub struct Baz {}

    #[quantity(Flp / Eml)]
    #[ref_unit(Qoox, "Q", "1·f/e")]
    #[unit(Five_Flops_per_Emil, "ff/e", 5., "5·f/e")]
    #[unit(Milliqoox, "mQ", 0.001, "0.001·Q")]
    #[unit(Microqoox, "µQ", 0.000001, "0.000001·Q")]
    #[unit(Kiloqoox, "kQ", 1000., "1000·Q")]
    pub struct Qoo {}

    #[quantity(Flp * Flp)]
    #[ref_unit(Square_Flop, "f²", NONE)]
    #[unit(Square_Centiflop, "cf²", 0.0001)]
    #[unit(Square_Kiloflop, "kf²", MEGA, 1000000)]
    pub struct FlpSq {}

    #[quantity(AmountT / Eml)]
    #[ref_unit(Per_Emil, "1/e", NONE)]
    #[unit(Per_Milliemil, "1/me", KILO, 1000)]
    pub struct PerEml {}
}
