#!/usr/bin/env python3
"""tiecheck.py <patch.diff>... — for each patch: applies it to /repo, regenerates the model
and rebuilds EVERY statement file (Props/*, Pinned/*), reports whether the tie and all proof
obligations survive, reverts.  Used with semantics-preserving refactorings: a failure here is a
false alarm of the machinery (the property still holds), to be fixed in translator or proofs."""
import os, subprocess, sys, glob
sys.path.insert(0, os.path.join(os.path.dirname(os.path.abspath(__file__)), "corr"))
import framework as fw
log = fw.Log(os.path.join(fw.BUILD, "logs", "tiecheck.log"))
targets = [f[:-2] + ".vo" for f in fw.coq_project_files() if f.startswith(("Props/", "Pinned/"))]
st = subprocess.run(["git", "-C", "/repo", "status", "--porcelain"], capture_output=True, text=True).stdout.strip()
if st:
    print("refusing: /repo is not clean"); sys.exit(2)
for p in sys.argv[1:]:
    p = os.path.abspath(p)
    r = subprocess.run(["git", "-C", "/repo", "apply", p], capture_output=True, text=True)
    if r.returncode != 0:
        print(f"{os.path.basename(p)}: DOES NOT APPLY {r.stderr.strip()[:200]}"); continue
    try:
        try:
            fw.regen(log)
            fw.coq_make(targets, log)
            print(f"{os.path.basename(p)}: ok", flush=True)
        except fw.Failure as f:
            print(f"{os.path.basename(p)}: BROKEN [{f.kind}] {f.what[:600]}", flush=True)
    finally:
        subprocess.run(["git", "-C", "/repo", "checkout", "--", "."])
        subprocess.run(["git", "-C", "/repo", "clean", "-fdq", "--", "tests", "src", "qty-macros/src", "qty-macros/tests"])     # files a patch added
fw.regen(log)
fw.coq_make(targets, log)
