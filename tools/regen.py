#!/usr/bin/env python3
"""regenerate coq/Gen from the repository's current working tree"""
import os, sys
sys.path.insert(0, os.path.join(os.path.dirname(os.path.abspath(__file__)), "corr"))
import framework as fw
log = fw.Log(os.path.join(fw.BUILD, "logs", "regen.log"))
try:
    fw.regen(log)
    print("regenerated")
except fw.Failure as f:
    print("FAILED", f.what); sys.exit(1)
