#!/usr/bin/env python3
"""seed_import.py <confirm.jsonl> — copies confirmed seeded changes from
/tmp/seed-Cxx/n into /verif/seeded/Cxx-n/ (patch.diff, demo.rs, README.md,
meta.json)."""
import json, os, shutil, sys
VERIF = os.path.dirname(os.path.dirname(os.path.abspath(__file__)))
for line in open(sys.argv[1]):
    c = json.loads(line)
    if "error" in c:
        print("skip", c); continue
    ok = (c["demo_unchanged"] == "pass" and c["demo_with_change"] == "fail" and c["suite_failed"].strip(",") in ("macro_attr_tests::ui", "")
          and c["check_doc"] == c["check_doc_fpdec"] == c["check_doc_serde"] == "ok")
    src = c["seed"]
    pid, n = src.rstrip("/").split("/")[-2].replace("seed-", ""), src.rstrip("/").split("/")[-1]
    sid = f"{pid}-{n}"
    if not ok:
        print("NOT CONFIRMED", sid, c); continue
    dst = os.path.join(VERIF, "seeded", sid)
    os.makedirs(dst, exist_ok=True)
    for f in ("patch.diff", "demo.rs", "README.md"):
        if os.path.exists(os.path.join(src, f)):
            shutil.copy(os.path.join(src, f), os.path.join(dst, f))
    readme = open(os.path.join(src, "README.md"), encoding="utf-8", errors="replace").read() if os.path.exists(os.path.join(src, "README.md")) else ""
    meta_path = os.path.join(dst, "meta.json")
    meta = json.load(open(meta_path)) if os.path.exists(meta_path) else {}
    meta.update({
        "id": sid, "breaks_property": pid,
        "origin": "written by an independent sub-agent that saw only the property text and a scratch worktree of the repository",
        "needs_to_manifest": meta.get("needs_to_manifest", ""),
        "confirmed": {"how": "tools/seed_confirm.sh in a scratch worktree outside /repo and /verif (removed afterwards)",
                      "suite_with_change": f"cargo test --workspace --no-fail-fast --offline: {c['suite_passed']} passed, failed: {c['suite_failed'].strip(',') or 'none'} (ui is always_fail in the baseline)",
                      "compile_checks": "cargo check --offline with features doc / doc,fpdec / doc,serde: ok",
                      "demo": f"tests/demo.rs with --features {c['features']}: passes on the unchanged tree, fails with the change"},
    })
    json.dump(meta, open(meta_path, "w"), indent=1, ensure_ascii=False)
    print("imported", sid)
