#!/bin/bash
# seed_confirm.sh <seed dir> — confirms in a scratch worktree (outside /repo and
# /verif) that a seeded change compiles, passes the pinned suite (only the
# always-failing `ui` test may fail) and that its demonstration fails with the
# change and passes without it.  Prints one JSON line.
set -u
SEED=$(realpath "$1")
WT=${WT:-/tmp/wt-confirm}
export CARGO_NET_OFFLINE=true CARGO_TERM_COLOR=never
if [ ! -d "$WT" ]; then git -C /repo worktree add -q --detach "$WT" HEAD || exit 2; fi
cd "$WT" && git checkout -q -- . && git clean -fdq -e target
FEATS=${FEATS:-doc}
run_demo() { # prints pass/fail
  if [ -f "$SEED/demo.sh" ] && [ "${USE_SH:-auto}" != "no" ] && { [ ! -f "$SEED/demo.rs" ] || [ "${USE_SH:-auto}" = "yes" ]; }; then
    if bash "$SEED/demo.sh" "$WT" >"$SEED/.demo_$1.log" 2>&1; then echo pass; else echo fail; fi
    git clean -fdq -e target
    return
  fi
  cp "$SEED/demo.rs" tests/demo.rs
  if cargo test --offline --features "$FEATS" --test demo >"$SEED/.demo_$1.log" 2>&1; then echo pass; else echo fail; fi
  rm -f tests/demo.rs
}
base_demo=$(run_demo base)
git apply "$SEED/patch.diff" || { echo '{"error":"patch does not apply"}'; exit 2; }
mut_demo=$(run_demo mut)
cargo test --workspace --no-fail-fast --offline >"$SEED/.suite.log" 2>&1
failed=$(grep -E "^test .* \.\.\. FAILED" "$SEED/.suite.log" | sed 's/^test //; s/ \.\.\. FAILED//' | sort -u | tr '\n' ',' )
npass=$(grep -E "^test result" "$SEED/.suite.log" | sed -E 's/.* ([0-9]+) passed.*/\1/' | paste -sd+ | bc)
compile_err=$(grep -c "^error" "$SEED/.suite.log")
c1=ok; cargo check --offline --features doc >/dev/null 2>&1 || c1=FAIL
c2=ok; cargo check --offline --features doc,fpdec >/dev/null 2>&1 || c2=FAIL
c3=ok; cargo check --offline --features doc,serde >/dev/null 2>&1 || c3=FAIL
git checkout -q -- . && git clean -fdq -e target
echo "{\"seed\":\"$SEED\",\"features\":\"$FEATS\",\"demo_unchanged\":\"$base_demo\",\"demo_with_change\":\"$mut_demo\",\"suite_failed\":\"$failed\",\"suite_passed\":$npass,\"check_doc\":\"$c1\",\"check_doc_fpdec\":\"$c2\",\"check_doc_serde\":\"$c3\"}"
