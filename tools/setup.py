#!/usr/bin/env python3
"""setup: build everything the checks share, from files on disk only (offline):
translator, generated model, the whole Coq development (full .vo), harnesses."""
import os, sys, time
sys.path.insert(0, os.path.join(os.path.dirname(os.path.abspath(__file__)), "corr"))
import framework as fw

t0 = time.time()
log = fw.Log(os.path.join(fw.BUILD, "logs", "setup.log"))
try:
    info = fw.regen(log)
    targets = [f[:-2] + ".vo" for f in fw.coq_project_files()]
    fw.coq_make(targets, log, timeout=7200)
    for cfg in ("f64", "dec", "f64-serde", "dec-serde"):
        fw.build_harness(cfg, log, "dev", info)
    # warm the cargo caches the configuration checks (C19) use
    import os
    for fl in ("std,serde,doc", "std,serde,fpdec,doc"):
        fw.sh(["cargo", "check", "--offline", "--quiet", "--lib", "--no-default-features", "--features", fl], cwd=fw.REPO, timeout=1800,
              env={"CARGO_TARGET_DIR": os.path.join(fw.BUILD, "target-c19"), "RUSTFLAGS": "-Awarnings"})
except fw.Failure as f:
    print(f"setup failed ({f.kind}): {f.what}\n{f.detail[-3000:]}")
    sys.exit(1)
print(f"setup ok in {time.time()-t0:.0f}s")
