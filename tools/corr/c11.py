"""C11 — generated types reflect their declaration in any order or literal form."""
import json, os, shutil
import framework as fw
import defgen, macrocorr as mc

PID = "C11"
MODEL_TARGETS = ["Macro/Analyze.vo", "Proofs/C09.vo", "Proofs/DerivedCat.vo"]
PROOF_TARGETS = ["Props/C11.vo", "Pinned/C11.vo", "Props/Literals.vo", "Pinned/Literals.vo"]
PROPS = ["Props/C11.v", "Props/Literals.v"]
COQCHK = ["QV.Props.C11", "QV.Props.Literals"]
TRUSTED_BASE = [
    "Coq 8.16.1 kernel (coqc; vm_compute for the per-definition facts); coqchk in the thorough tier",
    "Macro/Analyze.v, Macro/Casing.v, Macro/Impls.v (hand): model of UnitDef::parse, analyze (stable sort by the f64 value of the scale literal / by name), convert_case, path selection and the impl set of codegen - tied to the code by the computed "
    "theorem C11_model_is_generator on every definition of the tree and by the per-run correspondence on random definitions executed by the repository's own analyze/codegen (tools/rs2j, which #[path]-includes quantity_attr_helper.rs)",
    "Flocq binary64 for the sort key (f64 of the literal); stdlib real-number axioms through Flocq's Bcompare_correct",
    "slice::sort_by modelled as a stable sort (theorem C11_stable_sort: any stable sort computes the same list)",
]
LEVEL = ("Coq theorems (Props/C11.v) about the model of the generator, for EVERY accepted definition: the unit list is a permutation of the declared units (reference unit included), has no adjacent inversion of the sort key, and is "
         "stable - every group of equal key is the declaration's subsequence, the reference unit leading its group - so permuting the attributes can only reorder units that share a key - stated directly: for two definitions whose attribute lists are permutations of each other the verdict, the reference unit, the multiset of units and the sequence of keys coincide (C11_attribute_order_general), and the analysed result is IDENTICAL when no two units share a name (no reference unit) resp. a scale value (C11_attribute_order_names / _scales); name order without reference unit; path selection; "
         "a general stable-sort theorem (permutation, sortedness, stability) from asymmetry and negative transitivity, instantiated for the f64 key order (via the reals) and the name order. The model equals the generator on every definition "
         "of the tree (computed). On every run fresh seeded definitions are pushed through the repository's real macro code and compared with the model and with a python re-derivation from the property text; a sample is compiled by rustc "
         "in both amount types and its registry dumped. Partial: syn / convert_case / sort_by are modelled."
         " 'Scales (the literal's exact value in the amount type)': Props/Literals.v - binary64 correctly rounded (Flocq), decimal exact or rejected for a stated reason.")
LEVEL_NOTE = "Trusted: Coq kernel, the hand model of the macro front end (validated against the real macro code on every run), rs2j+j2v, Flocq; stdlib real-number axioms."
ASSUMPTIONS = [
    "calling parse_item/analyze/parse_args/codegen as a library behaves as inside rustc (same code, proc-macro2 fallback)",
    "slice::sort_by is stable; f64::partial_cmp on finite keys is the order of the reals",
]
CATEGORY = "proof"


def run(ctx):
    quick = ctx.tier == "quick"
    os.makedirs(mc.WORK, exist_ok=True)
    defs = mc.generate(ctx, 24 if quick else 300, 1 if quick else 3, 0)
    src = os.path.join(mc.WORK, "c11_defs.rs")
    open(src, "w", encoding="utf-8").write(defgen.module_source([(t, d) for t, d, _, _ in defs]))
    ex = mc.expand(ctx, src)
    # helper definitions (Foo, Bar of derived modules) are not under test: keep one definition per module, in order
    want = [(t + "::", d.name) for t, d, _, _ in defs]
    by = {(q["modpath"], q["ident"]): q for q in ex.get("defs", [])}
    missing = [w for w in want if w not in by]
    if missing:
        raise fw.Failure("tie", f"rs2j expand did not return definitions {missing[:3]}")
    ex["defs"] = [by[w] for w in want]
    ej = os.path.join(mc.WORK, "c11_expand.json")
    json.dump(ex, open(ej, "w"))
    info, model = mc.model_verdicts(ctx, ej, len(defs))
    violations, disagreements, samples = [], [], []
    dist = {}
    by_tag = {}
    for i, ((tag, d, kind, base), inf) in enumerate(zip(defs, info)):
        dist[kind] = dist.get(kind, 0) + 1
        n_units = len(d.units)
        dist[f"units:{'1' if n_units == 1 else '2-5' if n_units <= 5 else '6+'}"] = dist.get(f"units:{'1' if n_units == 1 else '2-5' if n_units <= 5 else '6+'}", 0) + 1
        text = d.source()
        if not inf["ok"]:
            violations.append({"what": "a well-formed definition is rejected by the macro", "input": text, "observed": inf.get("error")})
            continue
        by_tag[tag] = inf["gen"]
        bad = mc.check_against_declaration(tag, d, inf["gen"])
        for b in bad[:3]:
            violations.append({"what": "generated type does not reflect its declaration: " + b, "input": text, "observed": json.dumps(inf["gen"]["VARIANTS"])})
        if model is not None:
            want = "true true true true true"
            if model[i] != want:
                disagreements.append({"op": "definition " + tag + ": " + text[:300], "implementation": "accepted; registry as generated",
                                      "model": f"validate/registry_ok/derived_rows_ok/wiring_ok/single_ok = {model[i]}"})
        if len(samples) < 4:
            samples.append({"definition": text[:400], "generated_order": inf["gen"]["VARIANTS"], "path": inf["gen"]["path"]})
    # attribute permutations: same unit set, identical per-unit data, same sequence of scale groups
    for tag, d, kind, base in defs:
        if kind != "permuted" or tag not in by_tag or base not in by_tag:
            continue
        a, b = by_tag[base], by_tag[tag]
        if sorted(a["VARIANTS"]) != sorted(b["VARIANTS"]) or a["names"] != b["names"] or a["symbols"] != b["symbols"] or a["prefixes"] != b["prefixes"] \
                or a["scales"] != b["scales"] or sorted(map(tuple, a["consts"])) != sorted(map(tuple, b["consts"])) or a["ref_unit"] != b["ref_unit"] or a["path"] != b["path"]:
            violations.append({"what": "reordering the unit attributes changed something other than the order of units", "input": d.source(), "observed": json.dumps(b)[:300]})
            continue
        if a["path"] == "PRef":
            key = lambda g, v: float(__import__("fractions").Fraction(int(g["scales"][v][1])) * __import__("fractions").Fraction(10) ** int(g["scales"][v][2]))
            if [key(a, v) for v in a["VARIANTS"]] != [key(b, v) for v in b["VARIANTS"]]:
                violations.append({"what": "reordering the unit attributes changed the sequence of scales", "input": d.source(), "observed": str(b["VARIANTS"])})
        elif a["VARIANTS"] != b["VARIANTS"]:
            violations.append({"what": "reordering the unit attributes of a type without reference unit changed the iteration order", "input": d.source(),
                               "observed": str(b["VARIANTS"]), "required": str(a["VARIANTS"])})
    # a sample compiled by rustc and executed, both amount types
    n_rustc = 0
    sample = [(t, d) for t, d, k, _ in defs if k == "well-formed" and t in by_tag][: (6 if quick else 40)]
    for feats, be in ((["std"], "f64"), (["std", "fpdec"], "dec")):
        # a scale with more than 18 fractional digits has no value in the decimal amount type (Dec! rejects the literal)
        sample_be = [(t, d) for t, d in sample if be == "f64" or d.fits_decimal()]
        res = compile_and_dump(ctx, sample_be, feats, be)
        n_rustc += len(sample_be)
        for (tag, d), out in zip(sample_be, res):
            if out is None:
                violations.append({"what": f"a well-formed definition does not compile ({be})", "input": d.source(), "observed": "rustc error"})
                continue
            path, order = d.expected()
            want = " ; ".join(f"{u.ident.replace('_', ' ')}|{u.symbol}|{'Some ' + u.prefix if (u.prefix and path != 'PSingle') else 'None'}" for u in order)
            if out != want:
                violations.append({"what": f"the compiled type's registry differs from its declaration ({be})", "input": d.source(), "observed": out, "required": want})
    return {"evaluations": len(defs) + n_rustc, "distinct_nontrivial": len(defs),
            "rule": "seeded random well-formed definitions (1..20 units, identifiers with underscores/digits/acronyms/lower-case words, non-ASCII and duplicate symbols, integer/float/exponent literal forms, "
                    "ties with the reference unit, SI prefixes, docs, shuffled attributes, basic and derived, with/without reference unit) each with a permuted copy: pushed through the repository's own "
                    "parse_item/analyze/parse_args/codegen; generator output compared (i) with the Coq model (validate, registry_ok, derived_rows_ok, wiring_ok evaluated by coqc), (ii) with a python re-derivation "
                    "of names, symbols, prefixes, literal values and forms, constants, order, path and operator set, (iii) pairwise under permutation; a sample compiled and run by rustc in both amount types",
            "samples": samples, "disagreements": disagreements, "violations": violations, "distribution": dist, "exhaustive": False, "extra": {"compiled_by_rustc": n_rustc}}


def compile_and_dump(ctx, sample, feats, be):
    d = os.path.join(fw.BUILD, "c11crate")
    os.makedirs(os.path.join(d, "src"), exist_ok=True)
    fl = ", ".join('"%s"' % f for f in feats)
    open(os.path.join(d, "Cargo.toml"), "w").write(
        f'[package]\nname = "c11crate"\nversion = "0.1.0"\nedition = "2021"\n\n[dependencies]\nquantities = {{ path = "{fw.REPO}", default-features = false, features = [{fl}] }}\n\n[workspace]\n')
    shutil.copy(os.path.join(fw.REPO, "Cargo.lock"), os.path.join(d, "Cargo.lock"))
    body = defgen.module_source(sample)
    main = ["fn dump<Q: quantities::Quantity>() -> String { use quantities::Unit; Q::iter_units().map(|u| format!(\"{}|{}|{}\", u.name(), u.symbol(), "
            "match u.si_prefix() { Some(p) => format!(\"Some {:?}\", p), None => \"None\".to_string() })).collect::<Vec<_>>().join(\" ; \") }",
            "fn main() {"]
    main.insert(2, "    use quantities::prelude::*;")
    for tag, df in sample:
        main.append(f'    println!("{tag}\\t{{}}", dump::<{tag}::{df.name}>());')
        # a derived definition must come with its operators: the declared result type is checked by rustc
        ex = {"Foo * Bar": "(Amnt!(2.0) * {t}::FU) * (Amnt!(3.0) * {t}::BU)", "Foo / Bar": "(Amnt!(2.0) * {t}::FU) / (Amnt!(3.0) * {t}::BU)",
              "Foo * Foo": "(Amnt!(2.0) * {t}::FU) * (Amnt!(3.0) * {t}::KILOFU)", "AmountT / Bar": "Amnt!(2.0) / (Amnt!(3.0) * {t}::BU)",
              "Bar / Foo": "(Amnt!(2.0) * {t}::BU) / (Amnt!(3.0) * {t}::FU)"}.get(df.qargs or "")
        if ex:
            main.append(f'    let _r: {tag}::{df.name} = ' + ex.format(t=tag) + ';')
    main.append("}")
    open(os.path.join(d, "src", "main.rs"), "w", encoding="utf-8").write(body.replace("#![allow(warnings)]", "") .replace("// GENERATED", "#![allow(warnings)]\n// GENERATED") + "\n".join(main) + "\n")
    rc, out, dt = fw.sh(["cargo", "run", "--offline", "--quiet"], cwd=d, timeout=1800, env={"CARGO_TARGET_DIR": os.path.join(fw.BUILD, "target-c11"), "RUSTFLAGS": "-Awarnings"})
    ctx.log(f"[c11] rustc sample {be}: rc={rc} {dt:.1f}s")
    if rc != 0:
        ctx.log(out[-3000:])
        if len(sample) > 1:
            # find the definition(s) that do not compile: one program per definition
            return [compile_and_dump(ctx, [one], feats, be)[0] for one in sample]
        return [None]
    got = {}
    for line in out.split("\n"):
        if "\t" in line:
            t, v = line.split("\t", 1)
            got[t] = v
    return [got.get(t) for t, _ in sample]
