"""C14 — table-driven conversions apply the declared affine map."""
from fractions import Fraction
import framework as fw
import kcommon as kc
from c01 import U, EPS

PID = "C14"
MODEL_TARGETS = ["Proofs/Eval.vo", "Amount/F64.vo", "Amount/Dec.vo", "Gen/Catalogue.vo", "Macro/TempInst.vo"]
PROOF_TARGETS = ["Props/C14.vo", "Pinned/C14.vo", "Props/Accuracy.vo", "Pinned/Accuracy.vo", "Props/AccuracyDec.vo", "Pinned/AccuracyDec.vo"]
PROPS = ["Props/C14.v", "Props/Accuracy.v", "Props/AccuracyDec.v"]
COQCHK = ["QV.Props.C14", "QV.Props.Accuracy", "QV.Props.AccuracyDec"]
TRUSTED_BASE = [
    "Coq 8.16.1 kernel (coqc; vm_compute for the facts about the 6-row table); coqchk in the thorough tier",
    "translator rs2j+j2v: ConversionTable::convert translated from src/converter.rs (iter().find_map with a bool::then closure -> iter_find_map_res), the rows of TEMPERATURE_CONVERTER regenerated from src/temperature.rs as (constant, constant, literal, literal)",
    "Spec/Temperature.v (hand): the physical formulas as exact rationals, keyed by unit name",
    "Macro/TempInst.v (hand): constants resolved through the generated constant table and VARIANTS order",
]
LEVEL = ("Coq theorems (Props/C14.v): for EVERY instance, EVERY table (duplicates, gaps) and EVERY amount the converter returns the value unchanged for the present unit, else "
         "amount*factor+offset of the FIRST entry for (from,to), else nothing (induction over the table; abstract amount type); the regenerated temperature table has exactly one row per ordered "
         "pair of distinct units and every literal equals the physical constant (exactly where terminating, within 0.5e-18 otherwise) - computed by the kernel. "
         "Accuracy against the formulas, inverse pairs and composition are judged on the implementation with exact rationals (testing, supporting). In the binary floating-point configuration amount*factor+offset with two rounding factors is a theorem (ACC_C14_affine); in the decimal configuration it is within 5e-19 of the exact value - the sum is exact - and exact when the product needs no rounding (DEC_C14_affine).")
LEVEL_NOTE = "Trusted: Coq kernel, translator rs2j+j2v, Spec/Temperature.v, Macro/TempInst.v, hand models of binary64 (Flocq) / fpdec; no axioms in the structural theorems, the accuracy theorems rest on Flocq and the stdlib real-number axioms."
ASSUMPTIONS = [
    "Rust's Iterator::find_map / bool::then behave as the list functions they are translated to (validated on random tables with duplicates and gaps)",
    "f64 = IEEE binary64 (Flocq), Decimal = Amount/DecModel.v in the correspondence",
]

FORMULAS = {  # by unit name: to = from * K + C
    ("Kelvin", "Degree Celsius"): (Fraction(1), Fraction(-27315, 100)),
    ("Degree Celsius", "Kelvin"): (Fraction(1), Fraction(27315, 100)),
    ("Kelvin", "Degree Fahrenheit"): (Fraction(9, 5), Fraction(-45967, 100)),
    ("Degree Fahrenheit", "Kelvin"): (Fraction(5, 9), Fraction(45967, 100) * Fraction(5, 9)),
    ("Degree Celsius", "Degree Fahrenheit"): (Fraction(9, 5), Fraction(32)),
    ("Degree Fahrenheit", "Degree Celsius"): (Fraction(5, 9), Fraction(-32) * Fraction(5, 9)),
}


def stage_bound(be, x, K, C):
    if be == "f64":
        return ((1 + U) ** 3 - 1) * (abs(x * K) + abs(C))
    return EPS * (abs(x) + 2)


def run(ctx):
    kr = kc.KRun(ctx, PID)
    quick = ctx.tier == "quick"
    rng = ctx.rng
    names = {e["name"]: e for e in ctx.gen_info["entries"]}
    for be in kc.BACKENDS:
        ops, meta = [], []
        if ctx.replay:
            for b, line in kc.replay_ops(ctx):
                if b == be:
                    ops.append(line); meta.append(("replay",))
        # (a) random tables
        types = [t for t in kc.all_types(ctx.gen_info, be, with_amount=False)
                 if t.name in ("cat_Temperature", "syn_NoRef", "syn_Foo", "syn_Single", "cat_Duration", "syn_Ties")]
        amts = kc.structured_pool(be)[:14] + [kc.random_amount(be, rng) for _ in range(10)]
        for t in ([] if ctx.replay else types):
            for _ in range(25 if quick else 400):
                nrows = rng.randint(0, 12)
                rows = []
                for _ in range(nrows):
                    if rows and rng.random() < 0.3:
                        f, tt = rows[rng.randrange(len(rows))][:2]        # duplicate pair
                    else:
                        f, tt = rng.randrange(t.n), rng.randrange(t.n)
                    rows.append((f, tt, rng.choice(amts), rng.choice(amts)))
                a, u, to = rng.choice(amts), rng.randrange(t.n), rng.randrange(t.n)
                flat = " ".join(f"{f} {tt} {k} {c}" for f, tt, k, c in rows)
                ops.append(f"conv {t.name} {a} {u} {to} {flat}".rstrip()); meta.append(("conv", t, a, u, to, rows))
                first = next(((k, c) for f, tt, k, c in rows if f == u and tt == to), None)
                ndup = sum(1 for f, tt, _, _ in rows if f == u and tt == to)
                kr.count(f"{be}:table:{'same-unit' if u == to else ('no-entry' if first is None else ('one-entry' if ndup == 1 else 'duplicate-entries'))}")
                if u != to and first is not None:
                    ops.append(f"smul_r AMOUNT {first[0]} {a} 0"); meta.append(("aux_mul",))
        # (b) the temperature table
        tt = names.get("cat_Temperature")
        if tt is not None and not ctx.replay:
            n = len(tt["VARIANTS"])
            tamts = kc.structured_pool(be) + [kc.random_amount(be, rng) for _ in range(6 if quick else 200)]
            if be == "f64":
                tamts += kc.special_pool(be)
            for a in tamts:
                for u in range(n):
                    for to in range(n):
                        ops.append(f"tconv {a} {u} {to}"); meta.append(("tconv", a, u, to))
                        kr.count(f"{be}:temperature:{kc.amount_class(be, a)}")
            ops.append("units cat_Temperature"); meta.append(("tunits",))
        impl = kr.run(be, ops)
        # second round for (a): + offset
        ops2, idx2 = [], []
        for i, m in enumerate(meta):
            if m[0] == "conv":
                _, t, a, u, to, rows = m
                first = next(((k, c) for f, tt_, k, c in rows if f == u and tt_ == to), None)
                if u != to and first is not None and impl[i + 1] != "PANIC":
                    mm = impl[i + 1].split()[0]
                    if mm == "NaN":
                        mm = "7ff8000000000000"
                    ops2.append(f"add AMOUNT {mm} 0 {first[1]} 0"); idx2.append(i)
        impl2 = kr.run(be, ops2, tag=f"{PID}-{be}-aux") if ops2 else []
        ref = dict(zip(idx2, impl2))
        tres = {}
        tnames = None
        for i, (op, m, r) in enumerate(zip(ops, meta, impl)):
            if m[0] == "conv":
                _, t, a, u, to, rows = m
                kr.nontrivial.add((be, "conv", op))
                first = next(((k, c) for f, tt_, k, c in rows if f == u and tt_ == to), None)
                can = "NaN" if be == "f64" and kc.f64_is_nan(a) else a
                if u == to:
                    want = f"Some {can} {u}"
                elif first is None:
                    want = "None"
                elif impl[i + 1] == "PANIC":
                    want = "PANIC"
                else:
                    w = ref[i]
                    want = "PANIC" if w == "PANIC" else f"Some {w.split()[0]} {to}"
                if r != want:
                    kr.violation(be, "table conversion is not identity / first entry's amount*factor+offset / None", op, r, want)
            elif m[0] == "tconv":
                tres[(m[1], m[2], m[3])] = r
            elif m[0] == "tunits":
                tnames = ["".join(chr(int(c)) for c in x.split("|")[0].strip("<>").split()) for x in r.split(" ; ")]
        if tnames:
            check_temperature(kr, be, tres, tnames)
            check_two_step(kr, be, tres, tnames, ctx)
    return kr.result("(a) seeded random conversion tables (0..12 rows, 30% duplicated pairs, missing pairs) over types without and with reference unit and a single-unit type: "
                     "result compared with identity / first matching row's amount*factor+offset computed by the implementation's own amount operations / None; "
                     "(b) the predefined temperature table on all 9 unit pairs x amounts: exact-rational distance to the physical formula, inverse pairs and two-step "
                     "compositions within the composed rounding bound; non-trivial = distinct table cases + (amount, pair) cases")


def check_temperature(kr, be, tres, tnames):
    n = len(tnames)

    def val(tok):
        if tok in ("None", "PANIC"):
            return None
        return kc.value(be, tok.split()[1])

    for (a, u, to), r in tres.items():
        op = f"tconv {a} {u} {to}"
        kr.nontrivial.add((be, "tconv", a, u, to))
        x = kc.value(be, a)
        if u == to:
            can = "NaN" if be == "f64" and kc.f64_is_nan(a) else a
            if r != f"Some {can} {u}":
                kr.violation(be, "temperature conversion to the present unit changed the value", op, r, f"Some {can} {u}")
            continue
        if r == "None":
            kr.violation(be, "the temperature table has no entry for an ordered pair of distinct units", op, r)
            continue
        if r == "PANIC" or x is None:
            continue
        if int(r.split()[2]) != to:
            kr.violation(be, "temperature conversion result does not carry the target unit", op, r)
        K, C = FORMULAS[(tnames[u], tnames[to])]
        y = val(r)
        if y is None:
            continue
        if abs(y - (x * K + C)) > stage_bound(be, x, K, C):
            kr.violation(be, f"temperature conversion {tnames[u]} -> {tnames[to]} deviates from the physical formula beyond rounding", op, r,
                         f"{kc.ff(x * K + C)} +- {kc.ff(stage_bound(be, x, K, C))}")
    return


def check_two_step(kr, be, tres, tnames, ctx):
    """inverse pairs and compositions: feeds the implementation's own intermediate
    result into the second conversion"""
    n = len(tnames)
    rng = ctx.rng
    keys = [k for k in sorted(tres) if k[1] != k[2] and tres[k] not in ("None", "PANIC") and kc.value(be, k[0]) is not None
            and kc.value(be, tres[k].split()[1]) is not None]
    if ctx.tier == "quick" and len(keys) > 120:
        keys = rng.sample(keys, 120)
    ops, meta = [], []
    for (a, u, v) in keys:
        ytok = tres[(a, u, v)].split()[1]
        for w in range(n):
            if w != v:
                ops.append(f"tconv {ytok} {v} {w}"); meta.append((a, u, v, w, ytok))
    impl = kr.run(be, ops, tag=f"{PID}-{be}-two") if ops else []
    for op, (a, u, v, w, ytok), r in zip(ops, meta, impl):
        if r in ("None", "PANIC"):
            continue
        z = kc.value(be, r.split()[1])
        x, y = kc.value(be, a), kc.value(be, ytok)
        if z is None:
            continue
        K1, C1 = FORMULAS[(tnames[u], tnames[v])]
        K2, C2 = FORMULAS[(tnames[v], tnames[w])]
        b = abs(K2) * stage_bound(be, x, K1, C1) + stage_bound(be, y, K2, C2)
        kr.nontrivial.add((be, "two-step", a, u, v, w))
        if w == u:
            if (x * K1 + C1) * K2 + C2 != x:
                kr.violation(be, "specification formulas are not mutually inverse (harness error)", op, "")
            if abs(z - x) > b:
                kr.violation(be, f"temperature conversions {tnames[u]} -> {tnames[v]} -> {tnames[u]} are not mutually inverse within rounding",
                             f"tconv {a} {u} {v} ; {op}", r, f"{kc.ff(x)} +- {kc.ff(b)}")
        else:
            K3, C3 = FORMULAS[(tnames[u], tnames[w])]
            d = tres[(a, u, w)]
            if d in ("None", "PANIC"):
                continue
            dv = kc.value(be, d.split()[1])
            if dv is None:
                continue
            if abs(z - dv) > b + stage_bound(be, x, K3, C3):
                kr.violation(be, f"temperature conversion {tnames[u]} -> {tnames[v]} -> {tnames[w]} disagrees with the direct conversion beyond rounding",
                             f"tconv {a} {u} {v} ; {op} ; tconv {a} {u} {w}", f"{r} vs {d}")
