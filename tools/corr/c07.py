"""C07 — catalogue units carry their defined scales, prefixes and symbols."""
from fractions import Fraction
import framework as fw
import kcommon as kc

PID = "C07"
MODEL_TARGETS = ["Proofs/Eval.vo", "Amount/F64.vo", "Amount/Dec.vo", "Gen/Catalogue.vo", "Spec/Units.vo"]
PROOF_TARGETS = ["Props/C07.vo", "Pinned/C07.vo", "Props/C07pi.vo", "Pinned/C07pi.vo", "Props/Literals.vo", "Pinned/Literals.vo"]
PROPS = ["Props/C07.v", "Props/C07pi.v", "Props/Literals.v"]
COQCHK = ["QV.Props.C07", "QV.Props.Literals"]
TRUSTED_BASE = [
    "Coq 8.16.1 kernel (coqc; vm_compute over the finite tables); coqchk in the thorough tier on Props/C07.v - the parsec statements (Props/C07pi.v) are checked by coqc only: coqchk re-evaluates Coq-Interval's reflexive proof without the VM and needs about an hour",
    "Spec/Units.v (hand, independent of the repository): name, symbol, SI prefix and exact definition of each of the 112 + 27 units, chained to the reference unit",
    "translator rs2j+j2v: the attribute tables as raw declarations and the generator's actual arms of name/symbol/si_prefix/scale, regenerated on every run",
    "binary64 literal conversion = correctly rounded (Flocq's division pipeline, Amount/F64.v), Dec! = Amount/DecModel.v; both validated against the compiled crate on every run (bit patterns / coefficients of every scale)",
    "Coq-Interval for the parsec family (1/pi): stdlib real-number axioms and primitive-integer axioms (PrimInt63/Uint63), listed per theorem",
]
LEVEL = ("Coq theorems (Props/C07.v), decided by the kernel over the regenerated tables against the independently written Spec/Units.v: for all 112 units of the main crate in both amount types and all 27 units of the "
         "astronomical crate (f64): same unit set, symbol and SI prefix equal, the literal's exact value equals the definition whenever that is a terminating decimal, the binary64 scale is within 2^-52 relative and the "
         "decimal scale within 10^-18 (exact up to 18 decimals) of the definition, SI-prefixed scales differ by exactly ten to the prefix-exponent difference, reference units have scale one; pc/kpc/Mpc/Gpc within 2^-52 of "
         "648000/pi (interval arithmetic). Names/arms = declaration by the registry theorem shared with C09."
         " The literal conversions themselves are theorems (Props/Literals.v): `lit as f64` is the correctly rounded exact value (or the signed infinity on overflow), `Dec!` rejects for one of eight stated reasons or represents the literal exactly.")
LEVEL_NOTE = "Trusted: Coq kernel, Spec/Units.v, translator rs2j+j2v, the literal-conversion models (validated bit-for-bit against the compiled crate each run), Coq-Interval; axioms: stdlib reals + PrimInt63/Uint63 (parsec theorem only)."
ASSUMPTIONS = [
    "rustc converts a float literal to the nearest f64 and fpdec's Dec! takes the literal digit by digit (validated: every scale's bit pattern / coefficient is compared with the model's on every run)",
    "the published definitions are those of Spec/Units.v (sources cited there)",
]

PI = Fraction(3141592653589793238462643383279502884197169399375105820974944592, 10 ** 63)

SPEC_HEADER = ("From Coq Require Import String QArith.\nFrom QV Require Import Rt.Prelude Rt.Show Spec.Units.\nLocal Close Scope Q_scope.\n"
               "Definition show_def (d : sdef) : string := match d with DQ q => (\"Q \" ++ show_Z (Qnum q) ++ \"/\" ++ show_Z (Zpos (Qden q)))%string "
               "| DOverPi k => (\"P \" ++ show_Z (Qnum k) ++ \"/\" ++ show_Z (Zpos (Qden k)))%string | DNoScale => \"N\"%string end.\n"
               "Definition show_uspec (r : uspec) : string := (show_ustr (us_name r) ++ \"|\" ++ show_ustr (us_symbol r) ++ \"|\" ++ show_opt show_ustr (us_prefix r) ++ \"|\" ++ show_def (us_def r))%string.\n"
               "Definition show_spec (x : ustring * ustring * list uspec) : string := (string_of_ustr (fst (fst x)) ++ \" \" ++ string_of_ustr (snd (fst x)) ++ \" :: \" ++ show_sep show_uspec \" ; \" (snd x))%string.\n")


def dec(s):
    s = s.strip()
    if s.startswith("Some "):
        s = s[5:]
    return "".join(chr(int(c)) for c in s.strip("<>").split())


def load_spec(ctx):
    fw.coq_make(["Spec/Units.vo", "Rt/Show.vo"], ctx.log)
    n = 18
    res = fw.run_coq_cases("C07-spec", SPEC_HEADER, [f"show_spec (nth {i} spec_catalogue (nil, nil, nil))" for i in range(n)], ctx.log)
    spec = {}
    for line in res:
        head, body = line.split(" :: ")
        crate, qty = head.split()
        units = {}
        for r in body.split(" ; "):
            name, sym, pfx, d = r.split("|")
            kind, _, frac = d.partition(" ")
            val = None
            if kind in ("Q", "P"):
                a, b = frac.split("/")
                val = Fraction(int(a), int(b))
            units[dec(name)] = (dec(sym), None if pfx.strip() == "None" else dec(pfx), kind, val)
        spec[(crate, qty)] = units
    return spec


def terminates(fr, digits=None):
    d = fr.denominator
    for p in (2, 5):
        while d % p == 0:
            d //= p
    if d != 1:
        return False
    if digits is None:
        return True
    return (fr * 10 ** digits).denominator == 1


def run(ctx):
    kr = kc.KRun(ctx, PID)
    spec = load_spec(ctx) if ctx.model_ok else None
    if spec is None:
        # the specification lives in Coq; without a buildable model fall back to the last built one
        try:
            spec = load_spec(ctx)
        except fw.Failure:
            spec = {}
    for be in kc.BACKENDS:
        types = [t for t in kc.all_types(ctx.gen_info, be, with_amount=False) if t.crate in ("quantities", "astronomical")]
        ops, meta = [], []
        for t in types:
            ops.append(f"units {t.name}"); meta.append(("units", t))
            if t.path == "PRef":
                ops.append(f"scales {t.name}"); meta.append(("scales", t))
        impl = kr.run(be, ops)
        names_of = {}
        for op, (o, t), r in zip(ops, meta, impl):
            key = ("quantities" if t.crate == "quantities" else "astronomical", t.entry["qty"])
            sp = spec.get(key)
            if sp is None:
                kr.violation(be, "no specification for this quantity (Spec/Units.v)", op, str(key))
                continue
            if o == "units":
                rows = [x.split("|") for x in r.split(" ; ")]
                names = [dec(x[0]) for x in rows]
                names_of[t.name] = names
                if sorted(names) != sorted(sp):
                    kr.violation(be, "the unit set of the quantity differs from the specification", op, sorted(names), sorted(sp))
                    continue
                for x in rows:
                    nm, sym, pfx = dec(x[0]), dec(x[1]), x[2].strip()
                    kr.nontrivial.add((be, t.name, nm))
                    kr.count(f"{be}:unit")
                    ssym, spfx, kind, val = sp[nm]
                    if sym != ssym:
                        kr.violation(be, f"unit {nm}: symbol differs from the published one", op, sym, ssym)
                    want = "None" if spfx is None else "Some " + spfx
                    if pfx != want:
                        kr.violation(be, f"unit {nm}: SI prefix differs from the specification", op, pfx, want)
            else:
                names = names_of.get(t.name)
                if not names or sorted(names) != sorted(sp):
                    continue
                toks = r.split()[:-2]
                for nm, tok in zip(names, toks):
                    ssym, spfx, kind, val = sp[nm]
                    x = kc.value(be, tok)
                    if kind == "N" or x is None:
                        kr.violation(be, f"unit {nm}: scale present/invalid where the specification has none", op, tok)
                        continue
                    exact = val if kind == "Q" else val / PI
                    if be == "f64":
                        if kind == "Q" and terminates(exact):
                            ok = tok == kc.f64_round(exact)      # the correctly rounded definition
                            what = "is not the correctly rounded value of its terminating definition"
                        else:
                            ok = abs(x - exact) <= abs(exact) * Fraction(1, 2 ** 52)
                            what = "deviates from its definition by more than f64::EPSILON (relative)"
                    else:
                        if kind == "Q" and terminates(exact, 18):
                            ok = x == exact
                            what = "is not exactly its definition (which has at most 18 decimals)"
                        else:
                            ok = abs(x - exact) <= Fraction(1, 10 ** 18)
                            what = "deviates from its definition by more than Decimal::DELTA = 1e-18"
                    if not ok:
                        kr.violation(be, f"unit {nm} of {t.entry['qty']}: scale {what}", op, f"{tok} = {kc.ff(x)}", kc.ff(exact))
    return kr.result("every unit of every predefined quantity (main crate: both back-ends; astronomical crate: f64): name set, symbol, SI prefix and scale() of the compiled crate against Spec/Units.v "
                     "(read out of Coq, so there is one specification): exact / correctly rounded for terminating definitions, within 2^-52 relative (f64) or 1e-18 (decimal) otherwise; "
                     "the model's tables are compared with the implementation's bit patterns / coefficients; non-trivial = distinct (back-end, type, unit)", exhaustive=True)
