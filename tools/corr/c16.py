"""C16 — SI prefix table is a consistent bijection."""
import itertools
import framework as fw

PID = "C16"
MODEL_TARGETS = ["Proofs/PrefixModel.vo", "Rt/Show.vo"]
PROOF_TARGETS = ["Props/C16.vo", "Pinned/C16.vo"]
PROPS = "Props/C16.v"
COQCHK = ["QV.Props.C16"]
TRUSTED_BASE = [
    "Coq 8.16.1 kernel (coqc; vm_compute used for the finite table facts); coqchk in the thorough tier",
    "translator rs2j+j2v: enum SIPrefix (variants, discriminants) and the match arms of name/abbr/from_abbr/from_exp are copied from src/si_prefixes.rs in source order; `exp` is checked to be `*self as i8`",
    "model of a Rust `match` as first-match look-up (Proofs/PrefixModel.v); EnumIter modelled as declaration order (derive in qty-macros/src/lib.rs) — both validated by the correspondence run",
    "Spec/SIBrochure.v: the SI brochure table, written by hand",
    "no axioms (Print Assumptions: closed under the global context)",
]
LEVEL = ("Coq theorems (Props/C16.v) over the prefix tables regenerated from src/si_prefixes.rs on every run: table = SI brochure, from_exp decided for all 256 i8 values, "
         "from_abbr for every string (first-match lemma + computed key facts), three-column injectivity, iteration complete/duplicate-free/strictly increasing. The model of `match` "
         "and of the EnumIter derive is validated against the real crate on every run (all exponents, all strings of length <= 2 over the abbreviation alphabet, random strings).")
LEVEL_NOTE = "Trusted: Coq kernel (vm_compute), the translator rs2j+j2v, Spec/SIBrochure.v (hand-written brochure table), first-match reading of Rust match; no axioms."
ASSUMPTIONS = [
    "rustc compiles `match` on string/integer literals as first-match and rejects non-exhaustive matches",
    "the harness (tools/harness) feeds the same inputs to the implementation as the cases file feeds to the model",
]

BROCHURE = [(-30, "Quecto", "q"), (-27, "Ronto", "r"), (-24, "Yocto", "y"), (-21, "Zepto", "z"), (-18, "Atto", "a"),
            (-15, "Femto", "f"), (-12, "Pico", "p"), (-9, "Nano", "n"), (-6, "Micro", "µ"), (-3, "Milli", "m"),
            (-2, "Centi", "c"), (-1, "Deci", "d"), (0, "", ""), (1, "Deca", "da"), (2, "Hecto", "h"), (3, "Kilo", "k"),
            (6, "Mega", "M"), (9, "Giga", "G"), (12, "Tera", "T"), (15, "Peta", "P"), (18, "Exa", "E"),
            (21, "Zetta", "Z"), (24, "Yotta", "Y"), (27, "Ronna", "R"), (30, "Quetta", "Q")]

HEADER = "From Coq Require Import String.\nFrom QV Require Import Rt.Prelude Rt.Show Gen.Prefixes Proofs.PrefixModel.\n" \
         "Definition show_pfx (o : option SIPrefix) : string := show_opt (fun p => string_of_ustr (SIPrefix_ident p)) o.\n" \
         "Definition show_row (p : SIPrefix) : string := string_of_ustr (SIPrefix_ident p) ++ \"|\" ++ show_opt show_ustr (prefix_name p) ++ \"|\" ++ show_opt show_ustr (prefix_abbr p) ++ \"|\" ++ show_Z (prefix_exp p).\n"


def arg_cps(s):
    return '"' + "_".join(str(ord(c)) for c in s) + '"'


def run(ctx):
    rng = ctx.rng
    alphabet = sorted(set("".join(a for _, _, a in BROCHURE)) | set("uUKmμ "))  # incl. GREEK MU look-alike, 'u', 'K'
    strings = [""] + [a for a in alphabet] + ["".join(p) for p in itertools.product(alphabet, repeat=2)]
    n_rand = 200 if ctx.tier == "quick" else 5000
    pool = alphabet + list("xX09µμ☉")
    for _ in range(n_rand):
        strings.append("".join(rng.choice(pool) for _ in range(rng.randint(1, 4))))
    strings += ["da ", " k", "Da", "DA", "mu", "micro", "ki", "Ki", "µµ"]
    exps = list(range(-128, 128))
    ops, exprs, meta = [], [], []
    ops.append("prefix table"); exprs.append('show_sep show_row " ; " prefix_iter'); meta.append(("table",))
    for e in exps:
        ops.append(f"prefix from_exp {e}")
        exprs.append(f"show_pfx (prefix_from_exp ({e})%Z)")
        meta.append(("from_exp", e))
    for s in strings:
        ops.append(f"prefix from_abbr {arg_cps(s)}")
        exprs.append(f"show_pfx (prefix_from_abbr {fw.cstr(s)})")
        meta.append(("from_abbr", s))
    impl = fw.run_harness(ctx.harness("f64"), ops, ctx.log)
    # the harness prints names/abbrs as "cp cp": bring to the model's <cp cp> format
    def canon_impl(line):
        import re
        return re.sub(r'"([0-9 ]*)"', lambda m: "Some <" + m.group(1) + ">", line)
    impl = [canon_impl(x) if m[0] == "table" else x for x, m in zip(impl, meta)]
    disagreements, violations = [], []
    if ctx.model_ok:
        model = fw.run_coq_cases("C16", HEADER, exprs, ctx.log)
        for op, a, b in zip(ops, impl, model):
            if a != b:
                disagreements.append({"op": op, "implementation": a, "model": b})
    # oracle on the implementation, independent of the Coq model
    by_exp = {e: (n, a) for e, n, a in BROCHURE}
    name_of = {}
    rows = impl[0].split(" ; ")
    parsed = []
    for r in rows:
        ident, n, a, e = r.split("|")
        dec = lambda t: "".join(chr(int(x)) for x in t[len("Some <"):-1].split()) if t.startswith("Some <") else None
        parsed.append((ident, dec(n), dec(a), int(e)))
    if [(e, n, a) for _, n, a, e in parsed] != BROCHURE:
        violations.append({"what": "prefix table differs from the SI brochure (or iteration is not in increasing exponent order)",
                           "input": "SIPrefix::iter() with name/abbr/exp", "observed": parsed})
    ident_by_exp = {e: i for i, _, _, e in parsed}
    ident_by_abbr = {a: i for i, _, a, _ in parsed}
    for op, m, r in zip(ops, meta, impl):
        if m[0] == "from_exp":
            want = "Some " + ident_by_exp[m[1]] if m[1] in ident_by_exp else "None"
            if r != want:
                violations.append({"what": f"from_exp({m[1]}) returns {r}, the table requires {want}", "input": op, "observed": r})
        elif m[0] == "from_abbr":
            want = "Some " + ident_by_abbr[m[1]] if m[1] in ident_by_abbr else "None"
            if r != want:
                violations.append({"what": f"from_abbr({m[1]!r}) returns {r}, the table requires {want}", "input": op, "observed": r})
    nontrivial = len({op for op, r in zip(ops, impl) if r != "None"}) + len({op for op, m in zip(ops, meta) if m[0] == "from_abbr" and len(m[1]) <= 2})
    return {
        "evaluations": len(ops), "distinct_nontrivial": min(nontrivial, len(set(ops))),
        "rule": "the prefix table; from_exp on all 256 i8 values; from_abbr on every string of length <= 2 over the abbreviation alphabet "
                "(plus look-alikes: Greek mu, 'u', 'K') and seeded random strings; non-trivial = hits a prefix or is one of the exhaustive short strings",
        "samples": [{"op": ops[0], "result": impl[0][:200]}, {"op": ops[99], "result": impl[99]}, {"op": ops[300], "result": impl[300]}],
        "disagreements": disagreements, "violations": violations,
        "distribution": {"from_exp": len(exps), "from_abbr_exhaustive_len<=2": 1 + len(alphabet) + len(alphabet) ** 2,
                         "from_abbr_random": n_rand, "hits": sum(1 for r in impl[1:] if r != "None")},
        "exhaustive": True,
    }
