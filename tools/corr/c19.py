"""C19 — every feature combination builds and is self-contained."""
import os, re, shutil, itertools
import framework as fw

PID = "C19"
MODEL_TARGETS = ["Gen/Config.vo", "Gen/Catalogue.vo"]
PROOF_TARGETS = ["Props/C19.vo", "Pinned/C19.vo"]
PROPS = "Props/C19.v"
COQCHK = ["QV.Props.C19"]
TRUSTED_BASE = [
    "Coq 8.16.1 kernel (coqc; vm_compute for the per-edge facts); coqchk in the thorough tier",
    "translator rs2j+j2v: [features] of Cargo.toml, the cfg(feature) gate of every `mod` item of src/lib.rs, the crate::<module> paths named by each module file, cfg attributes inside module files, regenerated on every run (Gen/Config.v)",
    "model of cargo's feature unification as reachability in the feature graph; of cfg(feature = f) as membership (Proofs/C19.v)",
    "rustc/cargo verdicts per configuration are OBSERVED (cargo check), not proved",
]
LEVEL = ("Coq theorems (Props/C19.v): for EVERY requested feature set (all subsets of the 14 quantity features x std x fpdec x serde, by a reachability lemma rather than enumeration) every compiled module finds "
         "each crate module it names compiled; enabling more features never disables a module; a feature enables its module. Computed on the regenerated tree: each quantity module is gated by the feature of its name, "
         "each derivation's operand types live in modules referenced by and enabled with its own feature, no catalogue module has an inner cfg (so results cannot depend on other features), doc lists all 14. "
         "That each configuration compiles, and that the operation corpus gives identical results in minimal and full configurations, is observed with cargo (partial: validation against the tool).")
LEVEL_NOTE = "Trusted: Coq kernel, translator rs2j+j2v (Cargo.toml / cfg / use-path extraction), the reachability model of cargo features; no axioms. The compiler's verdict is observed, not proved."
ASSUMPTIONS = [
    "cargo enables exactly the features reachable from the requested ones; cfg(feature=\"f\") is true iff f is enabled",
    "a module compiles iff the crate modules it names are compiled (plus rustc's own checks, observed per configuration)",
]
CATEGORY = "proof"

QF = ["mass", "length", "duration", "area", "volume", "speed", "acceleration", "force", "energy", "power", "frequency",
      "datavolume", "datathroughput", "temperature"]


def parse_features(repo):
    feats, cur = {}, None
    insec = False
    for line in open(os.path.join(repo, "Cargo.toml"), encoding="utf-8"):
        s = line.strip()
        if s.startswith("["):
            insec = s == "[features]"
            continue
        if insec and "=" in s and not s.startswith("#"):
            k, v = s.split("=", 1)
            feats[k.strip()] = re.findall(r'"([^"]+)"', v)
    return feats


def closure(feats, req):
    seen, todo = set(), list(req)
    while todo:
        f = todo.pop()
        if f in seen:
            continue
        seen.add(f)
        for d in feats.get(f, []):
            if d in feats:
                todo.append(d)
    return seen


def module_gates(repo):
    text = open(os.path.join(repo, "src", "lib.rs"), encoding="utf-8").read()
    gates = {}
    for m in re.finditer(r'((?:#\[[^\]]*\]\s*)*)(?:pub\s+)?mod\s+([a-z_0-9]+)\s*;', text):
        attrs, name = m.group(1), m.group(2)
        g = re.findall(r'#\[cfg\(feature\s*=\s*"([^"]+)"\)\]', attrs)
        gates[name] = g[0] if g else None
    return gates


def module_refs(repo, mod):
    p = os.path.join(repo, "src", mod + ".rs")
    if not os.path.exists(p):
        return set()
    text = open(p, encoding="utf-8").read()
    text = text.split("#[cfg(test)]")[0]
    refs = set(re.findall(r'crate::([a-z_0-9]+)::', text))
    for m in re.finditer(r'crate::\{([^}]*)\}', text, re.S):
        refs |= set(re.findall(r'\b([a-z_0-9]+)::', m.group(1)))
    return refs


def run(ctx):
    quick = ctx.tier == "quick"
    rng = ctx.rng
    repo = fw.REPO
    violations, samples = [], []
    feats = parse_features(repo)
    gates = module_gates(repo)
    # (1) the lattice property, decided in python over ALL single-feature requests (it is monotone: a violation for some S
    #     shows up for the single feature that enables the offending module) and a sample of subsets
    n_lattice = 0
    for f in [None] + QF + ["std", "fpdec", "serde"]:
        en = closure(feats, [f] if f else [])
        for mod, g in gates.items():
            if g is not None and g not in en:
                continue
            for r in module_refs(repo, mod):
                n_lattice += 1
                if r in gates and gates[r] is not None and gates[r] not in en:
                    violations.append({"what": f"with features [{f or ''}] module `{mod}` is compiled but names module `{r}` which is gated by the disabled feature `{gates[r]}`",
                                       "input": f"--no-default-features --features {f or ''}", "observed": f"{mod} -> {r}"})
    for f in QF:
        if gates.get(f) != f:
            violations.append({"what": f"quantity module `{f}` is not gated by the feature of its name", "input": f, "observed": str(gates.get(f))})
    # (2) cargo check per configuration
    cfgs = []
    base = [[]] + [[f] for f in QF] + [QF]
    if ctx.replay:
        cfgs = [tuple(ctx.replay["violation"]["config"])] if ctx.replay.get("violation", {}).get("config") else []
    elif quick:
        for i, b in enumerate(base):
            for dec in (False, True):
                std = (i + dec) % 2 == 0
                serde = (i // 2 + dec) % 2 == 0
                cfgs.append((tuple(b), std, dec, serde))
    else:
        for b in base:
            for std, dec, serde in itertools.product((True, False), repeat=3):
                cfgs.append((tuple(b), std, dec, serde))
    tdir = os.path.join(fw.BUILD, "target-c19")
    ok_n = 0
    for (b, std, dec, serde) in cfgs:
        fl = list(b) + (["std"] if std else []) + (["fpdec"] if dec else []) + (["serde"] if serde else [])
        cmd = ["cargo", "check", "--offline", "--quiet", "--lib", "--no-default-features"] + (["--features", ",".join(fl)] if fl else [])
        rc, out, dt = fw.sh(cmd, cwd=repo, timeout=900, env={"CARGO_TARGET_DIR": tdir, "RUSTFLAGS": "-Awarnings"})
        if rc != 0:
            m = re.search(r"error(\[E\d+\])?: [^\n]*\n\s*--> ([^\n]*)", out)
            violations.append({"what": "configuration does not compile", "input": " ".join(cmd), "config": [list(b), std, dec, serde],
                               "observed": (m.group(0) if m else out.strip()[-300:])[:400]})
        else:
            ok_n += 1
        if len(samples) < 4:
            samples.append({"config": " ".join(cmd[5:]) or "(no features)", "cargo_check": "ok" if rc == 0 else "FAILED", "s": round(dt, 1)})
    # (3) the operation corpus: minimal vs full configuration, both back-ends
    corpus_cmp = 0
    src = os.path.join(fw.VERIF, "tools", "featcorpus")
    dst = os.path.join(fw.BUILD, "featcorpus")
    os.makedirs(dst, exist_ok=True)
    fw.sh(["rsync", "-a", "--delete", "--exclude", "target", src + "/", dst + "/"])
    ct = open(os.path.join(dst, "Cargo.toml")).read().replace('"/repo"', '"' + repo + '"')
    open(os.path.join(dst, "Cargo.toml"), "w").write(ct)
    shutil.copy(os.path.join(repo, "Cargo.lock"), os.path.join(dst, "Cargo.lock"))
    tdir2 = os.path.join(fw.BUILD, "target-featcorpus")

    def corpus(fl):
        rc, out, dt = fw.sh(["cargo", "run", "--offline", "--quiet", "--features", ",".join(fl)], cwd=dst, timeout=1200,
                            env={"CARGO_TARGET_DIR": tdir2, "RUSTFLAGS": "-Awarnings"})
        if rc != 0:
            return None, out
        return [l for l in out.split("\n") if l and not l.startswith("WARNING")], out

    singles = QF if not quick else rng.sample(QF, 3)
    for dec in (False, True):
        extra = ["std"] + (["fpdec"] if dec else [])
        full, out = corpus(QF + extra + ["serde"])
        if full is None:
            violations.append({"what": "the operation corpus does not build in the full configuration", "input": ",".join(QF + extra), "observed": out[-300:]})
            continue
        fullset = set(full)
        for f in singles:
            mini, out = corpus([f] + extra)
            if mini is None:
                violations.append({"what": f"the operation corpus for feature `{f}` does not build on its own", "input": ",".join([f] + extra), "observed": out[-300:]})
                continue
            corpus_cmp += len(mini)
            missing = [l for l in mini if l not in fullset]
            if missing:
                violations.append({"what": "enabling additional features changed the result of an operation that was already available",
                                   "input": f"featcorpus --features {','.join([f] + extra)}  vs  all features", "observed": missing[:3]})
            if not mini:
                violations.append({"what": f"feature `{f}` alone exposes nothing of its quantity", "input": f, "observed": "empty corpus output"})
        # std on/off must not change results either
        for f in (["temperature", "length"] + ([] if quick else QF[:4])):
            nostd, out = corpus([f] + [x for x in extra if x != "std"])
            if nostd is None:
                violations.append({"what": f"the operation corpus for feature `{f}` does not build without std", "input": f, "observed": out[-300:]})
                continue
            corpus_cmp += len(nostd)
            missing = [l for l in nostd if l not in fullset]
            if missing:
                violations.append({"what": "enabling `std` changed the result of an operation that was already available without it",
                                   "input": f"featcorpus --features {','.join([f] + [x for x in extra if x != 'std'])}  vs  all features with std", "observed": missing[:3]})
    return {"evaluations": n_lattice + len(cfgs) + corpus_cmp, "distinct_nontrivial": len(cfgs) + len(singles) * 2,
            "rule": "lattice: every (requested feature, compiled module, named module) triple re-derived in python from Cargo.toml / lib.rs / module files; "
                    "cargo check --lib --no-default-features per configuration (quick: none, each of the 14, all x {f64, decimal} with std/serde alternating = 32; thorough: all 16 x 8 = 128); "
                    "operation corpus (tools/featcorpus: conversions, + - /, comparison, _fit, formatting, derived operators per feature) run with a single feature and with all features, lines compared; "
                    "non-trivial = configurations compiled + corpus comparisons",
            "samples": samples, "disagreements": [], "violations": violations,
            "distribution": {"lattice_triples": n_lattice, "configurations_checked": len(cfgs), "configurations_ok": ok_n, "corpus_lines_compared": corpus_cmp},
            "exhaustive": not quick, "extra": {}}
