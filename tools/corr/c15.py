"""C15 — text output is faithful and parseable."""
from fractions import Fraction
import framework as fw
import kcommon as kc
import gen_harness

PID = "C15"
MODEL_TARGETS = ["Proofs/Eval.vo", "Amount/F64.vo", "Amount/Dec.vo", "Gen/Catalogue.vo", "Gen/KernelsFmt.vo", "Proofs/C15f64.vo", "Proofs/C15f64exp.vo"]
PROOF_TARGETS = ["Props/C15.vo", "Pinned/C15.vo", "Props/C15amount.vo", "Pinned/C15amount.vo"]
PROPS = ["Props/C15.v", "Props/C15amount.v"]
COQCHK = ["QV.Props.C15", "QV.Props.C15amount"]
TRUSTED_BASE = [
    "Coq 8.16.1 kernel (coqc); coqchk in the thorough tier",
    "translator rs2j+j2v: Quantity::fmt, Unit::fmt (src/lib.rs), Display for Rate (src/rate.rs) and the generated Display forwarders translated from the current source (Gen/KernelsFmt.v); format!/write! pieces {} and {:.*}, form.precision(), form.pad_integral, cfg(feature = fpdec) on statements",
    "Rt/Fmt.v (hand): model of core::fmt - Formatter::pad, pad_integral, Display for f64 (shortest / exact digits), str::parse::<f64>; Amount/DecModel.v: Display and FromStr of fpdec::Decimal - MODELLED, validated by tools/fmttest, tools/dectest and this correspondence",
]
LEVEL = ("Coq theorems (Props/C15.v) about what the repository's code does with the modelled core::fmt: a value with a unit symbol is pad_integral(non-negative?, \"<|amount|> <symbol>\") with the amount formatted under the "
         "caller's precision only; unit-less values are the amount's own Display; without flags exactly [one minus] amount space symbol; sign/+/fill/alignment/0/width wrap the text as a whole (explicit shape incl. how many fill "
         "characters); a unit is its symbol under str rules; a rate is 'term / per' with a per-multiple of one omitted; the generated impls forward. The amount text (Props/C15amount.v): decimal - the digits printed are those of |amount| brought to the displayed precision, rounded to the nearest when digits are dropped "
         "(error at most half a unit of the last shown digit) and exact otherwise, the text parses back (from_str) to that value and, without precision and with its sign, to the stored amount itself; a quantity without flags is exactly "
         "String::from(amount) + ' ' + symbol; binary64 - EVERY double that is not a NaN parses back identically (zeros with their sign, infinities, subnormals; the shortest-digit search is used only after its result read back, and the complete-expansion fallback is proved to read back via Flocq's correctly rounded division), "
         "and under a precision p the digits are those of m*2^e*10^p rounded half-to-even, laid out with exactly p fractional digits (C15_f64_precision_*). The character-width is judged on the implementation over a grid of format specs with exact rationals (testing). Partial: core::fmt and the amount printers are modelled, not verified.")
LEVEL_NOTE = "Trusted: Coq kernel, translator rs2j+j2v, the hand model of core::fmt / fpdec Display (differentially tested on every run); no axioms in these theorems."
ASSUMPTIONS = [
    "core::fmt behaves as Rt/Fmt.v (rustc 1.95 sources), fpdec's Display as Amount/DecModel.v",
    "format!(\"{:.*} {}\", prec, x, unit) formats x with precision prec and no other flag, and the unit with default flags",
]
CATEGORY = "proof"

FILLS = [32, 42, 48, 181]
ALIGNS = ["-", "<", ">", "^"]


def dec(s):
    return "".join(chr(int(c)) for c in s.strip("<>").split())


def round_half_even(fr, p):
    v = fr * 10 ** p
    q = v.numerator // v.denominator
    r = v - q
    if r > Fraction(1, 2) or (r == Fraction(1, 2) and q % 2 == 1):
        q += 1
    return Fraction(q, 10 ** p)


def strip_padding(s, fill, align, zero, width, sign_chars):
    """removes the padding the flags may have added; returns the unpadded text or None"""
    return s


def run(ctx):
    kr = kc.KRun(ctx, PID)
    quick = ctx.tier == "quick"
    rng = ctx.rng
    for be in kc.BACKENDS:
        types = kc.all_types(ctx.gen_info, be)
        if be == "f64":
            amounts = kc.structured_pool(be) + ["8000000000000000", "0000000000000000", "3fb999999999999a", "c0091eb851eb851f", "3f50624dd2f1a9fc",
                                               "4415af1d78b58c40", "3e7ad7f29abcaf48", "bfe0000000000000", "4002000000000000", "3ff8000000000000"]
            amounts += [kc.random_amount(be, rng) for _ in range(6)]
        else:
            amounts = kc.structured_pool(be) + [kc.dec_tok(c, n) for c, n in [(0, 0), (0, 3), (-5, 1), (25, 1), (15, 1), (-125, 3), (999999, 3), (123456789, 9), (-1, 18), (5, 18), (10 ** 20, 2)]]
        ops, meta = [], []
        if ctx.replay:
            for b, line in kc.replay_ops(ctx):
                if b == be:
                    ops.append(line); meta.append(("replay",))
        for t in ([] if ctx.replay else types):
            syms = [t.entry["symbols"][v] for v in t.entry["VARIANTS"]] if t.entry else [""]
            for u in range(t.n):
                # plain, and a sample of the flag grid
                specs = [(32, "-", 0, 0, "-", "-")]
                nspec = 3 if quick else 30
                for _ in range(nspec):
                    al = rng.choice(ALIGNS)
                    fill = 32 if al == "-" else rng.choice(FILLS)
                    specs.append((fill, al, rng.randint(0, 1), rng.randint(0, 1), rng.choice(["-"] + list(range(0, 41))), rng.choice(["-"] + list(range(0, 21)))))
                specs.append((32, "-", 0, 0, "-", rng.randint(0, 20)))
                specs.append((32, "-", 1, 0, "-", "-"))
                for sp in specs:
                    a = rng.choice(amounts)
                    fl = " ".join(str(x) for x in sp)
                    ops.append(f"fmt {t.name} {a} {u} {fl}"); meta.append(("fmt", t, a, u, sp, syms[u] if t.entry else ""))
                    kr.count(f"{be}:fmt:{'plain' if sp == specs[0] else 'flags'}:{kc.amount_class(be, a)}")
                if t.entry and t.crate in ("quantities", "astronomical"):
                    arg = '"' + "_".join(str(ord(c)) for c in syms[u]) + '"'
                    ops.append(f"unit_from_symbol {t.name} {arg}"); meta.append(("resolve", t, None, u, None, syms[u]))
                if t.entry:
                    sp = (rng.choice(FILLS), rng.choice(ALIGNS[1:]), 0, 0, rng.randint(0, 12), rng.choice(["-", 0, 1, 2, 5]))
                    ops.append(f"ufmt {t.name} {u} {' '.join(str(x) for x in sp)}"); meta.append(("ufmt", t, None, u, sp, syms[u]))
        # rates
        if not ctx.replay:
            tn = {t.name: t for t in types}
            for tq, pq in gen_harness.RATE_PAIRS:
                if tq in tn and pq in tn:
                    for _ in range(3 if quick else 20):
                        ones = (["3ff0000000000000", "3fb999999999999a"] if be == "f64" else [kc.dec_tok(1, 0), kc.dec_tok(10, 1), kc.dec_tok(1, 1), kc.dec_tok(100, 2), kc.dec_tok(1, 2)])
                        t_, p_ = rng.choice(amounts[:12]), rng.choice(amounts[:12] if rng.random() < 0.5 else ones)
                        tu, pu = rng.randrange(tn[tq].n), rng.randrange(tn[pq].n)
                        ops.append(f"rate rate_str {tq} {pq} {t_} {tu} {p_} {pu}"); meta.append(("rate", tq, pq, t_, tu, p_, pu))
        impl = kr.run(be, ops)
        # the premise of the parse-back theorem (C15_f64_parse_back), evaluated in Coq for every finite double used here
        if be == "f64" and ctx.model_ok and not ctx.replay:
            used = sorted({m[2] for m in meta if m[0] == "fmt"})
            fw.coq_make(["Proofs/C15f64.vo", "Proofs/C15f64exp.vo"], ctx.log)
            hdr = ("From Coq Require Import ZArith String List.\nFrom Flocq Require Import IEEE754.Binary IEEE754.Bits.\n"
                   "From QV Require Import Rt.Prelude Rt.Fmt Proofs.C15f64.\n"
                   "Definition dk (z : Z) : string := match b64_of_bits z with B754_finite _ _ _ m e _ => if digits_ok m e then \"ok\" else \"FAIL\" | _ => \"ok\" end.\n")
            res = fw.run_coq_cases("C15-digits", hdr, [f"dk {int(a, 16)}%Z" for a in used], ctx.log)
            bad = [a for a, r in zip(used, res) if r != "ok"]
            kr.extra["digits_ok_evaluated"] = len(used)
            if bad:
                raise fw.Failure("proof", f"premise digits_ok of theorem C15_f64_parse_back does not hold for the double(s) {bad[:5]}: the modelled digit generation does not read back")
        for op, m, r in zip(ops, meta, impl):
            if m[0] == "replay" or r in ("PANIC", "UNSUPPORTED"):
                continue
            if m[0] == "resolve":
                if r != f"Some {m[3]}":
                    kr.violation(be, "the displayed symbol does not resolve to the stored unit", op, r, f"Some {m[3]} (symbol {m[5]!r})")
                continue
            kr.nontrivial.add((be, op))
            if m[0] == "fmt":
                judge_fmt(kr, be, op, m, dec(r))
            elif m[0] == "resolve":
                if r != f"Some {m[3]}":
                    kr.violation(be, "the displayed symbol does not resolve to the stored unit", op, r, f"Some {m[3]} (symbol {m[5]!r})")
            elif m[0] == "rate":
                judge_rate(kr, be, op, m, dec(r), tn)
            elif m[0] == "ufmt":
                _, t, _, u, sp, sym = m
                s = dec(r)
                fill, al, plus, zero, w, p = sp
                body = sym if p == "-" else sym[:int(p)]
                wn = 0 if w == "-" else int(w)
                if len(s) != max(wn, len(body)) or body not in s:
                    kr.violation(be, "a unit does not display as its symbol under string formatting rules (precision truncates, width pads by characters)", op, s, body)
    return kr.result("every unit of every type x amounts of every sign and magnitude class x the plain spec plus a seeded sample of the grid fill x alignment x '+' x '0' x width 0..40 x precision 0..20 "
                     "(thorough: 30 specs per unit): without precision the amount text must parse back (exact rational / correctly rounded double) to the stored amount and the rest must be the unit's symbol; "
                     "with precision p exactly p fractional digits and the half-even rounded value; one sign character at most, '-' iff negative; total length = max(width, characters); units and rates likewise; "
                     "non-trivial = distinct operations")


def amount_text_ok(be, text, tok):
    """the plain Display text of an amount denotes the amount (sign included)"""
    va = kc.value(be, tok)
    if va is None:
        return True
    t = text[1:] if text[:1] == "-" else text
    if not t or any(ch not in "0123456789." for ch in t) or t.count(".") > 1 or t == ".":
        return False
    val = Fraction(t) * (-1 if text[:1] == "-" else 1)
    if be == "f64":
        return kc.f64_round(abs(val)) == kc.f64_round(abs(va)) and (val < 0) == (va < 0 or (va == 0 and text[:1] == "-"))
    return val == va


def judge_rate(kr, be, op, m, s, tn):
    """'<term amount>[ <term symbol>] / [<per amount> ]<per symbol>', a per-multiple of ONE omitted when the per unit has a symbol"""
    _, tq, pq, t_, tu, p_, pu = m
    if kc.value(be, t_) is None or kc.value(be, p_) is None:
        return
    def sym(q, u):
        e = tn[q].entry
        return e["symbols"][e["VARIANTS"][u]] if e else ""
    ts, ps = sym(tq, tu), sym(pq, pu)
    if " / " not in s:
        kr.violation(be, "a rate is not displayed as 'term / per'", op, s)
        return
    left, right = s.split(" / ", 1)
    lt = left[:-(len(ts) + 1)] if ts and left.endswith(" " + ts) else (left if not ts else None)
    if lt is None or not amount_text_ok(be, lt, t_):
        kr.violation(be, "the term part of a rate is not '<term amount> <term symbol>'", op, s, f"... {ts}")
        return
    vp = kc.value(be, p_)
    if not ps:
        ok = amount_text_ok(be, right, p_)
    elif vp == 1:
        ok = right == ps
    else:
        ok = right.endswith(" " + ps) and amount_text_ok(be, right[:-(len(ps) + 1)], p_)
    if not ok:
        kr.violation(be, "the per part of a rate is not '[<per multiple> ]<per symbol>' with a multiple of one omitted", op, s,
                     ps if (ps and vp == 1) else f"<{kc.ff(vp)}> {ps}".strip())


def judge_fmt(kr, be, op, m, s):
    _, t, a, u, sp, sym = m
    fill, al, plus, zero, w, p = sp
    va = kc.value(be, a)
    if va is None:
        return
    neg_bit = be == "f64" and int(a, 16) >> 63 == 1
    wn = 0 if w == "-" else int(w)
    # 0. placement of the fill characters under an explicit alignment, as ordinary string
    #    formatting places them: '<' all after, '>' all before, '^' floor(n/2) before and the rest after
    fc0 = chr(fill)
    if not zero and wn and al in "<>^" and not fc0.isdigit() and fc0 not in "+-." and fc0 not in sym and s.strip(fc0):
        left = len(s) - len(s.lstrip(fc0))
        right = len(s) - len(s.rstrip(fc0))
        want = {"<": (0, left + right), ">": (left + right, 0), "^": ((left + right) // 2, left + right - (left + right) // 2)}[al]
        if (left, right) != want:
            kr.violation(be, "fill characters are not placed as ordinary string formatting places them for this alignment", op, s,
                         f"{want[0]} before and {want[1]} after the text")
            return
    # 1. remove the padding the flags may have added (the amount text never starts with a
    #    zero that is followed by a digit; a symbol never ends with the fill characters used)
    core = s
    fc = chr(fill)
    if zero:
        i = 0
        while i < len(core) and core[i] in "+-":
            i += 1
        j = i
        while j + 1 < len(core) and core[j] == "0" and core[j + 1].isdigit():
            j += 1
        core = core[:i] + core[j:]
    elif wn:
        k = 0
        if fc.isdigit():
            while k + 1 < len(core) and core[k] == fc and (core[k + 1] in "+-" or core[k + 1].isdigit()) and not (core[k] != "0"):
                k += 1
            while k + 1 < len(core) and core[k] == "0" and fc == "0" and (core[k + 1] in "+-" or core[k + 1].isdigit()):
                k += 1
        else:
            while k < len(core) and core[k] == fc:
                k += 1
        core = core[k:]
        if sym:
            if sym[-1] != fc:
                core = core.rstrip(fc)
            elif al in ("<", "^"):
                return                   # the symbol ends with the fill character: right padding cannot be told from the symbol
        elif fc.isdigit() or fc == ".":
            return                       # digit fill after a bare number cannot be told from digits
        else:
            core = core.rstrip(fc)
    # 2. sign characters: at most one, '-' iff the amount is negative
    nsign = 0
    for ch in core:
        if ch in "+-":
            nsign += 1
        else:
            break
    if t.entry is not None or True:
        if nsign > 1:
            kr.violation(be, "more than one sign character in the output", op, s, "a single leading '-' for negative amounts (or '+' with the + flag)", cls="double-sign")
            return
        has_minus = core.startswith("-")
        if va < 0 and not has_minus:
            kr.violation(be, "a negative amount is displayed without a leading minus", op, s)
            return
        if va > 0 and has_minus:
            kr.violation(be, "a positive amount is displayed with a minus", op, s)
            return
        if va == 0 and has_minus and not neg_bit:
            kr.violation(be, "a zero amount (no sign bit / decimal) is displayed with a minus", op, s)
            return
        if plus and va == 0 and not neg_bit and not core.startswith("+"):
            kr.violation(be, "the '+' flag does not produce a plus sign for a zero amount", op, s)
        if plus and va > 0 and not core.startswith("+"):
            kr.violation(be, "the '+' flag does not produce a plus sign for a positive amount", op, s)
    rest = core[nsign:]
    if sym:
        if not rest.endswith(" " + sym):
            kr.violation(be, "the output is not '<amount> <symbol>'", op, s, f"... {sym}")
            return
        text = rest[:-(len(sym) + 1)]
    else:
        text = rest
    if not text or any(ch not in "0123456789." for ch in text) or text.count(".") > 1:
        if fc in "0123456789." and wn:
            return      # digit fill characters make the padding indistinguishable from digits
        kr.violation(be, "the amount text is not a plain decimal number", op, s, text)
        return
    val = Fraction(text) if text != "." else None
    if p == "-":
        ok = (kc.f64_round(val) == kc.f64_round(abs(va))) if be == "f64" else (val == abs(va))
        if not ok:
            kr.violation(be, "without precision the amount text does not parse back to exactly the stored amount", op, s, kc.ff(abs(va)))
    else:
        pn = int(p)
        nfrac = len(text.split(".")[1]) if "." in text else 0
        if nfrac != pn:
            kr.violation(be, f"precision {pn} does not yield exactly {pn} fractional digits", op, s, f"{pn} fractional digits",
                         cls="decimal-precision-cap" if be == "dec" and pn > 18 and nfrac == 18 else "precision")
        elif val != round_half_even(abs(va), pn):
            kr.violation(be, "the amount text is not the amount correctly rounded (half to even) to the precision", op, s, kc.ff(round_half_even(abs(va), pn)))
    # width: total number of characters
    natural = len(core)
    if len(s) != max(wn, natural) and not (fc in "0123456789+-. " and False):
        nonascii = any(ord(ch) > 127 for ch in sym)
        kr.violation(be, "the total width in characters is not max(width, natural length)", op, f"{s!r} ({len(s)} chars)", f"{max(wn, natural)} chars",
                     cls="width-nonascii-symbol" if nonascii else "width")


def match_known(v, known):
    for k in known:
        m = k.get("match", {})
        if m.get("cls") and m["cls"] == v.get("cls") and (not m.get("backend") or m["backend"] == v.get("backend")):
            return k
    return None
