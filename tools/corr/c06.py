"""C06 — dimensional type safety of quantity arithmetic."""
import json, os, re, shutil
import framework as fw
import gen_harness

PID = "C06"
MODEL_TARGETS = ["Gen/Catalogue.vo", "Rt/Show.vo"]
PROOF_TARGETS = ["Props/C06.vo", "Pinned/C06.vo"]
PROPS = "Props/C06.v"
COQCHK = ["QV.Props.C06"]
TRUSTED_BASE = [
    "Coq 8.16.1 kernel (coqc; vm_compute decides all 1350 programs); coqchk in the thorough tier",
    "translator rs2j+j2v: the impl table (trait, Self, Rhs, Output) of every definition, read off the repository's own codegen() output on every run; the #[quantity(A op B)] declarations",
    "Spec/Dimensions.v (hand): dimension vectors; `meaningful` (Proofs/C06.v): the specification written from the property text over the declared derivations",
    "model of typability: an operator application is typable iff exactly one impl (trait, Self, Rhs) is in the table, with that Output (rustc's trait resolution: OBSERVED by cargo check on all programs, not proved)",
]
LEVEL = ("Coq theorems (Props/C06.v), decided by the kernel on the regenerated impl table: for all 15 x 15 x 6 = 1350 operator applications over the 14 catalogue types and the bare amount, an impl exists - with exactly that result type - "
         "iff the specification over the DECLARED derivations says the combination is meaningful; coherence (never two impls per (trait, Self, Rhs)); every accepted program is dimensionally sound against the independent "
         "dimension table; the impl set of every derivation is exactly the model's. rustc's verdict is observed: all 1350 programs (+ the astronomical crate's) are compiled in both amount types and each function's "
         "accept/reject verdict and ascribed result type is compared with the table (partial: validation of the typability model against the compiler).")
LEVEL_NOTE = "Trusted: Coq kernel, translator rs2j+j2v, Spec/Dimensions.v, the reading of the property in `meaningful`; rustc's trait resolution is observed per program, not proved. No axioms."
ASSUMPTIONS = [
    "rustc accepts `a op b` for owned operands iff an impl of the operator trait for (typeof a, typeof b) is in scope, and gives it that impl's Output",
    "no impls for these types exist outside the macro output and src/lib.rs (the One/AmountT impls)",
]
OPS = [("OAdd", "+"), ("OSub", "-"), ("OMul", "*"), ("ODiv", "/"), ("OEq", "=="), ("OLt", "<")]

HEADER = ("From Coq Require Import String.\nFrom QV Require Import Rt.Prelude Rt.Show Macro.Defs Gen.Prefixes Gen.Catalogue Proofs.C06.\n"
          "Definition show_prog (p : binop * ustring * ustring) : string := let '(o, l, r) := p in "
          "(string_of_ustr l ++ \" \" ++ string_of_ustr r ++ \" \" ++ show_opt string_of_ustr (typechecks o l r))%string.\n")


def meaningful_py(op, l, r, decl, qtys):
    """the property text, re-derived in python from the declarations"""
    A = "AmountT"
    if op in ("+", "-"):
        return l if l == r else None
    if op in ("==", "<"):
        return "bool" if l == r else None
    if op == "*":
        if l == A and r == A: return A
        if l == A and r in qtys: return r
        if r == A and l in qtys: return l
        res = []
        for q, (a, o, b) in decl.items():
            if o == "*" and ((l, r) == (a, b) or (l, r) == (b, a)): res.append(q)
            if o == "/" and ((l, r) == (q, b) or (l, r) == (b, q)): res.append(a)
        return res[0] if len(res) == 1 else None
    if op == "/":
        if l == r: return A
        if r == A and l in qtys: return l
        res = []
        for q, (a, o, b) in decl.items():
            if o == "*":
                if (l, r) == (q, a): res.append(b)
                if (l, r) == (q, b) and a != b: res.append(a)
            if o == "/":
                if (l, r) == (a, b): res.append(q)
                if (l, r) == (a, q): res.append(b)
        return res[0] if len(res) == 1 else None


def compile_programs(ctx, tag, paths, progs, features, dep_astro=False):
    """progs: list of (l, opsym, r, out or None); returns list of (accepted, first error text)"""
    d = os.path.join(fw.BUILD, "c06crate-" + tag)
    os.makedirs(os.path.join(d, "src"), exist_ok=True)
    deps = f'quantities = {{ path = "{fw.REPO}", default-features = false, features = [{", ".join(chr(34) + f + chr(34) for f in features)}] }}\n'
    if dep_astro:
        deps += f'astronomical-quantities = {{ path = "{fw.REPO}/astronimical_quantities" }}\n'
    open(os.path.join(d, "Cargo.toml"), "w").write(f'[package]\nname = "c06crate"\nversion = "0.1.0"\nedition = "2021"\n\n[dependencies]\n{deps}\n[workspace]\n')
    shutil.copy(os.path.join(fw.REPO, "Cargo.lock"), os.path.join(d, "Cargo.lock"))
    lines = ["#![allow(unused, clippy::all)]", "use quantities::AmountT;"]
    off = len(lines)
    for i, (l, o, r, out) in enumerate(progs):
        if out is None:
            lines.append(f"pub fn f{i}(a: {paths[l]}, b: {paths[r]}) {{ let _ = a {o} b; }}")
        else:
            lines.append(f"pub fn f{i}(a: {paths[l]}, b: {paths[r]}) -> {paths.get(out, out)} {{ a {o} b }}")
    open(os.path.join(d, "src", "lib.rs"), "w").write("\n".join(lines) + "\n")
    rc, out, dt = fw.sh(["cargo", "check", "--offline", "--quiet", "--message-format=json"], cwd=d, timeout=1800,
                        env={"CARGO_TARGET_DIR": os.path.join(fw.BUILD, "target-c06"), "RUSTFLAGS": "-Awarnings"})
    errs = {}
    for line in out.split("\n"):
        if not line.startswith("{"):
            continue
        try:
            m = json.loads(line)
        except ValueError:
            continue
        msg = m.get("message") if m.get("reason") == "compiler-message" else None
        if not msg or msg.get("level") != "error":
            continue
        for sp in msg.get("spans", []):
            if sp.get("is_primary") and sp.get("file_name", "").endswith("lib.rs"):
                errs.setdefault(sp["line_start"] - off - 1, (msg.get("code") or {}).get("code", "") + " " + msg.get("message", "")[:120])
    ctx.log(f"[c06] {tag}: cargo check rc={rc} {dt:.1f}s, {len(errs)} functions with errors of {len(progs)}")
    if rc != 0 and not errs:
        raise fw.Failure("harness", f"the program crate ({tag}) fails to build for another reason: {out[-400:]}")
    return [(i not in errs, errs.get(i, "")) for i in range(len(progs))]


def run(ctx):
    info = ctx.gen_info
    violations, disagreements, samples = [], [], []
    main = [e for e in info["entries"] if e["crate"] == "quantities"]
    astro = [e for e in info["entries"] if e["crate"] == "astronomical"]
    # model table
    model = {}
    model_failure = None
    try:
        if not ctx.model_ok:
            raise fw.Failure("proof", "model not built")
        fw.coq_make(["Proofs/C06.vo"], ctx.log)
        res = fw.run_coq_cases("C06", HEADER, ['show_sep show_prog " ; " (List.filter (fun p => match p with (%s, _, _) => true | _ => false end) all_programs)' % o for o, _ in OPS], ctx.log)
        for (o, sym), line in zip(OPS, res):
            for item in line.split(" ; "):
                l, r, *rest = item.split()
                model[(sym, l, r)] = None if rest == ["None"] else rest[1]
    except fw.Failure as f:
        model_failure = f      # the search on the implementation goes on; the failure is reported by the proof step
        model = {}
    evaluations = 0
    for crate_entries, tag, feats_list, dep_astro in ((main, "main", [("f64", ["std", "doc"]), ("dec", ["std", "doc", "fpdec"])], False),
                                                      (astro, "astro", [("f64", ["std"])], True)):
        if not crate_entries:
            continue
        qtys = [e["qty"] for e in crate_entries]
        types = ["AmountT"] + qtys
        paths = {"AmountT": "AmountT", "bool": "bool"}
        for e in crate_entries:
            paths[e["qty"]] = gen_harness.rust_path(e)
        decl = {e["qty"]: tuple(e["derived"]) for e in crate_entries if len(e["derived"]) == 3}
        progs = []
        for _, sym in OPS:
            for l in types:
                for r in types:
                    progs.append((l, sym, r, meaningful_py(sym, l, r, decl, qtys)))
        for be, feats in feats_list:
            verdicts = compile_programs(ctx, f"{tag}-{be}", paths, progs, feats, dep_astro)
            evaluations += len(progs)
            for (l, sym, r, want), (acc, err) in zip(progs, verdicts):
                prog = f"[{tag}/{be}] fn f(a: {l}, b: {r}) " + (f"-> {want} {{ a {sym} b }}" if want else f"{{ let _ = a {sym} b; }}")
                if want is None and acc:
                    violations.append({"what": "a dimensionally meaningless combination type-checks", "input": prog, "observed": "rustc accepts", "backend": be})
                elif want is not None and not acc:
                    violations.append({"what": "a meaningful combination is rejected or does not have the declared result type", "input": prog,
                                       "observed": "rustc: " + err, "backend": be})
                if tag == "main" and model:
                    m = model.get((sym, l, r), "?")
                    if (m is not None) != acc or (m is not None and m != want):
                        disagreements.append({"op": prog, "model": str(m), "implementation": ("accepted" if acc else "rejected: " + err), "backend": be})
            if len(samples) < 6:
                samples.append({"crate": tag, "backend": be, "programs": len(progs), "accepted": sum(1 for a, _ in verdicts if a),
                                "example": f"{progs[len(progs)//3][0]} {progs[len(progs)//3][1]} {progs[len(progs)//3][2]} -> {progs[len(progs)//3][3]}"})
    return {"evaluations": evaluations, "distinct_nontrivial": evaluations,
            "rule": "every ordered pair of value types x {+,-,*,/,==,<}: main crate 15x15x6 = 1350 programs in both amount types, astronomical crate 5x5x6 = 150 (f64); each program is one function "
                    "whose body is the operator application (result type ascribed when the specification accepts it); one cargo check --message-format=json per crate gives rustc's verdict and error location per function; "
                    "judged against the python re-derivation of the property from the declared derivations and compared with the Coq table; every program is distinct and non-trivial (accept or reject is the question)",
            "samples": samples, "disagreements": disagreements, "violations": violations,
            "distribution": {"programs_compiled": evaluations}, "exhaustive": True, "extra": {}}
