"""C18 — operations are total on in-range inputs."""
from fractions import Fraction
import framework as fw
import kcommon as kc
import derived_common as dc
import gen_harness

PID = "C18"
MODEL_TARGETS = ["Proofs/Eval.vo", "Amount/F64.vo", "Amount/Dec.vo", "Gen/Catalogue.vo"]
PROOF_TARGETS = ["Props/C18.vo", "Pinned/C18.vo", "Props/AccuracyDec.vo", "Pinned/AccuracyDec.vo", "Props/EnvelopeDec.vo", "Pinned/EnvelopeDec.vo"]
PROPS = ["Props/C18.v", "Props/AccuracyDec.v", "Props/EnvelopeDec.v"]
COQCHK = ["QV.Props.C18", "QV.Props.AccuracyDec", "QV.Props.EnvelopeDec"]
TRUSTED_BASE = [
    "Coq 8.16.1 kernel (coqc); coqchk in the thorough tier",
    "translator rs2j+j2v: every kernel, template, rate and converter function is translated into the result monad; the only Panic constructors the translation emits are panic! (unit guard), Option::unwrap on None, and what the amount operations return",
    "Macro/Inst.v (hand): instances; binary64 operations never panic (Amount/F64.v wraps Flocq's total functions in Ok)",
    "fpdec's panics are those of Amount/DecModel.v (debug build: overflow checks on), validated by tools/dectest and the correspondence",
]
LEVEL = ("Coq theorems (Props/C18.v): for every amount type whose + - * / are total - binary64 is (theorem) - conversion, equivalent amount, ==, partial_cmp, + - /, _fit (the unwrap is discharged: the reference unit is always "
         "eligible, and iterated for every type of the tree - computed), derived products/quotients, rate operations, table conversions and scaling by numbers return a value for ALL amounts (zero, subnormal, infinite, NaN) on every "
         "instance with reference unit; the only other panic is the documented unit guard (theorem shared with C10). Decimal configuration: theorems over the model of fpdec::Decimal (Props/AccuracyDec.v) - + and - return a value when both operands are below 1e19 in absolute value, * when the exact product is, "
         "/ when the divisor is non-zero and the exact quotient is (DEC_totality); and the property's own envelope for the kernels of a quantity with reference unit (Props/EnvelopeDec.v): with the ratio of the two unit scales, the operands, the right operand expressed in the left operand's unit "
         "and the quotient between 1e-15 and 1e17, conversion, + - /, == / partial_cmp across units, derived products and quotients on both paths (natural unit and _fit, with the result expressible in every unit of the result quantity) and the rate operations return a value "
         "(DEC_C18_envelope_convert / add_sub / div / cmp / derived / rate_mul / qty_div_rate; a converted divisor keeps at least 99.9 % of its magnitude, so it stays non-zero). For the predefined quantities of the main crate the premises about the scales are discharged by computation (every decimal scale fits and is non-zero; every ratio of two unit scales of a quantity lies in the envelope, except for Volume whose mm^3 : km^3 = 1e-18 is outside it - the property makes no claim there), so conversion and + - / hold with premises on the amounts only (DEC_C18_catalogue_*). Formatting and the composition of whole operation sequences inside the envelope are judged on the implementation by the exact-rational envelope test (testing): partial for the decimal configuration.")
LEVEL_NOTE = "Trusted: Coq kernel, translator rs2j+j2v (completeness of the panic sources it models), Amount/F64.v; decimal half: the fpdec model (Amount/DecModel.v) + differential testing; the decimal theorems use the stdlib real-number axioms (values are stated over R)."
ASSUMPTIONS = [
    "Rust code translated without a Panic constructor cannot panic (no indexing, no integer arithmetic, no unwrap other than the modelled one in the translated regions)",
    "formatting never panics (core::fmt returns Err only from the underlying writer); exercised by the C15 check",
]

LO, HI = Fraction(1, 10 ** 15), Fraction(10 ** 17)


class _Z(Exception):
    pass


def env_ok(vals):
    return all(v is not None and (v == 0 or LO <= abs(v) <= HI) for v in vals)


def run(ctx):
    kr = kc.KRun(ctx, PID)
    quick = ctx.tier == "quick"
    rng = ctx.rng
    profiles = ["dev"] if quick else ["dev", "release"]
    for be in kc.BACKENDS:
        types = kc.all_types(ctx.gen_info, be, paths=("PRef",))
        scales = kc.scales_of(ctx, be, types)
        rows, names = dc.rows_for(ctx.gen_info, be)
        if be == "f64":
            pool = kc.F64_SPECIAL + kc.structured_pool(be)[:6] + [kc.random_amount(be, rng, moderate=False) for _ in range(10)]
        else:
            pool = [kc.dec_tok(c, n) for c, n in [(1, 0), (25, 1), (-3, 0), (1, 6), (123456, 3), (-999999, 0), (1, 15), (10 ** 17, 0), (10 ** 9, 0), (5, 9), (0, 0), (7, 3),
                                                  (123456789012123456789, 9), (750000000000075, 2), (25, 9), (99999999999999999, 0), (31415926535897932, 4), (-271828182845904523, 12)]]
            # many-digit values of every magnitude inside the envelope
            for _ in range(40):
                k = rng.randint(-12, 15)
                nfd = rng.randint(max(0, -k), min(18, max(0, -k) + rng.randint(0, 12)))
                c = rng.randint(10 ** max(0, k + nfd - 1), 10 ** max(1, k + nfd)) if k + nfd >= 0 else rng.randint(1, 9)
                pool.append(kc.dec_tok(c if rng.random() < 0.8 else -c, nfd))
        ops, meta = [], []
        if ctx.replay:
            for b, line in kc.replay_ops(ctx):
                if b == be:
                    ops.append(line); meta.append(("replay", None, ()))
        else:
            for t in types:
                sc = scales[t.name][0] if t.name != "AMOUNT" else [Fraction(1)]
                smin = min(sc)
                for _ in range((6 if quick else 60) * max(1, t.n // 3)):
                    u, v = rng.randrange(t.n), rng.randrange(t.n)
                    a, b = rng.choice(pool), rng.choice(pool)
                    va, vb = kc.value(be, a), kc.value(be, b)
                    if be == "f64":
                        va = vb = None          # no envelope in the binary configuration: nothing may panic
                    Ma = None if va is None else va * sc[u]
                    Mb = None if vb is None else vb * sc[v]
                    env1 = [va, Ma, None if Ma is None else Ma / sc[v], None if Ma is None else Ma / smin, sc[u] / sc[v]]
                    for o in ("convert", "equiv"):
                        ops.append(f"{o} {t.name} {a} {u} {v}"); meta.append((o, t, env1))
                    ops.append(f"fit {t.name} {a}"); meta.append(("fit", t, [va, None if va is None else va / smin]))
                    bu = None if Mb is None else Mb / sc[u]
                    env2 = [va, vb, Ma, Mb, bu, sc[v] / sc[u], None if Ma is None else Ma / smin, None if Mb is None else Mb / smin]
                    for o, res in (("add", None if None in (va, bu) else va + bu), ("sub", None if None in (va, bu) else va - bu)):
                        ops.append(f"{o} {t.name} {a} {u} {b} {v}")
                        meta.append((o, t, env2 + [res, None if res is None else res * sc[u] / smin, None if res is None else res * sc[u]]))
                    if be == "f64" or vb != 0:
                        ops.append(f"div {t.name} {a} {u} {b} {v}")
                        meta.append(("div", t, env2 + [None if None in (va, bu) or bu == 0 else va / bu]))
                    for o in ("eq", "cmp", "lt"):
                        ops.append(f"{o} {t.name} {a} {u} {b} {v}"); meta.append((o, t, [va, vb, Ma, Mb]))
                    k = rng.choice(pool)
                    vk = kc.value(be, k) if be == "dec" else None
                    ops.append(f"smul_l {t.name} {k} {a} {u}"); meta.append(("smul", t, [va, vk, None if None in (va, vk) else va * vk, None if None in (va, vk) else va * vk * sc[u]]))
                    if be == "f64" or vk != 0:
                        ops.append(f"sdiv {t.name} {k} {a} {u}"); meta.append(("sdiv", t, [va, vk, None if None in (va, vk) or vk == 0 else va / vk]))
            for r in rows:
                s, rh, o = r["self"][0], r["rhs"][0], r["out"][0]
                ns, nr = dc.n_units(names, s), dc.n_units(names, rh)
                # the extreme unit pairs of every derivation (smallest x smallest, ... : the combined scale is at the edge
                # of what the result quantity's units span) with moderate amounts, then random pairs and amounts
                def extreme(q, n):
                    sc_q = [dc.scale_val(be, scales, q, i) for i in range(n)]
                    return [min(range(n), key=lambda i: sc_q[i]), max(range(n), key=lambda i: sc_q[i])]
                fixed = [(u, v, a, b) for u in extreme(s, ns) for v in extreme(rh, nr)
                         for a, b in ((pool[0], pool[1]) if be == "dec" else (rng.choice(pool), rng.choice(pool)),)]
                todo = fixed + [(rng.randrange(ns), rng.randrange(nr), rng.choice(pool), rng.choice(pool)) for _ in range(4 if quick else 40)]
                for u, v, a, b in todo:
                    va, vb = (kc.value(be, a), kc.value(be, b)) if be == "dec" else (None, None)
                    if be == "dec" and r["trait"] == "Div" and vb == 0:
                        continue
                    su, sv = dc.scale_val(be, scales, s, u), dc.scale_val(be, scales, rh, v)
                    so_min = min(scales[o][0]) if o != "AMOUNT" else Fraction(1)
                    if None in (va, vb):
                        env = [None]
                    else:
                        Ma, Mb = va * su, vb * sv
                        S = su * sv if r["trait"] == "Mul" else su / sv
                        ab = va * vb if r["trait"] == "Mul" else va / vb
                        M = Ma * Mb if r["trait"] == "Mul" else Ma / Mb
                        env = [va, vb, Ma, Mb, S, ab, M, M / so_min, Ma / (min(scales[s][0]) if s != "AMOUNT" else 1), Mb / (min(scales[rh][0]) if rh != "AMOUNT" else 1)]
                    ops.append(f"dop {r['trait']} {s} {rh} vv {a} {u} {b} {v}"); meta.append(("dop", None, env))
            tnames = {t.name: t for t in types}
            for tq, pq in gen_harness.RATE_PAIRS:
                if tq not in tnames or pq not in tnames:
                    continue
                T, P = tnames[tq], tnames[pq]
                big = [x for x in pool if be == "dec" and kc.value(be, x) is not None and abs(kc.value(be, x)) >= 10 ** 8 and int(x.split("/")[1]) >= 6] or pool
                for i in range(16 if quick else 60):
                    t_, p_, a = rng.choice(pool), rng.choice(pool), rng.choice(pool)
                    if i % 2 == 0:
                        t_, a = rng.choice(big), rng.choice(big)
                        p_ = rng.choice([x for x in pool if kc.value(be, x) not in (None, 0)][:6])
                    tu, pu, qu = rng.randrange(T.n), rng.randrange(P.n), rng.randrange(P.n)
                    vt, vp, va = (kc.value(be, t_), kc.value(be, p_), kc.value(be, a)) if be == "dec" else (None, None, None)
                    if be == "dec" and vp == 0:
                        continue
                    sp = scales[pq][0] if pq != "AMOUNT" else [Fraction(1)]
                    if None in (vt, vp, va):
                        env = [None]
                    else:
                        x1 = va * sp[qu] / sp[pu]
                        env = [vt, vp, va, sp[pu] / sp[qu], x1, x1 / vp, x1 / vp * vt, va * sp[qu], va * sp[qu] / min(sp)]
                    ops.append(f"rate rate_mul {tq} {pq} {t_} {tu} {p_} {pu} {a} {qu}"); meta.append(("rate_mul", None, env))
        for profile in profiles:
            if profile == "dev":
                impl = kr.run(be, ops)
            else:
                impl = fw.run_harness(ctx.harness(kc.kops.BACKENDS[be].cfg, "release"), ops, ctx.log)
                kr.evaluations += len(ops)
            for op, (o, t, env), r in zip(ops, meta, impl):
                if o == "replay":
                    if r == "PANIC":
                        kr.violation(be, "operation panics", op, r)
                    continue
                kr.nontrivial.add((be, o, op))
                inside = be == "f64" or env_ok(env)
                kr.count(f"{be}:{profile}:{o}:{'in-envelope' if inside else 'outside'}:{'panic' if r == 'PANIC' else 'value'}")
                if r == "PANIC" and inside:
                    kr.violation(be, ("binary floating point: an operation on a quantity with reference unit panicked" if be == "f64" else
                                      "decimal: an operation panicked although every naturally arising magnitude lies within [1e-15, 1e17] and divisors are non-zero"),
                                 op, r, profile=profile)
    return kr.result("conversion, equivalent amount, _fit, + - /, comparisons, scaling, every derived operator instance and rate multiplication on every type with reference unit x random unit pairs x "
                     "amounts of every IEEE class (f64: +-0, subnormals, +-inf, NaN, extremes, random bit patterns) resp. decimals from 1e-15 to 1e17 and zero: f64 must never panic; decimal must not panic when "
                     "the exact-rational envelope test (operands and result in reference and smallest units, scale product/ratio, divisor in the dividend's unit within [1e-15,1e17]) holds; "
                     "thorough also runs the release profile; non-trivial = distinct operations")
