"""Shared pieces of the kernel-property checks: the types of the current
catalogue, amount pools per back-end, exact (rational) values of amounts, and
the run-both-and-compare driver."""
import struct
from fractions import Fraction
import framework as fw
import kops

BACKENDS = ("f64", "dec")


# ---------------------------------------------------------------------------
# types

class T:
    def __init__(self, name, path, n, crate, entry=None):
        self.name, self.path, self.n, self.crate, self.entry = name, path, n, crate, entry

    def __repr__(self):
        return self.name


def all_types(info, backend, paths=("PRef", "PNoRef", "PSingle"), with_amount=True):
    ts = []
    if with_amount and "PRef" in paths:
        ts.append(T("AMOUNT", "PRef", 1, "core"))
    for e in info["entries"]:
        if e["path"] not in paths:
            continue
        if backend == "dec" and e["crate"] == "astronomical":
            continue  # its literals have > 18 fractional digits: f64 only
        ts.append(T(e["name"], e["path"], len(e["VARIANTS"]), e["crate"], e))
    return ts


# ---------------------------------------------------------------------------
# amounts

def f64_bits(x):
    return "%016x" % struct.unpack("<Q", struct.pack("<d", x))[0]


def f64_of_bits(tok):
    return struct.unpack("<d", struct.pack("<Q", int(tok, 16)))[0]


F64_SPECIAL = ["0000000000000000", "8000000000000000",            # +-0
               "7ff0000000000000", "fff0000000000000",            # +-inf
               "7ff8000000000000",                                # NaN
               "0000000000000001", "800fffffffffffff",            # subnormals
               "0010000000000000", "7fefffffffffffff", "ffefffffffffffff"]  # min normal, +-max


def f64_value(tok):
    """exact rational value; None for NaN / infinities"""
    if tok == "NaN":
        return None
    b = int(tok, 16)
    s, e, m = b >> 63, (b >> 52) & 0x7FF, b & ((1 << 52) - 1)
    if e == 0x7FF:
        return None
    if e == 0:
        v = Fraction(m, 1 << 1074)
    else:
        v = Fraction((1 << 52) | m, 1) * Fraction(2) ** (e - 1075)
    return -v if s else v


def f64_is_nan(tok):
    if tok == "NaN":
        return True
    b = int(tok, 16)
    return (b >> 52) & 0x7FF == 0x7FF and (b & ((1 << 52) - 1)) != 0


def f64_is_inf(tok):
    if tok == "NaN":
        return False
    b = int(tok, 16)
    return (b >> 52) & 0x7FF == 0x7FF and (b & ((1 << 52) - 1)) == 0


def f64_round(fr):
    """correctly rounded (nearest even) double of a Fraction, as hex token;
    pure integer arithmetic (no Python float involved)"""
    if fr == 0:
        return "0000000000000000"
    s = 1 if fr < 0 else 0
    a = abs(fr)
    n, d = a.numerator, a.denominator
    e = n.bit_length() - d.bit_length()       # 2^(e-1) <= a < 2^(e+1)
    if Fraction(n, d) < Fraction(2) ** e:
        e -= 1                                # 2^e <= a < 2^(e+1)
    ex = max(e - 52, -1074)                   # exponent of the unit in the last place
    q = a / Fraction(2) ** ex
    m = q.numerator // q.denominator
    r = q - m
    if r > Fraction(1, 2) or (r == Fraction(1, 2) and m % 2 == 1):
        m += 1
    if m == 1 << 53:
        m >>= 1
        ex += 1
    if ex + 52 > 1023:
        return ("fff" if s else "7ff") + "0" * 13
    if m < (1 << 52):
        bits = m                              # subnormal (ex == -1074)
    else:
        bits = ((ex + 1075) << 52) | (m - (1 << 52))
    return "%016x" % ((s << 63) | bits)


def f64_next(tok, k=1):
    """the k-th neighbouring double (in magnitude order of the bit pattern)"""
    b = int(tok, 16)
    s = b >> 63
    mag = b & ((1 << 63) - 1)
    mag = max(0, min(mag + k, 0x7FEFFFFFFFFFFFFF))
    return "%016x" % ((s << 63) | mag)


def dec_tok(c, n):
    return f"{c}/{n}"


def dec_value(tok):
    if tok in ("PANIC", "NaN"):
        return None
    c, n = tok.split("/")
    return Fraction(int(c), 10 ** int(n))


def dec_of_fraction(fr, nfd=None):
    """a decimal token denoting fr exactly, or None if it needs more than 18 digits"""
    for n in range(0, 19):
        v = fr * 10 ** n
        if v.denominator == 1:
            if nfd is not None and nfd >= n:
                return dec_tok(v.numerator * 10 ** (nfd - n), nfd)
            return dec_tok(v.numerator, n)
    return None


def value(backend, tok):
    return f64_value(tok) if backend == "f64" else dec_value(tok)


F64_STRUCT = [1.0, -1.0, 2.0, 0.5, 3.0, 0.1, -0.1, 1.5, 17.4, 100.0, 1e-3, 1234.5678, -42.0, 1e6, 7.0, 1e-9, 12.0, 60.0, 3600.0,
              0.3, 2.54, 1e15, 9007199254740993.0, 1e-15, 123456789.0]
DEC_STRUCT = [(1, 0), (-1, 0), (2, 0), (5, 1), (3, 0), (1, 1), (-1, 1), (15, 1), (174, 1), (100, 0), (1, 3), (12345678, 4), (-42, 0),
              (1000000, 0), (7, 0), (1, 9), (12, 0), (60, 0), (3600, 0), (3, 1), (254, 2), (10, 1), (100, 2), (1, 18), (-1, 18),
              (123456789, 0), (1000000000000000, 0), (333333333333333333, 18)]


def structured_pool(backend):
    if backend == "f64":
        return [f64_bits(x) for x in F64_STRUCT]
    return [dec_tok(c, n) for c, n in DEC_STRUCT]


def special_pool(backend):
    if backend == "f64":
        return list(F64_SPECIAL)
    return [dec_tok(0, 0), dec_tok(0, 5), dec_tok(10 ** 17, 0), dec_tok(-10 ** 17, 0), dec_tok(10 ** 35, 18), dec_tok(1, 15)]


def random_amount(backend, rng, moderate=True):
    if backend == "f64":
        if moderate:
            m = rng.getrandbits(52)
            e = 1023 + rng.randint(-40, 40)
            s = rng.getrandbits(1)
            return "%016x" % ((s << 63) | (e << 52) | m)
        b = rng.getrandbits(64)
        if (b >> 52) & 0x7FF == 0x7FF and (b & ((1 << 52) - 1)):
            b = 0x7FF8000000000000
        return "%016x" % b
    n = rng.randint(0, 18) if not moderate else rng.randint(0, 9)
    digits = rng.randint(1, 12) if moderate else rng.randint(1, 34)
    c = rng.randint(1, 10 ** digits)
    if rng.getrandbits(1):
        c = -c
    return dec_tok(c, n)


def pool(backend, rng, n_random=0, specials=True, moderate=True):
    p = structured_pool(backend)
    if specials:
        p = p + special_pool(backend)
    p = p + [random_amount(backend, rng, moderate) for _ in range(n_random)]
    return p


def amount_class(backend, tok):
    if backend == "f64":
        if f64_is_nan(tok):
            return "nan"
        if f64_is_inf(tok):
            return "inf"
        v = f64_value(tok)
        if v == 0:
            return "zero"
        if abs(v) < Fraction(1, 2 ** 1022):
            return "subnormal"
        return "neg" if v < 0 else "pos"
    v = dec_value(tok)
    return "zero" if v == 0 else ("neg" if v < 0 else "pos")


# ---------------------------------------------------------------------------
# scales of the implementation (exact), per type

def scales_of(ctx, backend, types):
    """{type name: ([Fraction per unit index], ref index)} from the implementation's scale()"""
    ts = [t for t in types if t.path == "PRef"]
    ops = [f"scales {t.name}" for t in ts]
    impl = fw.run_harness(ctx.harness(kops.BACKENDS[backend].cfg), ops, ctx.log)
    res = {}
    for t, line in zip(ts, impl):
        p = line.split()
        ref = int(p[-2].split("=")[1])
        toks = p[:-2]
        res[t.name] = ([value(backend, x) for x in toks], ref, toks)
    return res


# ---------------------------------------------------------------------------
# running both sides

class KRun:
    """collects operations with their meta data over both back-ends; runs
    implementation and model; gathers disagreements and oracle violations"""

    def __init__(self, ctx, pid):
        self.ctx, self.pid = ctx, pid
        self.evaluations = 0
        self.nontrivial = set()
        self.disagreements, self.violations, self.samples = [], [], []
        self.distribution = {}
        self.extra = {}

    def count(self, key, n=1):
        self.distribution[key] = self.distribution.get(key, 0) + n

    def run(self, backend, ops, tag=None, cfg=None):
        """returns the implementation's result lines; compares with the model"""
        if not ops:
            return []
        tag = tag or f"{self.pid}-{backend}"
        impl, model = kops.run_both(self.ctx, backend, ops, tag, cfg)
        self.evaluations += len(ops)
        if model is not None:
            for op, a, b in zip(ops, impl, model):
                if a != b:
                    self.disagreements.append({"backend": backend, "op": op, "implementation": a, "model": b})
        for i in (0, len(ops) // 2, len(ops) - 1):
            if len(self.samples) < 8:
                self.samples.append({"backend": backend, "op": ops[i], "result": impl[i][:200]})
        return impl

    def violation(self, backend, what, op, observed, required=None, **kw):
        v = {"backend": backend, "what": what, "input": op, "observed": observed}
        if required is not None:
            v["required"] = required
        v.update(kw)
        self.violations.append(v)

    def result(self, rule, exhaustive=False, extra=None):
        return {"evaluations": self.evaluations, "distinct_nontrivial": len(self.nontrivial), "rule": rule,
                "samples": self.samples, "disagreements": self.disagreements, "violations": self.violations,
                "distribution": self.distribution, "exhaustive": exhaustive, "extra": {**self.extra, **(extra or {})}}


def replay_ops(ctx):
    """operation lines of a replay file (the violation's input, plus `more`)"""
    r = ctx.replay
    if not r:
        return None
    out = []
    for v in [r.get("violation")] + list(r.get("more", [])):
        if v and v.get("input"):
            out.append((v.get("backend", "f64"), v["input"]))
    return out


def ff(x):
    """a Fraction as short decimal text for messages (never raises)"""
    try:
        return repr(float(x))
    except (OverflowError, ValueError):
        n, d = x.numerator, x.denominator
        return f"~{'-' if n < 0 else ''}2^{abs(n).bit_length() - d.bit_length()}"
