"""C04 — derived products and quotients preserve the physical value."""
from fractions import Fraction
import framework as fw
import kcommon as kc
import derived_common as dc
from c01 import U, EPS, in_normal

PID = "C04"
MODEL_TARGETS = ["Proofs/Eval.vo", "Amount/F64.vo", "Amount/Dec.vo", "Gen/Catalogue.vo"]
PROOF_TARGETS = ["Props/C04.vo", "Pinned/C04.vo", "Props/Accuracy.vo", "Pinned/Accuracy.vo", "Props/AccuracyDec.vo", "Pinned/AccuracyDec.vo"]
PROPS = ["Props/C04.v", "Props/Accuracy.v", "Props/AccuracyDec.v"]
COQCHK = ["QV.Props.C04", "QV.Props.Accuracy", "QV.Props.AccuracyDec"]
TRUSTED_BASE = [
    "Coq 8.16.1 kernel (coqc; vm_compute for the impl-table facts); coqchk in the thorough tier",
    "translator rs2j+j2v: the Mul/Div templates (mixed, squared, number/quantity) and the three borrowed-operand forwarders translated from the repository's own codegen() output; the impl table (trait, Self, Rhs, Output, template) regenerated from the actual expansion of every definition",
    "Macro/Impls.v (hand): model of codegen_impl_mul_div_qties, tied to the generator by the computed theorem C04_operator_instances",
]
LEVEL = ("Coq theorems (Props/C04.v): every generated product/quotient operator is the normal form derived_nf (combined scale, natural unit or _fit of the reference-unit magnitude) - generic in amount type and instances; "
         "each of the twelve borrowed-operand forwarders returns exactly the owned form's result; for every definition of the tree the generated impl table holds exactly the operator rows of the model "
         "(A*B, B*A, R/A, R/B resp. A/B, R*B, B*R, A/R, owned + 3 borrowed forms each, declared result type), all related types have a reference unit; main crate: 9 derivations, 34 owned instances. "
         "Magnitudes (exact rational product/quotient of the operands' reference-unit magnitudes, multiply-then-divide round trip) are judged on the implementation (testing, supporting). In the binary floating-point configuration the magnitude of every derived product/quotient is a theorem: two rounding factors on the natural-unit path, four through _fit (ACC_C04_natural_unit, ACC_C04_fit_path in Props/Accuracy.v), and multiplying by a value and then dividing by it returns the original magnitude up to four rounding factors on the natural-unit path (ACC_C04_mul_then_div; decimal: within an explicit bound, DEC_C04_mul_then_div); in the decimal configuration the result is within 5e-19 (|sc| + |a op b|) of the exact magnitude on the natural-unit path - exactly it when amounts and scales combine within 18 fractional digits - and within 5e-19 (|sc| + |a op b| + 1 + |s_w|) through _fit, whenever the operation returns (DEC_C04_natural_unit, DEC_C04_fit_path in Props/AccuracyDec.v).")
LEVEL_NOTE = "Trusted: Coq kernel, translator rs2j+j2v, Macro/Impls.v (cross-checked), hand models of binary64/fpdec in the correspondence; stdlib real-number axioms via Flocq in the computed facts."
ASSUMPTIONS = [
    "rustc resolves `x * y`, `&x * y`, `x * &y`, `&x * &y` to the impls of the table (validated: every form is executed through the operators by the harness)",
    "f64 = IEEE binary64 (Flocq), Decimal = Amount/DecModel.v in the correspondence",
]


def run(ctx):
    kr = kc.KRun(ctx, PID)
    quick = ctx.tier == "quick"
    rng = ctx.rng
    for be in kc.BACKENDS:
        rows, names = dc.rows_for(ctx.gen_info, be, modes=("vv", "rv", "vr", "rr"))
        owned = {(r["trait"], r["self"][0], r["rhs"][0]): r for r in rows if r["mode"] == "vv"}
        forms = {}
        for r in rows:
            forms.setdefault((r["trait"], r["self"][0], r["rhs"][0]), set()).add(r["mode"])
        types = kc.all_types(ctx.gen_info, be, paths=("PRef",))
        scales = kc.scales_of(ctx, be, types)
        pool = kc.structured_pool(be)
        ops, meta = [], []
        if ctx.replay:
            for b, line in kc.replay_ops(ctx):
                if b == be:
                    ops.append(line); meta.append(("replay",))
        for key, r in ([] if ctx.replay else sorted(owned.items())):
            tr, s, rh = key
            o = r["out"][0]
            if forms[key] != {"vv", "rv", "vr", "rr"}:
                kr.violation(be, "a derived operator lacks one of its borrowed-operand forms", f"{tr} {s} {rh}", sorted(forms[key]))
            ns, nr = dc.n_units(names, s), dc.n_units(names, rh)
            pairs = [(u, v) for u in range(ns) for v in range(nr)]
            if quick and len(pairs) > 8:
                pairs = rng.sample(pairs, 8)
            for (u, v) in pairs:
                for _ in range(1 if quick else 6):
                    a = rng.choice(pool) if rng.random() < 0.7 else kc.random_amount(be, rng)
                    b = rng.choice(pool) if rng.random() < 0.7 else kc.random_amount(be, rng)
                    for mode in ("vv", "rv", "vr", "rr"):
                        ops.append(f"dop {tr} {s} {rh} {mode} {a} {u} {b} {v}"); meta.append((tr, s, rh, o, mode, a, u, b, v))
                    kr.count(f"{be}:{tr}:{'AMOUNT' if 'AMOUNT' in (s, rh, o) else 'qty'}")
        impl = kr.run(be, ops)
        # round trip (x*y)/y and (x/y)*y through the inverse operator instance, when it exists
        ops2, meta2 = [], []
        for i, (op, m, r) in enumerate(zip(ops, meta, impl)):
            if m[0] == "replay":
                continue
            tr, s, rh, o, mode, a, u, b, v = m
            if mode != "vv":
                if r != impl[i - {"rv": 1, "vr": 2, "rr": 3}[mode]]:
                    kr.violation(be, f"borrowed-operand form {mode} differs from the owned form", op, r, impl[i - {'rv': 1, 'vr': 2, 'rr': 3}[mode]])
                continue
            kr.nontrivial.add((be, tr, s, rh, u, v))
            if r == "PANIC":
                continue
            amt, w = r.split()
            w = int(w)
            va, vb, vr = kc.value(be, a), kc.value(be, b), kc.value(be, amt)
            if None in (va, vb, vr):
                continue
            su, sv, sw = dc.scale_val(be, scales, s, u), dc.scale_val(be, scales, rh, v), dc.scale_val(be, scales, o, w)
            if tr == "Div" and vb == 0:
                continue
            exact = (va * su) * (vb * sv) if tr == "Mul" else (va * su) / (vb * sv)
            ab = va * vb if tr == "Mul" else va / vb
            S = su * sv if tr == "Mul" else su / sv
            got = vr * sw
            if be == "f64":
                if not all(in_normal(x) for x in (S, ab, ab * S, ab * S / sw, va, vb)):
                    continue
                bound = (((1 + U) / (1 - U)) ** 5 - 1) * abs(exact)
            else:
                bound = EPS * (abs(S) + EPS + abs(ab) + 1 + sw) + EPS * EPS
            if abs(got - exact) > bound:
                kr.violation(be, f"magnitude of the derived {'product' if tr == 'Mul' else 'quotient'} is not the exact {'product' if tr == 'Mul' else 'quotient'} "
                             "of the operands' reference-unit magnitudes within rounding", op, r, f"{kc.ff(exact)} +- {kc.ff(bound)}")
                continue
            inv = ("Div", o, rh) if tr == "Mul" else ("Mul", o, rh)
            if inv in owned and owned[inv]["out"][0] == s and (not quick or rng.random() < 0.5) and vb != 0:
                ops2.append(f"dop {inv[0]} {o} {rh} vv {amt} {w} {b} {v}")
                meta2.append((op, va * su, bound / abs(vb * sv) if tr == "Mul" else bound * abs(vb * sv), s, sw, inv[0], vr, vb, sv))
        impl2 = kr.run(be, ops2, tag=f"{PID}-{be}-rt") if ops2 else []
        for op2, (op1, Mx, b1, s, sw, tr2, vr1, vb, sv), r in zip(ops2, meta2, impl2):
            if r == "PANIC":
                continue
            amt, w = r.split()
            vz = kc.value(be, amt)
            if vz is None:
                continue
            sz = dc.scale_val(be, scales, s, int(w))
            got = vz * sz
            if be == "f64":
                bound = (((1 + U) / (1 - U)) ** 10 - 1) * abs(Mx)
            else:
                S2 = sw * sv if tr2 == "Mul" else sw / sv
                ab2 = vr1 * vb if tr2 == "Mul" else vr1 / vb
                bound = b1 + EPS * (abs(S2) + EPS + abs(ab2) + 1 + sz) + EPS * EPS
            kr.nontrivial.add((be, "roundtrip", op2))
            if abs(got - Mx) > bound:
                kr.violation(be, "multiplying by a value and then dividing by it (or the reverse) does not return the original magnitude within rounding",
                             f"{op1} ; {op2}", r, f"{kc.ff(Mx)} +- {kc.ff(bound)}")
    return kr.result("every derived operator instance incl. its three borrowed-operand forms (catalogue, astronomical [f64], synthetic) x operand unit pairs (quick: 8 random, thorough: all) x amounts: "
                     "borrowed forms = owned form exactly; result magnitude (amount x scale of the result unit) against the exact rational product/quotient of the operands' reference-unit magnitudes "
                     "within the composed rounding bound; multiply-then-divide / divide-then-multiply round trips against the original magnitude; non-trivial = distinct (back-end, operator, unit pair)")
