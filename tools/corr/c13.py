"""C13 — rates relate two quantities consistently."""
from fractions import Fraction
import framework as fw
import kcommon as kc
import gen_harness
from c01 import U, EPS, in_normal

PID = "C13"
MODEL_TARGETS = ["Proofs/Eval.vo", "Amount/F64.vo", "Amount/Dec.vo", "Gen/Catalogue.vo"]
PROOF_TARGETS = ["Props/C13.vo", "Pinned/C13.vo", "Props/AccuracyRate.vo", "Pinned/AccuracyRate.vo"]
PROPS = ["Props/C13.v", "Props/AccuracyRate.v"]
COQCHK = ["QV.Props.C13", "QV.Props.AccuracyRate"]
TRUSTED_BASE = [
    "Coq 8.16.1 kernel (coqc); coqchk in the thorough tier",
    "translator rs2j+j2v: src/rate.rs (new, from_qty_vals, accessors, reciprocal, Mul<PQ> for Rate) and the generated Mul<Rate<TQ,Self>> / Div<Rate<Self,PQ>> templates are translated from the current source (Gen/Kernels.v); Unit::as_qty from src/lib.rs",
    "Macro/Inst.v (hand): the per/term quantity's own Div<Self> per code path, wired as in the impl table",
    "amount types abstract in the structural theorems (no axiom)",
]
LEVEL = ("Coq theorems (Props/C13.v), generic in the amount type and in both quantity instances: constructors report exactly their four components, reciprocal swaps them and is an involution "
         "(Leibniz), rate*value and value*rate are the SAME term term*((value/(1 per-unit))/per-multiple) in the term unit, value/rate is per-multiple*((value/(1 term-unit))/term-amount) in the per unit, "
         "and value/reciprocal(rate) is literally rate*value. Re-translated from src/rate.rs and the macro templates on every run. "
         "The rounding half (Props/AccuracyRate.v): after the dimensionless ratio value/(1 unit) of C03 (exactly the amount when the value already has that unit: ACC_C13_ratio_same_unit, DEC_C13_ratio_same_unit) the result is term*(ratio/per) with two further roundings - binary64: factors (1+d1)(1+d2), |d| <= 2^-53, in the normal range (from Flocq); decimal: within 5e-19(|term|+1) whenever the operation returns - same for value/rate. The inverse-pair clause is a theorem for binary64 with the value given in the per unit: (rate*v)/rate = v up to four rounding factors (ACC_C13_mul_then_div), and in the decimal configuration within 5e-19 ((|p|+1) + |p|/|t| (|t|+1)) (DEC_C13_mul_then_div); other unit combinations are judged numerically on the implementation (exact-rational formula; testing, supporting).")
LEVEL_NOTE = "Trusted: Coq kernel, translator rs2j+j2v, Macro/Inst.v wiring, hand models of binary64 (Flocq) / fpdec; no axioms in the structural theorems, the accuracy theorems rest on Flocq and the stdlib real-number axioms."
ASSUMPTIONS = [
    "Rust evaluates the rate expressions left to right as the translated monadic terms (validated by the correspondence run)",
    "f64 = IEEE binary64 (Flocq), Decimal = Amount/DecModel.v in the correspondence",
]


def stage(be, a, S_from, S_to, same_unit, d, m):
    """exact result Y = (a * S_from/S_to) / d * m and an error bound for the
    implementation's four-step evaluation; returns (Y, bound) or None if the
    bound does not apply (division by zero / out of the normal range)"""
    if d == 0:
        return None
    X1 = a if same_unit else a * S_from / S_to
    Y = X1 / d * m
    if be == "f64":
        for v in ([] if same_unit else [S_to / S_from]) + [X1, X1 / d, Y, a, d, m]:
            if not in_normal(v):
                return None
        return Y, (((1 + U) / (1 - U)) ** 5 - 1) * abs(Y)
    if same_unit:
        E1 = Fraction(0)
    else:
        B = S_to / S_from
        if abs(B) <= 2 * EPS:
            return None
        E1 = abs(a) * EPS / (abs(B) * (abs(B) - EPS)) + EPS
    E2 = E1 / abs(d) + EPS
    return Y, E2 * abs(m) + EPS


def run(ctx):
    kr = kc.KRun(ctx, PID)
    quick = ctx.tier == "quick"
    rng = ctx.rng
    for be in kc.BACKENDS:
        types = {t.name: t for t in kc.all_types(ctx.gen_info, be)}
        scales = kc.scales_of(ctx, be, list(types.values()))
        pairs = [(a, b) for a, b in gen_harness.RATE_PAIRS if a in types and b in types]
        pool = kc.structured_pool(be)
        ops, meta = [], []
        if ctx.replay:
            for b, line in kc.replay_ops(ctx):
                if b == be:
                    ops.append(line); meta.append(("replay",))
        for tq, pq in ([] if ctx.replay else pairs):
            T, P = types[tq], types[pq]
            for tu in range(T.n):
                for pu in range(P.n):
                    for _ in range(2 if quick else 12):
                        t, p = rng.choice(pool), rng.choice(pool)
                        if rng.random() < 0.3:
                            p = pool[0]       # per multiple one
                        args = f"{t} {tu} {p} {pu}"
                        for o in ("rate_new", "rate_recip", "rate_recip2"):
                            ops.append(f"rate {o} {tq} {pq} {args}"); meta.append((o, tq, pq, t, tu, p, pu))
                        ops.append(f"rate rate_from {tq} {pq} {t} {tu} {p} {pu}"); meta.append(("rate_from", tq, pq, t, tu, p, pu))
                        for qu in range(P.n):
                            a = rng.choice(pool) if rng.random() < 0.8 else kc.random_amount(be, rng)
                            ops.append(f"rate rate_mul {tq} {pq} {args} {a} {qu}"); meta.append(("rate_mul", tq, pq, t, tu, p, pu, a, qu))
                            if pq != "AMOUNT":
                                ops.append(f"rate qty_mul_rate {tq} {pq} {args} {a} {qu}"); meta.append(("qty_mul_rate", tq, pq, t, tu, p, pu, a, qu))
                            kr.count(f"{be}:rate*value:{P.path}:{'same' if qu == pu else 'diff'}-unit")
                        if tq != "AMOUNT":
                            for qu in range(T.n):
                                a = rng.choice(pool)
                                ops.append(f"rate qty_div_rate {tq} {pq} {args} {a} {qu}"); meta.append(("qty_div_rate", tq, pq, t, tu, p, pu, a, qu))
                                kr.count(f"{be}:value/rate:{T.path}:{'same' if qu == tu else 'diff'}-unit")
        impl = kr.run(be, ops)
        ops2, meta2 = [], []
        for i, (op, m, r) in enumerate(zip(ops, meta, impl)):
            o = m[0]
            if o == "replay":
                continue
            tq, pq, t, tu, p, pu = m[1:7]
            T, P = types[tq], types[pq]
            kr.nontrivial.add((be, o, tq, pq, tu, pu) + tuple(m[8:9]))
            canon = lambda x: "NaN" if be == "f64" and kc.f64_is_nan(x) else x
            if o in ("rate_new", "rate_from", "rate_recip2"):
                want = f"{canon(t)} {tu} {canon(p)} {pu}"
                if r != want:
                    kr.violation(be, f"{o}: the rate does not report exactly its four components", op, r, want)
            elif o == "rate_recip":
                want = f"{canon(p)} {pu} {canon(t)} {tu}"
                if r != want:
                    kr.violation(be, "reciprocal does not swap term and per", op, r, want)
            elif o in ("rate_mul", "qty_mul_rate", "qty_div_rate"):
                a, qu = m[7], m[8]
                if o == "qty_mul_rate":
                    if r != impl[i - 1]:
                        kr.violation(be, "value * rate differs from rate * value", op, r, impl[i - 1])
                    continue
                Q, other_u, d, mm, out_u = (P, pu, p, t, tu) if o == "rate_mul" else (T, tu, t, p, pu)
                if Q.path == "PNoRef" and qu != other_u:
                    if r != "PANIC":
                        kr.violation(be, f"{o}: mixing units of a quantity without reference unit must panic", op, r, "PANIC")
                    continue
                if r == "PANIC":
                    continue
                if int(r.split()[1]) != out_u:
                    kr.violation(be, f"{o}: result does not carry the {'term' if o == 'rate_mul' else 'per'} unit", op, r, f"unit {out_u}")
                va, vd, vm, vr = (kc.value(be, x) for x in (a, d, mm, r.split()[0]))
                if None in (va, vd, vm, vr):
                    continue
                if Q.path == "PRef":
                    sc = scales[Q.name][0]
                    st = stage(be, va, sc[qu], sc[other_u], qu == other_u, vd, vm)
                else:
                    st = stage(be, va, 1, 1, True, vd, vm)
                if st is None:
                    continue
                Y, b = st
                if abs(vr - Y) > b:
                    kr.violation(be, f"{o}: result is not {'term amount' if o == 'rate_mul' else 'per multiple'} x (value / {'per' if o == 'rate_mul' else 'term'} value) within rounding",
                                 op, r, f"{kc.ff(Y)} +- {kc.ff(b)}")
                    continue
                # inverse: (rate * value) / rate
                if o == "rate_mul" and tq != "AMOUNT" and P.path == "PRef" and (quick is False or rng.random() < 0.3):
                    ytok = r.split()[0]
                    ops2.append(f"rate qty_div_rate {tq} {pq} {t} {tu} {p} {pu} {ytok} {tu}")
                    meta2.append((op, va * scales[P.name][0][qu] / scales[P.name][0][pu] if qu != pu else va, b, vd, vm, pu))
        impl2 = kr.run(be, ops2, tag=f"{PID}-{be}-inv") if ops2 else []
        for op2, (op1, X, b1, vp, vt, pu), r in zip(ops2, meta2, impl2):
            if r == "PANIC" or vt == 0 or vp == 0:
                continue
            vz = kc.value(be, r.split()[0])
            if vz is None:
                continue
            if int(r.split()[1]) != pu:
                kr.violation(be, "(rate * value) / rate does not come back in the per unit", op2, r)
            if be == "f64":
                bound = (((1 + U) / (1 - U)) ** 10 - 1) * abs(X)
            else:
                vy = kc.value(be, op2.split()[-2])
                st = stage(be, vy, 1, 1, True, vt, vp)
                bound = st[1] + b1 * abs(vp / vt)
            kr.nontrivial.add((be, "inverse", op2))
            if abs(vz - X) > bound:
                kr.violation(be, "dividing (rate * value) by the rate does not return the value's magnitude within rounding", f"{op1} ; {op2}", r,
                             f"{kc.ff(X)} +- {kc.ff(bound)}")
    return kr.result("rate type pairs (with reference unit, dimensionless, single-unit, without reference unit; both orders) x ALL term/per/operand units x amounts "
                     "(30% per-multiple one): accessor/reciprocal identities exactly; rate*value = value*rate exactly; rate*value and value/rate against the exact rational "
                     "term*(value/per) resp. per*(value/term) with a composed rounding bound; (rate*value)/rate against the value; mixed units of a per-quantity without "
                     "reference unit must panic; non-trivial = distinct (back-end, op, types, units)")
