"""C08 — construction and scaling by numbers are exact and unit-preserving."""
import framework as fw
import kcommon as kc

PID = "C08"
MODEL_TARGETS = ["Proofs/Eval.vo", "Amount/F64.vo", "Amount/Dec.vo", "Gen/Catalogue.vo"]
PROOF_TARGETS = ["Props/C08.vo", "Pinned/C08.vo", "Props/Programs.vo", "Pinned/Programs.vo"]
PROPS = ["Props/C08.v", "Props/Programs.v"]
COQCHK = ["QV.Props.C08", "QV.Props.Programs"]
TRUSTED_BASE = [
    "Coq 8.16.1 kernel (coqc; vm_compute for the finite catalogue facts); coqchk in the thorough tier",
    "translator rs2j+j2v: struct shapes, new/amount/unit, Mul<Unit>/Mul<AmountT>/Div<AmountT> bodies are translated from the repository's own codegen() output (Gen/Kernels.v); every generated impl is checked to be an instance of its template; the One/AmountT impls are translated from src/lib.rs",
    "Macro/Inst.v (hand): which translated template implements which operator of an instance; checked against the generated impl table by the computed fact wiring_ok (theorem C08_catalogue)",
    "amount types are abstract in these theorems (no axiom; no property of + - * / is used)",
]
LEVEL = ("Coq theorems (Props/C08.v), for EVERY amount (NaN, signed zeros, infinities, any decimal representation), every unit and both back-ends at once because the amount type is abstract: "
         "constructor/accessor round trip for every generated definition, amount*unit = unit*amount = new, normal forms of k*q, q*k, q/k (operand order, unit untouched), the dimensionless type's facts; "
         "for the current tree the instance laws and the wiring of operators to the translated templates are computed over every definition (main, astronomical, synthetic). "
         "The templates are re-translated from the repository's own codegen() output on every run, so a changed body breaks a proof; the correspondence + oracle then look for a failing input."
         " Composed over whole programs (Props/Programs.v, axiom-free): for every amount type with exact arithmetic, any tree of constructions, conversions, sums, differences and scalings by numbers run through the translated kernels carries the statically determined unit and denotes exactly its abstract physical magnitude, and ratio / == / partial ordering of two results are the abstract ratio, equality and order (PROG_refines, PROG_ratio, PROG_eq, PROG_cmp; induction over the program); instantiated with an exact rational amount type on every predefined quantity with a reference unit (PROG_catalogue, PROG_not_vacuous).")
LEVEL_NOTE = "Trusted: Coq kernel, translator rs2j+j2v (literal translation of the generated fn bodies), Macro/Inst.v (wiring, cross-checked by wiring_ok), the model of Rust struct/field semantics; no axioms."
ASSUMPTIONS = [
    "Rust struct construction/field access and operator dispatch behave as the translated terms (validated by the correspondence run on every unit of every type, both back-ends)",
    "the harness feeds the same inputs to implementation and model",
]


def run(ctx):
    kr = kc.KRun(ctx, PID)
    quick = ctx.tier == "quick"
    for be in kc.BACKENDS:
        types = kc.all_types(ctx.gen_info, be)
        rng = ctx.rng
        amounts = kc.special_pool(be) + kc.structured_pool(be)[:8] + [kc.random_amount(be, rng, moderate=False) for _ in range(4 if quick else 60)]
        scal = kc.structured_pool(be)[:6] + kc.special_pool(be)[:5] + [kc.random_amount(be, rng) for _ in range(2 if quick else 20)]
        ops, meta = [], []
        if ctx.replay:
            for b, line in kc.replay_ops(ctx):
                if b == be:
                    ops.append(line); meta.append(("replay",))
        else:
            for t in types:
                for u in range(t.n):
                    na = 3 if quick else len(amounts)
                    for a in rng.sample(amounts, min(na, len(amounts))):
                        for op in ("new", "aunit", "unita"):
                            ops.append(f"{op} {t.name} {a} {u}"); meta.append((op, t, a, u))
                            kr.count(f"{be}:{op}:{kc.amount_class(be, a)}")
                    nk = 2 if quick else 12
                    for _ in range(nk):
                        k, a = rng.choice(scal), rng.choice(amounts)
                        for op, aux in (("smul_l", f"smul_l AMOUNT {k} {a} 0"), ("smul_r", f"smul_r AMOUNT {k} {a} 0"), ("sdiv", f"sdiv AMOUNT {k} {a} 0")):
                            ops.append(f"{op} {t.name} {k} {a} {u}"); meta.append((op, t, a, u, k))
                            ops.append(aux); meta.append(("aux",))
                            kr.count(f"{be}:{op}:{kc.amount_class(be, k)}*{kc.amount_class(be, a)}")
            ops.append("units AMOUNT"); meta.append(("amount_units",))
            ops.append("scales AMOUNT"); meta.append(("amount_scales",))
        impl = kr.run(be, ops)
        # oracle on the implementation, independent of the Coq model
        for i, (op, m, r) in enumerate(zip(ops, meta, impl)):
            if m[0] in ("new", "aunit", "unita"):
                _, t, a, u = m
                want = f"{canon(be, a)} {u}"
                kr.nontrivial.add((be, m[0], t.name, u))
                if r != want:
                    kr.violation(be, f"{m[0]} of {t.name}: amount/unit not stored unchanged", op, r, want)
            elif m[0] in ("smul_l", "smul_r", "sdiv"):
                _, t, a, u, k = m
                ref = impl[i + 1]                      # the amount type's own operation on the bare amounts
                want = ref if ref == "PANIC" else f"{ref.split()[0]} {u}"
                kr.nontrivial.add((be, m[0], t.name, u))
                if r != want:
                    kr.violation(be, f"{m[0]} of {t.name}: not the amount type's own operation with the unit kept", op, r, want)
            elif m[0] == "amount_units":
                if r != "<79 110 101>|<>|None":
                    kr.violation(be, "the dimensionless unit is not (One, empty symbol, no prefix)", op, r, "<79 110 101>|<>|None")
            elif m[0] == "amount_scales":
                one = "3ff0000000000000" if be == "f64" else None
                sc = r.split()[0]
                if (be == "f64" and sc != one) or (be == "dec" and kc.dec_value(sc) != 1) or "REF=0 0" not in r:
                    kr.violation(be, "the dimensionless unit's scale is not one / it is not the reference unit", op, r)
    return kr.result("every unit of every quantity type (catalogue, astronomical [f64], synthetic, dimensionless) x amounts incl. IEEE specials: "
                     "new / amount*unit / unit*amount must return the amount and unit unchanged; k*q, q*k, q/k must equal the amount type's own "
                     "operation (obtained from the implementation on bare amounts) with the unit kept; non-trivial = distinct (back-end, operation, type, unit)")


def canon(be, tok):
    if be == "f64" and kc.f64_is_nan(tok):
        return "NaN"
    return tok
