"""C17 — serialisation round-trips values exactly."""
import framework as fw
import kcommon as kc

PID = "C17"
MODEL_TARGETS = ["Proofs/Eval.vo", "Amount/F64.vo", "Amount/Dec.vo", "Gen/Catalogue.vo", "Rt/Serde.vo", "Amount/DecCodec.vo"]
PROOF_TARGETS = ["Props/C17.vo", "Pinned/C17.vo"]
PROPS = "Props/C17.v"
COQCHK = ["QV.Props.C17"]
TRUSTED_BASE = [
    "Coq 8.16.1 kernel (coqc; vm_compute for the per-definition facts); coqchk in the thorough tier",
    "translator rs2j+j2v: per definition, whether cfg_attr(feature = \"serde\", derive(Deserialize, Serialize)) is on the generated enum and struct, the struct's field list, the VARIANTS; the serde feature line of Cargo.toml",
    "Rt/Serde.v (hand): model of the serde data model, of derive on a field-less enum / a named-field struct, of f64 as a JSON number and Decimal as a string - MODELLED, validated against serde_json through the harness on every run",
]
LEVEL = ("Coq theorems (Props/C17.v) over the model of the serde data model, generic in the amount type's codec: a unit serialises as its variant name and deserialises to the identical unit; a value (both struct shapes) "
         "deserialises to the identical value whenever the amount codec round-trips (discharged for both amount types: trivial for f64 in the value tree, and for the decimal string form the theorem C17_decimal_codec: from_str (String::from d) = d for every decimal with 0..18 fractional digits and coefficient other than i128::MIN, over the model of fpdec's two conversions); different values have "
         "different serialisations. Computed for every definition of the tree: both derives present on enum and struct, expected fields, distinct variants; the serde feature enables dep:serde and fpdec's serde-as-str. "
         "Partial: serde/serde_json/fpdec's string conversion are modelled; the tie is the correspondence on all units x adversarial amounts through the value tree and through JSON text.")
LEVEL_NOTE = "Trusted: Coq kernel, translator rs2j+j2v, the hand model Rt/Serde.v (validated against serde_json each run); the decimal codec round trip is a theorem about the model of fpdec's String::from / from_str (Amount/DecStr.v, Amount/DecCodec.v). No axioms."
ASSUMPTIONS = [
    "serde_derive generates the standard externally-tagged representation (no serde attributes on the generated items - the translator would show them in the struct/enum attributes)",
    "serde_json prints a finite f64 with ryu (shortest round-tripping digits); JSON text is read back with an exactly rounding parser (serde_json's float_roundtrip feature, as the property demands; its default parser is off by 1 ulp on some inputs); fpdec parses what it prints",
]
CATEGORY = "proof"


def run(ctx):
    kr = kc.KRun(ctx, PID)
    quick = ctx.tier == "quick"
    rng = ctx.rng
    for be in kc.BACKENDS:
        cfg = f"{be}-serde"
        types = [t for t in kc.all_types(ctx.gen_info, be, with_amount=False) if t.crate != "astronomical"]
        if be == "f64":
            amounts = ["3fb999999999999a", "3fd5555555555555", "400921fb54442d18", "7fefffffffffffff", "0010000000000000", "0000000000000001",
                       "8000000000000000", "0000000000000000", "c1e0000000000000", "43e0000000000000", "4415af1d78b58c40", "3ff0000000000001",
                       "bff0000000000001", "3e7ad7f29abcaf48", "4340000000000001", "fff0000000000000"[:0] or "ffefffffffffffff"]
            amounts += [kc.random_amount(be, rng, moderate=False) for _ in range(8)]
            amounts = [a for a in amounts if not kc.f64_is_nan(a) and not kc.f64_is_inf(a)]
        else:
            amounts = [kc.dec_tok(c, n) for c, n in [(1, 18), (-1, 18), (123456789012345678, 18), (150, 2), (15, 1), (0, 0), (0, 5), (-5, 0), (10 ** 30, 0),
                                                      (10 ** 36 + 7, 18), (-(10 ** 37), 12), (333333333333333333, 18), (1, 0), (100, 2), (2 ** 126, 0), (-(2 ** 126), 18)]]
            amounts += [kc.random_amount(be, rng, moderate=False) for _ in range(8)]
        ops, meta = [], []
        if ctx.replay:
            for b, line in kc.replay_ops(ctx):
                if b == be:
                    ops.append(line); meta.append(("replay",))
        for t in ([] if ctx.replay else types):
            for u in range(t.n):
                ops.append(f"ser_unit {t.name} {u}"); meta.append(("ser_unit", t, u))
                ops.append(f"rt_unit {t.name} {u}"); meta.append(("rt_unit", t, u))
                for a in (rng.sample(amounts, 4) if quick else amounts):
                    for o in ("ser", "rt_value", "rt_text"):
                        ops.append(f"{o} {t.name} {a} {u}"); meta.append((o, t, u, a))
                    kr.count(f"{be}:{kc.amount_class(be, a)}")
        impl = kr.run(be, ops, cfg=cfg)
        seen = {}
        for op, m, r in zip(ops, meta, impl):
            if m[0] == "replay":
                continue
            t, u = m[1], m[2]
            kr.nontrivial.add((be, op))
            uu = 0 if t.path == "PSingle" else u
            if m[0] == "ser_unit":
                want = t.entry["VARIANTS"][u]
                got = "".join(chr(int(c)) for c in r.strip("<>").split()) if r.startswith("<") else r
                if got != want:
                    kr.violation(be, "a unit does not serialise as its variant name", op, got, want)
            elif m[0] == "rt_unit":
                if r != str(u):
                    kr.violation(be, "a unit does not come back identical from serialisation", op, r, str(u))
            elif m[0] in ("rt_value", "rt_text"):
                want = f"{m[3]} {uu}"
                if r != want:
                    kr.violation(be, f"a value does not come back bit-identical through {'the value tree' if m[0] == 'rt_value' else 'JSON text'}", op, r, want)
            elif m[0] == "ser":
                key = (t.name, r)
                val = (m[3], uu)
                if key in seen and seen[key] != val:
                    kr.violation(be, "two different values have the same serialisation", op, r, f"also the serialisation of {seen[key]}")
                seen[key] = val
                nkeys = 1 if t.path == "PSingle" else 2
                if not r.endswith(f"keys={nkeys}") or (be == "dec" and not r.startswith("S")) or (be == "f64" and not r.startswith("F")):
                    kr.violation(be, "unexpected shape of the serialised value (fields / amount representation)", op, r)
    return kr.result("every unit of every catalogue and synthetic type x adversarial finite amounts (f64: 17 significant digits, extremes, subnormals, -0.0, random bit patterns; decimal: 18 fractional digits, "
                     "trailing zeros, 36-digit coefficients, zero with fractional digits): serde_json::to_value / from_value and to_string / from_str must return the identical unit and the bit-identical amount "
                     "(identical coefficient AND number of fractional digits); units serialise as variant names; different values never share a serialisation; non-trivial = distinct operations", exhaustive=False)
