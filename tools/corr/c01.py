"""C01 — unit conversion preserves the physical value."""
from fractions import Fraction
import framework as fw
import kcommon as kc

PID = "C01"
MODEL_TARGETS = ["Proofs/Eval.vo", "Amount/F64.vo", "Amount/Dec.vo", "Gen/Catalogue.vo"]
PROOF_TARGETS = ["Props/C01.vo", "Pinned/C01.vo", "Props/Accuracy.vo", "Pinned/Accuracy.vo", "Props/AccuracyDec.vo", "Pinned/AccuracyDec.vo", "Props/Programs.vo", "Pinned/Programs.vo"]
PROPS = ["Props/C01.v", "Props/Accuracy.v", "Props/AccuracyDec.v", "Props/Programs.v"]
COQCHK = ["QV.Props.C01", "QV.Props.Accuracy", "QV.Props.AccuracyDec", "QV.Props.Programs"]
TRUSTED_BASE = [
    "Coq 8.16.1 kernel (coqc); coqchk in the thorough tier",
    "translator rs2j+j2v: LinearScaledUnit::ratio, HasRefUnit::equiv_amount, HasRefUnit::convert are translated from src/lib.rs on every run (Gen/Kernels.v); scale tables from the macro's actual output (Gen/Catalogue.v)",
    "Macro/Inst.v (hand): instance records built from the generated tables",
    "amount types: abstract in the structural theorems; binary64 = Flocq (Amount/F64.v), Decimal = hand model of fpdec (Amount/DecModel.v) in the accuracy theorems and in the correspondence",
]
LEVEL = ("Coq theorems (Props/C01.v), generic in the amount type and the quantity instance: the converted value carries exactly the requested unit; converting to the present unit returns the identical value "
         "(nothing computed); equiv_amount and convert agree (also in panicking); for different units the result is exactly mul(div(scale from, scale to), amount) - the normal form that pins operand roles. "
         "ratio/equiv_amount/convert are re-translated from src/lib.rs on every run. The magnitude bound is additionally judged on the implementation for ALL ordered unit pairs with exact rationals (testing, supporting). In the binary floating-point configuration the magnitude bound itself is a theorem (Props/Accuracy.v, from Flocq: |a'*s_v - M| <= ((1+2^-53)^2-1)|M| when the scale ratio and the product are in the normal range), with a concrete catalogue case meeting its premises (ACC_C01_not_vacuous), and for EVERY predefined quantity with a reference unit and every ordered unit pair the premises about the scales are discharged by computation on the exact values of the doubles (ACC_C01_catalogue_scales, 1520 pairs), leaving premises on the amount only (ACC_C01_catalogue_convert); in the decimal configuration (Props/AccuracyDec.v, over the model of fpdec::Decimal): |a'*s_v - M| <= 5e-19 (|a|+1)|s_v| whenever the conversion returns, exactly M when the scale ratio and the converted amount have at most 18 fractional digits, and the conversion does return while the ratio and the converted amount stay below 1e19 (DEC_C01_convert, DEC_C01_convert_exact, DEC_C18_convert_total, with 2.5 in -> cm meeting every premise: DEC_C01_not_vacuous)."
         " Composed over whole programs (Props/Programs.v, axiom-free): for every amount type with exact arithmetic, any tree of constructions, conversions, sums, differences and scalings by numbers run through the translated kernels carries the statically determined unit and denotes exactly its abstract physical magnitude, and ratio / == / partial ordering of two results are the abstract ratio, equality and order (PROG_refines, PROG_ratio, PROG_eq, PROG_cmp; induction over the program); instantiated with an exact rational amount type on every predefined quantity with a reference unit (PROG_catalogue, PROG_not_vacuous).")
LEVEL_NOTE = "Trusted: Coq kernel, translator rs2j+j2v, Macro/Inst.v, the hand models of binary64 (Flocq) and fpdec used by the correspondence; no axioms in the structural theorems; the accuracy theorems rest on Flocq and the stdlib real-number axioms."
ASSUMPTIONS = [
    "Rust's f64 arithmetic is IEEE-754 binary64 round-to-nearest-even and rustc rounds literals correctly (validated: scale bit patterns and results compared on every run)",
    "fpdec behaves as Amount/DecModel.v (validated by tools/dectest and by this correspondence run)",
]

U = Fraction(1, 2 ** 53)
EPS = Fraction(1, 2 * 10 ** 18)
NORMAL_MIN = Fraction(1, 2 ** 1021)
NORMAL_MAX = Fraction(2) ** 1023


def in_normal(x):
    return x == 0 or NORMAL_MIN <= abs(x) <= NORMAL_MAX


def run(ctx):
    kr = kc.KRun(ctx, PID)
    quick = ctx.tier == "quick"
    rng = ctx.rng
    for be in kc.BACKENDS:
        types = kc.all_types(ctx.gen_info, be, paths=("PRef",))
        scales = kc.scales_of(ctx, be, types)
        ops, meta = [], []
        if ctx.replay:
            for b, line in kc.replay_ops(ctx):
                if b == be:
                    ops.append(line); meta.append(("replay",))
        base = kc.structured_pool(be)
        spec = kc.special_pool(be)
        for t in ([] if ctx.replay else types):
            sc, ref, _ = scales[t.name]
            for u in range(t.n):
                for v in range(t.n):
                    n = 3 if quick else 24
                    ams = [rng.choice(base) for _ in range(n - 1)] + [kc.random_amount(be, rng)]
                    if rng.random() < (0.15 if quick else 1.0):
                        ams.append(rng.choice(spec))
                    for a in ams:
                        ops.append(f"convert {t.name} {a} {u} {v}"); meta.append(("convert", t, a, u, v))
                        ops.append(f"equiv {t.name} {a} {u} {v}"); meta.append(("equiv", t, a, u, v))
                        kr.count(f"{be}:{'same' if u == v else 'diff'}-unit:{kc.amount_class(be, a)}")
        impl = kr.run(be, ops)
        for i, (op, m, r) in enumerate(zip(ops, meta, impl)):
            if m[0] != "convert":
                continue
            _, t, a, u, v = m
            eq = impl[i + 1]
            sc, ref, _ = scales[t.name]
            kr.nontrivial.add((be, t.name, u, v))
            if r == "PANIC" or eq == "PANIC":
                if r != eq:
                    kr.violation(be, "convert and equiv_amount do not panic together", op, f"{r} / {eq}")
                continue
            amt, unit = r.split()
            if int(unit) != v:
                kr.violation(be, "converted value does not carry the requested unit", op, r, f"unit {v}")
            if amt != eq:
                kr.violation(be, "equiv_amount differs from the amount convert stores", op, f"{r} / {eq}")
            can = "NaN" if be == "f64" and kc.f64_is_nan(a) else a
            if u == v:
                if amt != can:
                    kr.violation(be, "conversion to the unit a value already has changed the amount", op, r, f"{can} {v}")
                continue
            va, vr = kc.value(be, a), kc.value(be, amt)
            if va is None or vr is None or sc[u] is None or sc[v] is None:
                continue
            M, Mr = va * sc[u], vr * sc[v]
            if be == "f64":
                if not (in_normal(sc[u] / sc[v]) and in_normal(va * sc[u] / sc[v]) and abs(va) >= NORMAL_MIN or va == 0):
                    continue
                bound = ((1 + U) ** 2 - 1) * abs(M)
            else:
                bound = sc[v] * EPS * (abs(va) + 1)
            if abs(Mr - M) > bound:
                kr.violation(be, "physical magnitude not preserved within the rounding of the amount type", op, r,
                             f"|{kc.ff(Mr)} - {kc.ff(M)}| <= {kc.ff(bound)}", error=kc.ff(abs(Mr - M)))
    return kr.result("every type with reference unit (catalogue, astronomical [f64], synthetic, dimensionless) x ALL ordered unit pairs x amounts "
                     "(structured, random, IEEE specials / decimal extremes): exact unit, same-unit identity, equiv_amount = stored amount, and "
                     "|a'*s_v - a*s_u| within (1+2^-53)^2-1 relative (f64, normal range) resp. s_v*(|a|+1)*0.5e-18 (decimal), judged with exact rationals "
                     "against the implementation's own scale(); non-trivial = distinct (back-end, type, ordered unit pair)", exhaustive=True)
