"""C02 — cross-unit comparison is physically correct and order-independent."""
from fractions import Fraction
import framework as fw
import kcommon as kc
from c01 import U, EPS, in_normal
from c05 import round_to, neighbours

PID = "C02"
MODEL_TARGETS = ["Proofs/Eval.vo", "Amount/F64.vo", "Amount/Dec.vo", "Gen/Catalogue.vo"]
PROOF_TARGETS = ["Props/C02.vo", "Pinned/C02.vo", "Props/Accuracy.vo", "Pinned/Accuracy.vo", "Props/AccuracyDec.vo", "Pinned/AccuracyDec.vo", "Props/Programs.vo", "Pinned/Programs.vo"]
PROPS = ["Props/C02.v", "Props/Accuracy.v", "Props/AccuracyDec.v", "Props/Programs.v"]
COQCHK = ["QV.Props.C02", "QV.Props.Accuracy", "QV.Props.AccuracyDec", "QV.Props.Programs"]
TRUSTED_BASE = [
    "Coq 8.16.1 kernel (coqc); coqchk in the thorough tier",
    "translator rs2j+j2v: HasRefUnit::eq / partial_cmp and the generated PartialEq / PartialOrd forwarding impls translated from the current source (Gen/Kernels.v)",
    "Macro/Inst.v (hand): wiring, cross-checked against the impl table",
    "binary64 = Flocq (Bcompare_swap for the order laws), Decimal = Amount/DecModel.v (laws proved about the model)",
]
LEVEL = ("Coq theorems (Props/C02.v): with equal units == and partial_cmp are exactly the amount type's own; with different units both compare the two reference-unit magnitudes amount*scale computed in the amount type "
         "(normal form, generic in amount type and instance); hence for every amount type whose == is symmetric and whose partial_cmp is antisymmetric - proved for binary64 from Flocq and for the decimal model - "
         "a == b iff b == a, partial_cmp(a,b) is the reverse of partial_cmp(b,a) (so a<b iff b>a, a<=b iff b>=a), and partial_cmp reports Equal exactly when == holds, for ALL amounts of ALL unit pairs of ALL instances. "
         "Agreement with the exact order of the magnitudes beyond one rounding is judged on the implementation with exact rationals for all ordered unit pairs (testing, supporting). In the binary floating-point configuration the comparison provably never contradicts the exact order of the magnitudes (ACC_C02_order, from monotonicity of rounding), for all finite amounts without overflow, and IS the exact order whenever the magnitudes differ by more than 2^-53 (|Mx|+|My|) (ACC_C02_separated); in the decimal configuration (Props/AccuracyDec.v) the amount type's own == and ordering are the exact ones of the values (DEC_comparison), and across units the verdict is the exact order of the magnitudes whenever they are more than 1e-18 apart and always when both have at most 18 fractional digits, without panic below 1e19 (DEC_C02_order)."
         " Composed over whole programs (Props/Programs.v, axiom-free): for every amount type with exact arithmetic, any tree of constructions, conversions, sums, differences and scalings by numbers run through the translated kernels carries the statically determined unit and denotes exactly its abstract physical magnitude, and ratio / == / partial ordering of two results are the abstract ratio, equality and order (PROG_refines, PROG_ratio, PROG_eq, PROG_cmp; induction over the program); instantiated with an exact rational amount type on every predefined quantity with a reference unit (PROG_catalogue, PROG_not_vacuous).")
LEVEL_NOTE = "Trusted: Coq kernel, translator rs2j+j2v, Macro/Inst.v, Flocq binary64 and the fpdec model (validated by tools/dectest and the correspondence); stdlib real-number axioms via Flocq."
ASSUMPTIONS = [
    "core's provided methods: != is !eq; < <= > >= are derived from partial_cmp (PartialOrd's default methods) - modelled in Proofs/Eval.v and validated by the correspondence on all six relations in both operand orders",
    "f64 = IEEE binary64 (Flocq), Decimal = Amount/DecModel.v",
]

RELS = ("eq", "ne", "lt", "le", "gt", "ge", "cmp")
MIRROR = {"eq": "eq", "ne": "ne", "lt": "gt", "le": "ge", "gt": "lt", "ge": "le"}


def is_nan(be, tok):
    return be == "f64" and kc.f64_is_nan(tok)


def run(ctx):
    kr = kc.KRun(ctx, PID)
    quick = ctx.tier == "quick"
    rng = ctx.rng
    for be in kc.BACKENDS:
        types = kc.all_types(ctx.gen_info, be, paths=("PRef",))
        scales = kc.scales_of(ctx, be, types)
        ops, meta = [], []
        if ctx.replay:
            for b, line in kc.replay_ops(ctx):
                if b == be:
                    for l in line.split(" ; "):
                        ops.append(l); meta.append(("replay",))
        ks = [Fraction(1), Fraction(12), Fraction(60), Fraction(3), Fraction(1, 2), Fraction(7, 4), Fraction(1000), Fraction(-5)]
        pool = kc.structured_pool(be)
        for t in ([] if ctx.replay else types):
            sc = scales[t.name][0] if t.name != "AMOUNT" else [Fraction(1)]
            for u in range(t.n):
                for v in range(t.n):
                    pairs = []
                    kk = rng.sample(ks, 1 if quick else len(ks))
                    for k in kk:
                        # equal by construction: a*s_u == b*s_v
                        a1, b1 = round_to(be, k * sc[v]), round_to(be, k * sc[u])
                        pairs.append((a1, b1, "equal-magnitude"))
                        a2, b2 = round_to(be, k), round_to(be, k * sc[u] / sc[v])
                        pairs.append((a2, b2, "equal-magnitude"))
                        if not quick or rng.random() < 0.3:
                            nb = neighbours(be, b2)
                            pairs.append((a2, nb[0], "neighbour")); pairs.append((a2, nb[2], "neighbour"))
                    pairs.append((rng.choice(pool), rng.choice(pool), "separated"))
                    if be == "f64" and rng.random() < (0.2 if quick else 1.0):
                        pairs.append((rng.choice(kc.F64_SPECIAL), rng.choice(kc.F64_SPECIAL + pool[:3]), "special"))
                    for a, b, cls in pairs:
                        for rel in RELS:
                            ops.append(f"{rel} {t.name} {a} {u} {b} {v}"); meta.append((rel, t, a, u, b, v, "fwd", cls))
                        for rel in RELS:
                            ops.append(f"{rel} {t.name} {b} {v} {a} {u}"); meta.append((rel, t, b, v, a, u, "rev", cls))
                        if u == v:
                            for rel in ("eq", "cmp"):
                                ops.append(f"{rel} AMOUNT {a} 0 {b} 0"); meta.append(("aux",))
                        kr.count(f"{be}:{'same' if u == v else 'diff'}-unit:{cls}")
        impl = kr.run(be, ops)
        i = 0
        while i < len(ops):
            m = meta[i]
            if m[0] in ("replay", "aux"):
                i += 1
                continue
            # a block: 7 forward, 7 reverse, [2 aux]
            _, t, a, u, b, v, _, cls = m
            fwd = dict(zip(RELS, impl[i:i + 7]))
            rev = dict(zip(RELS, impl[i + 7:i + 14]))
            blk = " ; ".join(ops[i:i + 14])
            nxt = i + 14
            kr.nontrivial.add((be, t.name, u, v, cls, a, b))
            if "PANIC" in list(fwd.values()) + list(rev.values()):
                i = nxt + (2 if u == v else 0)
                continue
            # internal consistency of the derived operators
            for d, nm in ((fwd, "a,b"), (rev, "b,a")):
                c = d["cmp"]
                want = {"eq": None, "ne": None, "lt": c == "Some Less", "le": c in ("Some Less", "Some Equal"),
                        "gt": c == "Some Greater", "ge": c in ("Some Greater", "Some Equal")}
                for rel in ("lt", "le", "gt", "ge"):
                    if d[rel] != str(want[rel]).lower():
                        kr.violation(be, f"{rel}({nm}) is inconsistent with partial_cmp({nm})", blk, d[rel], str(want[rel]).lower())
                if d["ne"] != ("false" if d["eq"] == "true" else "true"):
                    kr.violation(be, f"!= is not the negation of == ({nm})", blk, d["ne"])
            if u == v:
                aeq, acmp = impl[nxt], impl[nxt + 1]
                if fwd["eq"] != aeq or fwd["cmp"] != acmp:
                    kr.violation(be, "with equal units ==/partial_cmp are not the amount type's own comparison of the amounts", blk,
                                 f"{fwd['eq']} {fwd['cmp']}", f"{aeq} {acmp}")
                nxt += 2
            if not (is_nan(be, a) or is_nan(be, b)):
                # order independence
                if fwd["eq"] != rev["eq"]:
                    kr.violation(be, "a == b differs from b == a", blk, f"a==b: {fwd['eq']}, b==a: {rev['eq']}", cls=cls)
                rc = {"Some Less": "Some Greater", "Some Greater": "Some Less"}.get(rev["cmp"], rev["cmp"])
                if fwd["cmp"] != rc:
                    kr.violation(be, "partial_cmp(a,b) is not the reverse of partial_cmp(b,a)", blk, f"{fwd['cmp']} vs {rev['cmp']}", cls=cls)
                for rel in ("lt", "le", "gt", "ge"):
                    if fwd[rel] != rev[MIRROR[rel]]:
                        kr.violation(be, f"a {rel} b differs from b {MIRROR[rel]} a", blk, f"{fwd[rel]} vs {rev[MIRROR[rel]]}", cls=cls)
                if (fwd["cmp"] == "Some Equal") != (fwd["eq"] == "true"):
                    kr.violation(be, "partial_cmp reports Equal but == does not hold (or conversely)", blk, f"{fwd['cmp']} / {fwd['eq']}", cls=cls)
                # physical order, when the magnitudes are separated by more than one conversion's rounding
                if t.name != "AMOUNT":
                    sc = scales[t.name][0]
                    va, vb = kc.value(be, a), kc.value(be, b)
                    if va is not None and vb is not None and u != v:
                        Ma, Mb = va * sc[u], vb * sc[v]
                        if be == "f64":
                            ok = all(in_normal(x) for x in (va, vb, Ma, Mb, sc[u] / sc[v], sc[v] / sc[u], va * sc[u] / sc[v], vb * sc[v] / sc[u]))
                            thr = ((1 + U) ** 2 - 1) * max(abs(Ma), abs(Mb))
                        else:
                            ok = True
                            thr = max(sc[u], sc[v]) * EPS * (max(abs(va), abs(vb)) + 1) + 2 * EPS
                        if ok and abs(Ma - Mb) > thr:
                            want = "Some Less" if Ma < Mb else "Some Greater"
                            if fwd["cmp"] != want or fwd["eq"] != "false":
                                kr.violation(be, "comparison disagrees with the exact order of the physical magnitudes", blk,
                                             f"{fwd['cmp']} / eq {fwd['eq']}", f"{want} (magnitudes {kc.ff(Ma)} vs {kc.ff(Mb)})", cls=cls)
            i = nxt
        if not ctx.replay:
            published(ctx, kr, be, types)
    return kr.result("every type with reference unit x ALL ordered unit pairs x amount pairs (equal-by-construction magnitudes k*s_v vs k*s_u and k vs k*s_u/s_v for several k, "
                     "their one-step neighbours, clearly separated values, IEEE specials): all six relations and partial_cmp in BOTH operand orders; judged for (i) consistency of the derived operators, "
                     "(ii) same-unit = amount type's own, (iii) order independence for non-NaN amounts, (iv) agreement with the exact rational order when separated by more than one conversion's rounding, (v) for catalogue quantities the order given by the PUBLISHED unit definitions (Spec/Units.v) for magnitudes 1e-12 apart, all ordered unit pairs; "
                     "non-trivial = distinct (back-end, type, unit pair, class, amounts)", exhaustive=True)


_SPEC = {}


def published_scales(ctx):
    """unit identifier (variant spelling) -> published scale as an exact rational, per quantity, from the
    independently written definition table Spec/Units.v (the one C07 judges the catalogue against)"""
    if "spec" not in _SPEC:
        try:
            import c07
            _SPEC["spec"] = c07.load_spec(ctx)
        except Exception as e:  # no Coq build of the specification: this block is skipped, nothing is claimed from it
            ctx.log.both(f"[C02] published-definition block skipped: {e}")
            _SPEC["spec"] = {}
    return _SPEC["spec"]


def published(ctx, kr, be, types):
    """The physical magnitude of a value is amount x PUBLISHED scale of its unit.  For every ordered unit pair of
    every catalogue quantity: a = k in u, b = the same magnitude in v moved by +-1e-12 relative (far beyond the
    rounding of one conversion and of the scales themselves, which C07 bounds by the precision of the amount type);
    the comparison has to report the order the published definitions give."""
    spec = published_scales(ctx)
    if not spec:
        return
    REL = Fraction(1, 10 ** 12)
    ops, meta = [], []
    for t in types:
        if t.name == "AMOUNT" or t.crate not in ("quantities", "astronomical"):
            continue
        sp = spec.get((t.crate, t.entry["qty"]))
        if not sp:
            continue
        by_variant = {nm.replace(" ", ""): v for nm, v in sp.items()}
        pub = []
        for var in t.entry["VARIANTS"]:
            r = by_variant.get(var)
            pub.append(r[3] if r and r[2] == "Q" else None)
        for u in range(t.n):
            for v in range(t.n):
                if u == v or pub[u] is None or pub[v] is None:
                    continue
                k = ctx.rng.choice([Fraction(12), Fraction(7, 4), Fraction(-5), Fraction(1000)])
                a = round_to(be, k)
                va = kc.value(be, a)
                for sgn in (1, -1):
                    b = round_to(be, va * pub[u] / pub[v] * (1 + sgn * REL))
                    ops += [f"cmp {t.name} {a} {u} {b} {v}", f"eq {t.name} {a} {u} {b} {v}", f"cmp {t.name} {b} {v} {a} {u}"]
                    meta.append((t, a, u, b, v, pub[u], pub[v]))
    if not ops:
        return
    impl = kr.run(be, ops)
    for j, (t, a, u, b, v, pu, pv) in enumerate(meta):
        c, e, cr = impl[3 * j:3 * j + 3]
        blk = " ; ".join(ops[3 * j:3 * j + 3])
        if "PANIC" in (c, e, cr):
            continue
        va, vb = kc.value(be, a), kc.value(be, b)
        if va is None or vb is None:
            continue
        Ma, Mb = va * pu, vb * pv
        if be == "f64":
            if not all(in_normal(x) for x in (va, vb, Ma, Mb, pu, pv)):
                continue
            thr = 8 * U * max(abs(Ma), abs(Mb))
        else:
            thr = 4 * EPS * (abs(va) + abs(vb) + 2)
        if abs(Ma - Mb) <= thr:
            continue
        kr.count(f"{be}:published-definition:separated-1e-12")
        kr.nontrivial.add((be, t.name, u, v, "published", a, b))
        want = "Some Less" if Ma < Mb else "Some Greater"
        wrev = "Some Greater" if Ma < Mb else "Some Less"
        if c != want or e != "false" or cr != wrev:
            kr.violation(be, "comparison disagrees with the order of the physical magnitudes given by the published unit definitions", blk,
                         f"{c} / eq {e} / reversed {cr}", f"{want} (magnitudes {kc.ff(Ma)} vs {kc.ff(Mb)}, published scales {kc.ff(pu)} and {kc.ff(pv)})",
                         cls="published")


def match_known(v, known):
    for k in known:
        m = k.get("match", {})
        if m.get("what") and m["what"] in v.get("what", "") and (not m.get("backend") or m["backend"] == v.get("backend")):
            return k
    return None
