"""C10 — quantities without a reference unit never mix units silently."""
import framework as fw
import kcommon as kc

PID = "C10"
MODEL_TARGETS = ["Proofs/Eval.vo", "Amount/F64.vo", "Amount/Dec.vo", "Gen/Catalogue.vo"]
PROOF_TARGETS = ["Props/C10.vo", "Pinned/C10.vo"]
PROPS = "Props/C10.v"
COQCHK = ["QV.Props.C10"]
TRUSTED_BASE = [
    "Coq 8.16.1 kernel (coqc; vm_compute for the finite catalogue facts); coqchk in the thorough tier",
    "translator rs2j+j2v: Quantity::eq/partial_cmp/add/sub/div (src/lib.rs) and the generated forwarding impls of codegen_qty_without_ref_unit / codegen_qty_single_unit are translated from the current source (Gen/Kernels.v)",
    "Macro/Inst.v (hand): wiring of templates into an instance per code path, checked against the generated impl table (wiring_ok) and the declaration (path_matches_decl)",
    "panic! is modelled as the result Panic PUnitMismatch; amount types abstract (no axiom)",
]
LEVEL = ("Coq theorems (Props/C10.v) for every amount pair and both back-ends (abstract amount type): for types without reference unit == is (same unit && amounts equal), partial_cmp is None across units, "
         "+ - / across units are the documented panic and with equal units exactly the amount type's own operation; single-unit types always report their unit and do plain amount arithmetic. "
         "Which path a definition takes is computed against its declaration for every definition of the tree. Quantity::eq/partial_cmp/add/sub/div and the forwarding impls are re-translated from source on every run.")
LEVEL_NOTE = "Trusted: Coq kernel, translator rs2j+j2v, Macro/Inst.v wiring (cross-checked), panic! modelled as a result value, core's derived comparison operators modelled in Proofs/Eval.v; no axioms."
ASSUMPTIONS = [
    "core's provided methods: != is !eq, < <= > >= are derived from partial_cmp (modelled in Proofs/Eval.v, validated by the correspondence run)",
    "the harness feeds the same inputs to implementation and model; panics are caught at the harness boundary",
]

CMP_OPS = ("eq", "ne", "lt", "le", "gt", "ge", "cmp")


def run(ctx):
    kr = kc.KRun(ctx, PID)
    quick = ctx.tier == "quick"
    rng = ctx.rng
    for be in kc.BACKENDS:
        types = kc.all_types(ctx.gen_info, be, paths=("PNoRef", "PSingle"), with_amount=False)
        base = kc.structured_pool(be)[:10] + kc.special_pool(be)
        ops, meta = [], []
        if ctx.replay:
            for b, line in kc.replay_ops(ctx):
                if b == be:
                    ops.append(line); meta.append(("replay",))
        for t in ([] if ctx.replay else types):
            for u in range(t.n):
                for v in range(t.n):
                    pairs = []
                    npairs = 4 if quick else 40
                    for i in range(npairs):
                        a = rng.choice(base)
                        b = a if i % 2 == 0 else rng.choice(base)     # equal amounts in different units matter most
                        pairs.append((a, b))
                    for a, b in pairs:
                        arith = ("add", "sub", "div")
                        for op in arith + (CMP_OPS if t.path == "PNoRef" else ()):
                            ops.append(f"{op} {t.name} {a} {u} {b} {v}"); meta.append((op, t, a, u, b, v))
                            ops.append(f"{op} AMOUNT {a} 0 {b} 0"); meta.append(("aux",))
                            kr.count(f"{be}:{t.path}:{'same' if u == v else 'diff'}-unit:{op}")
        impl = kr.run(be, ops)
        for i, (op, m, r) in enumerate(zip(ops, meta, impl)):
            if m[0] in ("aux", "replay"):
                continue
            o, t, a, u, b, v = m
            ref = impl[i + 1]
            kr.nontrivial.add((be, o, t.name, u, v))
            if u == v or t.path == "PSingle":
                if o in ("add", "sub"):
                    want = ref if ref == "PANIC" else f"{ref.split()[0]} {u}"
                else:
                    want = ref
                if r != want:
                    kr.violation(be, f"{o} of {t.name} with equal units is not the amount type's own operation", op, r, want)
            else:
                want = {"eq": "false", "ne": "true", "lt": "false", "le": "false", "gt": "false", "ge": "false", "cmp": "None",
                        "add": "PANIC", "sub": "PANIC", "div": "PANIC"}[o]
                if r != want:
                    kr.violation(be, f"{o} of {t.name} on different units must be {want}", op, r, want)
    return kr.result("all types without reference unit (Temperature, synthetic NoRef, single-unit) x ALL ordered unit pairs x amount pairs "
                     "(half of them equal amounts) x {+,-,/,==,!=,<,<=,>,>=,partial_cmp}: different units must give false/None/PANIC, equal units the "
                     "amount type's own result (obtained from the implementation on bare amounts); non-trivial = distinct (back-end, op, type, unit pair)",
                     exhaustive=True)
