"""Common machinery of ./check: regeneration of the model from the source,
Coq build + audits, harness build, model evaluation inside Coq, evidence."""
import fcntl, hashlib, json, os, random, re, shutil, subprocess, sys, time
from concurrent.futures import ThreadPoolExecutor

VERIF = os.path.dirname(os.path.dirname(os.path.dirname(os.path.abspath(__file__))))
REPO = os.environ.get("VERIF_REPO", "/repo")
BUILD = os.environ.get("VERIF_BUILD", os.path.join(VERIF, "build"))
COQSRC = os.path.join(VERIF, "coq")
# with a private build directory the Coq sources are mirrored there, so several
# checks against different repository copies can run side by side
COQDIR = COQSRC if BUILD == os.path.join(VERIF, "build") else os.path.join(BUILD, "coq")
CARGO_ENV = {"CARGO_NET_OFFLINE": "true", "CARGO_TERM_COLOR": "never"}
NPROC = os.cpu_count() or 4

FORBIDDEN = re.compile(
    r"\b(Admitted|admit|Axiom|Axioms|Parameter|Parameters|Conjecture|Conjectures|Hypothesis|Hypotheses|Variable|Variables)\b"
    r"|Unset\s+Guard|Unset\s+Positivity|Unset\s+Universe|bypass_check|type-in-type|impredicative-set|Admit\s+Obligations|native_compute")

# axioms of the standard library / Flocq's dependencies that may appear
AXIOM_ALLOW = [
    "ClassicalDedekindReals.sig_forall_dec", "ClassicalDedekindReals.sig_not_dec",
    "FunctionalExtensionality.functional_extensionality_dep", "Classical_Prop.classic",
]
AXIOM_ALLOW_PREFIX = ["PrimInt63.", "Uint63.", "Uint63Axioms.", "PrimFloat.", "FloatAxioms.", "Sint63Axioms.", "FloatOps."]


class Log:
    def __init__(self, path):
        os.makedirs(os.path.dirname(path), exist_ok=True)
        self.f = open(path, "w", encoding="utf-8")

    def __call__(self, *a):
        s = " ".join(str(x) for x in a)
        self.f.write(s + "\n")
        self.f.flush()

    def both(self, *a):
        s = " ".join(str(x) for x in a)
        print(s, flush=True)
        self(s)


def sh(cmd, timeout=1200, env=None, cwd=None, input=None):
    e = dict(os.environ)
    e.update(CARGO_ENV)
    if env:
        e.update(env)
    t0 = time.time()
    try:
        p = subprocess.run(cmd, shell=isinstance(cmd, str), cwd=cwd, env=e, input=input, capture_output=True,
                           text=True, timeout=timeout, errors="replace")
        return p.returncode, p.stdout + p.stderr, time.time() - t0
    except subprocess.TimeoutExpired as ex:
        out = (ex.stdout or b"")
        if isinstance(out, bytes):
            out = out.decode("utf-8", "replace")
        return 124, out + f"\nTIMEOUT after {timeout}s", time.time() - t0


class Lock:
    """serialises the shared build steps between concurrently running checks"""

    def __init__(self, name="build"):
        os.makedirs(BUILD, exist_ok=True)
        self.path = os.path.join(BUILD, f".{name}.lock")

    def __enter__(self):
        self.f = open(self.path, "w")
        fcntl.flock(self.f, fcntl.LOCK_EX)
        return self

    def __exit__(self, *a):
        fcntl.flock(self.f, fcntl.LOCK_UN)
        self.f.close()


class Failure(Exception):
    """a step of the pipeline failed; kind: tie | proof | audit | harness | infra"""

    def __init__(self, kind, what, detail=""):
        super().__init__(what)
        self.kind, self.what, self.detail = kind, what, detail


# ---------------------------------------------------------------------------
# 1. regenerate the model from the repository's current working tree


def export_head(log):
    """the committed version of the repository's sources (git archive HEAD), used only
    to rebuild a model for the SEARCH when the working tree no longer translates"""
    dst = os.path.join(BUILD, "head-src")
    shutil.rmtree(dst, ignore_errors=True)
    os.makedirs(dst)
    rc, out, _ = sh(f"git -C {REPO} archive HEAD | tar -x -C {dst}", timeout=120)
    if rc != 0:
        raise Failure("infra", "git archive HEAD failed", out)
    return dst


def regen(log, repo=None):
    repo = repo or REPO
    with Lock():
        tdir = os.path.join(BUILD, "target-rs2j")
        src = os.path.join(VERIF, "tools", "rs2j")
        lock = os.path.join(src, "Cargo.lock")
        if not os.path.exists(lock):
            shutil.copy(os.path.join(REPO, "Cargo.lock"), lock)
        rc, out, dt = sh(["cargo", "build", "--offline", "--quiet"], cwd=src, timeout=900,
                         env={"CARGO_TARGET_DIR": tdir, "VERIF_REPO": repo})
        log(f"[regen] cargo build rs2j rc={rc} {dt:.1f}s")
        if rc != 0:
            log(out[-4000:])
            raise Failure("tie", "translator front end rs2j does not build against the repository's macro source "
                          "(qty-macros/src/quantity_attr_helper.rs no longer offers parse_item/analyze/parse_args/codegen as the translator uses them)",
                          out[-3000:])
        jpath = os.path.join(BUILD, "repo.json")
        rc, out, dt = sh(f"{tdir}/debug/rs2j dump {repo} {VERIF}/tools/synthetic_defs.rs > {jpath}.tmp", timeout=300)
        if rc != 0:
            log(out[-4000:])
            raise Failure("tie", "rs2j dump failed: the repository's sources do not parse / the macro code panicked", out[-3000:])
        os.replace(jpath + ".tmp", jpath)
        sync_coq_sources(log)
        rc, out, dt = sh([sys.executable, os.path.join(VERIF, "tools", "j2v", "main.py"), jpath, repo,
                          os.path.join(COQDIR, "Gen")], timeout=300)
        log(f"[regen] j2v rc={rc} {dt:.1f}s: {out.strip()[-2000:]}")
        if rc == 3:
            m = re.search(r"TIE-BROKEN: (.*)", out, re.S)
            raise Failure("tie", "translator: " + (m.group(1).strip() if m else out.strip())[:1500], out[-3000:])
        if rc != 0:
            raise Failure("tie", "translator j2v crashed on the current sources", out[-3000:])
        return json.load(open(os.path.join(COQDIR, "Gen", "gen_info.json"), encoding="utf-8"))


def sync_coq_sources(log):
    if COQDIR == COQSRC:
        return
    os.makedirs(COQDIR, exist_ok=True)
    rc, out, _ = sh(["rsync", "-a", "--delete", "--exclude", "Gen/", "--exclude", "*.vo", "--exclude", "*.vok",
                     "--exclude", "*.vos", "--exclude", "*.glob", "--exclude", "*.aux", "--exclude", "Makefile*",
                     "--exclude", ".Makefile.d", "--exclude", ".lia.cache", "--exclude", ".nia.cache",
                     COQSRC + "/", COQDIR + "/"])
    if rc != 0:
        raise Failure("infra", "rsync of coq sources failed", out)


# ---------------------------------------------------------------------------
# 2. Coq build and audits


def coq_project_files():
    files = []
    for line in open(os.path.join(COQSRC, "_CoqProject"), encoding="utf-8"):
        line = line.strip()
        if line.endswith(".v"):
            files.append(line)
    return files


def coq_make(targets, log, timeout=3000):
    """full .vo build of the given targets (and what they depend on)"""
    with Lock():
        mk = os.path.join(COQDIR, "Makefile")
        proj = os.path.join(COQDIR, "_CoqProject")
        if not os.path.exists(mk) or os.path.getmtime(mk) < os.path.getmtime(proj):
            rc, out, _ = sh(["coq_makefile", "-f", "_CoqProject", "-o", "Makefile"], cwd=COQDIR)
            if rc != 0:
                raise Failure("infra", "coq_makefile failed", out)
        rc, out, dt = sh(["make", f"-j{NPROC}", "--no-print-directory"] + targets, cwd=COQDIR, timeout=timeout)
        log(f"[coq] make {' '.join(targets)} rc={rc} {dt:.1f}s")
        if rc != 0:
            log(out[-6000:])
            m = re.search(r'File "\./([^"]+)", line (\d+), characters [^\n]*\n(Error:.*?)(?:\nmake|\Z)', out, re.S)
            where = f"{m.group(1)}:{m.group(2)}: {m.group(3).strip()[:600]}" if m else out.strip()[-800:]
            fname = m.group(1) if m else "?"
            lemma = enclosing_lemma(fname, int(m.group(2))) if m else None
            raise Failure("proof", f"Coq build of {' '.join(targets)} fails at {where}"
                          + (f" (inside {lemma})" if lemma else ""), out[-4000:])
        return out, dt


def enclosing_lemma(fname, line):
    try:
        lines = open(os.path.join(COQDIR, fname), encoding="utf-8").read().split("\n")
    except OSError:
        return None
    for i in range(min(line, len(lines)) - 1, -1, -1):
        m = re.match(r"\s*(Lemma|Theorem|Corollary|Example|Definition|Fixpoint|Fact|Remark|Check)\s+([A-Za-z0-9_']+)", lines[i])
        if m:
            return f"{m.group(1)} {m.group(2)}"
    return None


def strip_comments(text):
    out, depth, i = [], 0, 0
    while i < len(text):
        if text.startswith("(*", i):
            depth += 1
            i += 2
        elif text.startswith("*)", i) and depth > 0:
            depth -= 1
            i += 2
        else:
            if depth == 0:
                out.append(text[i])
            i += 1
    return "".join(out)


def audit_sources(files, log):
    """no Admitted/Axiom/... in the given .v files (comments stripped; Section
    Variables/Hypotheses are allowed only between Section ... End)"""
    bad = []
    for rel in files:
        p = os.path.join(COQDIR, rel)
        if not os.path.exists(p):
            continue
        text = strip_comments(open(p, encoding="utf-8").read())
        # string literals cannot hide vernacular; remove them to avoid false hits
        text_ns = re.sub(r'"[^"]*"', '""', text)
        depth = 0
        for ln, line in enumerate(text_ns.split("\n"), 1):
            if re.match(r"\s*(Section|Module Type)\b", line):
                depth += 1
            if re.match(r"\s*End\b", line) and depth > 0:
                depth -= 1
            for m in FORBIDDEN.finditer(line):
                w = m.group(0)
                if depth > 0 and re.match(r"(Variable|Variables|Hypothesis|Hypotheses|Context)", w):
                    continue
                bad.append(f"{rel}:{ln}: {w}")
    if bad:
        raise Failure("audit", "forbidden vernacular in the development: " + "; ".join(bad[:10]))
    return len(files)


def transitive_sources(targets):
    """the .v files the targets depend on, from coqdep's .Makefile.d"""
    dep = os.path.join(COQDIR, ".Makefile.d")
    deps = {}
    if os.path.exists(dep):
        for line in open(dep, encoding="utf-8").read().replace("\\\n", " ").split("\n"):
            if ":" not in line:
                continue
            l, r = line.split(":", 1)
            vos = [x for x in l.split() if x.endswith(".vo")]
            srcs = [x[:-1] for x in r.split() if x.endswith(".vo")]
            for vo in vos:
                deps[vo[:-1]] = [s for s in srcs]
    seen, todo = set(), [t[:-1] for t in targets]
    while todo:
        x = todo.pop()
        x = os.path.normpath(x)
        if x in seen:
            continue
        seen.add(x)
        todo.extend(deps.get(x, []))
    return sorted(s for s in seen if not os.path.isabs(s) and os.path.exists(os.path.join(COQDIR, s)))


def parse_assumptions(props_rel, log):
    """re-run coqc on the Props file to collect the Print Assumptions output:
    returns {theorem: [axioms]} in file order"""
    rc, out, dt = sh(["coqc", "-Q", ".", "QV", "-w", "-all", props_rel], cwd=COQDIR, timeout=1200)
    if rc != 0:
        raise Failure("proof", f"{props_rel} does not compile", out[-3000:])
    text = strip_comments(open(os.path.join(COQDIR, props_rel), encoding="utf-8").read())
    names = re.findall(r"Print Assumptions\s+([A-Za-z0-9_']+)\s*\.", text)
    blocks, cur = [], None
    for line in out.split("\n"):
        if line.startswith("Closed under the global context"):
            blocks.append([])
            cur = None
        elif line.startswith("Axioms:"):
            cur = []
            blocks.append(cur)
        elif cur is not None:
            m = re.match(r"^([A-Za-z_][A-Za-z0-9_.']*)\s*:", line)
            if m:
                cur.append(m.group(1))
    if len(blocks) != len(names):
        raise Failure("audit", f"{props_rel}: {len(names)} Print Assumptions commands but {len(blocks)} outputs")
    res = dict(zip(names, blocks))
    for n, axs in res.items():
        for a in axs:
            if a in AXIOM_ALLOW or any(a.startswith(p) or ("." + p) in a for p in AXIOM_ALLOW_PREFIX):
                continue
            raise Failure("audit", f"theorem {n} depends on an axiom outside the allow-list: {a}")
    return res


def theorems_in(props_rel):
    text = strip_comments(open(os.path.join(COQDIR, props_rel), encoding="utf-8").read())
    return re.findall(r"^\s*(?:Theorem|Lemma|Corollary)\s+([A-Za-z0-9_']+)", text, re.M)


def check_props_file_shape(props_rel):
    """Props files hold only statements closed by `exact`; every theorem has a
    Print Assumptions"""
    text = strip_comments(open(os.path.join(COQDIR, props_rel), encoding="utf-8").read())
    thms = theorems_in(props_rel)
    printed = set(re.findall(r"Print Assumptions\s+([A-Za-z0-9_']+)\s*\.", text))
    missing = [t for t in thms if t not in printed]
    if missing:
        raise Failure("audit", f"{props_rel}: theorems without Print Assumptions: {missing}")
    for m in re.finditer(r"Proof\.(.*?)Qed\.", text, re.S):
        body = m.group(1).strip()
        if not re.fullmatch(r"(intros[^.]*\.\s*)?exact\s*\(?.*\)?\.", body, re.S):
            raise Failure("audit", f"{props_rel}: a proof is not of the form `exact <lemma>`: {body[:80]}")
    return thms


def coqchk(targets_logical, log, timeout=3000):
    rc, out, dt = sh(["coqchk", "-silent", "-o", "-Q", ".", "QV"] + targets_logical, cwd=COQDIR, timeout=timeout)
    log(f"[coqchk] rc={rc} {dt:.1f}s\n{out[-3000:]}")
    if rc != 0:
        raise Failure("proof", "coqchk rejects the compiled development", out[-3000:])
    axs = []
    m = re.search(r"Axioms:(.*?)(?:\n\n|\Z)", out, re.S)
    if m:
        for line in m.group(1).split("\n"):
            line = line.strip()
            if line and line != "<none>":
                axs.append(line)
    return axs, dt


# ---------------------------------------------------------------------------
# 3. harness (implementation side)

HARNESS_CFGS = {
    "f64": ["astro"],
    "dec": ["fpdec"],
    "f64-serde": ["astro", "serde"],
    "dec-serde": ["fpdec", "serde"],
}


def build_harness(cfg, log, profile="dev", gen_info=None):
    """copies tools/harness to the build dir (so the path to the repository can
    be redirected), generates its type-dispatch source from the current
    catalogue, builds it with cargo; returns the binary path"""
    with Lock():
        src = os.path.join(VERIF, "tools", "harness")
        dst = os.path.join(BUILD, "harness")
        os.makedirs(dst, exist_ok=True)
        sh(["rsync", "-a", "--delete", "--exclude", "target", "--exclude", "Cargo.lock", src + "/", dst + "/"])
        ct = open(os.path.join(dst, "Cargo.toml"), encoding="utf-8").read().replace('"/repo', '"' + REPO)
        open(os.path.join(dst, "Cargo.toml"), "w", encoding="utf-8").write(ct)
        if not os.path.exists(os.path.join(dst, "Cargo.lock")):
            shutil.copy(os.path.join(REPO, "Cargo.lock"), os.path.join(dst, "Cargo.lock"))
        gdir = os.path.join(BUILD, "harness-gen")
        os.makedirs(gdir, exist_ok=True)
        sys.path.insert(0, os.path.join(VERIF, "tools", "corr"))
        import gen_harness
        if gen_info is None:
            gen_info = json.load(open(os.path.join(COQDIR, "Gen", "gen_info.json"), encoding="utf-8"))
        text = gen_harness.generate(gen_info, VERIF)
        p = os.path.join(gdir, "gen.rs")
        if not os.path.exists(p) or open(p, encoding="utf-8").read() != text:
            open(p, "w", encoding="utf-8").write(text)
        tdir = os.path.join(BUILD, f"target-harness-{cfg}")
        cmd = ["cargo", "build", "--offline", "--quiet", "--features", ",".join(HARNESS_CFGS[cfg])]
        if profile == "release":
            cmd.append("--release")
        rc, out, dt = sh(cmd, cwd=dst, timeout=1800, env={"CARGO_TARGET_DIR": tdir, "QH_GEN_DIR": gdir,
                                                         "RUSTFLAGS": "--cfg quantities_verif -Awarnings"})
        log(f"[harness] cargo build {cfg}/{profile} rc={rc} {dt:.1f}s")
        if rc != 0:
            log(out[-6000:])
            raise Failure("harness", f"the harness does not build against the repository ({cfg})", out[-4000:])
        return os.path.join(tdir, "release" if profile == "release" else "debug", "qh")


def run_harness(binary, lines, log, timeout=1200):
    inp = "\n".join(lines) + "\n"
    rc, out, dt = sh([binary], input=inp, timeout=timeout)
    res = out.split("\n")
    if res and res[-1] == "":
        res.pop()
    if rc != 0 or len(res) != len(lines):
        log(out[-3000:])
        raise Failure("harness", f"harness returned rc={rc} and {len(res)} lines for {len(lines)} operations")
    return res


# ---------------------------------------------------------------------------
# 4. model evaluation inside Coq


def run_coq_cases(tag, header, exprs, log, shard=400, timeout=1500):
    """evaluates each Gallina expression (of type string) with vm_compute in
    coqc; returns the list of result strings, in order"""
    wdir = os.path.join(BUILD, "cases", tag)
    shutil.rmtree(wdir, ignore_errors=True)
    os.makedirs(wdir, exist_ok=True)
    shards = [exprs[i:i + shard] for i in range(0, len(exprs), shard)] or [[]]

    def one(i):
        name = f"cases_{i}.v"
        with open(os.path.join(wdir, name), "w", encoding="utf-8") as f:
            f.write(header + "\nSet Printing Width 1000000.\nSet Printing Depth 1000000.\nOpen Scope string_scope.\n")
            for e in shards[i]:
                f.write(f"Eval vm_compute in ({e}).\n")
        rc, out, dt = sh(["coqc", "-noglob", "-Q", COQDIR, "QV", "-w", "-all", name], cwd=wdir, timeout=timeout)
        if rc != 0:
            return None, out
        res = []
        for line in out.split("\n"):
            m = re.match(r'^\s*= "(.*)"(%string)?\s*$', line)
            if m:
                res.append(m.group(1).replace('""', '"'))
        return res, out

    t0 = time.time()
    with ThreadPoolExecutor(max_workers=NPROC) as ex:
        outs = list(ex.map(one, range(len(shards))))
    results = []
    for i, (res, out) in enumerate(outs):
        if res is None or len(res) != len(shards[i]):
            log(out[-3000:])
            raise Failure("proof", f"evaluation of the model ({tag}, shard {i}) failed in Coq: "
                          + out.strip()[-600:].replace("\n", " "), out[-3000:])
        results.extend(res)
    log(f"[cases] {tag}: {len(exprs)} expressions, {len(shards)} shards, {time.time()-t0:.1f}s")
    return results


# ---------------------------------------------------------------------------
# 5. evidence, findings, verdict


def load_known_findings(pid):
    """entries of known_findings.txt for the property: `known:` lines carry a JSON
    object with a `match`; `fixed:` lines are history and suppress nothing"""
    path = os.path.join(VERIF, "known_findings.txt")
    res = []
    if os.path.exists(path):
        for line in open(path, encoding="utf-8"):
            line = line.strip()
            m = re.match(r"known:\s+property=(\S+)\s+(\{.*\})\s+(.*)$", line)
            if m and m.group(1) == pid:
                o = json.loads(m.group(2))
                o.update({"property": pid, "status": "known", "what": m.group(3)})
                res.append(o)
    return res


def write_evidence(pid, tier, seed, level, coverage, assumptions, wall, violations):
    os.makedirs(os.path.join(VERIF, "evidence"), exist_ok=True)
    ev = {"property_id": pid, "tier": tier, "seed": seed, "level": level, "coverage": coverage,
          "assumptions": assumptions, "wall_s": round(wall, 2), "violations": violations}
    tmp = os.path.join(VERIF, "evidence", f"{pid}.json.tmp")
    with open(tmp, "w", encoding="utf-8") as f:
        json.dump(ev, f, indent=1, ensure_ascii=False)
    os.replace(tmp, os.path.join(VERIF, "evidence", f"{pid}.json"))


def write_replay(pid, obj):
    d = os.path.join(BUILD, "replay")
    os.makedirs(d, exist_ok=True)
    path = os.path.join(d, f"{pid}-{int(time.time())}-{os.getpid()}.json")
    with open(path, "w", encoding="utf-8") as f:
        json.dump(obj, f, indent=1, ensure_ascii=False)
    return path


def cstr(s):
    """python str -> Gallina ustring literal (code points)"""
    if s == "":
        return "([] : ustring)"
    return "([" + "; ".join(str(ord(c)) for c in s) + "]%N : ustring)"
