"""C12 — malformed quantity definitions are rejected at compile time."""
import json, os, re, shutil
import framework as fw
import defgen, macrocorr as mc

PID = "C12"
MODEL_TARGETS = ["Macro/Analyze.vo", "Proofs/C09.vo", "Proofs/DerivedCat.vo"]
PROOF_TARGETS = ["Props/C12.vo", "Pinned/C12.vo"]
PROPS = "Props/C12.v"
COQCHK = ["QV.Props.C12"]
TRUSTED_BASE = [
    "Coq 8.16.1 kernel (coqc); coqchk in the thorough tier",
    "Macro/Analyze.v (hand): model of parse_item / check_struct / get_unit_attrs / UnitDef::parse / ref_unit_def_from_attr / unit_defs_with(out)_scale_from_attrs / parse_args over a token-level description of the item; tied to the code by the "
    "per-run correspondence: every generated definition is run through the repository's real front end (tools/rs2j) under catch_unwind and the verdicts are compared",
    "that a macro abort / an unsatisfied HasRefUnit bound makes rustc fail, and where rustc reports it, is OBSERVED on compiled samples, not proved",
]
LEVEL = ("Coq theorems (Props/C12.v) over the model of the macro front end: one rejection lemma per defect class of the property (not a struct, generic parameters, fields, derivation argument not `ident op ident`, no unit, two reference units, "
         "wrong number or kind of arguments, scale on the reference unit, unit without scale beside a reference unit, scale or prefix without reference unit) and soundness of acceptance (an accepted definition has the analysed shape C11 needs); "
         "every definition of the tree is accepted by the model; every owned derived operator carries the HasRefUnit bounds. On every run each defect class is applied to random well-formed definitions (plus tests/ui) and executed by the repository's "
         "real front end; a sample is compiled by rustc on its own, checking that an error is reported inside the offending definition. Partial: validation of a model against the macro and the compiler.")
LEVEL_NOTE = "Trusted: Coq kernel, the hand model of the front end (validated per run against the real code), rs2j+j2v; rustc's behaviour on aborts and unsatisfied bounds is observed. No axioms."
ASSUMPTIONS = [
    "proc_macro_error's abort! makes compilation fail with an error at the given span (observed on the compiled samples)",
    "the token-level description of an item (kind, number of generic parameters and fields, attribute argument tokens) captures what the front end inspects",
]
CATEGORY = "proof"

RUSTC_ONLY = {"derived_lhs_no_ref_unit", "derived_rhs_no_ref_unit", "derived_res_no_ref_unit"}     # rejected by trait bounds, not by the macro


def run(ctx):
    quick = ctx.tier == "quick"
    os.makedirs(mc.WORK, exist_ok=True)
    defs = mc.generate(ctx, 6 if quick else 60, 0, 3 if quick else 25)
    src = os.path.join(mc.WORK, "c12_defs.rs")
    open(src, "w", encoding="utf-8").write(defgen.module_source([(t, d) for t, d, _, _ in defs]))
    ex = mc.expand(ctx, src)
    # helper definitions (Foo, Bar of derived modules) are not under test: keep one definition per module, in order
    want = [(t + "::", d.name) for t, d, _, _ in defs]
    by = {(q["modpath"], q["ident"]): q for q in ex.get("defs", [])}
    missing = [w for w in want if w not in by]
    if missing:
        raise fw.Failure("tie", f"rs2j expand did not return definitions {missing[:3]}")
    ex["defs"] = [by[w] for w in want]
    ej = os.path.join(mc.WORK, "c12_expand.json")
    json.dump(ex, open(ej, "w"))
    info, model = mc.model_verdicts(ctx, ej, len(defs))
    violations, disagreements, samples, dist = [], [], [], {}
    for i, ((tag, d, kind, defect), inf) in enumerate(zip(defs, info)):
        text = d.source()
        cls = defect if kind == "malformed" else kind
        dist[cls] = dist.get(cls, 0) + 1
        if kind == "malformed" and inf["ok"]:
            violations.append({"what": f"a malformed definition (defect: {defect}) is accepted by the macro", "input": text, "observed": "code generated", "defect": defect})
        if kind != "malformed" and not inf["ok"]:
            violations.append({"what": "a well-formed definition is rejected by the macro", "input": text, "observed": inf.get("error")})
        if model is not None:
            mv = model[i].split()[0] == "true"
            if mv != inf["ok"]:
                disagreements.append({"op": f"definition {tag} ({cls}): " + text[:300], "implementation": "accepted" if inf["ok"] else "rejected", "model": "validate = " + str(mv).lower()})
        if len(samples) < 4 and kind == "malformed":
            samples.append({"defect": defect, "definition": text[:300], "macro": "accepted" if inf["ok"] else "rejected"})
    # the repository's own compile-fail cases
    for name, path in mc.ui_cases():
        ex2 = mc.expand(ctx, path)
        oks = [q["ok"] for q in ex2.get("defs", [])]
        dist["tests/ui"] = dist.get("tests/ui", 0) + 1
        if name in RUSTC_ONLY:
            continue
        if not ex2.get("ok") or not oks:
            continue            # not parseable as a file of definitions (e.g. the non-struct case is rejected by syn itself)
        if all(oks):
            violations.append({"what": f"tests/ui/{name}.rs: every definition is accepted by the macro", "input": path, "observed": "accepted"})
    # rustc on a sample: an error must be reported, inside the definition
    sample = [(t, d, df) for t, d, k, df in defs if k == "malformed"]
    if quick:
        seen, s2 = set(), []
        for x in sample:
            if x[2] not in seen and len(s2) < 6 and ctx.rng.random() < 0.5:
                seen.add(x[2]); s2.append(x)
        sample = s2
    n_rustc = 0
    for tag, d, df in sample:
        n_rustc += 1
        ok, msg = rustc_rejects(ctx, tag, d)
        if not ok:
            violations.append({"what": f"rustc does not reject a malformed definition (defect: {df}) with an error at the definition", "input": d.source(), "observed": msg, "defect": df})
    return {"evaluations": len(defs) + n_rustc, "distinct_nontrivial": len(defs),
            "rule": "each of the 19 defect classes applied to seeded random well-formed definitions (at random attributes), plus well-formed controls and the 13 tests/ui cases: verdict of the repository's own "
                    "front end (run as a library under catch_unwind) compared with the property (malformed => rejected) and with the Coq model's validate; a sample of malformed programs compiled by rustc on its own: "
                    "an error must be reported with its primary span inside the offending definition",
            "samples": samples, "disagreements": disagreements, "violations": violations, "distribution": dist, "exhaustive": False, "extra": {"compiled_by_rustc": n_rustc}}


def rustc_rejects(ctx, tag, d):
    cd = os.path.join(fw.BUILD, "c12crate")
    os.makedirs(os.path.join(cd, "src"), exist_ok=True)
    open(os.path.join(cd, "Cargo.toml"), "w").write(
        f'[package]\nname = "c12crate"\nversion = "0.1.0"\nedition = "2021"\n\n[dependencies]\nquantities = {{ path = "{fw.REPO}" }}\n\n[workspace]\n')
    shutil.copy(os.path.join(fw.REPO, "Cargo.lock"), os.path.join(cd, "Cargo.lock"))
    src = defgen.module_source([(tag, d)])
    lines = src.split("\n")
    # the definition under test is the LAST one of the module (derived definitions are preceded by the helper quantities Foo, Bar)
    lo = max(i for i, l in enumerate(lines) if "#[quantity" in l) + 1
    hi = max(i for i, l in enumerate(lines) if l.strip().startswith("pub struct") or l.strip().startswith("pub enum")) + 1
    open(os.path.join(cd, "src", "lib.rs"), "w", encoding="utf-8").write(src)
    rc, out, dt = fw.sh(["cargo", "check", "--offline", "--quiet", "--message-format=json"], cwd=cd, timeout=900,
                        env={"CARGO_TARGET_DIR": os.path.join(fw.BUILD, "target-c12")})
    if rc == 0:
        return False, "compiles"
    for line in out.split("\n"):
        if not line.startswith("{"):
            continue
        try:
            m = json.loads(line)
        except ValueError:
            continue
        msg = m.get("message") if m.get("reason") == "compiler-message" else None
        if msg and msg.get("level") == "error":
            for sp in msg.get("spans", []):
                if sp.get("is_primary"):
                    if lo <= sp["line_start"] <= hi:
                        return True, msg.get("message", "")[:100]
                    return False, f"error reported at line {sp['line_start']}, outside the definition (lines {lo}..{hi}): {msg.get('message', '')[:100]}"
            if not msg.get("spans"):
                continue
    return False, "no error message with a primary span: " + out[-200:]
