"""Shared by C11 / C12: random definitions pushed through the repository's own
macro code (rs2j expand), the Coq model evaluated on the same definitions, a
python re-derivation of what the property demands, and - for a sample - rustc."""
import json, os, re, shutil
from fractions import Fraction
import framework as fw
import defgen

WORK = os.path.join(fw.BUILD, "c11")

HEADER = ("From Coq Require Import String.\nFrom QV Require Import Rt.Prelude Rt.Show Rt.Amount Macro.Defs Macro.Casing Macro.Impls Macro.Analyze Gen.Prefixes Gen.Catalogue "
          "Macro.Inst Proofs.Instances Proofs.C09 Proofs.DerivedCat.\n"
          "Load \"%s\".\n"
          "Open Scope string_scope.\n"
          "Definition verdict (i : nat) : string :=\n"
          "  match nth_error random_defs i with\n  | None => \"?\"\n  | Some (tag, raw, og) =>\n"
          "      show_bool (validate raw) ++ \" \" ++\n"
          "      match og with\n      | None => \"-\"\n"
          "      | Some g => let e := mkcat_entry (us \"random\") tag raw g in\n"
          "          show_bool (registry_ok e) ++ \" \" ++ show_bool (derived_rows_ok e) ++ \" \" ++ show_bool (wiring_ok g) ++ \" \" ++ show_bool (single_ok g)\n"
          "      end\n  end.\n")


def generate(ctx, n_well, n_perm, per_defect):
    rng = ctx.rng
    defs = []
    k = 0
    for i in range(n_well):
        d = defgen.well_formed(rng, k, derived=(i % 4 == 3)); k += 1
        defs.append((f"w{i}", d, "well-formed", None))
        for j in range(n_perm):
            defs.append((f"w{i}p{j}", defgen.permuted(rng, d), "permuted", f"w{i}"))
    if n_well:
        d = defgen.special_literals(k); k += 1
        defs.append(("wlit", d, "well-formed", None))
        defs.append(("wlitp0", defgen.permuted(rng, d), "permuted", "wlit"))
    for df in defgen.DEFECTS:
        for j in range(per_defect):
            defs.append((f"x_{df}_{j}", defgen.malformed(rng, 1000 + k, df), "malformed", df)); k += 1
    return defs


def ui_cases():
    """the repository's compile-fail tests: every definition in them must be rejected by the macro
    (except the three whose error comes from rustc's trait resolution, not from the macro)"""
    d = os.path.join(fw.REPO, "tests", "ui")
    out = []
    if os.path.isdir(d):
        for f in sorted(os.listdir(d)):
            if f.endswith(".rs"):
                out.append((f[:-3], os.path.join(d, f)))
    return out


def expand(ctx, path):
    rs2j = os.path.join(fw.BUILD, "target-rs2j", "debug", "rs2j")
    rc, out, dt = fw.sh([rs2j, "expand", path], timeout=600)
    i = out.find("{")
    try:
        return json.loads(out[i:out.rindex("}") + 1])
    except Exception:
        raise fw.Failure("tie", f"rs2j expand failed on {path}: {out[-300:]}")


def model_verdicts(ctx, expand_json_path, n):
    vpath = os.path.join(WORK, "Random.v")
    rc, out, dt = fw.sh(["python3", os.path.join(fw.VERIF, "tools", "j2v", "random_main.py"), expand_json_path, vpath], timeout=600)
    if rc != 0:
        raise fw.Failure("tie", "translator: random definitions could not be emitted: " + out[-400:])
    info = json.load(open(vpath + ".json", encoding="utf-8"))
    res = None
    if ctx.model_ok:
        fw.coq_make(["Proofs/C09.vo", "Proofs/DerivedCat.vo", "Macro/Analyze.vo", "Rt/Show.vo"], ctx.log)
        res = fw.run_coq_cases("C11-model", HEADER % vpath, [f"verdict {i}%nat" for i in range(n)], ctx.log, shard=max(40, (n + 15) // 16))
    return info, res


def check_against_declaration(tag, d, gen):
    """python oracle: the generator's output against the declaration as written; returns list of complaints"""
    bad = []
    path, order = d.expected()
    if gen["path"] != path:
        bad.append(f"code path {gen['path']}, expected {path}")
    want_variants = [defgen.camel_of(u.ident) for u in order]
    if sorted(gen["VARIANTS"]) != sorted(want_variants):
        bad.append(f"unit set {gen['VARIANTS']} differs from the declared {want_variants}")
        return bad
    if gen["VARIANTS"] != want_variants:
        bad.append(f"iteration order {gen['VARIANTS']}, expected {want_variants}")
    for u in d.units:
        v = defgen.camel_of(u.ident)
        if gen["names"].get(v) != u.ident.replace("_", " "):
            bad.append(f"name of {v}: {gen['names'].get(v)!r}")
        if gen["symbols"].get(v) != u.symbol:
            bad.append(f"symbol of {v}: {gen['symbols'].get(v)!r} instead of {u.symbol!r}")
        if path != "PSingle" and gen["prefixes"].get(v) != u.prefix:
            bad.append(f"prefix of {v}: {gen['prefixes'].get(v)} instead of {u.prefix}")
        if path == "PRef":
            sc = gen["scales"].get(v)
            if sc is None:
                bad.append(f"no scale for {v}")
            else:
                neg, digits, exp, is_int = sc
                val = Fraction(int(digits)) * Fraction(10) ** int(exp) * (-1 if neg else 1)
                if val != u.val:
                    bad.append(f"scale of {v}: literal value {val} instead of {u.val}")
                if u.kind == "unit" and bool(is_int) != (re.fullmatch(r"[0-9]+", u.lit) is not None):
                    bad.append(f"scale of {v}: integer/float form of the literal {u.lit} not preserved")
    want_consts = sorted((defgen.snake_of(defgen.camel_of(u.ident)), defgen.camel_of(u.ident)) for u in d.units)
    if sorted(tuple(c) for c in gen["consts"]) != want_consts:
        bad.append(f"constants {gen['consts']} instead of {want_consts}")
    if path == "PRef":
        ref = [u for u in d.units if u.kind == "ref_unit"][0]
        if gen["ref_unit"] != defgen.camel_of(ref.ident):
            bad.append(f"REF_UNIT {gen['ref_unit']}")
    # operator set
    q = d.name
    impls = {(t, s, r, o) for t, s, r, o, _ in gen["impls"]}
    basic = [("Mul", "AmountT", q, q), ("Mul", q, "AmountT", q), ("Div", q, "AmountT", q), ("Add", q, q, q), ("Sub", q, q, q), ("Div", q, q, "AmountT"),
             ("Mul", "AmountT", q + "Unit", q), ("Mul", q + "Unit", "AmountT", q)]
    for b in basic:
        if b not in impls:
            bad.append(f"missing operator impl {b}")
    if d.qargs:
        a, op, b = d.qargs.split()
        exp = []
        if op == "*":
            exp += [("Mul", a, b, q)] + ([("Mul", b, a, q)] if a != b else []) + [("Div", q, b, a)] + ([("Div", q, a, b)] if a != b else [])
        else:
            exp += [("Div", a, b, q), ("Mul", q, b, a), ("Mul", b, q, a), ("Div", a, q, b)]
        for e in exp:
            if e not in impls:
                bad.append(f"missing derived operator impl {e}")
        derived_owned = {i for i in impls if i[0] in ("Mul", "Div") and not i[1].startswith("&") and not i[2].startswith("&")
                         and i not in basic and not i[2].startswith("Rate<")}
        extra = derived_owned - set(exp)
        if extra:
            bad.append(f"unexpected derived operator impls {sorted(extra)}")
    return bad
