"""C03 — sum, difference and ratio of like quantities honour units."""
from fractions import Fraction
import framework as fw
import kcommon as kc
from c01 import U, EPS, in_normal, NORMAL_MIN

PID = "C03"
MODEL_TARGETS = ["Proofs/Eval.vo", "Amount/F64.vo", "Amount/Dec.vo", "Gen/Catalogue.vo"]
PROOF_TARGETS = ["Props/C03.vo", "Pinned/C03.vo", "Props/Accuracy.vo", "Pinned/Accuracy.vo", "Props/AccuracyDec.vo", "Pinned/AccuracyDec.vo", "Props/Programs.vo", "Pinned/Programs.vo"]
PROPS = ["Props/C03.v", "Props/Accuracy.v", "Props/AccuracyDec.v", "Props/Programs.v"]
COQCHK = ["QV.Props.C03", "QV.Props.Accuracy", "QV.Props.AccuracyDec", "QV.Props.Programs"]
TRUSTED_BASE = [
    "Coq 8.16.1 kernel (coqc); coqchk in the thorough tier",
    "translator rs2j+j2v: HasRefUnit::add/sub/div/equiv_amount, LinearScaledUnit::ratio and the generated Add/Sub/Div<Self> forwarding impls are translated from the current source (Gen/Kernels.v)",
    "Macro/Inst.v (hand): wiring of templates into instances, checked against the impl table (wiring_ok)",
    "amount types abstract in the structural theorems (no axiom)",
]
LEVEL = ("Coq theorems (Props/C03.v), generic in amount type and instance: a+b, a-b, a/b use the left amount as is and the right operand converted to the left unit (operand order kept), results of + and - carry the left unit, "
         "equal units give exactly the amount type's own operation, and the generated operators of every reference-unit type are these kernels. Re-translated from source on every run. "
         "Magnitudes are additionally judged on the implementation for ALL ordered unit pairs with exact rationals (testing, supporting). In the binary floating-point configuration the magnitude equations with explicit rounding factors are theorems (ACC_C03_add/sub/ratio in Props/Accuracy.v); in the decimal configuration (Props/AccuracyDec.v) the sum and difference are exact apart from the conversion of the right operand (error <= 5e-19 (|b|+1)|s_u|), and the ratio is within 5e-19 of a / b' (DEC_C03_add/sub/div)."
         " Composed over whole programs (Props/Programs.v, axiom-free): for every amount type with exact arithmetic, any tree of constructions, conversions, sums, differences and scalings by numbers run through the translated kernels carries the statically determined unit and denotes exactly its abstract physical magnitude, and ratio / == / partial ordering of two results are the abstract ratio, equality and order (PROG_refines, PROG_ratio, PROG_eq, PROG_cmp; induction over the program); instantiated with an exact rational amount type on every predefined quantity with a reference unit (PROG_catalogue, PROG_not_vacuous).")
LEVEL_NOTE = "Trusted: Coq kernel, translator rs2j+j2v, Macro/Inst.v wiring (cross-checked), hand models of binary64/fpdec in the correspondence; no axioms in the structural theorems; the accuracy theorems rest on Flocq and the stdlib real-number axioms."
ASSUMPTIONS = [
    "Rust evaluates `self.amount() + rhs.equiv_amount(self.unit())` as the translated term (validated by the correspondence run)",
    "f64 = IEEE binary64 (Flocq), Decimal = Amount/DecModel.v in the correspondence",
]


def run(ctx):
    kr = kc.KRun(ctx, PID)
    quick = ctx.tier == "quick"
    rng = ctx.rng
    for be in kc.BACKENDS:
        types = kc.all_types(ctx.gen_info, be, paths=("PRef",))
        scales = kc.scales_of(ctx, be, types)
        ops, meta = [], []
        if ctx.replay:
            for b, line in kc.replay_ops(ctx):
                if b == be:
                    ops.append(line); meta.append(("replay",))
        base = kc.structured_pool(be)
        spec = kc.special_pool(be)
        zero = spec[0]
        for t in ([] if ctx.replay else types):
            for u in range(t.n):
                for v in range(t.n):
                    n = 2 if quick else 16
                    pairs = [(rng.choice(base), rng.choice(base)) for _ in range(n)]
                    pairs.append((zero, rng.choice(base)) if rng.random() < 0.5 else (rng.choice(base), kc.random_amount(be, rng)))
                    if rng.random() < (0.1 if quick else 1.0):
                        pairs.append((rng.choice(spec), rng.choice(base + spec)))
                    for a, b in pairs:
                        for o in ("add", "sub", "div"):
                            ops.append(f"{o} {t.name} {a} {u} {b} {v}"); meta.append((o, t, a, u, b, v))
                        ops.append(f"equiv {t.name} {b} {v} {u}"); meta.append(("equiv",))
                        kr.count(f"{be}:{'same' if u == v else 'diff'}-unit:{kc.amount_class(be, a)}/{kc.amount_class(be, b)}")
        impl = kr.run(be, ops)
        # second round: the amount type's own operation on (a, b converted by the implementation)
        ops2, idx2 = [], []
        for i, m in enumerate(meta):
            if m[0] in ("add", "sub", "div"):
                j = i + {"add": 3, "sub": 2, "div": 1}[m[0]]
                bp = impl[j]
                if bp == "PANIC":
                    continue
                if bp == "NaN":
                    bp = "7ff8000000000000"
                ops2.append(f"{m[0]} AMOUNT {m[2]} 0 {bp} 0"); idx2.append(i)
        impl2 = kr.run(be, ops2, tag=f"{PID}-{be}-aux") if ops2 else []
        ref = dict(zip(idx2, impl2))
        for i, (op, m, r) in enumerate(zip(ops, meta, impl)):
            if m[0] not in ("add", "sub", "div"):
                continue
            o, t, a, u, b, v = m
            sc, _, _ = scales[t.name]
            kr.nontrivial.add((be, o, t.name, u, v))
            j = i + {"add": 3, "sub": 2, "div": 1}[o]
            bp = impl[j]
            if bp == "PANIC":
                if r != "PANIC":
                    kr.violation(be, f"{o}: conversion of the right operand panics but the operation does not", op, r)
                continue
            want = ref[i]
            if o != "div" and want != "PANIC":
                want = f"{want.split()[0]} {u}"
            if r != want:
                kr.violation(be, f"{o} of {t.name}: not the amount type's own operation on (left amount, right operand converted to the left unit) "
                             "in the left operand's unit", op, r, want)
                continue
            if r == "PANIC":
                continue
            va, vb, vbp = kc.value(be, a), kc.value(be, b), kc.value(be, bp)
            vr = kc.value(be, r.split()[0])
            if None in (va, vb, vbp, vr) or sc[u] is None or sc[v] is None:
                continue
            Ma, Mb = va * sc[u], vb * sc[v]
            if be == "f64":
                if u != v and not (in_normal(sc[v] / sc[u]) and in_normal(vb * sc[v] / sc[u]) and (vb == 0 or abs(vb) >= NORMAL_MIN)):
                    continue
                if o in ("add", "sub"):
                    exact = Ma + Mb if o == "add" else Ma - Mb
                    bound = U * abs(exact) + (1 + U) * ((1 + U) ** 2 - 1) * abs(Mb)
                    got = vr * sc[u]
                else:
                    if vb == 0 or not in_normal(va / vbp if vbp else 0):
                        continue
                    exact = Ma / Mb
                    bound = ((1 + U) / (1 - U) ** 2 - 1) * abs(exact)
                    got = vr
            else:
                if o in ("add", "sub"):
                    exact = Ma + Mb if o == "add" else Ma - Mb
                    bound = sc[u] * EPS * (1 + abs(vb)) if u != v else 0
                    got = vr * sc[u]
                else:
                    if vb == 0 or vbp == 0:
                        continue
                    exact = Ma / Mb
                    bpp = vb * sc[v] / sc[u]
                    bound = EPS + (abs(va) * EPS * (1 + abs(vb)) / (abs(vbp) * abs(bpp)) if u != v else 0)
                    got = vr
            if abs(got - exact) > bound:
                kr.violation(be, f"{o}: physical magnitude of the result is not the exact {o} of the operands' magnitudes within rounding", op, r,
                             f"|{kc.ff(got)} - {kc.ff(exact)}| <= {kc.ff(bound)}", error=kc.ff(abs(got - exact)))
    return kr.result("every type with reference unit x ALL ordered unit pairs x amount pairs: a+b, a-b, a/b compared (i) exactly with the amount type's "
                     "own operation applied to the left amount and the right operand as converted by the implementation (unit = left unit), and (ii) with the "
                     "exact rational sum/difference/ratio of the magnitudes within the composed rounding bound; non-trivial = distinct (back-end, op, type, unit pair)",
                     exhaustive=True)
