"""Seeded generator of quantity definitions for C11 / C12: well-formed
definitions (unit count, identifiers with underscores / digits / mixed case,
symbols incl. non-ASCII and duplicates, integer / float / exponent literal
forms, SI prefixes, doc strings, attribute order, with / without reference
unit, basic / derived) and malformed ones obtained by applying one defect class
of the property to a well-formed definition."""
import random
from fractions import Fraction

PREFIXES = {"QUECTO": -30, "RONTO": -27, "YOCTO": -24, "ZEPTO": -21, "ATTO": -18, "FEMTO": -15, "PICO": -12, "NANO": -9, "MICRO": -6,
            "MILLI": -3, "CENTI": -2, "DECI": -1, "NONE": 0, "DECA": 1, "HECTO": 2, "KILO": 3, "MEGA": 6, "GIGA": 9, "TERA": 12,
            "PETA": 15, "EXA": 18, "ZETTA": 21, "YOTTA": 24, "RONNA": 27, "QUETTA": 30}
WORDS = ["Meter", "Kilo", "per", "Second", "squared", "Sea", "Mile", "Bed", "Flop", "Unit", "X", "AB", "Micro", "Nano", "a", "of", "Cubic", "Yard",
         "Foot", "Inch", "Watt", "Hour", "Bit", "Byte", "Day", "One", "Two", "XMLUnit", "Pop", "Q"]
SYMS = ["m", "km", "µm", "m²", "°C", "M☉", "x", "y", "kWh", "ft", "in", "Ω", "½", "a b", "Å", "s", "ms", "u1", "u2", "kg", "lb"]


def ident(rng, used):
    while True:
        n = rng.randint(1, 3)
        parts = [rng.choice(WORDS) for _ in range(n)]
        if rng.random() < 0.2:
            parts.append(str(rng.randint(1, 12)))
        s = "_".join(parts)
        if rng.random() < 0.1:
            s = s.replace("_", "", 1)
        if (s not in used and camel_of(s) not in {camel_of(x) for x in used} and snake_of(camel_of(s)) not in {snake_of(camel_of(x)) for x in used}
                and not s[0].isdigit() and s not in ("a", "of", "per")):
            used.add(s)
            return s


def camel_words(ident):
    words, cur, prev = [], "", None
    for i, c in enumerate(ident):
        nxt = ident[i + 1] if i + 1 < len(ident) else None
        if c == "_":
            if cur:
                words.append(cur)
            cur, prev = "", None
            continue
        b = False
        if prev is not None:
            b = ((prev.islower() and c.isupper()) or (prev.islower() and c.isdigit()) or (prev.isupper() and c.isdigit())
                 or (prev.isdigit() and c.islower()) or (prev.isdigit() and c.isupper())
                 or (prev.isupper() and c.isupper() and nxt is not None and nxt.islower()))
        if b:
            words.append(cur)
            cur = c
        else:
            cur += c
        prev = c
    if cur:
        words.append(cur)
    return words


def camel_of(ident):
    return "".join(w[:1].upper() + w[1:].lower() for w in camel_words(ident))


def snake_of(variant):
    return "_".join(w.upper() for w in camel_words(variant))


TINY = ["0.00000000000000001", "0.000000000000000001", "1e-17", "1e-18", "1e-19", "2e-17", "0.0000000000000000001", "3e-18", "1.5e-17", "1e-30", "2e-30"]
CLOSE = ["1.0000000000000002", "1.0000000000000004", "0.9999999999999999", "0.9999999999999998", "1.000000000000001", "2.0000000000000004", "2.000000000000001",
         "1000.0000000000001", "1000.0000000000002", "999.9999999999999"]


# distinct in f64 and in the decimal type, but colliding under a reduced-precision sort key (f32's 24-bit
# significand, truncation to an integer): an order by scale has to separate them
NEAR = ["31557600.0", "31557601.0", "31557602.0", "1000000001.0", "1000000002.0", "1000000003.0", "16777216.0", "16777217.0", "16777218.0",
        "0.3048", "0.30480001", "0.30480002", "1.00000001", "1.00000002", "2.4", "2.5", "2.6", "1000.4", "1000.6"]


def literal(rng, regime=None):
    """(text, exact value); values distinct enough in f64 unless a tie is wanted.
    Regimes: scales below the machine epsilon (absolute differences < 2.2e-16) and
    scales one or two ulps apart — an order by scale has to separate them too."""
    if regime == "tiny":
        t = rng.choice(TINY)
        return t, Fraction(t)
    if regime == "close":
        t = rng.choice(CLOSE)
        return t, Fraction(t)
    if regime == "near":
        t = rng.choice(NEAR)
        return t, Fraction(t)
    form = rng.choice(["int", "float", "float", "exp", "dot", "frac"])
    if form == "int":
        v = rng.choice([1, 2, 5, 12, 60, 100, 1000, 3600, 86400, 1000000, 1024])
        return str(v), Fraction(v)
    if form == "dot":
        v = rng.choice([1, 10, 1000, 250, 4096])
        return f"{v}.", Fraction(v)
    if form == "exp":
        m, e = rng.choice([1, 2.5, 1.25]), rng.randint(-9, 9)
        t = f"{m}e{e}"
        return t, Fraction(str(m)) * Fraction(10) ** e
    if form == "frac":
        t = rng.choice(["0.001", "0.000001", "0.0254", "0.3048", "0.45359237", "0.125", "0.5", "0.01", "0.333333333333333333", "2.54", "1.0", "1.00"])
        return t, Fraction(t)
    d = rng.randint(1, 99999)
    k = rng.randint(0, 6)
    t = f"{d // 10 ** k}.{d % 10 ** k:0{k}d}" if k else f"{d}.0"
    return t, Fraction(t)


class Unit:
    def __init__(self, ident, symbol, prefix=None, lit=None, val=None, doc=None, kind="unit"):
        self.ident, self.symbol, self.prefix, self.lit, self.val, self.doc, self.kind = ident, symbol, prefix, lit, val, doc, kind

    def attr(self):
        args = [self.ident, '"%s"' % self.symbol]
        if self.prefix:
            args.append(self.prefix)
        if self.lit is not None:
            args.append(self.lit)
        if self.doc is not None:
            args.append('"%s"' % self.doc)
        return f"#[{self.kind}({', '.join(args)})]"


class Def:
    def __init__(self, name, units, derived=None, struct="pub struct {name} {{}}", qargs=None):
        self.name, self.units, self.derived, self.struct, self.qargs = name, units, derived, struct, qargs

    def source(self):
        q = "#[quantity]" if self.qargs is None else f"#[quantity({self.qargs})]"
        return "\n    ".join([q] + [u.attr() for u in self.units] + ["/// generated", self.struct.format(name=self.name)])

    def fits_decimal(self):
        """every scale has at most 18 fractional digits (fpdec's Dec! rejects longer literals at compile time)"""
        return all(u.val is None or (10 ** 18 * u.val).denominator == 1 for u in self.units)

    def expected(self):
        """(path, [units in iteration order]) re-derived from the declaration"""
        ref = [u for u in self.units if u.kind == "ref_unit"]
        units = [u for u in self.units if u.kind == "unit"]
        if ref:
            seq = [(Fraction(1), ref[0])] + [(u.val, u) for u in units]
            seq.sort(key=lambda x: f64_key(x[0]))
            order = [u for _, u in seq]
        else:
            order = sorted(units, key=lambda u: [ord(c) for c in u.ident.replace("_", " ")])
        path = "PSingle" if len(order) == 1 else ("PRef" if ref else "PNoRef")
        return path, order


def f64_key(fr):
    return float(fr)      # the macro sorts by the f64 value of the literal


def well_formed(rng, k, with_ref=None, n_units=None, derived=False):
    used = set()
    name = f"Q{k}"
    with_ref = rng.random() < 0.7 if with_ref is None else with_ref
    n = n_units if n_units is not None else rng.choice([1, 2, 2, 3, 4, 5, 8, 12, 20])
    if with_ref:
        n = max(n, 2)          # a #[ref_unit] alone is rejected: at least one #[unit] is required
    units = []
    syms = list(SYMS)
    rng.shuffle(syms)
    if with_ref:
        rp = rng.choice([None, "NONE", "KILO", "MILLI"])
        units.append(Unit(ident(rng, used), syms.pop(), rp, None, Fraction(1), rng.choice([None, "the reference"]), kind="ref_unit"))
        vals = set()
        regime = rng.choice([None, None, None, "tiny", "close", "near"])
        for _ in range(max(0, n - 1)):
            lit, val = literal(rng, regime if rng.random() < 0.8 else None)
            if rng.random() < 0.15:
                lit, val = rng.choice([("1", Fraction(1)), ("1.0", Fraction(1)), ("1e0", Fraction(1))])      # ties with the reference unit
            pfx = None
            if rp is not None and rng.random() < 0.4:
                # an SI-prefixed unit consistent with the reference unit's prefix
                p = rng.choice(list(PREFIXES))
                e = PREFIXES[p] - PREFIXES[rp]
                if -12 <= e <= 12:
                    pfx, val = p, Fraction(10) ** e
                    # an unsuffixed integer literal is typed i32 by rustc before `as f64`: beyond i32 write a float literal
                    lit = ((str(10 ** e) + ("" if e <= 9 else ".")) if e >= 0 else ("0." + "0" * (-e - 1) + "1")) if rng.random() < 0.7 else f"1e{e}"
            sym = syms.pop() if syms and rng.random() < 0.9 else rng.choice(SYMS)     # sometimes a duplicate symbol
            units.append(Unit(ident(rng, used), sym, pfx, lit, val, rng.choice([None, None, "doc " + sym])))
    else:
        for _ in range(n):
            sym = syms.pop() if syms and rng.random() < 0.9 else rng.choice(SYMS)
            units.append(Unit(ident(rng, used), sym, None, None, None, rng.choice([None, "a doc"])))
    rng.shuffle(units)
    d = Def(name, units)
    if with_ref and derived:
        d.qargs = rng.choice(["Foo * Bar", "Foo / Bar", "Foo * Foo", "AmountT / Bar", "Bar / Foo"])
    return d


def special_literals(k):
    """a fixed definition whose scale literals exercise the literal handling: 18 fractional digits (more
    significant digits than a double holds), a long exact decimal, exponent forms, trailing zeros"""
    lits = ["0.333333333333333333", "0.277777777777777778", "1.000000000000000001", "0.45359237", "2.5e-7", "1e6", "1000.000", "12"]
    units = [Unit("Base_Unit", "bu", None, None, Fraction(1), None, kind="ref_unit")]
    for i, t in enumerate(lits):
        units.append(Unit(f"Lit_{i}", f"l{i}", None, t, Fraction(t), None))
    return Def(f"Q{k}", units)


def permuted(rng, d):
    units = list(d.units)
    rng.shuffle(units)
    return Def(d.name, units, d.derived, d.struct, d.qargs)


DEFECTS = ["no_unit", "two_ref_units", "scale_on_ref_unit", "unit_without_scale", "scale_without_ref", "prefix_without_ref",
           "too_few_args", "too_many_args", "wrong_kind_symbol", "wrong_kind_ident", "struct_fields", "generics", "generics_lifetime",
           "not_struct", "bad_derivation_op", "bad_derivation_paren", "bad_derivation_path", "ref_unit_only", "missing_comma_garbage"]


def malformed(rng, k, defect):
    """a definition with exactly one defect of the given class"""
    if defect in ("scale_without_ref", "prefix_without_ref"):
        d = well_formed(rng, k, with_ref=False, n_units=rng.choice([2, 3, 4]))
        u = rng.choice(d.units)
        if defect == "scale_without_ref":
            u.lit, u.val = "2.5", Fraction(5, 2)
        else:
            u.prefix = "KILO"
        return d
    d = well_formed(rng, k, with_ref=True, n_units=rng.choice([2, 3, 4, 6]))
    ref = [u for u in d.units if u.kind == "ref_unit"][0]
    others = [u for u in d.units if u.kind == "unit"]
    if defect == "no_unit":
        d.units = []
    elif defect == "ref_unit_only":
        d.units = [ref]
    elif defect == "two_ref_units":
        u = rng.choice(others)
        u.kind, u.lit, u.val = "ref_unit", None, None
    elif defect == "scale_on_ref_unit":
        ref.lit = "1.0"
    elif defect == "unit_without_scale":
        rng.choice(others).lit = None
    elif defect == "too_few_args":
        u = rng.choice(d.units)
        u.attr = lambda u=u: f"#[{u.kind}({u.ident})]"
    elif defect == "too_many_args":
        u = rng.choice(others)
        u.attr = lambda u=u: f'#[{u.kind}({u.ident}, "{u.symbol}", KILO, {u.lit}, "doc", "more")]'
    elif defect == "wrong_kind_symbol":
        u = rng.choice(others)
        u.attr = lambda u=u: f"#[{u.kind}({u.ident}, {u.ident}_sym, {u.lit})]"
    elif defect == "wrong_kind_ident":
        u = rng.choice(others)
        u.attr = lambda u=u: f'#[{u.kind}("{u.ident}", "{u.symbol}", {u.lit})]'
    elif defect == "missing_comma_garbage":
        u = rng.choice(others)
        u.attr = lambda u=u: f'#[{u.kind}({u.ident}, "{u.symbol}", {u.lit} "doc")]'
    elif defect == "struct_fields":
        d.struct = "pub struct {name} {{ x: i32 }}"
    elif defect == "generics":
        d.struct = "pub struct {name}<T> {{}}"
    elif defect == "generics_lifetime":
        d.struct = "pub struct {name}<'a> {{}}"
    elif defect == "not_struct":
        d.struct = "pub enum {name} {{}}"
    elif defect == "bad_derivation_op":
        d.qargs = "Foo + Bar"
    elif defect == "bad_derivation_paren":
        d.qargs = "(Foo * Bar)"
    elif defect == "bad_derivation_path":
        d.qargs = "a::Foo / Bar"
    return d


def module_source(defs_with_tags):
    """one module per definition: (tag, Def)"""
    out = ["// GENERATED by tools/corr/defgen.py", "#![allow(warnings)]"]
    for tag, d in defs_with_tags:
        extra = ""
        if d.qargs and ("Foo" in d.qargs or "Bar" in d.qargs):
            extra = ('#[quantity]\n    #[ref_unit(Fu, "fu")]\n    #[unit(Kilofu, "kfu", 1000.)]\n    pub struct Foo {}\n    '
                     '#[quantity]\n    #[ref_unit(Bu, "bu")]\n    #[unit(Millibu, "mbu", 0.001)]\n    pub struct Bar {}\n    ')
        out.append(f"pub mod {tag} {{\n    use quantities::prelude::*;\n    {extra}{d.source()}\n}}")
    return "\n".join(out) + "\n"
