"""Shared by C04 / C05: the derived operator instances of the current tree and
the step-by-step re-computation of a derived product / quotient with the
implementation's own amount operations (so that the expected result is exact)."""
from fractions import Fraction
import framework as fw
import kcommon as kc
import gen_harness


def rows_for(info, be, modes=("vv",)):
    names = {e["name"]: e for e in info["entries"]}
    out = []
    for r in gen_harness.derived_rows(info):
        if r["mode"] not in modes:
            continue
        if be == "dec" and r["crate"] == "astronomical":
            continue
        out.append(r)
    return out, names


def n_units(names, tname):
    return 1 if tname == "AMOUNT" else len(names[tname]["VARIANTS"])


def eligible_units(names, tname):
    """indices of the units _fit may choose, in iteration order"""
    if tname == "AMOUNT":
        return [0]
    e = names[tname]
    take_all = e["ref_unit"] not in e["prefixes"]
    return [i for i, v in enumerate(e["VARIANTS"]) if take_all or v in e["prefixes"]]


def scale_tok(be, scales, tname, u):
    if tname == "AMOUNT":
        return "3ff0000000000000" if be == "f64" else "1/0"
    return scales[tname][2][u]


def scale_val(be, scales, tname, u):
    if tname == "AMOUNT":
        return Fraction(1)
    return scales[tname][0][u]


def nan_fix(be, tok):
    return "7ff8000000000000" if tok == "NaN" else tok


class Stepper:
    """re-computes derived operations in rounds of auxiliary amount operations on
    the implementation:  sc = su op sv ; ab = a op b ; m = ab * sc ; x = m / s_w"""

    def __init__(self, kr, be, scales, names):
        self.kr, self.be, self.scales, self.names = kr, be, scales, names

    def op_line(self, is_mul, x, y):
        # x op y on bare amounts through the dimensionless quantity's scalar operators
        return f"smul_l AMOUNT {x} {y} 0" if is_mul else f"sdiv AMOUNT {y} {x} 0"

    def expected(self, cases, tag):
        """cases: list of dict(trait, s, r, o, a, u, b, v); fills c['want'] (canonical result line)
        and c['path'] ('natural' | 'fit'), c['sc'], c['ab'], c['m'], c['w']"""
        be, kr = self.be, self.kr
        ops = []
        for c in cases:
            mul = c["trait"] == "Mul"
            su, sv = scale_tok(be, self.scales, c["s"], c["u"]), scale_tok(be, self.scales, c["r"], c["v"])
            ops.append(self.op_line(mul, su, sv))
            ops.append(self.op_line(mul, c["a"], c["b"]))
        res = kr.run(be, ops, tag=tag + "-a") if ops else []
        ops2, idx2 = [], []
        for i, c in enumerate(cases):
            sc, ab = res[2 * i], res[2 * i + 1]
            c["sc"], c["ab"] = sc, ab
            if sc == "PANIC":
                c["want"], c["path"] = "PANIC", "panic"
                continue
            sct = sc.split()[0]
            scv = kc.value(be, sct)
            nu = n_units(self.names, c["o"])
            nat = None
            if scv is not None:
                for k in range(nu):
                    if scale_val(be, self.scales, c["o"], k) == scv:
                        nat = k
                        break
            if nat is not None:
                c["path"], c["w"] = "natural", nat
                c["want"] = "PANIC" if ab == "PANIC" else f"{ab.split()[0]} {nat}"
                continue
            c["path"] = "fit"
            if ab == "PANIC":
                c["want"] = "PANIC"
                continue
            ops2.append(f"smul_r AMOUNT {nan_fix(be, sct)} {nan_fix(be, ab.split()[0])} 0"); idx2.append(i)
        res2 = kr.run(be, ops2, tag=tag + "-b") if ops2 else []
        ops3, idx3 = [], []
        for i, r in zip(idx2, res2):
            c = cases[i]
            if r == "PANIC":
                c["want"] = "PANIC"
                continue
            m = r.split()[0]
            c["m"] = m
            if c["o"] == "AMOUNT":
                c["w"], c["want"] = 0, f"{m} 0"
                continue
            mv = kc.value(be, m)
            el = eligible_units(self.names, c["o"])
            first = el[0]
            sfirst = scale_val(be, self.scales, c["o"], first)
            w = first
            if mv is not None:
                for k in el[1:]:
                    sk = scale_val(be, self.scales, c["o"], k)
                    if sk > sfirst and sk <= mv:
                        w = k
            elif be == "f64" and m == "7ff0000000000000":      # +inf: every scale is <= inf
                for k in el[1:]:
                    if scale_val(be, self.scales, c["o"], k) > sfirst:
                        w = k
            c["w"] = w
            ops3.append(f"sdiv AMOUNT {scale_tok(be, self.scales, c['o'], w)} {nan_fix(be, m)} 0"); idx3.append(i)
        res3 = kr.run(be, ops3, tag=tag + "-c") if ops3 else []
        for i, r in zip(idx3, res3):
            c = cases[i]
            c["want"] = "PANIC" if r == "PANIC" else f"{r.split()[0]} {c['w']}"
        return cases
