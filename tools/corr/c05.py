"""C05 — derived results use the natural or the best-fitting unit."""
from fractions import Fraction
import framework as fw
import kcommon as kc
import derived_common as dc

PID = "C05"
MODEL_TARGETS = ["Proofs/Eval.vo", "Amount/F64.vo", "Amount/Dec.vo", "Gen/Catalogue.vo"]
PROOF_TARGETS = ["Props/C05.vo", "Pinned/C05.vo", "Props/Accuracy.vo", "Pinned/Accuracy.vo", "Props/AccuracyDec.vo", "Pinned/AccuracyDec.vo"]
PROPS = ["Props/C05.v", "Props/Accuracy.v", "Props/AccuracyDec.v"]
COQCHK = ["QV.Props.C05", "QV.Props.Accuracy", "QV.Props.AccuracyDec"]
TRUSTED_BASE = [
    "Coq 8.16.1 kernel (coqc; vm_compute for the facts about every derivation); coqchk in the thorough tier",
    "translator rs2j+j2v: HasRefUnit::_fit and unit_from_scale translated from src/lib.rs (let mut it / it.next() by SSA renaming, filter/last as list functions); the Mul/Div templates translated from the repository's own codegen() output; every generated impl checked to be an instance of its template",
    "Macro/Inst.v, Macro/Impls.v (hand): instances and the derived impl set, cross-checked against the generated impl table",
    "binary64 = Flocq, Decimal = Amount/DecModel.v for the computed reference-unit facts (stdlib real-number axioms through Flocq)",
]
LEVEL = ("Coq theorems (Props/C05.v), generic in amount type and instances: every generated product/quotient is one normal form; if a unit of the result has the combined scale (amount-type equality) the FIRST such unit "
         "is used with exactly op(a,b) as amount; otherwise _fit: the exact specification of _fit for every amount (last eligible unit - SI-prefixed ones iff the reference unit is SI-prefixed - whose scale exceeds the "
         "first eligible unit's and is <= the magnitude, boundary included, else the first eligible unit; NaN/zero/negative fall to the first), totality (reference unit eligible) and membership of the result unit in "
         "the registry. For every derivation and operator instance of the tree, in both amount types, reference-unit operands give the reference unit (computed by the kernel). The amounts on both paths are also bounded in magnitude in the binary configuration (ACC_C04_natural_unit / ACC_C04_fit_path, Props/Accuracy.v) and in the decimal configuration (DEC_C04_natural_unit / DEC_C04_fit_path, Props/AccuracyDec.v).")
LEVEL_NOTE = "Trusted: Coq kernel, translator rs2j+j2v (incl. the iterator-to-list reading of filter/next/last), Macro/Inst.v + Macro/Impls.v (cross-checked), Flocq/fpdec model in computed facts; stdlib real-number axioms via Flocq."
ASSUMPTIONS = [
    "Rust iterator adaptors filter / next / last / find behave as the list functions they are translated to (validated by the boundary sweep on every result type)",
    "f64 = IEEE binary64 (Flocq), Decimal = Amount/DecModel.v in the correspondence",
]


def round_to(be, fr):
    """the amount nearest to the rational (f64: correctly rounded; decimal: truncated to as many
    fractional digits <= 18 as keep the coefficient inside i128)"""
    if be == "f64":
        return kc.f64_round(fr)
    for n in range(18, -1, -1):
        v = fr * 10 ** n
        q = v.numerator // v.denominator
        if abs(q) < 2 ** 126:
            return kc.dec_tok(q, n)
    return kc.dec_tok(0, 0)


def neighbours(be, tok):
    if be == "f64":
        return [kc.f64_next(tok, -1), tok, kc.f64_next(tok, 1)]
    c, n = tok.split("/")
    c, n = int(c), int(n)
    return [kc.dec_tok(c - 1, n), tok, kc.dec_tok(c + 1, n)]          # |c| < 2^126, so the neighbours fit i128 too


def run(ctx):
    kr = kc.KRun(ctx, PID)
    quick = ctx.tier == "quick"
    rng = ctx.rng
    for be in kc.BACKENDS:
        rows, names = dc.rows_for(ctx.gen_info, be)
        types = kc.all_types(ctx.gen_info, be, paths=("PRef",))
        scales = kc.scales_of(ctx, be, types)
        st = dc.Stepper(kr, be, scales, names)
        cases = []
        if ctx.replay:
            for b, line in kc.replay_ops(ctx):
                p = line.split()
                if b == be and p[0] == "dop":
                    cases.append({"trait": p[1], "s": p[2], "r": p[3], "o": None, "a": p[5], "u": int(p[6]), "b": p[7], "v": int(p[8])})
            for c in cases:
                c["o"] = next(r["out"][0] for r in rows if (r["trait"], r["self"][0], r["rhs"][0]) == (c["trait"], c["s"], c["r"]))
        else:
            bs = ["3ff0000000000000", "4000000000000000", "3fd0000000000000"] if be == "f64" else ["1/0", "2/0", "25/2"]
            for r in rows:
                s, rh, o = r["self"][0], r["rhs"][0], r["out"][0]
                ns, nr, no = dc.n_units(names, s), dc.n_units(names, rh), dc.n_units(names, o)
                pairs = [(u, v) for u in range(ns) for v in range(nr)]
                if quick and len(pairs) > 10:
                    refs = [(u, v) for (u, v) in pairs if (s != "AMOUNT" and u == scales[s][1]) and (rh != "AMOUNT" and v == scales[rh][1])]
                    pairs = refs + rng.sample(pairs, 9)
                for (u, v) in pairs:
                    su, sv = dc.scale_val(be, scales, s, u), dc.scale_val(be, scales, rh, v)
                    S = su * sv if r["trait"] == "Mul" else su / sv
                    targets = [dc.scale_val(be, scales, o, k) for k in range(no)]
                    if quick and len(targets) > 4:
                        targets = rng.sample(targets, 4)
                    amts = []
                    for T in targets:
                        b = rng.choice(bs)
                        vb = kc.value(be, b)
                        a = T / (S * vb) if r["trait"] == "Mul" else T * vb / S
                        for tok in neighbours(be, round_to(be, a)):
                            amts.append((tok, b))
                    zero = "0000000000000000" if be == "f64" else "0/0"
                    amts.append((zero, bs[0]))
                    neg = round_to(be, -targets[0] / S) if targets else None
                    if neg:
                        amts.append((neg, bs[0]))
                    if be == "f64" and rng.random() < 0.2:
                        amts.append((rng.choice(kc.F64_SPECIAL), bs[0]))
                    for a, b in amts:
                        if be == "dec" and r["trait"] == "Div" and kc.value(be, b) == 0:
                            continue
                        cases.append({"trait": r["trait"], "s": s, "r": rh, "o": o, "a": a, "u": u, "b": b, "v": v})
        ops = [f"dop {c['trait']} {c['s']} {c['r']} vv {c['a']} {c['u']} {c['b']} {c['v']}" for c in cases]
        impl = kr.run(be, ops)
        st.expected(cases, f"{PID}-{be}")
        for op, c, r in zip(ops, cases, impl):
            kr.nontrivial.add((be, c["trait"], c["s"], c["r"], c["u"], c["v"], c.get("path"), c.get("w")))
            kr.count(f"{be}:{c.get('path')}")
            want = c.get("want")
            if want is None:
                continue
            if r != want:
                what = ("natural unit: result must use the first unit with the combined scale and exactly the product/quotient of the amounts"
                        if c["path"] == "natural" else
                        "no natural unit: result must use the largest eligible unit whose scale does not exceed the reference-unit magnitude (or the smallest eligible unit)")
                kr.violation(be, what, op, r, want, combined_scale=c.get("sc"), magnitude=c.get("m"))
            # operands in reference units -> reference unit
            if c["s"] != "AMOUNT" and c["r"] != "AMOUNT" and c["o"] != "AMOUNT" and r != "PANIC":
                if c["u"] == scales[c["s"]][1] and c["v"] == scales[c["r"]][1] and int(r.split()[1]) != scales[c["o"]][1]:
                    kr.violation(be, "operands in reference units must give a result in the reference unit", op, r)
    return kr.result("every owned derived operator instance (catalogue 34, astronomical [f64], synthetic) x operand unit pairs (quick: reference pair + 9 random pairs, thorough: all) x amounts "
                     "constructed so that the result magnitude lands exactly on, one step below and one step above unit scales of the result type, plus zero, a negative magnitude and IEEE specials: "
                     "the expected unit is re-derived from the property text with exact rationals over the implementation's own scale(), the expected amount re-computed step by step with the "
                     "implementation's amount operations; non-trivial = distinct (back-end, operator, unit pair, path, chosen unit)")
