"""Operation lines of the correspondence check -> Gallina expressions that
evaluate the model on the same input (result: canonical string)."""
import framework as fw
import gen_harness

HEADER_COMMON = ("From Coq Require Import String ZArith.\n"
                 "From QV Require Import Rt.Prelude Rt.Show Rt.Amount Rt.Quantity Macro.Defs Gen.Prefixes Gen.Catalogue "
                 "Gen.Kernels Gen.KernelsFmt Macro.Inst Macro.TempInst Rt.Serde Proofs.Eval.\n")


class F64Backend:
    name = "f64"
    cfg = "f64"
    header = (HEADER_COMMON + "From Flocq Require Import IEEE754.Bits.\nFrom QV Require Import Amount.F64.\n"
              "Definition AM := F64.\nDefinition sa : A AM -> string := show_f64.\nDefinition pa (z : Z) : A AM := b64_of_bits z.\n"
              "Definition ENC : A AM -> sval := enc_f64.\nDefinition DCD : sval -> option (A AM) := dcd_f64.\n")
    targets = ["Amount/F64.vo", "Proofs/Eval.vo", "Gen/Catalogue.vo", "Gen/KernelsFmt.vo", "Macro/TempInst.vo", "Rt/Serde.vo"]

    @staticmethod
    def amt(tok):
        return f"(pa {int(tok, 16)}%Z)"


class DecBackend:
    name = "dec"
    cfg = "dec"
    header = (HEADER_COMMON + "From QV Require Import Amount.DecModel Amount.Dec Amount.DecCodec.\n"
              "Definition AM := DEC.\nDefinition sa : A AM -> string := show_dec.\nDefinition pa (c n : Z) : A AM := mkdec c n.\n"
              "Definition ENC : A AM -> sval := enc_dec.\nDefinition DCD : sval -> option (A AM) := dcd_dec.\n")
    targets = ["Amount/Dec.vo", "Amount/DecCodec.vo", "Proofs/Eval.vo", "Gen/Catalogue.vo", "Gen/KernelsFmt.vo", "Macro/TempInst.vo", "Rt/Serde.vo"]

    @staticmethod
    def amt(tok):
        c, n = tok.split("/")
        return f"(pa ({c})%Z {n}%Z)"


BACKENDS = {"f64": F64Backend, "dec": DecBackend}


def inst(name):
    return "(amount_full AM)" if name == "AMOUNT" else f"(FG AM {name})"


def ustr_arg(tok):
    t = tok.strip('"')
    cps = [x for x in t.split("_") if x]
    if not cps:
        return "([] : ustring)"
    return "([" + "; ".join(cps) + "]%N : ustring)"


class ModelExpr:
    def __init__(self, backend, info):
        self.b = backend
        self.info = info
        self.entries = {e["name"]: e for e in info["entries"]}
        self.drows = {(r["trait"], r["self"][0], r["rhs"][0], r["mode"]): r for r in gen_harness.derived_rows(info)}

    def q(self, T, a, u):
        return f"(q_new {inst(T)} {self.b.amt(a)} {int(u)}%nat)"

    def path(self, T):
        return "PRef" if T == "AMOUNT" else self.entries[T]["path"]

    def expr(self, line):
        p = line.split()
        op = p[0]
        A = self.b.amt
        if op == "dop":
            return self.derived(p[1:])
        if op == "rate":
            return self.rate(p[1:])
        if op == "tconv":
            I = inst("cat_Temperature")
            return (f"show_res (show_opt (show_q sa {I})) (ConversionTable_convert {I} (temp_rows AM) "
                    f"{self.q('cat_Temperature', p[1], p[2])} {int(p[3])}%nat)")
        T = p[1]
        I = inst(T)
        a = p[2:]
        sq = f"(show_q sa {I})"
        rq = f"(show_res {sq})"
        if op in ("fmt", "ufmt"):
            fl = a[2:8] if op == "fmt" else a[1:7]
            al = {"-": "None", "<": "(Some ALeft)", ">": "(Some ARight)", "^": "(Some ACenter)"}[fl[1]]
            o = lambda x: "None" if x == "-" else f"(Some {int(x)}%N)"
            sp = f"(mkfspec {int(fl[0])}%N {al} {'true' if fl[2] == '1' else 'false'} {'true' if fl[3] == '1' else 'false'} {o(fl[4])} {o(fl[5])})"
            if op == "ufmt":
                return f"show_ustr (Unit_fmt {I} {int(a[0])}%nat {sp})"
            if T == "AMOUNT":
                return f"show_ustr (Quantity_fmt {I} {self.q(T, a[0], a[1])} {sp})"
            return f"show_ustr (tmpl_Display_Qty_none_{self.path(T)} {I} {self.q(T, a[0], a[1])} {sp})"
        if op in ("ser", "rt_value", "rt_text", "ser_unit", "rt_unit"):
            g = f"(ce_gen {T})"
            if op == "ser": return f"show_qty_sval (ser_entry AM ENC {g} {A(a[0])} {int(a[1])}%nat)"
            if op == "ser_unit": return f"match ser_unit {g} {int(a[0])}%nat with VStr s => show_ustr s | _ => \"?\" end"
            if op == "rt_unit": return f"match de_unit {g} (ser_unit {g} {int(a[0])}%nat) with Some u => show_nat u | None => \"DE-ERROR\" end"
            return f"rt_entry AM ENC DCD sa {g} {A(a[0])} {int(a[1])}%nat"
        if op == "units": return f"show_units {I}"
        if op == "consts": return f"show_consts {T}"
        if op == "scales": return f"show_scales sa {I}"
        if op == "unit_iter": return f'show_sep show_nat " " (u_iter {I})'
        if op == "new": return f"{sq} (q_new {I} {A(a[0])} {int(a[1])}%nat)"
        if op == "aunit":
            if T == "AMOUNT": return f"{sq} (MulOneForAmountT_mul (am:=AM) {A(a[0])} {int(a[1])}%nat)"
            return f"{sq} (tmpl_Mul_Amnt_Unit {I} {A(a[0])} {int(a[1])}%nat)"
        if op == "unita":
            if T == "AMOUNT": return f"{sq} (MulAmountTForOne_mul (am:=AM) {int(a[1])}%nat {A(a[0])})"
            return f"{sq} (tmpl_Mul_Unit_Amnt {I} {int(a[1])}%nat {A(a[0])})"
        if op in ("smul_l", "smul_r", "sdiv"):
            k, x = A(a[0]), self.q(T, a[1], a[2])
            if T == "AMOUNT":
                f = {"smul_l": f"a_mul AM {k} {x}", "smul_r": f"a_mul AM {x} {k}", "sdiv": f"a_div AM {x} {k}"}[op]
                return f"{rq} ({f})"
            f = {"smul_l": f"tmpl_Mul_Amnt_Qty {I} {k} {x}", "smul_r": f"tmpl_Mul_Qty_Amnt {I} {x} {k}",
                 "sdiv": f"tmpl_Div_Qty_Amnt {I} {x} {k}"}[op]
            return f"{rq} ({f})"
        if op == "from_symbol": return f"show_ou (Unit_from_symbol {I} {ustr_arg(a[0] if a else '')})"
        if op == "unit_from_symbol": return f"show_ou (Quantity_unit_from_symbol {I} {ustr_arg(a[0] if a else '')})"
        if op == "as_qty": return f"{sq} (Unit_as_qty {I} {int(a[0])}%nat)"
        if op in ("add", "sub"):
            return f"{rq} (q_{op} {I} {self.q(T, a[0], a[1])} {self.q(T, a[2], a[3])})"
        if op == "div":
            return f"show_res sa (q_div {I} {self.q(T, a[0], a[1])} {self.q(T, a[2], a[3])})"
        if op in ("eq", "ne", "lt", "le", "gt", "ge", "cmp"):
            x, y = self.q(T, a[0], a[1]), self.q(T, a[2], a[3])
            if op == "eq": return f"show_res show_bool (q_eq {I} {x} {y})"
            if op == "ne": return f"show_res show_bool (res_map negb (q_eq {I} {x} {y}))"
            if op == "cmp": return f"show_res show_ocmp (q_partial_cmp {I} {x} {y})"
            return f"show_res show_bool (res_map ocmp_{op} (q_partial_cmp {I} {x} {y}))"
        if op == "convert": return f"{rq} (HasRefUnit_convert {I} {self.q(T, a[0], a[1])} {int(a[2])}%nat)"
        if op == "equiv": return f"show_res sa (HasRefUnit_equiv_amount {I} {self.q(T, a[0], a[1])} {int(a[2])}%nat)"
        if op == "fit": return f"{rq} (q_fit {I} {A(a[0])})"
        if op == "from_scale": return f"show_ou (LinearScaledUnit_from_scale {I} {A(a[0])})"
        if op == "unit_from_scale": return f"show_ou (HasRefUnit_unit_from_scale {I} {A(a[0])})"
        if op == "is_ref": return f"show_bool (LinearScaledUnit_is_ref_unit {I} {int(a[0])}%nat)"
        if op == "ratio": return f"show_res sa (LinearScaledUnit_ratio {I} {int(a[0])}%nat {int(a[1])}%nat)"
        if op == "conv":
            rows = []
            r = a[3:]
            for i in range(0, len(r), 4):
                rows.append(f"({int(r[i])}%nat, {int(r[i+1])}%nat, {A(r[i+2])}, {A(r[i+3])})")
            tbl = "[" + "; ".join(rows) + "]"
            return (f"show_res (show_opt {sq}) (ConversionTable_convert {I} ({tbl} : list (nat * nat * A AM * A AM)) "
                    f"{self.q(T, a[0], a[1])} {int(a[2])}%nat)")
        raise fw.Failure("infra", f"no model expression for operation {line}")

    def derived(self, p):
        tr, s, r, mode = p[0], p[1], p[2], p[3]
        row = self.drows.get((tr, s, r, mode))
        own = self.drows.get((tr, s, r, "vv"))
        if row is None or own is None:
            raise fw.Failure("infra", f"no derived impl {p[:4]} in the impl table")
        Is, Ir, Io = inst(s), inst(r), inst(own["out"][0])
        t = own["template"]
        if t in ("Mul_Qty_Qty", "Div_Qty_Qty"):
            owned = f"(tmpl_{t} {Is} {Ir} {Io})"
        elif t == "Mul_Qty_Self_PRef":
            owned = f"(tmpl_{t} {Is} {Io})"
        elif t == "Div_Amnt_Qty":
            owned = f"(tmpl_{t} {Ir} {Io})"
        else:
            raise fw.Failure("infra", f"derived template {t} not known to the correspondence")
        x, y = self.q(s, p[4], p[5]), self.q(r, p[6], p[7])
        f = owned if mode == "vv" else f"(tmpl_{row['template']} {owned})"
        return f"show_res (show_q sa {Io}) ({f} {x} {y})"

    def rate(self, p):
        op, tq, pq = p[0], p[1], p[2]
        a = p[3:]
        A = self.b.amt
        It, Ip = inst(tq), inst(pq)
        r = f"(Rate_new {It} {Ip} {A(a[0])} {int(a[1])}%nat {A(a[2])} {int(a[3])}%nat)" if op != "rate_from" else None
        if op == "rate_new": return f"show_rate sa {r}"
        if op == "rate_from":
            return f"show_rate sa (Rate_from_qty_vals {It} {Ip} {self.q(tq, a[0], a[1])} {self.q(pq, a[2], a[3])})"
        if op == "rate_recip": return f"show_rate sa (Rate_reciprocal {It} {Ip} {r})"
        if op == "rate_recip2": return f"show_rate sa (Rate_reciprocal {Ip} {It} (Rate_reciprocal {It} {Ip} {r}))"
        if op == "rate_str": return f"show_ustr (Rate_fmt {It} {Ip} {r} fspec_default)"
        if op == "rate_mul": return f"show_res (show_q sa {It}) (Rate_mul {It} {Ip} {r} {self.q(pq, a[4], a[5])})"
        if op == "qty_mul_rate": return f"show_res (show_q sa {It}) (tmpl_Mul_Qty_Rate {Ip} {It} {self.q(pq, a[4], a[5])} {r})"
        if op == "qty_div_rate": return f"show_res (show_q sa {Ip}) (tmpl_Div_Qty_Rate {It} {Ip} {self.q(tq, a[4], a[5])} {r})"
        raise fw.Failure("infra", f"no model expression for rate op {op}")


def run_both(ctx, backend_name, ops, tag, cfg=None):
    """runs the op lines on implementation and model; returns (impl, model|None)"""
    b = BACKENDS[backend_name]
    impl = fw.run_harness(ctx.harness(cfg or b.cfg), ops, ctx.log)
    model = None
    if ctx.model_ok:
        fw.coq_make(b.targets, ctx.log)
        me = ModelExpr(b, ctx.gen_info)
        exprs = [me.expr(l) for l in ops]
        model = fw.run_coq_cases(tag, b.header, exprs, ctx.log)
    return impl, model
