//! Differential-test driver: runs real `format!` / `Formatter::pad_integral` /
//! `str::parse::<f64>` on the cases read from stdin (one per line) and prints one
//! result line per case (code points in decimal, space separated).
//!
//!   f64 <bits: 16 hex digits> <fill cp> <align - < > ^> <plus 0/1> <zero 0/1> <width|-> <prec|->
//!   str    <fill> <align> <plus> <zero> <width|-> <prec|-> <text code points...>
//!   padint <fill> <align> <plus> <zero> <width|-> <prec|-> <nonneg 0/1> <text code points...>
//!   parse  <text code points...>
use std::fmt;
use std::io::{self, BufRead, Write};

mod generated;
use generated::fmt_any;

/// what the library under verification does: arbitrary text through pad_integral
struct W(bool, String);
impl fmt::Display for W {
    fn fmt(&self, f: &mut fmt::Formatter<'_>) -> fmt::Result {
        f.pad_integral(self.0, "", &self.1)
    }
}

fn text_of(cps: &[&str]) -> String {
    cps.iter().map(|c| char::from_u32(c.parse::<u32>().expect("code point")).expect("scalar value")).collect()
}

fn show(s: &str) -> String {
    s.chars().map(|c| (c as u32).to_string()).collect::<Vec<_>>().join(" ")
}

fn opt(s: &str) -> Option<usize> {
    if s == "-" { None } else { Some(s.parse().expect("number")) }
}

struct Flags { fill: u32, align: char, plus: bool, zero: bool, w: Option<usize>, p: Option<usize> }

fn flags(t: &[&str]) -> Flags {
    Flags {
        fill: t[0].parse().expect("fill"),
        align: t[1].chars().next().unwrap(),
        plus: t[2] == "1",
        zero: t[3] == "1",
        w: opt(t[4]),
        p: opt(t[5]),
    }
}

fn main() {
    let stdin = io::stdin();
    let stdout = io::stdout();
    let mut out = io::BufWriter::new(stdout.lock());
    for line in stdin.lock().lines() {
        let line = line.expect("read");
        let t: Vec<&str> = line.split_whitespace().collect();
        if t.is_empty() { continue; }
        let res: Option<String> = match t[0] {
            "f64" => {
                let x = f64::from_bits(u64::from_str_radix(t[1], 16).expect("bits"));
                let f = flags(&t[2..8]);
                fmt_any(f.fill, f.align, f.plus, f.zero, f.w, f.p, x).map(|s| show(&s))
            }
            "str" => {
                let f = flags(&t[1..7]);
                let s = text_of(&t[7..]);
                fmt_any(f.fill, f.align, f.plus, f.zero, f.w, f.p, s.as_str()).map(|s| show(&s))
            }
            "padint" => {
                let f = flags(&t[1..7]);
                let s = text_of(&t[8..]);
                fmt_any(f.fill, f.align, f.plus, f.zero, f.w, f.p, W(t[7] == "1", s)).map(|s| show(&s))
            }
            "parse" => {
                let s = text_of(&t[1..]);
                Some(match s.parse::<f64>() {
                    Ok(x) => format!("{:016x}", x.to_bits()),
                    Err(_) => "None".to_string(),
                })
            }
            other => panic!("unknown case kind {other}"),
        };
        match res {
            Some(s) => writeln!(out, "{}", s).unwrap(),
            None => writeln!(out, "UNSUPPORTED").unwrap(),
        }
    }
}
