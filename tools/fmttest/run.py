#!/usr/bin/env python3
"""Differential test of the Gallina model Rt/Fmt.v against real Rust formatting.

  run.py [--seed N] [--cases N] [--jobs N] [--keep]

Generates test cases, evaluates the model on them inside Coq (`Eval vm_compute`,
sharded over parallel coqc processes), runs the Rust driver (real `format!`,
`Formatter::pad_integral`, `str::parse::<f64>`) on the same cases, and compares.
Prints `agree=<n> disagree=<n>` and the first disagreements; exit status 0 iff
there is no disagreement.
"""
import argparse
import os
import random
import re
import struct
import subprocess
import sys
import tempfile
import shutil
from concurrent.futures import ThreadPoolExecutor
from decimal import Decimal, getcontext
from fractions import Fraction

HERE = os.path.dirname(os.path.abspath(__file__))
ROOT = os.path.dirname(os.path.dirname(HERE))            # /verif
COQ = os.path.join(ROOT, 'coq')
TARGET = os.path.join(ROOT, 'build', 'target-fmttest')
DRIVER = os.path.join(TARGET, 'debug', 'fmttest-driver')

getcontext().prec = 2000

FILLS = [32, 42, 48, 181]
ALIGNS = ['-', '<', '>', '^']


def bits_of(x):
    return struct.unpack('<Q', struct.pack('<d', x))[0]


def float_of(b):
    return struct.unpack('<d', struct.pack('<Q', b))[0]


# ---------------------------------------------------------------- f64 values
def special_bits():
    out = [0x0000000000000000, 0x8000000000000000,          # +-0
           0x0000000000000001, 0x8000000000000001,          # smallest subnormal
           0x0000000000000002, 0x0000000000000003,
           0x000FFFFFFFFFFFFF, 0x800FFFFFFFFFFFFF,          # largest subnormal
           0x0010000000000000, 0x8010000000000000,          # MIN_POSITIVE
           0x0010000000000001, 0x0008000000000000,
           0x7FEFFFFFFFFFFFFF, 0xFFEFFFFFFFFFFFFF,          # MAX
           0x7FEFFFFFFFFFFFFE, 0x7FE0000000000000,
           0x7FF0000000000000, 0xFFF0000000000000,          # inf
           0x7FF8000000000000, 0xFFF8000000000000,          # NaN
           0x7FF0000000000001, 0xFFF4000000000000, 0x7FFFFFFFFFFFFFFF]
    return out


def pow2_bits(rng, count):
    out = []
    ks = list(range(-1074, 1024))
    for k in rng.sample(ks, count):
        if k >= -1022:
            b = (k + 1023) << 52
        else:
            b = 1 << (k + 1074)
        for d in (-1, 0, 1):
            if 0 <= b + d < 0x7FF0000000000000:
                out.append(b + d)
    return out


def pow10_bits(rng, count):
    out = []
    for k in rng.sample(range(-323, 309), count):
        b = bits_of(float('1e%d' % k))
        for d in (-1, 0, 1):
            if 0 <= b + d < 0x7FF0000000000000:
                out.append(b + d)
    return out


NICE = [0.1, 0.2, 0.3, 0.1 + 0.2, 0.7, 1.0 / 3, 2.0 / 3, 1.005, 0.35, 0.25, 0.5, 1.5, 2.5, 3.5,
        0.125, 0.375, 0.045, 0.055, 1.45, 1.55, 2.675, 1e21, 1e-7, 1e15, 1e16, 1e17, 123456789.0,
        9.5, 9.95, 9.995, 99.5, 999.5, 0.95, 0.995, 0.05, 0.005, 0.0005, 0.15, 0.45, 0.6, 0.9,
        9007199254740992.0, 9007199254740993.0, 9007199254740994.0, 9007199254740996.0,
        18014398509481984.0, 18014398509481988.0, 1e22, 1e23, 5e-324, 2.2250738585072014e-308,
        4.35, 0.285, 1.0, 2.0, 10.0, 100.0, 1000.0, 12.5, 0.3048, 0.0254, 1609.344, 3.6,
        0.2777777777777778, 0.45359237, 6.6845871222684464e-9, 299792458.0, 1e-5, 1.5e-10,
        4.9e-324, 1.7976931348623157e308, 8.41e21, 2e23, 5e22, 4.5, 5.5, 6.5, 0.000123, 123e-20]


def tie_bits(rng, count):
    """values that are exact ties at precision p: odd / 2^(p+1)"""
    out = []
    for _ in range(count):
        p = rng.randrange(0, 21)
        j = rng.choice([0, 1, 2, 3, 4, 7, 10, 49, rng.randrange(0, 1000), rng.randrange(0, 1 << 30)])
        num = 2 * j + 1
        if num.bit_length() > 53:
            continue
        x = float(Fraction(num, 1 << (p + 1)))
        out.append((bits_of(x), p))
    return out


def int_bits(rng, count):
    out = []
    for _ in range(count):
        kind = rng.randrange(4)
        if kind == 0:
            n = rng.randrange(0, 1000)
        elif kind == 1:
            n = rng.randrange(0, 1 << 53)
        elif kind == 2:
            n = rng.randrange(1 << 53, 1 << 70)
        else:
            n = 10 ** rng.randrange(0, 23) + rng.randrange(-3, 4)
        out.append(bits_of(float(max(n, 0))))
    return out


def decimal_like_bits(rng, count):
    out = []
    for _ in range(count):
        d = rng.randrange(1, 18)
        mag = rng.uniform(-12, 18)
        x = float('%.*g' % (d, rng.random() * 10 ** mag))
        out.append(bits_of(x))
    return out


def random_bits(rng, count):
    out = []
    for _ in range(count):
        b = rng.getrandbits(64)
        out.append(b)
    return out


# ---------------------------------------------------------------- flags
def rand_flags(rng, prec_hint=None, prec_none_prob=0.4):
    al = rng.choice(ALIGNS)
    fill = 32 if al == '-' else rng.choice(FILLS)
    plus = rng.randrange(2)
    zero = rng.randrange(2) if rng.random() < 0.5 else 0
    r = rng.random()
    if r < 0.25:
        w = '-'
    elif r < 0.95:
        w = str(rng.randrange(0, 41))
    else:
        w = str(rng.choice([64, 65, 100, 400]))
    if prec_hint is not None:
        p = str(prec_hint)
    else:
        r = rng.random()
        if r < prec_none_prob:
            p = '-'
        elif r < 0.97:
            p = str(rng.randrange(0, 21))
        else:
            p = str(rng.choice([25, 30, 50, 100, 340, 400, 800, 1100]))
    return (fill, al, plus, zero, w, p)


def all_flag_combos():
    for al in ALIGNS:
        for fill in FILLS:
            if al == '-' and fill != 32:
                continue
            for plus in (0, 1):
                for zero in (0, 1):
                    yield (fill, al, plus, zero)


def flags_str(fl):
    return '%d %s %d %d %s %s' % fl


# ---------------------------------------------------------------- texts
TEXTS = ['', 'a', 'km', '1.5 km', 'µm', '1.5 µm', '°C', '23.5 °C', 'Ω', 'm²', 'kg·m/s²', '日本語', '😀',
         'a😀b', '-1', '+', '0', '12345', '3.25 m/s', 'ſ', '\u07ff\u0800', '\uffff\U00010000', 'x' * 45]


def rand_text(rng):
    if rng.random() < 0.7:
        return rng.choice(TEXTS)
    n = rng.randrange(0, 12)
    pool = 'abc 019.-+µ°Ω²日😀'
    return ''.join(rng.choice(pool) for _ in range(n))


def cps(s):
    return ' '.join(str(ord(c)) for c in s)


# ---------------------------------------------------------------- parse texts
PARSE_FIXED = ['', '+', '-', '.', '+.', '-.', '1', '+1', '-1', '1.', '.5', '+.5', '-.5', '5.', '0', '-0', '+0',
               '0.0', '-0.0', '00', '007', '1e5', '1E5', '1e+5', '1e-5', '1e', '1e+', '1e-', 'e5', '.e5', '1.e5',
               '.5e1', '1.5e', '1e5x', '1x', 'x1', ' 1', '1 ', '1_0', '0x10', '1e400', '1e-400', '-1e400',
               '-1e-400', '1e308', '1e309', '1.8e308', '1.7976931348623157e308', '1.7976931348623158e308',
               '1.797693134862315807e308', '1.797693134862315808e308', '4.9e-324', '2.4703282292062327e-324',
               '2.4703282292062328e-324', '2.5e-324', '2.4e-324', '1e65535', '1e65536', '1e65537', '1e99999999999',
               '0e99999999999', '0e-99999999999', '1e-99999999999', '-0e5', '0.000e-5',
               'inf', '-inf', '+inf', 'Inf', 'INF', 'iNf', 'infinity', 'Infinity', '-INFINITY', 'infinit', 'infinityy',
               'in', 'NaN', 'nan', 'NAN', '-NaN', '+nan', 'nana', 'na', 'ınf', 'i\u212Af', '1.5.2', '1..5', '--1',
               '+-1', '1e5e5', '1e5.5', '1e 5', '9007199254740993', '9007199254740992.5', '9007199254740993.000000001',
               '0.1', '0.30000000000000004', '123456789012345678901234567890', '0.' + '0' * 400 + '1',
               '1' + '0' * 400, '1' + '0' * 308, '17976931348623157' + '0' * 292, '17976931348623158' + '0' * 292,
               '179769313486231580793728971405303415079934132710037826936173778980444968292764750946649017977587207096330286416692887910946555547851940402630657488671505820681908902000708383676273854845817711531764475730270069855571366959622842914819860834936475292719074168444365510704342711559699508093042880177904174497791',
               '179769313486231580793728971405303415079934132710037826936173778980444968292764750946649017977587207096330286416692887910946555547851940402630657488671505820681908902000708383676273854845817711531764475730270069855571366959622842914819860834936475292719074168444365510704342711559699508093042880177904174497792',
               '0.' + '0' * 30 + '1e31', '1' + '0' * 30 + 'e-30', '٣', '1٣', '１']


def exact_decimal(fr):
    """exact positional decimal text of a non-negative Fraction with 2-power denominator"""
    num, den = fr.numerator, fr.denominator
    k = den.bit_length() - 1
    assert den == 1 << k
    n = num * 5 ** k
    s = str(n)
    if k == 0:
        return s
    if len(s) <= k:
        s = '0' * (k - len(s) + 1) + s
    return s[:-k] + '.' + s[-k:]


def value_of_bits(b):
    e = (b >> 52) & 0x7FF
    m = b & ((1 << 52) - 1)
    if e == 0:
        return Fraction(m, 1 << 1074)
    m |= 1 << 52
    e2 = e - 1075
    return Fraction(m) * (Fraction(2) ** e2)


def rand_parse_text(rng):
    r = rng.random()
    if r < 0.08:
        return rng.choice(PARSE_FIXED)
    b = rng.getrandbits(63)
    if ((b >> 52) & 0x7FF) == 0x7FF:
        b &= ~(1 << 62)
    if r < 0.25:
        # narrow exponent range so that positional text stays shortish
        b = (b & ((1 << 52) - 1)) | (rng.randrange(1023 - 80, 1023 + 80) << 52)
    x = float_of(b)
    sign = rng.choice(['', '', '-', '+'])
    if r < 0.40:
        # exact midpoint between two adjacent doubles, full expansion (the hardest case)
        v = (value_of_bits(b) + value_of_bits(b + 1)) / 2 if ((b + 1) >> 52) & 0x7FF != 0x7FF else value_of_bits(b)
        s = exact_decimal(v)
        t = rng.random()
        if t < 0.3:
            s = s + rng.choice(['0', '1', '0000000001'])          # just above
        elif t < 0.5 and '.' in s and s[-1] != '0':
            s = s[:-1] + str(int(s[-1]) - 1) + '9' * rng.randrange(1, 5)   # just below
        return sign + s
    if r < 0.50:
        return sign + exact_decimal(value_of_bits(b))
    if r < 0.75:
        d = rng.randrange(1, 25)
        return sign + ('%.*e' % (d, x))
    if r < 0.9:
        return sign + format(Decimal(repr(x)), 'f')
    s = repr(x)
    if rng.random() < 0.5:
        s = s.upper()
    return sign + s


# ---------------------------------------------------------------- case generation
def gen_cases(seed, total):
    rng = random.Random(seed)
    cases = []

    def add_f64(b, fl):
        cases.append('f64 %016x %s' % (b, flags_str(fl)))

    # systematic: specials under every flag combination
    grid_vals = [0x7FF0000000000000, 0xFFF0000000000000, 0x7FF8000000000000, 0xFFF8000000000000,
                 0, 0x8000000000000000, 0x3FF8000000000000, 0xBFF8000000000000]
    for b in grid_vals:
        for (fill, al, plus, zero) in all_flag_combos():
            for w in ('-', '4', '5', '9'):
                p = rng.choice(['-', '-', '0', '1', '3'])
                add_f64(b, (fill, al, plus, zero, w, p))
    n_fixed = len(cases)

    budget = max(total - n_fixed, 0)
    n_f64 = int(budget * 0.62)
    n_str = int(budget * 0.10)
    n_pad = int(budget * 0.12)
    n_parse = budget - n_f64 - n_str - n_pad

    pool = []
    pool += special_bits() * 2
    pool += pow2_bits(rng, 120)
    pool += pow10_bits(rng, 80)
    pool += [bits_of(x) for x in NICE] * 2
    pool += [bits_of(-x) for x in NICE]
    pool += int_bits(rng, 200)
    pool += decimal_like_bits(rng, 400)
    pool += random_bits(rng, 400)
    ties = tie_bits(rng, 300)
    f64cases = []
    for b in pool:
        f64cases.append((b, None))
    for (b, p) in ties:
        f64cases.append((b, p))
        f64cases.append((b | (1 << 63), p))
        f64cases.append((b + 1, p))
        f64cases.append((b - 1 if b > 0 else b, p))
    rng.shuffle(f64cases)
    # every value once with default flags (shortest mode is the most intricate), then random flags
    i = 0
    while i < n_f64:
        b, ph = f64cases[i % len(f64cases)] if i < 4 * len(f64cases) else (rng.choice(random_bits(rng, 1)), None)
        if i < len(f64cases) // 2 and ph is None:
            fl = (32, '-', 0, 0, '-', '-')
        else:
            fl = rand_flags(rng, prec_hint=ph if (ph is not None and rng.random() < 0.8) else None)
        add_f64(b, fl)
        i += 1

    for _ in range(n_str):
        fl = rand_flags(rng, prec_none_prob=0.5)
        if int(fl[5]) > 60 if fl[5] != '-' else False:
            fl = fl[:5] + ('7',)
        cases.append('str %s %s' % (flags_str(fl), cps(rand_text(rng))))
    for _ in range(n_pad):
        fl = rand_flags(rng, prec_none_prob=0.7)
        cases.append('padint %s %d %s' % (flags_str(fl), rng.randrange(2), cps(rand_text(rng))))
    fixed = list(PARSE_FIXED)
    for i in range(n_parse):
        s = fixed[i] if i < len(fixed) else rand_parse_text(rng)
        cases.append('parse %s' % cps(s))
    return cases


# ---------------------------------------------------------------- Coq side
def coq_opt(s):
    return 'None' if s == '-' else '(Some %s%%N)' % s


def coq_flags(t):
    fill, al, plus, zero, w, p = t
    a = {'-': 'None', '<': '(Some ALeft)', '>': '(Some ARight)', '^': '(Some ACenter)'}[al]
    return '(mkfspec %s%%N %s %s %s %s %s)' % (fill, a, 'true' if plus == '1' else 'false',
                                                'true' if zero == '1' else 'false', coq_opt(w), coq_opt(p))


def coq_text(toks):
    return '[' + ';'.join(t for t in toks) + ']%N'


def coq_term(case):
    t = case.split()
    if t[0] == 'f64':
        return 'T (f64_to_text %s (b64_of_bits 0x%s%%Z))' % (coq_flags(t[2:8]), t[1])
    if t[0] == 'str':
        return 'T (fmt_pad %s %s)' % (coq_flags(t[1:7]), coq_text(t[7:]))
    if t[0] == 'padint':
        return 'T (fmt_pad_integral %s %s %s)' % (coq_flags(t[1:7]), 'true' if t[7] == '1' else 'false',
                                                    coq_text(t[8:]))
    if t[0] == 'parse':
        return 'P (f64_parse %s)' % coq_text(t[1:])
    raise ValueError(case)


PRELUDE = '''From QV Require Import Rt.Prelude Rt.Fmt.
From Flocq Require Import IEEE754.Binary IEEE754.Bits.
Import ListNotations.
(* each result is a list of Z terminated by -1: code points, or for a parse
   result the bit pattern, or -2 for None *)
Definition T (s : ustring) : list Z := map Z.of_N s ++ [(-1)%Z].
Definition P (o : option binary64) : list Z :=
  match o with Some b => [bits_of_b64 b; (-1)%Z] | None => [(-2)%Z; (-1)%Z] end.
Local Open Scope Z_scope.
'''

CHUNK = 50


def write_shard(path, cases):
    with open(path, 'w') as f:
        f.write(PRELUDE)
        for i in range(0, len(cases), CHUNK):
            f.write('Eval vm_compute in concat [\n  ')
            f.write(';\n  '.join(coq_term(c) for c in cases[i:i + CHUNK]))
            f.write('].\n')


def run_shard(path):
    r = subprocess.run(['coqc', '-Q', COQ, 'QV', path], stdout=subprocess.PIPE, stderr=subprocess.PIPE,
                       cwd=os.path.dirname(path), universal_newlines=True)
    if r.returncode != 0:
        raise RuntimeError('coqc failed on %s:\n%s\n%s' % (path, r.stdout[-2000:], r.stderr[-4000:]))
    results = []
    # output: a sequence of "     = [a; b; ...]\n     : list Z"; robust: take every integer
    # between '=' and the following ': list Z'
    for m in re.finditer(r'=\s*(\[.*?\]|nil)\s*:\s*list Z', r.stdout, re.S):
        body = m.group(1)
        nums = [int(x) for x in re.findall(r'-?\d+', body)]
        cur = []
        for n in nums:
            if n == -1:
                results.append(cur)
                cur = []
            else:
                cur.append(n)
        assert not cur, 'unterminated result'
    return results


def model_results(cases, jobs, workdir):
    nshards = max(1, min(jobs, (len(cases) + 199) // 200))
    shards = [cases[i::nshards] for i in range(nshards)]
    paths = []
    for i, sh in enumerate(shards):
        p = os.path.join(workdir, 'cases%02d.v' % i)
        write_shard(p, sh)
        paths.append(p)
    with ThreadPoolExecutor(max_workers=jobs) as ex:
        outs = list(ex.map(run_shard, paths))
    res = [None] * len(cases)
    for i, (sh, out) in enumerate(zip(shards, outs)):
        if len(out) != len(sh):
            raise RuntimeError('shard %d: %d results for %d cases' % (i, len(out), len(sh)))
        for j, r in enumerate(out):
            res[i + j * nshards] = r
    return res


def model_line(case, r):
    if case.startswith('parse'):
        if r == [-2]:
            return 'None'
        assert len(r) == 1
        return '%016x' % r[0]
    return ' '.join(str(n) for n in r)


# ---------------------------------------------------------------- Rust side
def build_driver():
    env = dict(os.environ, CARGO_NET_OFFLINE='true', CARGO_TARGET_DIR=TARGET)
    r = subprocess.run(['cargo', 'build', '--offline', '--quiet'], cwd=os.path.join(HERE, 'driver'), env=env,
                       stdout=subprocess.PIPE, stderr=subprocess.PIPE, universal_newlines=True)
    if r.returncode != 0:
        sys.stderr.write(r.stdout + r.stderr)
        raise RuntimeError('cargo build failed')


def rust_results(cases):
    r = subprocess.run([DRIVER], input='\n'.join(cases) + '\n', stdout=subprocess.PIPE, stderr=subprocess.PIPE,
                       universal_newlines=True)
    if r.returncode != 0:
        raise RuntimeError('driver failed:\n' + r.stderr[-4000:])
    lines = r.stdout.split('\n')
    if lines and lines[-1] == '':
        lines.pop()
    if len(lines) != len(cases):
        raise RuntimeError('driver: %d lines for %d cases' % (len(lines), len(cases)))
    return [' '.join(l.split()) for l in lines]


def pretty(line):
    if line in ('None', 'UNSUPPORTED') or re.fullmatch(r'[0-9a-f]{16}', line):
        return line
    try:
        return repr(''.join(chr(int(t)) for t in line.split()))
    except ValueError:
        return line


def main():
    ap = argparse.ArgumentParser()
    ap.add_argument('--seed', type=int, default=1)
    ap.add_argument('--cases', type=int, default=8000)
    ap.add_argument('--jobs', type=int, default=min(16, os.cpu_count() or 1))
    ap.add_argument('--keep', action='store_true', help='keep the generated cases*.v files')
    ap.add_argument('--show', type=int, default=20, help='number of disagreements to print')
    args = ap.parse_args()

    build_driver()
    cases = gen_cases(args.seed, args.cases)
    workdir = tempfile.mkdtemp(prefix='fmttest-')
    try:
        with open(os.path.join(workdir, 'cases.txt'), 'w') as f:
            f.write('\n'.join(cases) + '\n')
        rust = rust_results(cases)
        model = model_results(cases, args.jobs, workdir)
    finally:
        if args.keep:
            print('work directory kept: %s' % workdir)
        else:
            shutil.rmtree(workdir, ignore_errors=True)

    agree = 0
    bad = []
    kinds = {}
    for c, r, m in zip(cases, rust, model):
        ml = model_line(c, m)
        k = c.split()[0]
        kinds.setdefault(k, [0, 0])
        if ml == r:
            agree += 1
            kinds[k][0] += 1
        else:
            bad.append((c, r, ml))
            kinds[k][1] += 1
    for (c, r, ml) in bad[:args.show]:
        print('DISAGREE %s' % (c if len(c) < 300 else c[:300] + '...'))
        print('   rust : %s' % pretty(r)[:400])
        print('   model: %s' % pretty(ml)[:400])
    print('seed=%d ' % args.seed + ' '.join('%s=%d/%d' % (k, v[0], v[0] + v[1]) for k, v in sorted(kinds.items())))
    print('agree=%d disagree=%d' % (agree, len(bad)))
    return 0 if not bad else 1


if __name__ == '__main__':
    sys.exit(main())
