// rs2j — front end of the translator: reads the repository's current sources,
// runs the repository's own macro code (parse_item / analyze / parse_args /
// codegen, included verbatim from /repo/qty-macros/src/quantity_attr_helper.rs)
// on every `#[quantity]` definition, and dumps everything as JSON.  The Gallina
// emitter (tools/j2v) works from that JSON.
#![allow(dead_code)]

mod quantity_attr_helper {
    include!(concat!(env!("OUT_DIR"), "/quantity_attr_helper.rs"));
}

use proc_macro2::{TokenStream, TokenTree};
use quote::ToTokens;
use serde_json::{json, Value};
use std::{env, fs, panic, path::Path};
use syn::spanned::Spanned;

fn line_of<T: Spanned>(t: &T) -> usize {
    t.span().start().line
}

fn toks<T: ToTokens>(t: &T) -> String {
    t.to_token_stream().to_string()
}

fn lit_json(l: &syn::Lit) -> Value {
    match l {
        syn::Lit::Str(s) => json!({"k":"str","v":s.value()}),
        syn::Lit::Int(i) => json!({"k":"int","digits":i.base10_digits(),"suffix":i.suffix(),"text":i.to_string()}),
        syn::Lit::Float(f) => json!({"k":"float","digits":f.base10_digits(),"suffix":f.suffix(),"text":f.to_string()}),
        syn::Lit::Bool(b) => json!({"k":"bool","v":b.value}),
        syn::Lit::Char(c) => json!({"k":"char","v":c.value().to_string()}),
        other => json!({"k":"other","text":toks(other)}),
    }
}

fn tokens_json(ts: TokenStream) -> Value {
    let mut out = vec![];
    for tt in ts {
        match tt {
            TokenTree::Ident(i) => out.push(json!({"t":"ident","v":i.to_string()})),
            TokenTree::Punct(p) => out.push(json!({"t":"punct","v":p.as_char().to_string()})),
            TokenTree::Literal(l) => {
                let text = l.to_string();
                match syn::parse_str::<syn::Lit>(&text) {
                    Ok(lit) => out.push(json!({"t":"lit","lit":lit_json(&lit)})),
                    Err(_) => out.push(json!({"t":"lit","lit":{"k":"other","text":text}})),
                }
            }
            TokenTree::Group(g) => {
                let d = match g.delimiter() {
                    proc_macro2::Delimiter::Parenthesis => "(",
                    proc_macro2::Delimiter::Brace => "{",
                    proc_macro2::Delimiter::Bracket => "[",
                    proc_macro2::Delimiter::None => "",
                };
                out.push(json!({"t":"group","delim":d,"inner":tokens_json(g.stream())}))
            }
        }
    }
    Value::Array(out)
}

fn attr_json(a: &syn::Attribute) -> Value {
    let path = toks(a.path()).replace(' ', "");
    let (kind, tokens, value) = match &a.meta {
        syn::Meta::Path(_) => ("path", Value::Array(vec![]), Value::Null),
        syn::Meta::List(l) => ("list", tokens_json(l.tokens.clone()), Value::Null),
        syn::Meta::NameValue(nv) => ("namevalue", Value::Array(vec![]), expr_json(&nv.value)),
    };
    json!({"path":path,"kind":kind,"tokens":tokens,"value":value,"text":toks(a),"line":line_of(a)})
}

fn attrs_json(attrs: &[syn::Attribute]) -> Value {
    Value::Array(attrs.iter().map(attr_json).collect())
}

fn generic_arg_json(a: &syn::GenericArgument) -> Value {
    match a {
        syn::GenericArgument::Type(t) => json!({"k":"type","ty":type_json(t)}),
        syn::GenericArgument::AssocType(at) => json!({"k":"assoc","name":at.ident.to_string(),"ty":type_json(&at.ty)}),
        syn::GenericArgument::Lifetime(l) => json!({"k":"lifetime","v":l.to_string()}),
        syn::GenericArgument::Const(e) => json!({"k":"const","e":expr_json(e)}),
        other => json!({"k":"other","text":toks(other)}),
    }
}

fn path_json(p: &syn::Path) -> Value {
    let segs: Vec<Value> = p
        .segments
        .iter()
        .map(|s| {
            let args = match &s.arguments {
                syn::PathArguments::None => Value::Array(vec![]),
                syn::PathArguments::AngleBracketed(ab) => Value::Array(ab.args.iter().map(generic_arg_json).collect()),
                syn::PathArguments::Parenthesized(p) => json!([{"k":"other","text":toks(p)}]),
            };
            json!({"id":s.ident.to_string(),"args":args})
        })
        .collect();
    json!({"segs":segs,"global":p.leading_colon.is_some(),"text":toks(p).replace(' ', "")})
}

fn qself_json(q: &Option<syn::QSelf>) -> Value {
    match q {
        None => Value::Null,
        Some(q) => json!({"ty":type_json(&q.ty),"position":q.position}),
    }
}

fn type_json(t: &syn::Type) -> Value {
    match t {
        syn::Type::Path(tp) => json!({"k":"path","qself":qself_json(&tp.qself),"path":path_json(&tp.path),"text":toks(t)}),
        syn::Type::Reference(r) => json!({"k":"ref","mutable":r.mutability.is_some(),"elem":type_json(&r.elem),"text":toks(t)}),
        syn::Type::Tuple(tu) => json!({"k":"tuple","elems":tu.elems.iter().map(type_json).collect::<Vec<_>>(),"text":toks(t)}),
        syn::Type::Array(a) => json!({"k":"array","elem":type_json(&a.elem),"len":expr_json(&a.len),"text":toks(t)}),
        syn::Type::Paren(p) => type_json(&p.elem),
        syn::Type::Group(g) => type_json(&g.elem),
        other => json!({"k":"other","text":toks(other)}),
    }
}

fn pat_json(p: &syn::Pat) -> Value {
    match p {
        syn::Pat::Ident(pi) => json!({"k":"ident","id":pi.ident.to_string(),"by_ref":pi.by_ref.is_some(),"mutable":pi.mutability.is_some()}),
        syn::Pat::Wild(_) => json!({"k":"wild"}),
        syn::Pat::Path(pp) => json!({"k":"path","path":path_json(&pp.path)}),
        syn::Pat::Lit(l) => json!({"k":"lit","e":expr_json(&syn::Expr::Lit(l.clone()))}),
        syn::Pat::TupleStruct(ts) => json!({"k":"tuplestruct","path":path_json(&ts.path),"elems":ts.elems.iter().map(pat_json).collect::<Vec<_>>()}),
        syn::Pat::Tuple(t) => json!({"k":"tuple","elems":t.elems.iter().map(pat_json).collect::<Vec<_>>()}),
        syn::Pat::Reference(r) => json!({"k":"ref","pat":pat_json(&r.pat)}),
        syn::Pat::Type(t) => json!({"k":"typed","pat":pat_json(&t.pat),"ty":type_json(&t.ty)}),
        syn::Pat::Paren(p) => pat_json(&p.pat),
        other => json!({"k":"other","text":toks(other)}),
    }
}

fn block_json(b: &syn::Block) -> Value {
    Value::Array(b.stmts.iter().map(stmt_json).collect())
}

fn stmt_json(s: &syn::Stmt) -> Value {
    match s {
        syn::Stmt::Local(l) => {
            let (init, diverge) = match &l.init {
                None => (Value::Null, Value::Null),
                Some(i) => (
                    expr_json(&i.expr),
                    match &i.diverge {
                        None => Value::Null,
                        Some((_, e)) => expr_json(e),
                    },
                ),
            };
            json!({"k":"let","attrs":attrs_json(&l.attrs),"pat":pat_json(&l.pat),"init":init,"diverge":diverge,"line":line_of(l)})
        }
        syn::Stmt::Item(i) => json!({"k":"item","item":item_json(i)}),
        syn::Stmt::Expr(e, semi) => json!({"k":"expr","e":expr_json(e),"semi":semi.is_some(),"line":line_of(e)}),
        syn::Stmt::Macro(m) => json!({"k":"expr","e":mac_json(&m.mac),"semi":m.semi_token.is_some(),"line":line_of(m)}),
    }
}

fn mac_json(m: &syn::Macro) -> Value {
    // macro arguments parsed as a comma separated expression list when possible
    let name = toks(&m.path).replace(' ', "");
    let parser = syn::punctuated::Punctuated::<syn::Expr, syn::Token![,]>::parse_terminated;
    let args = match syn::parse::Parser::parse2(parser, m.tokens.clone()) {
        Ok(p) => Value::Array(p.iter().map(expr_json).collect()),
        Err(_) => Value::Null,
    };
    json!({"k":"macro","name":name,"args":args,"tokens":tokens_json(m.tokens.clone()),"text":toks(m)})
}

fn expr_json(e: &syn::Expr) -> Value {
    use syn::Expr::*;
    match e {
        Lit(l) => json!({"k":"lit","lit":lit_json(&l.lit)}),
        Path(p) => json!({"k":"path","qself":qself_json(&p.qself),"path":path_json(&p.path)}),
        MethodCall(m) => json!({"k":"mcall","recv":expr_json(&m.receiver),"method":m.method.to_string(),
            "turbofish": m.turbofish.as_ref().map(|t| toks(t)),
            "args":m.args.iter().map(expr_json).collect::<Vec<_>>(),"line":line_of(m)}),
        Call(c) => json!({"k":"call","func":expr_json(&c.func),"args":c.args.iter().map(expr_json).collect::<Vec<_>>(),"line":line_of(c)}),
        Binary(b) => json!({"k":"binary","op":toks(&b.op),"l":expr_json(&b.left),"r":expr_json(&b.right),"line":line_of(b)}),
        Assign(a) => json!({"k":"assign","l":expr_json(&a.left),"r":expr_json(&a.right)}),
        Unary(u) => json!({"k":"unary","op":toks(&u.op),"e":expr_json(&u.expr)}),
        Reference(r) => json!({"k":"ref","mutable":r.mutability.is_some(),"e":expr_json(&r.expr)}),
        Paren(p) => json!({"k":"paren","e":expr_json(&p.expr)}),
        Group(g) => expr_json(&g.expr),
        Field(f) => json!({"k":"field","base":expr_json(&f.base),"member":toks(&f.member)}),
        If(i) => json!({"k":"if","cond":expr_json(&i.cond),"then":block_json(&i.then_branch),
            "else": i.else_branch.as_ref().map(|(_, e)| expr_json(e)),"line":line_of(i)}),
        Let(l) => json!({"k":"letcond","pat":pat_json(&l.pat),"e":expr_json(&l.expr)}),
        Block(b) => json!({"k":"block","stmts":block_json(&b.block)}),
        Match(m) => json!({"k":"match","e":expr_json(&m.expr),"arms":m.arms.iter().map(|a| json!({
            "pat":pat_json(&a.pat),"guard":a.guard.as_ref().map(|(_, g)| expr_json(g)),"body":expr_json(&a.body)})).collect::<Vec<_>>(),"line":line_of(m)}),
        Return(r) => json!({"k":"return","e":r.expr.as_ref().map(|e| expr_json(e)),"line":line_of(r)}),
        Closure(c) => json!({"k":"closure","params":c.inputs.iter().map(pat_json).collect::<Vec<_>>(),"body":expr_json(&c.body)}),
        Struct(s) => json!({"k":"struct","path":path_json(&s.path),"fields":s.fields.iter().map(|f| json!({
            "member":toks(&f.member),"e":expr_json(&f.expr)})).collect::<Vec<_>>(),"rest":s.rest.as_ref().map(|r| expr_json(r))}),
        Tuple(t) => json!({"k":"tuple","elems":t.elems.iter().map(expr_json).collect::<Vec<_>>()}),
        Array(a) => json!({"k":"array","elems":a.elems.iter().map(expr_json).collect::<Vec<_>>()}),
        Cast(c) => json!({"k":"cast","e":expr_json(&c.expr),"ty":type_json(&c.ty)}),
        Macro(m) => mac_json(&m.mac),
        Try(t) => json!({"k":"try","e":expr_json(&t.expr)}),
        Index(i) => json!({"k":"index","e":expr_json(&i.expr),"index":expr_json(&i.index)}),
        other => json!({"k":"other","text":toks(other),"line":line_of(other)}),
    }
}

fn generics_json(g: &syn::Generics) -> Value {
    let params: Vec<Value> = g
        .params
        .iter()
        .map(|p| match p {
            syn::GenericParam::Type(t) => json!({"k":"type","id":t.ident.to_string(),
                "bounds":t.bounds.iter().map(|b| toks(b)).collect::<Vec<_>>()}),
            syn::GenericParam::Lifetime(l) => json!({"k":"lifetime","id":l.lifetime.to_string()}),
            syn::GenericParam::Const(c) => json!({"k":"const","id":c.ident.to_string(),"ty":type_json(&c.ty)}),
        })
        .collect();
    let wh: Vec<Value> = match &g.where_clause {
        None => vec![],
        Some(w) => w
            .predicates
            .iter()
            .map(|p| match p {
                syn::WherePredicate::Type(t) => json!({"ty":type_json(&t.bounded_ty),
                    "bounds":t.bounds.iter().map(|b| toks(b)).collect::<Vec<_>>(),"text":toks(p)}),
                other => json!({"text":toks(other)}),
            })
            .collect(),
    };
    json!({"params":params,"where":wh})
}

fn sig_json(s: &syn::Signature) -> Value {
    let inputs: Vec<Value> = s
        .inputs
        .iter()
        .map(|a| match a {
            syn::FnArg::Receiver(r) => json!({"k":"self","by_ref":r.reference.is_some(),"mutable":r.mutability.is_some()}),
            syn::FnArg::Typed(t) => json!({"k":"typed","pat":pat_json(&t.pat),"ty":type_json(&t.ty)}),
        })
        .collect();
    let out = match &s.output {
        syn::ReturnType::Default => Value::Null,
        syn::ReturnType::Type(_, t) => type_json(t),
    };
    json!({"name":s.ident.to_string(),"inputs":inputs,"output":out,"generics":generics_json(&s.generics),
           "constness":s.constness.is_some()})
}

fn fields_json(f: &syn::Fields) -> Value {
    Value::Array(
        f.iter()
            .map(|fd| json!({"id":fd.ident.as_ref().map(|i| i.to_string()),"ty":type_json(&fd.ty),"vis":toks(&fd.vis),"attrs":attrs_json(&fd.attrs)}))
            .collect(),
    )
}

fn impl_item_json(i: &syn::ImplItem) -> Value {
    match i {
        syn::ImplItem::Fn(f) => json!({"k":"fn","attrs":attrs_json(&f.attrs),"vis":toks(&f.vis),"sig":sig_json(&f.sig),
            "body":block_json(&f.block),"line":line_of(f),"text":toks(f)}),
        syn::ImplItem::Const(c) => json!({"k":"const","attrs":attrs_json(&c.attrs),"id":c.ident.to_string(),"ty":type_json(&c.ty),"e":expr_json(&c.expr)}),
        syn::ImplItem::Type(t) => json!({"k":"type","id":t.ident.to_string(),"ty":type_json(&t.ty)}),
        other => json!({"k":"other","text":toks(other)}),
    }
}

fn trait_item_json(i: &syn::TraitItem) -> Value {
    match i {
        syn::TraitItem::Fn(f) => json!({"k":"fn","attrs":attrs_json(&f.attrs),"sig":sig_json(&f.sig),
            "body":f.default.as_ref().map(|b| block_json(b)),"line":line_of(f),"text":toks(f)}),
        syn::TraitItem::Const(c) => json!({"k":"const","id":c.ident.to_string(),"ty":type_json(&c.ty),
            "e":c.default.as_ref().map(|(_, e)| expr_json(e))}),
        syn::TraitItem::Type(t) => json!({"k":"type","id":t.ident.to_string(),"bounds":t.bounds.iter().map(|b| toks(b)).collect::<Vec<_>>()}),
        other => json!({"k":"other","text":toks(other)}),
    }
}

fn use_tree_paths(t: &syn::UseTree, prefix: &str, out: &mut Vec<String>) {
    match t {
        syn::UseTree::Path(p) => use_tree_paths(&p.tree, &format!("{}{}::", prefix, p.ident), out),
        syn::UseTree::Name(n) => out.push(format!("{}{}", prefix, n.ident)),
        syn::UseTree::Rename(r) => out.push(format!("{}{}", prefix, r.ident)),
        syn::UseTree::Glob(_) => out.push(format!("{}*", prefix)),
        syn::UseTree::Group(g) => {
            for i in &g.items {
                use_tree_paths(i, prefix, out)
            }
        }
    }
}

fn item_json(i: &syn::Item) -> Value {
    match i {
        syn::Item::Struct(s) => json!({"k":"struct","attrs":attrs_json(&s.attrs),"vis":toks(&s.vis),"id":s.ident.to_string(),
            "generics":generics_json(&s.generics),"fields":fields_json(&s.fields),"line":line_of(s)}),
        syn::Item::Enum(e) => json!({"k":"enum","attrs":attrs_json(&e.attrs),"vis":toks(&e.vis),"id":e.ident.to_string(),
            "variants":e.variants.iter().map(|v| json!({"id":v.ident.to_string(),"attrs":attrs_json(&v.attrs),
                "fields":fields_json(&v.fields),
                "discriminant":v.discriminant.as_ref().map(|(_, d)| expr_json(d))})).collect::<Vec<_>>(),"line":line_of(e)}),
        syn::Item::Impl(im) => json!({"k":"impl","attrs":attrs_json(&im.attrs),"generics":generics_json(&im.generics),
            "trait":im.trait_.as_ref().map(|(neg, p, _)| json!({"neg":neg.is_some(),"path":path_json(p)})),
            "self_ty":type_json(&im.self_ty),"items":im.items.iter().map(impl_item_json).collect::<Vec<_>>(),"line":line_of(im)}),
        syn::Item::Trait(t) => json!({"k":"trait","attrs":attrs_json(&t.attrs),"id":t.ident.to_string(),"generics":generics_json(&t.generics),
            "supertraits":t.supertraits.iter().map(|b| toks(b)).collect::<Vec<_>>(),
            "items":t.items.iter().map(trait_item_json).collect::<Vec<_>>(),"line":line_of(t)}),
        syn::Item::Const(c) => json!({"k":"const","attrs":attrs_json(&c.attrs),"vis":toks(&c.vis),"id":c.ident.to_string(),
            "ty":type_json(&c.ty),"e":expr_json(&c.expr),"line":line_of(c)}),
        syn::Item::Fn(f) => json!({"k":"fn","attrs":attrs_json(&f.attrs),"vis":toks(&f.vis),"sig":sig_json(&f.sig),
            "body":block_json(&f.block),"line":line_of(f)}),
        syn::Item::Use(u) => {
            let mut paths = vec![];
            use_tree_paths(&u.tree, "", &mut paths);
            json!({"k":"use","attrs":attrs_json(&u.attrs),"vis":toks(&u.vis),"paths":paths,"global":u.leading_colon.is_some(),"line":line_of(u)})
        }
        syn::Item::Mod(m) => json!({"k":"mod","attrs":attrs_json(&m.attrs),"vis":toks(&m.vis),"id":m.ident.to_string(),
            "inline":m.content.is_some(),
            "items":m.content.as_ref().map(|(_, items)| items.iter().map(item_json).collect::<Vec<_>>()),"line":line_of(m)}),
        syn::Item::Type(t) => json!({"k":"type","attrs":attrs_json(&t.attrs),"vis":toks(&t.vis),"id":t.ident.to_string(),"ty":type_json(&t.ty)}),
        syn::Item::Macro(m) => json!({"k":"macro_item","attrs":attrs_json(&m.attrs),"id":m.ident.as_ref().map(|i| i.to_string()),
            "name":toks(&m.mac.path),"tokens":tokens_json(m.mac.tokens.clone())}),
        syn::Item::ExternCrate(e) => json!({"k":"extern_crate","id":e.ident.to_string()}),
        other => json!({"k":"other","text":toks(other)}),
    }
}

fn file_json(f: &syn::File) -> Value {
    json!({"attrs":attrs_json(&f.attrs),"items":f.items.iter().map(item_json).collect::<Vec<_>>()})
}

// ---------------------------------------------------------------------------
// running the repository's macro as a library

fn panic_message(p: Box<dyn std::any::Any + Send>) -> String {
    if let Some(s) = p.downcast_ref::<String>() {
        s.clone()
    } else if let Some(s) = p.downcast_ref::<&str>() {
        (*s).to_string()
    } else {
        "abort".to_string()
    }
}

/// Expands one attributed item exactly as `qty_macros::quantity` does:
///   let mut item_ast = parse_item(item); let mut qty_def = analyze(&mut item_ast);
///   qty_def.derived_as = parse_args(args); codegen(&qty_def, &item_ast.attrs)
fn expand(args: TokenStream, item: TokenStream) -> Result<TokenStream, String> {
    let r = panic::catch_unwind(move || {
        let mut item_ast = quantity_attr_helper::parse_item(item);
        let mut qty_def = quantity_attr_helper::analyze(&mut item_ast);
        qty_def.derived_as = quantity_attr_helper::parse_args(args);
        quantity_attr_helper::codegen(&qty_def, &item_ast.attrs)
    });
    r.map_err(panic_message)
}

fn item_attrs_mut(i: &mut syn::Item) -> Option<&mut Vec<syn::Attribute>> {
    match i {
        syn::Item::Struct(s) => Some(&mut s.attrs),
        syn::Item::Enum(s) => Some(&mut s.attrs),
        syn::Item::Fn(s) => Some(&mut s.attrs),
        syn::Item::Type(s) => Some(&mut s.attrs),
        syn::Item::Const(s) => Some(&mut s.attrs),
        syn::Item::Union(s) => Some(&mut s.attrs),
        syn::Item::Mod(s) => Some(&mut s.attrs),
        syn::Item::Trait(s) => Some(&mut s.attrs),
        _ => None,
    }
}

fn is_quantity_attr(a: &syn::Attribute) -> bool {
    a.path().is_ident("quantity")
}

/// All `#[quantity]`-attributed items of a file (top level and inside inline
/// modules / fn bodies are not searched: catalogue definitions are top level).
fn quantity_defs(file: &syn::File, fname: &str) -> Vec<Value> {
    let mut out = vec![];
    quantity_defs_in(&file.items, fname, "", &mut out);
    out
}

fn quantity_defs_in(items: &[syn::Item], fname: &str, modpath: &str, out: &mut Vec<Value>) {
    for item in items {
        if let syn::Item::Mod(m) = item {
            if let Some((_, inner)) = &m.content {
                if !m.attrs.iter().any(|a| toks(a).contains("test")) {
                    quantity_defs_in(inner, fname, &format!("{}{}::", modpath, m.ident), out);
                }
                continue;
            }
        }
        let mut item = item.clone();
        let raw = item_json(&item);
        let line = match &item {
            syn::Item::Struct(s) => line_of(s),
            _ => 0,
        };
        let attrs = match item_attrs_mut(&mut item) {
            Some(a) => a,
            None => continue,
        };
        let pos = match attrs.iter().position(is_quantity_attr) {
            Some(p) => p,
            None => continue,
        };
        // attributes written before #[quantity] are handled by rustc, those
        // after it are part of the macro input
        let qattr = attrs.remove(pos);
        let before: Vec<syn::Attribute> = attrs.drain(0..pos).collect();
        let args: TokenStream = match &qattr.meta {
            syn::Meta::Path(_) => TokenStream::new(),
            syn::Meta::List(l) => l.tokens.clone(),
            syn::Meta::NameValue(nv) => nv.value.to_token_stream(),
        };
        let args_json = tokens_json(args.clone());
        let ident = match &item {
            syn::Item::Struct(s) => s.ident.to_string(),
            syn::Item::Enum(s) => s.ident.to_string(),
            _ => String::new(),
        };
        let item_tokens = item.to_token_stream();
        let res = expand(args, item_tokens);
        let (ok, expanded, err, exp_text) = match res {
            Ok(ts) => match syn::parse2::<syn::File>(ts.clone()) {
                Ok(f) => (true, file_json(&f), Value::Null, ts.to_string()),
                Err(e) => (false, Value::Null, json!(format!("expansion does not parse: {}", e)), ts.to_string()),
            },
            Err(m) => (false, Value::Null, json!(m), String::new()),
        };
        out.push(json!({"file":fname,"modpath":modpath,"line":line,"ident":ident,"args":args_json,"raw":raw,
            "attrs_before": attrs_json(&before),
            "ok":ok,"expanded":expanded,"error":err,"expanded_text":exp_text}));
    }
}

fn parse_file(path: &Path) -> syn::File {
    let text = fs::read_to_string(path).unwrap_or_else(|e| panic!("cannot read {}: {}", path.display(), e));
    syn::parse_file(&text).unwrap_or_else(|e| panic!("cannot parse {}: {}", path.display(), e))
}

fn dump(repo: &str, extra: &[String]) -> Value {
    let mut files = serde_json::Map::new();
    let mut quantities = vec![];
    let mut rels: Vec<String> = vec![];
    let mut srcs: Vec<_> = fs::read_dir(Path::new(repo).join("src")).unwrap().map(|e| e.unwrap().file_name().into_string().unwrap()).collect();
    srcs.sort();
    for f in srcs {
        if f.ends_with(".rs") {
            rels.push(format!("src/{}", f));
        }
    }
    rels.push("astronimical_quantities/src/lib.rs".to_string());
    rels.push("qty-macros/src/lib.rs".to_string());
    for rel in &rels {
        let file = parse_file(&Path::new(repo).join(rel));
        files.insert(rel.clone(), file_json(&file));
        if rel != "qty-macros/src/lib.rs" {
            quantities.extend(quantity_defs(&file, rel));
        }
    }
    let mut synthetic = vec![];
    for x in extra {
        let file = parse_file(Path::new(x));
        synthetic.extend(quantity_defs(&file, x));
    }
    json!({"repo":repo,"files":Value::Object(files),"quantities":quantities,"synthetic":synthetic})
}

fn main() {
    // the repository's abort!() panics outside a proc-macro context; keep the
    // default hook from printing a backtrace line for each expected rejection
    panic::set_hook(Box::new(|_| {}));
    let args: Vec<String> = env::args().collect();
    if args.len() < 3 {
        eprintln!("usage: rs2j dump <repo> [synthetic.rs ...] | rs2j expand <file.rs>");
        std::process::exit(2);
    }
    let v = match args[1].as_str() {
        "dump" => dump(&args[2], &args[3..]),
        "expand" => {
            let text = fs::read_to_string(&args[2]).unwrap();
            match syn::parse_file(&text) {
                Ok(file) => json!({"ok":true,"defs":quantity_defs(&file, &args[2])}),
                Err(e) => json!({"ok":false,"error":e.to_string()}),
            }
        }
        _ => {
            eprintln!("unknown mode");
            std::process::exit(2);
        }
    };
    println!("{}", serde_json::to_string(&v).unwrap());
}
