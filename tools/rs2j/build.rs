// Copies the repository's macro helper next to this crate's build output so
// that `main.rs` can `include!` it: rs2j does not re-implement the macro, it
// runs the repository's current `parse_item`/`analyze`/`parse_args`/`codegen`.
use std::{env, fs, path::PathBuf};

fn main() {
    let repo = env::var("VERIF_REPO").unwrap_or_else(|_| "/repo".to_string());
    let src = PathBuf::from(&repo).join("qty-macros/src/quantity_attr_helper.rs");
    let out = PathBuf::from(env::var("OUT_DIR").unwrap()).join("quantity_attr_helper.rs");
    let text = fs::read_to_string(&src).expect("cannot read quantity_attr_helper.rs");
    fs::write(&out, text).unwrap();
    println!("cargo:rerun-if-changed={}", src.display());
    println!("cargo:rerun-if-env-changed=VERIF_REPO");
}
