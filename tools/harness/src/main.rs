// qh — harness driving the real implementation.  Reads one operation per line
// from stdin, executes it under catch_unwind, prints one canonical result line.
#![allow(dead_code, unused_imports, unused_macros, non_snake_case)]
use quantities::prelude::*;
use quantities::{AmountT, HasRefUnit, LinearScaledUnit, Quantity, SIPrefix, Unit, AMNT_ONE, AMNT_ZERO};
use std::io::{self, BufRead, Write};
use std::panic::{self, AssertUnwindSafe};

mod amt;
mod drv;
mod fmtgen;
use drv::*;
use amt::*;

include!(concat!(env!("QH_GEN_DIR"), "/gen.rs"));


fn prefix_str(p: Option<SIPrefix>) -> String {
    match p {
        None => "None".to_string(),
        Some(p) => format!("Some {:?}", p),
    }
}

fn do_prefix(args: &[&str]) -> String {
    match args[0] {
        "iter" => SIPrefix::iter().map(|p| format!("{:?}", p)).collect::<Vec<_>>().join(" "),
        "table" => SIPrefix::iter()
            .map(|p| format!("{:?}|Some {}|Some {}|{}", p, cps(p.name()), cps(p.abbr()), p.exp()))
            .collect::<Vec<_>>()
            .join(" ; "),
        "from_exp" => {
            let e: i8 = args[1].parse().unwrap();
            prefix_str(SIPrefix::from_exp(e))
        }
        "from_abbr" => {
            let s = uncps(args.get(1).copied().unwrap_or("\"\""));
            prefix_str(SIPrefix::from_abbr(&s))
        }
        _ => "ERR unknown prefix op".to_string(),
    }
}

fn dispatch(line: &str) -> String {
    let parts: Vec<&str> = line.split_whitespace().collect();
    if parts.is_empty() {
        return String::new();
    }
    match parts[0] {
        "prefix" => do_prefix(&parts[1..]),
        "tconv" => do_tconv(&parts[1..]),
        _ => gen_dispatch(&parts),
    }
}

fn main() {
    panic::set_hook(Box::new(|_| {}));
    let stdin = io::stdin();
    let stdout = io::stdout();
    let mut out = io::BufWriter::new(stdout.lock());
    for line in stdin.lock().lines() {
        let line = line.unwrap();
        let r = panic::catch_unwind(AssertUnwindSafe(|| dispatch(&line)));
        match r {
            Ok(s) => writeln!(out, "{}", s).unwrap(),
            Err(_) => writeln!(out, "PANIC").unwrap(),
        }
    }
}
