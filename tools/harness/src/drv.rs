// generic drivers: one operation on one quantity type, result as canonical text
use crate::amt::*;
use quantities::prelude::*;
use quantities::{AmountT, Converter, ConversionTable, HasRefUnit, LinearScaledUnit, Quantity, Rate, SIPrefix, Unit, AMNT_ONE};
use std::ops::{Add, Div, Mul, Sub};

pub fn cps(s: &str) -> String {
    let v: Vec<String> = s.chars().map(|c| (c as u32).to_string()).collect();
    format!("<{}>", v.join(" "))
}

pub fn uncps(s: &str) -> String {
    // argument form: "12_34_56" (quotes optional)
    let t = s.trim_matches('"');
    t.split('_').filter(|x| !x.is_empty()).map(|x| char::from_u32(x.parse::<u32>().unwrap()).unwrap()).collect()
}

pub fn unit_at<Q: Quantity>(i: &str) -> Q::UnitType {
    Q::iter_units().nth(i.parse::<usize>().unwrap()).expect("unit index out of range")
}

pub fn unit_ix<Q: Quantity>(u: Q::UnitType) -> usize {
    Q::iter_units().position(|x| x == u).expect("unit not in iteration")
}

pub fn qty<Q: Quantity>(a: &str, u: &str) -> Q {
    Q::new(amt_parse(a), unit_at::<Q>(u))
}

pub fn show_q<Q: Quantity>(q: Q) -> String {
    format!("{} {}", amt_show(q.amount()), unit_ix::<Q>(q.unit()))
}

pub fn show_ou<Q: Quantity>(u: Option<Q::UnitType>) -> String {
    match u {
        None => "None".to_string(),
        Some(u) => format!("Some {}", unit_ix::<Q>(u)),
    }
}

pub fn show_ord(o: Option<core::cmp::Ordering>) -> String {
    match o {
        None => "None".to_string(),
        Some(o) => format!("Some {:?}", o),
    }
}

pub fn show_prefix(p: Option<SIPrefix>) -> String {
    match p {
        None => "None".to_string(),
        Some(p) => format!("Some {:?}", p),
    }
}

/// format flags:  fill(code point) align(- < > ^) plus(0/1) zero(0/1) width|- precision|-
pub fn fmt_with<T: std::fmt::Display>(f: &[&str], x: T) -> String {
    let opt = |s: &str| if s == "-" { None } else { Some(s.parse::<usize>().unwrap()) };
    match crate::fmtgen::fmt_any(f[0].parse().unwrap(), f[1].chars().next().unwrap(), f[2] == "1", f[3] == "1", opt(f[4]), opt(f[5]), x) {
        Some(s) => cps(&s),
        None => "UNSUPPORTED".to_string(),
    }
}

/// operations every quantity type supports
pub fn do_common<Q>(op: &str, a: &[&str]) -> Option<String>
where
    Q: Quantity + Mul<AmountT, Output = Q> + Div<AmountT, Output = Q> + std::fmt::Display,
    AmountT: Mul<Q, Output = Q> + Mul<Q::UnitType, Output = Q>,
    Q::UnitType: Mul<AmountT, Output = Q>,
{
    Some(match op {
        "units" => Q::iter_units()
            .map(|u| format!("{}|{}|{}", cps(&u.name()), cps(&u.symbol()), show_prefix(u.si_prefix())))
            .collect::<Vec<_>>()
            .join(" ; "),
        "unit_iter" => <Q::UnitType as Unit>::iter().map(|u| unit_ix::<Q>(u).to_string()).collect::<Vec<_>>().join(" "),
        "new" => show_q(Q::new(amt_parse(a[0]), unit_at::<Q>(a[1]))),
        "aunit" => show_q::<Q>(amt_parse(a[0]) * unit_at::<Q>(a[1])),
        "unita" => show_q::<Q>(unit_at::<Q>(a[1]) * amt_parse(a[0])),
        "smul_l" => show_q::<Q>(amt_parse(a[0]) * qty::<Q>(a[1], a[2])),
        "smul_r" => show_q::<Q>(qty::<Q>(a[1], a[2]) * amt_parse(a[0])),
        "sdiv" => show_q::<Q>(qty::<Q>(a[1], a[2]) / amt_parse(a[0])),
        "from_symbol" => show_ou::<Q>(<Q::UnitType as Unit>::from_symbol(&uncps(a.get(0).copied().unwrap_or("")))),
        "unit_from_symbol" => show_ou::<Q>(Q::unit_from_symbol(&uncps(a.get(0).copied().unwrap_or("")))),
        "as_qty" => show_q::<Q>(unit_at::<Q>(a[0]).as_qty()),
        "fmt" => fmt_with(&a[2..8], qty::<Q>(a[0], a[1])),
        "ufmt" => fmt_with(&a[1..7], unit_at::<Q>(a[0])),
        _ => return None,
    })
}

/// + - / between values of one type, through the operator impls
pub fn do_arith<Q>(op: &str, a: &[&str]) -> Option<String>
where
    Q: Quantity + Add<Q, Output = Q> + Sub<Q, Output = Q> + Div<Q, Output = AmountT>,
{
    Some(match op {
        "add" => show_q::<Q>(qty::<Q>(a[0], a[1]) + qty::<Q>(a[2], a[3])),
        "sub" => show_q::<Q>(qty::<Q>(a[0], a[1]) - qty::<Q>(a[2], a[3])),
        "div" => amt_show(qty::<Q>(a[0], a[1]) / qty::<Q>(a[2], a[3])),
        _ => return None,
    })
}

pub fn do_cmp<Q>(op: &str, a: &[&str]) -> Option<String>
where
    Q: Quantity + PartialEq + PartialOrd,
{
    let f = |a: &[&str]| (qty::<Q>(a[0], a[1]), qty::<Q>(a[2], a[3]));
    Some(match op {
        "eq" => { let (x, y) = f(a); (x == y).to_string() }
        "ne" => { let (x, y) = f(a); (x != y).to_string() }
        "lt" => { let (x, y) = f(a); (x < y).to_string() }
        "le" => { let (x, y) = f(a); (x <= y).to_string() }
        "gt" => { let (x, y) = f(a); (x > y).to_string() }
        "ge" => { let (x, y) = f(a); (x >= y).to_string() }
        "cmp" => { let (x, y) = f(a); show_ord(PartialOrd::partial_cmp(&x, &y)) }
        _ => return None,
    })
}

pub fn do_ref<Q>(op: &str, a: &[&str]) -> Option<String>
where
    Q: HasRefUnit,
    Q::UnitType: LinearScaledUnit,
{
    Some(match op {
        "scales" => format!(
            "{} REF={} {}",
            Q::iter_units().map(|u| amt_show(u.scale())).collect::<Vec<_>>().join(" "),
            unit_ix::<Q>(<Q as HasRefUnit>::REF_UNIT),
            unit_ix::<Q>(<Q::UnitType as LinearScaledUnit>::REF_UNIT)
        ),
        "convert" => show_q::<Q>(qty::<Q>(a[0], a[1]).convert(unit_at::<Q>(a[2]))),
        "equiv" => amt_show(qty::<Q>(a[0], a[1]).equiv_amount(unit_at::<Q>(a[2]))),
        "fit" => show_q::<Q>(Q::_fit(amt_parse(a[0]))),
        "from_scale" => show_ou::<Q>(<Q::UnitType as LinearScaledUnit>::from_scale(amt_parse(a[0]))),
        "unit_from_scale" => show_ou::<Q>(Q::unit_from_scale(amt_parse(a[0]))),
        "is_ref" => unit_at::<Q>(a[0]).is_ref_unit().to_string(),
        "ratio" => amt_show(unit_at::<Q>(a[0]).ratio(&unit_at::<Q>(a[1]))),
        _ => return None,
    })
}

/// conversion table: rows given as  from to factor offset  quadruples after (amount unit to_unit)
pub fn do_conv<Q: Quantity>(a: &[&str]) -> String {
    let q = qty::<Q>(a[0], a[1]);
    let to = unit_at::<Q>(a[2]);
    let rows: Vec<(Q::UnitType, Q::UnitType, AmountT, AmountT)> =
        a[3..].chunks(4).map(|c| (unit_at::<Q>(c[0]), unit_at::<Q>(c[1]), amt_parse(c[2]), amt_parse(c[3]))).collect();
    macro_rules! with_n {
        ($($n:literal),*) => {
            match rows.len() {
                $($n => {
                    let mut arr = [(to, to, AMNT_ONE, AMNT_ONE); $n];
                    for (i, r) in rows.iter().enumerate() { arr[i] = *r; }
                    ConversionTable::<Q, $n> { mappings: arr }.convert(&q, to)
                })*
                _ => panic!("table size"),
            }
        };
    }
    let r = with_n!(0, 1, 2, 3, 4, 5, 6, 7, 8, 9, 10, 11, 12);
    match r {
        None => "None".to_string(),
        Some(x) => format!("Some {}", show_q::<Q>(x)),
    }
}

/// the predefined temperature table:  amount unit to_unit
pub fn do_tconv(a: &[&str]) -> String {
    use quantities::temperature::{Temperature, TEMPERATURE_CONVERTER};
    let q = qty::<Temperature>(a[0], a[1]);
    let to = unit_at::<Temperature>(a[2]);
    match TEMPERATURE_CONVERTER.convert(&q, to) {
        None => "None".to_string(),
        Some(x) => format!("Some {}", show_q::<Temperature>(x)),
    }
}

pub fn show_rate<TQ: Quantity, PQ: Quantity>(r: Rate<TQ, PQ>) -> String {
    format!("{} {} {} {}", amt_show(r.term_amount()), unit_ix::<TQ>(r.term_unit()), amt_show(r.per_unit_multiple()), unit_ix::<PQ>(r.per_unit()))
}

pub fn mk_rate<TQ: Quantity, PQ: Quantity>(a: &[&str]) -> Rate<TQ, PQ> {
    Rate::<TQ, PQ>::new(amt_parse(a[0]), unit_at::<TQ>(a[1]), amt_parse(a[2]), unit_at::<PQ>(a[3]))
}

/// rate operations that need no operator impl of the quantity types
pub fn do_rate_basic<TQ: Quantity, PQ: Quantity>(op: &str, a: &[&str]) -> Option<String> {
    Some(match op {
        "rate_new" => show_rate(mk_rate::<TQ, PQ>(a)),
        "rate_from" => show_rate(Rate::<TQ, PQ>::from_qty_vals(qty::<TQ>(a[0], a[1]), qty::<PQ>(a[2], a[3]))),
        "rate_recip" => show_rate(mk_rate::<TQ, PQ>(a).reciprocal()),
        "rate_recip2" => show_rate(mk_rate::<TQ, PQ>(a).reciprocal().reciprocal()),
        "rate_str" => cps(&mk_rate::<TQ, PQ>(a).to_string()),
        _ => return None,
    })
}

// ---- per-path wrappers -----------------------------------------------------
pub fn ref_type<Q>(op: &str, a: &[&str]) -> String
where
    Q: HasRefUnit + PartialEq + PartialOrd + Add<Q, Output = Q> + Sub<Q, Output = Q> + Div<Q, Output = AmountT>
        + Mul<AmountT, Output = Q> + Div<AmountT, Output = Q> + std::fmt::Display,
    Q::UnitType: LinearScaledUnit + Mul<AmountT, Output = Q>,
    AmountT: Mul<Q, Output = Q> + Mul<Q::UnitType, Output = Q>,
{
    do_common::<Q>(op, a)
        .or_else(|| do_arith::<Q>(op, a))
        .or_else(|| do_cmp::<Q>(op, a))
        .or_else(|| do_ref::<Q>(op, a))
        .or_else(|| if op == "conv" { Some(do_conv::<Q>(a)) } else { None })
        .unwrap_or_else(|| "ERR unknown op".to_string())
}

pub fn noref_type<Q>(op: &str, a: &[&str]) -> String
where
    Q: Quantity + PartialEq + PartialOrd + Add<Q, Output = Q> + Sub<Q, Output = Q> + Div<Q, Output = AmountT>
        + Mul<AmountT, Output = Q> + Div<AmountT, Output = Q> + std::fmt::Display,
    Q::UnitType: Mul<AmountT, Output = Q>,
    AmountT: Mul<Q, Output = Q> + Mul<Q::UnitType, Output = Q>,
{
    do_common::<Q>(op, a)
        .or_else(|| do_arith::<Q>(op, a))
        .or_else(|| do_cmp::<Q>(op, a))
        .or_else(|| if op == "conv" { Some(do_conv::<Q>(a)) } else { None })
        .unwrap_or_else(|| "ERR unknown op".to_string())
}

pub fn single_type<Q>(op: &str, a: &[&str]) -> String
where
    Q: Quantity + Add<Q, Output = Q> + Sub<Q, Output = Q> + Div<Q, Output = AmountT> + Mul<AmountT, Output = Q> + Div<AmountT, Output = Q> + std::fmt::Display,
    Q::UnitType: Mul<AmountT, Output = Q>,
    AmountT: Mul<Q, Output = Q> + Mul<Q::UnitType, Output = Q>,
{
    do_common::<Q>(op, a)
        .or_else(|| do_arith::<Q>(op, a))
        .or_else(|| if op == "conv" { Some(do_conv::<Q>(a)) } else { None })
        .unwrap_or_else(|| "ERR unknown op".to_string())
}

// ---- serde (feature "serde") ------------------------------------------------
#[cfg(feature = "serde")]
pub fn do_serde<Q>(op: &str, a: &[&str]) -> Option<String>
where
    Q: Quantity + serde::Serialize + serde::de::DeserializeOwned,
    Q::UnitType: serde::Serialize + serde::de::DeserializeOwned,
{
    Some(match op {
        // JSON text of the value tree
        // the value tree, canonically: F<bits of the number> | S<string>, unit name, number of keys
        "ser" => {
            let v = serde_json::to_value(qty::<Q>(a[0], a[1])).unwrap();
            let am = &v["amount"];
            let at = if let Some(s) = am.as_str() { format!("S{}", cps(s)) }
                     else if let Some(x) = am.as_f64() { format!("F{:016x}", x.to_bits()) } else { format!("?{}", am) };
            let ut = match v.get("unit") { Some(u) => cps(u.as_str().unwrap_or("?")), None => "-".to_string() };
            format!("{} {} keys={}", at, ut, v.as_object().map(|o| o.len()).unwrap_or(0))
        }
        "ser_unit" => match serde_json::to_value(unit_at::<Q>(a[0])).unwrap().as_str() { Some(s) => cps(s), None => "?".to_string() },
        "ser_text" => cps(&serde_json::to_string(&qty::<Q>(a[0], a[1])).unwrap()),
        // through the value tree
        "rt_value" => {
            let v = serde_json::to_value(qty::<Q>(a[0], a[1])).unwrap();
            match serde_json::from_value::<Q>(v) { Ok(q) => show_q::<Q>(q), Err(_) => "DE-ERROR".to_string() }
        }
        // through JSON text, read back with an exactly rounding float parser (serde_json feature float_roundtrip)
        "rt_text" => {
            let s = serde_json::to_string(&qty::<Q>(a[0], a[1])).unwrap();
            match serde_json::from_str::<Q>(&s) { Ok(q) => show_q::<Q>(q), Err(_) => "DE-ERROR".to_string() }
        }
        "rt_unit" => {
            let v = serde_json::to_value(unit_at::<Q>(a[0])).unwrap();
            match serde_json::from_value::<Q::UnitType>(v) { Ok(u) => unit_ix::<Q>(u).to_string(), Err(_) => "DE-ERROR".to_string() }
        }
        _ => return None,
    })
}
