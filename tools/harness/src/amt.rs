// amount encoding: f64 as 16 hex digits of to_bits() (NaN canonicalised),
// Decimal as coeff/nfd
use quantities::AmountT;

#[cfg(not(feature = "fpdec"))]
pub fn amt_parse(s: &str) -> AmountT {
    f64::from_bits(u64::from_str_radix(s, 16).unwrap())
}
#[cfg(not(feature = "fpdec"))]
pub fn amt_show(a: AmountT) -> String {
    if a.is_nan() {
        "NaN".to_string()
    } else {
        format!("{:016x}", a.to_bits())
    }
}
#[cfg(feature = "fpdec")]
pub fn amt_parse(s: &str) -> AmountT {
    let (c, n) = s.split_once('/').unwrap();
    quantities::Decimal::new_raw(c.parse::<i128>().unwrap(), n.parse::<u8>().unwrap())
}
#[cfg(feature = "fpdec")]
pub fn amt_show(a: AmountT) -> String {
    format!("{}/{}", a.coefficient(), a.n_frac_digits())
}
