// Differential-test driver: executes fpdec::Decimal operations read from
// stdin (one per line) and prints one canonical result line per input line.
//
//   add|sub|mul|div <c1> <n1> <c2> <n2>   -> "<coeff> <nfd>" | PANIC
//   eq  <c1> <n1> <c2> <n2>               -> true | false
//   cmp <c1> <n1> <c2> <n2>               -> Lt | Eq | Gt | None
//   neg|abs <c> <n>                       -> "<coeff> <nfd>" | PANIC
//   tostr <c> <n>                         -> the string | PANIC
//   fromstr <text>                        -> "<coeff> <nfd>" | None   (text = rest of line, verbatim)
//   fromstrx <hex>                        -> same, text given as hex-encoded UTF-8 bytes
//   display <prec|-> <c> <n>              -> format!("{:.prec$}", d) / format!("{}", d) | PANIC
//   roundtrip <c> <n>                     -> Decimal::from_str(&String::from(d)) : "<coeff> <nfd>" | None | PANIC
//
// Operands are built with Decimal::new_raw.  Every operation runs under
// catch_unwind with a silent panic hook.  Build in the dev profile so that
// integer overflow checks are ON (the model describes debug behaviour).
use std::io::{self, BufRead, Write};
use std::panic::{catch_unwind, AssertUnwindSafe};
use std::str::FromStr;

use fpdec::Decimal;

fn dec(c: &str, n: &str) -> Decimal {
    let c: i128 = c.parse().unwrap_or_else(|_| bad_input("coefficient", c));
    let n: u8 = n.parse().unwrap_or_else(|_| bad_input("n_frac_digits", n));
    if n > 18 {
        bad_input("n_frac_digits", &n.to_string());
    }
    Decimal::new_raw(c, n)
}

fn bad_input(what: &str, text: &str) -> ! {
    eprintln!("dectest-driver: bad {}: {:?}", what, text);
    std::process::exit(2)
}

fn show(d: Decimal) -> String {
    format!("{} {}", d.coefficient(), d.n_frac_digits())
}

fn guarded<F: FnOnce() -> String>(f: F) -> String {
    match catch_unwind(AssertUnwindSafe(f)) {
        Ok(s) => s,
        Err(_) => "PANIC".to_string(),
    }
}

fn from_str_line(text: &str) -> String {
    guarded(|| match Decimal::from_str(text) {
        Ok(d) => show(d),
        Err(_) => "None".to_string(),
    })
}

fn run_line(line: &str) -> String {
    let (op, rest) = match line.find(' ') {
        Some(i) => (&line[..i], &line[i + 1..]),
        None => (line, ""),
    };
    match op {
        "fromstr" => return from_str_line(rest),
        "fromstrx" => {
            let bytes: Vec<u8> = (0..rest.len() / 2)
                .map(|i| u8::from_str_radix(&rest[2 * i..2 * i + 2], 16).unwrap())
                .collect();
            let text = String::from_utf8(bytes).expect("bad utf8");
            return from_str_line(&text);
        }
        _ => {}
    }
    let a: Vec<&str> = rest.split(' ').collect();
    match op {
        "add" | "sub" | "mul" | "div" => {
            let x = dec(a[0], a[1]);
            let y = dec(a[2], a[3]);
            guarded(|| {
                show(match op {
                    "add" => x + y,
                    "sub" => x - y,
                    "mul" => x * y,
                    _ => x / y,
                })
            })
        }
        "eq" => {
            let x = dec(a[0], a[1]);
            let y = dec(a[2], a[3]);
            guarded(|| format!("{}", x == y))
        }
        "cmp" => {
            let x = dec(a[0], a[1]);
            let y = dec(a[2], a[3]);
            guarded(|| match x.partial_cmp(&y) {
                Some(std::cmp::Ordering::Less) => "Lt".to_string(),
                Some(std::cmp::Ordering::Equal) => "Eq".to_string(),
                Some(std::cmp::Ordering::Greater) => "Gt".to_string(),
                None => "None".to_string(),
            })
        }
        "neg" => {
            let x = dec(a[0], a[1]);
            guarded(|| show(-x))
        }
        "abs" => {
            let x = dec(a[0], a[1]);
            guarded(|| show(x.abs()))
        }
        "tostr" => {
            let x = dec(a[0], a[1]);
            guarded(|| String::from(x))
        }
        "roundtrip" => {
            let x = dec(a[0], a[1]);
            guarded(|| match Decimal::from_str(&String::from(x)) {
                Ok(d) => show(d),
                Err(_) => "None".to_string(),
            })
        }
        "display" => {
            let x = dec(a[1], a[2]);
            if a[0] == "-" {
                guarded(|| format!("{}", x))
            } else {
                let p: usize = a[0].parse().expect("bad prec");
                guarded(|| format!("{:.*}", p, x))
            }
        }
        _ => panic!("unknown op {:?}", op),
    }
}

fn main() {
    std::panic::set_hook(Box::new(|_| {}));
    let stdin = io::stdin();
    let stdout = io::stdout();
    let mut out = io::BufWriter::new(stdout.lock());
    for line in stdin.lock().lines() {
        let line = line.expect("read error");
        let line = line.trim_end_matches(['\r', '\n']);
        if line.is_empty() {
            writeln!(out).unwrap();
            continue;
        }
        let r = run_line(line);
        writeln!(out, "{}", r).unwrap();
    }
}
