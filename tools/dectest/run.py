#!/usr/bin/env python3
"""Differential test: Coq model of fpdec::Decimal (QV.Amount.DecModel) vs the
real crate (driver/, built in the dev profile = overflow checks on).

    run.py [--seed N] [--cases N] [--workdir DIR] [--jobs N] [--keep]

Generates test cases (structured ones first, then random ones up to --cases),
evaluates them in Coq (`Eval vm_compute`, sharded, in parallel) and with the
Rust driver, compares line by line and prints

    agree=<n> disagree=<n>

followed by the first disagreements.  Exit status 0 iff there is none.
`Dec!` literals need compile time: a lits.rs is generated and compiled with
rustc against the rlibs cargo built for the driver; literals the model says
are rejected are compiled one by one and must fail to compile.
"""
import argparse
import glob
import os
import random
import re
import subprocess
import sys
import time
from concurrent.futures import ThreadPoolExecutor

HERE = os.path.dirname(os.path.abspath(__file__))
COQ_ROOT = "/verif/coq"
TARGET_DIR = "/verif/build/target-dectest"
DRIVER_DIR = os.path.join(HERE, "driver")
SHARD = 1000

I128_MAX = 2 ** 127 - 1
I128_MIN = -(2 ** 127)

# ---------------------------------------------------------------- rendering


def zc(z):
    """a Z literal for Coq"""
    return "(%d)" % z if z < 0 else "%d" % z


def ustr_coq(s):
    return "[" + ";".join(str(ord(ch)) for ch in s) + "]%N"


BIN_OPS = {"add": "Tadd", "sub": "Tsub", "mul": "Tmul", "div": "Tdiv", "eq": "Teq", "cmp": "Tcmp"}
UN_OPS = {"neg": "Tneg", "abs": "Tabs", "tostr": "Ttostr", "roundtrip": "Troundtrip"}


def case_coq(c):
    op = c[0]
    if op in BIN_OPS:
        return "%s %s %s %s %s" % (BIN_OPS[op], zc(c[1]), zc(c[2]), zc(c[3]), zc(c[4]))
    if op in UN_OPS:
        return "%s %s %s" % (UN_OPS[op], zc(c[1]), zc(c[2]))
    if op == "fromstr":
        return "Tfromstr %s" % ustr_coq(c[1])
    if op == "display":
        p = "None" if c[1] is None else "(Some %d%%N)" % c[1]
        return "Tdisplay %s %s %s" % (p, zc(c[2]), zc(c[3]))
    if op == "lit":
        # ("lit", text, neg, digits, exp, is_int)
        return "Tlit %s %s %s %s" % ("true" if c[2] else "false", zc(c[3]), zc(c[4]),
                                     "true" if c[5] else "false")
    raise ValueError(op)


def case_driver(c):
    op = c[0]
    if op in BIN_OPS:
        return "%s %d %d %d %d" % (op, c[1], c[2], c[3], c[4])
    if op in UN_OPS:
        return "%s %d %d" % (op, c[1], c[2])
    if op == "fromstr":
        return "fromstrx " + c[1].encode("utf-8").hex()
    if op == "display":
        return "display %s %d %d" % ("-" if c[1] is None else str(c[1]), c[2], c[3])
    raise ValueError(op)


def case_show(c):
    if c[0] == "fromstr":
        return "fromstr %r" % c[1]
    if c[0] == "lit":
        return "lit Dec!(%s)  [neg=%s digits=%d exp=%d is_int=%s]" % (c[1], c[2], c[3], c[4], c[5])
    return case_driver(c)


# ---------------------------------------------------------------- generation

def interesting_coeffs():
    s = {0, 1, -1, 2, -2, 3, 5, -5, 7, 9, 10, 11, 15, 25, -25, 99, 101, 125, 5000, -5000,
         I128_MAX, I128_MIN, I128_MAX - 1, I128_MIN + 1, I128_MAX // 2, I128_MAX // 2 + 1,
         I128_MIN // 2, I128_MIN // 2 - 1, 2 ** 126, -(2 ** 126), 2 ** 64, 2 ** 64 - 1, 2 ** 64 + 1,
         2 ** 63, -(2 ** 63), 2 ** 96 + 12345, 27 * (2 ** 63 - 1), 13043817825332782212}
    for k in range(0, 39):
        p = 10 ** k
        for v in (p, -p, p + 1, p - 1, -p + 1, -p - 1, 5 * p, -5 * p, 15 * p, 25 * p, 2 * p, 3 * p):
            if I128_MIN <= v <= I128_MAX:
                s.add(v)
    for k in (31, 32, 62, 100, 120, 125, 127):
        for v in (2 ** k, -(2 ** k), 2 ** k - 1, -(2 ** k) + 1):
            if I128_MIN <= v <= I128_MAX:
                s.add(v)
    return sorted(s)


COEFFS = interesting_coeffs()
SMALL_COEFFS = [0, 1, -1, 2, 3, -7, 10, 100, -1000, 5, 15, 25, 35, -45, 10 ** 17, 10 ** 18, -10 ** 18,
                10 ** 19, 123456789, -987654321012345678, 10 ** 35, -10 ** 36, 17 * 10 ** 17]


def clamp(v):
    return max(I128_MIN, min(I128_MAX, v))


def rand_coeff(rng):
    r = rng.random()
    if r < 0.08:
        return rng.choice(COEFFS)
    if r < 0.16:
        k = rng.randint(0, 38)
        return clamp(rng.choice([1, -1]) * (10 ** k) * rng.choice([1, 1, 2, 5, 15, 25, 3, 7]) + rng.choice([0, 0, 0, 1, -1]))
    if r < 0.22:
        return clamp(rng.choice([I128_MAX, I128_MIN]) + rng.randint(-3, 3) * rng.choice([1, 10 ** 5, 10 ** 18]))
    bits = rng.randint(0, 127)
    v = rng.getrandbits(bits) if bits else 0
    return v if rng.random() < 0.5 else -v


def rand_nfd(rng):
    return rng.choice([0, 0, 18, 18, 1, 17, 9]) if rng.random() < 0.3 else rng.randint(0, 18)


def structured_binops():
    cases = []
    nf = list(range(19))
    # every nfd pair, a few coefficient pairs each
    pairs = [(1, 1), (0, 5), (5, 0), (-1, 3), (10 ** 17, 10 ** 17), (123456789, -1000), (15, 25),
             (I128_MAX, 1), (I128_MIN, 1), (I128_MIN, -1), (1, I128_MIN), (10 ** 18, 10 ** 18),
             (10 ** 20 + 1, 10 ** 19 + 1), (-(10 ** 20) - 5, 5 * 10 ** 17), (2 ** 100, 3), (3, 2 ** 100),
             (7, 3), (-7, 3), (7, -3), (-7, -3), (1, 3), (2, 3), (-2, 3), (1, 7), (1, 6), (5, 6)]
    for p in nf:
        for q in nf:
            for (a, b) in pairs:
                for op in ("add", "sub", "mul", "div", "eq", "cmp"):
                    cases.append((op, a, p, b, q))
            # "one" and "zero" shortcuts with every representation
            cases.append(("mul", 10 ** p, p, 12345, q))
            cases.append(("mul", 12345, p, 10 ** q, q))
            cases.append(("mul", 10 ** p, p, 10 ** q, q))
            cases.append(("mul", 0, p, 12345, q))
            cases.append(("mul", 12345, p, 0, q))
            cases.append(("div", 12345, p, 10 ** q, q))
            cases.append(("div", 10 ** p, p, 10 ** q, q))
            cases.append(("div", 0, p, 12345, q))
            cases.append(("div", 12345, p, 0, q))
            cases.append(("div", 0, p, 0, q))
            cases.append(("div", -(10 ** p) * 6, p, 3 * 10 ** q, q))
            # equal values in different representations
            if p >= q:
                for v in (1, -1, 123, I128_MAX // 10 ** (p - q), I128_MIN // 10 ** (p - q) + 1,
                          I128_MAX // 10 ** (p - q) + 1, I128_MIN // 10 ** (p - q) - 1 if p > q else 5):
                    v = clamp(v)
                    w = v * 10 ** (p - q)
                    for d in (0, 1, -1):
                        if I128_MIN <= w + d <= I128_MAX:
                            for op in ("eq", "cmp", "add", "sub"):
                                cases.append((op, w + d, p, v, q))
                                cases.append((op, v, q, w + d, p))
    return cases


def structured_addsub_boundary():
    cases = []
    for n in (0, 3, 18):
        for a in (I128_MAX, I128_MAX - 1, I128_MIN, I128_MIN + 1, 0, 1, -1, 2 ** 126, -(2 ** 126)):
            for b in (I128_MAX, I128_MIN, 0, 1, -1, 2, -2, 2 ** 126, -(2 ** 126), 2 ** 126 - 1, -(2 ** 126) - 1):
                cases.append(("add", a, n, b, n))
                cases.append(("sub", a, n, b, n))
    # scaling overflow
    for k in range(1, 19):
        lim = I128_MAX // 10 ** k
        for v in (lim, lim + 1, -lim, -lim - 1, -lim - 2):
            for b in (0, 1, -1, I128_MAX % 10 ** k, -(I128_MAX % 10 ** k) - 1, 10 ** k, -(10 ** k)):
                for (p, q) in ((0, k), (18 - k, 18)):
                    cases.append(("add", v, p, b, q))
                    cases.append(("add", b, q, v, p))
                    cases.append(("sub", v, p, b, q))
                    cases.append(("sub", b, q, v, p))
                    cases.append(("cmp", v, p, b, q))
                    cases.append(("cmp", b, q, v, p))
                    cases.append(("eq", v, p, b, q))
                    cases.append(("eq", b, q, v, p))
    return cases


def structured_mul(rng):
    cases = []
    # half-even ties: product = (2k+1) * 5 * 10^(shift-1)
    for p in range(1, 19):
        for q in range(19 - p, 19):
            shift = p + q - 18
            for k in (0, 1, 2, 3, 10, 11, 12345, 12346):
                prod_units = (2 * k + 1) * 5  # times 10^(shift-1)
                # split into two factors
                a = (2 * k + 1)
                b = 5 * 10 ** (shift - 1)
                for (sa, sb) in ((1, 1), (-1, 1), (1, -1), (-1, -1)):
                    cases.append(("mul", sa * a, p, sb * b, q))
                    cases.append(("mul", sb * b, p, sa * a, q))
                # just below / above the tie
                cases.append(("mul", a * 10 ** 3 + 1, p, b, q))
                cases.append(("mul", a * 10 ** 3 - 1, p, b, q))
                cases.append(("mul", -(a * 10 ** 3 + 1), p, b, q))
                cases.append(("mul", -(a * 10 ** 3 - 1), p, b, q))
            # exact multiples of 10^shift (rem = 0, negative product: r = y quirk)
            cases.append(("mul", -3 * 10 ** shift, p, 7, q))
            cases.append(("mul", 3 * 10 ** shift, p, -7, q))
            cases.append(("mul", -3 * 10 ** 20, p, 7 * 10 ** 19, q))
            cases.append(("mul", 3 * 10 ** 20, p, -7 * 10 ** 19, q))
    # products that overflow i128 (256-bit path) incl. ties and the i128::MAX boundary
    for _ in range(600):
        p = rng.randint(1, 18)
        q = rng.randint(19 - p, 18)
        shift = p + q - 18
        kind = rng.random()
        if kind < 0.35:
            # result near the i128 boundary: a*b ~ Q * 10^shift
            Q = rng.choice([I128_MAX, I128_MAX - 1, I128_MAX + 1, I128_MAX // 3])
            ab = Q * 10 ** shift + rng.choice([0, 1, -1, 5 * 10 ** (shift - 1), 5 * 10 ** (shift - 1) - 1,
                                                5 * 10 ** (shift - 1) + 1, 10 ** shift - 1])
            lo = max(2, ab // I128_MAX + 1)
            a = rng.randint(lo, lo * 10 ** rng.randint(0, 8))
            b = ab // a
            if b > I128_MAX or a > I128_MAX:
                continue
        elif kind < 0.7:
            # tie in the 256-bit path
            m = 5 * 10 ** (shift - 1)
            a = rng.getrandbits(rng.randint(80, 126)) | 1
            b = m * (rng.getrandbits(rng.randint(1, 40)) | 1)
            if b > I128_MAX:
                continue
        else:
            a = rng.getrandbits(rng.randint(64, 127))
            b = rng.getrandbits(rng.randint(64, 127))
        for (sa, sb) in ((1, 1), (-1, 1), (1, -1), (-1, -1)):
            cases.append(("mul", sa * a, p, sb * b, q))
    # 256-bit path, rounded result within +-3 of i128::MAX: a = 10^shift + j, b = MAX - m
    for p in range(1, 19):
        for q in range(19 - p, 19):
            shift = p + q - 18
            for j in (1, 2, 3, 7, 10 ** (shift - 1) + 1, 5 * 10 ** (shift - 1)):
                a = 10 ** shift + j
                m0 = I128_MAX - (I128_MAX * 10 ** shift) // a
                for m in range(m0 - 3, m0 + 4):
                    b = I128_MAX - m
                    if 0 < b <= I128_MAX:
                        cases.append(("mul", a, p, b, q))
                        cases.append(("mul", -a, p, b, q))
                        cases.append(("mul", b, q, -a, p))
                        cases.append(("mul", -b, q, -a, p))
    # nfd sum <= 18: plain checked_mul boundary
    for _ in range(200):
        p = rng.randint(0, 18)
        q = rng.randint(0, 18 - p)
        a = rng.getrandbits(rng.randint(1, 100)) + 2
        for t in (I128_MAX, I128_MAX + 1, -I128_MIN, -I128_MIN + 1):
            b = t // a
            for bb in (b, b + 1):
                if bb <= I128_MAX:
                    cases.append(("mul", a, p, bb, q))
                    cases.append(("mul", -a, p, bb, q))
                    cases.append(("mul", a, p, -bb, q))
    return cases


def structured_div(rng):
    cases = []
    for p in range(19):
        for q in range(19):
            s = 18 + q - p
            # ties: cx = 2k+1, cy = 2*10^s
            for k in (0, 1, 2, 3, 1234, 1235):
                cx = 2 * k + 1
                cy = 2 * 10 ** s
                if cy <= I128_MAX:
                    for (sa, sb) in ((1, 1), (-1, 1), (1, -1), (-1, -1)):
                        cases.append(("div", sa * cx, p, sb * cy, q))
                    cases.append(("div", cx, p, cy + 1, q))
                    cases.append(("div", cx, p, cy - 1, q))
                    cases.append(("div", -cx, p, cy + 1, q))
                    cases.append(("div", -cx, p, cy - 1, q))
            # exact quotients (normalisation), negative (r = y quirk)
            for (a, b) in ((6, 3), (-6, 3), (6, -3), (1, 8), (-1, 8), (1, -8), (1, 1024), (10 ** 20, 10 ** 5),
                           (-(10 ** 30), 4), (10 ** 30, -4), (1, 3), (2, 3), (-2, 3), (1, 10 ** 18), (1, 2 * 10 ** 18),
                           (1, 10 ** 36), (1, 2 * 10 ** 36), (3, 2 * 10 ** 36), (I128_MAX, I128_MAX), (I128_MIN, I128_MIN),
                           (I128_MIN, I128_MAX), (I128_MAX, I128_MIN), (I128_MIN, -1), (I128_MIN, 1), (I128_MIN, 2),
                           (I128_MIN, -2), (I128_MAX, -1), (I128_MAX, 2), (5, I128_MIN), (5, I128_MIN + 1), (I128_MIN, 3),
                           (I128_MIN, -3), (I128_MIN + 1, -3), (I128_MIN, 10 ** 18), (I128_MIN, -(10 ** 18)), (I128_MIN, 10 ** 36),
                           (I128_MIN, -(10 ** 36)), (I128_MAX, 10 ** 36), (I128_MAX, 10 ** 37), (I128_MIN, 10 ** 37 + 1)):
                cases.append(("div", a, p, b, q))
    # quotient magnitude near i128::MAX (the None boundary of the 256-bit path)
    for _ in range(1500):
        p = rng.randint(0, 18)
        q = rng.randint(0, 18)
        s = 18 + q - p
        if s == 0:
            continue
        cy = rng.randint(1, min(10 ** s - 1, I128_MAX))
        if rng.random() < 0.3:
            cy = rng.randint(1, 10 ** rng.randint(1, min(s, 19)))
        Q = rng.choice([I128_MAX, I128_MAX, I128_MAX - 1, I128_MAX + 1, I128_MAX // 7, 2 ** 127])
        num = Q * cy + rng.choice([0, 0, cy // 2, cy // 2 + 1, cy - 1, (cy + 1) // 2, 1, -1])
        cx = num // 10 ** s + rng.choice([0, 0, 1, -1])
        if cx == 0 or cx > I128_MAX:
            continue
        for (sa, sb) in ((1, 1), (-1, 1), (1, -1), (-1, -1)):
            cases.append(("div", sa * cx, p, sb * cy, q))
    # big divisors (> 2^64: Knuth D path of u256_idiv_u128), incl. xh >= y
    for _ in range(1500):
        p = rng.randint(0, 18)
        q = rng.randint(0, 18)
        cy = rng.getrandbits(rng.randint(64, 127)) | (1 << 64)
        r = rng.random()
        if r < 0.3:
            cy = (1 << rng.randint(64, 126)) + rng.choice([0, 1, -1])
        elif r < 0.4:
            cy = (1 << 127) - 1 - rng.getrandbits(rng.randint(0, 70))
        elif r < 0.5:
            cy = ((1 << 64) - 1) << rng.randint(1, 63)
        cx = rng.getrandbits(rng.randint(40, 127)) + 1
        if rng.random() < 0.3:
            cx = (1 << 127) - 1 - rng.getrandbits(rng.randint(0, 70))
        for (sa, sb) in ((1, 1), (-1, 1), (1, -1), (-1, -1)):
            cases.append(("div", sa * cx, p, sb * cy, q))
    # ties with big divisors: cx*10^s = (2k+1) * cy/2
    for _ in range(600):
        p = rng.randint(0, 18)
        q = rng.randint(0, 18)
        s = 18 + q - p
        if s == 0:
            continue
        e2 = rng.randint(1, min(s, 40))
        # cy = 2^(e2) * 5^j * u ... make cx*10^s / cy = odd/2
        u = rng.getrandbits(rng.randint(1, 50)) | 1
        cy = (2 ** (s + 1)) * u
        cx = u * (rng.getrandbits(rng.randint(1, 20)) | 1)
        # cx*10^s/cy = cx*5^s*2^s/(2^(s+1) u) = odd*5^s/2
        if cy <= I128_MAX and cx <= I128_MAX:
            for (sa, sb) in ((1, 1), (-1, 1), (1, -1), (-1, -1)):
                cases.append(("div", sa * cx, p, sb * cy, q))
    return cases


def structured_unary():
    cases = []
    precs = [None, 0, 1, 2, 5, 9, 17, 18, 19, 30, 255, 256, 1000]
    for c in COEFFS:
        for n in (0, 1, 2, 9, 17, 18):
            cases.append(("neg", c, n))
            cases.append(("abs", c, n))
            cases.append(("tostr", c, n))
            cases.append(("roundtrip", c, n))
    for c in SMALL_COEFFS + [I128_MAX, I128_MIN, I128_MIN + 1, -4, -5, -15, -25, -49, -50, -51, 949, 950, 951, -949, -950, -951,
                             4999, 5000, 5001, -4999, -5001, 14999, 15000, 15001, 999999, -999999, 9995, 9985]:
        for n in (0, 1, 2, 3, 4, 9, 17, 18):
            for p in precs + [n - 1, n, n + 1]:
                if p is None or p >= 0:
                    cases.append(("display", p, c, n))
    return cases


FROMSTR_FIXED = [
    "", " ", "+", "-", ".", "-.", "+.", "0", "-0", "+0", "00", "000.000", "0.", "0.0", ".0", "0e5", "0.0e5", "0.0e1",
    "0.00e1", "0e-2", "0.0e-2", "1", "-1", "+1", "1.", "1.e2", "1.5", "-1.5", "+.75", ".5", "-.5", "1e3", "1E3", "1e+3", "1e-3",
    "1e", "1e+", "1e-", "1.5e+", "1ex", "1e5x", "1e 5", " 1", "1 ", "1.5.2", "-4.33.2", "2.87 e3", "+e3", ".4e3 ", "--1", "+-1",
    "1e38", "1e39", "2e38", "17e37", "18e37", "1.7e38", "1.8e38", "1e99", "1e100", "1e099", "1e0000", "1e-18", "1e-19", "1e-018",
    "1.0e-17", "1.0e-18", "1.00e-17", "0.000000000000000001", "0.0000000000000000001", "0.0000000000000000010",
    "1.000000000000000000", "1.0000000000000000000", "123456789012345678.90123", "-132.02070e-2", "38.207", "700004.002E13",
    "17.493e-36", "0.17295887390016377542", "170141183460469231731687303715884105727",
    "170141183460469231731687303715884105728", "-170141183460469231731687303715884105727",
    "-170141183460469231731687303715884105728", "1701411834604692317316873037158841057.28",
    "1701411834604692317316873037158841058.00", "340282366920938463463374607431768211455",
    "340282366920938463463374607431768211456", "340282366920938463463374607431768211457",
    "440282366920938463463374607431768211456", "460282366920938463463374607431768211456",
    "510423550381407695195061911147652317183", "510423550381407695195061911147652317184",
    "999999999999999999999999999999999999999", "1000000000000000000000000000000000000000",
    "100000000000000000000000000000000000000", "099999999999999999999999999999999999999",
    "0.000000000000000000000000000000000000001e30", "0.00000000000000000000000000000000000001e30",
    ".000000000000000000000000000000000000001e38", "000000000000000000000000000000000000000000001",
    "1e16777216", "1e167772160", "0.1e1", "0.10e1", "12.5e1", "12.5e2", "1_000", "1.5f64", "0x10", "1e1.5", "1..5", "e5", ".e5",
    "12345678", "123456789", "1234567", "1234567.8", "12345678.12345678", "1234567812345678", "12345678123456781",
    "12345678.1234567812345678", "1234567a", "1234567:", "1234567/", "123456/8", "12:45678", "\u00e9", "1\u00e9", "\u0661\u0662",
    "\uff11", "1\u00a0", "1\x00", "\x001", "1\t", "1\n", "1e\u0663", "1234567\u00e9", "123456\u00e9", "12345\u00e91",
    "inf", "nan", "NaN", "-inf", "1e+-3", "1e-+3", "1e--3", "+1e+1", "-1e-1", "-0.0", "-0.00e1", "-00", "+00.10",
]


def rand_fromstr(rng):
    r = rng.random()
    if r < 0.25:
        # well-formed-ish number
        s = rng.choice(["", "", "-", "+"])
        ni = rng.choice([0, 1, 2, 7, 8, 9, 15, 16, 17, 20, 21, 30, 38, 39, 40])
        ni = rng.randint(0, ni)
        s += "".join(rng.choice("0123456789") for _ in range(ni))
        if rng.random() < 0.7:
            s += "."
            nf = rng.randint(0, rng.choice([3, 8, 9, 18, 19, 20, 39]))
            s += "".join(rng.choice("0123456789") for _ in range(nf))
        if rng.random() < 0.4:
            s += rng.choice("eE") + rng.choice(["", "", "-", "+"]) + str(rng.randint(0, rng.choice([3, 20, 40, 120])))
        return s
    if r < 0.45:
        # 38..40 digit integers around the overflow tests
        base = rng.choice([2 ** 127, 2 ** 128, 10 ** 38, 10 ** 39, 2 ** 128 + 10 ** 38, 2 ** 128 + 2 ** 127, 2 * 2 ** 128, 2 * 2 ** 128 + 10 ** 38,
                           2 * 2 ** 128 + 2 ** 127])
        v = base + rng.choice([0, -1, 1, rng.randint(-10 ** 20, 10 ** 20), rng.randint(-10 ** 37, 10 ** 37)])
        s = str(abs(v))
        if rng.random() < 0.3:
            k = rng.randint(0, 18)
            if k and k < len(s):
                s = s[:-k] + "." + s[-k:]
        if rng.random() < 0.2:
            s += "e" + str(rng.randint(-3, 3))
        return rng.choice(["", "-", "+"]) + s
    if r < 0.6:
        v = rng.randint(10 ** 38, 10 ** 39 - 1)
        return rng.choice(["", "-"]) + str(v)
    if r < 0.7:
        v = rng.randint(0, 10 ** 40)
        return str(v)
    # random garbage over the relevant alphabet
    n = rng.randint(0, 14)
    alphabet = "0123456789" * 3 + "..eE+-" * 2 + " x\u00e9:/"
    return "".join(rng.choice(alphabet) for _ in range(n))


# Dec! literals: (text, neg, digits, exp, is_int) following Rt/Prelude.v's description of [lit]
def lit_case(neg, int_part, frac_part=None, exp=None):
    """int_part: digit string (possibly with leading zeros); frac_part: None = no '.', else
    digit string (possibly empty: '1000.'); exp: None or int."""
    text = ("-" if neg else "") + int_part
    is_int = frac_part is None and exp is None
    if frac_part is not None:
        text += "." + frac_part
    if exp is not None:
        text += "e" + str(exp)
    digits = int(int_part + (frac_part or "")) if (int_part + (frac_part or "")) else 0
    e = -(len(frac_part) if frac_part else 0) + (exp or 0)
    return ("lit", text, neg, digits, e, is_int)


def lit_cases(rng):
    cs = []
    for neg in (False, True):
        cs += [
            lit_case(neg, "0"), lit_case(neg, "00"), lit_case(neg, "1"), lit_case(neg, "1000"), lit_case(neg, "0", "0254"),
            lit_case(neg, "1", "0"), lit_case(neg, "1000", ""), lit_case(neg, "1", None, 3), lit_case(neg, "0", "000001"),
            lit_case(neg, "0", "0"), lit_case(neg, "0", "00"), lit_case(neg, "0", "000000000000000000"),
            lit_case(neg, "0", "000000000000000001"), lit_case(neg, "1", "000000000000000000"),
            lit_case(neg, "123456789012345678", "90123"), lit_case(neg, "17", "5"), lit_case(neg, "170", "5", -2),
            lit_case(neg, "1", "5", 3), lit_case(neg, "12", "5", 1), lit_case(neg, "1", None, 38), lit_case(neg, "17", None, 37),
            lit_case(neg, "170141183460469231731687303715884105727"), lit_case(neg, "1", None, 0), lit_case(neg, "5", None, 1),
            lit_case(neg, "1701411834604692317316873037158841057", "27"),
            lit_case(neg, "170141183460469231731", "687303715884105727"),
            lit_case(neg, "100000000000000000000", "000000000000000000"),
            lit_case(neg, "460282366920938463463374607431768211456"),
            lit_case(neg, "460282366920938463463", "374607431768211456"),
            lit_case(neg, "1", None, -18), lit_case(neg, "1", "0", -17), lit_case(neg, "25", None, -2), lit_case(neg, "254", None, -4),
            lit_case(neg, "12345678", "12345678"), lit_case(neg, "1234567812345678", "1"),
            lit_case(neg, "99", None, 36), lit_case(neg, "1", "7", 38),
        ]
    for _ in range(40):
        neg = rng.random() < 0.4
        ni = rng.randint(1, rng.choice([3, 10, 21, 38]))
        ip = str(rng.randint(0, 10 ** ni - 1))
        fp = None
        if rng.random() < 0.7:
            nf = rng.randint(0, 18)
            fp = "".join(rng.choice("0123456789") for _ in range(nf))
        ex = None
        if rng.random() < 0.3:
            lo = -(18 - (len(fp) if fp else 0))
            ex = rng.randint(lo, 6)
        c = lit_case(neg, ip, fp, ex)
        if c[3] == 0 and not c[5]:
            continue  # zero digits in a non-integer spelling: only the canonical forms above
        cs.append(c)
    # literals that must be rejected at compile time (compiled one by one)
    rejected = [
        lit_case(False, "0", "0000000000000000001"), lit_case(False, "1", "0000000000000000000"), lit_case(True, "0", "0000000000000000000"),
        lit_case(False, "170141183460469231731687303715884105728"), lit_case(True, "170141183460469231731687303715884105728"),
        lit_case(False, "340282366920938463463374607431768211456"), lit_case(False, "440282366920938463463374607431768211455"),
        lit_case(False, "1", None, 39), lit_case(False, "18", None, 37), lit_case(False, "1", None, -19),
        lit_case(False, "0", ""), lit_case(False, "0", None, 3), lit_case(False, "1", None, 100),
        lit_case(False, "1000000000000000000000000000000000000000"), lit_case(False, "1701411834604692317316873037158841057", "28"),
    ]
    return cs, rejected


def random_case(rng):
    r = rng.random()
    if r < 0.60:
        op = rng.choice(["add", "sub", "mul", "mul", "div", "div", "div", "eq", "cmp"])
        a, b = rand_coeff(rng), rand_coeff(rng)
        p, q = rand_nfd(rng), rand_nfd(rng)
        k = rng.random()
        if op in ("eq", "cmp") and k < 0.5:
            # nearly equal values
            if p >= q:
                b = clamp(a // 10 ** (p - q) + rng.choice([0, 0, 1, -1]))
            else:
                b = clamp(a * 10 ** (q - p) + rng.choice([0, 0, 1, -1]))
        if op in ("add", "sub") and k < 0.3:
            # result near the i128 boundary at the common scale
            m = max(p, q)
            A = a * 10 ** (m - p)
            t = rng.choice([I128_MAX, I128_MIN]) + rng.randint(-2, 2)
            B = (t - A) if op == "add" else (A - t)
            b = B // 10 ** (m - q)
            b = clamp(b)
        return (op, a, p, b, q)
    if r < 0.66:
        return (rng.choice(["neg", "abs"]), rand_coeff(rng), rand_nfd(rng))
    if r < 0.74:
        return (rng.choice(["tostr", "roundtrip"]), rand_coeff(rng), rand_nfd(rng))
    if r < 0.86:
        n = rand_nfd(rng)
        p = rng.choice([None, 0, 1, n, max(0, n - 1), n + 1, rng.randint(0, 20), rng.randint(0, 300)])
        c = rand_coeff(rng)
        if rng.random() < 0.3 and p is not None and p < n:
            # tie for the display rounding
            c = (2 * rng.randint(-50, 50) + 1) * 5 * 10 ** (n - p - 1)
        return ("display", p, c, n)
    return ("fromstr", rand_fromstr(rng))


def dedupe(cases):
    seen = set()
    out = []
    for c in cases:
        if c not in seen:
            seen.add(c)
            out.append(c)
    return out


def gen_cases(seed, total):
    """the fixed from_str list always; then a deterministic sample of every structured
    group (all of it if it fits its quota); the rest random"""
    rng = random.Random(seed)
    groups = [
        (0.25, dedupe(structured_binops())),
        (0.08, dedupe(structured_addsub_boundary())),
        (0.15, dedupe(structured_mul(rng))),
        (0.18, dedupe(structured_div(rng))),
        (0.09, dedupe(structured_unary())),
    ]
    cases = [("fromstr", s) for s in FROMSTR_FIXED]
    for frac, g in groups:
        quota = int(total * frac)
        if len(g) > quota:
            idx = sorted(rng.sample(range(len(g)), quota))
            g = [g[i] for i in idx]
        cases += g
    cases = cases[:total]
    while len(cases) < total:
        cases.append(random_case(rng))
    return cases


# ---------------------------------------------------------------- running

def sh(cmd, **kw):
    return subprocess.run(cmd, stdout=subprocess.PIPE, stderr=subprocess.PIPE, **kw)


def build_driver():
    env = dict(os.environ, CARGO_NET_OFFLINE="true", CARGO_TARGET_DIR=TARGET_DIR)
    r = sh(["cargo", "build", "--offline"], cwd=DRIVER_DIR, env=env)
    if r.returncode != 0:
        sys.stderr.write(r.stderr.decode())
        sys.exit("cargo build failed")
    return os.path.join(TARGET_DIR, "debug", "dectest-driver")


STRING_RE = re.compile(r'"((?:[^"]|"")*)"')


def run_coq_shard(args):
    workdir, idx, cases, printer_src, coq_root = args
    name = "cases_%03d" % idx
    path = os.path.join(workdir, name + ".v")
    with open(path, "w") as f:
        f.write(printer_src)
        f.write("\nDefinition cases : list tcase := [\n  ")
        f.write(";\n  ".join(case_coq(c) for c in cases))
        f.write("\n].\nEval vm_compute in (List.map run cases).\n")
    r = sh(["coqc", "-Q", coq_root, "QV", name + ".v"], cwd=workdir)
    if r.returncode != 0:
        raise RuntimeError("coqc failed on %s:\n%s" % (path, r.stderr.decode()[-3000:]))
    out = r.stdout.decode()
    # drop the trailing type annotation ': list string'
    body = out[out.index("="):]
    res = [m.group(1).replace('""', '"') for m in STRING_RE.finditer(body)]
    if len(res) != len(cases):
        raise RuntimeError("%s: expected %d results, parsed %d" % (path, len(cases), len(res)))
    return res


def run_coq(workdir, cases, jobs, coq_root=COQ_ROOT):
    printer_src = open(os.path.join(HERE, "printer.v")).read()
    shards = [(workdir, i, cases[k:k + SHARD], printer_src, coq_root) for i, k in enumerate(range(0, len(cases), SHARD))]
    with ThreadPoolExecutor(max_workers=jobs) as ex:
        results = list(ex.map(run_coq_shard, shards))
    return [x for r in results for x in r]


def run_rust_lits(workdir, lits, rejected):
    """returns the Rust-side result lines for lits + rejected"""
    deps = os.path.join(TARGET_DIR, "debug", "deps")
    rlibs = glob.glob(os.path.join(deps, "libfpdec-*.rlib"))
    if not rlibs:
        sys.exit("libfpdec rlib not found")
    rlib = max(rlibs, key=os.path.getmtime)

    def compile_run(name, texts):
        src = os.path.join(workdir, name + ".rs")
        with open(src, "w") as f:
            f.write("// generated by run.py\nuse fpdec::{Dec, Decimal};\nfn main() {\n    let v: Vec<Decimal> = vec![\n")
            for t in texts:
                f.write("        Dec!(%s),\n" % t)
            f.write("    ];\n    for d in v { println!(\"{} {}\", d.coefficient(), d.n_frac_digits()); }\n}\n")
        exe = os.path.join(workdir, name)
        r = sh(["rustc", "--edition", "2021", "-L", "dependency=" + deps, "--extern", "fpdec=" + rlib, src, "-o", exe])
        if r.returncode != 0:
            return None, r.stderr.decode()
        r = sh([exe])
        return r.stdout.decode().splitlines(), ""

    # compile all literals in one file; literals rustc rejects (the macro panicked)
    # are located through the line numbers in the error messages, recorded as
    # "None" and taken out, until the rest compiles
    out = [None] * len(lits)
    live = list(range(len(lits)))
    for _round in range(10):
        res, err = compile_run("lits", [lits[i][1] for i in live])
        if res is not None:
            for i, line in zip(live, res):
                out[i] = line
            break
        badlines = set(int(m.group(1)) for m in re.finditer(r"lits\.rs:(\d+):\d+", err))
        # literal k of this round is on source line k + 5
        badidx = set(live[l - 5] for l in badlines if 0 <= l - 5 < len(live))
        if not badidx:
            sys.exit("cannot locate the rejected literals:\n" + err[-3000:])
        for i in badidx:
            out[i] = "None"
        live = [i for i in live if i not in badidx]
    else:
        sys.exit("literal file still does not compile")
    for i, c in enumerate(rejected):
        r1, _ = compile_run("lit_rej", [c[1]])
        out.append("None" if r1 is None else r1[0])
    return out


def main():
    ap = argparse.ArgumentParser()
    ap.add_argument("--seed", type=int, default=1)
    ap.add_argument("--cases", type=int, default=20000)
    ap.add_argument("--workdir", default=None)
    ap.add_argument("--jobs", type=int, default=min(12, os.cpu_count() or 2))
    ap.add_argument("--coq-root", default=COQ_ROOT,
                    help="directory bound to the logical path QV (default /verif/coq); for mutation-testing the test")
    ap.add_argument("--show", type=int, default=25, help="number of disagreements to print")
    args = ap.parse_args()
    workdir = args.workdir or "/tmp/decwork/run-seed%d" % args.seed
    os.makedirs(workdir, exist_ok=True)
    for f in glob.glob(os.path.join(workdir, "cases_*")):
        os.remove(f)

    t0 = time.time()
    driver = build_driver()
    rng = random.Random(args.seed * 7919 + 13)
    lits, rejected = lit_cases(rng)
    cases = gen_cases(args.seed, max(0, args.cases - len(lits) - len(rejected)))
    run_cases = cases
    all_cases = run_cases + lits + rejected

    with open(os.path.join(workdir, "cases.txt"), "w") as f:
        for c in run_cases:
            f.write(case_driver(c) + "\n")
    with open(os.path.join(workdir, "cases.txt"), "rb") as f:
        r = sh([driver], stdin=f)
    if r.returncode != 0:
        sys.stderr.write(r.stderr.decode())
        sys.exit("driver failed")
    rust = r.stdout.decode().split("\n")
    if rust and rust[-1] == "":
        rust.pop()
    if len(rust) != len(run_cases):
        sys.exit("driver printed %d lines for %d cases" % (len(rust), len(run_cases)))
    rust += run_rust_lits(workdir, lits, rejected)
    t1 = time.time()

    coq = run_coq(workdir, all_cases, args.jobs, args.coq_root)
    t2 = time.time()

    agree = 0
    bad = []
    per_op = {}
    for c, a, b in zip(all_cases, coq, rust):
        st = per_op.setdefault(c[0], [0, 0])
        if a == b:
            agree += 1
            st[0] += 1
        else:
            bad.append((c, a, b))
            st[1] += 1
    with open(os.path.join(workdir, "results.txt"), "w") as f:
        for c, a, b in zip(all_cases, coq, rust):
            f.write("%s\t%s\t%s\t%s\n" % ("OK " if a == b else "BAD", case_show(c), a, b))
    print("cases=%d seed=%d  rust %.1fs  coq %.1fs  workdir=%s" % (len(all_cases), args.seed, t1 - t0, t2 - t1, workdir))
    print("per op (agree/disagree): " + "  ".join("%s=%d/%d" % (k, v[0], v[1]) for k, v in sorted(per_op.items())))
    npanic = sum(1 for x in rust if x == "PANIC")
    nnone = sum(1 for x in rust if x == "None")
    print("rust outcomes: PANIC=%d None=%d other=%d" % (npanic, nnone, len(rust) - npanic - nnone))
    print("agree=%d disagree=%d" % (agree, len(bad)))
    for c, a, b in bad[:args.show]:
        print("DISAGREE %s\n    model: %s\n    rust : %s" % (case_show(c), a, b))
    sys.exit(0 if not bad else 1)


if __name__ == "__main__":
    main()
