(* printer.v — prepended by run.py to every generated shard of test cases.
   A test case is a constructor of [tcase]; [run] evaluates the model on it and
   renders the result as the same canonical text line the Rust driver prints.
   The integer printer here is deliberately independent of the model's own
   digit functions. *)
From Coq Require Import String Ascii.
From QV Require Import Rt.Prelude Amount.DecModel.
Local Open Scope Z_scope.

Fixpoint ustr_to_string (s : ustring) : string :=
  match s with
  | [] => EmptyString
  | c :: s' => String (ascii_of_N c) (ustr_to_string s')
  end.

Fixpoint pnat_loop (fuel : nat) (n : Z) (acc : ustring) : ustring :=
  match fuel with
  | O => acc
  | S f => let acc' := Z.to_N (48 + n mod 10) :: acc in
           if n <? 10 then acc' else pnat_loop f (n / 10) acc'
  end.
Definition pZ (z : Z) : ustring :=
  (if z <? 0 then [45%N] else []) ++ pnat_loop 400 (Z.abs z) [].

Definition s_panic : ustring := [80;65;78;73;67]%N.
Definition s_none : ustring := [78;111;110;101]%N.
Definition s_true : ustring := [116;114;117;101]%N.
Definition s_false : ustring := [102;97;108;115;101]%N.

Definition pdec (d : dec) : ustring := pZ (d_coeff d) ++ [32%N] ++ pZ (d_nfd d).
Definition pres_dec (r : res dec) : ustring :=
  match r with Ok d => pdec d | Panic _ => s_panic end.
Definition popt_dec (r : option dec) : ustring :=
  match r with Some d => pdec d | None => s_none end.
Definition pcmp (c : comparison) : ustring :=
  match c with Lt => [76;116]%N | Eq => [69;113]%N | Gt => [71;116]%N end.

Inductive tcase :=
| Tadd (c1 n1 c2 n2 : Z) | Tsub (c1 n1 c2 n2 : Z)
| Tmul (c1 n1 c2 n2 : Z) | Tdiv (c1 n1 c2 n2 : Z)
| Teq (c1 n1 c2 n2 : Z)  | Tcmp (c1 n1 c2 n2 : Z)
| Tneg (c n : Z) | Tabs (c n : Z)
| Ttostr (c n : Z) | Troundtrip (c n : Z)
| Tfromstr (s : ustring)
| Tdisplay (p : option N) (c n : Z)
| Tlit (neg : bool) (digits exp : Z) (is_int : bool).

Definition run (t : tcase) : string :=
  ustr_to_string
  match t with
  | Tadd c1 n1 c2 n2 => pres_dec (dec_add (mkdec c1 n1) (mkdec c2 n2))
  | Tsub c1 n1 c2 n2 => pres_dec (dec_sub (mkdec c1 n1) (mkdec c2 n2))
  | Tmul c1 n1 c2 n2 => pres_dec (dec_mul (mkdec c1 n1) (mkdec c2 n2))
  | Tdiv c1 n1 c2 n2 => pres_dec (dec_div (mkdec c1 n1) (mkdec c2 n2))
  | Teq c1 n1 c2 n2 => if dec_eqb (mkdec c1 n1) (mkdec c2 n2) then s_true else s_false
  | Tcmp c1 n1 c2 n2 => pcmp (dec_cmp (mkdec c1 n1) (mkdec c2 n2))
  | Tneg c n => pres_dec (dec_neg_res (mkdec c n))
  | Tabs c n => pres_dec (dec_abs_res (mkdec c n))
  | Ttostr c n => match dec_to_string_res (mkdec c n) with Ok s => s | Panic _ => s_panic end
  | Troundtrip c n =>
      match dec_to_string_res (mkdec c n) with
      | Ok s => popt_dec (dec_from_str s)
      | Panic _ => s_panic
      end
  | Tfromstr s => popt_dec (dec_from_str s)
  | Tdisplay p c n =>
      match dec_display_parts_res p (mkdec c n) with
      | Ok (nonneg, text) => (if nonneg then [] else [45%N]) ++ text
      | Panic _ => s_panic
      end
  | Tlit neg digits exp is_int => popt_dec (dec_of_lit (mklit neg digits exp is_int))
  end.
