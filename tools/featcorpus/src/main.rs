// featcorpus — a fixed corpus of operations per predefined-quantity feature.
// Each block is compiled only when the feature that provides the types is on
// (directly or through quantities' own feature graph: the cfg below tests the
// features of THIS crate, which forward one-to-one).  Every line is
// "<feature> <label> <canonical result>"; the check runs the binary in a
// minimal and in the full configuration and compares the lines both print.
#![allow(unused_imports, unused_macros, dead_code)]
use quantities::prelude::*;
use quantities::{AmountT, Amnt, HasRefUnit, Quantity, Unit, LinearScaledUnit};

#[cfg(not(feature = "fpdec"))]
fn sa(a: AmountT) -> String { format!("{:016x}", a.to_bits()) }
#[cfg(feature = "fpdec")]
fn sa(a: AmountT) -> String { format!("{}/{}", a.coefficient(), a.n_frac_digits()) }

fn sq<Q: Quantity>(q: Q) -> String {
    format!("{} {}", sa(q.amount()), q.unit().symbol())
}

fn basics<Q: HasRefUnit + core::ops::Add<Output = Q> + core::ops::Sub<Output = Q> + core::ops::Div<Output = AmountT> + PartialOrd + core::fmt::Display>(feat: &str)
where Q::UnitType: LinearScaledUnit {
    let units: Vec<Q::UnitType> = Q::iter_units().collect();
    println!("{} units {}", feat, units.iter().map(|u| format!("{}:{}", u.symbol(), sa(u.scale()))).collect::<Vec<_>>().join(","));
    let k: AmountT = Amnt!(17.4);
    for (i, u) in units.iter().enumerate() {
        let v = units[(i * 7 + 3) % units.len()];
        let x = Q::new(k, *u);
        let y = Q::new(Amnt!(2.5), v);
        println!("{} convert{} {}", feat, i, sq(x.convert(v)));
        println!("{} add{} {}", feat, i, sq(x + y));
        println!("{} sub{} {}", feat, i, sq(x - y));
        println!("{} div{} {}", feat, i, sa(x / y));
        println!("{} cmp{} {:?} {}", feat, i, PartialOrd::partial_cmp(&x, &y), x == y);
        println!("{} fit{} {}", feat, i, sq(Q::_fit(k * u.scale())));
        println!("{} fmt{} {} | {:>12.3}", feat, i, x, y);
    }
    // formatting of signed and zero amounts (negative zero with binary floats)
    let nz = Q::new(Amnt!(0.0) * Amnt!(-1.0), units[0]);
    let neg = Q::new(Amnt!(2.5) * Amnt!(-1.0), units[units.len() - 1]);
    let zero = Q::new(Amnt!(0.0), units[0]);
    println!("{} fmtsign {} | {:+} | {:9.2} | {} | {:+.1} | {:<10} | {} | {:+}", feat, nz, nz, nz, neg, neg, neg, zero, zero);
}

fn main() {
    #[cfg(feature = "mass")] basics::<quantities::mass::Mass>("mass");
    #[cfg(feature = "length")] basics::<quantities::length::Length>("length");
    #[cfg(feature = "duration")] basics::<quantities::duration::Duration>("duration");
    #[cfg(feature = "area")] {
        use quantities::{area::*, length::*};
        basics::<Area>("area");
        basics::<Length>("length");
        println!("area mul {}", sq(Amnt!(2.5) * MILE * (Amnt!(3.0) * INCH)));
        println!("area div {}", sq((Amnt!(2.5) * ACRE) / (Amnt!(3.0) * YARD)));
    }
    #[cfg(feature = "volume")] {
        use quantities::{area::*, length::*, volume::*};
        basics::<Volume>("volume");
        println!("volume mul {}", sq(Amnt!(2.5) * SQUARE_METER * (Amnt!(3.0) * DECIMETER)));
        println!("volume div {}", sq((Amnt!(2.5) * LITER) / (Amnt!(4.0) * CENTIMETER)));
    }
    #[cfg(feature = "speed")] {
        use quantities::{duration::*, length::*, speed::*};
        basics::<Speed>("speed");
        println!("speed div {}", sq((Amnt!(120.0) * KILOMETER) / (Amnt!(1.5) * HOUR)));
        println!("speed mul {}", sq(Amnt!(3.5) * MILES_PER_HOUR * (Amnt!(20.0) * MINUTE)));
    }
    #[cfg(feature = "acceleration")] {
        use quantities::{acceleration::*, duration::*, speed::*};
        basics::<Acceleration>("acceleration");
        println!("acceleration div {}", sq((Amnt!(100.0) * KILOMETER_PER_HOUR) / (Amnt!(9.0) * SECOND)));
    }
    #[cfg(feature = "force")] {
        use quantities::{acceleration::*, force::*, mass::*};
        basics::<Force>("force");
        println!("force mul {}", sq(Amnt!(3.0) * TONNE * (Amnt!(9.81) * METER_PER_SECOND_SQUARED)));
    }
    #[cfg(feature = "energy")] {
        use quantities::{energy::*, force::*, length::*};
        basics::<Energy>("energy");
        println!("energy mul {}", sq(Amnt!(3.0) * NEWTON * (Amnt!(2.5) * KILOMETER)));
    }
    #[cfg(feature = "power")] {
        use quantities::{duration::*, energy::*, power::*};
        basics::<Power>("power");
        println!("power div {}", sq((Amnt!(3.0) * KILOWATT_HOUR) / (Amnt!(45.0) * MINUTE)));
    }
    #[cfg(feature = "frequency")] {
        use quantities::{duration::*, frequency::*};
        basics::<Frequency>("frequency");
        println!("frequency div {}", sq(Amnt!(5.0) / (Amnt!(2.0) * MILLISECOND)));
        println!("frequency mul {}", sa(Amnt!(5.0) * KILOHERTZ * (Amnt!(2.0) * MINUTE)));
    }
    #[cfg(feature = "datavolume")] basics::<quantities::datavolume::DataVolume>("datavolume");
    #[cfg(feature = "datathroughput")] {
        use quantities::{datathroughput::*, datavolume::*, duration::*};
        basics::<DataThroughput>("datathroughput");
        println!("datathroughput div {}", sq((Amnt!(3.0) * GIBIBYTE) / (Amnt!(2.0) * MINUTE)));
    }
    #[cfg(feature = "temperature")] {
        use quantities::temperature::*;
        use quantities::Converter;
        for a in [Amnt!(21.5), Amnt!(451.3), Amnt!(-40.0), Amnt!(98.6), Amnt!(0.1), Amnt!(37.77), Amnt!(1234.5678), Amnt!(-273.15), Amnt!(5.55), Amnt!(99.99), Amnt!(300.7), Amnt!(0.003)] {
            for from in Temperature::iter_units() {
                let t = a * from;
                for u in Temperature::iter_units() {
                    println!("temperature conv {} -> {}", sq(t), TEMPERATURE_CONVERTER.convert(&t, u).map(sq).unwrap_or_default());
                }
            }
        }
    }
}
