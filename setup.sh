#!/bin/sh
# MANIFEST.setup_cmd — offline build of the verification framework
set -e
cd "$(dirname "$0")"
export CARGO_NET_OFFLINE=true
exec python3 tools/setup.py
