(* Proofs/SortPerm.v — the ORDER IN WHICH THE UNIT ATTRIBUTES ARE WRITTEN does
   not matter when the sort keys are pairwise distinct, and in general matters
   only inside the groups of equal key.

   1. sort_stable_perm_distinct: the stable sort of two permutations of a list
      without ties is the same list (a sorted permutation is unique).
   2. sort_stable_perm_general: for arbitrary permuted inputs the outputs are
      permutations of each other, carry the same SEQUENCE OF KEYS (Forall2
      same_key), and the group of every key k is, in each output, that group
      in the order of the respective input (so only the order inside a group
      can differ).
   3. analyze_perm_noref: permuting the attributes of a definition without
      reference unit whose unit names do not tie leaves analyze unchanged.
   4. analyze_perm_ref: the same with a reference unit (finite, pairwise
      distinct f64 keys, the key 1.0 of the reference unit included).
   5. analyze_perm_general: without any distinctness hypothesis, analyze of the
      permuted definition succeeds, with the same reference variant, a
      permutation of the units, and the same sequence of keys. *)
From Coq Require Import List Permutation Sorted Lia Lra Bool Reals.
From Flocq Require Import Core.Raux IEEE754.Binary IEEE754.Bits.
From QV Require Import Rt.Prelude Rt.Amount Macro.Defs Macro.Casing Macro.Analyze Amount.F64 Proofs.Sort Proofs.C11.
Import ListNotations.

(** * generic list facts *)
Lemma filter_perm {A} (p : A -> bool) l1 l2 : Permutation l1 l2 -> Permutation (List.filter p l1) (List.filter p l2).
Proof.
  induction 1 as [|x l l' _ IH|x y l|l l' l'' _ IH1 _ IH2]; cbn [List.filter].
  - constructor.
  - destruct (p x); [constructor; exact IH|exact IH].
  - destruct (p x), (p y); try reflexivity. apply perm_swap.
  - etransitivity; eassumption.
Qed.

Lemma forallb_perm {A} (p : A -> bool) l1 l2 : Permutation l1 l2 -> forallb p l1 = forallb p l2.
Proof.
  induction 1 as [|x l l' _ IH|x y l|l l' l'' _ IH1 _ IH2]; cbn [forallb].
  - reflexivity.
  - rewrite IH; reflexivity.
  - destruct (p x), (p y); reflexivity.
  - congruence.
Qed.

Lemma NoDup_map_inj {A B} (f : A -> B) l : NoDup (map f l) ->
  forall a b, In a l -> In b l -> f a = f b -> a = b.
Proof.
  induction l as [|x l IH]; intros Hnd a b Ha Hb E; [destruct Ha|].
  cbn [map] in Hnd. inversion Hnd as [|? ? Hnin Hnd']; subst.
  destruct Ha as [<-|Ha], Hb as [<-|Hb].
  - reflexivity.
  - exfalso. apply Hnin. rewrite E. apply in_map. exact Hb.
  - exfalso. apply Hnin. rewrite <- E. apply in_map. exact Ha.
  - apply IH; assumption.
Qed.

(** * 1 and 2: the sort *)
Section SortPerm.
Context {T : Type} (gt : T -> T -> bool) (P : T -> Prop).
Hypothesis gt_asym : forall a b, P a -> P b -> gt a b = true -> gt b a = false.
Hypothesis gt_negtrans : forall a b c, P a -> P b -> P c -> gt a b = false -> gt b c = false -> gt a c = false.

(** no two different elements of [l] tie *)
Definition no_tie (l : list T) : Prop :=
  forall a b, In a l -> In b l -> gt a b = false -> gt b a = false -> a = b.

Lemma no_tie_perm l1 l2 : Permutation l1 l2 -> no_tie l1 -> no_tie l2.
Proof.
  intros Hp H a b Ha Hb. apply H; eapply Permutation_in; try (apply Permutation_sym; exact Hp); assumption.
Qed.

Lemma gt_irrefl x : P x -> gt x x = false.
Proof. intros Px. destruct (gt x x) eqn:E; [|reflexivity]. rewrite (gt_asym x x Px Px E) in E. discriminate. Qed.

(** the head of a sorted list is <= every element *)
Lemma sorted_head_le x l : Forall P (x :: l) -> Sorted (le_rel gt) (x :: l) ->
  forall y, In y (x :: l) -> gt x y = false.
Proof.
  intros Hp Hs y [<-|Hy]; [apply gt_irrefl; inversion Hp; assumption|].
  exact (sorted_all_le gt P gt_negtrans x l Hp Hs y Hy).
Qed.

(** a sorted permutation of a list without ties is unique *)
Lemma sorted_perm_unique l1 : forall l2, Forall P l1 -> Permutation l1 l2 ->
  Sorted (le_rel gt) l1 -> Sorted (le_rel gt) l2 -> no_tie l1 -> l1 = l2.
Proof.
  induction l1 as [|x l1 IH]; intros l2 Hp Hperm Hs1 Hs2 Hd.
  - apply Permutation_nil in Hperm. subst; reflexivity.
  - destruct l2 as [|y l2]; [apply Permutation_sym, Permutation_nil in Hperm; discriminate|].
    assert (Hp2 : Forall P (y :: l2)) by (eapply Permutation_Forall; eassumption).
    assert (Hy : In y (x :: l1)) by (eapply Permutation_in; [apply Permutation_sym; eassumption|left; reflexivity]).
    assert (Hx : In x (y :: l2)) by (eapply Permutation_in; [eassumption|left; reflexivity]).
    assert (E : x = y).
    { apply Hd; [left; reflexivity|exact Hy| |].
      - apply (sorted_head_le x l1 Hp Hs1 y Hy).
      - apply (sorted_head_le y l2 Hp2 Hs2 x Hx). }
    subst y. f_equal. apply Permutation_cons_inv in Hperm.
    inversion Hp; subst. inversion Hs1; subst. inversion Hs2; subst.
    apply IH; try assumption. intros a b Ha Hb. apply Hd; right; assumption.
Qed.

Theorem sort_stable_perm_distinct_sec l1 l2 : Forall P l1 -> Permutation l1 l2 -> no_tie l1 ->
  sort_stable gt l1 = sort_stable gt l2.
Proof.
  intros Hp Hperm Hd.
  assert (Hp2 : Forall P l2) by (eapply Permutation_Forall; eassumption).
  apply sorted_perm_unique.
  - eapply Permutation_Forall; [apply Permutation_sym, sort_perm|exact Hp].
  - rewrite (sort_perm gt l1), Hperm. symmetry. apply sort_perm.
  - apply (sort_sorted gt P gt_asym); exact Hp.
  - apply (sort_sorted gt P gt_asym); exact Hp2.
  - eapply no_tie_perm; [apply Permutation_sym, sort_perm|exact Hd].
Qed.

(** ** the general case: same_key is an equivalence on P *)
Lemma same_key_refl x : P x -> same_key gt x x = true.
Proof. intros Px. unfold same_key. rewrite (gt_irrefl x Px). reflexivity. Qed.

Lemma same_key_sym x y : same_key gt x y = same_key gt y x.
Proof. unfold same_key. apply andb_comm. Qed.

Lemma same_key_true x y : same_key gt x y = true <-> gt x y = false /\ gt y x = false.
Proof. unfold same_key. rewrite andb_true_iff, !negb_true_iff. reflexivity. Qed.

Lemma same_key_trans x y z : P x -> P y -> P z ->
  same_key gt x y = true -> same_key gt y z = true -> same_key gt x z = true.
Proof.
  intros Px Py Pz. rewrite !same_key_true. intros [A B] [C D]. split.
  - exact (gt_negtrans x y z Px Py Pz A C).
  - exact (gt_negtrans z y x Pz Py Px D B).
Qed.

Lemma same_key_cong k x y : P k -> P x -> P y -> same_key gt x y = true -> same_key gt k x = same_key gt k y.
Proof.
  intros Pk Px Py E.
  destruct (same_key gt k x) eqn:E1, (same_key gt k y) eqn:E2; try reflexivity.
  - rewrite (same_key_trans k x y Pk Px Py E1 E) in E2. discriminate.
  - rewrite same_key_sym in E. rewrite (same_key_trans k y x Pk Py Px E2 E) in E1. discriminate.
Qed.

Definition same_counts (l1 l2 : list T) : Prop :=
  forall k, P k -> length (List.filter (same_key gt k) l1) = length (List.filter (same_key gt k) l2).

Lemma same_counts_sym l1 l2 : same_counts l1 l2 -> same_counts l2 l1.
Proof. intros H k Pk. symmetry. apply H. exact Pk. Qed.

Lemma same_counts_exists l1 l2 x : same_counts l1 l2 -> P x -> In x l1 ->
  exists z, In z l2 /\ same_key gt x z = true.
Proof.
  intros H Px Hx. specialize (H x Px).
  destruct (List.filter (same_key gt x) l2) as [|z r] eqn:E.
  - exfalso. assert (Hin : In x (List.filter (same_key gt x) l1)) by (apply filter_In; split; [exact Hx|apply same_key_refl; exact Px]).
    destruct (List.filter (same_key gt x) l1); [destruct Hin|discriminate].
  - exists z. apply filter_In. rewrite E. left. reflexivity.
Qed.

(** the head of a sorted list is <= any x having a key that occurs in the list *)
Lemma head_le_same y l x : Forall P (y :: l) -> Sorted (le_rel gt) (y :: l) -> P x ->
  (exists z, In z (y :: l) /\ same_key gt x z = true) -> gt y x = false.
Proof.
  intros Hp Hs Px (z & Hz & E). apply same_key_true in E as [_ Ezx].
  assert (Pz : P z) by (rewrite Forall_forall in Hp; apply Hp; exact Hz).
  assert (Py : P y) by (inversion Hp; assumption).
  exact (gt_negtrans y z x Py Pz Px (sorted_head_le y l Hp Hs z Hz) Ezx).
Qed.

(** two sorted lists with the same number of elements of every key carry the
    same sequence of keys *)
Lemma sorted_same_counts_keys l1 : forall l2, Forall P l1 -> Forall P l2 ->
  Sorted (le_rel gt) l1 -> Sorted (le_rel gt) l2 -> same_counts l1 l2 ->
  Forall2 (fun a b => same_key gt a b = true) l1 l2.
Proof.
  induction l1 as [|x l1 IH]; intros l2 Hp1 Hp2 Hs1 Hs2 Hc.
  - destruct l2 as [|y l2]; [constructor|]. exfalso.
    assert (Py : P y) by (inversion Hp2; assumption).
    specialize (Hc y Py). cbn [List.filter] in Hc. rewrite (same_key_refl y Py) in Hc. discriminate.
  - assert (Px : P x) by (inversion Hp1; assumption).
    destruct l2 as [|y l2].
    { exfalso. specialize (Hc x Px). cbn [List.filter] in Hc. rewrite (same_key_refl x Px) in Hc. discriminate. }
    assert (Py : P y) by (inversion Hp2; assumption).
    assert (Exy : same_key gt x y = true).
    { apply same_key_true. split.
      - apply (head_le_same x l1 y Hp1 Hs1 Py).
        apply (same_counts_exists (y :: l2) (x :: l1) y (same_counts_sym _ _ Hc) Py). left; reflexivity.
      - apply (head_le_same y l2 x Hp2 Hs2 Px).
        apply (same_counts_exists (x :: l1) (y :: l2) x Hc Px). left; reflexivity. }
    constructor; [exact Exy|].
    inversion Hp1; subst. inversion Hp2; subst. inversion Hs1; subst. inversion Hs2; subst.
    apply IH; try assumption.
    intros k Pk. specialize (Hc k Pk). cbn [List.filter] in Hc.
    rewrite (same_key_cong k x y Pk Px Py Exy) in Hc.
    destruct (same_key gt k y); cbn [length] in Hc; lia.
Qed.

Theorem sort_stable_perm_general_sec l1 l2 : Forall P l1 -> Permutation l1 l2 ->
  Permutation (sort_stable gt l1) (sort_stable gt l2) /\
  (forall k, P k ->
     List.filter (same_key gt k) (sort_stable gt l1) = List.filter (same_key gt k) l1 /\
     List.filter (same_key gt k) (sort_stable gt l2) = List.filter (same_key gt k) l2 /\
     Permutation (List.filter (same_key gt k) (sort_stable gt l1)) (List.filter (same_key gt k) (sort_stable gt l2))) /\
  Forall2 (fun a b => same_key gt a b = true) (sort_stable gt l1) (sort_stable gt l2).
Proof.
  intros Hp Hperm.
  assert (Hp2 : Forall P l2) by (eapply Permutation_Forall; eassumption).
  assert (HP : Permutation (sort_stable gt l1) (sort_stable gt l2)).
  { rewrite (sort_perm gt l1), Hperm. symmetry. apply sort_perm. }
  split; [exact HP|]. split.
  - intros k Pk. split; [|split].
    + apply (sort_is_stable gt P gt_asym gt_negtrans k l1 Pk Hp).
    + apply (sort_is_stable gt P gt_asym gt_negtrans k l2 Pk Hp2).
    + apply filter_perm. exact HP.
  - apply sorted_same_counts_keys.
    + eapply Permutation_Forall; [apply Permutation_sym, sort_perm|exact Hp].
    + eapply Permutation_Forall; [apply Permutation_sym, sort_perm|exact Hp2].
    + apply (sort_sorted gt P gt_asym); exact Hp.
    + apply (sort_sorted gt P gt_asym); exact Hp2.
    + intros k _. apply Permutation_length, filter_perm. exact HP.
Qed.
End SortPerm.

(** the statements, closed *)
Theorem sort_stable_perm_distinct (T : Type) (gt : T -> T -> bool) (P : T -> Prop) :
  (forall a b, P a -> P b -> gt a b = true -> gt b a = false) ->
  (forall a b c, P a -> P b -> P c -> gt a b = false -> gt b c = false -> gt a c = false) ->
  forall l1 l2, Forall P l1 -> Permutation l1 l2 ->
  (forall a b, In a l1 -> In b l1 -> gt a b = false -> gt b a = false -> a = b) ->
  sort_stable gt l1 = sort_stable gt l2.
Proof. intros Ha Hn l1 l2 Hp Hperm Hd. exact (sort_stable_perm_distinct_sec gt P Ha Hn l1 l2 Hp Hperm Hd). Qed.

Theorem sort_stable_perm_general (T : Type) (gt : T -> T -> bool) (P : T -> Prop) :
  (forall a b, P a -> P b -> gt a b = true -> gt b a = false) ->
  (forall a b c, P a -> P b -> P c -> gt a b = false -> gt b c = false -> gt a c = false) ->
  forall l1 l2, Forall P l1 -> Permutation l1 l2 ->
  Permutation (sort_stable gt l1) (sort_stable gt l2) /\
  (forall k, P k ->
     List.filter (same_key gt k) (sort_stable gt l1) = List.filter (same_key gt k) l1 /\
     List.filter (same_key gt k) (sort_stable gt l2) = List.filter (same_key gt k) l2 /\
     Permutation (List.filter (same_key gt k) (sort_stable gt l1)) (List.filter (same_key gt k) (sort_stable gt l2))) /\
  Forall2 (fun a b => same_key gt a b = true) (sort_stable gt l1) (sort_stable gt l2).
Proof. intros Ha Hn l1 l2 Hp Hperm. exact (sort_stable_perm_general_sec gt P Ha Hn l1 l2 Hp Hperm). Qed.

(** * 3 and 4: analyze *)

(** parse_all is an option-mapM: it maps permuted inputs to permuted outputs *)
Lemma parse_all_map l us : parse_all l = Some us <-> map (fun a => parse_unit_args (ra_args a)) l = map Some us.
Proof.
  revert us; induction l as [|a r IH]; intros us; cbn [parse_all map].
  - split; [intros [= <-]; reflexivity|]. destruct us; [reflexivity|discriminate].
  - destruct (parse_unit_args (ra_args a)) as [u|].
    + destruct (parse_all r) as [us'|].
      * split.
        -- intros [= <-]. cbn [map]. f_equal. apply IH. reflexivity.
        -- destruct us as [|u0 us0]; [discriminate|]. cbn [map]. intros [= -> H].
           apply IH in H. injection H as ->. reflexivity.
      * split; [discriminate|]. destruct us as [|u0 us0]; [discriminate|]. cbn [map]. intros [= _ H].
        apply IH in H. discriminate.
    + split; [discriminate|]. destruct us; discriminate.
Qed.

Lemma parse_all_perm l1 l2 : Permutation l1 l2 -> forall us1, parse_all l1 = Some us1 ->
  exists us2, parse_all l2 = Some us2 /\ Permutation us1 us2.
Proof.
  intros Hp us1 E. apply parse_all_map in E.
  assert (H : Permutation (map (fun a => parse_unit_args (ra_args a)) l2) (map Some us1)).
  { rewrite <- E. apply Permutation_map, Permutation_sym. exact Hp. }
  apply Permutation_map_inv in H as (us2 & E2 & Hp2).
  exists us2. split; [apply parse_all_map; exact E2|exact Hp2].
Qed.

(** analyze as a function of the two filtered attribute lists *)
Definition refs_of (d : raw_def) : list raw_attr :=
  List.filter (fun a => match ra_kind a with ARefUnit => true | _ => false end)
    (List.filter (fun a => match ra_kind a with AOtherAttr => false | _ => true end) (rd_attrs d)).
Definition units_of (d : raw_def) : list raw_attr :=
  List.filter (fun a => match ra_kind a with AUnit => true | _ => false end)
    (List.filter (fun a => match ra_kind a with AOtherAttr => false | _ => true end) (rd_attrs d)).

Definition analyze_core (refs units : list raw_attr) : option analysed :=
  match refs with
  | [] =>
      match parse_all units with
      | Some (u :: us) =>
          if forallb (fun u => match ud_scale u, ud_prefix u with None, None => true | _, _ => false end) (u :: us)
          then Some (mkanalysed (sort_stable name_gt (u :: us)) None) else None
      | _ => None
      end
  | [ra] =>
      match parse_unit_args (ra_args ra), parse_all units with
      | _, Some [] => None
      | Some r, Some us =>
          match ud_scale r with
          | Some _ => None
          | None =>
              if forallb (fun u => match ud_scale u with Some _ => true | None => false end) us
              then let r1 := mkudecl (ud_ident r) (ud_symbol r) (ud_prefix r) (Some one_lit) (ud_doc r) in
                   Some (mkanalysed (sort_stable key_gt (r1 :: us)) (Some (upper_camel (ud_ident r))))
              else None
          end
      | _, _ => None
      end
  | _ => None
  end.

Lemma analyze_core_eq d : analyze d = analyze_core (refs_of d) (units_of d).
Proof. reflexivity. Qed.

Lemma refs_of_perm d1 d2 : Permutation (rd_attrs d1) (rd_attrs d2) -> Permutation (refs_of d1) (refs_of d2).
Proof. intros H. unfold refs_of. apply filter_perm, filter_perm. exact H. Qed.
Lemma units_of_perm d1 d2 : Permutation (rd_attrs d1) (rd_attrs d2) -> Permutation (units_of d1) (units_of d2).
Proof. intros H. unfold units_of. apply filter_perm, filter_perm. exact H. Qed.

(** what a successful analyze_core looks like *)
Inductive core_shape (refs units : list raw_attr) (a : analysed) : Prop :=
| cs_noref (us : list udecl) :
    refs = [] -> parse_all units = Some us -> us <> [] ->
    forallb (fun u => match ud_scale u, ud_prefix u with None, None => true | _, _ => false end) us = true ->
    a = mkanalysed (sort_stable name_gt us) None -> core_shape refs units a
| cs_ref (ra : raw_attr) (r : udecl) (us : list udecl) :
    refs = [ra] -> parse_unit_args (ra_args ra) = Some r -> parse_all units = Some us -> us <> [] ->
    ud_scale r = None ->
    forallb (fun u => match ud_scale u with Some _ => true | None => false end) us = true ->
    a = mkanalysed (sort_stable key_gt (mkudecl (ud_ident r) (ud_symbol r) (ud_prefix r) (Some one_lit) (ud_doc r) :: us))
                   (Some (upper_camel (ud_ident r))) -> core_shape refs units a.

Lemma analyze_core_shape refs units a : analyze_core refs units = Some a -> core_shape refs units a.
Proof.
  unfold analyze_core. destruct refs as [|ra [|ra2 rest]]; [| |discriminate].
  - destruct (parse_all units) as [[|u us]|] eqn:Ep; try discriminate.
    destruct (forallb _ (u :: us)) eqn:Ef; [|discriminate]. intros [= <-].
    apply (cs_noref _ _ _ (u :: us)); try reflexivity; try assumption. discriminate.
  - destruct (parse_unit_args (ra_args ra)) as [r|] eqn:Er;
      destruct (parse_all units) as [[|u us]|] eqn:Ep; try discriminate.
    destruct (ud_scale r) eqn:Es; [discriminate|].
    destruct (forallb _ (u :: us)) eqn:Ef; [|discriminate]. intros [= <-].
    apply (cs_ref _ _ _ ra r (u :: us)); try reflexivity; try assumption. discriminate.
Qed.

Lemma core_noref_intro units us :
  parse_all units = Some us -> us <> [] ->
  forallb (fun u => match ud_scale u, ud_prefix u with None, None => true | _, _ => false end) us = true ->
  analyze_core [] units = Some (mkanalysed (sort_stable name_gt us) None).
Proof.
  intros Ep Hne Ef. unfold analyze_core. rewrite Ep. destruct us as [|u us]; [congruence|]. rewrite Ef. reflexivity.
Qed.

Lemma core_ref_intro ra units r us :
  parse_unit_args (ra_args ra) = Some r -> parse_all units = Some us -> us <> [] -> ud_scale r = None ->
  forallb (fun u => match ud_scale u with Some _ => true | None => false end) us = true ->
  analyze_core [ra] units =
  Some (mkanalysed (sort_stable key_gt (mkudecl (ud_ident r) (ud_symbol r) (ud_prefix r) (Some one_lit) (ud_doc r) :: us))
                   (Some (upper_camel (ud_ident r)))).
Proof.
  intros Er Ep Hne Es Ef. unfold analyze_core. rewrite Er, Ep. destruct us as [|u us]; [congruence|]. rewrite Es, Ef. reflexivity.
Qed.

Lemma perm_nonempty {A} (l1 l2 : list A) : Permutation l1 l2 -> l1 <> [] -> l2 <> [].
Proof. intros H Hne ->. apply Permutation_sym, Permutation_nil in H. contradiction. Qed.

Lemma name_gt_asym' a b : True -> True -> name_gt a b = true -> name_gt b a = false.
Proof. intros _ _. apply name_gt_asym. Qed.
Lemma name_gt_negtrans' a b c : True -> True -> True -> name_gt a b = false -> name_gt b c = false -> name_gt a c = false.
Proof. intros _ _ _. apply name_gt_negtrans. Qed.
Lemma Forall_True {A} (l : list A) : Forall (fun _ => True) l.
Proof. apply Forall_forall. trivial. Qed.

(** ** 3: no reference unit, unit names without tie *)
Theorem analyze_perm_noref d1 d2 a1 :
  Permutation (rd_attrs d1) (rd_attrs d2) ->
  analyze d1 = Some a1 -> an_ref a1 = None ->
  (forall a b, In a (an_units a1) -> In b (an_units a1) -> name_gt a b = false -> name_gt b a = false -> a = b) ->
  analyze d2 = Some a1.
Proof.
  intros Hperm H1 Hn Hd. rewrite analyze_core_eq in *.
  pose proof (refs_of_perm d1 d2 Hperm) as Hr. pose proof (units_of_perm d1 d2 Hperm) as Hu.
  destruct (analyze_core_shape _ _ _ H1) as [us Er Ep Hne Ef ->|ra r us _ _ _ _ _ _ ->]; [|discriminate Hn].
  rewrite Er in Hr. apply Permutation_nil in Hr. rewrite Hr.
  destruct (parse_all_perm _ _ Hu _ Ep) as (us2 & Ep2 & Hp).
  rewrite (core_noref_intro _ us2 Ep2 (perm_nonempty _ _ Hp Hne)); [|rewrite <- (forallb_perm _ _ _ Hp); exact Ef].
  cbn [an_units] in Hd.
  rewrite (sort_stable_perm_distinct udecl name_gt (fun _ => True) name_gt_asym' name_gt_negtrans' us us2 (Forall_True us) Hp); [reflexivity|].
  eapply (no_tie_perm name_gt); [apply sort_perm|exact Hd].
Qed.

(** ** 4: with a reference unit, finite keys without tie (the reference unit's
       key 1.0 included: it is an element of an_units) *)
Theorem analyze_perm_ref d1 d2 a1 :
  Permutation (rd_attrs d1) (rd_attrs d2) ->
  analyze d1 = Some a1 -> an_ref a1 <> None ->
  Forall key_finite (an_units a1) ->
  (forall a b, In a (an_units a1) -> In b (an_units a1) -> key_gt a b = false -> key_gt b a = false -> a = b) ->
  analyze d2 = Some a1.
Proof.
  intros Hperm H1 Hn Hfin Hd. rewrite analyze_core_eq in *.
  pose proof (refs_of_perm d1 d2 Hperm) as Hr. pose proof (units_of_perm d1 d2 Hperm) as Hu.
  destruct (analyze_core_shape _ _ _ H1) as [us _ _ _ _ ->|ra r us Er Epr Ep Hne Es Ef ->]; [contradiction Hn; reflexivity|].
  rewrite Er in Hr. apply Permutation_length_1_inv in Hr. rewrite Hr.
  destruct (parse_all_perm _ _ Hu _ Ep) as (us2 & Ep2 & Hp).
  rewrite (core_ref_intro ra _ r us2 Epr Ep2 (perm_nonempty _ _ Hp Hne) Es); [|rewrite <- (forallb_perm _ _ _ Hp); exact Ef].
  cbn [an_units] in Hd, Hfin.
  set (r1 := mkudecl (ud_ident r) (ud_symbol r) (ud_prefix r) (Some one_lit) (ud_doc r)) in *.
  rewrite (sort_stable_perm_distinct udecl key_gt key_finite key_gt_asym key_gt_negtrans (r1 :: us) (r1 :: us2)); [reflexivity| | |].
  - eapply Permutation_Forall; [apply sort_perm|exact Hfin].
  - constructor. exact Hp.
  - eapply (no_tie_perm key_gt); [apply sort_perm|exact Hd].
Qed.

(** ** 5: no distinctness hypothesis: same reference variant, a permutation of
       the units, the same sequence of keys; the group of every key is the
       group of the declaration, in declaration order (C11), so that only the
       order inside a group of equal key can differ *)
Theorem analyze_perm_general d1 d2 a1 :
  Permutation (rd_attrs d1) (rd_attrs d2) ->
  analyze d1 = Some a1 ->
  (an_ref a1 <> None -> Forall key_finite (an_units a1)) ->
  exists a2, analyze d2 = Some a2 /\ an_ref a2 = an_ref a1 /\
    Permutation (an_units a1) (an_units a2) /\
    match an_ref a1 with
    | None => Forall2 (fun a b => same_key name_gt a b = true) (an_units a1) (an_units a2)
    | Some _ => Forall2 (fun a b => same_key key_gt a b = true) (an_units a1) (an_units a2)
    end.
Proof.
  intros Hperm H1 Hfin. rewrite analyze_core_eq in *.
  pose proof (refs_of_perm d1 d2 Hperm) as Hr. pose proof (units_of_perm d1 d2 Hperm) as Hu.
  destruct (analyze_core_shape _ _ _ H1) as [us Er Ep Hne Ef ->|ra r us Er Epr Ep Hne Es Ef ->].
  - rewrite Er in Hr. apply Permutation_nil in Hr. rewrite Hr.
    destruct (parse_all_perm _ _ Hu _ Ep) as (us2 & Ep2 & Hp).
    rewrite (core_noref_intro _ us2 Ep2 (perm_nonempty _ _ Hp Hne)); [|rewrite <- (forallb_perm _ _ _ Hp); exact Ef].
    eexists. split; [reflexivity|]. cbn [an_ref an_units]. split; [reflexivity|].
    destruct (sort_stable_perm_general udecl name_gt (fun _ => True) name_gt_asym' name_gt_negtrans' us us2 (Forall_True us) Hp) as (A & _ & C).
    split; assumption.
  - rewrite Er in Hr. apply Permutation_length_1_inv in Hr. rewrite Hr.
    destruct (parse_all_perm _ _ Hu _ Ep) as (us2 & Ep2 & Hp).
    rewrite (core_ref_intro ra _ r us2 Epr Ep2 (perm_nonempty _ _ Hp Hne) Es); [|rewrite <- (forallb_perm _ _ _ Hp); exact Ef].
    eexists. split; [reflexivity|]. cbn [an_ref an_units] in *. split; [reflexivity|].
    set (r1 := mkudecl (ud_ident r) (ud_symbol r) (ud_prefix r) (Some one_lit) (ud_doc r)) in *.
    assert (Hf : Forall key_finite (r1 :: us)).
    { eapply Permutation_Forall; [apply sort_perm|apply Hfin; discriminate]. }
    destruct (sort_stable_perm_general udecl key_gt key_finite key_gt_asym key_gt_negtrans (r1 :: us) (r1 :: us2) Hf (perm_skip r1 Hp)) as (A & _ & C).
    split; assumption.
Qed.

(** * the no-tie hypotheses from NoDup of the keys *)
Lemma ustr_cmp_eq a : forall b, ustr_cmp a b = Eq -> a = b.
Proof.
  induction a as [|x a IH]; intros [|y b]; cbn [ustr_cmp]; try discriminate; [reflexivity|].
  destruct (N.compare x y) eqn:E; try discriminate. apply N.compare_eq in E. subst y.
  intros H. f_equal. apply IH. exact H.
Qed.

Lemma name_tie_eq a b : name_gt a b = false -> name_gt b a = false ->
  name_of_ident (ud_ident a) = name_of_ident (ud_ident b).
Proof.
  unfold name_gt. rewrite (ustr_cmp_antisym (name_of_ident (ud_ident a)) (name_of_ident (ud_ident b))).
  intros H1 H2. apply ustr_cmp_eq.
  destruct (ustr_cmp (name_of_ident (ud_ident a)) (name_of_ident (ud_ident b))); cbn [CompOpp] in H2; [reflexivity|discriminate|discriminate].
Qed.

Corollary analyze_perm_noref_names d1 d2 a1 :
  Permutation (rd_attrs d1) (rd_attrs d2) ->
  analyze d1 = Some a1 -> an_ref a1 = None ->
  NoDup (map (fun u => name_of_ident (ud_ident u)) (an_units a1)) ->
  analyze d2 = Some a1.
Proof.
  intros Hperm H1 Hn Hnd. apply (analyze_perm_noref d1 d2 a1 Hperm H1 Hn).
  intros a b Ha Hb E1 E2. apply (NoDup_map_inj _ _ Hnd a b Ha Hb). apply name_tie_eq; assumption.
Qed.

Lemma key_tie_eq a b : key_finite a -> key_finite b -> key_gt a b = false -> key_gt b a = false ->
  B2R 53 1024 (scale_key a) = B2R 53 1024 (scale_key b).
Proof.
  intros Ha Hb. unfold key_gt. rewrite (key_cmp_real a b Ha Hb), (key_cmp_real b a Hb Ha).
  destruct (Rcompare_spec (B2R 53 1024 (scale_key a)) (B2R 53 1024 (scale_key b))) as [H|H|H]; try discriminate; [|intros _ _; exact H].
  destruct (Rcompare_spec (B2R 53 1024 (scale_key b)) (B2R 53 1024 (scale_key a))); try discriminate; intros _ _; lra.
Qed.

(** scales pairwise distinct as real values of their f64 keys (the reference unit's 1.0 included) *)
Corollary analyze_perm_ref_values d1 d2 a1 :
  Permutation (rd_attrs d1) (rd_attrs d2) ->
  analyze d1 = Some a1 -> an_ref a1 <> None ->
  Forall key_finite (an_units a1) ->
  NoDup (map (fun u => B2R 53 1024 (scale_key u)) (an_units a1)) ->
  analyze d2 = Some a1.
Proof.
  intros Hperm H1 Hn Hfin Hnd. apply (analyze_perm_ref d1 d2 a1 Hperm H1 Hn Hfin).
  intros a b Ha Hb E1 E2. apply (NoDup_map_inj _ _ Hnd a b Ha Hb).
  rewrite Forall_forall in Hfin. apply key_tie_eq; auto.
Qed.

Print Assumptions sort_stable_perm_distinct.
Print Assumptions sort_stable_perm_general.
Print Assumptions analyze_perm_noref.
Print Assumptions analyze_perm_ref.
Print Assumptions analyze_perm_general.
Print Assumptions analyze_perm_noref_names.
Print Assumptions analyze_perm_ref_values.
