(* Proofs/AccRate.v — C13, the "up to rounding" half: a rate operation is
     x1 = value / (1 per-unit)          the dimensionless ratio of C03
     x2 = x1 / per multiple             one more rounding
     x3 = x2 * term amount              one more rounding
   (and symmetrically for value / rate).  Binary64: each step contributes one
   factor (1 + d), |d| <= 2^-53, while the exact results stay in the normal
   range; decimal: each step is within half a unit of the 18th digit. *)
From Coq Require Import Reals ZArith Lra Psatz Bool Lia List.
From Flocq Require Import Core IEEE754.BinarySingleNaN IEEE754.Binary IEEE754.Bits.
From QV Require Import Rt.Prelude Rt.Amount Rt.Quantity Gen.Prefixes Gen.Kernels Amount.F64 Amount.F64Acc
  Amount.DecModel Amount.Dec Amount.DecAcc Proofs.Laws Proofs.Kernel Proofs.C13 Proofs.AccF64 Proofs.AccDec.
From QV Require Amount.Laws.
Local Open Scope R_scope.

(** * binary64 *)
Section RateF64.
Context (TQ : QBase F64) (PQ : QFull F64).
Hypothesis LT : QLaws TQ.

(** rate * value (= value * rate): the two roundings after the ratio *)
Theorem rate_mul_f64 (r : rate F64) (q : Qt PQ) (x1 : f64) :
  q_div PQ q (q_new PQ (a_one F64) (rt_per_unit r)) = Ok x1 ->
  In (rt_term_unit r) (u_iter TQ) ->
  fin x1 -> fin (rt_per_unit_multiple r) -> fin (rt_term_amount r) -> val (rt_per_unit_multiple r) <> 0 ->
  normal (val x1 / val (rt_per_unit_multiple r)) ->
  normal (val (f64_div x1 (rt_per_unit_multiple r)) * val (rt_term_amount r)) ->
  exists y d1 d2, Rate_mul TQ PQ r q = Ok y /\ tmpl_Mul_Qty_Rate PQ TQ q r = Ok y /\ q_unit TQ y = rt_term_unit r /\
    Rabs d1 <= u64 /\ Rabs d2 <= u64 /\
    val (q_amount TQ y) = val (rt_term_amount r) * (val x1 / val (rt_per_unit_multiple r)) * (1 + d1) * (1 + d2).
Proof.
  intros E1 Hin F1 Fp Ft Hp0 [N1 N1'] [N2 N2'].
  destruct (rate_mul_kernel TQ PQ r q) as [-> ->]. unfold rate_mul_nf. rewrite E1. cbn [bind a_div a_mul F64].
  destruct (f64_div_rel x1 (rt_per_unit_multiple r) F1 Fp Hp0 N1 N1') as (d1 & Hd1 & F2 & E2).
  destruct (f64_mul_rel _ (rt_term_amount r) F2 Ft N2 N2') as (d2 & Hd2 & F3 & E3).
  eexists _, d1, d2. split; [reflexivity|]. split; [reflexivity|].
  split; [apply (law_unit_new TQ LT); exact Hin|]. rewrite (law_amount_new TQ LT).
  split; [exact Hd1|]. split; [exact Hd2|]. rewrite E3, E2. ring.
Qed.
End RateF64.

Section RateDivF64.
Context (TQ : QFull F64) (PQ : QBase F64).
Hypothesis LP : QLaws PQ.

(** value / rate *)
Theorem qty_div_rate_f64 (q : Qt TQ) (r : rate F64) (x1 : f64) :
  q_div TQ q (q_new TQ (a_one F64) (rt_term_unit r)) = Ok x1 ->
  In (rt_per_unit r) (u_iter PQ) ->
  fin x1 -> fin (rt_term_amount r) -> fin (rt_per_unit_multiple r) -> val (rt_term_amount r) <> 0 ->
  normal (val x1 / val (rt_term_amount r)) ->
  normal (val (f64_div x1 (rt_term_amount r)) * val (rt_per_unit_multiple r)) ->
  exists y d1 d2, tmpl_Div_Qty_Rate TQ PQ q r = Ok y /\ q_unit PQ y = rt_per_unit r /\
    Rabs d1 <= u64 /\ Rabs d2 <= u64 /\
    val (q_amount PQ y) = val (rt_per_unit_multiple r) * (val x1 / val (rt_term_amount r)) * (1 + d1) * (1 + d2).
Proof.
  intros E1 Hin F1 Ft Fp Ht0 [N1 N1'] [N2 N2'].
  rewrite (qty_div_rate_kernel TQ PQ q r). unfold qty_div_rate_nf. rewrite E1. cbn [bind a_div a_mul F64].
  destruct (f64_div_rel x1 (rt_term_amount r) F1 Ft Ht0 N1 N1') as (d1 & Hd1 & F2 & E2).
  destruct (f64_mul_rel _ (rt_per_unit_multiple r) F2 Fp N2 N2') as (d2 & Hd2 & F3 & E3).
  eexists _, d1, d2. split; [reflexivity|].
  split; [apply (law_unit_new PQ LP); exact Hin|]. rewrite (law_amount_new PQ LP).
  split; [exact Hd1|]. split; [exact Hd2|]. rewrite E3, E2. ring.
Qed.
End RateDivF64.

(** the ratio value / (1 unit) itself, for a quantity with reference unit: exact
    when the value is already in that unit (division by one), three roundings otherwise (C03) *)
Lemma ratio_to_unit_same_f64 (S : QBase F64) (L : QLaws S) (q : Qt S) (u : nat) :
  In u (u_iter S) -> q_unit S q = u -> fin (q_amount S q) ->
  exists x1, HasRefUnit_div S q (q_new S (a_one F64) u) = Ok x1 /\ fin x1 /\ val x1 = val (q_amount S q).
Proof.
  intros Hin Eu Fa. rewrite (ref_div_same_unit S q (q_new S (a_one F64) u)) by (rewrite (law_unit_new S L _ _ Hin); exact Eu).
  rewrite (law_amount_new S L). cbn [a_div a_one F64].
  pose proof (Bdiv_correct 53 1024 Hp Hm binop_nan_pl64 mode_NE (q_amount S q) f64_one) as H.
  assert (V1 : val f64_one = 1) by (vm_compute; lra).
  rewrite V1 in H. specialize (H ltac:(lra)). unfold Rdiv in H. rewrite Rinv_1, Rmult_1_r in H.
  rewrite (round_generic radix2 (SpecFloat.fexp 53 1024) (round_mode mode_NE) _ (generic_format_B2R 53 1024 (q_amount S q))) in H.
  rewrite Rlt_bool_true in H by (apply abs_B2R_lt_emax).
  destruct H as (Hv & Hf & _). eexists. split; [rewrite f64_div_unfold; reflexivity|]. split; [rewrite Hf; exact Fa|exact Hv].
Qed.

(** * decimal *)
Section RateDec.
Context (TQ : QBase DEC) (PQ : QFull DEC).
Hypothesis LT : QLaws TQ.
Notation ok := Amount.Laws.dec_ok.

Theorem rate_mul_dec (r : rate DEC) (q : Qt PQ) (x1 : dec) (y : Qt TQ) :
  q_div PQ q (q_new PQ (a_one DEC) (rt_per_unit r)) = Ok x1 ->
  In (rt_term_unit r) (u_iter TQ) ->
  ok x1 -> ok (rt_per_unit_multiple r) -> ok (rt_term_amount r) ->
  Rate_mul TQ PQ r q = Ok y ->
  tmpl_Mul_Qty_Rate PQ TQ q r = Ok y /\ q_unit TQ y = rt_term_unit r /\ dval (rt_per_unit_multiple r) <> 0 /\
  Rabs (dval (q_amount TQ y) - dval (rt_term_amount r) * (dval x1 / dval (rt_per_unit_multiple r))) <= half_ulp18 * (Rabs (dval (rt_term_amount r)) + 1).
Proof.
  intros E1 Hin H1 Hp Ht. destruct (rate_mul_kernel TQ PQ r q) as [-> ->]. unfold rate_mul_nf. rewrite E1. cbn [bind a_div a_mul DEC].
  destruct (dec_div x1 (rt_per_unit_multiple r)) as [x2|] eqn:E2; cbn [bind]; [|discriminate].
  destruct (dec_mul x2 (rt_term_amount r)) as [x3|] eqn:E3; cbn [bind]; [|discriminate]. intros [= <-].
  destruct (dec_div_acc _ _ _ H1 Hp E2) as (H2 & Hp0 & B2). destruct (dec_mul_acc _ _ _ H2 Ht E3) as (_ & B3 & _).
  split; [reflexivity|]. split; [apply (law_unit_new TQ LT); exact Hin|]. split; [exact Hp0|]. rewrite (law_amount_new TQ LT).
  set (t := dval (rt_term_amount r)) in *. set (v := dval x1 / dval (rt_per_unit_multiple r)) in *.
  replace (dval x3 - t * v) with ((dval x3 - dval x2 * t) + (dval x2 - v) * t) by ring.
  eapply Rle_trans; [apply Rabs_triang|]. rewrite Rabs_mult. pose proof (Rabs_pos t). pose proof half_ulp18_pos. nra.
Qed.
End RateDec.

Section RateDivDec.
Context (TQ : QFull DEC) (PQ : QBase DEC).
Hypothesis LP : QLaws PQ.
Notation ok := Amount.Laws.dec_ok.

Theorem qty_div_rate_dec (q : Qt TQ) (r : rate DEC) (x1 : dec) (y : Qt PQ) :
  q_div TQ q (q_new TQ (a_one DEC) (rt_term_unit r)) = Ok x1 ->
  In (rt_per_unit r) (u_iter PQ) ->
  ok x1 -> ok (rt_term_amount r) -> ok (rt_per_unit_multiple r) ->
  tmpl_Div_Qty_Rate TQ PQ q r = Ok y ->
  q_unit PQ y = rt_per_unit r /\ dval (rt_term_amount r) <> 0 /\
  Rabs (dval (q_amount PQ y) - dval (rt_per_unit_multiple r) * (dval x1 / dval (rt_term_amount r))) <= half_ulp18 * (Rabs (dval (rt_per_unit_multiple r)) + 1).
Proof.
  intros E1 Hin H1 Ht Hp. rewrite (qty_div_rate_kernel TQ PQ q r). unfold qty_div_rate_nf. rewrite E1. cbn [bind a_div a_mul DEC].
  destruct (dec_div x1 (rt_term_amount r)) as [x2|] eqn:E2; cbn [bind]; [|discriminate].
  destruct (dec_mul x2 (rt_per_unit_multiple r)) as [x3|] eqn:E3; cbn [bind]; [|discriminate]. intros [= <-].
  destruct (dec_div_acc _ _ _ H1 Ht E2) as (H2 & Ht0 & B2). destruct (dec_mul_acc _ _ _ H2 Hp E3) as (_ & B3 & _).
  split; [apply (law_unit_new PQ LP); exact Hin|]. split; [exact Ht0|]. rewrite (law_amount_new PQ LP).
  set (p := dval (rt_per_unit_multiple r)) in *. set (v := dval x1 / dval (rt_term_amount r)) in *.
  replace (dval x3 - p * v) with ((dval x3 - dval x2 * p) + (dval x2 - v) * p) by ring.
  eapply Rle_trans; [apply Rabs_triang|]. rewrite Rabs_mult. pose proof (Rabs_pos p). pose proof half_ulp18_pos. nra.
Qed.
End RateDivDec.

(** decimal: the ratio to one unit is the amount itself when the value already has that unit *)
Lemma ratio_to_unit_same_dec (S : QBase DEC) (L : QLaws S) (q : Qt S) (u : nat) :
  In u (u_iter S) -> q_unit S q = u ->
  exists x1, HasRefUnit_div S q (q_new S (a_one DEC) u) = Ok x1 /\ dval x1 = dval (q_amount S q).
Proof.
  intros Hin Eu. rewrite (ref_div_same_unit S q (q_new S (a_one DEC) u)) by (rewrite (law_unit_new S L _ _ Hin); exact Eu).
  rewrite (law_amount_new S L). cbn [a_div a_one DEC]. unfold dec_div.
  change (dec_eq_zero dec_one) with false. cbn [negb].
  destruct (dec_eq_zero (q_amount S q)) eqn:Ez.
  - eexists. split; [reflexivity|]. unfold dec_eq_zero in Ez. apply Z.eqb_eq in Ez.
    rewrite (dval_zero_coeff _ Ez). unfold dval. cbn. unfold Rdiv. apply Rmult_0_l.
  - change (dec_eq_one dec_one) with true. eexists. split; reflexivity.
Qed.
