(* Proofs/C02.v — cross-unit comparison (property C02): same-unit reduction,
   the normal form for different units, and order independence for every
   amount type satisfying the order laws (Amount/Laws.v: binary64, Decimal). *)
From Coq Require Import Lia.
From QV Require Import Rt.Prelude Rt.Amount Rt.Quantity Macro.Defs Gen.Prefixes Gen.Catalogue
  Gen.Kernels Macro.Inst Amount.F64 Amount.DecModel Amount.Dec Amount.Laws Proofs.Laws Proofs.Kernel Proofs.Instances Proofs.C09.

Section C02.
Context {am : Amount} (S : QBase am).

Lemma c02_same_unit x y : q_unit S x = q_unit S y ->
  HasRefUnit_eq S x y = Ok (a_eqb am (q_amount S x) (q_amount S y)) /\
  HasRefUnit_partial_cmp S x y = Ok (a_cmp am (q_amount S x) (q_amount S y)).
Proof. intros E. split; [apply ref_eq_same_unit|apply ref_cmp_same_unit]; exact E. Qed.

Lemma c02_diff_unit x y : q_unit S x <> q_unit S y ->
  HasRefUnit_eq S x y = bind (ref_magnitude S x) (fun mx => bind (ref_magnitude S y) (fun my => Ok (a_eqb am mx my))) /\
  HasRefUnit_partial_cmp S x y = bind (ref_magnitude S x) (fun mx => bind (ref_magnitude S y) (fun my => Ok (a_cmp am mx my))).
Proof. intros E. split; [apply ref_eq_diff_unit|apply ref_cmp_diff_unit]; exact E. Qed.

(** the values an operation looks at are well-formed amounts *)
Definition operand_ok (ok : am -> Prop) (q : Qt S) : Prop := ok (q_amount S q) /\ ok (u_scale S (q_unit S q)).

Section Laws.
Context (ok : am -> Prop) (CL : CmpLaws am ok).

Lemma magnitude_ok q m : operand_ok ok q -> ref_magnitude S q = Ok m -> ok m.
Proof. intros [Ha Hs] H. exact (cl_mul_ok am ok CL _ _ _ Ha Hs H). Qed.

(** a == b exactly when b == a *)
Lemma c02_eq_sym x y b : operand_ok ok x -> operand_ok ok y ->
  HasRefUnit_eq S x y = Ok b -> HasRefUnit_eq S y x = Ok b.
Proof.
  intros Hx Hy. destruct (PeanoNat.Nat.eq_dec (q_unit S x) (q_unit S y)) as [E|E].
  - rewrite (ref_eq_same_unit S x y E), (ref_eq_same_unit S y x (eq_sym E)). intros [= <-]. f_equal.
    apply (cl_eqb_sym am ok CL); [apply Hy|apply Hx].
  - rewrite (ref_eq_diff_unit S x y E), (ref_eq_diff_unit S y x (fun H => E (eq_sym H))). intros H.
    apply bind_ok in H as (mx & Emx & H). apply bind_ok in H as (my & Emy & [= <-]).
    rewrite Emy, Emx. cbn [bind]. f_equal.
    apply (cl_eqb_sym am ok CL); [exact (magnitude_ok y my Hy Emy)|exact (magnitude_ok x mx Hx Emx)].
Qed.

(** partial_cmp(a, b) is the reverse of partial_cmp(b, a) *)
Lemma c02_cmp_antisym x y c : operand_ok ok x -> operand_ok ok y ->
  HasRefUnit_partial_cmp S x y = Ok c -> HasRefUnit_partial_cmp S y x = Ok (option_map CompOpp c).
Proof.
  intros Hx Hy. destruct (PeanoNat.Nat.eq_dec (q_unit S x) (q_unit S y)) as [E|E].
  - rewrite (ref_cmp_same_unit S x y E), (ref_cmp_same_unit S y x (eq_sym E)). intros [= <-]. f_equal.
    rewrite (cl_cmp_antisym am ok CL (q_amount S x) (q_amount S y)) by (apply Hx || apply Hy).
    destruct (a_cmp am (q_amount S y) (q_amount S x)) as [[]|]; reflexivity.
  - rewrite (ref_cmp_diff_unit S x y E), (ref_cmp_diff_unit S y x (fun H => E (eq_sym H))). intros H.
    apply bind_ok in H as (mx & Emx & H). apply bind_ok in H as (my & Emy & [= <-]).
    rewrite Emy, Emx. cbn [bind]. f_equal.
    assert (Hmx : ok mx) by exact (magnitude_ok x mx Hx Emx).
    assert (Hmy : ok my) by exact (magnitude_ok y my Hy Emy).
    rewrite (cl_cmp_antisym am ok CL mx my Hmx Hmy).
    destruct (a_cmp am my mx) as [[]|]; reflexivity.
Qed.

(** partial_cmp reports Equal exactly when == holds *)
Lemma c02_equal_iff_eq x y c b : operand_ok ok x -> operand_ok ok y ->
  HasRefUnit_partial_cmp S x y = Ok c -> HasRefUnit_eq S x y = Ok b -> (c = Some Eq <-> b = true).
Proof.
  intros Hx Hy. destruct (PeanoNat.Nat.eq_dec (q_unit S x) (q_unit S y)) as [E|E].
  - rewrite (ref_cmp_same_unit S x y E), (ref_eq_same_unit S x y E). intros [= <-] [= <-].
    apply (cl_cmp_eq am ok CL); [apply Hx|apply Hy].
  - rewrite (ref_cmp_diff_unit S x y E), (ref_eq_diff_unit S x y E). intros H1 H2.
    apply bind_ok in H1 as (mx & Emx & H1). apply bind_ok in H1 as (my & Emy & [= <-]).
    rewrite Emx, Emy in H2. cbn [bind] in H2. injection H2 as <-.
    apply (cl_cmp_eq am ok CL); [exact (magnitude_ok x mx Hx Emx)|exact (magnitude_ok y my Hy Emy)].
Qed.

(** both orders panic together *)
Lemma c02_panic_sym x y : q_unit S x <> q_unit S y ->
  is_ok (HasRefUnit_eq S x y) = is_ok (HasRefUnit_eq S y x) /\
  is_ok (HasRefUnit_partial_cmp S x y) = is_ok (HasRefUnit_partial_cmp S y x).
Proof.
  intros E. rewrite (ref_eq_diff_unit S x y E), (ref_eq_diff_unit S y x (fun H => E (eq_sym H))),
    (ref_cmp_diff_unit S x y E), (ref_cmp_diff_unit S y x (fun H => E (eq_sym H))).
  destruct (ref_magnitude S x), (ref_magnitude S y); split; reflexivity.
Qed.
End Laws.
End C02.

(** core's derived operators in terms of partial_cmp: a < b iff b > a, a <= b iff b >= a *)
Lemma opp_relations (c : option comparison) :
  let r := option_map CompOpp c in
  (match c with Some Lt => true | _ => false end = match r with Some Gt => true | _ => false end) /\
  (match c with Some Lt | Some Eq => true | _ => false end = match r with Some Gt | Some Eq => true | _ => false end) /\
  (match c with Some Gt => true | _ => false end = match r with Some Lt => true | _ => false end) /\
  (match c with Some Gt | Some Eq => true | _ => false end = match r with Some Lt | Some Eq => true | _ => false end).
Proof. destruct c as [[]|]; repeat split. Qed.

(** the generated PartialEq / PartialOrd of every reference-unit type are these kernels *)
Lemma c02_operators (am : Amount) (g : gen_def SIPrefix) : gd_path g = PRef ->
  forall x y : Qt (base_of_gen am g),
  q_eq (full_of_gen am g) x y = HasRefUnit_eq (base_of_gen am g) x y /\
  q_partial_cmp (full_of_gen am g) x y = HasRefUnit_partial_cmp (base_of_gen am g) x y.
Proof. intros Hp x y. cbn [q_eq q_partial_cmp full_of_gen]. rewrite Hp. split; reflexivity. Qed.

(** every scale of every definition of the tree is a well-formed amount in the decimal back-end *)
Definition dec_scales_ok (e : cat_entry SIPrefix) : bool :=
  forallb (fun u => let d := u_scale (base_of_gen DEC (ce_gen e)) u in (0 <=? d_nfd d)%Z && (d_nfd d <=? 18)%Z)
          (u_iter (base_of_gen DEC (ce_gen e))).

Lemma all_dec_scales_ok : forallb dec_scales_ok dec_entries = true.
Proof. vm_compute. reflexivity. Qed.
