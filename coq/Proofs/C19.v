(* Proofs/C19.v — the feature lattice (property C19): for EVERY set of enabled
   features (all 2^14 subsets of the quantity features x std x fpdec x serde,
   and any other), every module that is compiled finds every crate module it
   names compiled too.  Cargo's feature resolution is modelled as reachability
   in the [features] graph of Cargo.toml; module gates are the cfg(feature)
   attributes of src/lib.rs; references are the crate::<module> paths of each
   module file — all regenerated from the current tree (Gen/Config.v). *)
From Coq Require Import Lia String.
Local Open Scope string_scope.
From QV Require Import Rt.Prelude Macro.Defs Macro.Impls Gen.Prefixes Gen.Catalogue Gen.Config Proofs.Instances.

Definition umem (x : ustring) (l : list ustring) : bool := existsb (ustr_eqb x) l.

Lemma umem_In x l : umem x l = true <-> In x l.
Proof.
  unfold umem. rewrite existsb_exists. split.
  - intros (y & Hy & E). apply ustr_eqb_eq in E. subst. exact Hy.
  - intros H. exists x. split; [exact H|apply ustr_eqb_refl].
Qed.

(** direct dependencies of a feature that are features themselves ("dep:x" and
    "x?/y" entries enable dependencies, not features) *)
Definition feature_names : list ustring := map fst cargo_features.
Definition deps (f : ustring) : list ustring :=
  match List.find (fun fd => ustr_eqb (fst fd) f) cargo_features with
  | Some (_, ds) => List.filter (fun d => umem d feature_names) ds
  | None => []
  end.

(** cargo: enabling f enables everything reachable from f *)
Inductive reach : ustring -> ustring -> Prop :=
| reach_refl f : reach f f
| reach_step f g h : In g (deps f) -> reach g h -> reach f h.

Lemma reach_trans f g h : reach f g -> reach g h -> reach f h.
Proof. induction 1; [auto|]. intros. eapply reach_step; eauto. Qed.

(** the features enabled by a request S *)
Definition enabled_feature (S : list ustring) (g : ustring) : Prop := exists f, In f S /\ reach f g.

(** a sound (under-approximating) computation of the reachable set *)
Fixpoint reach_fuel (n : nat) (front : list ustring) : list ustring :=
  match n with
  | O => front
  | S n' => front ++ reach_fuel n' (flat_map deps front)
  end.

Lemma reach_fuel_sound n : forall front g, In g (reach_fuel n front) -> exists f, In f front /\ reach f g.
Proof.
  induction n as [|n IH]; intros front g H; cbn [reach_fuel] in H.
  - exists g. split; [exact H|constructor].
  - apply in_app_or in H as [H|H].
    + exists g. split; [exact H|constructor].
    + destruct (IH _ _ H) as (d & Hd & Hr). apply in_flat_map in Hd as (f & Hf & Hd).
      exists f. split; [exact Hf|]. eapply reach_step; eauto.
Qed.

Definition reachable_from (f : ustring) : list ustring := reach_fuel (List.length cargo_features) [f].

Lemma reachable_from_sound f g : umem g (reachable_from f) = true -> reach f g.
Proof.
  intros H. apply umem_In in H. destruct (reach_fuel_sound _ _ _ H) as (f' & [<-|[]] & Hr). exact Hr.
Qed.

(** * Modules *)
Definition gate_of (m : ustring) : option (option ustring) :=      (* None: no such module *)
  match List.find (fun x => ustr_eqb (fst (fst (fst x))) m) lib_modules with
  | Some (_, g, _, _) => Some g
  | None => None
  end.

(** a module is compiled under S iff it has no feature gate or its gate is enabled *)
Definition module_enabled (S : list ustring) (m : ustring) : Prop :=
  match gate_of m with
  | Some None => True
  | Some (Some f) => enabled_feature S f
  | None => False
  end.

Definition refs_of (m : ustring) : list ustring :=
  match List.find (fun x => ustr_eqb (fst x) m) module_refs with Some (_, r) => r | None => [] end.

(** per edge m -> m': the gate of m' is reachable from the gate of m (or m' is ungated) *)
Definition edge_ok (m m' : ustring) : bool :=
  match gate_of m, gate_of m' with
  | _, Some None => true
  | Some (Some f), Some (Some f') => umem f' (reachable_from f)
  | Some None, Some (Some _) => false          (* an ungated module must not need a gated one *)
  | _, None => false
  | None, _ => false
  end.

Definition module_names : list ustring := map (fun x => fst (fst (fst x))) lib_modules.

Definition all_edges_ok : bool :=
  forallb (fun m => forallb (edge_ok m) (refs_of m)) module_names.

Lemma edges_checked : all_edges_ok = true.
Proof. vm_compute. reflexivity. Qed.

Theorem closure_self_contained (S : list ustring) m m' :
  In m module_names -> In m' (refs_of m) -> module_enabled S m -> module_enabled S m'.
Proof.
  intros Hm Hm' Hen. pose proof edges_checked as H. unfold all_edges_ok in H.
  rewrite forallb_forall in H. specialize (H m Hm). rewrite forallb_forall in H. specialize (H m' Hm').
  unfold edge_ok in H. unfold module_enabled in *.
  destruct (gate_of m) as [[f|]|]; destruct (gate_of m') as [[f'|]|]; try discriminate; try exact I.
  destruct Hen as (f0 & Hf0 & Hr). exists f0. split; [exact Hf0|].
  eapply reach_trans; [exact Hr|]. apply reachable_from_sound. exact H.
Qed.

(** more features never disable anything *)
Theorem enabled_monotone (S S' : list ustring) m :
  (forall f, In f S -> In f S') -> module_enabled S m -> module_enabled S' m.
Proof.
  intros Hsub. unfold module_enabled. destruct (gate_of m) as [[f|]|]; auto.
  intros (f0 & Hf0 & Hr). exists f0. split; [apply Hsub; exact Hf0|exact Hr].
Qed.

(** enabling a quantity feature compiles its module *)
Theorem feature_enables_its_module (S : list ustring) f : In f S -> gate_of f = Some (Some f) -> module_enabled S f.
Proof. intros Hin Hg. unfold module_enabled. rewrite Hg. exists f. split; [exact Hin|constructor]. Qed.

(** * Computed facts about the current tree *)
Definition quantity_modules : list ustring :=
  map (fun e => ce_module e) catalogue_main.

(** every predefined quantity lives in a module gated by the feature of the same name *)
Definition module_gates_ok : bool :=
  forallb (fun m => match gate_of m with Some (Some f) => ustr_eqb f m && umem m feature_names | _ => false end) quantity_modules.

(** the operand types of every derivation live in modules enabled by the derived quantity's own feature *)
Definition module_of_qty (q : ustring) : option ustring :=
  if ustr_eqb q amount_t then None
  else option_map (fun e => ce_module e) (List.find (fun e => ustr_eqb (gd_qty (ce_gen e)) q) catalogue_main).

Definition derivation_modules_ok : bool :=
  forallb (fun e =>
    match parse_qargs (rd_qargs (ce_raw e)) with
    | DMul a b | DDiv a b =>
        forallb (fun q => if ustr_eqb q amount_t then true else
                          match module_of_qty q with
                          | Some m' => umem m' (reachable_from (ce_module e)) && umem m' (refs_of (ce_module e))
                          | None => false end) [a; b]
    | DNone => true
    | DBad => false
    end) catalogue_main.

(** no catalogue module contains a cfg of its own (results cannot depend on other features) *)
Definition no_inner_cfgs : bool :=
  forallb (fun mc => negb (umem (fst mc) quantity_modules)) module_inner_cfgs.

(** the `doc` feature lists every quantity feature *)
Definition doc_is_all : bool :=
  forallb (fun m => umem m (deps (us "doc"))) quantity_modules
  && Nat.eqb (List.length quantity_modules) 14.

(** fpdec / serde / std are not quantity modules' gates and gate only what they should *)
Definition amount_backends_ok : bool :=
  match gate_of (us "amnt_dec") with Some (Some f) => ustr_eqb f (us "fpdec") | _ => false end
  && umem (us "fpdec") cargo_optional_deps && umem (us "serde") cargo_optional_deps.

Lemma tree_facts : module_gates_ok = true /\ derivation_modules_ok = true /\ no_inner_cfgs = true /\
  doc_is_all = true /\ amount_backends_ok = true.
Proof. repeat split; vm_compute; reflexivity. Qed.
