(* Proofs/DerivedCat.v — the derivations of the current tree: which operator
   instances exist (against the model of codegen_impl_mul_div_qties), the three
   instances each one connects, and computed facts about them per back-end. *)
From Coq Require Import Lia String.
From QV Require Import Rt.Prelude Rt.Amount Rt.Quantity Macro.Defs Macro.Impls Gen.Prefixes Gen.Catalogue
  Gen.Kernels Macro.Inst Amount.F64 Amount.DecModel Amount.Dec Proofs.Laws Proofs.Kernel Proofs.Instances Proofs.C09 Proofs.Derived.

Definition derivation_of (e : cat_entry SIPrefix) : derivation := parse_qargs (rd_qargs (ce_raw e)).

(** the generated impl table of a derived definition holds exactly the rows of the model *)
Definition derived_rows_ok (e : cat_entry SIPrefix) : bool :=
  match derivation_of e with
  | DBad => false
  | d => same_rows (map xrow_of (List.filter is_derived_row (gd_impls (ce_gen e))))
                   (expected_derived (gd_qty (ce_gen e)) d)
  end.

Lemma all_derived_rows_ok : forallb derived_rows_ok all_entries = true.
Proof. vm_compute. reflexivity. Qed.

(** number of owned + borrowed operator instances of the main crate's derivations *)
Definition n_owned_derived (l : list (cat_entry SIPrefix)) : nat :=
  List.length (flat_map (fun e => List.filter (fun x => let '(_, s, r, _, _) := x in
      negb (match s with 38%N :: _ => true | _ => false end) && negb (match r with 38%N :: _ => true | _ => false end))
    (expected_derived (gd_qty (ce_gen e)) (derivation_of e))) l).

Lemma main_crate_derivations :
  List.length (List.filter (fun e => match derivation_of e with DMul _ _ | DDiv _ _ => true | _ => false end) catalogue_main) = 9
  /\ n_owned_derived catalogue_main = 34.
Proof. split; vm_compute; reflexivity. Qed.

(** * Operand and result instances of a derivation, within its crate *)
Inductive operand := OAmount | OEntry (e : cat_entry SIPrefix).

Definition find_entry (crate qty : ustring) : option (cat_entry SIPrefix) :=
  List.find (fun e => ustr_eqb (ce_crate e) crate && ustr_eqb (gd_qty (ce_gen e)) qty) all_entries.

Definition resolve (crate t : ustring) : option operand :=
  if ustr_eqb t amount_t then Some OAmount else option_map OEntry (find_entry crate t).

Definition op_full (am : Amount) (o : operand) : QFull am :=
  match o with OAmount => amount_full am | OEntry e => full_of_gen am (ce_gen e) end.

Definition op_has_ref (o : operand) : bool :=
  match o with OAmount => true | OEntry e => match gd_path (ce_gen e) with PRef => true | _ => false end end.

(** every derivation relates three types that all have a reference unit *)
Definition derivation_operands_ok (e : cat_entry SIPrefix) : bool :=
  match derivation_of e with
  | DMul a b | DDiv a b =>
      match resolve (ce_crate e) a, resolve (ce_crate e) b with
      | Some oa, Some ob => op_has_ref oa && op_has_ref ob && op_has_ref (OEntry e)
      | _, _ => false
      end
  | DNone => true
  | DBad => false
  end.

Lemma all_derivation_operands_ok : forallb derivation_operands_ok all_entries = true.
Proof. vm_compute. reflexivity. Qed.

(** * Operands in reference units give a result in the reference unit *)
Section RefInRefOut.
Context (am : Amount).

Definition ref_of (o : operand) : nat := u_ref_unit (op_full am o).

Definition ref_in_ref_out_one (op : am -> am -> res am) (l r o : operand) : bool :=
  match op (u_scale (op_full am l) (ref_of l)) (u_scale (op_full am r) (ref_of r)) with
  | Ok sc => opt_eqb Nat.eqb (HasRefUnit_unit_from_scale (op_full am o) sc) (Some (ref_of o))
  | Panic _ => false
  end.

(** all owned operator instances a derivation generates, as (is_mul, lhs, rhs, out) *)
Definition instances_of (e : cat_entry SIPrefix) : list (bool * operand * operand * operand) :=
  match derivation_of e with
  | DMul a b =>
      match resolve (ce_crate e) a, resolve (ce_crate e) b with
      | Some oa, Some ob =>
          let r := OEntry e in
          [(true, oa, ob, r); (true, ob, oa, r); (false, r, ob, oa); (false, r, oa, ob)]
      | _, _ => []
      end
  | DDiv a b =>
      match resolve (ce_crate e) a, resolve (ce_crate e) b with
      | Some oa, Some ob =>
          let r := OEntry e in
          [(false, oa, ob, r); (true, r, ob, oa); (true, ob, r, oa); (false, oa, r, ob)]
      | _, _ => []
      end
  | _ => []
  end.

Definition ref_in_ref_out (e : cat_entry SIPrefix) : bool :=
  forallb (fun x : bool * operand * operand * operand => let '(is_mul, l, r, o) := x in
             ref_in_ref_out_one (if is_mul then a_mul am else a_div am) l r o) (instances_of e).
End RefInRefOut.

Lemma ref_in_ref_out_f64 : forallb (ref_in_ref_out F64) all_entries = true.
Proof. vm_compute. reflexivity. Qed.

Lemma ref_in_ref_out_dec : forallb (ref_in_ref_out DEC) dec_entries = true.
Proof. vm_compute. reflexivity. Qed.

(** * Eligible sets of _fit per result type: the reference unit is eligible and
      iterated, so _fit never unwraps None *)
Definition fit_total_ok (am : Amount) (e : cat_entry SIPrefix) : bool :=
  match gd_path (ce_gen e) with
  | PRef => existsb (Nat.eqb (u_ref_unit (base_of_gen am (ce_gen e)))) (u_iter (base_of_gen am (ce_gen e)))
  | _ => true
  end.

Lemma all_fit_total : forall am, forallb (fit_total_ok am) all_entries = true.
Proof. intros am. vm_compute. reflexivity. Qed.
