(* Proofs/AccInverse.v — C04, "multiplying by a value and then dividing by it
   returns the original magnitude" (binary64, natural-unit path both ways):
   the composition of two instances of derived_magnitude_natural; four
   rounding factors in total. *)
From Coq Require Import Reals ZArith Lra Psatz Bool Lia List.
From Flocq Require Import Core IEEE754.BinarySingleNaN IEEE754.Binary IEEE754.Bits.
From QV Require Import Rt.Prelude Rt.Amount Rt.Quantity Gen.Prefixes Gen.Kernels Amount.F64 Amount.F64Acc
  Proofs.Laws Proofs.Kernel Proofs.C09 Proofs.Derived Proofs.AccF64.
Local Open Scope R_scope.

Section RoundTrip.
(** R0 = the product quantity, L0 = the left operand's quantity (the result of R / B) *)
Context (R0 L0 : QFull F64).
Hypothesis LR : QLaws R0.
Hypothesis LL : QLaws L0.
Hypothesis HscR : forall w, In w (u_iter R0) -> fin (u_scale R0 w) /\ val (u_scale R0 w) <> 0.
Hypothesis HscL : forall w, In w (u_iter L0) -> fin (u_scale L0 w) /\ val (u_scale L0 w) <> 0.
Variables su sv a b : f64.
Hypotheses (Fu : fin su) (Fv : fin sv) (Fa : fin a) (Fb : fin b) (Hv0 : val sv <> 0) (Hb0 : val b <> 0).

Theorem mul_then_div_natural (w : nat) (u' : nat) :
  (* the product a * b has a natural unit w of R0 ... *)
  normal (val su * val sv) -> normal (val a * val b) ->
  HasRefUnit_unit_from_scale R0 (f64_mul su sv) = Some w ->
  (* ... and the quotient (a*b) / b has a natural unit u' of L0 *)
  normal (val (u_scale R0 w) / val sv) -> normal (val (f64_mul a b) / val b) ->
  HasRefUnit_unit_from_scale L0 (f64_div (u_scale R0 w) sv) = Some u' ->
  exists z z' d0 d1 d2 d3,
    @derived_nf F64 (fun x y : f64 => Ok (f64_mul x y)) R0 su sv a b = Ok z /\ q_unit R0 z = w /\
    @derived_nf F64 (fun x y : f64 => Ok (f64_div x y)) L0 (u_scale R0 (q_unit R0 z)) sv (q_amount R0 z) b = Ok z' /\ q_unit L0 z' = u' /\
    Rabs d0 <= u64 /\ Rabs d1 <= u64 /\ Rabs d2 <= u64 /\ Rabs d3 <= u64 /\
    mag_o L0 z' = val a * val su * (1 + d0) * (1 + d1) * (1 + d2) * (1 + d3).
Proof.
  intros Nsc Nab Ew Nsc' Nab' Eu'.
  destruct (derived_magnitude_natural f64_mul Rmult (fun _ => True) mul_op_rel R0 LR HscR su sv a b Fu Fv Fa Fb I I Nsc Nab w Ew)
    as (z & d0 & d1 & Ez & Euz & Hinw & Hd0 & Hd1 & Mz).
  assert (Eaz : q_amount R0 z = f64_mul a b).
  { unfold derived_nf in Ez. cbn [bind] in Ez. rewrite Ew in Ez. cbn [bind] in Ez. injection Ez as <-. apply (law_amount_new R0 LR). }
  destruct (HscR w Hinw) as [Fw Hw0].
  assert (Fab : fin (f64_mul a b)).
  { destruct Nab as [N N']. destruct (f64_mul_rel a b Fa Fb N N') as (_ & _ & F & _). exact F. }
  destruct (derived_magnitude_natural f64_div Rdiv (fun y => val y <> 0) div_op_rel L0 LL HscL (u_scale R0 w) sv (f64_mul a b) b
              Fw Fv Fab Fb Hv0 Hb0 Nsc' Nab' u' Eu') as (z' & d2 & d3 & Ez' & Euz' & _ & Hd2 & Hd3 & Mz').
  exists z, z', d0, d1, d2, d3. split; [exact Ez|]. split; [exact Euz|]. rewrite Euz, Eaz. split; [exact Ez'|]. split; [exact Euz'|].
  repeat (split; [assumption|]).
  rewrite Mz'. unfold mag_o in Mz. rewrite Euz, Eaz in Mz.
  replace (val (f64_mul a b) / val b * (val (u_scale R0 w) / val sv)) with (val (f64_mul a b) * val (u_scale R0 w) / (val b * val sv)) by (field; split; assumption).
  rewrite Mz. field. split; assumption.
Qed.
End RoundTrip.

(** * C13: (rate * value) / rate returns the value (binary64; the value given in the rate's per unit) *)
From QV Require Import Proofs.C13 Proofs.AccRate.

Section RateRoundTrip.
Context (TQ PQ : QFull F64).
Hypothesis LT : QLaws TQ.
Hypothesis LP : QLaws PQ.
Hypothesis HdivT : forall x y, q_div TQ x y = HasRefUnit_div TQ x y.
Hypothesis HdivP : forall x y, q_div PQ x y = HasRefUnit_div PQ x y.

Theorem rate_mul_then_div (r : rate F64) (q : Qt PQ) :
  let a := q_amount PQ q in let t := rt_term_amount r in let p := rt_per_unit_multiple r in
  let x1 := f64_div a f64_one in                 (* value / (1 per-unit): the amount itself, val x1 = val a *)
  let y0 := f64_mul (f64_div x1 p) t in          (* the amount of rate * value *)
  let x1' := f64_div y0 f64_one in
  In (rt_term_unit r) (u_iter TQ) -> In (rt_per_unit r) (u_iter PQ) -> q_unit PQ q = rt_per_unit r ->
  fin a -> fin t -> fin p -> val t <> 0 -> val p <> 0 ->
  normal (val x1 / val p) -> normal (val (f64_div x1 p) * val t) ->
  normal (val x1' / val t) -> normal (val (f64_div x1' t) * val p) ->
  exists y y' d1 d2 d3 d4,
    Rate_mul TQ PQ r q = Ok y /\ q_unit TQ y = rt_term_unit r /\
    tmpl_Div_Qty_Rate TQ PQ y r = Ok y' /\ q_unit PQ y' = rt_per_unit r /\
    Rabs d1 <= u64 /\ Rabs d2 <= u64 /\ Rabs d3 <= u64 /\ Rabs d4 <= u64 /\
    val x1 = val a /\ val (q_amount PQ y') = val a * (1 + d1) * (1 + d2) * (1 + d3) * (1 + d4).
Proof.
  intros a t p x1 y0 x1' Htu Hpu Eq Fa Ft Fp Ht0 Hp0 N1 N2 N3 N4.
  destruct (ratio_to_unit_same_f64 PQ LP q (rt_per_unit r) Hpu Eq Fa) as (x1e & E1 & F1 & V1).
  assert (Ex1 : x1e = x1).
  { revert E1. rewrite (ref_div_same_unit PQ q (q_new PQ (a_one F64) (rt_per_unit r))) by (rewrite (law_unit_new PQ LP _ _ Hpu); exact Eq).
    rewrite (law_amount_new PQ LP). cbn [a_div a_one F64]. intros [= <-]. reflexivity. }
  subst x1e. rewrite <- HdivP in E1. fold a in V1.
  destruct (rate_mul_f64 TQ PQ LT r q x1 E1 Htu F1 Fp Ft Hp0 N1 N2) as (y & d1 & d2 & Ey & _ & Euy & Hd1 & Hd2 & Vy).
  assert (Eay : q_amount TQ y = y0).
  { destruct (rate_mul_kernel TQ PQ r q) as [Ek _]. rewrite Ek in Ey. unfold rate_mul_nf in Ey. rewrite E1 in Ey.
    cbn [bind a_div a_mul F64] in Ey. injection Ey as <-. apply (law_amount_new TQ LT). }
  assert (Fy : fin (q_amount TQ y)).
  { rewrite Eay. destruct N1 as [N1a N1b]. destruct (f64_div_rel x1 p F1 Fp Hp0 N1a N1b) as (_ & _ & F2 & _).
    destruct N2 as [N2a N2b]. destruct (f64_mul_rel _ t F2 Ft N2a N2b) as (_ & _ & F3 & _). exact F3. }
  destruct (ratio_to_unit_same_f64 TQ LT y (rt_term_unit r) Htu Euy Fy) as (x1e' & E1' & F1' & V1').
  assert (Ex1' : x1e' = x1').
  { revert E1'. rewrite (ref_div_same_unit TQ y (q_new TQ (a_one F64) (rt_term_unit r))) by (rewrite (law_unit_new TQ LT _ _ Htu); exact Euy).
    rewrite (law_amount_new TQ LT). cbn [a_div a_one F64]. rewrite Eay. intros [= <-]. reflexivity. }
  subst x1e'. rewrite <- HdivT in E1'.
  destruct (qty_div_rate_f64 TQ PQ LP y r x1' E1' Hpu F1' Ft Fp Ht0 N3 N4) as (y' & d3 & d4 & Ey' & Euy' & Hd3 & Hd4 & Vy').
  exists y, y', d1, d2, d3, d4. split; [exact Ey|]. split; [exact Euy|]. split; [exact Ey'|]. split; [exact Euy'|].
  split; [exact Hd1|]. split; [exact Hd2|]. split; [exact Hd3|]. split; [exact Hd4|]. split; [exact V1|].
  rewrite Vy', V1', Vy, V1. fold t p. field. split; assumption.
Qed.
End RateRoundTrip.

(** * C13, decimal: (rate * value) / rate returns the value within an explicit bound *)
From QV Require Import Amount.DecModel Amount.Dec Amount.DecAcc Proofs.AccDec.
From QV Require Amount.Laws.

Section RateRoundTripDec.
Context (TQ PQ : QFull DEC).
Hypothesis LT : QLaws TQ.
Hypothesis LP : QLaws PQ.
Hypothesis HdivT : forall x y, q_div TQ x y = HasRefUnit_div TQ x y.
Hypothesis HdivP : forall x y, q_div PQ x y = HasRefUnit_div PQ x y.
Notation ok := Amount.Laws.dec_ok.

Theorem rate_mul_then_div_dec (r : rate DEC) (q : Qt PQ) (y : Qt TQ) (y' : Qt PQ) :
  let a := dval (q_amount PQ q) in let t := dval (rt_term_amount r) in let p := dval (rt_per_unit_multiple r) in
  In (rt_term_unit r) (u_iter TQ) -> In (rt_per_unit r) (u_iter PQ) -> q_unit PQ q = rt_per_unit r ->
  ok (q_amount PQ q) -> ok (rt_term_amount r) -> ok (rt_per_unit_multiple r) ->
  Rate_mul TQ PQ r q = Ok y -> tmpl_Div_Qty_Rate TQ PQ y r = Ok y' ->
  q_unit TQ y = rt_term_unit r /\ q_unit PQ y' = rt_per_unit r /\ t <> 0 /\ p <> 0 /\
  Rabs (dval (q_amount PQ y') - a) <= half_ulp18 * ((Rabs p + 1) + Rabs p / Rabs t * (Rabs t + 1)).
Proof.
  intros a t p Htu Hpu Eq Ha Ht Hp Ey Ey'.
  assert (Hone : ok dec_one) by (unfold Amount.Laws.dec_ok; cbn; lia).
  destruct (ratio_to_unit_same_dec PQ LP q (rt_per_unit r) Hpu Eq) as (x1 & E1 & V1). rewrite <- HdivP in E1.
  assert (Hx1 : ok x1).
  { revert E1. rewrite HdivP, (ref_div_same_unit PQ q (q_new PQ (a_one DEC) (rt_per_unit r))) by (rewrite (law_unit_new PQ LP _ _ Hpu); exact Eq).
    rewrite (law_amount_new PQ LP). cbn [a_div a_one DEC]. intros E. destruct (dec_div_acc _ _ _ Ha Hone E) as (H & _). exact H. }
  destruct (rate_mul_dec TQ PQ LT r q x1 y E1 Htu Hx1 Hp Ht Ey) as (_ & Euy & Hp0 & By).
  assert (Hya : ok (q_amount TQ y)).
  { destruct (rate_mul_kernel TQ PQ r q) as [Ek _]. rewrite Ek in Ey. unfold rate_mul_nf in Ey. rewrite E1 in Ey. cbn [bind a_div a_mul DEC] in Ey.
    destruct (dec_div x1 (rt_per_unit_multiple r)) as [x2|] eqn:E2; cbn [bind] in Ey; [|discriminate].
    destruct (dec_mul x2 (rt_term_amount r)) as [x3|] eqn:E3; cbn [bind] in Ey; [|discriminate]. injection Ey as <-.
    rewrite (law_amount_new TQ LT). destruct (dec_div_acc _ _ _ Hx1 Hp E2) as (H2 & _). destruct (dec_mul_acc _ _ _ H2 Ht E3) as (H3 & _). exact H3. }
  destruct (ratio_to_unit_same_dec TQ LT y (rt_term_unit r) Htu Euy) as (x1' & E1' & V1'). rewrite <- HdivT in E1'.
  assert (Hx1' : ok x1').
  { revert E1'. rewrite HdivT, (ref_div_same_unit TQ y (q_new TQ (a_one DEC) (rt_term_unit r))) by (rewrite (law_unit_new TQ LT _ _ Htu); exact Euy).
    rewrite (law_amount_new TQ LT). cbn [a_div a_one DEC]. intros E. destruct (dec_div_acc _ _ _ Hya Hone E) as (H & _). exact H. }
  destruct (qty_div_rate_dec TQ PQ LP y r x1' y' E1' Hpu Hx1' Ht Hp Ey') as (Euy' & Ht0 & By').
  split; [exact Euy|]. split; [exact Euy'|]. split; [exact Ht0|]. split; [exact Hp0|].
  rewrite V1 in By. rewrite V1' in By'. fold a t p in By, By'.
  set (ya := dval (q_amount TQ y)) in *. set (ya' := dval (q_amount PQ y')) in *.
  assert (Pt : 0 < Rabs t) by (apply Rabs_pos_lt; exact Ht0).
  replace (ya' - a) with ((ya' - p * (ya / t)) + p * ((ya - t * (a / p)) / t)) by (field; split; assumption).
  eapply Rle_trans; [apply Rabs_triang|].
  assert (B2 : Rabs (p * ((ya - t * (a / p)) / t)) <= Rabs p / Rabs t * (half_ulp18 * (Rabs t + 1))).
  { unfold Rdiv. rewrite !Rabs_mult, Rabs_inv.
    replace (Rabs p * / Rabs t * (half_ulp18 * (Rabs t + 1))) with (Rabs p * ((half_ulp18 * (Rabs t + 1)) * / Rabs t)) by ring.
    apply Rmult_le_compat_l; [apply Rabs_pos|]. apply Rmult_le_compat_r; [apply Rlt_le, Rinv_0_lt_compat; exact Pt|exact By]. }
  unfold Rdiv in *. lra.
Qed.
End RateRoundTripDec.

(** * C04, decimal: multiply then divide on the natural-unit path *)
Section RoundTripDec.
Context (R0 L0 : QFull DEC).
Hypothesis LR : QLaws R0.
Hypothesis LL : QLaws L0.
Hypothesis HscR : forall w, In w (u_iter R0) -> dfit (u_scale R0 w).
Hypothesis HscL : forall w, In w (u_iter L0) -> dfit (u_scale L0 w).
Variables su sv a b : dec.
Notation ok := Amount.Laws.dec_ok.
Hypotheses (Hu : ok su) (Hv : ok sv) (Ha : ok a) (Hb : ok b).

Theorem mul_then_div_natural_dec (z : Qt R0) (z' : Qt L0) (sc sc2 : dec) (w u' : nat) :
  dec_mul su sv = Ok sc -> (Z.abs (d_coeff sc) <= i128_max)%Z -> HasRefUnit_unit_from_scale R0 sc = Some w ->
  @derived_nf DEC dec_mul R0 su sv a b = Ok z ->
  dec_div (u_scale R0 w) sv = Ok sc2 -> (Z.abs (d_coeff sc2) <= i128_max)%Z -> HasRefUnit_unit_from_scale L0 sc2 = Some u' ->
  @derived_nf DEC dec_div L0 (u_scale R0 (q_unit R0 z)) sv (q_amount R0 z) b = Ok z' ->
  q_unit R0 z = w /\ q_unit L0 z' = u' /\ dval sv <> 0 /\ dval b <> 0 /\
  Rabs (dmag_o L0 z' - dval a * dval su) <=
    half_ulp18 * (Rabs (dval sc2) + Rabs (dval (q_amount R0 z) / dval b)) +
    half_ulp18 * (Rabs (dval sc) + Rabs (dval a * dval b)) / (Rabs (dval b) * Rabs (dval sv)).
Proof.
  intros Esc Csc Ew Ez Esc2 Csc2 Eu' Ez'.
  destruct (dec_derived_natural dec_mul Rmult (fun _ => True) mul_dop_rel R0 LR HscR su sv a b Hu Hv Ha Hb z sc w Esc Csc Ew Ez) as (Euz & Hinw & Bz & _).
  destruct (HscR w Hinw) as [Hw _].
  assert (Haz : ok (q_amount R0 z)).
  { unfold derived_nf in Ez. rewrite Esc in Ez. cbn [bind] in Ez. rewrite Ew in Ez.
    destruct (dec_mul a b) as [m|] eqn:Em; cbn [bind] in Ez; [|discriminate]. injection Ez as <-. rewrite (law_amount_new R0 LR).
    destruct (dec_mul_acc _ _ _ Ha Hb Em) as (H & _). exact H. }
  rewrite Euz in Ez'.
  destruct (dec_derived_natural dec_div Rdiv (fun y => dval y <> 0) div_dop_rel L0 LL HscL (u_scale R0 w) sv (q_amount R0 z) b Hw Hv Haz Hb z' sc2 u' Esc2 Csc2 Eu' Ez')
    as (Euz' & _ & Bz' & _).
  destruct (dec_div_acc _ _ _ Hw Hv Esc2) as (_ & Hv0 & _).
  assert (Hb0 : dval b <> 0).
  { unfold derived_nf in Ez'. rewrite Esc2 in Ez'. cbn [bind] in Ez'. rewrite Eu' in Ez'.
    destruct (dec_div (q_amount R0 z) b) as [m|] eqn:Em; cbn [bind] in Ez'; [|discriminate]. destruct (dec_div_acc _ _ _ Haz Hb Em) as (_ & H & _). exact H. }
  split; [exact Euz|]. split; [exact Euz'|]. split; [exact Hv0|]. split; [exact Hb0|].
  (* mag z = a_z * s_w;  a_z / b * (s_w / sv) = mag z / (b sv) *)
  unfold dmag_o in Bz. rewrite Euz in Bz. set (az := dval (q_amount R0 z)) in *. set (sw := dval (u_scale R0 w)) in *.
  assert (Pb : 0 < Rabs (dval b)) by (apply Rabs_pos_lt; exact Hb0). assert (Pv : 0 < Rabs (dval sv)) by (apply Rabs_pos_lt; exact Hv0).
  replace (dmag_o L0 z' - dval a * dval su)
    with ((dmag_o L0 z' - az / dval b * (sw / dval sv)) + (az * sw - dval a * dval b * (dval su * dval sv)) / (dval b * dval sv)) by (field; split; assumption).
  eapply Rle_trans; [apply Rabs_triang|]. apply Rplus_le_compat; [exact Bz'|].
  unfold Rdiv. rewrite Rabs_mult, Rabs_inv, Rabs_mult.
  apply Rmult_le_compat_r; [apply Rlt_le, Rinv_0_lt_compat, Rmult_lt_0_compat; assumption|exact Bz].
Qed.
End RoundTripDec.
