(* Proofs/AccInverse.v — C04, "multiplying by a value and then dividing by it
   returns the original magnitude" (binary64, natural-unit path both ways):
   the composition of two instances of derived_magnitude_natural; four
   rounding factors in total. *)
From Coq Require Import Reals ZArith Lra Psatz Bool Lia List.
From Flocq Require Import Core IEEE754.BinarySingleNaN IEEE754.Binary IEEE754.Bits.
From QV Require Import Rt.Prelude Rt.Amount Rt.Quantity Gen.Prefixes Gen.Kernels Amount.F64 Amount.F64Acc
  Proofs.Laws Proofs.Kernel Proofs.C09 Proofs.Derived Proofs.AccF64.
Local Open Scope R_scope.

Section RoundTrip.
(** R0 = the product quantity, L0 = the left operand's quantity (the result of R / B) *)
Context (R0 L0 : QFull F64).
Hypothesis LR : QLaws R0.
Hypothesis LL : QLaws L0.
Hypothesis HscR : forall w, In w (u_iter R0) -> fin (u_scale R0 w) /\ val (u_scale R0 w) <> 0.
Hypothesis HscL : forall w, In w (u_iter L0) -> fin (u_scale L0 w) /\ val (u_scale L0 w) <> 0.
Variables su sv a b : f64.
Hypotheses (Fu : fin su) (Fv : fin sv) (Fa : fin a) (Fb : fin b) (Hv0 : val sv <> 0) (Hb0 : val b <> 0).

Theorem mul_then_div_natural (w : nat) (u' : nat) :
  (* the product a * b has a natural unit w of R0 ... *)
  normal (val su * val sv) -> normal (val a * val b) ->
  HasRefUnit_unit_from_scale R0 (f64_mul su sv) = Some w ->
  (* ... and the quotient (a*b) / b has a natural unit u' of L0 *)
  normal (val (u_scale R0 w) / val sv) -> normal (val (f64_mul a b) / val b) ->
  HasRefUnit_unit_from_scale L0 (f64_div (u_scale R0 w) sv) = Some u' ->
  exists z z' d0 d1 d2 d3,
    @derived_nf F64 (fun x y : f64 => Ok (f64_mul x y)) R0 su sv a b = Ok z /\ q_unit R0 z = w /\
    @derived_nf F64 (fun x y : f64 => Ok (f64_div x y)) L0 (u_scale R0 (q_unit R0 z)) sv (q_amount R0 z) b = Ok z' /\ q_unit L0 z' = u' /\
    Rabs d0 <= u64 /\ Rabs d1 <= u64 /\ Rabs d2 <= u64 /\ Rabs d3 <= u64 /\
    mag_o L0 z' = val a * val su * (1 + d0) * (1 + d1) * (1 + d2) * (1 + d3).
Proof.
  intros Nsc Nab Ew Nsc' Nab' Eu'.
  destruct (derived_magnitude_natural f64_mul Rmult (fun _ => True) mul_op_rel R0 LR HscR su sv a b Fu Fv Fa Fb I I Nsc Nab w Ew)
    as (z & d0 & d1 & Ez & Euz & Hinw & Hd0 & Hd1 & Mz).
  assert (Eaz : q_amount R0 z = f64_mul a b).
  { unfold derived_nf in Ez. cbn [bind] in Ez. rewrite Ew in Ez. cbn [bind] in Ez. injection Ez as <-. apply (law_amount_new R0 LR). }
  destruct (HscR w Hinw) as [Fw Hw0].
  assert (Fab : fin (f64_mul a b)).
  { destruct Nab as [N N']. destruct (f64_mul_rel a b Fa Fb N N') as (_ & _ & F & _). exact F. }
  destruct (derived_magnitude_natural f64_div Rdiv (fun y => val y <> 0) div_op_rel L0 LL HscL (u_scale R0 w) sv (f64_mul a b) b
              Fw Fv Fab Fb Hv0 Hb0 Nsc' Nab' u' Eu') as (z' & d2 & d3 & Ez' & Euz' & _ & Hd2 & Hd3 & Mz').
  exists z, z', d0, d1, d2, d3. split; [exact Ez|]. split; [exact Euz|]. rewrite Euz, Eaz. split; [exact Ez'|]. split; [exact Euz'|].
  repeat (split; [assumption|]).
  rewrite Mz'. unfold mag_o in Mz. rewrite Euz, Eaz in Mz.
  replace (val (f64_mul a b) / val b * (val (u_scale R0 w) / val sv)) with (val (f64_mul a b) * val (u_scale R0 w) / (val b * val sv)) by (field; split; assumption).
  rewrite Mz. field. split; assumption.
Qed.
End RoundTrip.

(** * C13: (rate * value) / rate returns the value (binary64; the value given in the rate's per unit) *)
From QV Require Import Proofs.C13 Proofs.AccRate.

Section RateRoundTrip.
Context (TQ PQ : QFull F64).
Hypothesis LT : QLaws TQ.
Hypothesis LP : QLaws PQ.
Hypothesis HdivT : forall x y, q_div TQ x y = HasRefUnit_div TQ x y.
Hypothesis HdivP : forall x y, q_div PQ x y = HasRefUnit_div PQ x y.

Theorem rate_mul_then_div (r : rate F64) (q : Qt PQ) :
  let a := q_amount PQ q in let t := rt_term_amount r in let p := rt_per_unit_multiple r in
  let x1 := f64_div a f64_one in                 (* value / (1 per-unit): the amount itself, val x1 = val a *)
  let y0 := f64_mul (f64_div x1 p) t in          (* the amount of rate * value *)
  let x1' := f64_div y0 f64_one in
  In (rt_term_unit r) (u_iter TQ) -> In (rt_per_unit r) (u_iter PQ) -> q_unit PQ q = rt_per_unit r ->
  fin a -> fin t -> fin p -> val t <> 0 -> val p <> 0 ->
  normal (val x1 / val p) -> normal (val (f64_div x1 p) * val t) ->
  normal (val x1' / val t) -> normal (val (f64_div x1' t) * val p) ->
  exists y y' d1 d2 d3 d4,
    Rate_mul TQ PQ r q = Ok y /\ q_unit TQ y = rt_term_unit r /\
    tmpl_Div_Qty_Rate TQ PQ y r = Ok y' /\ q_unit PQ y' = rt_per_unit r /\
    Rabs d1 <= u64 /\ Rabs d2 <= u64 /\ Rabs d3 <= u64 /\ Rabs d4 <= u64 /\
    val x1 = val a /\ val (q_amount PQ y') = val a * (1 + d1) * (1 + d2) * (1 + d3) * (1 + d4).
Proof.
  intros a t p x1 y0 x1' Htu Hpu Eq Fa Ft Fp Ht0 Hp0 N1 N2 N3 N4.
  destruct (ratio_to_unit_same_f64 PQ LP q (rt_per_unit r) Hpu Eq Fa) as (x1e & E1 & F1 & V1).
  assert (Ex1 : x1e = x1).
  { revert E1. rewrite (ref_div_same_unit PQ q (q_new PQ (a_one F64) (rt_per_unit r))) by (rewrite (law_unit_new PQ LP _ _ Hpu); exact Eq).
    rewrite (law_amount_new PQ LP). cbn [a_div a_one F64]. intros [= <-]. reflexivity. }
  subst x1e. rewrite <- HdivP in E1. fold a in V1.
  destruct (rate_mul_f64 TQ PQ LT r q x1 E1 Htu F1 Fp Ft Hp0 N1 N2) as (y & d1 & d2 & Ey & _ & Euy & Hd1 & Hd2 & Vy).
  assert (Eay : q_amount TQ y = y0).
  { destruct (rate_mul_kernel TQ PQ r q) as [Ek _]. rewrite Ek in Ey. unfold rate_mul_nf in Ey. rewrite E1 in Ey.
    cbn [bind a_div a_mul F64] in Ey. injection Ey as <-. apply (law_amount_new TQ LT). }
  assert (Fy : fin (q_amount TQ y)).
  { rewrite Eay. destruct N1 as [N1a N1b]. destruct (f64_div_rel x1 p F1 Fp Hp0 N1a N1b) as (_ & _ & F2 & _).
    destruct N2 as [N2a N2b]. destruct (f64_mul_rel _ t F2 Ft N2a N2b) as (_ & _ & F3 & _). exact F3. }
  destruct (ratio_to_unit_same_f64 TQ LT y (rt_term_unit r) Htu Euy Fy) as (x1e' & E1' & F1' & V1').
  assert (Ex1' : x1e' = x1').
  { revert E1'. rewrite (ref_div_same_unit TQ y (q_new TQ (a_one F64) (rt_term_unit r))) by (rewrite (law_unit_new TQ LT _ _ Htu); exact Euy).
    rewrite (law_amount_new TQ LT). cbn [a_div a_one F64]. rewrite Eay. intros [= <-]. reflexivity. }
  subst x1e'. rewrite <- HdivT in E1'.
  destruct (qty_div_rate_f64 TQ PQ LP y r x1' E1' Hpu F1' Ft Fp Ht0 N3 N4) as (y' & d3 & d4 & Ey' & Euy' & Hd3 & Hd4 & Vy').
  exists y, y', d1, d2, d3, d4. split; [exact Ey|]. split; [exact Euy|]. split; [exact Ey'|]. split; [exact Euy'|].
  split; [exact Hd1|]. split; [exact Hd2|]. split; [exact Hd3|]. split; [exact Hd4|]. split; [exact V1|].
  rewrite Vy', V1', Vy, V1. fold t p. field. split; assumption.
Qed.
End RateRoundTrip.
