(* Proofs/Kernel.v — structural theorems about the translated kernels: which
   unit a result carries, which amount operations are applied to which
   operands, when nothing is computed.  Generic in the amount type (no
   hypothesis on it) and in the quantity instance. *)
From Coq Require Import Lia.
From QV Require Import Rt.Prelude Rt.Amount Rt.Quantity Gen.Prefixes Gen.Kernels Proofs.Laws.

Section Generic.
Context {am : Amount} (S : QBase am).

(** * C01 conversion *)
Lemma equiv_amount_same q : HasRefUnit_equiv_amount S q (q_unit S q) = Ok (q_amount S q).
Proof. unfold HasRefUnit_equiv_amount. rewrite Nat_eqb_refl. reflexivity. Qed.

Lemma equiv_amount_diff q v : q_unit S q <> v ->
  HasRefUnit_equiv_amount S q v =
  bind (a_div am (u_scale S (q_unit S q)) (u_scale S v)) (fun r => a_mul am r (q_amount S q)).
Proof.
  intros Hne. unfold HasRefUnit_equiv_amount, LinearScaledUnit_ratio.
  destruct (PeanoNat.Nat.eqb_spec (q_unit S q) v) as [E|_]; [contradiction|reflexivity].
Qed.

Lemma convert_is_equiv_amount q v :
  HasRefUnit_convert S q v = bind (HasRefUnit_equiv_amount S q v) (fun x => Ok (q_new S x v)).
Proof. reflexivity. Qed.

Lemma convert_same q : HasRefUnit_convert S q (q_unit S q) = Ok (q_new S (q_amount S q) (q_unit S q)).
Proof. rewrite convert_is_equiv_amount, equiv_amount_same. reflexivity. Qed.

Lemma convert_unit (L : QLaws S) q v q' :
  In v (u_iter S) -> HasRefUnit_convert S q v = Ok q' -> q_unit S q' = v.
Proof.
  intros Hin H. rewrite convert_is_equiv_amount in H.
  apply bind_ok in H as (x & _ & [= <-]). apply (law_unit_new S L); exact Hin.
Qed.

Lemma convert_amount_is_equiv_amount (L : QLaws S) q v q' :
  HasRefUnit_convert S q v = Ok q' -> HasRefUnit_equiv_amount S q v = Ok (q_amount S q').
Proof.
  intros H. rewrite convert_is_equiv_amount in H.
  apply bind_ok in H as (x & Hx & [= <-]). rewrite (law_amount_new S L). exact Hx.
Qed.

Lemma convert_kernel q v : q_unit S q <> v ->
  HasRefUnit_convert S q v =
  bind (a_div am (u_scale S (q_unit S q)) (u_scale S v)) (fun r =>
  bind (a_mul am r (q_amount S q)) (fun m => Ok (q_new S m v))).
Proof.
  intros Hne. rewrite convert_is_equiv_amount, equiv_amount_diff by exact Hne.
  rewrite ?bind_assoc. reflexivity.
Qed.

(** * C02 comparison with a reference unit *)
Lemma ref_eq_same_unit x y : q_unit S x = q_unit S y ->
  HasRefUnit_eq S x y = Ok (a_eqb am (q_amount S x) (q_amount S y)).
Proof. intros E. unfold HasRefUnit_eq. rewrite E, Nat_eqb_refl. reflexivity. Qed.

Lemma ref_cmp_same_unit x y : q_unit S x = q_unit S y ->
  HasRefUnit_partial_cmp S x y = Ok (a_cmp am (q_amount S x) (q_amount S y)).
Proof. intros E. unfold HasRefUnit_partial_cmp. rewrite E, Nat_eqb_refl. reflexivity. Qed.

(** reference-unit magnitude in the amount type: amount * scale(unit) *)
Definition ref_magnitude (q : Qt S) : res am := a_mul am (q_amount S q) (u_scale S (q_unit S q)).

Lemma ref_eq_diff_unit x y : q_unit S x <> q_unit S y ->
  HasRefUnit_eq S x y = bind (ref_magnitude x) (fun mx => bind (ref_magnitude y) (fun my => Ok (a_eqb am mx my))).
Proof.
  intros Hne. unfold HasRefUnit_eq, ref_magnitude.
  destruct (PeanoNat.Nat.eqb_spec (q_unit S x) (q_unit S y)); [contradiction|reflexivity].
Qed.

Lemma ref_cmp_diff_unit x y : q_unit S x <> q_unit S y ->
  HasRefUnit_partial_cmp S x y = bind (ref_magnitude x) (fun mx => bind (ref_magnitude y) (fun my => Ok (a_cmp am mx my))).
Proof.
  intros Hne. unfold HasRefUnit_partial_cmp, ref_magnitude.
  destruct (PeanoNat.Nat.eqb_spec (q_unit S x) (q_unit S y)); [contradiction|reflexivity].
Qed.

(** * C03 sum, difference, ratio with a reference unit *)
Lemma ref_add_kernel x y :
  HasRefUnit_add S x y =
  bind (HasRefUnit_equiv_amount S y (q_unit S x)) (fun b =>
  bind (a_add am (q_amount S x) b) (fun s => Ok (q_new S s (q_unit S x)))).
Proof. unfold HasRefUnit_add. rewrite ?bind_assoc. reflexivity. Qed.

Lemma ref_sub_kernel x y :
  HasRefUnit_sub S x y =
  bind (HasRefUnit_equiv_amount S y (q_unit S x)) (fun b =>
  bind (a_sub am (q_amount S x) b) (fun s => Ok (q_new S s (q_unit S x)))).
Proof. unfold HasRefUnit_sub. rewrite ?bind_assoc. reflexivity. Qed.

Lemma ref_div_kernel x y :
  HasRefUnit_div S x y =
  bind (HasRefUnit_equiv_amount S y (q_unit S x)) (fun b => a_div am (q_amount S x) b).
Proof. reflexivity. Qed.

Lemma ref_add_same_unit x y : q_unit S x = q_unit S y ->
  HasRefUnit_add S x y = bind (a_add am (q_amount S x) (q_amount S y)) (fun s => Ok (q_new S s (q_unit S x))).
Proof. intros E. rewrite ref_add_kernel, E, equiv_amount_same. reflexivity. Qed.

Lemma ref_sub_same_unit x y : q_unit S x = q_unit S y ->
  HasRefUnit_sub S x y = bind (a_sub am (q_amount S x) (q_amount S y)) (fun s => Ok (q_new S s (q_unit S x))).
Proof. intros E. rewrite ref_sub_kernel, E, equiv_amount_same. reflexivity. Qed.

Lemma ref_div_same_unit x y : q_unit S x = q_unit S y ->
  HasRefUnit_div S x y = a_div am (q_amount S x) (q_amount S y).
Proof. intros E. rewrite ref_div_kernel, E, equiv_amount_same. reflexivity. Qed.

Lemma ref_add_unit (L : QLaws S) x y r :
  In (q_unit S x) (u_iter S) -> HasRefUnit_add S x y = Ok r -> q_unit S r = q_unit S x.
Proof.
  intros Hin H. rewrite ref_add_kernel in H.
  apply bind_ok in H as (b & _ & H). apply bind_ok in H as (s & _ & [= <-]).
  apply (law_unit_new S L); exact Hin.
Qed.

Lemma ref_sub_unit (L : QLaws S) x y r :
  In (q_unit S x) (u_iter S) -> HasRefUnit_sub S x y = Ok r -> q_unit S r = q_unit S x.
Proof.
  intros Hin H. rewrite ref_sub_kernel in H.
  apply bind_ok in H as (b & _ & H). apply bind_ok in H as (s & _ & [= <-]).
  apply (law_unit_new S L); exact Hin.
Qed.

(** * C10 quantities without reference unit *)
Lemma noref_eq x y :
  Quantity_eq S x y = andb (Nat.eqb (q_unit S x) (q_unit S y)) (a_eqb am (q_amount S x) (q_amount S y)).
Proof. reflexivity. Qed.

Lemma noref_cmp_diff x y : q_unit S x <> q_unit S y -> Quantity_partial_cmp S x y = None.
Proof.
  intros Hne. unfold Quantity_partial_cmp.
  destruct (PeanoNat.Nat.eqb_spec (q_unit S x) (q_unit S y)); [contradiction|reflexivity].
Qed.

Lemma noref_cmp_same x y : q_unit S x = q_unit S y ->
  Quantity_partial_cmp S x y = a_cmp am (q_amount S x) (q_amount S y).
Proof. intros E. unfold Quantity_partial_cmp. rewrite E, Nat_eqb_refl. reflexivity. Qed.

Lemma noref_add_diff x y : q_unit S x <> q_unit S y -> Quantity_add S x y = Panic PUnitMismatch.
Proof.
  intros Hne. unfold Quantity_add.
  destruct (PeanoNat.Nat.eqb_spec (q_unit S x) (q_unit S y)); [contradiction|reflexivity].
Qed.
Lemma noref_sub_diff x y : q_unit S x <> q_unit S y -> Quantity_sub S x y = Panic PUnitMismatch.
Proof.
  intros Hne. unfold Quantity_sub.
  destruct (PeanoNat.Nat.eqb_spec (q_unit S x) (q_unit S y)); [contradiction|reflexivity].
Qed.
Lemma noref_div_diff x y : q_unit S x <> q_unit S y -> Quantity_div S x y = Panic PUnitMismatch.
Proof.
  intros Hne. unfold Quantity_div.
  destruct (PeanoNat.Nat.eqb_spec (q_unit S x) (q_unit S y)); [contradiction|reflexivity].
Qed.
Lemma noref_add_same x y : q_unit S x = q_unit S y ->
  Quantity_add S x y = bind (a_add am (q_amount S x) (q_amount S y)) (fun s => Ok (q_new S s (q_unit S x))).
Proof. intros E. unfold Quantity_add. rewrite E, Nat_eqb_refl. reflexivity. Qed.
Lemma noref_sub_same x y : q_unit S x = q_unit S y ->
  Quantity_sub S x y = bind (a_sub am (q_amount S x) (q_amount S y)) (fun s => Ok (q_new S s (q_unit S x))).
Proof. intros E. unfold Quantity_sub. rewrite E, Nat_eqb_refl. reflexivity. Qed.
Lemma noref_div_same x y : q_unit S x = q_unit S y ->
  Quantity_div S x y = a_div am (q_amount S x) (q_amount S y).
Proof. intros E. unfold Quantity_div. rewrite E, Nat_eqb_refl. reflexivity. Qed.

(** * C08 scaling by numbers, construction *)
Lemma scalar_mul_l k q : tmpl_Mul_Amnt_Qty S k q = bind (a_mul am k (q_amount S q)) (fun m => Ok (q_new S m (q_unit S q))).
Proof. reflexivity. Qed.
Lemma scalar_mul_r q k : tmpl_Mul_Qty_Amnt S q k = bind (a_mul am (q_amount S q) k) (fun m => Ok (q_new S m (q_unit S q))).
Proof. reflexivity. Qed.
Lemma scalar_div q k : tmpl_Div_Qty_Amnt S q k = bind (a_div am (q_amount S q) k) (fun m => Ok (q_new S m (q_unit S q))).
Proof. reflexivity. Qed.
Lemma amnt_times_unit a u : tmpl_Mul_Amnt_Unit S a u = q_new S a u.
Proof. reflexivity. Qed.
Lemma unit_times_amnt u a : tmpl_Mul_Unit_Amnt S u a = q_new S a u.
Proof. reflexivity. Qed.
Lemma as_qty_is_one u : Unit_as_qty S u = q_new S (a_one am) u.
Proof. reflexivity. Qed.

(** * C09 look-ups: first unit in iteration order with that symbol / scale *)
Lemma find_first {T} (p : T -> bool) (l : list T) :
  match List.find p l with
  | Some x => exists l1 l2, l = l1 ++ x :: l2 /\ p x = true /\ forall y, In y l1 -> p y = false
  | None => forall y, In y l -> p y = false
  end.
Proof.
  induction l as [|a l IH]; cbn.
  - intros y [].
  - destruct (p a) eqn:Ha.
    + exists [], l. split; [reflexivity|]. split; [exact Ha|]. intros y [].
    + destruct (List.find p l) as [x|].
      * destruct IH as (l1 & l2 & -> & Hx & Hall). exists (a :: l1), l2. split; [reflexivity|].
        split; [exact Hx|]. intros y [<-|Hy]; [exact Ha|exact (Hall y Hy)].
      * intros y [<-|Hy]; [exact Ha|exact (IH y Hy)].
Qed.

(** [it.filter(p).next()] is [it.find(p)] *)
Lemma hd_error_filter {T} (p : T -> bool) (l : list T) : List.hd_error (List.filter p l) = List.find p l.
Proof. induction l as [|a l IH]; cbn; [reflexivity|]. destruct (p a); [reflexivity|exact IH]. Qed.

Lemma from_symbol_spec s :
  match Unit_from_symbol S s with
  | Some u => exists l1 l2, u_iter S = l1 ++ u :: l2 /\ u_symbol S u = s /\ forall v, In v l1 -> u_symbol S v <> s
  | None => forall v, In v (u_iter S) -> u_symbol S v <> s
  end.
Proof.
  unfold Unit_from_symbol, iter_find, iter_filter. rewrite ?hd_error_filter.
  pose proof (find_first (fun unit_ => ustr_eqb (u_symbol S unit_) s) (u_iter S)) as H.
  destruct (List.find _ _) as [u|].
  - destruct H as (l1 & l2 & E & Hu & Hall). exists l1, l2. split; [exact E|].
    split; [apply ustr_eqb_eq; exact Hu|]. intros v Hv Hs. specialize (Hall v Hv).
    apply ustr_eqb_eq in Hs. congruence.
  - intros v Hv Hs. specialize (H v Hv). apply ustr_eqb_eq in Hs. congruence.
Qed.

Lemma unit_from_symbol_is_from_symbol s : Quantity_unit_from_symbol S s = Unit_from_symbol S s.
Proof. first [reflexivity | unfold Quantity_unit_from_symbol, Unit_from_symbol, iter_find, iter_filter; rewrite ?hd_error_filter; reflexivity]. Qed.

Lemma from_scale_spec a :
  match LinearScaledUnit_from_scale S a with
  | Some u => exists l1 l2, u_iter S = l1 ++ u :: l2 /\ a_eqb am (u_scale S u) a = true
                            /\ forall v, In v l1 -> a_eqb am (u_scale S v) a = false
  | None => forall v, In v (u_iter S) -> a_eqb am (u_scale S v) a = false
  end.
Proof.
  unfold LinearScaledUnit_from_scale, iter_find, iter_filter. rewrite ?hd_error_filter.
  exact (find_first (fun unit_ => a_eqb am (u_scale S unit_) a) (u_iter S)).
Qed.

Lemma unit_from_scale_is_from_scale a : HasRefUnit_unit_from_scale S a = LinearScaledUnit_from_scale S a.
Proof. first [reflexivity | unfold HasRefUnit_unit_from_scale, LinearScaledUnit_from_scale, iter_find, iter_filter; rewrite ?hd_error_filter; reflexivity]. Qed.

Lemma is_ref_unit_spec u : LinearScaledUnit_is_ref_unit S u = true <-> u = u_ref_unit S.
Proof. unfold LinearScaledUnit_is_ref_unit. apply PeanoNat.Nat.eqb_eq. Qed.

End Generic.
