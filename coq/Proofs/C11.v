(* Proofs/C11.v — the generator as a function of the declaration (property C11):
   theorems about the model of analyze (Macro/Analyze.v) for EVERY definition —
   the unit list is a permutation of the declared units, without adjacent
   inversion of the sort key, stable (ties keep declaration order, the
   reference unit first among the units of its key), and in name order without
   reference unit.  The model is tied to the repository's real analyze/codegen
   by computing registry_ok on every definition of the tree (theorem shared with
   C09) and, on every run, on freshly generated random definitions pushed
   through the repository's own macro code (correspondence). *)
From Coq Require Import List Permutation Sorted Lia Lra Bool Reals.
From Flocq Require Import Core.Raux IEEE754.Binary IEEE754.Bits.
From QV Require Import Rt.Prelude Rt.Amount Macro.Defs Macro.Casing Macro.Analyze Amount.F64 Amount.Laws Proofs.Sort.
Import ListNotations.

(** * the two sort orders satisfy the laws stability needs *)

(** names: lexicographic order by code point is a total order *)
Lemma ustr_cmp_antisym a b : ustr_cmp b a = CompOpp (ustr_cmp a b).
Proof.
  revert b; induction a as [|x a IH]; intros [|y b]; cbn [ustr_cmp]; try reflexivity.
  rewrite (N.compare_antisym x y). destruct (N.compare x y); cbn [CompOpp]; [apply IH|reflexivity|reflexivity].
Qed.

Lemma ustr_cmp_le_trans a b c : ustr_cmp a b <> Gt -> ustr_cmp b c <> Gt -> ustr_cmp a c <> Gt.
Proof.
  revert b c; induction a as [|x a IH]; intros [|y b] [|z c]; cbn [ustr_cmp]; try congruence.
  intros H1 H2. destruct (N.compare_spec x y) as [Exy|Exy|Exy].
  - subst y. destruct (N.compare_spec x z); [apply (IH b c); assumption|congruence|congruence].
  - destruct (N.compare_spec y z) as [Eyz|Eyz|Eyz].
    + subst z. destruct (N.compare_spec x y); [lia|congruence|lia].
    + destruct (N.compare_spec x z); [lia|congruence|lia].
    + congruence.
  - congruence.
Qed.

Lemma name_gt_asym a b : name_gt a b = true -> name_gt b a = false.
Proof.
  unfold name_gt. rewrite (ustr_cmp_antisym (name_of_ident (ud_ident a)) (name_of_ident (ud_ident b))).
  destruct (ustr_cmp (name_of_ident (ud_ident a)) (name_of_ident (ud_ident b))); cbn; congruence.
Qed.

Lemma name_gt_negtrans a b c : name_gt a b = false -> name_gt b c = false -> name_gt a c = false.
Proof.
  unfold name_gt. intros H1 H2.
  pose proof (ustr_cmp_le_trans (name_of_ident (ud_ident a)) (name_of_ident (ud_ident b)) (name_of_ident (ud_ident c))) as T.
  destruct (ustr_cmp (name_of_ident (ud_ident a)) (name_of_ident (ud_ident b))) eqn:E1; try discriminate;
  destruct (ustr_cmp (name_of_ident (ud_ident b)) (name_of_ident (ud_ident c))) eqn:E2; try discriminate;
  destruct (ustr_cmp (name_of_ident (ud_ident a)) (name_of_ident (ud_ident c))); try reflexivity; exfalso; apply T; congruence.
Qed.

(** scales: f64 comparison of finite keys is the order of the reals *)
Definition key_finite (u : udecl) : Prop := is_finite 53 1024 (scale_key u) = true.

Lemma key_cmp_real a b : key_finite a -> key_finite b ->
  f64_cmp (scale_key a) (scale_key b) = Some (Rcompare (B2R 53 1024 (scale_key a)) (B2R 53 1024 (scale_key b))).
Proof. intros Ha Hb. unfold f64_cmp, b64_compare. apply Bcompare_correct; assumption. Qed.

Lemma key_gt_asym a b : key_finite a -> key_finite b -> key_gt a b = true -> key_gt b a = false.
Proof.
  intros Ha Hb. unfold key_gt. rewrite (key_cmp_real a b Ha Hb), (key_cmp_real b a Hb Ha).
  destruct (Rcompare_spec (B2R 53 1024 (scale_key a)) (B2R 53 1024 (scale_key b))); try discriminate.
  intros _. destruct (Rcompare_spec (B2R 53 1024 (scale_key b)) (B2R 53 1024 (scale_key a))); try reflexivity. exfalso. lra.
Qed.

Lemma key_gt_negtrans a b c : key_finite a -> key_finite b -> key_finite c ->
  key_gt a b = false -> key_gt b c = false -> key_gt a c = false.
Proof.
  intros Ha Hb Hc. unfold key_gt. rewrite (key_cmp_real a b Ha Hb), (key_cmp_real b c Hb Hc), (key_cmp_real a c Ha Hc).
  destruct (Rcompare_spec (B2R 53 1024 (scale_key a)) (B2R 53 1024 (scale_key b))); try discriminate;
  destruct (Rcompare_spec (B2R 53 1024 (scale_key b)) (B2R 53 1024 (scale_key c))); try discriminate;
  intros _ _; destruct (Rcompare_spec (B2R 53 1024 (scale_key a)) (B2R 53 1024 (scale_key c))); try reflexivity; exfalso; lra.
Qed.

(** * what analyze returns *)
Inductive analysed_shape (a : analysed) : Prop :=
| shape_noref (us : list udecl) :
    an_ref a = None -> an_units a = sort_stable name_gt us ->
    us <> [] -> Forall (fun u => ud_scale u = None /\ ud_prefix u = None) us -> analysed_shape a
| shape_ref (r : udecl) (us : list udecl) :
    an_ref a = Some (upper_camel (ud_ident r)) -> ud_scale r = Some one_lit ->
    an_units a = sort_stable key_gt (r :: us) ->
    Forall (fun u => exists l, ud_scale u = Some l) us -> analysed_shape a.

Lemma forallb_Forall {T} (p : T -> bool) (Q : T -> Prop) l :
  (forall x, p x = true -> Q x) -> forallb p l = true -> Forall Q l.
Proof.
  intros H. induction l as [|x l IH]; cbn [forallb]; intros E; [constructor|].
  apply andb_true_iff in E as [E1 E2]. constructor; [apply H; exact E1|apply IH; exact E2].
Qed.

Theorem analyze_shape d a : analyze d = Some a -> analysed_shape a.
Proof.
  unfold analyze.
  set (attrs := List.filter _ (rd_attrs d)).
  set (refs := List.filter _ attrs). set (units := List.filter _ attrs).
  destruct refs as [|ra [|ra2 rest]].
  - destruct (parse_all units) as [[|u us]|]; try discriminate.
    destruct (forallb _ (u :: us)) eqn:E; [|discriminate]. intros [= <-].
    apply (shape_noref _ (u :: us)); cbn [an_ref an_units]; try reflexivity; [discriminate|].
    revert E. apply forallb_Forall. intros x Hx. destruct (ud_scale x), (ud_prefix x); try discriminate. split; reflexivity.
  - destruct (parse_all units) as [[|u0 us0]|]; [destruct (parse_unit_args (ra_args ra)); discriminate| |destruct (parse_unit_args (ra_args ra)); discriminate].
    destruct (parse_unit_args (ra_args ra)) as [r|]; [|discriminate].
    set (us := u0 :: us0).
    destruct (ud_scale r); [discriminate|].
    destruct (forallb _ us) eqn:E; [|discriminate]. intros [= <-].
    apply (shape_ref _ (mkudecl (ud_ident r) (ud_symbol r) (ud_prefix r) (Some one_lit) (ud_doc r)) us); cbn [an_ref an_units ud_ident ud_scale]; try reflexivity.
    revert E. apply forallb_Forall. intros x Hx. destruct (ud_scale x) as [l|]; [exists l; reflexivity|discriminate].
  - discriminate.
Qed.

(** * consequences, for every definition *)
Section Consequences.
Variables (d : raw_def) (a : analysed).
Hypothesis Ha : analyze d = Some a.

(** without reference unit: a permutation of the declared units, in name order, ties (equal names) in declaration order *)
Theorem noref_units us : an_ref a = None -> an_units a = sort_stable name_gt us ->
  Permutation (an_units a) us /\
  Sorted (le_rel name_gt) (an_units a) /\
  forall k, List.filter (same_key name_gt k) (an_units a) = List.filter (same_key name_gt k) us.
Proof.
  intros _ ->. split; [apply sort_perm|]. split.
  - apply (sort_sorted name_gt (fun _ => True)); [intros; apply name_gt_asym; assumption|apply Forall_forall; trivial].
  - intros k. apply (sort_is_stable name_gt (fun _ => True)); try trivial.
    + intros; apply name_gt_asym; assumption.
    + intros ? ? ? _ _ _; apply name_gt_negtrans.
    + apply Forall_forall; trivial.
Qed.

(** with reference unit (all sort keys finite): a permutation of reference unit
    + declared units, no adjacent inversion of the key, every group of equal
    key in declaration order — with the reference unit first in its group *)
Theorem ref_units r us : an_units a = sort_stable key_gt (r :: us) -> Forall key_finite (r :: us) ->
  Permutation (an_units a) (r :: us) /\
  Sorted (le_rel key_gt) (an_units a) /\
  (forall k, key_finite k -> List.filter (same_key key_gt k) (an_units a) = List.filter (same_key key_gt k) (r :: us)) /\
  exists rest, List.filter (same_key key_gt r) (an_units a) = r :: rest.
Proof.
  intros -> Hf. split; [apply sort_perm|]. split; [|split].
  - apply (sort_sorted key_gt key_finite); [apply key_gt_asym|exact Hf].
  - intros k Hk. apply (sort_is_stable key_gt key_finite); [apply key_gt_asym|apply key_gt_negtrans|exact Hk|exact Hf].
  - inversion Hf as [|? ? Hr Hus]; subst.
    rewrite (sort_is_stable key_gt key_finite key_gt_asym key_gt_negtrans r (r :: us) Hr Hf).
    cbn [List.filter]. assert (E : same_key key_gt r r = true).
    { unfold same_key. assert (key_gt r r = false) as ->; [|reflexivity].
      destruct (key_gt r r) eqn:E; [|reflexivity]. rewrite (key_gt_asym r r Hr Hr E) in E. discriminate. }
    rewrite E. eexists. reflexivity.
Qed.
End Consequences.

(** which code path the generator takes *)
Theorem path_selection a :
  expected_path a = match an_units a with [_] => PSingle | _ => match an_ref a with Some _ => PRef | None => PNoRef end end.
Proof. reflexivity. Qed.

(** names, variants, constants as functions of the identifier *)
Theorem naming u :
  variant_of_decl u = upper_camel (ud_ident u) /\
  name_of_ident (ud_ident u) = map (fun c => if (c =? 95)%N then 32%N else c) (ud_ident u).
Proof. split; reflexivity. Qed.
