(* Proofs/C08.v — construction and scaling by numbers (property C08).
   All statements are structural: no arithmetic of the amount type is reasoned
   about, so they hold for every amount (NaN, signed zeros, infinities, any
   decimal representation) and for both back-ends. *)
From Coq Require Import Lia.
From QV Require Import Rt.Prelude Rt.Amount Rt.Quantity Macro.Defs Gen.Prefixes Gen.Catalogue
  Gen.Kernels Macro.Inst Proofs.Laws Proofs.Kernel Proofs.Instances.

Section C08.
Context (am : Amount).

(** constructor and accessors of every generated type *)
Lemma ctor_accessors (g : gen_def SIPrefix) : single_ok g = true ->
  forall (a : am) u, In u (u_iter (base_of_gen am g)) ->
    q_amount (base_of_gen am g) (q_new (base_of_gen am g) a u) = a /\
    q_unit (base_of_gen am g) (q_new (base_of_gen am g) a u) = u.
Proof.
  intros Hs a u Hin.
  assert (L : QLaws (base_of_gen am g)).
  { apply base_of_gen_laws. intros Hp _. unfold single_ok in Hs. rewrite Hp in Hs.
    apply PeanoNat.Nat.eqb_eq in Hs. exact Hs. }
  split; [apply (law_amount_new _ L)|apply (law_unit_new _ L); exact Hin].
Qed.

(** types with an explicit unit field store any unit passed to [new] *)
Lemma ctor_stores_unit (g : gen_def SIPrefix) : gd_path g <> PSingle ->
  forall (a : am) u, q_unit (base_of_gen am g) (q_new (base_of_gen am g) a u) = u.
Proof. intros Hp a u. apply stores_unit_noref. exact Hp. Qed.

(** amount * unit and unit * amount are the constructor *)
Lemma amount_unit_ctor (S : QBase am) (a : am) u :
  tmpl_Mul_Amnt_Unit S a u = q_new S a u /\ tmpl_Mul_Unit_Amnt S u a = q_new S a u.
Proof. split; reflexivity. Qed.

(** k * q, q * k, q / k: the amount type's own operation on (k, amount) in the
    order written, the unit untouched *)
Lemma scalar_kernels (S : QBase am) (k : am) (q : Qt S) :
  tmpl_Mul_Amnt_Qty S k q = bind (a_mul am k (q_amount S q)) (fun m => Ok (q_new S m (q_unit S q))) /\
  tmpl_Mul_Qty_Amnt S q k = bind (a_mul am (q_amount S q) k) (fun m => Ok (q_new S m (q_unit S q))) /\
  tmpl_Div_Qty_Amnt S q k = bind (a_div am (q_amount S q) k) (fun m => Ok (q_new S m (q_unit S q))).
Proof. repeat split; reflexivity. Qed.

Lemma scalar_results (S : QBase am) (L : QLaws S) (k : am) (q r : Qt S) :
  In (q_unit S q) (u_iter S) ->
  (tmpl_Mul_Amnt_Qty S k q = Ok r -> q_unit S r = q_unit S q /\ a_mul am k (q_amount S q) = Ok (q_amount S r)) /\
  (tmpl_Mul_Qty_Amnt S q k = Ok r -> q_unit S r = q_unit S q /\ a_mul am (q_amount S q) k = Ok (q_amount S r)) /\
  (tmpl_Div_Qty_Amnt S q k = Ok r -> q_unit S r = q_unit S q /\ a_div am (q_amount S q) k = Ok (q_amount S r)).
Proof.
  intros Hin. destruct (scalar_kernels S k q) as (E1 & E2 & E3).
  split; [|split]; intros H;
    first [rewrite E1 in H|rewrite E2 in H|rewrite E3 in H];
    apply bind_ok in H as (m & Hm & [= <-]);
    (split; [apply (law_unit_new S L); exact Hin | rewrite (law_amount_new S L); exact Hm]).
Qed.

(** the dimensionless quantity: AmountT with its only unit ONE *)
Lemma dimensionless :
  u_iter (amount_base am) = [0] /\
  u_symbol (amount_base am) 0 = [] /\
  u_scale (amount_base am) 0 = a_one am /\
  u_ref_unit (amount_base am) = 0 /\
  (forall (a : am) u, q_new (amount_base am) a u = a) /\
  (forall a : am, q_amount (amount_base am) a = a /\ q_unit (amount_base am) a = 0) /\
  (forall (a : am) u, MulOneForAmountT_mul a u = a /\ MulAmountTForOne_mul u a = a) /\
  (forall a : am, HasRefUnitAmountT__fit a = a).
Proof. repeat split. Qed.
End C08.

(** every definition of the current tree satisfies the hypothesis, and its
    scalar / constructor operators are instances of the templates above *)
Lemma catalogue_single_ok e : In e all_entries -> single_ok (ce_gen e) = true.
Proof. intros H. pose proof all_single_ok as A. rewrite forallb_forall in A. exact (A e H). Qed.

Lemma catalogue_wiring e : In e all_entries -> wiring_ok (ce_gen e) = true.
Proof. intros H. pose proof all_wiring_ok as A. rewrite forallb_forall in A. exact (A e H). Qed.
