(* Proofs/Programs.v — refinement of WHOLE PROGRAMS over a quantity type with a
   reference unit to the abstract specification "a quantity is a physical
   magnitude" (a rational number of reference units).

   The per-operation theorems (C01, C03, C08, C02) pin one call.  Here a
   program is an arbitrary tree of constructions (amount * UNIT), conversions,
   sums, differences and scalings by numbers, run through the kernels
   translated from src/lib.rs and the generated operator templates; observed
   through the ratio, == and the partial ordering.  For an amount type whose
   arithmetic is exact (interpretation [val] into Qc; the operations may still
   refuse, e.g. a zero divisor or an overflow) every program that returns
   carries the statically determined unit and denotes exactly the magnitude
   the abstract semantics assigns to it, and the observers agree with the
   abstract ratio / equality / order: induction over the program, no bound on
   its size.  An operand swapped in [ratio], a sum carried out in the wrong
   unit, a conversion that forgets the unit … breaks one of the cases. *)
From Coq Require Import QArith Qcanon Lia List.
From QV Require Import Rt.Prelude Rt.Amount Rt.Quantity Gen.Prefixes Gen.Kernels Proofs.Laws Proofs.Kernel.
Import ListNotations.
Local Open Scope Qc_scope.

(** an amount type with exact arithmetic: what the operations return, when
    they return, is the exact result; a division that returns had a non-zero
    divisor (fpdec::Decimal panics on a zero divisor) *)
Record ExactAmount (am : Amount) := mkExact {
  val : am -> Qc;
  ex_add : forall x y z, a_add am x y = Ok z -> val z = val x + val y;
  ex_sub : forall x y z, a_sub am x y = Ok z -> val z = val x - val y;
  ex_mul : forall x y z, a_mul am x y = Ok z -> val z = val x * val y;
  ex_div : forall x y z, a_div am x y = Ok z -> val y <> 0 /\ val z = val x / val y;
  ex_eqb : forall x y, a_eqb am x y = true <-> val x = val y;
  ex_cmp : forall x y, a_cmp am x y = Some (val x ?= val y)
}.
Arguments val {am}.

Lemma Qc_compare_mult_r (a b s : Qc) : 0 < s -> (a * s ?= b * s) = (a ?= b).
Proof.
  intros Hs. destruct (a ?= b) eqn:C.
  - apply Qceq_alt in C. subst. apply Qceq_alt. reflexivity.
  - apply Qclt_alt in C. apply Qclt_alt. apply Qcmult_lt_compat_r; assumption.
  - apply Qcgt_alt in C. apply Qcgt_alt. apply Qcmult_lt_compat_r; assumption.
Qed.

Section Programs.
Context {am : Amount} (E : ExactAmount am) (S : QBase am).

Inductive prog : Type :=
| PLit (a : am) (u : nat)            (* a * UNIT  (Mul<Unit> for AmountT) *)
| PLitR (u : nat) (a : am)           (* UNIT * a *)
| PNew (a : am) (u : nat)            (* Q::new(a, UNIT) *)
| PConv (p : prog) (u : nat)         (* p.convert(UNIT) *)
| PAdd (p q : prog)                  (* p + q *)
| PSub (p q : prog)                  (* p - q *)
| PMulL (k : am) (p : prog)          (* k * p *)
| PMulR (p : prog) (k : am)          (* p * k *)
| PDivK (p : prog) (k : am).         (* p / k *)

Fixpoint run (p : prog) : res (Qt S) :=
  match p with
  | PLit a u => Ok (tmpl_Mul_Amnt_Unit S a u)
  | PLitR u a => Ok (tmpl_Mul_Unit_Amnt S u a)
  | PNew a u => Ok (q_new S a u)
  | PConv p u => bind (run p) (fun x => HasRefUnit_convert S x u)
  | PAdd p q => bind (run p) (fun x => bind (run q) (fun y => HasRefUnit_add S x y))
  | PSub p q => bind (run p) (fun x => bind (run q) (fun y => HasRefUnit_sub S x y))
  | PMulL k p => bind (run p) (fun x => tmpl_Mul_Amnt_Qty S k x)
  | PMulR p k => bind (run p) (fun x => tmpl_Mul_Qty_Amnt S x k)
  | PDivK p k => bind (run p) (fun x => tmpl_Div_Qty_Amnt S x k)
  end.

(** the abstract specification: physical magnitude in reference units *)
Definition sc (u : nat) : Qc := val E (u_scale S u).
Fixpoint sem (p : prog) : Qc :=
  match p with
  | PLit a u | PLitR u a | PNew a u => val E a * sc u
  | PConv p _ => sem p
  | PAdd p q => sem p + sem q
  | PSub p q => sem p - sem q
  | PMulL k p => val E k * sem p
  | PMulR p k => sem p * val E k
  | PDivK p k => sem p / val E k
  end.

(** the unit a program's value carries, determined statically *)
Fixpoint unit_of (p : prog) : nat :=
  match p with
  | PLit _ u | PLitR u _ | PNew _ u | PConv _ u => u
  | PAdd p _ | PSub p _ | PMulL _ p | PMulR p _ | PDivK p _ => unit_of p
  end.

(** every unit written in the program is a unit of the type *)
Fixpoint wf (p : prog) : Prop :=
  match p with
  | PLit _ u | PLitR u _ | PNew _ u => In u (u_iter S)
  | PConv p u => wf p /\ In u (u_iter S)
  | PAdd p q | PSub p q => wf p /\ wf q
  | PMulL _ p | PMulR p _ | PDivK p _ => wf p
  end.

Definition magnitude (x : Qt S) : Qc := val E (q_amount S x) * sc (q_unit S x).

Hypothesis L : QLaws S.
Hypothesis scales_nonzero : forall u, In u (u_iter S) -> sc u <> 0.

Lemma wf_unit_in p : wf p -> In (unit_of p) (u_iter S).
Proof. induction p; cbn; intuition. Qed.

Lemma magnitude_new a u : In u (u_iter S) -> magnitude (q_new S a u) = val E a * sc u.
Proof. intros Hin. unfold magnitude. rewrite (law_amount_new S L), (law_unit_new S L) by exact Hin. reflexivity. Qed.

(** one conversion keeps the magnitude *)
Lemma equiv_amount_magnitude x v b : In (q_unit S x) (u_iter S) -> In v (u_iter S) ->
  HasRefUnit_equiv_amount S x v = Ok b -> val E b * sc v = magnitude x.
Proof.
  intros Hx Hv H. unfold magnitude.
  destruct (PeanoNat.Nat.eq_dec (q_unit S x) v) as [Eq|Ne].
  - subst v. rewrite equiv_amount_same in H. injection H as <-. reflexivity.
  - rewrite equiv_amount_diff in H by exact Ne.
    apply bind_ok in H as (r & Hr & Hm).
    apply (ex_div _ E) in Hr as [Hnz Hr]. apply (ex_mul _ E) in Hm.
    rewrite Hm, Hr. fold (sc (q_unit S x)) (sc v) in *. field. exact Hnz.
Qed.

Theorem run_refines p x : wf p -> run p = Ok x ->
  q_unit S x = unit_of p /\ magnitude x = sem p.
Proof.
  revert x. induction p as [a u|u a|a u|p IH u|p IHp q IHq|p IHp q IHq|k p IH|p IH k|p IH k];
    intros x Hwf H; cbn [run sem unit_of wf] in *.
  - injection H as <-. rewrite amnt_times_unit. split; [apply (law_unit_new S L); exact Hwf|apply magnitude_new; exact Hwf].
  - injection H as <-. rewrite unit_times_amnt. split; [apply (law_unit_new S L); exact Hwf|apply magnitude_new; exact Hwf].
  - injection H as <-. split; [apply (law_unit_new S L); exact Hwf|apply magnitude_new; exact Hwf].
  - destruct Hwf as [Hp Hu]. apply bind_ok in H as (y & Hy & H).
    destruct (IH y Hp Hy) as [Uy My].
    rewrite convert_is_equiv_amount in H. apply bind_ok in H as (b & Hb & [= <-]).
    split; [apply (law_unit_new S L); exact Hu|].
    rewrite magnitude_new by exact Hu. rewrite <- My.
    apply equiv_amount_magnitude; [rewrite Uy; apply wf_unit_in; exact Hp|exact Hu|exact Hb].
  - destruct Hwf as [Hp Hq]. apply bind_ok in H as (a & Ha & H). apply bind_ok in H as (b & Hb & H).
    destruct (IHp a Hp Ha) as [Ua Ma]. destruct (IHq b Hq Hb) as [Ub Mb].
    assert (Ina : In (q_unit S a) (u_iter S)) by (rewrite Ua; apply wf_unit_in; exact Hp).
    assert (Inb : In (q_unit S b) (u_iter S)) by (rewrite Ub; apply wf_unit_in; exact Hq).
    rewrite ref_add_kernel in H. apply bind_ok in H as (c & Hc & H). apply bind_ok in H as (s & Hs & [= <-]).
    split; [rewrite <- Ua; apply (law_unit_new S L); exact Ina|].
    rewrite magnitude_new by exact Ina. apply (ex_add _ E) in Hs. rewrite Hs, <- Ma, <- Mb.
    rewrite <- (equiv_amount_magnitude b (q_unit S a) c Inb Ina Hc). unfold magnitude. ring.
  - destruct Hwf as [Hp Hq]. apply bind_ok in H as (a & Ha & H). apply bind_ok in H as (b & Hb & H).
    destruct (IHp a Hp Ha) as [Ua Ma]. destruct (IHq b Hq Hb) as [Ub Mb].
    assert (Ina : In (q_unit S a) (u_iter S)) by (rewrite Ua; apply wf_unit_in; exact Hp).
    assert (Inb : In (q_unit S b) (u_iter S)) by (rewrite Ub; apply wf_unit_in; exact Hq).
    rewrite ref_sub_kernel in H. apply bind_ok in H as (c & Hc & H). apply bind_ok in H as (s & Hs & [= <-]).
    split; [rewrite <- Ua; apply (law_unit_new S L); exact Ina|].
    rewrite magnitude_new by exact Ina. apply (ex_sub _ E) in Hs. rewrite Hs, <- Ma, <- Mb.
    rewrite <- (equiv_amount_magnitude b (q_unit S a) c Inb Ina Hc). unfold magnitude. ring.
  - apply bind_ok in H as (y & Hy & H). destruct (IH y Hwf Hy) as [Uy My].
    assert (Iny : In (q_unit S y) (u_iter S)) by (rewrite Uy; apply wf_unit_in; exact Hwf).
    rewrite scalar_mul_l in H. apply bind_ok in H as (m & Hm & [= <-]).
    split; [rewrite <- Uy; apply (law_unit_new S L); exact Iny|].
    rewrite magnitude_new by exact Iny. apply (ex_mul _ E) in Hm. rewrite Hm, <- My. unfold magnitude. ring.
  - apply bind_ok in H as (y & Hy & H). destruct (IH y Hwf Hy) as [Uy My].
    assert (Iny : In (q_unit S y) (u_iter S)) by (rewrite Uy; apply wf_unit_in; exact Hwf).
    rewrite scalar_mul_r in H. apply bind_ok in H as (m & Hm & [= <-]).
    split; [rewrite <- Uy; apply (law_unit_new S L); exact Iny|].
    rewrite magnitude_new by exact Iny. apply (ex_mul _ E) in Hm. rewrite Hm, <- My. unfold magnitude. ring.
  - apply bind_ok in H as (y & Hy & H). destruct (IH y Hwf Hy) as [Uy My].
    assert (Iny : In (q_unit S y) (u_iter S)) by (rewrite Uy; apply wf_unit_in; exact Hwf).
    rewrite scalar_div in H. apply bind_ok in H as (m & Hm & [= <-]).
    split; [rewrite <- Uy; apply (law_unit_new S L); exact Iny|].
    rewrite magnitude_new by exact Iny. apply (ex_div _ E) in Hm as [Hnz Hm]. rewrite Hm, <- My. unfold magnitude.
    field. exact Hnz.
Qed.

(** observers *)
Theorem ratio_refines p q x y r : wf p -> wf q -> run p = Ok x -> run q = Ok y ->
  HasRefUnit_div S x y = Ok r -> sem q <> 0 /\ val E r = sem p / sem q.
Proof.
  intros Hp Hq Hx Hy H. destruct (run_refines p x Hp Hx) as [Ux Mx]. destruct (run_refines q y Hq Hy) as [Uy My].
  assert (Inx : In (q_unit S x) (u_iter S)) by (rewrite Ux; apply wf_unit_in; exact Hp).
  assert (Iny : In (q_unit S y) (u_iter S)) by (rewrite Uy; apply wf_unit_in; exact Hq).
  rewrite ref_div_kernel in H. apply bind_ok in H as (b & Hb & H).
  apply (ex_div _ E) in H as [Hnz H].
  pose proof (equiv_amount_magnitude y (q_unit S x) b Iny Inx Hb) as Hm.
  pose proof (scales_nonzero _ Inx) as Hsx.
  rewrite <- Mx, <- My, <- Hm. unfold magnitude. split.
  - intros Z. apply Qcmult_integral in Z as [Z|Z]; contradiction.
  - rewrite H. field. split; assumption.
Qed.

Theorem eq_refines p q x y b : wf p -> wf q -> run p = Ok x -> run q = Ok y ->
  HasRefUnit_eq S x y = Ok b -> (b = true <-> sem p = sem q).
Proof.
  intros Hp Hq Hx Hy H. destruct (run_refines p x Hp Hx) as [Ux Mx]. destruct (run_refines q y Hq Hy) as [Uy My].
  assert (Inx : In (q_unit S x) (u_iter S)) by (rewrite Ux; apply wf_unit_in; exact Hp).
  rewrite <- Mx, <- My. unfold magnitude.
  destruct (PeanoNat.Nat.eq_dec (q_unit S x) (q_unit S y)) as [Eq|Ne].
  - rewrite ref_eq_same_unit in H by exact Eq. injection H as <-. rewrite (ex_eqb _ E), <- Eq.
    pose proof (scales_nonzero _ Inx) as Hs. split; [intros ->; reflexivity|].
    intros Hm. apply (f_equal (fun t => t / sc (q_unit S x))) in Hm.
    rewrite !Qcdiv_mult_l in Hm by exact Hs. exact Hm.
  - rewrite ref_eq_diff_unit in H by exact Ne. unfold ref_magnitude in H.
    apply bind_ok in H as (mx & Hmx & H). apply bind_ok in H as (my & Hmy & [= <-]).
    apply (ex_mul _ E) in Hmx. apply (ex_mul _ E) in Hmy. rewrite (ex_eqb _ E), Hmx, Hmy. reflexivity.
Qed.

Theorem cmp_refines p q x y c : wf p -> wf q -> (forall u, In u (u_iter S) -> 0 < sc u) ->
  run p = Ok x -> run q = Ok y ->
  HasRefUnit_partial_cmp S x y = Ok c -> c = Some (sem p ?= sem q).
Proof.
  intros Hp Hq Hpos Hx Hy H. destruct (run_refines p x Hp Hx) as [Ux Mx]. destruct (run_refines q y Hq Hy) as [Uy My].
  assert (Inx : In (q_unit S x) (u_iter S)) by (rewrite Ux; apply wf_unit_in; exact Hp).
  rewrite <- Mx, <- My. unfold magnitude.
  destruct (PeanoNat.Nat.eq_dec (q_unit S x) (q_unit S y)) as [Eq|Ne].
  - rewrite ref_cmp_same_unit in H by exact Eq. injection H as <-. rewrite (ex_cmp _ E), <- Eq.
    f_equal. pose proof (Hpos _ Inx) as Hs.
    symmetry. apply Qc_compare_mult_r. exact Hs.
  - rewrite ref_cmp_diff_unit in H by exact Ne. unfold ref_magnitude in H.
    apply bind_ok in H as (mx & Hmx & H). apply bind_ok in H as (my & Hmy & [= <-]).
    apply (ex_mul _ E) in Hmx. apply (ex_mul _ E) in Hmy. rewrite (ex_cmp _ E), Hmx, Hmy. reflexivity.
Qed.

End Programs.
