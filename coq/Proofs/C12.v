(* Proofs/C12.v — malformed definitions are rejected (property C12): one lemma
   per defect class over the model of the macro front end (Macro/Analyze.v:
   parse_item, check_struct, get_unit_attrs, UnitDef::parse, the ref_unit /
   unit-with(out)-scale extraction, parse_args), and soundness of acceptance.
   That a macro abort makes rustc fail, and where it reports the error, is
   OBSERVED by the correspondence (partial). *)
From Coq Require Import List Lia Bool String.
From QV Require Import Rt.Prelude Macro.Defs Macro.Casing Macro.Impls Macro.Analyze Gen.Prefixes Gen.Catalogue
  Proofs.Instances Proofs.DerivedCat Proofs.C11.
Import ListNotations.

Definition unit_like (a : raw_attr) : bool := match ra_kind a with AOtherAttr => false | _ => true end.
Definition n_of (k : attr_kind) (d : raw_def) : nat :=
  List.length (List.filter (fun a => match ra_kind a, k with ARefUnit, ARefUnit | AUnit, AUnit => true | _, _ => false end) (rd_attrs d)).

(** not a struct / generic parameters / fields *)
Lemma reject_not_struct d : rd_kind d <> IStruct -> validate d = false.
Proof. intros H. unfold validate. destruct (rd_kind d); [contradiction|reflexivity|reflexivity]. Qed.

Lemma reject_generics d : rd_n_generics d <> 0%N -> validate d = false.
Proof.
  intros H. unfold validate. destruct (rd_kind d); try reflexivity.
  destruct (N.eqb_spec (rd_n_generics d) 0); [contradiction|reflexivity].
Qed.

Lemma reject_fields d : rd_n_fields d <> 0%N -> validate d = false.
Proof.
  intros H. unfold validate. destruct (rd_kind d); try reflexivity.
  destruct (N.eqb (rd_n_generics d) 0); try reflexivity.
  destruct (N.eqb_spec (rd_n_fields d) 0); [contradiction|reflexivity].
Qed.

(** the #[quantity(...)] argument is not empty and not `ident op ident` with op one of * and / *)
Lemma reject_bad_derivation d : parse_qargs (rd_qargs d) = DBad -> validate d = false.
Proof. intros H. unfold validate. rewrite H. rewrite !andb_false_r. reflexivity. Qed.

Lemma bad_derivation_shapes ts :
  parse_qargs ts = DBad <->
  ts <> [] /\ (forall a b, ts <> [TIdent a; TPunct 42%N; TIdent b]) /\ (forall a b, ts <> [TIdent a; TPunct 47%N; TIdent b]).
Proof.
  split.
  - intros H. repeat split; [intros ->; discriminate| |]; intros a b ->; discriminate.
  - intros (Hne & Hm & Hd). unfold parse_qargs.
    destruct ts as [|t1 [|t2 [|t3 [|t4 r]]]]; try reflexivity; [contradiction| | | |];
      try (destruct t1; reflexivity); try (destruct t1; try reflexivity; destruct t2; reflexivity).
    destruct t1; try reflexivity. destruct t2; try reflexivity. destruct t3; try reflexivity.
    destruct (N.eqb_spec c 42) as [->|H42]; [exfalso; exact (Hm s s0 eq_refl)|].
    destruct (N.eqb_spec c 47) as [->|H47]; [exfalso; exact (Hd s s0 eq_refl)|]. reflexivity.
    destruct t1; try reflexivity. destruct t2; try reflexivity. destruct t3; reflexivity.
Qed.

(** everything about the unit attributes goes through analyze *)
Lemma reject_analyze d : analyze d = None -> validate d = false.
Proof. intros H. unfold validate. rewrite H. rewrite !andb_false_r. reflexivity. Qed.

Section Attrs.
Variable d : raw_def.
Let attrs := List.filter (fun a => match ra_kind a with AOtherAttr => false | _ => true end) (rd_attrs d).
Let refs := List.filter (fun a => match ra_kind a with ARefUnit => true | _ => false end) attrs.
Let units := List.filter (fun a => match ra_kind a with AUnit => true | _ => false end) attrs.

(** no unit attribute at all (with or without a reference unit) *)
Lemma reject_no_unit : units = [] -> analyze d = None.
Proof.
  intros H. unfold analyze. fold attrs. fold refs. fold units. rewrite H.
  destruct refs as [|ra [|ra2 rest]]; [reflexivity| |reflexivity].
  destruct (parse_unit_args (ra_args ra)); reflexivity.
Qed.

(** more than one reference unit *)
Lemma reject_two_ref_units : 2 <= List.length refs -> analyze d = None.
Proof.
  intros H. unfold analyze. fold attrs. fold refs.
  destruct refs as [|ra [|ra2 rest]]; cbn in H; try lia. reflexivity.
Qed.

(** a unit attribute whose arguments do not follow the grammar
    ident , "symbol" [, PREFIX] [, scale] [, "doc"]  (wrong number / kind of arguments) *)
Lemma reject_malformed_unit_attr : (exists a, In a units /\ parse_unit_args (ra_args a) = None) -> analyze d = None.
Proof.
  intros (a & Hin & Hbad).
  assert (Hp : parse_all units = None).
  { clear -Hin Hbad. induction units as [|x r IH]; [destruct Hin|]. cbn [parse_all].
    destruct Hin as [->|Hin]; [rewrite Hbad; reflexivity|]. rewrite (IH Hin). destruct (parse_unit_args (ra_args x)); reflexivity. }
  unfold analyze. fold attrs. fold refs. fold units.
  destruct refs as [|ra [|ra2 rest]]; [|destruct (parse_unit_args (ra_args ra))|reflexivity]; rewrite Hp; reflexivity.
Qed.

Lemma reject_malformed_ref_unit_attr ra : refs = [ra] -> parse_unit_args (ra_args ra) = None -> analyze d = None.
Proof.
  intros Hr Hbad. unfold analyze. fold attrs. fold refs. fold units. rewrite Hr, Hbad.
  destruct (parse_all units) as [[|? ?]|]; reflexivity.
Qed.

(** a scale on the reference unit *)
Lemma reject_scale_on_ref_unit ra r l : refs = [ra] -> parse_unit_args (ra_args ra) = Some r -> ud_scale r = Some l ->
  analyze d = None.
Proof.
  intros Hr Hp Hs. unfold analyze. fold attrs. fold refs. fold units. rewrite Hr, Hp.
  destruct (parse_all units) as [[|? ?]|]; try reflexivity. rewrite Hs. reflexivity.
Qed.

(** a unit without scale next to a reference unit *)
Lemma reject_unit_without_scale ra us : refs = [ra] -> parse_all units = Some us ->
  (exists u, In u us /\ ud_scale u = None) -> analyze d = None.
Proof.
  intros Hr Hp (u & Hin & Hs). unfold analyze. fold attrs. fold refs. fold units. rewrite Hr.
  rewrite Hp.
  destruct (parse_unit_args (ra_args ra)) as [r|]; [|destruct us; reflexivity].
  destruct us as [|u0 us0]; [destruct Hin|]. destruct (ud_scale r); [reflexivity|].
  assert (E : forallb (fun u1 => match ud_scale u1 with Some _ => true | None => false end) (u0 :: us0) = false).
  { apply not_true_is_false. intros Ht. rewrite forallb_forall in Ht. specialize (Ht u Hin). rewrite Hs in Ht. discriminate. }
  rewrite E. reflexivity.
Qed.

(** a scale or a prefix without any reference unit *)
Lemma reject_scale_or_prefix_without_ref us : refs = [] -> parse_all units = Some us ->
  (exists u, In u us /\ (ud_scale u <> None \/ ud_prefix u <> None)) -> analyze d = None.
Proof.
  intros Hr Hp (u & Hin & Hsp). unfold analyze. fold attrs. fold refs. fold units. rewrite Hr.
  rewrite Hp.
  destruct us as [|u0 us0]; [reflexivity|].
  assert (E : forallb (fun u1 => match ud_scale u1, ud_prefix u1 with None, None => true | _, _ => false end) (u0 :: us0) = false).
  { apply not_true_is_false. intros Ht. rewrite forallb_forall in Ht. specialize (Ht u Hin).
    destruct (ud_scale u), (ud_prefix u); try discriminate. destruct Hsp as [H|H]; apply H; reflexivity. }
  rewrite E. reflexivity.
Qed.
End Attrs.

(** the argument grammar of #[unit(..)] / #[ref_unit(..)]: what is accepted *)
Lemma parse_unit_args_accepts ts u : parse_unit_args ts = Some u ->
  exists id sym rest, ts = TIdent id :: TPunct 44%N :: TStr sym :: rest /\ ud_ident u = id /\ ud_symbol u = sym.
Proof.
  unfold parse_unit_args.
  destruct ts as [|t1 ts]; [discriminate|]. destruct t1 as [id| | | | | |]; try discriminate.
  destruct ts as [|t2 ts]; [discriminate|]. destruct t2 as [| | | |c| |]; try discriminate.
  destruct ts as [|t3 r0]; [discriminate|]. destruct t3 as [|sym| | | | |]; try discriminate.
  destruct (N.eqb_spec c 44) as [->|]; [|discriminate].
  intros H. exists id, sym, r0. split; [reflexivity|].
  destruct (eat_comma r0) as [r1|]; [|discriminate].
  destruct (match r1 with TIdent p0 :: r => match eat_comma r with Some r' => Some (Some p0, r') | None => None end | _ => Some (None, r1) end) as [[pf r2]|]; [|discriminate].
  destruct (match r2 with TInt l :: r | TFloat l :: r => match eat_comma r with Some r' => Some (Some l, r') | None => None end | _ => Some (None, r2) end) as [[sc r3]|]; [|discriminate].
  destruct r3 as [|t r4]; [injection H as <-; split; reflexivity|].
  destruct t; try discriminate. destruct r4; [|discriminate]. injection H as <-. split; reflexivity.
Qed.

(** acceptance is sound: an accepted definition is a struct without generics
    and fields whose unit attributes have the analysed shape (so C11 applies) *)
Theorem accept_sound d : validate d = true ->
  rd_kind d = IStruct /\ rd_n_generics d = 0%N /\ rd_n_fields d = 0%N /\
  parse_qargs (rd_qargs d) <> DBad /\ exists a, analyze d = Some a /\ analysed_shape a.
Proof.
  unfold validate. intros H. repeat (apply andb_true_iff in H as [H ?]).
  destruct (rd_kind d); try discriminate. apply N.eqb_eq in H3, H2.
  destruct (analyze d) as [a|] eqn:Ea; [|discriminate].
  repeat split; try assumption.
  - intros E. rewrite E in H0. discriminate.
  - exists a. split; [reflexivity|]. apply (analyze_shape d a Ea).
Qed.

(** every definition of the tree is accepted by the model (as it is by the macro) *)
Lemma all_tree_definitions_accepted : forallb (fun e => validate (ce_raw e)) all_entries = true.
Proof. vm_compute. reflexivity. Qed.

(** derived operators demand reference units: every owned derived impl of the
    tree carries the bounds Self: HasRefUnit and Rhs: HasRefUnit, and its
    Output is used through HasRefUnit (unit_from_scale / _fit in the template) *)
Local Open Scope string_scope.
Definition owned_derived_row_bounded (r : impl_row) : bool :=
  let is_owned := negb (match ir_self r with 38%N :: _ => true | _ => false end) && negb (match ir_rhs r with 38%N :: _ => true | _ => false end) in
  if is_derived_row r && is_owned then
    existsb (ustr_eqb (us "Self:HasRefUnit")) (ir_where r) &&
    (ustr_eqb (ir_rhs r) (ir_self r) || existsb (ustr_eqb ((ir_rhs r ++ us ":HasRefUnit")%list)) (ir_where r))
  else true.
Lemma derived_rows_bounded : forallb (fun e => forallb owned_derived_row_bounded (gd_impls (ce_gen e))) all_entries = true.
Proof. vm_compute. reflexivity. Qed.
