(* Proofs/Eval.v — entry points used by the correspondence check to evaluate
   the model on concrete catalogue instances (no theorems). *)
From Coq Require Import String.
From QV Require Import Rt.Prelude Rt.Show Rt.Amount Rt.Quantity Macro.Defs Gen.Prefixes Gen.Kernels Macro.Inst.
Open Scope string_scope.

Definition FG (am : Amount) (e : cat_entry SIPrefix) : QFull am := full_of_gen am (ce_gen e).

Section Show.
Context {am : Amount} (sa : A am -> string).
Definition show_q (S : QBase am) (q : Qt S) : string := sa (q_amount S q) ++ " " ++ show_nat (q_unit S q).
Definition show_ou (o : option nat) : string := show_opt show_nat o.
Definition show_ocmp (o : option comparison) : string := show_opt show_cmp o.
Definition show_pfx (o : option SIPrefix) : string := show_opt (fun p => string_of_ustr (SIPrefix_ident p)) o.
Definition show_units (S : QBase am) : string :=
  show_sep (fun u => show_ustr (u_name S u) ++ "|" ++ show_ustr (u_symbol S u) ++ "|" ++ show_pfx (u_si_prefix S u)) " ; " (u_iter S).
Definition show_scales (S : QBase am) : string :=
  show_sep (fun u => sa (u_scale S u)) " " (u_iter S) ++ " REF=" ++ show_nat (u_ref_unit S) ++ " " ++ show_nat (u_ref_unit S).
Definition show_rate (r : rate am) : string :=
  sa (rt_term_amount r) ++ " " ++ show_nat (rt_term_unit r) ++ " " ++ sa (rt_per_unit_multiple r) ++ " " ++ show_nat (rt_per_unit r).
End Show.

(** constants of a generated definition: NAME=<iteration index of its variant> *)
Definition show_consts (e : cat_entry SIPrefix) : string :=
  show_sep (fun cv => string_of_ustr (fst cv) ++ "=" ++
              match index_of (snd cv) (gd_VARIANTS (ce_gen e)) with Some i => show_nat i | None => "?" end)
           " " (gd_consts (ce_gen e)).

(** core's provided comparison operators in terms of eq / partial_cmp *)
Definition ocmp_lt (o : option comparison) : bool := match o with Some Lt => true | _ => false end.
Definition ocmp_le (o : option comparison) : bool := match o with Some Lt | Some Eq => true | _ => false end.
Definition ocmp_gt (o : option comparison) : bool := match o with Some Gt => true | _ => false end.
Definition ocmp_ge (o : option comparison) : bool := match o with Some Gt | Some Eq => true | _ => false end.
Definition res_map {T R} (f : T -> R) (r : res T) : res R := bind r (fun x => Ok (f x)).
