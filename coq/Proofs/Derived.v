(* Proofs/Derived.v — derived products and quotients (properties C04, C05):
   the specification of HasRefUnit::_fit, the normal forms of the generated
   Mul/Div templates, the natural-unit rule.  Generic in amount type and in the
   three instances (left operand, right operand, result). *)
From Coq Require Import Lia.
From QV Require Import Rt.Prelude Rt.Amount Rt.Quantity Macro.Defs Gen.Prefixes Gen.Catalogue
  Gen.Kernels Macro.Inst Proofs.Laws Proofs.Kernel Proofs.Instances Proofs.C09.

Section Fit.
Context {am : Amount} (S : QBase am).

(** eligible units: the SI-prefixed ones when the reference unit is SI-prefixed, all units otherwise *)
Definition eligible : list nat :=
  List.filter (fun u => opt_is_none (u_si_prefix S (u_ref_unit S)) || opt_is_some (u_si_prefix S u)) (u_iter S).

(** candidate: scale greater than the first eligible unit's and not exceeding the magnitude *)
Definition fit_cond (first : nat) (m : am) (u : nat) : bool :=
  a_gt am (u_scale S u) (u_scale S first) && a_le am (u_scale S u) m.

Definition fit_unit (m : am) : option nat :=
  match eligible with
  | [] => None
  | first :: rest => Some (List.last (List.filter (fit_cond first m) rest) first)
  end.

Lemma last_indep {T} (y : T) l d d' : List.last (y :: l) d = List.last (y :: l) d'.
Proof. revert y; induction l as [|z l IH]; intros y; [reflexivity|]. cbn [List.last] in *. apply IH. Qed.

Lemma last_cons {T} (x : T) l d : List.last (x :: l) d = List.last l x.
Proof. destruct l as [|y l]; [reflexivity|]. change (List.last (x :: y :: l) d) with (List.last (y :: l) d). apply last_indep. Qed.

Theorem fit_spec (m : am) :
  HasRefUnit__fit S m =
  match fit_unit m with
  | None => Panic PUnwrapNone
  | Some w => bind (a_div am m (u_scale S w)) (fun x => Ok (q_new S x w))
  end.
Proof.
  unfold HasRefUnit__fit, fit_unit, eligible, Quantity_iter_units, iter_filter.
  destruct (List.filter _ (u_iter S)) as [|first rest]; cbn [iter_next opt_unwrap bind]; [reflexivity|].
  change (fun u : nat => a_gt am (u_scale S u) (u_scale S first) && a_le am (u_scale S u) m) with (fit_cond first m).
  destruct (List.filter (fit_cond first m) rest) as [|c cs]; cbn [iter_last]; [reflexivity|].
  rewrite last_cons. reflexivity.
Qed.

(** the chosen unit is the LAST eligible unit (after the first) that satisfies
    the condition, or the first eligible unit if none does *)
Lemma last_filter_spec {T} (p : T -> bool) (l : list T) (d : T) :
  (List.filter p l = [] /\ List.last (List.filter p l) d = d /\ forall u, In u l -> p u = false) \/
  (exists l1 l2, l = l1 ++ List.last (List.filter p l) d :: l2 /\ p (List.last (List.filter p l) d) = true /\ forall u, In u l2 -> p u = false).
Proof.
  induction l as [|x l IH]; cbn [List.filter].
  - left. repeat split. intros u [].
  - destruct (p x) eqn:Hx.
    + right. rewrite last_cons. destruct IH as [(E & El & Hall)|(l1 & l2 & E & Hp & Hall)].
      * rewrite E. cbn [List.last]. exists [], l. repeat split; [exact Hx|exact Hall].
      * assert (Hne : List.filter p l <> []).
        { intros E0. rewrite E0 in Hp. cbn in Hp. rewrite E0 in E. cbn in E.
          (* last [] d = d; then p d = true and l = l1 ++ d :: l2 with d in l: filter nonempty *)
          assert (In d l) by (rewrite E; apply in_or_app; right; left; reflexivity).
          assert (In d (List.filter p l)) by (apply filter_In; split; assumption).
          rewrite E0 in H0. destruct H0. }
        assert (El : List.last (List.filter p l) x = List.last (List.filter p l) d).
        { destruct (List.filter p l) as [|y ys]; [contradiction|]. rewrite !last_cons. reflexivity. }
        rewrite El. exists (x :: l1), l2. split; [cbn; f_equal; exact E|]. split; assumption.
    + destruct IH as [(E & El & Hall)|(l1 & l2 & E & Hp & Hall)].
      * left. repeat split; [exact E|exact El|]. intros u [<-|Hu]; [exact Hx|exact (Hall u Hu)].
      * right. exists (x :: l1), l2. split; [cbn; f_equal; exact E|]. split; assumption.
Qed.

Theorem fit_unit_spec (m : am) w : fit_unit m = Some w ->
  exists first rest, eligible = first :: rest /\
    ((w = first /\ forall u, In u rest -> fit_cond first m u = false) \/
     (exists r1 r2, rest = r1 ++ w :: r2 /\ fit_cond first m w = true /\ forall u, In u r2 -> fit_cond first m u = false)).
Proof.
  unfold fit_unit. destruct eligible as [|first rest]; [discriminate|]. intros [= <-]. exists first, rest. split; [reflexivity|].
  destruct (last_filter_spec (fit_cond first m) rest first) as [(E & El & Hall)|(l1 & l2 & E & Hp & Hall)].
  - left. split; [exact El|exact Hall].
  - right. exists l1, l2. repeat split; assumption.
Qed.

(** the chosen unit is a unit of the quantity *)
Lemma eligible_incl u : In u eligible -> In u (u_iter S).
Proof. unfold eligible. intros H. apply filter_In in H. tauto. Qed.

Theorem fit_unit_in_registry (m : am) w : fit_unit m = Some w -> In w eligible /\ In w (u_iter S).
Proof.
  intros H. destruct (fit_unit_spec m w H) as (first & rest & E & [[-> _]|(r1 & r2 & -> & _ & _)]).
  - assert (In first eligible) by (rewrite E; left; reflexivity). split; [assumption|apply eligible_incl; assumption].
  - assert (In w eligible) by (rewrite E; right; apply in_or_app; right; left; reflexivity).
    split; [assumption|apply eligible_incl; assumption].
Qed.

(** no panic: the reference unit is always eligible *)
Theorem fit_unit_total : In (u_ref_unit S) (u_iter S) -> forall m, exists w, fit_unit m = Some w.
Proof.
  intros Hin m. unfold fit_unit.
  assert (Hel : In (u_ref_unit S) eligible).
  { unfold eligible. apply filter_In. split; [exact Hin|].
    destruct (u_si_prefix S (u_ref_unit S)); reflexivity. }
  destruct eligible as [|first rest]; [destruct Hel|]. eexists. reflexivity.
Qed.
End Fit.

(** * The generated Mul / Div templates *)
Section Templates.
Context {am : Amount}.

(** what both branches have in common: combine the unit scales, look the result
    up among the result quantity's scales; found: the natural unit with the
    plain product/quotient of the amounts; otherwise: the product/quotient
    brought to the reference unit by the combined scale and re-expressed by _fit *)
Definition derived_nf (op : am -> am -> res am) (R : QFull am) (su sv a b : am) : res (Qt R) :=
  bind (op su sv) (fun sc =>
  match HasRefUnit_unit_from_scale R sc with
  | Some w => bind (op a b) (fun m => Ok (q_new R m w))
  | None => bind (op a b) (fun t => bind (a_mul am t sc) (fun m => q_fit R m))
  end).

Lemma mul_qty_qty_nf (L Rr : QBase am) (R : QFull am) x y :
  tmpl_Mul_Qty_Qty L Rr R x y =
  derived_nf (a_mul am) R (u_scale L (q_unit L x)) (u_scale Rr (q_unit Rr y)) (q_amount L x) (q_amount Rr y).
Proof.
  unfold tmpl_Mul_Qty_Qty, derived_nf. destruct (a_mul am _ _) as [sc|]; cbn [bind]; [|reflexivity].
  destruct (HasRefUnit_unit_from_scale R sc); [reflexivity|]. rewrite ?bind_assoc. reflexivity.
Qed.

Lemma mul_qty_self_nf (L : QBase am) (R : QFull am) x y :
  tmpl_Mul_Qty_Self_PRef L R x y =
  derived_nf (a_mul am) R (u_scale L (q_unit L x)) (u_scale L (q_unit L y)) (q_amount L x) (q_amount L y).
Proof.
  unfold tmpl_Mul_Qty_Self_PRef, derived_nf. destruct (a_mul am _ _) as [sc|]; cbn [bind]; [|reflexivity].
  destruct (HasRefUnit_unit_from_scale R sc); [reflexivity|]. rewrite ?bind_assoc. reflexivity.
Qed.

Lemma div_qty_qty_nf (L Rr : QBase am) (R : QFull am) x y :
  tmpl_Div_Qty_Qty L Rr R x y =
  derived_nf (a_div am) R (u_scale L (q_unit L x)) (u_scale Rr (q_unit Rr y)) (q_amount L x) (q_amount Rr y).
Proof.
  unfold tmpl_Div_Qty_Qty, derived_nf. destruct (a_div am _ _) as [sc|]; cbn [bind]; [|reflexivity].
  destruct (HasRefUnit_unit_from_scale R sc); [reflexivity|]. rewrite ?bind_assoc. reflexivity.
Qed.

(** a bare number divided by a quantity: the number is the dimensionless
    quantity in its unit ONE of scale one *)
Lemma div_amnt_qty_nf (Rr : QBase am) (R : QFull am) (x : am) y :
  tmpl_Div_Amnt_Qty Rr R x y =
  derived_nf (a_div am) R (a_one am) (u_scale Rr (q_unit Rr y)) x (q_amount Rr y).
Proof.
  unfold tmpl_Div_Amnt_Qty, derived_nf, LinearScaledUnitOne_scale, QuantityAmountT_amount.
  destruct (a_div am _ _) as [sc|]; cbn [bind]; [|reflexivity].
  destruct (HasRefUnit_unit_from_scale R sc); [reflexivity|]. rewrite ?bind_assoc. reflexivity.
Qed.

(** natural unit: if a unit of the result quantity has the combined scale, the
    FIRST such unit is used and the amount is exactly op a b *)
Theorem derived_natural_unit (op : am -> am -> res am) (R : QFull am) su sv a b sc w :
  op su sv = Ok sc -> HasRefUnit_unit_from_scale R sc = Some w ->
  derived_nf op R su sv a b = bind (op a b) (fun m => Ok (q_new R m w)) /\
  a_eqb am (u_scale R w) sc = true /\
  exists l1 l2, u_iter R = l1 ++ w :: l2 /\ forall v, In v l1 -> a_eqb am (u_scale R v) sc = false.
Proof.
  intros Hsc Hw. unfold derived_nf. rewrite Hsc. cbn [bind]. rewrite Hw. split; [reflexivity|].
  destruct (c09_from_scale R sc) as [H E]. rewrite <- E, Hw in H. destruct H as (l1 & l2 & E1 & Hs & Hall).
  split; [exact Hs|]. exists l1, l2. split; assumption.
Qed.

(** no natural unit: the reference-unit magnitude (op a b) * sc goes through _fit *)
Theorem derived_fit_path (op : am -> am -> res am) (R : QFull am) su sv a b sc :
  op su sv = Ok sc -> HasRefUnit_unit_from_scale R sc = None ->
  derived_nf op R su sv a b = bind (op a b) (fun t => bind (a_mul am t sc) (fun m => q_fit R m)) /\
  forall v, In v (u_iter R) -> a_eqb am (u_scale R v) sc = false.
Proof.
  intros Hsc Hw. unfold derived_nf. rewrite Hsc. cbn [bind]. rewrite Hw. split; [reflexivity|].
  destruct (c09_from_scale R sc) as [H E]. rewrite <- E, Hw in H. exact H.
Qed.

(** the result always carries a unit of the result quantity *)
Theorem derived_result_unit (op : am -> am -> res am) (R : QFull am) (LR : QLaws R) su sv a b z :
  (forall m, q_fit R m = HasRefUnit__fit R m) ->
  derived_nf op R su sv a b = Ok z -> In (q_unit R z) (u_iter R).
Proof.
  intros Hfit H. unfold derived_nf in H. apply bind_ok in H as (sc & Hsc & H).
  destruct (HasRefUnit_unit_from_scale R sc) as [w|] eqn:Hw.
  - apply bind_ok in H as (m & _ & [= <-]).
    destruct (c09_from_scale R sc) as [Hs E]. rewrite <- E, Hw in Hs. destruct Hs as (l1 & l2 & E1 & _ & _).
    assert (Hin : In w (u_iter R)) by (rewrite E1; apply in_or_app; right; left; reflexivity).
    rewrite (law_unit_new R LR) by exact Hin. exact Hin.
  - apply bind_ok in H as (t & _ & H). apply bind_ok in H as (m & _ & H).
    rewrite Hfit, fit_spec in H. destruct (fit_unit R m) as [w|] eqn:Hu; [|discriminate].
    apply bind_ok in H as (x & _ & [= <-]). destruct (fit_unit_in_registry R m w Hu) as [_ Hin].
    rewrite (law_unit_new R LR) by exact Hin. exact Hin.
Qed.

(** the three borrowed-operand forms forward to the owned form *)
Lemma borrowed_forms {X Y Z : Type} (owned : X -> Y -> Z) x y :
  tmpl_Mul_refQty_Qty owned x y = owned x y /\ tmpl_Mul_Qty_refQty owned x y = owned x y /\
  tmpl_Mul_refQty_refQty owned x y = owned x y /\
  tmpl_Div_refQty_Qty owned x y = owned x y /\ tmpl_Div_Qty_refQty owned x y = owned x y /\
  tmpl_Div_refQty_refQty owned x y = owned x y /\
  tmpl_Mul_refQty_Same owned x y = owned x y /\ tmpl_Mul_Qty_refSelf owned x y = owned x y /\
  tmpl_Mul_refQty_Self owned x y = owned x y /\
  tmpl_Div_refAmnt_Qty owned x y = owned x y /\ tmpl_Div_Amnt_refQty owned x y = owned x y /\
  tmpl_Div_refAmnt_refQty owned x y = owned x y.
Proof. repeat split. Qed.
End Templates.
