(* Proofs/Sort.v — the stable sort of Macro/Analyze.v (model of slice::sort_by):
   its output is a permutation of the input, has no adjacent inversion, and is
   STABLE: the elements of equal key appear in their original order.  Any stable
   sorting algorithm computes the same list (uniqueness), which is why modelling
   slice::sort_by by insertion sort is sound. *)
From Coq Require Import List Permutation Sorted Lia Bool.
From QV Require Import Rt.Prelude Macro.Analyze.
Import ListNotations.

Section Sort.
Context {T : Type} (gt : T -> T -> bool).

Lemma insert_perm x l : Permutation (insert_stable gt x l) (x :: l).
Proof.
  induction l as [|y r IH]; cbn [insert_stable]; [reflexivity|].
  destruct (gt y x); [reflexivity|]. rewrite IH. apply perm_swap.
Qed.

Lemma sort_perm_acc l acc : Permutation (fold_left (fun a x => insert_stable gt x a) l acc) (acc ++ l).
Proof.
  revert acc; induction l as [|x l IH]; intros acc; cbn [fold_left]; [rewrite app_nil_r; reflexivity|].
  rewrite IH, insert_perm. cbn. apply Permutation_cons_app. reflexivity.
Qed.

Theorem sort_perm l : Permutation (sort_stable gt l) l.
Proof. unfold sort_stable. exact (sort_perm_acc l []). Qed.

(** no adjacent inversion *)
Definition le_rel (a b : T) : Prop := gt a b = false.
Context (P : T -> Prop).
Hypothesis gt_asym : forall a b, P a -> P b -> gt a b = true -> gt b a = false.

Lemma insert_sorted x l : P x -> Forall P l -> Sorted le_rel l -> Sorted le_rel (insert_stable gt x l).
Proof.
  intros Px. induction l as [|y r IH]; cbn [insert_stable]; intros Hp Hs; [repeat constructor|].
  inversion Hp as [|? ? Py Pr]; subst.
  destruct (gt y x) eqn:E.
  - constructor; [exact Hs|]. constructor. apply gt_asym; assumption.
  - inversion Hs as [|? ? Hr Hhd]; subst. constructor; [apply IH; assumption|].
    destruct r as [|z r']; cbn [insert_stable]; [constructor; exact E|].
    destruct (gt z x); constructor; [exact E|]. inversion Hhd; assumption.
Qed.

Lemma insert_forall x l : P x -> Forall P l -> Forall P (insert_stable gt x l).
Proof. intros Px Hl. eapply Permutation_Forall; [symmetry; apply insert_perm|]. constructor; assumption. Qed.

Lemma sort_sorted_acc l acc : Forall P l -> Forall P acc -> Sorted le_rel acc ->
  Sorted le_rel (fold_left (fun a x => insert_stable gt x a) l acc).
Proof.
  revert acc; induction l as [|x l IH]; intros acc Hl Ha H; cbn [fold_left]; [exact H|].
  inversion Hl; subst. apply IH; [assumption|apply insert_forall; assumption|apply insert_sorted; assumption].
Qed.

Theorem sort_sorted l : Forall P l -> Sorted le_rel (sort_stable gt l).
Proof. intros Hl. apply sort_sorted_acc; [exact Hl|constructor|constructor]. Qed.

(** stability, for comparisons that are negatively transitive (keys totally pre-ordered) *)
Hypothesis gt_negtrans : forall a b c, P a -> P b -> P c -> gt a b = false -> gt b c = false -> gt a c = false.

Definition same_key (a b : T) : bool := negb (gt a b) && negb (gt b a).

Lemma sorted_all_le x l : Forall P (x :: l) -> Sorted le_rel (x :: l) -> forall y, In y l -> gt x y = false.
Proof.
  revert x; induction l as [|z l IH]; intros x Hp Hs y Hin; [destruct Hin|].
  inversion Hp as [|? ? Px Pl]; subst. inversion Pl as [|? ? Pz Pl']; subst.
  inversion Hs as [|? ? Hr Hhd]; subst. inversion Hhd as [|? ? Hxz]; subst.
  destruct Hin as [<-|Hin]; [exact Hxz|].
  assert (Py : P y) by (rewrite Forall_forall in Pl'; apply Pl'; exact Hin).
  apply (gt_negtrans x z y Px Pz Py); [exact Hxz|]. apply IH; assumption.
Qed.

Lemma filter_nil_all (p : T -> bool) l : (forall z, In z l -> p z = false) -> List.filter p l = [].
Proof.
  induction l as [|w ws IH]; intros H; [reflexivity|]. cbn [List.filter]. rewrite (H w (or_introl eq_refl)).
  apply IH. intros z Hz. apply H. right. exact Hz.
Qed.

(** inserting x puts it AFTER every element of the same key *)
Lemma insert_filter_same k x l : P k -> P x -> Forall P l -> Sorted le_rel l ->
  List.filter (same_key k) (insert_stable gt x l) =
  if same_key k x then List.filter (same_key k) l ++ [x] else List.filter (same_key k) l.
Proof.
  intros Pk Px. induction l as [|y r IH]; cbn [insert_stable]; intros Hp Hs.
  - cbn [List.filter]. destruct (same_key k x); reflexivity.
  - destruct (gt y x) eqn:E.
    + cbn [List.filter]. destruct (same_key k x) eqn:Kx; [|reflexivity].
      fold (List.filter (same_key k) (y :: r)).
      assert (Hnone : List.filter (same_key k) (y :: r) = []).
      { inversion Hp as [|? ? Py Pr]; subst.
        apply filter_nil_all. intros z Hz.
        assert (Pz : P z) by (rewrite Forall_forall in Hp; apply Hp; exact Hz).
        unfold same_key in Kx. apply andb_true_iff in Kx as [K1 _]. apply negb_true_iff in K1.
        assert (Hzx : gt z x = true).
        { destruct (gt z x) eqn:Ez; [reflexivity|]. exfalso.
          destruct Hz as [<-|Hz]; [congruence|].
          pose proof (sorted_all_le y r Hp Hs z Hz) as Hyz.
          rewrite (gt_negtrans y z x Py Pz Px Hyz Ez) in E. discriminate. }
        unfold same_key. apply andb_false_iff. right. apply negb_false_iff.
        destruct (gt z k) eqn:Ezk; [reflexivity|]. exfalso.
        rewrite (gt_negtrans z k x Pz Pk Px Ezk K1) in Hzx. discriminate. }
      cbn [List.filter] in Hnone. rewrite Hnone. reflexivity.
    + inversion Hs as [|? ? Hr Hhd]; subst. inversion Hp as [|? ? Py Pr]; subst. cbn [List.filter]. rewrite (IH Pr Hr).
      destruct (same_key k y), (same_key k x); cbn [app]; reflexivity.
Qed.

Lemma sort_stable_acc k l acc : P k -> Forall P l -> Forall P acc -> Sorted le_rel acc ->
  List.filter (same_key k) (fold_left (fun a x => insert_stable gt x a) l acc) =
  List.filter (same_key k) acc ++ List.filter (same_key k) l.
Proof.
  intros Pk. revert acc; induction l as [|x l IH]; intros acc Hl Ha Hs; cbn [fold_left]; [cbn; rewrite app_nil_r; reflexivity|].
  inversion Hl as [|? ? Px Hl']; subst.
  rewrite (IH _ Hl' (insert_forall x acc Px Ha) (insert_sorted x acc Px Ha Hs)), (insert_filter_same k x acc Pk Px Ha Hs). cbn [List.filter].
  destruct (same_key k x); [rewrite <- app_assoc; reflexivity|reflexivity].
Qed.

(** STABILITY: for every key, the elements having that key appear in the
    output in exactly the order (and multiplicity) they have in the input *)
Theorem sort_is_stable k l : P k -> Forall P l ->
  List.filter (same_key k) (sort_stable gt l) = List.filter (same_key k) l.
Proof. intros Pk Hl. unfold sort_stable. rewrite (sort_stable_acc k l [] Pk Hl); [reflexivity|constructor|constructor]. Qed.
End Sort.
