(* Proofs/AccExamples.v — the hypotheses of the accuracy theorems are
   satisfiable: a concrete, non-trivial catalogue case (2.5 inch -> centimetre)
   meets every premise of convert_magnitude, so the theorem is not vacuous. *)
From Coq Require Import Reals ZArith Lra Lia String.
From Flocq Require Import Core IEEE754.BinarySingleNaN IEEE754.Binary IEEE754.Bits.
From QV Require Import Rt.Prelude Rt.Amount Rt.Quantity Macro.Defs Gen.Prefixes Gen.Catalogue Gen.Kernels Macro.Inst
  Amount.F64 Amount.F64Acc Proofs.Laws Proofs.Kernel Proofs.Instances Proofs.AccF64.
Local Open Scope R_scope.

Definition LengthF : QBase F64 := base_of_gen F64 cat_Length_gen.
Definition inch_ix : nat := 4%nat.
Definition cm_ix : nat := 3%nat.
Definition s_inch : f64 := Eval vm_compute in u_scale LengthF inch_ix.
Definition s_cm : f64 := Eval vm_compute in u_scale LengthF cm_ix.
Definition amount25 : f64 := Eval vm_compute in b64_of_bits 4612811918334230528.      (* 2.5 *)
Definition q_example : Qt LengthF := q_new LengthF amount25 inch_ix.

Lemma example_units : gen_name cat_Length_gen inch_ix = us "Inch"%string /\ gen_name cat_Length_gen cm_ix = us "Centimeter"%string /\
  u_scale LengthF inch_ix = s_inch /\ u_scale LengthF cm_ix = s_cm.
Proof. repeat split; vm_compute; reflexivity. Qed.

(** a magnitude between 2^-10 and 2^10 is well inside the normal range *)
Lemma normal_mid r : / 1024 <= Rabs r <= 1024 -> normal r.
Proof.
  intros [Hlo Hhi]. unfold normal, tiny, huge, u64.
  assert (T : bpow radix2 (-1022) <= / 1024).
  { replace (/ 1024) with (bpow radix2 (-10)) by (change (bpow radix2 (-10)) with (/ IZR (Z.pow_pos 2 10)); replace (Z.pow_pos 2 10) with 1024%Z by reflexivity; reflexivity). apply bpow_le. lia. }
  assert (U : 2048 < bpow radix2 1024).
  { replace 2048 with (bpow radix2 11) by (change (bpow radix2 11) with (IZR (Z.pow_pos 2 11)); replace (Z.pow_pos 2 11) with 2048%Z by reflexivity; reflexivity). apply bpow_lt. lia. }
  assert (V : / 2 * bpow radix2 (-52) <= 1).
  { assert (H : bpow radix2 (-52) <= bpow radix2 0) by (apply bpow_le; lia). change (bpow radix2 0) with 1 in H. lra. }
  pose proof (Rabs_pos r) as P. change (-53 + 1)%Z with (-52)%Z.
  assert (W : 0 <= bpow radix2 (-52)) by apply bpow_ge_0.
  set (t := bpow radix2 (-1022)) in *. set (b := bpow radix2 1024) in *. set (x := bpow radix2 (-52)) in *.
  clearbody t b x. split; [lra|]. nra.
Qed.

(** the values of the two scales and of the amount as fractions *)
Lemma s_inch_val : B2R 53 1024 s_inch = 7321051554253478 / 288230376151711744.
Proof. unfold s_inch. cbn [B2R]. unfold F2R. cbn [Fnum Fexp cond_Zopp bpow Z.pow_pos Pos.iter radix_val radix2 Z.mul Pos.mul]. lra. Qed.
Lemma s_cm_val : B2R 53 1024 s_cm = 5764607523034235 / 576460752303423488.
Proof. unfold s_cm. cbn [B2R]. unfold F2R. cbn [Fnum Fexp cond_Zopp bpow Z.pow_pos Pos.iter radix_val radix2 Z.mul Pos.mul]. lra. Qed.
Lemma amount25_val : B2R 53 1024 amount25 = 5 / 2.
Proof. unfold amount25. cbn [B2R]. unfold F2R. cbn [Fnum Fexp cond_Zopp bpow Z.pow_pos Pos.iter radix_val radix2 Z.mul Pos.mul]. lra. Qed.

Lemma example_ratio_val : B2R 53 1024 s_inch / B2R 53 1024 s_cm = 14642103108506956 / 5764607523034235.
Proof. rewrite s_inch_val, s_cm_val. field. Qed.

Lemma example_ratio_normal : normal (B2R 53 1024 s_inch / B2R 53 1024 s_cm).
Proof. apply normal_mid. rewrite example_ratio_val. rewrite Rabs_pos_eq by lra. lra. Qed.

(** all premises of convert_magnitude for 2.5 in -> cm *)
Theorem convert_magnitude_premises_hold :
  q_unit LengthF q_example <> cm_ix /\ In cm_ix (u_iter LengthF) /\
  is_finite 53 1024 (q_amount LengthF q_example) = true /\ is_finite 53 1024 (u_scale LengthF (q_unit LengthF q_example)) = true /\
  is_finite 53 1024 (u_scale LengthF cm_ix) = true /\ B2R 53 1024 (u_scale LengthF cm_ix) <> 0 /\
  normal (B2R 53 1024 (u_scale LengthF (q_unit LengthF q_example)) / B2R 53 1024 (u_scale LengthF cm_ix)) /\
  normal (B2R 53 1024 (f64_div (u_scale LengthF (q_unit LengthF q_example)) (u_scale LengthF cm_ix)) * B2R 53 1024 (q_amount LengthF q_example)).
Proof.
  assert (Eu : q_unit LengthF q_example = inch_ix) by reflexivity.
  assert (Ea : q_amount LengthF q_example = amount25) by reflexivity.
  destruct example_units as (_ & _ & Ei & Ec). rewrite Eu, Ea, Ei, Ec.
  split; [discriminate|]. split; [vm_compute; tauto|]. split; [reflexivity|]. split; [reflexivity|]. split; [reflexivity|].
  assert (Hc0 : B2R 53 1024 s_cm <> 0) by (rewrite s_cm_val; lra).
  split; [exact Hc0|]. split; [exact example_ratio_normal|].
  destruct example_ratio_normal as [N N'].
  destruct (f64_div_rel s_inch s_cm eq_refl eq_refl Hc0 N N') as (d & Hd & _ & ->).
  apply Rabs_le_inv in Hd. rewrite example_ratio_val, amount25_val.
  assert (Hu : u64 <= / 2).
  { unfold u64. change (-53 + 1)%Z with (-52)%Z. assert (H : bpow radix2 (-52) <= bpow radix2 0) by (apply bpow_le; lia). change (bpow radix2 0) with 1 in H.
    set (x := bpow radix2 (-52)) in *. clearbody x. lra. }
  pose proof u64_pos as Hu0.
  apply normal_mid. rewrite Rabs_pos_eq by nra. split; nra.
Qed.
