(* Proofs/AccExamples.v — the hypotheses of the accuracy theorems are
   satisfiable: a concrete, non-trivial catalogue case (2.5 inch -> centimetre)
   meets every premise of convert_magnitude, so the theorem is not vacuous. *)
From Coq Require Import Reals ZArith Lra Lia String.
From Interval Require Import Tactic.
From Flocq Require Import Core IEEE754.BinarySingleNaN IEEE754.Binary IEEE754.Bits.
From QV Require Import Rt.Prelude Rt.Amount Rt.Quantity Macro.Defs Gen.Prefixes Gen.Catalogue Gen.Kernels Macro.Inst
  Amount.F64 Amount.F64Acc Proofs.Laws Proofs.Kernel Proofs.Instances Proofs.AccF64.
Local Open Scope R_scope.

Definition LengthF : QBase F64 := base_of_gen F64 cat_Length_gen.
Definition inch_ix : nat := 4%nat.
Definition cm_ix : nat := 3%nat.
Definition s_inch : f64 := Eval vm_compute in u_scale LengthF inch_ix.
Definition s_cm : f64 := Eval vm_compute in u_scale LengthF cm_ix.
Definition amount25 : f64 := Eval vm_compute in b64_of_bits 4612811918334230528.      (* 2.5 *)
Definition q_example : Qt LengthF := q_new LengthF amount25 inch_ix.

Lemma example_units : gen_name cat_Length_gen inch_ix = us "Inch"%string /\ gen_name cat_Length_gen cm_ix = us "Centimeter"%string /\
  u_scale LengthF inch_ix = s_inch /\ u_scale LengthF cm_ix = s_cm.
Proof. repeat split; vm_compute; reflexivity. Qed.

Lemma bpow_neg (e : Z) : (e < 0)%Z -> bpow radix2 e = / IZR (2 ^ (- e)).
Proof. intros H. destruct e as [|p|p]; try lia. cbn [bpow Z.opp]. f_equal. Qed.

Lemma bpow_pos (e : Z) : (0 <= e)%Z -> bpow radix2 e = IZR (2 ^ e).
Proof. intros H. destruct e as [|p|p]; try lia; reflexivity. Qed.

Ltac concrete :=
  unfold normal, tiny, huge, u64, s_inch, s_cm, amount25; cbn [B2R F2R Fnum Fexp cond_Zopp];
  rewrite ?bpow_neg by lia; rewrite ?bpow_pos by lia;
  cbn [Z.opp Z.add Z.pos_sub Pos.pred_double].

Lemma example_ratio_normal : normal (B2R 53 1024 s_inch / B2R 53 1024 s_cm).
Proof. concrete. split; interval with (i_prec 80). Qed.

(** all premises of convert_magnitude for 2.5 in -> cm *)
Theorem convert_magnitude_premises_hold :
  q_unit LengthF q_example <> cm_ix /\ In cm_ix (u_iter LengthF) /\
  is_finite 53 1024 (q_amount LengthF q_example) = true /\ is_finite 53 1024 (u_scale LengthF (q_unit LengthF q_example)) = true /\
  is_finite 53 1024 (u_scale LengthF cm_ix) = true /\ B2R 53 1024 (u_scale LengthF cm_ix) <> 0 /\
  normal (B2R 53 1024 (u_scale LengthF (q_unit LengthF q_example)) / B2R 53 1024 (u_scale LengthF cm_ix)) /\
  normal (B2R 53 1024 (f64_div (u_scale LengthF (q_unit LengthF q_example)) (u_scale LengthF cm_ix)) * B2R 53 1024 (q_amount LengthF q_example)).
Proof.
  assert (Eu : q_unit LengthF q_example = inch_ix) by reflexivity.
  assert (Ea : q_amount LengthF q_example = amount25) by reflexivity.
  destruct example_units as (_ & _ & Ei & Ec). rewrite Eu, Ea, Ei, Ec.
  split; [discriminate|]. split; [vm_compute; tauto|]. split; [reflexivity|]. split; [reflexivity|]. split; [reflexivity|].
  assert (Hc0 : B2R 53 1024 s_cm <> 0).
  { concrete. apply Rgt_not_eq. interval with (i_prec 80). }
  split; [exact Hc0|]. split; [exact example_ratio_normal|].
  destruct example_ratio_normal as [N N'].
  destruct (f64_div_rel s_inch s_cm eq_refl eq_refl Hc0 N N') as (d & Hd & _ & ->).
  apply Rabs_le_inv in Hd. revert Hd. concrete. intros Hd.
  split; interval with (i_prec 80).
Qed.
