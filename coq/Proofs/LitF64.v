(* Proofs/LitF64.v — the model of Rust's [<literal> as f64] ([f64_of_lit]) is
   CORRECTLY ROUNDED: the result is the round-to-nearest-even binary64 of the
   exact decimal value of the literal (with the literal's sign, also on zeros),
   and an infinity with the literal's sign when that rounding overflows. *)
From Coq Require Import ZArith NArith List Bool Lia Reals Lra.
From Coq Require Import Floats.SpecFloat.
From Flocq Require Import Core.Zaux Core.Raux Core.Defs Core.Float_prop Core.Generic_fmt
  Core.Round_NE Core.FLT.
From Flocq Require Import IEEE754.BinarySingleNaN IEEE754.Binary IEEE754.Bits.
From QV Require Import Rt.Prelude Rt.Fmt Amount.F64 Proofs.C15f64 Proofs.C15f64exp.
Local Open Scope Z_scope.

(** * computed examples (projections only) *)
Definition lit_sf (neg : bool) (digits e : Z) : option spec_float :=
  match f64_of_lit (mklit neg digits e false) with
  | Some x => Some (Binary.B2SF 53 1024 x)
  | None => None
  end.
Eval vm_compute in lit_sf false 254 (-4).
Eval vm_compute in lit_sf false 1 0.
Eval vm_compute in lit_sf true 277777777777777778 (-18).
Eval vm_compute in lit_sf false 1 400.
Eval vm_compute in lit_sf true 1 (-400).
Eval vm_compute in lit_sf true 0 5.

Local Open Scope R_scope.

Local Notation fexp64 := (SpecFloat.fexp 53 1024).
Local Notation rnd64 := (round radix2 fexp64 (round_mode mode_NE)).

(** * [sf_to_b64] on a valid non-NaN spec_float is the float with that representation *)
Lemma sf_to_b64_valid z :
  SpecFloat.valid_binary 53 1024 z = true -> is_nan_SF z = false ->
  Binary.B2SF 53 1024 (sf_to_b64 z) = z.
Proof.
  destruct z as [s|s| |s m e]; intros Hv Hn; try reflexivity; try discriminate.
  change (SpecFloat.valid_binary 53 1024 (S754_finite s m e)) with (SpecFloat.bounded 53 1024 m e) in Hv.
  rewrite (sf_to_b64_finite s m e Hv). reflexivity.
Qed.

(** * the rounding pipeline on a positive ratio *)
Lemma round_ratio_sf_spec n d :
  let z := round_ratio_sf n d in
  SpecFloat.valid_binary 53 1024 z = true /\
  if Rlt_bool (Rabs (rnd64 (IZR (Zpos n) / IZR (Zpos d)))) (bpow radix2 1024) then
    SF2R radix2 z = rnd64 (IZR (Zpos n) / IZR (Zpos d)) /\
    is_finite_SF z = true /\ sign_SF z = false
  else z = S754_infinity false.
Proof.
  unfold round_ratio_sf.
  pose proof (Bdiv_correct_aux 53 1024 Hp53 Hm1024 mode_NE false n 0 false d 0) as H.
  cbv zeta in H. cbn [cond_Zopp xorb] in H.
  assert (Ex : forall p, F2R (Float radix2 (Zpos p) 0) = IZR (Zpos p)).
  { intros p. unfold F2R. cbn [Fnum Fexp bpow]. apply Rmult_1_r. }
  rewrite !Ex in H. exact H.
Qed.

(** attaching the literal's sign to a non-negative finite result *)
Lemma signed_result neg z r :
  SpecFloat.valid_binary 53 1024 z = true -> is_finite_SF z = true -> sign_SF z = false ->
  SF2R radix2 z = r ->
  let x := sf_to_b64 (sf_set_sign neg z) in
  is_finite 53 1024 x = true /\ B2R 53 1024 x = (if neg then - r else r) /\ Bsign 53 1024 x = neg.
Proof.
  intros Hv Hf Hs Hr. destruct z as [s|s| |s m e]; try discriminate.
  - cbn [sf_set_sign sf_to_b64]. cbn [SF2R] in Hr. subst r.
    split; [reflexivity|]. split; [|reflexivity]. cbn [B2R]. destruct neg; lra.
  - cbn [sign_SF] in Hs. subst s.
    change (SpecFloat.valid_binary 53 1024 (S754_finite false m e)) with (SpecFloat.bounded 53 1024 m e) in Hv.
    cbn [sf_set_sign]. rewrite (sf_to_b64_finite neg m e Hv).
    split; [reflexivity|]. split; [|reflexivity].
    cbn [B2R]. cbn [SF2R cond_Zopp] in Hr. subst r.
    destruct neg; cbn [cond_Zopp]; [|reflexivity].
    change (Z.neg m) with (- Z.pos m)%Z. apply F2R_Zopp.
Qed.

(** * 1. [round_ratio] is the correctly rounded quotient *)
Theorem round_ratio_correct (n d : Z) : (0 < n)%Z -> (0 < d)%Z ->
  let r := rnd64 (IZR n / IZR d) in
  Rabs r < bpow radix2 1024 ->
  let x := sf_to_b64 (round_ratio n d) in
  is_finite 53 1024 x = true /\ B2R 53 1024 x = r /\ Bsign 53 1024 x = false.
Proof.
  intros Hn Hd r Hr. destruct n as [|n|n]; try lia. destruct d as [|d|d]; try lia.
  cbn [round_ratio].
  destruct (round_ratio_sf_spec n d) as [Hv H]. fold r in H.
  rewrite Rlt_bool_true in H by exact Hr. destruct H as (H1 & H2 & H3).
  pose proof (signed_result false _ _ Hv H2 H3 H1) as S. cbv zeta in S.
  assert (E : sf_set_sign false (round_ratio_sf n d) = round_ratio_sf n d).
  { destruct (round_ratio_sf n d) as [s|s| |s m e]; cbn [sign_SF] in H3; try subst s; try reflexivity; discriminate. }
  rewrite E in S. exact S.
Qed.

(** the form with an existential witness *)
Corollary round_ratio_correct_ex (n d : Z) : (0 < n)%Z -> (0 < d)%Z ->
  let r := rnd64 (IZR n / IZR d) in
  Rabs r < bpow radix2 1024 ->
  exists x : binary64, sf_to_b64 (round_ratio n d) = x /\
    is_finite 53 1024 x = true /\ B2R 53 1024 x = r /\ Bsign 53 1024 x = false.
Proof. intros Hn Hd r Hr. eexists. split; [reflexivity|]. apply round_ratio_correct; assumption. Qed.

(** overflow: the quotient rounds to at least 2^1024 *)
Theorem round_ratio_overflow (n d : Z) : (0 < n)%Z -> (0 < d)%Z ->
  bpow radix2 1024 <= Rabs (rnd64 (IZR n / IZR d)) ->
  round_ratio n d = S754_infinity false.
Proof.
  intros Hn Hd Hr. destruct n as [|n|n]; try lia. destruct d as [|d|d]; try lia.
  cbn [round_ratio].
  destruct (round_ratio_sf_spec n d) as [Hv H].
  rewrite Rlt_bool_false in H by exact Hr. exact H.
Qed.

(** * the exact real value of a literal: (-1)^neg * digits * 10^exp *)
Definition lit_R (l : lit) : R :=
  (if l_neg l then -1 else 1) * IZR (l_digits l) *
  (if (0 <=? l_exp l)%Z then IZR (10 ^ l_exp l) else / IZR (10 ^ (- l_exp l))).

Definition radix10 : radix := Build_radix 10 eq_refl.

Lemma lit_R_bpow l :
  lit_R l = (if l_neg l then -1 else 1) * IZR (l_digits l) * bpow radix10 (l_exp l).
Proof.
  unfold lit_R. f_equal. destruct (Z.leb_spec 0 (l_exp l)) as [H|H].
  - rewrite <- (IZR_Zpower radix10) by exact H. reflexivity.
  - rewrite <- (Z.opp_involutive (l_exp l)) at 2. rewrite bpow_opp.
    rewrite <- (IZR_Zpower radix10) by lia. reflexivity.
Qed.

(** the same value as the exact fraction used by the decimal model *)
Lemma lit_R_Q l :
  lit_R l = IZR (fst (lit_Q_num_den l)) / IZR (snd (lit_Q_num_den l)).
Proof.
  unfold lit_R, lit_Q_num_den. destruct (Z.leb_spec 0 (l_exp l)) as [H|H]; cbn [fst snd].
  - rewrite !mult_IZR. destruct (l_neg l); field.
  - rewrite !mult_IZR. unfold Rdiv. destruct (l_neg l); reflexivity.
Qed.

(** the unsigned quotient fed to [round_ratio] *)
Definition lit_num (l : lit) : Z :=
  if (0 <=? l_exp l)%Z then (l_digits l * 10 ^ l_exp l)%Z else l_digits l.
Definition lit_den (l : lit) : Z :=
  if (0 <=? l_exp l)%Z then 1%Z else (10 ^ (- l_exp l))%Z.

Lemma f64_of_lit_eq l :
  f64_of_lit l = Some (sf_to_b64 (sf_set_sign (l_neg l) (round_ratio (lit_num l) (lit_den l)))).
Proof. unfold f64_of_lit, lit_num, lit_den. destruct (0 <=? l_exp l)%Z; reflexivity. Qed.

Lemma lit_den_pos l : (0 < lit_den l)%Z.
Proof. unfold lit_den. destruct (Z.leb_spec 0 (l_exp l)); [lia|apply Z.pow_pos_nonneg; lia]. Qed.

Lemma lit_num_pos l : (0 < l_digits l)%Z -> (0 < lit_num l)%Z.
Proof.
  intros H. unfold lit_num. destruct (Z.leb_spec 0 (l_exp l)); [|exact H].
  apply Z.mul_pos_pos; [exact H|apply Z.pow_pos_nonneg; lia].
Qed.

Lemma lit_R_quot l :
  lit_R l = (if l_neg l then - (IZR (lit_num l) / IZR (lit_den l)) else IZR (lit_num l) / IZR (lit_den l)).
Proof.
  unfold lit_R, lit_num, lit_den. destruct (Z.leb_spec 0 (l_exp l)) as [H|H].
  - rewrite mult_IZR. destruct (l_neg l); field.
  - unfold Rdiv. destruct (l_neg l); ring.
Qed.

Lemma rnd64_lit l :
  rnd64 (lit_R l) =
  (if l_neg l then - rnd64 (IZR (lit_num l) / IZR (lit_den l)) else rnd64 (IZR (lit_num l) / IZR (lit_den l))).
Proof.
  rewrite lit_R_quot. destruct (l_neg l); [|reflexivity].
  apply (round_NE_opp radix2 fexp64).
Qed.

Lemma Rabs_rnd64_lit l :
  Rabs (rnd64 (lit_R l)) = Rabs (rnd64 (IZR (lit_num l) / IZR (lit_den l))).
Proof. rewrite rnd64_lit. destruct (l_neg l); [apply Rabs_Ropp|reflexivity]. Qed.

(** * 2. a nonzero literal is converted to the correctly rounded binary64 *)
Theorem f64_of_lit_correct (l : lit) (x : f64) : (0 < l_digits l)%Z ->
  f64_of_lit l = Some x ->
  Rabs (rnd64 (lit_R l)) < bpow radix2 1024 ->
  is_finite 53 1024 x = true /\ B2R 53 1024 x = rnd64 (lit_R l) /\ Bsign 53 1024 x = l_neg l.
Proof.
  intros Hd E Hr. rewrite f64_of_lit_eq in E. injection E as <-.
  rewrite Rabs_rnd64_lit in Hr. rewrite rnd64_lit.
  pose proof (lit_num_pos l Hd) as Hn. pose proof (lit_den_pos l) as Hdd.
  destruct (lit_num l) as [|n|n]; try lia. destruct (lit_den l) as [|d|d]; try lia.
  cbn [round_ratio].
  destruct (round_ratio_sf_spec n d) as [Hv H].
  rewrite Rlt_bool_true in H by exact Hr. destruct H as (H1 & H2 & H3).
  exact (signed_result (l_neg l) _ _ Hv H2 H3 H1).
Qed.

(** * 3. the zero literal: a zero with the literal's sign *)
Theorem f64_of_lit_zero (l : lit) (x : f64) : l_digits l = 0%Z ->
  f64_of_lit l = Some x ->
  x = B754_zero 53 1024 (l_neg l).
Proof.
  intros Hd E. rewrite f64_of_lit_eq in E. injection E as <-.
  unfold lit_num. rewrite Hd, Z.mul_0_l. destruct (0 <=? l_exp l)%Z; reflexivity.
Qed.

Corollary f64_of_lit_zero_R (l : lit) (x : f64) : l_digits l = 0%Z ->
  f64_of_lit l = Some x ->
  is_finite 53 1024 x = true /\ B2R 53 1024 x = 0 /\ Bsign 53 1024 x = l_neg l /\ lit_R l = 0.
Proof.
  intros Hd E. rewrite (f64_of_lit_zero l x Hd E).
  repeat split. unfold lit_R. rewrite Hd. ring.
Qed.

(** * 4. overflow: an infinity with the literal's sign *)
Theorem f64_of_lit_overflow (l : lit) (x : f64) : (0 < l_digits l)%Z ->
  f64_of_lit l = Some x ->
  bpow radix2 1024 <= Rabs (rnd64 (lit_R l)) ->
  x = B754_infinity 53 1024 (l_neg l).
Proof.
  intros Hd E Hr. rewrite f64_of_lit_eq in E. injection E as <-.
  rewrite Rabs_rnd64_lit in Hr.
  rewrite (round_ratio_overflow _ _ (lit_num_pos l Hd) (lit_den_pos l) Hr). reflexivity.
Qed.

(** the conversion never fails *)
Theorem f64_of_lit_total (l : lit) : exists x, f64_of_lit l = Some x.
Proof. rewrite f64_of_lit_eq. eexists; reflexivity. Qed.

(** every literal with non-negative digits: complete case analysis *)
Theorem f64_of_lit_cases (l : lit) (x : f64) : (0 <= l_digits l)%Z ->
  f64_of_lit l = Some x ->
  Bsign 53 1024 x = l_neg l /\
  ((Rabs (rnd64 (lit_R l)) < bpow radix2 1024 /\
    is_finite 53 1024 x = true /\ B2R 53 1024 x = rnd64 (lit_R l)) \/
   (bpow radix2 1024 <= Rabs (rnd64 (lit_R l)) /\ x = B754_infinity 53 1024 (l_neg l))).
Proof.
  intros Hd E.
  assert (Hd' : (0 < l_digits l)%Z \/ l_digits l = 0%Z) by lia. destruct Hd' as [Hp|Hz].
  - destruct (Rlt_or_le (Rabs (rnd64 (lit_R l))) (bpow radix2 1024)) as [Hr|Hr].
    + destruct (f64_of_lit_correct l x Hp E Hr) as (A & B & C). split; [exact C|]. left. auto.
    + pose proof (f64_of_lit_overflow l x Hp E Hr) as ->. split; [reflexivity|]. right. auto.
  - destruct (f64_of_lit_zero_R l x Hz E) as (A & B & C & D). split; [exact C|]. left.
    rewrite D, round_0 by apply valid_rnd_round_mode. rewrite Rabs_R0.
    split; [apply bpow_gt_0|]. split; assumption.
Qed.

(** * a decidable sufficient condition for "no overflow": the exact value is at
      most the largest finite double (2^53 - 1) * 2^971 *)
Definition max_f64_Z : Z := ((2 ^ 53 - 1) * 2 ^ 971)%Z.
Definition lit_in_range (l : lit) : bool := (lit_num l <=? max_f64_Z * lit_den l)%Z.

Lemma rnd64_le_max v : Rabs v <= IZR max_f64_Z -> Rabs (rnd64 v) < bpow radix2 1024.
Proof.
  intros Hv.
  set (mx := @BinarySingleNaN.B754_finite 53 1024 false 9007199254740991 971 eq_refl).
  assert (Emx : BinarySingleNaN.B2R mx = IZR max_f64_Z).
  { unfold mx, max_f64_Z. cbn [BinarySingleNaN.B2R cond_Zopp]. unfold F2R. cbn [Fnum Fexp].
    rewrite mult_IZR, <- (IZR_Zpower radix2 971) by lia. reflexivity. }
  apply Rle_lt_trans with (BinarySingleNaN.B2R mx).
  - apply abs_round_le_generic.
    + apply (BinarySingleNaN.fexp_correct 53 1024 Hp53).
    + apply valid_rnd_round_mode.
    + apply BinarySingleNaN.generic_format_B2R.
    + rewrite Emx. exact Hv.
  - apply Rle_lt_trans with (Rabs (BinarySingleNaN.B2R mx)); [apply Rle_abs|].
    apply BinarySingleNaN.abs_B2R_lt_emax.
Qed.

Lemma lit_in_range_no_overflow l : (0 <= l_digits l)%Z -> lit_in_range l = true ->
  Rabs (rnd64 (lit_R l)) < bpow radix2 1024.
Proof.
  intros Hd Hr. rewrite Rabs_rnd64_lit. apply rnd64_le_max.
  unfold lit_in_range in Hr. apply Z.leb_le in Hr.
  pose proof (lit_den_pos l) as Hdd.
  assert (Hn : (0 <= lit_num l)%Z).
  { unfold lit_num. destruct (Z.leb_spec 0 (l_exp l)); [|exact Hd].
    apply Z.mul_nonneg_nonneg; [exact Hd|apply Z.pow_nonneg; lia]. }
  apply IZR_le in Hr, Hn. apply IZR_lt in Hdd. rewrite mult_IZR in Hr.
  set (n := IZR (lit_num l)) in *. set (d := IZR (lit_den l)) in *. set (M := IZR max_f64_Z) in *.
  clearbody n d M.
  assert (Hq : 0 <= n / d) by (apply Rmult_le_pos; [exact Hn|apply Rlt_le, Rinv_0_lt_compat; exact Hdd]).
  rewrite Rabs_pos_eq by exact Hq.
  apply Rmult_le_reg_r with d; [exact Hdd|]. unfold Rdiv. rewrite Rmult_assoc, Rinv_l by lra. lra.
Qed.

(** the practical form: a literal whose value does not exceed the largest double *)
Theorem f64_of_lit_in_range (l : lit) (x : f64) : (0 <= l_digits l)%Z ->
  lit_in_range l = true -> f64_of_lit l = Some x ->
  is_finite 53 1024 x = true /\ B2R 53 1024 x = rnd64 (lit_R l) /\ Bsign 53 1024 x = l_neg l.
Proof.
  intros Hd Hr E. pose proof (lit_in_range_no_overflow l Hd Hr) as Hb.
  assert (Hd' : (0 < l_digits l)%Z \/ l_digits l = 0%Z) by lia. destruct Hd' as [Hp|Hz].
  - exact (f64_of_lit_correct l x Hp E Hb).
  - destruct (f64_of_lit_zero_R l x Hz E) as (A & B & C & D).
    split; [exact A|]. split; [|exact C].
    rewrite D, round_0 by apply valid_rnd_round_mode. exact B.
Qed.

(** non-vacuity: the literal 0.0254 (metres per inch) *)
Example lit_0_0254 :
  exists x, f64_of_lit (mklit false 254 (-4) false) = Some x /\
    Binary.B2SF 53 1024 x = S754_finite false 7321051554253478 (-58) /\
    B2R 53 1024 x = rnd64 (254 / 10000).
Proof.
  destruct (f64_of_lit_total (mklit false 254 (-4) false)) as [x E].
  exists x. split; [exact E|]. split.
  - assert (H : lit_sf false 254 (-4) =
                match f64_of_lit (mklit false 254 (-4) false) with
                | Some x => Some (Binary.B2SF 53 1024 x) | None => None end) by reflexivity.
    rewrite E in H. vm_compute in H. injection H as H. symmetry. exact H.
  - assert (Hd : (0 <= l_digits (mklit false 254 (-4) false))%Z) by (cbn [l_digits]; lia).
    destruct (f64_of_lit_in_range _ x Hd eq_refl E) as (_ & B & _).
    rewrite B. f_equal. unfold lit_R. cbn [l_neg l_digits l_exp Z.leb Z.compare Z.opp].
    change (10 ^ 4)%Z with 10000%Z. field.
Qed.

Print Assumptions round_ratio_correct.
Print Assumptions f64_of_lit_in_range.
Print Assumptions lit_0_0254.
Print Assumptions round_ratio_overflow.
Print Assumptions f64_of_lit_correct.
Print Assumptions f64_of_lit_zero.
Print Assumptions f64_of_lit_overflow.
Print Assumptions f64_of_lit_cases.
