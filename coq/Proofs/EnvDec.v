(* Proofs/EnvDec.v — property C18, decimal configuration: inside the envelope the
   property names (every naturally arising magnitude between 1e-15 and 1e17, or
   zero where zero is allowed, divisors non-zero) the kernels of a quantity with
   reference unit return a value.  Composed from the totality and accuracy
   theorems of Amount/DecAcc.v; the margins are explicit: a rounded scale ratio
   is off by at most 5e-19 <= ratio / 2000, so a converted divisor keeps at
   least 99.9 % of its magnitude and stays non-zero. *)
From Coq Require Import Reals ZArith Lra Psatz Bool Lia List.
From QV Require Import Rt.Prelude Rt.Amount Rt.Quantity Gen.Prefixes Gen.Kernels Amount.DecModel Amount.Dec.
From QV Require Amount.Laws.
From QV Require Import Amount.DecAcc Proofs.Laws Proofs.Kernel Proofs.AccDec.
Import Amount.Laws.
Local Open Scope R_scope.

Definition env_lo : R := / 1000000000000000.          (* 1e-15 *)
Definition env_hi : R := 100000000000000000.           (* 1e17 *)
(** a magnitude inside the envelope / inside it or zero *)
Definition in_env (r : R) : Prop := env_lo <= Rabs r <= env_hi.
Definition in_env0 (r : R) : Prop := r = 0 \/ in_env r.

Lemma big_num : big = 10000000000000000000.
Proof. unfold big. replace (ten_pow 19) with 10000000000000000000%Z by reflexivity. reflexivity. Qed.
Lemma h18_num : half_ulp18 = / 2000000000000000000.
Proof. unfold half_ulp18. replace (ten_pow 18) with 1000000000000000000%Z by reflexivity. field. Qed.
Lemma h18_lo : half_ulp18 = env_lo / 2000.
Proof. rewrite h18_num. unfold env_lo. field. Qed.

Lemma in_env0_lt_big r : in_env0 r -> Rabs r <= env_hi.
Proof. intros [->|[_ H]]; [rewrite Rabs_R0; unfold env_hi; lra|exact H]. Qed.

Section Instance.
Context (S : QBase DEC).
Notation scale u := (u_scale S u).
Notation amt q := (q_amount S q : dec).

(** the right operand [y] expressed in the unit of [x]: the rounded scale ratio times the amount *)
Lemma env_equiv_amount (x y : Qt S) :
  q_unit S y <> q_unit S x -> dec_ok (amt y) -> dfit (scale (q_unit S y)) -> dfit (scale (q_unit S x)) ->
  in_env (dval (scale (q_unit S y)) / dval (scale (q_unit S x))) ->
  Rabs (dval (amt y)) <= env_hi ->
  Rabs (dval (amt y) * (dval (scale (q_unit S y)) / dval (scale (q_unit S x)))) <= env_hi ->
  exists b', HasRefUnit_equiv_amount S y (q_unit S x) = Ok b' /\ dec_ok b' /\
    Rabs (dval b' - dval (amt y) * (dval (scale (q_unit S y)) / dval (scale (q_unit S x)))) <= half_ulp18 * (Rabs (dval (amt y)) + 1).
Proof.
  intros Hne Hb [Hv Cv] [Hu Cu] [Slo Shi] Bb BB.
  set (s := dval (scale (q_unit S y)) / dval (scale (q_unit S x))) in *. set (b := dval (amt y)) in *.
  pose proof big_num as Eb. pose proof h18_num as Eh. unfold env_lo, env_hi in *.
  assert (Hu0 : dval (scale (q_unit S x)) <> 0).
  { intros E. unfold s in Slo. rewrite E in Slo. unfold Rdiv in Slo. rewrite Rinv_0, Rmult_0_r, Rabs_R0 in Slo. lra. }
  rewrite (equiv_amount_diff S y (q_unit S x) Hne). cbn [a_div a_mul DEC].
  assert (B1 : Rabs s < big) by lra.
  destruct (dec_div_total_R _ _ Hv Hu Cv Cu Hu0 B1) as [r Er]. rewrite Er. cbn [bind].
  destruct (dec_div_acc _ _ _ Hv Hu Er) as (Hr & _ & Br). fold s in Br.
  assert (Br' : Rabs (dval r) <= Rabs s + half_ulp18).
  { replace (dval r) with ((dval r - s) + s) by ring. eapply Rle_trans; [apply Rabs_triang|]. lra. }
  assert (Bm : Rabs (dval r * b) < big).
  { rewrite Rabs_mult. rewrite Rabs_mult in BB. pose proof (Rabs_pos b). pose proof (Rabs_pos s). nra. }
  destruct (dec_mul_total_R _ _ Hr Hb Bm) as [m Em]. fold b in Em. exists m.
  destruct (dec_mul_acc _ _ _ Hr Hb Em) as (Hm & Bmm & _). split; [exact Em|]. split; [exact Hm|].
  replace (dval m - b * s) with ((dval m - dval r * b) + (dval r - s) * b) by ring.
  eapply Rle_trans; [apply Rabs_triang|]. rewrite Rabs_mult. pose proof (Rabs_pos b). pose proof half_ulp18_pos. fold b in Bmm. nra.
Qed.

(** conversion *)
Theorem env_convert (L : QLaws S) (q : Qt S) (v : nat) :
  q_unit S q <> v -> dec_ok (amt q) -> dfit (scale (q_unit S q)) -> dfit (scale v) ->
  in_env (dval (scale (q_unit S q)) / dval (scale v)) ->
  Rabs (dval (amt q)) <= env_hi ->
  Rabs (dval (amt q) * (dval (scale (q_unit S q)) / dval (scale v))) <= env_hi ->
  exists q', HasRefUnit_convert S q v = Ok q'.
Proof.
  intros Hne Ha Fu Fv [Slo Shi] Ba BB.
  pose proof big_num as Eb. pose proof h18_num as Eh. unfold env_lo, env_hi in *.
  assert (Hv0 : dval (scale v) <> 0).
  { intros E. rewrite E in Slo. unfold Rdiv in Slo. rewrite Rinv_0, Rmult_0_r, Rabs_R0 in Slo. lra. }
  apply dec_convert_total; try assumption; [lra|].
  rewrite Rabs_mult in BB. pose proof (Rabs_pos (dval (amt q))). pose proof (Rabs_pos (dval (scale (q_unit S q)) / dval (scale v))). nra.
Qed.

(** a + b and a - b across units *)
Theorem env_add_sub (x y : Qt S) :
  q_unit S y <> q_unit S x -> dec_ok (amt x) -> dec_ok (amt y) -> dfit (scale (q_unit S y)) -> dfit (scale (q_unit S x)) ->
  in_env (dval (scale (q_unit S y)) / dval (scale (q_unit S x))) ->
  Rabs (dval (amt x)) <= env_hi -> Rabs (dval (amt y)) <= env_hi ->
  Rabs (dval (amt y) * (dval (scale (q_unit S y)) / dval (scale (q_unit S x)))) <= env_hi ->
  (exists r, HasRefUnit_add S x y = Ok r) /\ (exists r, HasRefUnit_sub S x y = Ok r).
Proof.
  intros Hne Ha Hb Fv Fu Es Ba Bb BB.
  destruct (env_equiv_amount x y Hne Hb Fv Fu Es Bb BB) as (b' & Eb' & Hb' & Bd).
  pose proof big_num as Eb. pose proof h18_num as Eh. unfold env_hi in *.
  assert (Bb' : Rabs (dval b') < big).
  { set (B := dval (amt y) * (dval (scale (q_unit S y)) / dval (scale (q_unit S x)))) in *.
    replace (dval b') with ((dval b' - B) + B) by ring. eapply Rle_lt_trans; [apply Rabs_triang|].
    pose proof (Rabs_pos (dval (amt y))). rewrite Eh in Bd. lra. }
  assert (Ba' : Rabs (dval (amt x)) < big) by lra.
  split.
  - rewrite (ref_add_kernel S x y), Eb'. cbn [bind a_add DEC].
    destruct (dec_add_total_R _ _ Ha Hb' Ba' Bb') as [s Es']. rewrite Es'. cbn [bind]. eexists; reflexivity.
  - rewrite (ref_sub_kernel S x y), Eb'. cbn [bind a_sub DEC].
    destruct (dec_sub_total_R _ _ Ha Hb' Ba' Bb') as [s Es']. rewrite Es'. cbn [bind]. eexists; reflexivity.
Qed.

(** a / b across units: the divisor expressed in the dividend's unit is in the envelope, so
    its rounded version keeps at least 99.9 % of it and is not zero *)
Theorem env_div (x y : Qt S) :
  q_unit S y <> q_unit S x -> dec_ok (amt x) -> dec_ok (amt y) -> dfit (scale (q_unit S y)) -> dfit (scale (q_unit S x)) ->
  in_env (dval (scale (q_unit S y)) / dval (scale (q_unit S x))) ->
  Rabs (dval (amt x)) <= env_hi -> Rabs (dval (amt y)) <= env_hi ->
  in_env (dval (amt y) * (dval (scale (q_unit S y)) / dval (scale (q_unit S x)))) ->
  Rabs (dval (amt x) / (dval (amt y) * (dval (scale (q_unit S y)) / dval (scale (q_unit S x))))) <= env_hi ->
  exists r, HasRefUnit_div S x y = Ok r.
Proof.
  intros Hne Ha Hb Fv Fu Es Ba Bb [Blo Bhi] Bq.
  destruct (env_equiv_amount x y Hne Hb Fv Fu Es Bb Bhi) as (b' & Eb' & Hb' & Bd).
  destruct Es as [Slo Shi].
  set (s := dval (scale (q_unit S y)) / dval (scale (q_unit S x))) in *. set (b := dval (amt y)) in *. set (a := dval (amt x)) in *.
  set (B := b * s) in *.
  pose proof big_num as Eb. pose proof h18_lo as Eh. unfold env_lo, env_hi in *.
  (* h |b| <= |B| / 2000  and  h <= |B| / 2000 *)
  assert (Hhb : half_ulp18 * Rabs b <= Rabs B / 2000).
  { unfold B. rewrite Rabs_mult. rewrite Eh. pose proof (Rabs_pos b). unfold Rdiv. nra. }
  assert (Hh : half_ulp18 <= Rabs B / 2000) by (rewrite Eh; unfold Rdiv; lra).
  assert (Lb' : Rabs B * (999 / 1000) <= Rabs (dval b')).
  { assert (T : Rabs B <= Rabs (dval b' - B) + Rabs (dval b')).
    { replace B with ((B - dval b') + dval b') at 1 by ring. rewrite (Rabs_minus_sym (dval b') B). apply Rabs_triang. }
    lra. }
  assert (PB : 0 < Rabs B) by lra.
  assert (Hb0 : dval b' <> 0) by (intros E; rewrite E, Rabs_R0 in Lb'; lra).
  assert (Ub' : Rabs (dval b') < big).
  { replace (dval b') with ((dval b' - B) + B) by ring. eapply Rle_lt_trans; [apply Rabs_triang|]. pose proof (Rabs_pos b). nra. }
  assert (Fa : dfit (amt x)) by (apply dfit_of_bound; [exact Ha|fold a; lra]).
  assert (Fb' : dfit b') by (apply dfit_of_bound; assumption).
  rewrite (ref_div_kernel S x y), Eb'. cbn [bind a_div DEC].
  apply (dec_div_total_R _ _ Ha Hb' (proj2 Fa) (proj2 Fb') Hb0). fold a.
  assert (HB0 : B <> 0) by (intros E; rewrite E, Rabs_R0 in PB; lra).
  unfold Rdiv in Bq. rewrite Rabs_mult, Rabs_inv in Bq.
  assert (Ba' : Rabs a <= 100000000000000000 * Rabs B).
  { apply Rmult_le_reg_r with (/ Rabs B); [apply Rinv_0_lt_compat; exact PB|]. rewrite Rmult_assoc, Rinv_r by lra. lra. }
  unfold Rdiv. rewrite Rabs_mult, Rabs_inv.
  assert (Pb' : 0 < Rabs (dval b')) by lra.
  apply Rmult_lt_reg_r with (Rabs (dval b')); [exact Pb'|]. rewrite Rmult_assoc, Rinv_l by lra. nra.
Qed.

(** == and the ordering across units *)
Theorem env_cmp (x y : Qt S) :
  q_unit S x <> q_unit S y -> dec_ok (amt x) -> dec_ok (amt y) -> dec_ok (scale (q_unit S x)) -> dec_ok (scale (q_unit S y)) ->
  Rabs (dmag S x) <= env_hi -> Rabs (dmag S y) <= env_hi ->
  exists c, HasRefUnit_partial_cmp S x y = Ok (Some c) /\ HasRefUnit_eq S x y = Ok (match c with Eq => true | _ => false end).
Proof.
  intros Hne Ha Hb Hu Hv Bx By. pose proof big_num as Eb. unfold env_hi in *.
  destruct (dec_cmp_magnitude S x y Hne Ha Hb Hu Hv ltac:(lra) ltac:(lra)) as (c & _ & _ & E1 & E2 & _).
  exists c. split; assumption.
Qed.
End Instance.
