(* Proofs/EnvDec.v — property C18, decimal configuration: inside the envelope the
   property names (every naturally arising magnitude between 1e-15 and 1e17, or
   zero where zero is allowed, divisors non-zero) the kernels of a quantity with
   reference unit return a value.  Composed from the totality and accuracy
   theorems of Amount/DecAcc.v; the margins are explicit: a rounded scale ratio
   is off by at most 5e-19 <= ratio / 2000, so a converted divisor keeps at
   least 99.9 % of its magnitude and stays non-zero. *)
From Coq Require Import Reals ZArith Lra Psatz Bool Lia List.
From Flocq Require Import Core.Raux.
From QV Require Import Rt.Prelude Rt.Amount Rt.Quantity Gen.Prefixes Gen.Kernels Amount.DecModel Amount.Dec.
From QV Require Amount.Laws.
From QV Require Import Amount.DecAcc Proofs.Laws Proofs.Kernel Proofs.C09 Proofs.Derived Proofs.AccDec.
From QV Require Proofs.C13.
Import Amount.Laws.
Local Open Scope R_scope.

Definition env_lo : R := / 1000000000000000.          (* 1e-15 *)
Definition env_hi : R := 100000000000000000.           (* 1e17 *)
(** a magnitude inside the envelope / inside it or zero *)
Definition in_env (r : R) : Prop := env_lo <= Rabs r <= env_hi.
Definition in_env0 (r : R) : Prop := r = 0 \/ in_env r.

Lemma big_num : big = 10000000000000000000.
Proof. unfold big. replace (ten_pow 19) with 10000000000000000000%Z by reflexivity. reflexivity. Qed.
Lemma h18_num : half_ulp18 = / 2000000000000000000.
Proof. unfold half_ulp18. replace (ten_pow 18) with 1000000000000000000%Z by reflexivity. field. Qed.
Lemma h18_lo : half_ulp18 = env_lo / 2000.
Proof. rewrite h18_num. unfold env_lo. field. Qed.

Lemma in_env0_lt_big r : in_env0 r -> Rabs r <= env_hi.
Proof. intros [->|[_ H]]; [rewrite Rabs_R0; unfold env_hi; lra|exact H]. Qed.

Section Instance.
Context (S : QBase DEC).
Notation scale u := (u_scale S u).
Notation amt q := (q_amount S q : dec).

(** the right operand [y] expressed in the unit of [x]: the rounded scale ratio times the amount *)
Lemma env_equiv_amount (x y : Qt S) :
  q_unit S y <> q_unit S x -> dec_ok (amt y) -> dfit (scale (q_unit S y)) -> dfit (scale (q_unit S x)) ->
  in_env (dval (scale (q_unit S y)) / dval (scale (q_unit S x))) ->
  Rabs (dval (amt y)) <= env_hi ->
  Rabs (dval (amt y) * (dval (scale (q_unit S y)) / dval (scale (q_unit S x)))) <= env_hi ->
  exists b', HasRefUnit_equiv_amount S y (q_unit S x) = Ok b' /\ dec_ok b' /\
    Rabs (dval b' - dval (amt y) * (dval (scale (q_unit S y)) / dval (scale (q_unit S x)))) <= half_ulp18 * (Rabs (dval (amt y)) + 1).
Proof.
  intros Hne Hb [Hv Cv] [Hu Cu] [Slo Shi] Bb BB.
  set (s := dval (scale (q_unit S y)) / dval (scale (q_unit S x))) in *. set (b := dval (amt y)) in *.
  pose proof big_num as Eb. pose proof h18_num as Eh. unfold env_lo, env_hi in *.
  assert (Hu0 : dval (scale (q_unit S x)) <> 0).
  { intros E. unfold s in Slo. rewrite E in Slo. unfold Rdiv in Slo. rewrite Rinv_0, Rmult_0_r, Rabs_R0 in Slo. lra. }
  rewrite (equiv_amount_diff S y (q_unit S x) Hne). cbn [a_div a_mul DEC].
  assert (B1 : Rabs s < big) by lra.
  destruct (dec_div_total_R _ _ Hv Hu Cv Cu Hu0 B1) as [r Er]. rewrite Er. cbn [bind].
  destruct (dec_div_acc _ _ _ Hv Hu Er) as (Hr & _ & Br). fold s in Br.
  assert (Br' : Rabs (dval r) <= Rabs s + half_ulp18).
  { replace (dval r) with ((dval r - s) + s) by ring. eapply Rle_trans; [apply Rabs_triang|]. lra. }
  assert (Bm : Rabs (dval r * b) < big).
  { rewrite Rabs_mult. rewrite Rabs_mult in BB. pose proof (Rabs_pos b). pose proof (Rabs_pos s). nra. }
  destruct (dec_mul_total_R _ _ Hr Hb Bm) as [m Em]. fold b in Em. exists m.
  destruct (dec_mul_acc _ _ _ Hr Hb Em) as (Hm & Bmm & _). split; [exact Em|]. split; [exact Hm|].
  replace (dval m - b * s) with ((dval m - dval r * b) + (dval r - s) * b) by ring.
  eapply Rle_trans; [apply Rabs_triang|]. rewrite Rabs_mult. pose proof (Rabs_pos b). pose proof half_ulp18_pos. fold b in Bmm. nra.
Qed.

(** conversion *)
Theorem env_convert (L : QLaws S) (q : Qt S) (v : nat) :
  q_unit S q <> v -> dec_ok (amt q) -> dfit (scale (q_unit S q)) -> dfit (scale v) ->
  in_env (dval (scale (q_unit S q)) / dval (scale v)) ->
  Rabs (dval (amt q)) <= env_hi ->
  Rabs (dval (amt q) * (dval (scale (q_unit S q)) / dval (scale v))) <= env_hi ->
  exists q', HasRefUnit_convert S q v = Ok q'.
Proof.
  intros Hne Ha Fu Fv [Slo Shi] Ba BB.
  pose proof big_num as Eb. pose proof h18_num as Eh. unfold env_lo, env_hi in *.
  assert (Hv0 : dval (scale v) <> 0).
  { intros E. rewrite E in Slo. unfold Rdiv in Slo. rewrite Rinv_0, Rmult_0_r, Rabs_R0 in Slo. lra. }
  apply dec_convert_total; try assumption; [lra|].
  rewrite Rabs_mult in BB. pose proof (Rabs_pos (dval (amt q))). pose proof (Rabs_pos (dval (scale (q_unit S q)) / dval (scale v))). nra.
Qed.

(** a + b and a - b across units *)
Theorem env_add_sub (x y : Qt S) :
  q_unit S y <> q_unit S x -> dec_ok (amt x) -> dec_ok (amt y) -> dfit (scale (q_unit S y)) -> dfit (scale (q_unit S x)) ->
  in_env (dval (scale (q_unit S y)) / dval (scale (q_unit S x))) ->
  Rabs (dval (amt x)) <= env_hi -> Rabs (dval (amt y)) <= env_hi ->
  Rabs (dval (amt y) * (dval (scale (q_unit S y)) / dval (scale (q_unit S x)))) <= env_hi ->
  (exists r, HasRefUnit_add S x y = Ok r) /\ (exists r, HasRefUnit_sub S x y = Ok r).
Proof.
  intros Hne Ha Hb Fv Fu Es Ba Bb BB.
  destruct (env_equiv_amount x y Hne Hb Fv Fu Es Bb BB) as (b' & Eb' & Hb' & Bd).
  pose proof big_num as Eb. pose proof h18_num as Eh. unfold env_hi in *.
  assert (Bb' : Rabs (dval b') < big).
  { set (B := dval (amt y) * (dval (scale (q_unit S y)) / dval (scale (q_unit S x)))) in *.
    replace (dval b') with ((dval b' - B) + B) by ring. eapply Rle_lt_trans; [apply Rabs_triang|].
    pose proof (Rabs_pos (dval (amt y))). rewrite Eh in Bd. lra. }
  assert (Ba' : Rabs (dval (amt x)) < big) by lra.
  split.
  - rewrite (ref_add_kernel S x y), Eb'. cbn [bind a_add DEC].
    destruct (dec_add_total_R _ _ Ha Hb' Ba' Bb') as [s Es']. rewrite Es'. cbn [bind]. eexists; reflexivity.
  - rewrite (ref_sub_kernel S x y), Eb'. cbn [bind a_sub DEC].
    destruct (dec_sub_total_R _ _ Ha Hb' Ba' Bb') as [s Es']. rewrite Es'. cbn [bind]. eexists; reflexivity.
Qed.

(** a / b across units: the divisor expressed in the dividend's unit is in the envelope, so
    its rounded version keeps at least 99.9 % of it and is not zero *)
Theorem env_div (x y : Qt S) :
  q_unit S y <> q_unit S x -> dec_ok (amt x) -> dec_ok (amt y) -> dfit (scale (q_unit S y)) -> dfit (scale (q_unit S x)) ->
  in_env (dval (scale (q_unit S y)) / dval (scale (q_unit S x))) ->
  Rabs (dval (amt x)) <= env_hi -> Rabs (dval (amt y)) <= env_hi ->
  in_env (dval (amt y) * (dval (scale (q_unit S y)) / dval (scale (q_unit S x)))) ->
  Rabs (dval (amt x) / (dval (amt y) * (dval (scale (q_unit S y)) / dval (scale (q_unit S x))))) <= env_hi ->
  exists r, HasRefUnit_div S x y = Ok r.
Proof.
  intros Hne Ha Hb Fv Fu Es Ba Bb [Blo Bhi] Bq.
  destruct (env_equiv_amount x y Hne Hb Fv Fu Es Bb Bhi) as (b' & Eb' & Hb' & Bd).
  destruct Es as [Slo Shi].
  set (s := dval (scale (q_unit S y)) / dval (scale (q_unit S x))) in *. set (b := dval (amt y)) in *. set (a := dval (amt x)) in *.
  set (B := b * s) in *.
  pose proof big_num as Eb. pose proof h18_lo as Eh. unfold env_lo, env_hi in *.
  (* h |b| <= |B| / 2000  and  h <= |B| / 2000 *)
  assert (Hhb : half_ulp18 * Rabs b <= Rabs B / 2000).
  { unfold B. rewrite Rabs_mult. rewrite Eh. pose proof (Rabs_pos b). unfold Rdiv. nra. }
  assert (Hh : half_ulp18 <= Rabs B / 2000) by (rewrite Eh; unfold Rdiv; lra).
  assert (Lb' : Rabs B * (999 / 1000) <= Rabs (dval b')).
  { assert (T : Rabs B <= Rabs (dval b' - B) + Rabs (dval b')).
    { replace B with ((B - dval b') + dval b') at 1 by ring. rewrite (Rabs_minus_sym (dval b') B). apply Rabs_triang. }
    lra. }
  assert (PB : 0 < Rabs B) by lra.
  assert (Hb0 : dval b' <> 0) by (intros E; rewrite E, Rabs_R0 in Lb'; lra).
  assert (Ub' : Rabs (dval b') < big).
  { replace (dval b') with ((dval b' - B) + B) by ring. eapply Rle_lt_trans; [apply Rabs_triang|]. pose proof (Rabs_pos b). nra. }
  assert (Fa : dfit (amt x)) by (apply dfit_of_bound; [exact Ha|fold a; lra]).
  assert (Fb' : dfit b') by (apply dfit_of_bound; assumption).
  rewrite (ref_div_kernel S x y), Eb'. cbn [bind a_div DEC].
  apply (dec_div_total_R _ _ Ha Hb' (proj2 Fa) (proj2 Fb') Hb0). fold a.
  assert (HB0 : B <> 0) by (intros E; rewrite E, Rabs_R0 in PB; lra).
  unfold Rdiv in Bq. rewrite Rabs_mult, Rabs_inv in Bq.
  assert (Ba' : Rabs a <= 100000000000000000 * Rabs B).
  { apply Rmult_le_reg_r with (/ Rabs B); [apply Rinv_0_lt_compat; exact PB|]. rewrite Rmult_assoc, Rinv_r by lra. lra. }
  unfold Rdiv. rewrite Rabs_mult, Rabs_inv.
  assert (Pb' : 0 < Rabs (dval b')) by lra.
  apply Rmult_lt_reg_r with (Rabs (dval b')); [exact Pb'|]. rewrite Rmult_assoc, Rinv_l by lra. nra.
Qed.

(** == and the ordering across units *)
Theorem env_cmp (x y : Qt S) :
  q_unit S x <> q_unit S y -> dec_ok (amt x) -> dec_ok (amt y) -> dec_ok (scale (q_unit S x)) -> dec_ok (scale (q_unit S y)) ->
  Rabs (dmag S x) <= env_hi -> Rabs (dmag S y) <= env_hi ->
  exists c, HasRefUnit_partial_cmp S x y = Ok (Some c) /\ HasRefUnit_eq S x y = Ok (match c with Eq => true | _ => false end).
Proof.
  intros Hne Ha Hb Hu Hv Bx By. pose proof big_num as Eb. unfold env_hi in *.
  destruct (dec_cmp_magnitude S x y Hne Ha Hb Hu Hv ltac:(lra) ltac:(lra)) as (c & _ & _ & E1 & E2 & _).
  exists c. split; assumption.
Qed.
End Instance.

(** * derived products and quotients inside the envelope *)
(** an operation of the decimal type that returns a value while its exact result is below 10^19 *)
Definition dop_total (op : dec -> dec -> res dec) (rop : R -> R -> R) (okr : dec -> Prop) : Prop :=
  forall x y, dfit x -> dfit y -> okr y -> Rabs (rop (dval x) (dval y)) < big -> exists z, op x y = Ok z.

Lemma mul_dop_total : dop_total dec_mul Rmult (fun _ => True).
Proof. intros x y [Hx _] [Hy _] _ B. apply dec_mul_total_R; assumption. Qed.
Lemma div_dop_total : dop_total dec_div Rdiv (fun y => dval y <> 0).
Proof. intros x y [Hx Cx] [Hy Cy] H0 B. apply dec_div_total_R; assumption. Qed.

Section DerivedEnv.
Context (op : dec -> dec -> res dec) (rop : R -> R -> R) (okr : dec -> Prop).
Hypothesis Hrel : dop_rel op rop okr.
Hypothesis Htot : dop_total op rop okr.
Context (R0 : QFull DEC).
Hypothesis Hfit : forall m, q_fit R0 m = HasRefUnit__fit R0 m.
Hypothesis Href : In (u_ref_unit R0) (u_iter R0).
Variables su sv a b : dec.
Hypotheses (Fu : dfit su) (Fv : dfit sv) (Fa : dfit a) (Fb : dfit b) (Okv : okr sv) (Okb : okr b).
Notation AB := (rop (dval a) (dval b)).
Notation SC := (rop (dval su) (dval sv)).
(** the combined scale, the combined amount and the result in reference units are in range ... *)
Hypothesis Bsc : Rabs SC <= env_hi.
Hypothesis Bab : Rabs AB <= env_hi.
Hypothesis Bm : Rabs (AB * SC) <= env_hi.
(** ... and so is the result expressed in any unit of the result quantity, whose scales are at least 1e-15 *)
Hypothesis Hunits : forall w, In w (u_iter R0) ->
  dfit (u_scale R0 w) /\ env_lo <= Rabs (dval (u_scale R0 w)) /\ Rabs (AB * SC / dval (u_scale R0 w)) <= env_hi.

Theorem env_derived : exists z, @derived_nf DEC op R0 su sv a b = Ok z.
Proof.
  pose proof big_num as Eb. pose proof h18_num as Eh. unfold env_lo, env_hi in *.
  unfold derived_nf.
  destruct (Htot su sv Fu Fv Okv ltac:(lra)) as [sc Esc]. rewrite Esc. cbn [bind].
  destruct (Hrel su sv sc (proj1 Fu) (proj1 Fv) Esc) as (Hsc & _ & Dsc & _).
  destruct (Htot a b Fa Fb Okb ltac:(lra)) as [t Et].
  destruct (Hrel a b t (proj1 Fa) (proj1 Fb) Et) as (Ht & _ & Dt & _).
  destruct (HasRefUnit_unit_from_scale R0 sc) as [w|]; rewrite Et; cbn [bind]; [eexists; reflexivity|].
  cbn [a_mul DEC].
  (* |t * sc| <= |AB SC| + h (|AB| + |SC|) + h^2 *)
  set (x := dval t - AB) in *. set (y := dval sc - SC) in *.
  assert (Et' : dval t = AB + x) by (unfold x; ring). assert (Esc' : dval sc = SC + y) by (unfold y; ring).
  apply Rabs_le_inv in Dt, Dsc.
  assert (Bts : Rabs (dval t * dval sc - AB * SC) <= / 5).
  { rewrite Et', Esc'. replace ((AB + x) * (SC + y) - AB * SC) with (AB * y + x * SC + x * y) by ring.
    apply Rabs_le_inv in Bab, Bsc. apply Rabs_le. rewrite Eh in *. split; nra. }
  assert (Btot : Rabs (dval t * dval sc) < big).
  { replace (dval t * dval sc) with ((dval t * dval sc - AB * SC) + AB * SC) by ring. eapply Rle_lt_trans; [apply Rabs_triang|]. lra. }
  destruct (dec_mul_total_R _ _ Ht Hsc Btot) as [m Em]. rewrite Em. cbn [bind].
  destruct (dec_mul_acc _ _ _ Ht Hsc Em) as (Hm & Dm & _).
  assert (Bmm : Rabs (dval m - AB * SC) <= / 4).
  { replace (dval m - AB * SC) with ((dval m - dval t * dval sc) + (dval t * dval sc - AB * SC)) by ring.
    eapply Rle_trans; [apply Rabs_triang|]. rewrite Eh in Dm. lra. }
  rewrite Hfit, fit_spec. destruct (fit_unit_total R0 Href m) as [w Ew]. rewrite Ew. cbn [a_div DEC].
  destruct (fit_unit_in_registry R0 m w Ew) as [_ Hin]. destruct (Hunits w Hin) as ([Hw Cw] & Lw & Bw).
  assert (Pw : 0 < Rabs (dval (u_scale R0 w))) by lra.
  assert (Hw0 : dval (u_scale R0 w) <> 0) by (intros E0; rewrite E0, Rabs_R0 in Pw; lra).
  assert (Fm : dfit m).
  { apply dfit_of_bound; [exact Hm|]. replace (dval m) with ((dval m - AB * SC) + AB * SC) by ring. eapply Rle_lt_trans; [apply Rabs_triang|]. lra. }
  assert (Bq : Rabs (dval m / dval (u_scale R0 w)) < big).
  { replace (dval m / dval (u_scale R0 w)) with ((dval m - AB * SC) / dval (u_scale R0 w) + AB * SC / dval (u_scale R0 w)) by (field; exact Hw0).
    eapply Rle_lt_trans; [apply Rabs_triang|].
    assert (Rabs ((dval m - AB * SC) / dval (u_scale R0 w)) <= / 4 * 1000000000000000).
    { unfold Rdiv. rewrite Rabs_mult, Rabs_inv. apply Rmult_le_compat; [apply Rabs_pos|apply Rlt_le, Rinv_0_lt_compat; exact Pw|exact Bmm|].
      rewrite <- (Rinv_inv 1000000000000000). apply Rinv_le_contravar; [lra|exact Lw]. }
    lra. }
  destruct (dec_div_total_R _ _ Hm Hw (proj2 Fm) Cw Hw0 Bq) as [q Eq]. rewrite Eq. cbn [bind]. eexists; reflexivity.
Qed.
End DerivedEnv.

(** * rate operations inside the envelope: after the ratio value / (1 unit) (a cross-unit
      division, [env_div]) one division and one multiplication *)
Lemma env_div_then_mul (x1 p t : dec) :
  dfit x1 -> dfit p -> dec_ok t -> dval p <> 0 ->
  Rabs (dval x1 / dval p) <= env_hi -> Rabs (dval t) <= env_hi -> Rabs (dval t * (dval x1 / dval p)) <= env_hi ->
  exists x2 x3, dec_div x1 p = Ok x2 /\ dec_mul x2 t = Ok x3.
Proof.
  intros [H1 C1] [Hp Cp] Ht Hp0 B1 Bt B3. pose proof big_num as Eb. pose proof h18_num as Eh. unfold env_hi in *.
  destruct (dec_div_total_R _ _ H1 Hp C1 Cp Hp0 ltac:(lra)) as [x2 E2].
  destruct (dec_div_acc _ _ _ H1 Hp E2) as (H2 & _ & D2).
  assert (B : Rabs (dval x2 * dval t) < big).
  { replace (dval x2 * dval t) with ((dval x2 - dval x1 / dval p) * dval t + dval t * (dval x1 / dval p)) by ring.
    eapply Rle_lt_trans; [apply Rabs_triang|]. rewrite Rabs_mult. pose proof (Rabs_pos (dval t)). rewrite Eh in D2. nra. }
  destruct (dec_mul_total_R _ _ H2 Ht B) as [x3 E3]. exists x2, x3. split; assumption.
Qed.

Theorem env_rate_mul (TQ : QBase DEC) (PQ : QFull DEC) (r : rate DEC) (q : Qt PQ) (x1 : dec) :
  q_div PQ q (q_new PQ (a_one DEC) (rt_per_unit r)) = Ok x1 ->
  dfit x1 -> dfit (rt_per_unit_multiple r) -> dec_ok (rt_term_amount r) -> dval (rt_per_unit_multiple r) <> 0 ->
  Rabs (dval x1 / dval (rt_per_unit_multiple r)) <= env_hi -> Rabs (dval (rt_term_amount r)) <= env_hi ->
  Rabs (dval (rt_term_amount r) * (dval x1 / dval (rt_per_unit_multiple r))) <= env_hi ->
  exists y, Rate_mul TQ PQ r q = Ok y /\ tmpl_Mul_Qty_Rate PQ TQ q r = Ok y.
Proof.
  intros E1 F1 Fp Ht Hp0 B1 Bt B3. destruct (Proofs.C13.rate_mul_kernel TQ PQ r q) as [-> ->].
  unfold Proofs.C13.rate_mul_nf. rewrite E1. cbn [bind a_div a_mul DEC].
  destruct (env_div_then_mul x1 _ _ F1 Fp Ht Hp0 B1 Bt B3) as (x2 & x3 & -> & E3). cbn [bind]. rewrite E3. cbn [bind].
  eexists. split; reflexivity.
Qed.

Theorem env_qty_div_rate (TQ : QFull DEC) (PQ : QBase DEC) (q : Qt TQ) (r : rate DEC) (x1 : dec) :
  q_div TQ q (q_new TQ (a_one DEC) (rt_term_unit r)) = Ok x1 ->
  dfit x1 -> dfit (rt_term_amount r) -> dec_ok (rt_per_unit_multiple r) -> dval (rt_term_amount r) <> 0 ->
  Rabs (dval x1 / dval (rt_term_amount r)) <= env_hi -> Rabs (dval (rt_per_unit_multiple r)) <= env_hi ->
  Rabs (dval (rt_per_unit_multiple r) * (dval x1 / dval (rt_term_amount r))) <= env_hi ->
  exists y, tmpl_Div_Qty_Rate TQ PQ q r = Ok y.
Proof.
  intros E1 F1 Ft Hp Ht0 B1 Bp B3. rewrite (Proofs.C13.qty_div_rate_kernel TQ PQ q r).
  unfold Proofs.C13.qty_div_rate_nf. rewrite E1. cbn [bind a_div a_mul DEC].
  destruct (env_div_then_mul x1 _ _ F1 Ft Hp Ht0 B1 Bp B3) as (x2 & x3 & -> & E3). cbn [bind]. rewrite E3. cbn [bind].
  eexists. reflexivity.
Qed.
