(* Proofs/C01.v — unit conversion (property C01), structural part: which unit
   the result carries, when nothing is computed, and which amount operations
   are applied to which operands.  Generic in the amount type and instance. *)
From Coq Require Import Lia.
From QV Require Import Rt.Prelude Rt.Amount Rt.Quantity Macro.Defs Gen.Prefixes Gen.Catalogue
  Gen.Kernels Macro.Inst Proofs.Laws Proofs.Kernel Proofs.Instances.

Section C01.
Context {am : Amount} (S : QBase am).

Lemma c01_convert_unit (L : QLaws S) q v q' :
  In v (u_iter S) -> HasRefUnit_convert S q v = Ok q' -> q_unit S q' = v.
Proof. apply convert_unit; exact L. Qed.

Lemma c01_convert_same_unit (L : QLaws S) q : HasRefUnit_convert S q (q_unit S q) = Ok q.
Proof. rewrite convert_same, (law_new_eta S L). reflexivity. Qed.

Lemma c01_equiv_same_unit q : HasRefUnit_equiv_amount S q (q_unit S q) = Ok (q_amount S q).
Proof. apply equiv_amount_same. Qed.

Lemma c01_equiv_is_convert (L : QLaws S) q v :
  (forall q', HasRefUnit_convert S q v = Ok q' -> HasRefUnit_equiv_amount S q v = Ok (q_amount S q')) /\
  (forall x, HasRefUnit_equiv_amount S q v = Ok x -> HasRefUnit_convert S q v = Ok (q_new S x v)) /\
  (forall k, HasRefUnit_equiv_amount S q v = Panic k <-> HasRefUnit_convert S q v = Panic k).
Proof.
  split; [|split].
  - intros q'. apply convert_amount_is_equiv_amount; exact L.
  - intros x H. rewrite convert_is_equiv_amount, H. reflexivity.
  - intros k. rewrite convert_is_equiv_amount. destruct (HasRefUnit_equiv_amount S q v); cbn; split; congruence.
Qed.

Lemma c01_convert_kernel q v : q_unit S q <> v ->
  HasRefUnit_convert S q v =
  bind (a_div am (u_scale S (q_unit S q)) (u_scale S v)) (fun r =>
  bind (a_mul am r (q_amount S q)) (fun m => Ok (q_new S m v))).
Proof. apply convert_kernel. Qed.
End C01.

Lemma c01_dimensionless (am : Amount) (a : am) :
  HasRefUnit_convert (amount_base am) a 0 = Ok a /\ HasRefUnit_equiv_amount (amount_base am) a 0 = Ok a.
Proof. split; reflexivity. Qed.

(** the types this applies to in the current tree: everything generated on the
    reference-unit path uses the translated default methods *)
Definition ref_entries : list (cat_entry SIPrefix) :=
  List.filter (fun e => match gd_path (ce_gen e) with PRef => true | _ => false end) all_entries.

Lemma ref_entries_count : (20 <=? List.length ref_entries)%nat = true.
Proof. vm_compute. reflexivity. Qed.

Lemma ref_entry_laws (am : Amount) e : In e ref_entries -> QLaws (base_of_gen am (ce_gen e)).
Proof. intros H. apply entry_laws. unfold ref_entries in H. apply filter_In in H. tauto. Qed.
