(* Proofs/C18.v — totality (property C18).  Part 1: for an amount type whose
   four operations never panic (binary64) NO conversion, comparison,
   arithmetic, derived, rate or table operation on quantities with a reference
   unit panics, whatever the amounts; the only panic sources of the model are
   (i) amount operations, (ii) the unwrap in _fit (excluded: the reference unit
   is always eligible), (iii) the documented unit guard of Quantity::add/sub/div
   (not on the reference-unit path). *)
From Coq Require Import Lia.
From QV Require Import Rt.Prelude Rt.Amount Rt.Quantity Macro.Defs Gen.Prefixes Gen.Catalogue
  Gen.Kernels Macro.Inst Amount.F64 Proofs.Laws Proofs.Kernel Proofs.Instances Proofs.C09 Proofs.Derived Proofs.DerivedCat Proofs.C13 Proofs.C14.

Record AmountTotal (am : Amount) : Prop := {
  at_add : forall x y, exists z, a_add am x y = Ok z;
  at_sub : forall x y, exists z, a_sub am x y = Ok z;
  at_mul : forall x y, exists z, a_mul am x y = Ok z;
  at_div : forall x y, exists z, a_div am x y = Ok z
}.

Lemma f64_total : AmountTotal F64.
Proof. split; intros x y; eexists; reflexivity. Qed.

Definition total {T} (r : res T) : Prop := exists x, r = Ok x.

Lemma total_bind {T R} (m : res T) (f : T -> res R) : total m -> (forall x, total (f x)) -> total (bind m f).
Proof. intros [x ->] H. exact (H x). Qed.

Lemma total_ok {T} (x : T) : total (Ok x).
Proof. exists x. reflexivity. Qed.

Section Total.
Context {am : Amount} (AT : AmountTotal am).

(** structure-agnostic: follows whatever nesting of bind / let / if / match the
    translated function has, so that a behaviour-preserving rewrite of the source
    (an extra let, swapped branches, ...) does not break these proofs *)
Ltac tot_with extra :=
  repeat first
    [ apply total_ok
    | apply (at_add am AT) | apply (at_sub am AT) | apply (at_mul am AT) | apply (at_div am AT)
    | extra
    | apply total_bind; [|intros ?]
    | progress cbv zeta
    | match goal with |- total (if ?b then _ else _) => destruct b end
    | match goal with |- total (match ?o with Some _ => _ | None => _ end) => destruct o end
    | match goal with |- total (let '(_, _) := ?p in _) => destruct p end ].
Ltac tot := tot_with fail.

Lemma tot_add x y : total (a_add am x y). Proof. apply (at_add am AT). Qed.
Lemma tot_sub x y : total (a_sub am x y). Proof. apply (at_sub am AT). Qed.
Lemma tot_mul x y : total (a_mul am x y). Proof. apply (at_mul am AT). Qed.
Lemma tot_div x y : total (a_div am x y). Proof. apply (at_div am AT). Qed.

Section Ref.
Context (S : QBase am).

Lemma total_equiv_amount q v : total (HasRefUnit_equiv_amount S q v).
Proof.
  unfold HasRefUnit_equiv_amount, LinearScaledUnit_ratio. tot.
Qed.

Lemma total_convert q v : total (HasRefUnit_convert S q v).
Proof. unfold HasRefUnit_convert. tot_with ltac:(apply total_equiv_amount). Qed.

Lemma total_eq x y : total (HasRefUnit_eq S x y).
Proof.
  unfold HasRefUnit_eq. tot.
Qed.

Lemma total_partial_cmp x y : total (HasRefUnit_partial_cmp S x y).
Proof.
  unfold HasRefUnit_partial_cmp. tot.
Qed.

Lemma total_add x y : total (HasRefUnit_add S x y).
Proof.
  unfold HasRefUnit_add. tot_with ltac:(apply total_equiv_amount).
Qed.

Lemma total_sub x y : total (HasRefUnit_sub S x y).
Proof.
  unfold HasRefUnit_sub. tot_with ltac:(apply total_equiv_amount).
Qed.

Lemma total_div x y : total (HasRefUnit_div S x y).
Proof. unfold HasRefUnit_div. tot_with ltac:(apply total_equiv_amount). Qed.

(** _fit: the unwrap cannot fail because the reference unit is eligible *)
Lemma total_fit : In (u_ref_unit S) (u_iter S) -> forall m, total (HasRefUnit__fit S m).
Proof.
  intros Hin m. rewrite fit_spec. destruct (fit_unit_total S Hin m) as [w ->].
  apply total_bind; [apply tot_div|intros; apply total_ok].
Qed.

Lemma total_table rows q to : total (ConversionTable_convert S rows q to).
Proof.
  rewrite convert_table_spec. destruct (Nat.eqb _ _); [apply total_ok|].
  destruct (first_row rows (q_unit S q) to) as [[k c]|]; [|apply total_ok].
  unfold affine. tot.
Qed.
End Ref.

(** derived products / quotients into a result type whose _fit is total *)
Lemma total_derived (op : am -> am -> res am) (R : QFull am) su sv a b :
  (forall x y, total (op x y)) -> (forall m, total (q_fit R m)) -> total (derived_nf op R su sv a b).
Proof.
  intros Hop Hfit. unfold derived_nf. apply total_bind; [apply Hop|intros sc].
  destruct (HasRefUnit_unit_from_scale R sc).
  - apply total_bind; [apply Hop|intros; apply total_ok].
  - apply total_bind; [apply Hop|intros]. apply total_bind; [apply tot_mul|intros; apply Hfit].
Qed.

(** rates over a per / term quantity whose own Div<Self> is total *)
Lemma total_rate_mul (TQ : QBase am) (PQ : QFull am) r q :
  (forall x y, total (q_div PQ x y)) -> total (Rate_mul TQ PQ r q) /\ total (tmpl_Mul_Qty_Rate PQ TQ q r).
Proof.
  intros Hd. destruct (rate_mul_kernel TQ PQ r q) as [-> ->]. unfold rate_mul_nf.
  assert (total (bind (q_div PQ q (q_new PQ (a_one am) (rt_per_unit r)))
     (fun x1 => bind (a_div am x1 (rt_per_unit_multiple r)) (fun x2 => bind (a_mul am x2 (rt_term_amount r)) (fun x3 => Ok (q_new TQ x3 (rt_term_unit r))))))).
  { apply total_bind; [apply Hd|intros]. apply total_bind; [apply tot_div|intros]. apply total_bind; [apply tot_mul|intros; apply total_ok]. }
  split; assumption.
Qed.

Lemma total_qty_div_rate (TQ : QFull am) (PQ : QBase am) q r :
  (forall x y, total (q_div TQ x y)) -> total (tmpl_Div_Qty_Rate TQ PQ q r).
Proof.
  intros Hd. rewrite qty_div_rate_kernel. unfold qty_div_rate_nf.
  apply total_bind; [apply Hd|intros]. apply total_bind; [apply tot_div|intros]. apply total_bind; [apply tot_mul|intros; apply total_ok].
Qed.

(** scalar operators and the operators of a generated reference-unit type *)
Lemma total_scalar (S : QBase am) k q :
  total (tmpl_Mul_Amnt_Qty S k q) /\ total (tmpl_Mul_Qty_Amnt S q k) /\ total (tmpl_Div_Qty_Amnt S q k).
Proof.
  unfold tmpl_Mul_Amnt_Qty, tmpl_Mul_Qty_Amnt, tmpl_Div_Qty_Amnt.
  repeat split; tot.
Qed.

Lemma total_operators (g : gen_def SIPrefix) : gd_path g = PRef ->
  In (gen_ref g) (gen_iter g) ->
  forall (x y : Qt (base_of_gen am g)) (m : am),
  total (q_eq (full_of_gen am g) x y) /\ total (q_partial_cmp (full_of_gen am g) x y) /\
  total (q_add (full_of_gen am g) x y) /\ total (q_sub (full_of_gen am g) x y) /\
  total (q_div (full_of_gen am g) x y) /\ total (q_fit (full_of_gen am g) m).
Proof.
  intros Hp Hin x y m. cbn [q_eq q_partial_cmp q_add q_sub q_div q_fit full_of_gen]. rewrite Hp.
  repeat split; [apply total_eq|apply total_partial_cmp|apply total_add|apply total_sub|apply total_div|].
  apply total_fit. revert Hin. unfold base_of_gen. rewrite Hp. cbn. exact (fun H => H).
Qed.
End Total.

(** the reference unit of every reference-unit type of the tree is iterated *)
Definition ref_iterated (e : cat_entry SIPrefix) : bool :=
  match gd_path (ce_gen e) with
  | PRef => existsb (Nat.eqb (gen_ref (ce_gen e))) (gen_iter (ce_gen e))
  | _ => true
  end.
Lemma all_ref_iterated : forallb ref_iterated all_entries = true.
Proof. vm_compute. reflexivity. Qed.
