(* Proofs/C06.v — dimensional type safety (property C06).  What decides
   typability is rustc's trait resolution over the impls in scope; the
   repository's contribution is WHICH impls the macro emits.  The model is the
   impl table regenerated from the actual expansion of every definition of the
   main crate; [typechecks] looks an operator application up in it, [meaningful]
   is the specification written from the property text over the DECLARED
   derivations.  All 15 x 15 x 6 = 1350 programs are decided by the kernel. *)
From Coq Require Import Lia String.
From QV Require Import Rt.Prelude Macro.Defs Macro.Impls Gen.Prefixes Gen.Catalogue Proofs.Instances Proofs.DerivedCat Spec.Dimensions.
Local Open Scope string_scope.

Inductive binop := OAdd | OSub | OMul | ODiv | OEq | OLt.
Definition all_ops : list binop := [OAdd; OSub; OMul; ODiv; OEq; OLt].
Definition trait_of (o : binop) : ustring :=
  match o with OAdd => us "Add" | OSub => us "Sub" | OMul => us "Mul" | ODiv => us "Div" | OEq => us "PartialEq" | OLt => us "PartialOrd" end.

Definition bool_t : ustring := us "bool".

(** the value types of the main crate: the 14 quantities and the bare amount *)
Definition main_types : list ustring := amount_t :: map (fun e => gd_qty (ce_gen e)) catalogue_main.

Definition main_rows : list impl_row := flat_map (fun e => gd_impls (ce_gen e)) catalogue_main.

(** impls of the primitive amount type (core): AmountT op AmountT *)
Definition prim_typechecks (o : binop) : ustring :=
  match o with OEq | OLt => bool_t | _ => amount_t end.

(** result type of [l op r], or None if no impl applies.  PartialOrd is
    implemented without a type argument (Rhs = Self). *)
Definition row_applies (o : binop) (l r : ustring) (row : impl_row) : bool :=
  ustr_eqb (ir_trait row) (trait_of o) && ustr_eqb (ir_self row) l &&
  match o with
  | OLt => (match ir_rhs row with [] => ustr_eqb l r | x => ustr_eqb x r end)
  | _ => ustr_eqb (ir_rhs row) r
  end.

Definition typechecks (o : binop) (l r : ustring) : option ustring :=
  if ustr_eqb l amount_t && ustr_eqb r amount_t then Some (prim_typechecks o)
  else match List.filter (row_applies o l r) main_rows with
       | [row] => Some (match o with OEq | OLt => bool_t | _ => ir_output row end)
       | [] => None
       | _ => Some (us "AMBIGUOUS")        (* two impls for one (trait, Self, Rhs): rejected by rustc's coherence check *)
       end.

(** * the specification, from the declarations *)
Definition declared : list (ustring * derivation) :=
  map (fun e => (gd_qty (ce_gen e), derivation_of e)) catalogue_main.

Definition is_qty (t : ustring) : bool := existsb (fun e => ustr_eqb (gd_qty (ce_gen e)) t) catalogue_main.

(** products: A*B, B*A -> R for R = A x B ; R*B, B*R -> A for R = A / B *)
Definition mul_result (l r : ustring) : list ustring :=
  flat_map (fun '(q, d) =>
    match d with
    | DMul a b => if (ustr_eqb l a && ustr_eqb r b) || (ustr_eqb l b && ustr_eqb r a) then [q] else []
    | DDiv a b => if (ustr_eqb l q && ustr_eqb r b) || (ustr_eqb l b && ustr_eqb r q) then [a] else []
    | _ => []
    end) declared.

(** quotients: R/A -> B, R/B -> A for R = A x B ; A/B -> R, A/R -> B for R = A / B *)
Definition div_result (l r : ustring) : list ustring :=
  flat_map (fun '(q, d) =>
    match d with
    | DMul a b => ((if ustr_eqb l q && ustr_eqb r a then [b] else []) ++
                   (if ustr_eqb l q && ustr_eqb r b && negb (ustr_eqb a b) then [a] else []))%list
    | DDiv a b => ((if ustr_eqb l a && ustr_eqb r b then [q] else []) ++ (if ustr_eqb l a && ustr_eqb r q then [b] else []))%list
    | _ => []
    end) declared.

Definition meaningful (o : binop) (l r : ustring) : option ustring :=
  match o with
  | OAdd | OSub => if ustr_eqb l r then Some l else None
  | OEq | OLt => if ustr_eqb l r then Some bool_t else None
  | OMul =>
      if ustr_eqb l amount_t && ustr_eqb r amount_t then Some amount_t
      else if ustr_eqb l amount_t && is_qty r then Some r          (* number x quantity *)
      else if is_qty l && ustr_eqb r amount_t then Some l
      else match mul_result l r with [t] => Some t | _ => None end
  | ODiv =>
      if ustr_eqb l r then Some amount_t                            (* ratio of like quantities *)
      else if is_qty l && ustr_eqb r amount_t then Some l          (* quantity / number *)
      else match div_result l r with [t] => Some t | _ => None end
  end.

Definition opt_ustr_eqb (a b : option ustring) : bool :=
  match a, b with Some x, Some y => ustr_eqb x y | None, None => true | _, _ => false end.

Definition all_programs : list (binop * ustring * ustring) :=
  flat_map (fun o => flat_map (fun l => map (fun r => (o, l, r)) main_types) main_types) all_ops.

Definition type_safe : bool :=
  forallb (fun '(o, l, r) => opt_ustr_eqb (typechecks o l r) (meaningful o l r)) all_programs.

Lemma type_safety : type_safe = true.
Proof. vm_compute. reflexivity. Qed.

Lemma n_programs : List.length all_programs = 1350.
Proof. vm_compute. reflexivity. Qed.

Lemma type_safety_forall o l r : In l main_types -> In r main_types ->
  typechecks o l r = None <-> meaningful o l r = None.
Proof.
  intros Hl Hr. pose proof type_safety as H. unfold type_safe in H. rewrite forallb_forall in H.
  assert (Hin : In (o, l, r) all_programs).
  { unfold all_programs. apply in_flat_map. exists o. split; [destruct o; cbn; tauto|].
    apply in_flat_map. exists l. split; [exact Hl|]. apply in_map. exact Hr. }
  specialize (H _ Hin). cbn in H. destruct (typechecks o l r), (meaningful o l r); cbn in H; split; congruence.
Qed.

(** * coherence: never two impls for one (trait, Self, Rhs) among the value types *)
Definition coherent : bool :=
  forallb (fun '(o, l, r) => Nat.leb (List.length (List.filter (row_applies o l r) main_rows)) 1) all_programs.
Lemma coherence : coherent = true.
Proof. vm_compute. reflexivity. Qed.

(** * dimensional soundness against the independent dimension table *)
Definition opt_eqb_dim (a b : option dim) : bool :=
  match a, b with Some x, Some y => dim_eqb x y | _, _ => false end.

Definition dim_ok (o : binop) (l r : ustring) : bool :=
  match typechecks o l r, dim_of l, dim_of r with
  | None, _, _ => true
  | Some t, Some dl, Some dr =>
      match o with
      | OAdd | OSub => dim_eqb dl dr && opt_eqb_dim (dim_of t) (Some dl)
      | OEq | OLt => dim_eqb dl dr
      | OMul => opt_eqb_dim (dim_of t) (Some (dim_add dl dr))
      | ODiv => opt_eqb_dim (dim_of t) (Some (dim_sub dl dr))
      end
  | Some _, _, _ => false
  end.

Definition dimensionally_sound : bool := forallb (fun '(o, l, r) => dim_ok o l r) all_programs.
Lemma dimensional_soundness : dimensionally_sound = true.
Proof. vm_compute. reflexivity. Qed.

(** how many of the 1350 programs are accepted *)
Definition n_accepted : nat :=
  List.length (List.filter (fun '(o, l, r) => match typechecks o l r with Some _ => true | None => false end) all_programs).
