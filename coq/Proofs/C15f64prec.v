(* Proofs/C15f64prec.v — property C15, binary64 under a precision p: the digits
   Display prints are those of  round-half-even (m * 2^e * 10^p)  (exact for
   e >= 0), laid out with exactly p fractional digits; reading the text back
   gives the double nearest to that integer / 10^p. *)
From Coq Require Import ZArith NArith List Bool Lia.
From Coq Require Import Floats.SpecFloat.
From Flocq Require Import IEEE754.BinarySingleNaN IEEE754.Binary IEEE754.Bits.
From QV Require Import Rt.Prelude Rt.Fmt Proofs.C15f64 Proofs.C15f64exp.
Import ListNotations.
Local Open Scope Z_scope.

Lemma round_half_even_div_spec a b : 0 < b -> 2 * Z.abs (round_half_even_div a b * b - a) <= b.
Proof.
  intros Hb. unfold round_half_even_div.
  pose proof (Z_div_mod a b ltac:(lia)) as H. destruct (Z.div_eucl a b) as [q r]. destruct H as [E R].
  destruct (Z.compare_spec (2 * r) b) as [C|C|C].
  - destruct (Z.even q); nia.
  - nia.
  - nia.
Qed.

Lemma round_half_even_div_nonneg a b : 0 <= a -> 0 < b -> 0 <= round_half_even_div a b.
Proof.
  intros Ha Hb. unfold round_half_even_div.
  pose proof (Z_div_mod a b ltac:(lia)) as H. destruct (Z.div_eucl a b) as [q r]. destruct H as [E R].
  assert (0 <= q) by nia.
  destruct (2 * r ?= b); [destruct (Z.even q)|..]; lia.
Qed.

(** the integer whose digits are printed: m * 2^e * 10^p rounded half-to-even *)
Definition f64_scaled (m : positive) (e : Z) (p : N) : Z :=
  if 0 <=? e then Zpos m * 2 ^ e * 10 ^ Z.of_N p
  else round_half_even_div (Zpos m * 10 ^ Z.of_N p) (2 ^ (- e)).

Lemma f64_scaled_nonneg m e p : 0 <= f64_scaled m e p.
Proof.
  unfold f64_scaled. destruct (Z.leb_spec 0 e) as [He|He].
  - pose proof (Z.pow_nonneg 2 e ltac:(lia)). pose proof (Z.pow_nonneg 10 (Z.of_N p) ltac:(lia)). nia.
  - apply round_half_even_div_nonneg; [pose proof (Z.pow_nonneg 10 (Z.of_N p) ltac:(lia)); nia|apply Z.pow_pos_nonneg; lia].
Qed.

(** correct rounding: exact for e >= 0, within half a unit of the last printed digit otherwise *)
Theorem f64_scaled_rounded m e p :
  (0 <= e -> f64_scaled m e p = Zpos m * 2 ^ e * 10 ^ Z.of_N p) /\
  (e < 0 -> 2 * Z.abs (f64_scaled m e p * 2 ^ (- e) - Zpos m * 10 ^ Z.of_N p) <= 2 ^ (- e)).
Proof.
  unfold f64_scaled. split; intros He.
  - destruct (Z.leb_spec 0 e); [reflexivity|lia].
  - destruct (Z.leb_spec 0 e); [lia|]. apply round_half_even_div_spec. apply Z.pow_pos_nonneg; lia.
Qed.

Lemma to_digits_nonpos n : n <= 0 -> to_digits n = [].
Proof. destruct n; [reflexivity|lia|reflexivity]. Qed.

(** the digits and the position of the decimal point *)
Theorem f64_digits_exact_spec m e p :
  let '(ds, k) := f64_digits_exact m e p in
  digits_val ds = f64_scaled m e p /\ Forall le9 ds /\ k = Z.of_nat (length ds) - Z.of_N p /\
  (ds = [] <-> f64_scaled m e p = 0).
Proof.
  unfold f64_digits_exact. fold (f64_scaled m e p). pose proof (f64_scaled_nonneg m e p) as Hn.
  destruct (f64_scaled m e p) as [|q|q] eqn:E; [| |lia].
  - cbn [to_digits length Z.of_nat]. split; [reflexivity|]. split; [constructor|]. split; [reflexivity|]. split; reflexivity.
  - destruct (to_digits_spec q) as (V & F & Hne). split; [exact V|]. split; [exact F|]. split; [reflexivity|].
    split; [intros H; contradiction|discriminate].
Qed.

(** with exactly p fractional digits requested, no padding zeros are added *)
Lemma digits_to_dec_str_exact ds (p : N) : ds <> [] ->
  digits_to_dec_str ds (Z.of_nat (length ds) - Z.of_N p) p = digits_to_dec_str ds (Z.of_nat (length ds) - Z.of_N p) 0.
Proof.
  intros Hne. unfold digits_to_dec_str. set (n := Z.of_nat (length ds)). set (pz := Z.of_N p). change (Z.of_N 0) with 0.
  assert (Hn : 0 < n) by (unfold n; destruct ds; [congruence|cbn [length]; lia]).
  assert (Hp : 0 <= pz) by (unfold pz; lia).
  assert (Z0 : forall z, z <= 0 -> zeros z = []) by (intros z Hz; unfold zeros; destruct z; try reflexivity; lia).
  destruct (Z.leb_spec (n - pz) 0) as [H1|H1].
  - rewrite (Z0 (pz - n - - (n - pz))) by lia. rewrite (Z0 (0 - n - - (n - pz))) by lia. reflexivity.
  - destruct (Z.ltb_spec (n - pz) n) as [H2|H2].
    + rewrite (Z0 (pz - (n - (n - pz)))) by lia. rewrite (Z0 (0 - (n - (n - pz)))) by lia. reflexivity.
    + assert (pz = 0) by lia. destruct (Z.ltb_spec 0 pz); [lia|]. reflexivity.
Qed.

(** the text of a finite double under precision p reads back as the double nearest to scaled / 10^p *)
Theorem f64_precision_text (s : bool) m e (H : SpecFloat.bounded 53 1024 m e = true) (p : N) :
  f64_scaled m e p <> 0 ->
  parse_unsigned_sf (f64_body (Some p) (B754_finite 53 1024 s m e H)) = Some (round_ratio (f64_scaled m e p) (10 ^ Z.of_N p)).
Proof.
  intros Hnz. cbn [f64_body]. pose proof (f64_digits_exact_spec m e p) as S.
  destruct (f64_digits_exact m e p) as [ds k]. destruct S as (V & F & Ek & Hz).
  assert (Hne : ds <> []) by (intros E0; apply Hnz; apply Hz; exact E0).
  destruct ds as [|d0 ds0] eqn:Eds; [congruence|]. rewrite <- Eds in *.
  rewrite Ek, (digits_to_dec_str_exact ds p Hne), (layout ds _ F Hne), V.
  set (n := Z.of_nat (length ds)). destruct (Z.ltb_spec (n - Z.of_N p) n) as [H1|H1].
  - replace (n - (n - Z.of_N p)) with (Z.of_N p) by ring. reflexivity.
  - assert (E0 : Z.of_N p = 0) by lia. rewrite E0. replace (n - 0 - n) with 0 by ring. rewrite Z.pow_0_r, Z.mul_1_r. reflexivity.
Qed.

(** a value that rounds to zero at this precision prints as 0 / 0.00..0 *)
Theorem f64_precision_text_zero (s : bool) m e (H : SpecFloat.bounded 53 1024 m e = true) (p : N) :
  f64_scaled m e p = 0 -> f64_body (Some p) (B754_finite 53 1024 s m e H) = zero_text p.
Proof.
  intros Hz0. cbn [f64_body]. pose proof (f64_digits_exact_spec m e p) as S.
  destruct (f64_digits_exact m e p) as [ds k]. destruct S as (_ & _ & _ & Hz).
  destruct ds; [reflexivity|]. exfalso. destruct Hz as [_ Hz]. specialize (Hz Hz0). discriminate.
Qed.

Print Assumptions f64_precision_text.
Print Assumptions f64_scaled_rounded.
