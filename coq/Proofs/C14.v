(* Proofs/C14.v — table-driven conversions (property C14). *)
From Coq Require Import Lia QArith Qabs.
From QV Require Import Rt.Prelude Rt.Amount Rt.Quantity Macro.Defs Gen.Prefixes Gen.Catalogue Gen.TempTable
  Gen.Kernels Macro.Inst Proofs.Laws Proofs.Kernel Proofs.Instances Spec.Temperature Macro.TempInst.
Local Close Scope Q_scope.

(** * The generic converter: first entry for the (from, to) pair *)
Section Table.
Context {am : Amount} (S : QBase am).
Notation row := (nat * nat * A am * A am)%type.

Fixpoint first_row (rows : list row) (f t : nat) : option (A am * A am) :=
  match rows with
  | [] => None
  | (f', t', k, c) :: r => if Nat.eqb f' f && Nat.eqb t' t then Some (k, c) else first_row r f t
  end.

Definition affine (q : Qt S) (to : nat) (kc : A am * A am) : res (option (Qt S)) :=
  bind (a_mul am (q_amount S q) (fst kc)) (fun m =>
  bind (a_add am m (snd kc)) (fun s => Ok (Some (q_new S s to)))).

Lemma convert_table_spec (rows : list row) (q : Qt S) (to : nat) :
  ConversionTable_convert S rows q to =
  if Nat.eqb (q_unit S q) to then Ok (Some q)
  else match first_row rows (q_unit S q) to with
       | Some kc => affine q to kc
       | None => Ok None
       end.
Proof.
  unfold ConversionTable_convert. destruct (Nat.eqb (q_unit S q) to); [reflexivity|].
  induction rows as [|[[[f t] k] c] r IH]; cbn [iter_find_map_res first_row]; [reflexivity|].
  destruct (Nat.eqb f (q_unit S q) && Nat.eqb t to)%bool.
  - unfold affine. cbn [fst snd]. rewrite ?bind_assoc.
    destruct (a_mul am (q_amount S q) k) as [m|]; cbn [bind]; [|reflexivity].
    destruct (a_add am m c) as [s|]; cbn [bind]; reflexivity.
  - cbn [bind]. exact IH.
Qed.

(** consequences spelled out *)
Lemma convert_table_same_unit rows q : ConversionTable_convert S rows q (q_unit S q) = Ok (Some q).
Proof. rewrite convert_table_spec, Nat_eqb_refl. reflexivity. Qed.

Lemma first_row_none rows f t :
  first_row rows f t = None <-> forall f' t' k c, In (f', t', k, c) rows -> ~ (f' = f /\ t' = t).
Proof.
  induction rows as [|[[[f0 t0] k0] c0] r IH]; cbn [first_row].
  - split; [intros _ f' t' k c []|reflexivity].
  - destruct (Nat.eqb f0 f && Nat.eqb t0 t)%bool eqn:E.
    + split; [discriminate|]. intros H. exfalso. apply andb_true_iff in E as [E1 E2].
      apply PeanoNat.Nat.eqb_eq in E1, E2. apply (H f0 t0 k0 c0); [left; reflexivity|split; assumption].
    + rewrite IH. split.
      * intros H f' t' k c [[= <- <- <- <-]|Hin]; [|exact (H f' t' k c Hin)].
        intros [-> ->]. rewrite !Nat_eqb_refl in E. discriminate.
      * intros H f' t' k c Hin. apply (H f' t' k c). right. exact Hin.
Qed.

Lemma first_row_some rows f t k c :
  first_row rows f t = Some (k, c) ->
  exists r1 r2, rows = r1 ++ (f, t, k, c) :: r2 /\ forall f' t' k' c', In (f', t', k', c') r1 -> ~ (f' = f /\ t' = t).
Proof.
  induction rows as [|[[[f0 t0] k0] c0] r IH]; cbn [first_row]; [discriminate|].
  destruct (Nat.eqb f0 f && Nat.eqb t0 t)%bool eqn:E.
  - intros [= <- <-]. apply andb_true_iff in E as [E1 E2]. apply PeanoNat.Nat.eqb_eq in E1, E2. subst.
    exists [], r. split; [reflexivity|]. intros ? ? ? ? [].
  - intros H. destruct (IH H) as (r1 & r2 & -> & Hn). exists ((f0, t0, k0, c0) :: r1), r2. split; [reflexivity|].
    intros f' t' k' c' [[= <- <- <- <-]|Hin]; [|exact (Hn f' t' k' c' Hin)].
    intros [-> ->]. rewrite !Nat_eqb_refl in E. discriminate.
Qed.
End Table.

Definition lit_Q (l : lit) : Q :=
  let '(n, d) := lit_Q_num_den l in Qmake n (Z.to_pos d).

(** |x - y| <= 1/2 * 10^-18 *)
Definition Q_close (x y : Q) : bool :=
  Qle_bool (Qabs (x - y)%Q) (1 # 2000000000000000000)%Q.
(** terminating within 18 fractional digits: y * 10^18 is an integer *)
Definition Q_terminates18 (y : Q) : bool :=
  Z.eqb ((Qnum y * 10 ^ 18) mod Zpos (Qden y)) 0.

(** a literal matches a specification value: equal when the value terminates,
    within half a unit of the 18th digit otherwise *)
Definition lit_matches (l : lit) (y : Q) : bool :=
  if Q_terminates18 y then Qeq_bool (lit_Q l) y else Q_close (lit_Q l) y.

Definition name_of_unit (i : nat) : ustring := gen_name temp_gen i.

Definition spec_for (i j : nat) : option (Q * Q) :=
  match List.find (fun '(f, t, _, _) => ustr_eqb f (name_of_unit i) && ustr_eqb t (name_of_unit j)) temperature_formulas with
  | Some (_, _, k, c) => Some (k, c)
  | None => None
  end.

Definition row_matches_spec (r : nat * nat * lit * lit) : bool :=
  let '(i, j, k, c) := r in
  match spec_for i j with
  | Some (sk, sc) => lit_matches k sk && lit_matches c sc
  | None => false
  end.

Definition count_rows_for (l : list (nat * nat * lit * lit)) (i j : nat) : nat :=
  List.length (List.filter (fun '(f, t, _, _) => Nat.eqb f i && Nat.eqb t j) l).

Definition temperature_table_ok : bool :=
  match temp_rows_lit with
  | None => false
  | Some l =>
      N.eqb (N.of_nat (List.length l)) temperature_table_declared_len
      && Nat.eqb (List.length (gd_VARIANTS temp_gen)) 3
      && forallb row_matches_spec l
      && forallb (fun i => forallb (fun j => Nat.eqb i j || Nat.eqb (count_rows_for l i j) 1) [0;1;2]) [0;1;2]
      && forallb (fun '(i, j, k, c) => Nat.ltb i 3 && Nat.ltb j 3 && negb (Nat.eqb i j)) l
  end.

Lemma temperature_table_checked : temperature_table_ok = true.
Proof. vm_compute. reflexivity. Qed.

(** the three units are the three named in the specification *)
Lemma temperature_units :
  map name_of_unit [0;1;2] = [n_celsius; n_fahrenheit; n_kelvin].
Proof. vm_compute. reflexivity. Qed.

(** every ordered pair of distinct units has an entry, in every back-end *)
Lemma temperature_total (am : Amount) i j : i < 3 -> j < 3 -> i <> j ->
  exists kc, first_row (temp_rows am) i j = Some kc.
Proof.
  intros Hi Hj Hne. unfold temp_rows.
  assert (H : forallb (fun i => forallb (fun j => Nat.eqb i j ||
            match temp_rows_lit with Some l => match first_row (am:=am) (map (fun '(i, j, k, c) => (i, j, a_lit am k, a_lit am c)) l) i j with Some _ => true | None => false end | None => false end) [0;1;2]) [0;1;2] = true).
  { destruct temp_rows_lit as [l|] eqn:E; [|vm_compute in E; discriminate].
    vm_compute in E. injection E as <-. cbn -[a_lit]. reflexivity. }
  rewrite forallb_forall in H. assert (Hi' : In i [0;1;2]) by (cbn; lia). specialize (H i Hi').
  rewrite forallb_forall in H. assert (Hj' : In j [0;1;2]) by (cbn; lia). specialize (H j Hj').
  apply orb_true_iff in H as [H|H]; [apply PeanoNat.Nat.eqb_eq in H; contradiction|].
  destruct temp_rows_lit as [l|]; [|discriminate].
  destruct (first_row _ i j) as [kc|]; [exists kc; reflexivity|discriminate].
Qed.
