(* Proofs/PrefixModel.v — the SIPrefix API as functions over the generated
   tables (Gen/Prefixes.v): a Rust `match` is a first-match look-up in the list
   of its arms, in source order. *)
From QV Require Import Rt.Prelude Gen.Prefixes.

Fixpoint pfx_lookup {V} (p : SIPrefix) (arms : list (SIPrefix * V)) : option V :=
  match arms with
  | [] => None
  | (p', v) :: r => if SIPrefix_beq p' p then Some v else pfx_lookup p r
  end.

(** [match self { Self::X => "..", .. }] — rustc guarantees exhaustiveness; the
    model makes a missing arm visible as [None] *)
Definition prefix_name (p : SIPrefix) : option ustring := pfx_lookup p SIPrefix_name_arms.
Definition prefix_abbr (p : SIPrefix) : option ustring := pfx_lookup p SIPrefix_abbr_arms.
Definition prefix_exp (p : SIPrefix) : Z := SIPrefix_exp p.

Fixpoint str_arm_lookup {V} (s : ustring) (arms : list (ustring * V)) (default : V) : V :=
  match arms with
  | [] => default
  | (k, v) :: r => if ustr_eqb k s then v else str_arm_lookup s r default
  end.

Fixpoint int_arm_lookup {V} (n : Z) (arms : list (Z * V)) (default : V) : V :=
  match arms with
  | [] => default
  | (k, v) :: r => if Z.eqb k n then v else int_arm_lookup n r default
  end.

Definition prefix_from_abbr (s : ustring) : option SIPrefix :=
  str_arm_lookup s SIPrefix_from_abbr_arms SIPrefix_from_abbr_default.

(** the parameter has type i8: [e] ranges over -128..127 *)
Definition prefix_from_exp (e : Z) : option SIPrefix :=
  int_arm_lookup e SIPrefix_from_exp_arms SIPrefix_from_exp_default.

(** iteration (derive(EnumIter)): the variants in declaration order *)
Definition prefix_iter : list SIPrefix := SIPrefix_variants.

Lemma SIPrefix_beq_eq p q : SIPrefix_beq p q = true <-> p = q.
Proof. split; [apply internal_SIPrefix_dec_bl | apply internal_SIPrefix_dec_lb]. Qed.
