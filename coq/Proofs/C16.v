(* Proofs/C16.v — SI prefix table is a consistent bijection. *)
From Coq Require Import Lia.
From QV Require Import Rt.Prelude Gen.Prefixes Spec.SIBrochure Proofs.PrefixModel.

(** ** 1. the table is the SI brochure's, row by row *)
Definition prefix_row (p : SIPrefix) : option (Z * ustring * ustring) :=
  match prefix_name p, prefix_abbr p with
  | Some n, Some a => Some (prefix_exp p, n, a)
  | _, _ => None
  end.

Lemma prefix_table_is_brochure :
  map prefix_row prefix_iter = map Some si_brochure.
Proof. vm_compute. reflexivity. Qed.

(** every constructor is listed by the iteration *)
Lemma prefix_iter_complete p : In p prefix_iter.
Proof. destruct p; vm_compute; tauto. Qed.

Lemma prefix_iter_nodup : NoDup prefix_iter.
Proof.
  assert (H : forall (l : list SIPrefix), (fix nd l := match l with [] => true | x :: r =>
     negb (existsb (SIPrefix_beq x) r) && nd r end) l = true -> NoDup l).
  { induction l as [|x r IH]; intros Hn; [constructor|].
    apply andb_prop in Hn as [H1 H2]. constructor; [|auto].
    intros Hin. apply negb_true_iff in H1.
    assert (existsb (SIPrefix_beq x) r = true).
    { apply existsb_exists. exists x. split; [exact Hin|apply SIPrefix_beq_eq; reflexivity]. }
    congruence. }
  apply H. vm_compute. reflexivity.
Qed.

(** ** 2. look-up by exponent: all 256 values of i8 *)
Definition i8_values : list Z := map (fun n => Z.of_nat n - 128)%Z (seq 0 256).

Lemma i8_values_spec e : (-128 <= e <= 127)%Z -> In e i8_values.
Proof.
  intros H. unfold i8_values. apply in_map_iff. exists (Z.to_nat (e + 128)).
  split; [lia|]. apply in_seq. lia.
Qed.

Definition from_exp_ok (e : Z) : bool :=
  match prefix_from_exp e with
  | Some p => Z.eqb (prefix_exp p) e
  | None => forallb (fun p => negb (Z.eqb (prefix_exp p) e)) prefix_iter
  end.

Lemma from_exp_all : forallb from_exp_ok i8_values = true.
Proof. vm_compute. reflexivity. Qed.

Lemma from_exp_spec e p : (-128 <= e <= 127)%Z ->
  (prefix_from_exp e = Some p <-> prefix_exp p = e).
Proof.
  intros He. pose proof from_exp_all as H. rewrite forallb_forall in H.
  specialize (H e (i8_values_spec e He)). unfold from_exp_ok in H.
  destruct (prefix_from_exp e) as [q|] eqn:E.
  - apply Z.eqb_eq in H. split.
    + intros [= <-]. exact H.
    + intros Hp. f_equal.
      (* exponents are pairwise distinct *)
      revert H Hp. clear. destruct q, p; vm_compute; intros; subst; try reflexivity; discriminate.
  - split; [discriminate|]. intros Hp. rewrite forallb_forall in H.
    specialize (H p (prefix_iter_complete p)). apply negb_true_iff in H.
    apply Z.eqb_neq in H. contradiction.
Qed.

Lemma from_exp_exp p : prefix_from_exp (prefix_exp p) = Some p.
Proof. destruct p; vm_compute; reflexivity. Qed.

(** ** 3. look-up by abbreviation: every string *)

(** first-match look-up with pairwise distinct keys returns the value of the
    one key that equals the string, the default otherwise *)
Lemma str_arm_lookup_in {V} s (arms : list (ustring * V)) d v :
  str_arm_lookup s arms d = v ->
  (exists k, In (k, v) arms /\ k = s) \/ (v = d /\ forall k w, In (k, w) arms -> k <> s).
Proof.
  induction arms as [|[k w] r IH]; cbn [str_arm_lookup].
  - intros <-. right. split; [reflexivity|]. intros ? ? [].
  - destruct (ustr_eqb_spec k s) as [->|Hne].
    + intros <-. left. exists s. split; [left; reflexivity|reflexivity].
    + intros H. destruct (IH H) as [(k' & Hin & Hk)|(Hd & Hall)].
      * left. exists k'. split; [right; exact Hin|exact Hk].
      * right. split; [exact Hd|]. intros k' w' Hin'. cbn [In] in Hin'.
        destruct Hin' as [Heq|Hin']; [inversion Heq; subst; exact Hne|eauto].
Qed.

Definition abbr_arms_ok : bool :=
  forallb (fun kv => match snd kv with
                     | Some p => match prefix_abbr p with Some a => ustr_eqb a (fst kv) | None => false end
                     | None => false end) SIPrefix_from_abbr_arms
  && forallb (fun p => match prefix_abbr p with
                       | Some a => match prefix_from_abbr a with Some q => SIPrefix_beq q p | None => false end
                       | None => false end) prefix_iter
  && match SIPrefix_from_abbr_default with None => true | Some _ => false end.

Lemma abbr_arms_ok_true : abbr_arms_ok = true.
Proof. vm_compute. reflexivity. Qed.

Lemma from_abbr_abbr p : exists a, prefix_abbr p = Some a /\ prefix_from_abbr a = Some p.
Proof. destruct p; vm_compute; eexists; split; reflexivity. Qed.

Lemma from_abbr_spec s p :
  prefix_from_abbr s = Some p <-> prefix_abbr p = Some s.
Proof.
  pose proof abbr_arms_ok_true as Hok. unfold abbr_arms_ok in Hok.
  apply andb_prop in Hok as [Hok Hdef]. apply andb_prop in Hok as [Harms Hinv].
  split.
  - intros H. unfold prefix_from_abbr in H.
    apply str_arm_lookup_in in H as [(k & Hin & ->)|(Hd & _)].
    + rewrite forallb_forall in Harms. specialize (Harms _ Hin). cbn [snd fst] in Harms.
      destruct (prefix_abbr p) as [a|]; [|discriminate].
      apply ustr_eqb_eq in Harms. congruence.
    + destruct SIPrefix_from_abbr_default; [discriminate Hdef|discriminate Hd].
  - intros H. destruct (from_abbr_abbr p) as (a & Ha & Hf). congruence.
Qed.

Lemma from_abbr_none s :
  (forall p, prefix_abbr p <> Some s) -> prefix_from_abbr s = None.
Proof.
  intros H. destruct (prefix_from_abbr s) as [p|] eqn:E; [|reflexivity].
  apply from_abbr_spec in E. exfalso. exact (H p E).
Qed.

(** ** 4. one-to-one *)
Lemma prefix_exp_inj p q : prefix_exp p = prefix_exp q -> p = q.
Proof. intros H. pose proof (from_exp_exp p) as Hp. rewrite H, from_exp_exp in Hp. congruence. Qed.

Lemma prefix_abbr_inj p q : prefix_abbr p = prefix_abbr q -> p = q.
Proof.
  intros H. destruct (from_abbr_abbr p) as (a & Ha & Hf).
  destruct (from_abbr_abbr q) as (b & Hb & Hg). congruence.
Qed.

Lemma prefix_name_inj p q : prefix_name p = prefix_name q -> p = q.
Proof. destruct p, q; vm_compute; intros H; try reflexivity; discriminate. Qed.

(** ** 5. iteration: every prefix once, strictly increasing exponent *)
Fixpoint strictly_increasing (l : list Z) : bool :=
  match l with
  | x :: ((y :: _) as r) => Z.ltb x y && strictly_increasing r
  | _ => true
  end.

Lemma prefix_iter_sorted : strictly_increasing (map prefix_exp prefix_iter) = true.
Proof. vm_compute. reflexivity. Qed.

Lemma prefix_iter_length : length prefix_iter = 25.
Proof. reflexivity. Qed.

(** the enum derives the iterator the model assumes (declaration order) *)
Lemma prefix_derives_iter : SIPrefix_derives_EnumIter = true.
Proof. reflexivity. Qed.
