(* Proofs/ProgramsCat.v — the whole-program refinement (Proofs/Programs.v)
   instantiated: an exact amount type over the canonical rationals (what the
   library's arithmetic would be with an ideal amount type; division refuses a
   zero divisor as fpdec::Decimal does), every predefined quantity with a
   reference unit built from the generator's current output with its declared
   scale literals read exactly, all scales positive by computation, and a
   concrete program whose run is computed by the kernel. *)
From Coq Require Import QArith Qcanon ZArith Lia List String.
From QV Require Import Rt.Prelude Rt.Amount Rt.Quantity Macro.Defs Gen.Prefixes Gen.Catalogue Gen.Kernels Macro.Inst
  Proofs.Laws Proofs.Kernel Proofs.Instances Proofs.C01 Proofs.Programs.
Import ListNotations.
Local Open Scope Qc_scope.

Definition q_of_lit (l : lit) : option Qc :=
  let '(n, d) := lit_Q_num_den l in
  match d with Zpos p => Some (Q2Qc (n # p)) | _ => None end.

Definition QAM : Amount := {|
  A := Qc; a_zero := 0; a_one := 1;
  a_add := fun x y => Ok (x + y); a_sub := fun x y => Ok (x - y); a_mul := fun x y => Ok (x * y);
  a_div := fun x y => if Qc_eq_dec y 0 then Panic PAmount else Ok (x / y);
  a_neg := Qcopp; a_abs := fun x => if Qclt_le_dec x 0 then - x else x;
  a_sign_neg := fun x => if Qclt_le_dec x 0 then true else false;
  a_eqb := fun x y => if Qc_eq_dec x y then true else false;
  a_cmp := fun x y => Some (x ?= y);
  a_of_lit := q_of_lit; a_is_dec := false; a_display := fun _ _ => []
|}.

Lemma QAM_exact : ExactAmount QAM.
Proof.
  refine (mkExact QAM (fun x => x) _ _ _ _ _ _); cbn.
  - intros x y z [= <-]. reflexivity.
  - intros x y z [= <-]. reflexivity.
  - intros x y z [= <-]. reflexivity.
  - intros x y z H. destruct (Qc_eq_dec y 0) as [|Hn]; [discriminate|]. injection H as <-. split; [exact Hn|reflexivity].
  - intros x y. destruct (Qc_eq_dec x y); split; congruence.
  - reflexivity.
Defined.

(** all scales of all units of all predefined reference-unit quantities are
    positive rationals (the literals of the regenerated catalogue, read exactly) *)
Definition scales_positive_b (g : gen_def SIPrefix) : bool :=
  forallb (fun u => match Qcompare 0 (this (gen_scale QAM g u)) with Lt => true | _ => false end) (gen_iter g).

Lemma catalogue_scales_positive_b : forallb (fun e => scales_positive_b (ce_gen e)) ref_entries = true.
Proof. vm_compute. reflexivity. Qed.

Lemma catalogue_scales_positive e : In e ref_entries ->
  forall u, In u (u_iter (base_of_gen QAM (ce_gen e))) -> 0 < sc QAM_exact (base_of_gen QAM (ce_gen e)) u.
Proof.
  intros He u Hu. pose proof catalogue_scales_positive_b as H.
  rewrite forallb_forall in H. specialize (H e He). unfold scales_positive_b in H.
  rewrite forallb_forall in H.
  assert (Hu' : In u (gen_iter (ce_gen e))) by (unfold base_of_gen in Hu; destruct (gd_path (ce_gen e)); exact Hu).
  specialize (H u Hu').
  assert (Es : sc QAM_exact (base_of_gen QAM (ce_gen e)) u = gen_scale QAM (ce_gen e) u)
    by (unfold sc, base_of_gen; destruct (gd_path (ce_gen e)); reflexivity).
  rewrite Es. apply Qclt_alt. unfold Qccompare.
  destruct (Qcompare 0 (this (gen_scale QAM (ce_gen e) u))) eqn:C; try discriminate. exact C.
Qed.

(** every program over every predefined quantity with a reference unit *)
Theorem catalogue_programs e (p : @prog QAM) x : In e ref_entries ->
  wf (base_of_gen QAM (ce_gen e)) p -> run (base_of_gen QAM (ce_gen e)) p = Ok x ->
  q_unit (base_of_gen QAM (ce_gen e)) x = unit_of p /\
  magnitude QAM_exact (base_of_gen QAM (ce_gen e)) x = sem QAM_exact (base_of_gen QAM (ce_gen e)) p.
Proof.
  intros He Hwf Hrun. exact (run_refines QAM_exact _ (ref_entry_laws QAM e He) p x Hwf Hrun).
Qed.

(** a concrete program, run by the kernel: (2.5 in).convert(cm) + 1 cm - 0.5 * (10 mm), then / 3;
    its value is 6.85/3 cm = 137/60 cm, i.e. 137/6000 of the reference unit metre *)
Definition LengthQ : QBase QAM := base_of_gen QAM cat_Length_gen.
Definition inch_ix : nat := 4%nat.
Definition cm_ix : nat := 3%nat.
Definition mm_ix : nat := 2%nat.
Definition qc (n : Z) (d : positive) : QAM := Q2Qc (n # d).
Definition example_prog : @prog QAM :=
  PDivK (PSub (PAdd (PConv (PLit (qc 5 2) inch_ix) cm_ix) (PLitR cm_ix (qc 1 1))) (PMulL (qc 1 2) (PNew (qc 10 1) mm_ix))) (qc 3 1).

Lemma example_units : gen_name cat_Length_gen inch_ix = us "Inch"%string /\ gen_name cat_Length_gen cm_ix = us "Centimeter"%string /\
  gen_name cat_Length_gen mm_ix = us "Millimeter"%string /\ In (mkcat_entry (us "quantities") (us "length") cat_Length_raw cat_Length_gen) ref_entries.
Proof. vm_compute. repeat split; try reflexivity. tauto. Qed.

Lemma example_runs :
  match run LengthQ example_prog with
  | Ok x => Some (this (q_amount LengthQ x), q_unit LengthQ x)
  | Panic _ => None end = Some ((137 # 60)%Q, cm_ix) /\
  wf LengthQ example_prog /\ this (sem QAM_exact LengthQ example_prog) = (137 # 6000)%Q.
Proof. split; [vm_compute; reflexivity|split; [vm_compute; tauto|vm_compute; reflexivity]]. Qed.
