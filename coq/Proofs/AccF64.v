(* Proofs/AccF64.v — magnitude bounds of the kernels in the binary
   floating-point configuration, composed from the per-operation lemmas of
   Amount/F64Acc.v.  "In the normal range" hypotheses name exactly the
   intermediate results that must neither underflow nor overflow; under them
   every rounded operation contributes one factor (1 + d), |d| <= 2^-53. *)
From Coq Require Import Reals ZArith Lra Psatz Bool Lia.
From Flocq Require Import Core IEEE754.BinarySingleNaN IEEE754.Binary IEEE754.Bits.
From QV Require Import Rt.Prelude Rt.Amount Rt.Quantity Gen.Prefixes Gen.Kernels Amount.F64 Amount.F64Acc
  Proofs.Laws Proofs.Kernel Proofs.C09 Proofs.Derived Proofs.C13 Proofs.C14.
Open Scope R_scope.

Notation fin x := (is_finite 53 1024 x = true).
Notation val x := (B2R 53 1024 x).

(** the exact real is in the normal range of binary64 (with room for one rounding) *)
Definition normal (r : R) : Prop := tiny <= Rabs r /\ Rabs r * (1 + u64) < huge.

Section Instance.
Context (S : QBase F64).
Notation scale u := (u_scale S u).

(** physical magnitude of a value: amount x scale of its unit (a real number) *)
Definition magnitude (q : Qt S) : R := val (q_amount S q) * val (scale (q_unit S q)).

(** * C01: conversion preserves the magnitude up to two roundings *)
Theorem convert_magnitude (L : QLaws S) (q : Qt S) (v : nat) :
  q_unit S q <> v -> In v (u_iter S) ->
  fin (q_amount S q) -> fin (scale (q_unit S q)) -> fin (scale v) -> val (scale v) <> 0 ->
  normal (val (scale (q_unit S q)) / val (scale v)) ->
  normal (val (f64_div (scale (q_unit S q)) (scale v)) * val (q_amount S q)) ->
  exists q' d1 d2,
    HasRefUnit_convert S q v = Ok q' /\ q_unit S q' = v /\ fin (q_amount S q') /\
    Rabs d1 <= u64 /\ Rabs d2 <= u64 /\
    val (q_amount S q') * val (scale v) = magnitude q * (1 + d1) * (1 + d2).
Proof.
  intros Hne Hin Fa Fu Fv Hv0 [N1 N1'] [N2 N2'].
  rewrite (convert_kernel S q v Hne). cbn [a_div a_mul F64 bind].
  destruct (f64_div_rel (scale (q_unit S q)) (scale v) Fu Fv Hv0 N1 N1') as (d1 & Hd1 & Fr & Er).
  destruct (f64_mul_rel (f64_div (scale (q_unit S q)) (scale v)) (q_amount S q) Fr Fa N2 N2') as (d2 & Hd2 & Fm & Em).
  eexists _, d1, d2. split; [reflexivity|]. split; [apply (law_unit_new S L); exact Hin|].
  rewrite (law_amount_new S L). split; [exact Fm|]. split; [exact Hd1|]. split; [exact Hd2|].
  rewrite Em, Er. unfold magnitude. field. exact Hv0.
Qed.

(** hence the relative error of the magnitude is at most (1+u)^2 - 1 *)
Corollary convert_magnitude_bound (L : QLaws S) (q : Qt S) (v : nat) :
  q_unit S q <> v -> In v (u_iter S) ->
  fin (q_amount S q) -> fin (scale (q_unit S q)) -> fin (scale v) -> val (scale v) <> 0 ->
  normal (val (scale (q_unit S q)) / val (scale v)) ->
  normal (val (f64_div (scale (q_unit S q)) (scale v)) * val (q_amount S q)) ->
  exists q', HasRefUnit_convert S q v = Ok q' /\ q_unit S q' = v /\
    Rabs (val (q_amount S q') * val (scale v) - magnitude q) <= ((1 + u64) ^ 2 - 1) * Rabs (magnitude q).
Proof.
  intros Hne Hin Fa Fu Fv Hv0 Nr Np. destruct (convert_magnitude L q v Hne Hin Fa Fu Fv Hv0 Nr Np) as (q' & d1 & d2 & E & Eu & _ & H1 & H2 & Em).
  exists q'. split; [exact E|]. split; [exact Eu|]. rewrite Em.
  replace (magnitude q * (1 + d1) * (1 + d2) - magnitude q) with (magnitude q * ((1 + d1) * (1 + d2) - 1)) by ring.
  rewrite Rabs_mult, Rmult_comm. apply Rmult_le_compat_r; [apply Rabs_pos|].
  apply Rabs_le_inv in H1, H2. pose proof u64_pos. apply Rabs_le. nra.
Qed.

(** * C03: sum, difference and ratio across units *)
(** right operand converted into the left operand's unit (two roundings) *)
Lemma rhs_converted (x y : Qt S) :
  q_unit S y <> q_unit S x ->
  fin (q_amount S y) -> fin (scale (q_unit S y)) -> fin (scale (q_unit S x)) -> val (scale (q_unit S x)) <> 0 ->
  normal (val (scale (q_unit S y)) / val (scale (q_unit S x))) ->
  normal (val (f64_div (scale (q_unit S y)) (scale (q_unit S x))) * val (q_amount S y)) ->
  exists b' d1 d2,
    HasRefUnit_equiv_amount S y (q_unit S x) = Ok b' /\ fin b' /\ Rabs d1 <= u64 /\ Rabs d2 <= u64 /\
    val b' * val (scale (q_unit S x)) = magnitude y * (1 + d1) * (1 + d2).
Proof.
  intros Hne Fb Fv Fu Hu0 [N1 N1'] [N2 N2'].
  rewrite (equiv_amount_diff S y (q_unit S x) Hne). cbn [a_div a_mul F64 bind].
  destruct (f64_div_rel (scale (q_unit S y)) (scale (q_unit S x)) Fv Fu Hu0 N1 N1') as (d1 & Hd1 & Fr & Er).
  destruct (f64_mul_rel _ (q_amount S y) Fr Fb N2 N2') as (d2 & Hd2 & Fm & Em).
  eexists _, d1, d2. split; [reflexivity|]. split; [exact Fm|]. split; [exact Hd1|]. split; [exact Hd2|].
  rewrite Em, Er. unfold magnitude. field. exact Hu0.
Qed.

Theorem add_magnitude (L : QLaws S) (x y : Qt S) :
  q_unit S y <> q_unit S x -> In (q_unit S x) (u_iter S) ->
  fin (q_amount S x) -> fin (q_amount S y) -> fin (scale (q_unit S y)) -> fin (scale (q_unit S x)) -> val (scale (q_unit S x)) <> 0 ->
  normal (val (scale (q_unit S y)) / val (scale (q_unit S x))) ->
  normal (val (f64_div (scale (q_unit S y)) (scale (q_unit S x))) * val (q_amount S y)) ->
  (forall b', HasRefUnit_equiv_amount S y (q_unit S x) = Ok b' -> normal (val (q_amount S x) + val b')) ->
  exists r d1 d2 d3,
    HasRefUnit_add S x y = Ok r /\ q_unit S r = q_unit S x /\
    Rabs d1 <= u64 /\ Rabs d2 <= u64 /\ Rabs d3 <= u64 /\
    val (q_amount S r) * val (scale (q_unit S x)) = (magnitude x + magnitude y * (1 + d1) * (1 + d2)) * (1 + d3).
Proof.
  intros Hne Hin Fa Fb Fv Fu Hu0 N1 N2 N3.
  destruct (rhs_converted x y Hne Fb Fv Fu Hu0 N1 N2) as (b' & d1 & d2 & Eb & Fb' & Hd1 & Hd2 & Mb).
  destruct (N3 b' Eb) as [N3a N3b].
  rewrite (ref_add_kernel S x y), Eb. cbn [bind a_add F64].
  destruct (f64_add_rel (q_amount S x) b' Fa Fb' N3a N3b) as (d3 & Hd3 & Fs & Es).
  eexists _, d1, d2, d3. split; [reflexivity|]. split; [apply (law_unit_new S L); exact Hin|].
  rewrite (law_amount_new S L). repeat (split; [assumption|]).
  rewrite Es, <- Mb. unfold magnitude. ring.
Qed.

Theorem sub_magnitude (L : QLaws S) (x y : Qt S) :
  q_unit S y <> q_unit S x -> In (q_unit S x) (u_iter S) ->
  fin (q_amount S x) -> fin (q_amount S y) -> fin (scale (q_unit S y)) -> fin (scale (q_unit S x)) -> val (scale (q_unit S x)) <> 0 ->
  normal (val (scale (q_unit S y)) / val (scale (q_unit S x))) ->
  normal (val (f64_div (scale (q_unit S y)) (scale (q_unit S x))) * val (q_amount S y)) ->
  (forall b', HasRefUnit_equiv_amount S y (q_unit S x) = Ok b' -> normal (val (q_amount S x) - val b')) ->
  exists r d1 d2 d3,
    HasRefUnit_sub S x y = Ok r /\ q_unit S r = q_unit S x /\
    Rabs d1 <= u64 /\ Rabs d2 <= u64 /\ Rabs d3 <= u64 /\
    val (q_amount S r) * val (scale (q_unit S x)) = (magnitude x - magnitude y * (1 + d1) * (1 + d2)) * (1 + d3).
Proof.
  intros Hne Hin Fa Fb Fv Fu Hu0 N1 N2 N3.
  destruct (rhs_converted x y Hne Fb Fv Fu Hu0 N1 N2) as (b' & d1 & d2 & Eb & Fb' & Hd1 & Hd2 & Mb).
  destruct (N3 b' Eb) as [N3a N3b].
  rewrite (ref_sub_kernel S x y), Eb. cbn [bind a_sub F64].
  destruct (f64_sub_rel (q_amount S x) b' Fa Fb' N3a N3b) as (d3 & Hd3 & Fs & Es).
  eexists _, d1, d2, d3. split; [reflexivity|]. split; [apply (law_unit_new S L); exact Hin|].
  rewrite (law_amount_new S L). repeat (split; [assumption|]).
  rewrite Es, <- Mb. unfold magnitude. ring.
Qed.

(** the ratio a / b is the ratio of the magnitudes, three roundings *)
Theorem div_magnitude (x y : Qt S) :
  q_unit S y <> q_unit S x ->
  fin (q_amount S x) -> fin (q_amount S y) -> fin (scale (q_unit S y)) -> fin (scale (q_unit S x)) -> val (scale (q_unit S x)) <> 0 ->
  normal (val (scale (q_unit S y)) / val (scale (q_unit S x))) ->
  normal (val (f64_div (scale (q_unit S y)) (scale (q_unit S x))) * val (q_amount S y)) ->
  (forall b', HasRefUnit_equiv_amount S y (q_unit S x) = Ok b' -> normal (val (q_amount S x) / val b')) ->
  exists r d1 d2 d3,
    HasRefUnit_div S x y = Ok r /\ Rabs d1 <= u64 /\ Rabs d2 <= u64 /\ Rabs d3 <= u64 /\
    val r * (magnitude y * (1 + d1) * (1 + d2)) = magnitude x * (1 + d3).
Proof.
  intros Hne Fa Fb Fv Fu Hu0 N1 N2 N3.
  destruct (rhs_converted x y Hne Fb Fv Fu Hu0 N1 N2) as (b' & d1 & d2 & Eb & Fb' & Hd1 & Hd2 & Mb).
  destruct (N3 b' Eb) as [N3a N3b].
  assert (Hb0 : val b' <> 0).
  { intros E. rewrite E in N3a. unfold Rdiv in N3a. rewrite Rinv_0, Rmult_0_r, Rabs_R0 in N3a.
    pose proof (bpow_gt_0 radix2 (-1022)). unfold tiny in N3a. lra. }
  rewrite (ref_div_kernel S x y), Eb. cbn [bind a_div F64].
  destruct (f64_div_rel (q_amount S x) b' Fa Fb' Hb0 N3a N3b) as (d3 & Hd3 & Fs & Es).
  eexists _, d1, d2, d3. split; [reflexivity|]. repeat (split; [assumption|]).
  rewrite Es, <- Mb. unfold magnitude. field. exact Hb0.
Qed.

(** * C02: cross-unit comparison never contradicts the order of the magnitudes *)
Lemma mul_round (a s : f64) : fin a -> fin s -> Rabs (val a * val s) * (1 + u64) < huge ->
  fin (f64_mul a s) /\ val (f64_mul a s) = round radix2 (SpecFloat.fexp 53 1024) (round_mode mode_NE) (val a * val s).
Proof.
  intros Fa Fs Hhi. pose proof (Bmult_correct 53 1024 Hp Hm binop_nan_pl64 mode_NE a s) as H.
  assert (Hlt : Rabs (round radix2 (SpecFloat.fexp 53 1024) (round_mode mode_NE) (val a * val s)) < huge).
  { (* |round r| <= round |r| ... use: |round r| <= max representable below huge: via round_le and the bound |r| < huge/(1+u) *)
    destruct (Rle_or_lt tiny (Rabs (val a * val s))) as [Hn|Hs].
    - destruct (round_rel _ Hn) as (d & Hd & ->). apply round_lt_huge; assumption.
    - (* subnormal range: |round r| <= tiny < huge *)
      apply Rle_lt_trans with tiny.
      + pose proof (fexp_correct 53 1024 Hp) as Hvalid.
        apply (@abs_round_le_generic radix2 (SpecFloat.fexp 53 1024) Hvalid (round_mode mode_NE) (BinarySingleNaN.valid_rnd_round_mode mode_NE)).
        * unfold tiny. apply (generic_format_bpow radix2 (SpecFloat.fexp 53 1024) (-1022)). vm_compute. discriminate.
        * apply Rlt_le. exact Hs.
      + unfold tiny, huge. apply bpow_lt. lia. }
  rewrite Rlt_bool_true in H by exact Hlt. destruct H as (Hv & Hf & _). rewrite f64_mul_unfold.
  split; [rewrite Hf, Fa, Fs; reflexivity|exact Hv].
Qed.

Theorem cmp_never_reversed (x y : Qt S) :
  q_unit S x <> q_unit S y ->
  fin (q_amount S x) -> fin (q_amount S y) -> fin (scale (q_unit S x)) -> fin (scale (q_unit S y)) ->
  Rabs (magnitude x) * (1 + u64) < huge -> Rabs (magnitude y) * (1 + u64) < huge ->
  exists c, HasRefUnit_partial_cmp S x y = Ok (Some c) /\
    (magnitude x < magnitude y -> c <> Gt) /\ (magnitude y < magnitude x -> c <> Lt) /\ (magnitude x = magnitude y -> c = Eq).
Proof.
  intros Hne Fa Fb Fu Fv Hx Hy.
  rewrite (ref_cmp_diff_unit S x y Hne). unfold ref_magnitude. cbn [a_mul F64 bind a_cmp].
  destruct (mul_round (q_amount S x) (scale (q_unit S x)) Fa Fu Hx) as [F1 V1].
  destruct (mul_round (q_amount S y) (scale (q_unit S y)) Fb Fv Hy) as [F2 V2].
  unfold f64_cmp, b64_compare. rewrite (Bcompare_correct 53 1024 _ _ F1 F2).
  eexists. split; [reflexivity|]. rewrite V1, V2. fold (magnitude x) (magnitude y).
  set (rnd := round radix2 (SpecFloat.fexp 53 1024) (round_mode mode_NE)).
  assert (Hmono : forall a b, a <= b -> rnd a <= rnd b).
  { intros a0 b0 Hab. apply (@round_le radix2 (SpecFloat.fexp 53 1024) (fexp_correct 53 1024 Hp) (round_mode mode_NE) (BinarySingleNaN.valid_rnd_round_mode mode_NE)). exact Hab. }
  repeat split.
  - intros Hlt E. apply Rcompare_Gt_inv in E. pose proof (Hmono _ _ (Rlt_le _ _ Hlt)). lra.
  - intros Hlt E. apply Rcompare_Lt_inv in E. pose proof (Hmono _ _ (Rlt_le _ _ Hlt)). lra.
  - intros ->. apply Rcompare_Eq. reflexivity.
Qed.
(** ... and is the exact order whenever the magnitudes (both in the normal range) differ by
    more than the rounding error of the two products, u (|Mx| + |My|) *)
Theorem cmp_separated (x y : Qt S) :
  q_unit S x <> q_unit S y ->
  fin (q_amount S x) -> fin (q_amount S y) -> fin (scale (q_unit S x)) -> fin (scale (q_unit S y)) ->
  normal (magnitude x) -> normal (magnitude y) ->
  exists c, HasRefUnit_partial_cmp S x y = Ok (Some c) /\
    (magnitude x + u64 * (Rabs (magnitude x) + Rabs (magnitude y)) < magnitude y -> c = Lt) /\
    (magnitude y + u64 * (Rabs (magnitude x) + Rabs (magnitude y)) < magnitude x -> c = Gt).
Proof.
  intros Hne Fa Fb Fu Fv [Nx Nx'] [Ny Ny'].
  rewrite (ref_cmp_diff_unit S x y Hne). unfold ref_magnitude. cbn [a_mul F64 bind a_cmp].
  destruct (mul_round (q_amount S x) (scale (q_unit S x)) Fa Fu Nx') as [F1 V1].
  destruct (mul_round (q_amount S y) (scale (q_unit S y)) Fb Fv Ny') as [F2 V2].
  unfold f64_cmp, b64_compare. rewrite (Bcompare_correct 53 1024 _ _ F1 F2).
  eexists. split; [reflexivity|]. rewrite V1, V2. fold (magnitude x) (magnitude y).
  destruct (round_rel (magnitude x) Nx) as (d1 & Hd1 & ->). destruct (round_rel (magnitude y) Ny) as (d2 & Hd2 & ->).
  apply Rabs_le_inv in Hd1, Hd2. pose proof u64_pos as Pu.
  assert (B1 : Rabs (magnitude x * d1) <= u64 * Rabs (magnitude x)).
  { rewrite Rabs_mult, Rmult_comm. apply Rmult_le_compat_r; [apply Rabs_pos|apply Rabs_le; lra]. }
  assert (B2 : Rabs (magnitude y * d2) <= u64 * Rabs (magnitude y)).
  { rewrite Rabs_mult, Rmult_comm. apply Rmult_le_compat_r; [apply Rabs_pos|apply Rabs_le; lra]. }
  apply Rabs_le_inv in B1, B2. split.
  - intros Hlt. apply Rcompare_Lt. lra.
  - intros Hlt. apply Rcompare_Gt. lra.
Qed.
End Instance.

(** * C04 / C05: derived products and quotients *)
Lemma f64_eqb_val (x y : f64) : fin x -> fin y -> f64_eqb x y = true -> val x = val y.
Proof.
  intros Fx Fy. unfold f64_eqb, f64_cmp, b64_compare. rewrite (Bcompare_correct 53 1024 _ _ Fx Fy).
  destruct (Rcompare_spec (val x) (val y)); try discriminate. intros _. assumption.
Qed.

(** a rounded binary operation with its exact counterpart *)
Definition op_rel (op : f64 -> f64 -> f64) (rop : R -> R -> R) (ok : f64 -> Prop) : Prop :=
  forall x y, fin x -> fin y -> ok y -> normal (rop (val x) (val y)) ->
  exists d, Rabs d <= u64 /\ fin (op x y) /\ val (op x y) = rop (val x) (val y) * (1 + d).

Lemma mul_op_rel : op_rel f64_mul Rmult (fun _ => True).
Proof. intros x y Fx Fy _ [N N']. apply f64_mul_rel; assumption. Qed.
Lemma div_op_rel : op_rel f64_div Rdiv (fun y => val y <> 0).
Proof. intros x y Fx Fy Hy [N N']. apply f64_div_rel; assumption. Qed.

Section Derived.
Context (op : f64 -> f64 -> f64) (rop : R -> R -> R) (ok : f64 -> Prop) (Hop : op_rel op rop ok).
Context (R0 : QFull F64).
Hypothesis LR : QLaws R0.
Hypothesis Hfit : forall m, q_fit R0 m = HasRefUnit__fit R0 m.
Hypothesis Hscales : forall w, In w (u_iter R0) -> fin (u_scale R0 w) /\ val (u_scale R0 w) <> 0.
Variables su sv a b : f64.
Hypotheses (Fu : fin su) (Fv : fin sv) (Fa : fin a) (Fb : fin b) (Okv : ok sv) (Okb : ok b).
Hypothesis Nsc : normal (rop (val su) (val sv)).
Hypothesis Nab : normal (rop (val a) (val b)).

Definition mag_o (z : Qt R0) : R := val (q_amount R0 z) * val (u_scale R0 (q_unit R0 z)).

(** natural unit: two roundings (the combined scale and the combined amount) *)
Theorem derived_magnitude_natural w : HasRefUnit_unit_from_scale R0 (op su sv) = Some w ->
  exists z d0 d1,
    @derived_nf F64 (fun x y : f64 => Ok (op x y)) R0 su sv a b = Ok z /\ q_unit R0 z = w /\ In w (u_iter R0) /\
    Rabs d0 <= u64 /\ Rabs d1 <= u64 /\
    mag_o z = rop (val a) (val b) * rop (val su) (val sv) * (1 + d0) * (1 + d1).
Proof.
  intros Ew. unfold derived_nf. cbn [bind]. rewrite Ew. cbn [bind].
  destruct (Hop su sv Fu Fv Okv Nsc) as (d0 & Hd0 & Fsc & Esc).
  destruct (Hop a b Fa Fb Okb Nab) as (d1 & Hd1 & Fab & Eab).
  destruct (c09_from_scale R0 (op su sv)) as [Hs E]. rewrite <- E, Ew in Hs. destruct Hs as (l1 & l2 & E1 & Heq & _).
  assert (Hin : In w (u_iter R0)) by (rewrite E1; apply in_or_app; right; left; reflexivity).
  destruct (Hscales w Hin) as [Fw _].
  exists (q_new R0 (op a b) w), d0, d1. split; [reflexivity|].
  unfold mag_o. rewrite (law_unit_new R0 LR _ _ Hin), (law_amount_new R0 LR). split; [reflexivity|]. split; [exact Hin|].
  split; [exact Hd0|]. split; [exact Hd1|].
  cbn [a_eqb F64] in Heq. rewrite (f64_eqb_val _ _ Fw Fsc Heq), Eab, Esc. ring.
Qed.

(** no natural unit: _fit re-expresses (a op b) * sc in the unit w it selects: four roundings *)
Theorem derived_magnitude_fit : HasRefUnit_unit_from_scale R0 (op su sv) = None ->
  In (u_ref_unit R0) (u_iter R0) ->
  normal (val (op a b) * val (op su sv)) ->
  (forall w, In w (u_iter R0) -> normal (val (f64_mul (op a b) (op su sv)) / val (u_scale R0 w))) ->
  exists z d0 d1 d2 d3,
    @derived_nf F64 (fun x y : f64 => Ok (op x y)) R0 su sv a b = Ok z /\ In (q_unit R0 z) (u_iter R0) /\
    fit_unit R0 (f64_mul (op a b) (op su sv)) = Some (q_unit R0 z) /\
    Rabs d0 <= u64 /\ Rabs d1 <= u64 /\ Rabs d2 <= u64 /\ Rabs d3 <= u64 /\
    mag_o z = rop (val a) (val b) * rop (val su) (val sv) * (1 + d0) * (1 + d1) * (1 + d2) * (1 + d3).
Proof.
  intros Ew Href [Nm Nm'] Nfit. unfold derived_nf. cbn [bind]. rewrite Ew. cbn [bind a_mul F64].
  destruct (Hop su sv Fu Fv Okv Nsc) as (d0 & Hd0 & Fsc & Esc).
  destruct (Hop a b Fa Fb Okb Nab) as (d1 & Hd1 & Fab & Eab).
  destruct (f64_mul_rel (op a b) (op su sv) Fab Fsc Nm Nm') as (d2 & Hd2 & Fm & Em).
  rewrite Hfit, fit_spec.
  destruct (fit_unit_total R0 Href (f64_mul (op a b) (op su sv))) as [w Eu]. rewrite Eu.
  destruct (fit_unit_in_registry R0 _ w Eu) as [_ Hin].
  destruct (Hscales w Hin) as [Fw Hw0]. destruct (Nfit w Hin) as [Nq Nq'].
  cbn [a_div F64 bind].
  destruct (f64_div_rel _ (u_scale R0 w) Fm Fw Hw0 Nq Nq') as (d3 & Hd3 & Fx & Ex).
  eexists _, d0, d1, d2, d3. split; [reflexivity|].
  unfold mag_o. rewrite (law_unit_new R0 LR _ _ Hin), (law_amount_new R0 LR).
  split; [exact Hin|]. split; [reflexivity|]. repeat (split; [assumption|]).
  rewrite Ex, Em, Eab, Esc. field. exact Hw0.
Qed.
End Derived.

(** the generated operators are instances: products with op = *, quotients with op = / *)
Lemma mul_template_is_derived (L Rr : QBase F64) (R0 : QFull F64) x y :
  tmpl_Mul_Qty_Qty L Rr R0 x y =
  @derived_nf F64 (fun a b : f64 => Ok (f64_mul a b)) R0 (u_scale L (q_unit L x)) (u_scale Rr (q_unit Rr y)) (q_amount L x) (q_amount Rr y).
Proof. rewrite mul_qty_qty_nf. reflexivity. Qed.
Lemma div_template_is_derived (L Rr : QBase F64) (R0 : QFull F64) x y :
  tmpl_Div_Qty_Qty L Rr R0 x y =
  @derived_nf F64 (fun a b : f64 => Ok (f64_div a b)) R0 (u_scale L (q_unit L x)) (u_scale Rr (q_unit Rr y)) (q_amount L x) (q_amount Rr y).
Proof. rewrite div_qty_qty_nf. reflexivity. Qed.

(** * C14: a table conversion is amount * factor + offset with two roundings *)
Theorem affine_magnitude (S : QBase F64) (LS : QLaws S) (q : Qt S) (to : nat) (k c : f64) :
  In to (u_iter S) -> fin (q_amount S q) -> fin k -> fin c ->
  normal (val (q_amount S q) * val k) -> normal (val (f64_mul (q_amount S q) k) + val c) ->
  exists z d1 d2, affine S q to (k, c) = Ok (Some z) /\ q_unit S z = to /\
    Rabs d1 <= u64 /\ Rabs d2 <= u64 /\
    val (q_amount S z) = (val (q_amount S q) * val k * (1 + d1) + val c) * (1 + d2).
Proof.
  intros Hin Fa Fk Fc [N1 N1'] [N2 N2']. unfold affine. cbn [fst snd a_mul a_add F64 bind].
  destruct (f64_mul_rel _ _ Fa Fk N1 N1') as (d1 & Hd1 & Fm & Em).
  destruct (f64_add_rel _ _ Fm Fc N2 N2') as (d2 & Hd2 & Fs & Es).
  eexists _, d1, d2. split; [reflexivity|]. split; [apply (law_unit_new S LS); exact Hin|].
  rewrite (law_amount_new S LS). split; [exact Hd1|]. split; [exact Hd2|]. rewrite Es, Em. reflexivity.
Qed.
