(* Proofs/C03.v — sum, difference and ratio of like quantities with a
   reference unit (property C03), structural part. *)
From Coq Require Import Lia.
From QV Require Import Rt.Prelude Rt.Amount Rt.Quantity Macro.Defs Gen.Prefixes Gen.Catalogue
  Gen.Kernels Macro.Inst Proofs.Laws Proofs.Kernel Proofs.Instances.

Section C03.
Context {am : Amount} (S : QBase am).

(** right operand converted to the left operand's unit *)
Definition rhs_in_lhs_unit (x y : Qt S) : res am := HasRefUnit_equiv_amount S y (q_unit S x).

Lemma c03_kernels x y :
  HasRefUnit_add S x y = bind (rhs_in_lhs_unit x y) (fun b => bind (a_add am (q_amount S x) b) (fun s => Ok (q_new S s (q_unit S x)))) /\
  HasRefUnit_sub S x y = bind (rhs_in_lhs_unit x y) (fun b => bind (a_sub am (q_amount S x) b) (fun s => Ok (q_new S s (q_unit S x)))) /\
  HasRefUnit_div S x y = bind (rhs_in_lhs_unit x y) (fun b => a_div am (q_amount S x) b).
Proof. split; [apply ref_add_kernel|split; [apply ref_sub_kernel|apply ref_div_kernel]]. Qed.

Lemma c03_rhs_conversion x y :
  (q_unit S y = q_unit S x -> rhs_in_lhs_unit x y = Ok (q_amount S y)) /\
  (q_unit S y <> q_unit S x -> rhs_in_lhs_unit x y =
     bind (a_div am (u_scale S (q_unit S y)) (u_scale S (q_unit S x))) (fun r => a_mul am r (q_amount S y))).
Proof.
  unfold rhs_in_lhs_unit. split; intros H.
  - rewrite <- H. apply equiv_amount_same.
  - apply equiv_amount_diff. exact H.
Qed.

Lemma c03_same_unit x y : q_unit S x = q_unit S y ->
  HasRefUnit_add S x y = bind (a_add am (q_amount S x) (q_amount S y)) (fun s => Ok (q_new S s (q_unit S x))) /\
  HasRefUnit_sub S x y = bind (a_sub am (q_amount S x) (q_amount S y)) (fun s => Ok (q_new S s (q_unit S x))) /\
  HasRefUnit_div S x y = a_div am (q_amount S x) (q_amount S y).
Proof.
  intros E. split; [apply ref_add_same_unit; exact E|split; [apply ref_sub_same_unit; exact E|apply ref_div_same_unit; exact E]].
Qed.

Lemma c03_result_unit (L : QLaws S) x y r : In (q_unit S x) (u_iter S) ->
  (HasRefUnit_add S x y = Ok r -> q_unit S r = q_unit S x) /\
  (HasRefUnit_sub S x y = Ok r -> q_unit S r = q_unit S x).
Proof. intros Hin. split; [apply ref_add_unit|apply ref_sub_unit]; assumption. Qed.
End C03.

(** the generated operator impls on the reference-unit path forward to these kernels *)
Lemma c03_operators (am : Amount) (g : gen_def SIPrefix) : gd_path g = PRef ->
  forall x y : Qt (base_of_gen am g),
  q_add (full_of_gen am g) x y = HasRefUnit_add (base_of_gen am g) x y /\
  q_sub (full_of_gen am g) x y = HasRefUnit_sub (base_of_gen am g) x y /\
  q_div (full_of_gen am g) x y = HasRefUnit_div (base_of_gen am g) x y.
Proof. intros Hp x y. cbn [q_add q_sub q_div full_of_gen]. rewrite Hp. repeat split. Qed.

Lemma c03_dimensionless (am : Amount) (a b : am) :
  q_add (amount_full am) a b = a_add am a b /\ q_sub (amount_full am) a b = a_sub am a b /\
  q_div (amount_full am) a b = a_div am a b.
Proof. repeat split. Qed.
