(* Proofs/C07.v — the catalogue tables against the independent specification
   Spec/Units.v (property C07).  All statements are over finite tables and are
   decided by kernel computation, except the parsec family (1/pi), which is
   bounded with the interval tactic. *)
From Coq Require Import Lia QArith Qabs.
From Flocq Require Import IEEE754.Binary IEEE754.Bits.
From QV Require Import Rt.Prelude Rt.Amount Rt.Quantity Macro.Defs Macro.Casing Gen.Prefixes Gen.Catalogue
  Gen.Kernels Macro.Inst Amount.F64 Amount.DecModel Amount.Dec Proofs.Laws Proofs.Instances Proofs.C09 Proofs.C14 Spec.Units.
Local Close Scope Q_scope.

(** exact rational value of a finite binary64 *)
Definition b64_to_Q (x : f64) : option Q :=
  match x with
  | B754_zero _ _ _ => Some 0%Q
  | B754_finite _ _ s m e _ =>
      let mz := if s then Zneg m else Zpos m in
      Some (if (0 <=? e)%Z then inject_Z (mz * 2 ^ e) else Qmake mz (Z.to_pos (2 ^ (- e))))
  | _ => None
  end.

Definition dec_to_Q (d : dec) : Q := Qmake (d_coeff d) (Z.to_pos (10 ^ d_nfd d)).

(** a terminating decimal: the reduced denominator divides a power of ten *)
Definition Q_terminates (y : Q) : bool := Z.eqb ((10 ^ 80) mod Zpos (Qden (Qred y))) 0.

(** relative error at most 2^-52 (f64::EPSILON) *)
Definition rel_close (x spec : Q) : bool :=
  Qle_bool (Qabs (x - spec)%Q) (Qabs spec * (1 # 4503599627370496))%Q.
(** absolute error at most 10^-18 (Decimal::DELTA) *)
Definition abs_close (x spec : Q) : bool :=
  Qle_bool (Qabs (x - spec)%Q) (1 # 1000000000000000000)%Q.

Definition spec_of (e : cat_entry SIPrefix) : option (list uspec) :=
  match List.find (fun x => ustr_eqb (fst (fst x)) (ce_crate e) && ustr_eqb (snd (fst x)) (gd_qty (ce_gen e))) spec_catalogue with
  | Some (_, _, l) => Some l
  | None => None
  end.

Definition prefix_text (o : option SIPrefix) : option ustring := option_map SIPrefix_ident o.

Section PerUnit.
Variable with_dec : bool.
Variable e : cat_entry SIPrefix.
Let g := ce_gen e.

Definition scale_matches (u : nat) (d : sdef) : bool :=
  match d with
  | DNoScale => match gd_path g with PRef => false | _ => true end
  | DOverPi _ => opt_is_some (gen_scale_lit g u)          (* bounded separately (reals) *)
  | DQ q =>
      match gen_scale_lit g u with
      | None => false
      | Some l =>
          (* the literal's exact value is the definition whenever that terminates *)
          (if Q_terminates q then Qeq_bool (lit_Q l) q else true)
          (* binary64: within f64::EPSILON of the definition *)
          && match b64_to_Q (gen_scale F64 g u) with Some x => rel_close x q | None => false end
          (* decimal: the definition itself when it has <= 18 decimals, else within Decimal::DELTA *)
          && (if with_dec then
                match a_of_lit DEC l with
                | Some dd => if Q_terminates18 q then Qeq_bool (dec_to_Q dd) q else abs_close (dec_to_Q dd) q
                | None => false
                end
              else true)
      end
  end.

Definition unit_matches (sp : list uspec) (u : nat) : bool :=
  match List.find (fun r => ustr_eqb (us_name r) (gen_name g u)) sp with
  | None => false
  | Some r =>
      ustr_eqb (us_symbol r) (gen_symbol g u)
      && opt_eqb ustr_eqb (us_prefix r) (prefix_text (gen_si_prefix g u))
      && scale_matches u (us_def r)
  end.

(** SI consistency: an SI-prefixed unit's literal is exactly ten to the
    difference of its prefix exponent and the reference unit's *)
Definition si_consistent (u : nat) : bool :=
  match gd_path g, gen_si_prefix g u, gen_si_prefix g (gen_ref g), gen_scale_lit g u with
  | PRef, Some p, Some pr, Some l => Qeq_bool (lit_Q l) (p10 (SIPrefix_exp p - SIPrefix_exp pr))
  | PRef, Some _, Some _, None => false
  | _, _, _, _ => true
  end.

Definition entry_matches_spec : bool :=
  match spec_of e with
  | None => false
  | Some sp =>
      Nat.eqb (List.length sp) (List.length (gd_VARIANTS g))
      && nodupb (map us_name sp)
      && forallb (unit_matches sp) (gen_iter g)
      && forallb si_consistent (gen_iter g)
      && match gd_path g with
         | PRef => match gen_scale_lit g (gen_ref g) with Some l => Qeq_bool (lit_Q l) 1 | None => false end
         | _ => true
         end
  end.
End PerUnit.

Lemma main_crate_matches_spec : forallb (entry_matches_spec true) catalogue_main = true.
Proof. vm_compute. reflexivity. Qed.

Lemma astro_crate_matches_spec : forallb (entry_matches_spec false) catalogue_astro = true.
Proof. vm_compute. reflexivity. Qed.

Lemma catalogue_sizes :
  List.length catalogue_main = 14 /\ List.length catalogue_astro = 4 /\
  List.length (flat_map (fun e => gd_VARIANTS (ce_gen e)) catalogue_main) = 112 /\
  List.length (flat_map (fun e => gd_VARIANTS (ce_gen e)) catalogue_astro) = 27.
Proof. repeat split; vm_compute; reflexivity. Qed.
