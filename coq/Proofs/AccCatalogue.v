(* Proofs/AccCatalogue.v — the scale premises of the binary64 conversion theorem
   (Proofs/AccF64.v, convert_magnitude_bound) discharged for every catalogue
   quantity with a reference unit and every ordered pair of its units, by
   computation on the exact rational values of the scales (b64_to_Q, C07.v):
   every scale is finite and non-zero and every ratio of two scales of a
   quantity lies in the normal range of binary64.  What is left are premises on
   the amount only.  Decimal analogue: every scale of the main crate fits the
   decimal amount type (dfit) and is non-zero. *)
From Coq Require Import Reals ZArith Lra Lia Bool List QArith Qabs Qreals.
From Flocq Require Import Core IEEE754.BinarySingleNaN IEEE754.Binary IEEE754.Bits.
From QV Require Import Rt.Prelude Rt.Amount Rt.Quantity Macro.Defs Gen.Prefixes Gen.Catalogue Gen.Kernels Macro.Inst
  Amount.F64 Amount.F64Acc Amount.DecModel Amount.Dec Proofs.Laws Proofs.Kernel Proofs.Instances Proofs.C07 Proofs.AccF64.
From QV Require Amount.Laws Amount.DecAcc Proofs.AccDec.
Local Close Scope Q_scope.
Local Open Scope R_scope.

(** * 1. the rational view of a finite binary64 is its real value *)
Lemma Q2R_0 : Q2R 0%Q = 0.
Proof. unfold Q2R. cbn. lra. Qed.

Lemma b64_to_Q_sound (x : f64) (q : Q) :
  b64_to_Q x = Some q -> is_finite 53 1024 x = true /\ B2R 53 1024 x = Q2R q.
Proof.
  destruct x as [s| s | s pl Hpl | s m e Hb]; cbn [b64_to_Q]; try discriminate.
  - intros [= <-]. split; [reflexivity|]. cbn [B2R]. symmetry. exact Q2R_0.
  - intros [= <-]. split; [reflexivity|]. cbn [B2R]. unfold F2R. cbn [Fnum Fexp].
    replace (cond_Zopp s (Z.pos m)) with (if s then Z.neg m else Z.pos m) by (destruct s; reflexivity).
    set (mz := if s then Z.neg m else Z.pos m).
    destruct (Z.leb_spec 0 e) as [He|He].
    + unfold Q2R, inject_Z. cbn [Qnum Qden]. rewrite mult_IZR, <- (IZR_Zpower radix2 e He).
      change (Zpower radix2 e) with (2 ^ e)%Z. rewrite Rinv_1. ring.
    + unfold Q2R. cbn [Qnum Qden].
      assert (Hp : (0 < 2 ^ (- e))%Z) by (apply Z.pow_pos_nonneg; lia).
      rewrite Z2Pos.id by exact Hp.
      replace e with (- (- e))%Z at 1 by lia. rewrite bpow_opp.
      rewrite <- (IZR_Zpower radix2 (- e)) by lia. reflexivity.
Qed.

(** * 2. the normal range, decided on rationals *)
Definition qtiny : Q := Qmake 1 (Z.to_pos (2 ^ 1022)).
Definition qhuge : Q := inject_Z (2 ^ 1024).
Definition qu64 : Q := Qmake 1 (Z.to_pos (2 ^ 53)).

Definition normalQ (q : Q) : bool :=
  Qle_bool qtiny (Qabs q) && negb (Qle_bool qhuge (Qabs q * (1 + qu64))%Q).

Lemma Q2R_inv_pow2 (k : Z) : (0 <= k)%Z -> Q2R (Qmake 1 (Z.to_pos (2 ^ k))) = bpow radix2 (- k).
Proof.
  intros Hk. unfold Q2R. cbn [Qnum Qden].
  rewrite Z2Pos.id by (apply Z.pow_pos_nonneg; lia).
  rewrite bpow_opp, <- (IZR_Zpower radix2 k Hk). change (Zpower radix2 k) with (2 ^ k)%Z. ring.
Qed.

Lemma Q2R_qtiny : Q2R qtiny = tiny.
Proof. unfold qtiny, tiny. rewrite (Q2R_inv_pow2 1022) by lia. reflexivity. Qed.

Lemma Q2R_qhuge : Q2R qhuge = huge.
Proof.
  unfold qhuge, huge, Q2R, inject_Z. cbn [Qnum Qden]. rewrite Rinv_1, Rmult_1_r.
  rewrite <- (IZR_Zpower radix2 1024) by lia. reflexivity.
Qed.

Lemma Q2R_qu64 : Q2R qu64 = u64.
Proof.
  unfold qu64, u64. rewrite (Q2R_inv_pow2 53) by lia. change (-53 + 1)%Z with (-52)%Z.
  transitivity (bpow radix2 (-1 + -52)); [reflexivity|]. rewrite bpow_plus.
  replace (bpow radix2 (-1)) with (/ 2); [reflexivity|]. cbn. unfold Z.pow_pos. cbn. reflexivity.
Qed.

Lemma Q2R_abs (q : Q) : Q2R (Qabs q) = Rabs (Q2R q).
Proof.
  destruct (Qlt_le_dec q 0) as [H|H].
  - assert (Hq : Q2R q < 0) by (rewrite <- Q2R_0; apply Qlt_Rlt; exact H).
    rewrite (Qeq_eqR _ _ (Qabs_neg q (Qlt_le_weak _ _ H))), Q2R_opp, Rabs_left by exact Hq. reflexivity.
  - assert (Hq : 0 <= Q2R q) by (rewrite <- Q2R_0; apply Qle_Rle; exact H).
    rewrite (Qeq_eqR _ _ (Qabs_pos q H)), Rabs_pos_eq by exact Hq. reflexivity.
Qed.

Lemma normalQ_sound (q : Q) : normalQ q = true -> normal (Q2R q).
Proof.
  unfold normalQ, normal. rewrite andb_true_iff, negb_true_iff. intros [H1 H2]. split.
  - apply Qle_bool_iff, Qle_Rle in H1. rewrite Q2R_qtiny, Q2R_abs in H1. exact H1.
  - assert (H : (Qabs q * (1 + qu64) < qhuge)%Q).
    { apply Qnot_le_lt. intros C. apply Qle_bool_iff in C. rewrite C in H2. discriminate. }
    apply Qlt_Rlt in H. rewrite Q2R_mult, Q2R_plus, Q2R_abs, Q2R_qu64, Q2R_qhuge in H.
    replace (Q2R 1) with 1 in H by (unfold Q2R; cbn; lra). exact H.
Qed.

(** * 3. the computed fact: all scales and all ratios of scales of a quantity *)
Definition scaleQ (g : gen_def SIPrefix) (u : nat) : option Q := b64_to_Q (gen_scale F64 g u).

Definition pairQ_ok (a b : option Q) : bool :=
  match a, b with
  | Some x, Some y => negb (Qeq_bool y 0) && normalQ (x / y)
  | _, _ => false
  end.

Definition scales_ok (g : gen_def SIPrefix) : bool :=
  match gd_path g with
  | PRef => let l := map (scaleQ g) (gen_iter g) in forallb (fun a => forallb (fun b => pairQ_ok a b) l) l
  | _ => true
  end.

Definition catalogue_ref : list (cat_entry SIPrefix) := catalogue_main ++ catalogue_astro.

Lemma catalogue_scales_ok : forallb (fun e => scales_ok (ce_gen e)) catalogue_ref = true.
Proof. vm_compute. reflexivity. Qed.

(** the fact is not vacuous: 17 quantities with a reference unit, 136 units,
    1520 pairs (diagonal included); and the test does reject (zero is not normal) *)
Lemma catalogue_scales_ok_counts :
  let refs := filter (fun e => match gd_path (ce_gen e) with PRef => true | _ => false end) catalogue_ref in
  length refs = 17%nat /\
  length (flat_map (fun e => gen_iter (ce_gen e)) refs) = 136%nat /\
  length (flat_map (fun e => list_prod (gen_iter (ce_gen e)) (gen_iter (ce_gen e))) refs) = 1520%nat /\
  normalQ 0 = false.
Proof. vm_compute. repeat split. Qed.

(** what the test means for one pair of units *)
Lemma pairQ_ok_sound (x y : f64) :
  pairQ_ok (b64_to_Q x) (b64_to_Q y) = true ->
  is_finite 53 1024 x = true /\ is_finite 53 1024 y = true /\ B2R 53 1024 y <> 0 /\
  normal (B2R 53 1024 x / B2R 53 1024 y).
Proof.
  unfold pairQ_ok. destruct (b64_to_Q x) as [a|] eqn:Ex; [|discriminate].
  destruct (b64_to_Q y) as [b|] eqn:Ey; [|discriminate].
  rewrite andb_true_iff, negb_true_iff. intros [Hb Hn].
  destruct (b64_to_Q_sound x a Ex) as [Fx Vx]. destruct (b64_to_Q_sound y b Ey) as [Fy Vy].
  assert (Hb0 : ~ (b == 0)%Q).
  { intros C. apply Qeq_bool_iff in C. rewrite C in Hb. discriminate. }
  split; [exact Fx|]. split; [exact Fy|]. rewrite Vx, Vy. split.
  - intros C. apply Hb0. apply eqR_Qeq. rewrite C, Q2R_0. reflexivity.
  - rewrite <- (Q2R_div a b Hb0). apply normalQ_sound. exact Hn.
Qed.

Lemma base_of_gen_scale am g u : u_scale (base_of_gen am g) u = gen_scale am g u.
Proof. unfold base_of_gen. destruct (gd_path g); reflexivity. Qed.

Lemma catalogue_ref_all e : In e catalogue_ref -> In e all_entries.
Proof.
  unfold catalogue_ref, all_entries. rewrite !in_app_iff. tauto.
Qed.

(** every scale of a catalogue quantity with a reference unit is finite and
    non-zero, and the ratio of any two of them is in the normal range *)
Theorem catalogue_scales (e : cat_entry SIPrefix) (u v : nat) :
  In e catalogue_ref -> gd_path (ce_gen e) = PRef ->
  In u (gen_iter (ce_gen e)) -> In v (gen_iter (ce_gen e)) ->
  let su := gen_scale F64 (ce_gen e) u in let sv := gen_scale F64 (ce_gen e) v in
  is_finite 53 1024 su = true /\ is_finite 53 1024 sv = true /\ B2R 53 1024 sv <> 0 /\
  normal (B2R 53 1024 su / B2R 53 1024 sv).
Proof.
  intros He Hp Hu Hv su sv. pose proof catalogue_scales_ok as H. rewrite forallb_forall in H.
  specialize (H e He). unfold scales_ok in H. rewrite Hp in H. cbv zeta in H.
  rewrite forallb_forall in H. specialize (H (scaleQ (ce_gen e) u) (in_map _ _ _ Hu)).
  rewrite forallb_forall in H. specialize (H (scaleQ (ce_gen e) v) (in_map _ _ _ Hv)).
  exact (pairQ_ok_sound su sv H).
Qed.

(** * 4. the conversion theorem for every catalogue type: premises on the amount only *)
Theorem catalogue_convert_bound (e : cat_entry SIPrefix) :
  In e (catalogue_main ++ catalogue_astro) -> gd_path (ce_gen e) = PRef ->
  let S := base_of_gen F64 (ce_gen e) in
  forall (q : Qt S) (v : nat), q_unit S q <> v -> In v (u_iter S) -> In (q_unit S q) (u_iter S) ->
  is_finite 53 1024 (q_amount S q) = true ->
  normal (B2R 53 1024 (f64_div (u_scale S (q_unit S q)) (u_scale S v)) * B2R 53 1024 (q_amount S q)) ->
  exists q', HasRefUnit_convert S q v = Ok q' /\ q_unit S q' = v /\
    Rabs (B2R 53 1024 (q_amount S q') * B2R 53 1024 (u_scale S v) - magnitude S q) <= ((1 + u64) ^ 2 - 1) * Rabs (magnitude S q).
Proof.
  intros He Hp S q v Hne Hv Hu Fa Np.
  assert (L : QLaws S) by (apply entry_laws, catalogue_ref_all; exact He).
  assert (Hv' : In v (gen_iter (ce_gen e))) by (rewrite <- (base_of_gen_iter F64); exact Hv).
  assert (Hu' : In (q_unit S q) (gen_iter (ce_gen e))) by (rewrite <- (base_of_gen_iter F64); exact Hu).
  destruct (catalogue_scales e (q_unit S q) v He Hp Hu' Hv') as (Fu & Fv & Hv0 & Nr).
  rewrite <- (base_of_gen_scale F64 (ce_gen e) (q_unit S q)) in Fu, Nr.
  rewrite <- (base_of_gen_scale F64 (ce_gen e) v) in Fv, Hv0, Nr.
  exact (convert_magnitude_bound S L q v Hne Hv Fa Fu Fv Hv0 Nr Np).
Qed.

(** * 5. decimal configuration (main crate): every scale fits the decimal type and is non-zero *)
Import Amount.Laws Amount.DecAcc Proofs.AccDec.

Definition dfitb (d : dec) : bool :=
  (0 <=? d_nfd d)%Z && (d_nfd d <=? 18)%Z && (Z.abs (d_coeff d) <=? i128_max)%Z && negb (d_coeff d =? 0)%Z.

Definition dec_scales_ok (g : gen_def SIPrefix) : bool :=
  match gd_path g with
  | PRef => forallb (fun u => dfitb (gen_scale DEC g u)) (gen_iter g)
  | _ => true
  end.

Lemma catalogue_dec_scales_ok : forallb (fun e => dec_scales_ok (ce_gen e)) catalogue_main = true.
Proof. vm_compute. reflexivity. Qed.

Lemma dfitb_sound d : dfitb d = true -> dfit d /\ dval d <> 0.
Proof.
  unfold dfitb. rewrite !andb_true_iff, negb_true_iff, !Z.leb_le, Z.eqb_neq. intros [[[H1 H2] H3] H4].
  split; [split; [split; assumption|exact H3]|].
  unfold dval. pose proof (IZR_ten_pow_pos (d_nfd d) H1) as P.
  assert (IZR (d_coeff d) <> 0) by (apply not_0_IZR; exact H4).
  intros C. apply Rmult_integral in C. destruct C as [C|C]; [contradiction|].
  pose proof (Rinv_0_lt_compat _ P). lra.
Qed.

Theorem catalogue_dec_scales (e : cat_entry SIPrefix) (u : nat) :
  In e catalogue_main -> gd_path (ce_gen e) = PRef ->
  let S := base_of_gen DEC (ce_gen e) in
  In u (u_iter S) -> dfit (u_scale S u) /\ dval (u_scale S u) <> 0.
Proof.
  intros He Hp S Hu. unfold S in *. rewrite base_of_gen_iter in Hu. rewrite base_of_gen_scale.
  pose proof catalogue_dec_scales_ok as H. rewrite forallb_forall in H. specialize (H e He).
  unfold dec_scales_ok in H. rewrite Hp, forallb_forall in H. exact (dfitb_sound _ (H u Hu)).
Qed.

Print Assumptions catalogue_convert_bound.
Print Assumptions catalogue_dec_scales.
