(* Proofs/C15f64exp.v — the complete decimal expansion of a binary64 value always
   reads back as the same double, hence the read-back test [digits_ok] of
   Proofs/C15f64.v never fails and Display text of every non-NaN double parses
   back to the identical value. *)
From Coq Require Import ZArith NArith List Bool Lia Reals Lra.
From Coq Require Import Floats.SpecFloat.
From Flocq Require Import Core.Zaux Core.Raux Core.Defs Core.Float_prop Core.Generic_fmt.
From Flocq Require Import IEEE754.BinarySingleNaN IEEE754.Binary IEEE754.Bits.
From QV Require Import Rt.Prelude Rt.Fmt Proofs.C15f64.
Import ListNotations.
Local Open Scope Z_scope.

Definition Hp53 : FLX.Prec_gt_0 53 := eq_refl.
Definition Hm1024 : Prec_lt_emax 53 1024 := eq_refl.

(** * Step 1: digits *)
Definition le9 (d : N) : Prop := (d <= 9)%N.

(** [digits_val] with an explicit accumulator *)
Definition dv (a : Z) (ds : list N) : Z := fold_left (fun a d => 10 * a + Z.of_N d) ds a.

Lemma digits_val_dv ds : digits_val ds = dv 0 ds.
Proof. reflexivity. Qed.

Lemma dv_nil a : dv a [] = a.
Proof. reflexivity. Qed.

Lemma dv_cons a d l : dv a (d :: l) = dv (10 * a + Z.of_N d) l.
Proof. reflexivity. Qed.

Lemma dv_app a l1 l2 : dv a (l1 ++ l2) = dv (dv a l1) l2.
Proof. apply fold_left_app. Qed.

Lemma dv_repeat0 k : forall a, dv a (repeat 0%N k) = a * 10 ^ Z.of_nat k.
Proof.
  induction k as [|k IH]; intros a.
  - cbn [repeat]. rewrite dv_nil. change (Z.of_nat 0) with 0. rewrite Z.pow_0_r. lia.
  - cbn [repeat]. rewrite dv_cons, IH, Nat2Z.inj_succ, Z.pow_succ_r by lia.
    change (Z.of_N 0) with 0. ring.
Qed.

Lemma digits_val_zeros_l k ds : digits_val (repeat 0%N k ++ ds) = digits_val ds.
Proof. rewrite !digits_val_dv, dv_app, dv_repeat0. reflexivity. Qed.

Lemma digits_val_zeros_r k ds : digits_val (ds ++ repeat 0%N k) = digits_val ds * 10 ^ Z.of_nat k.
Proof. rewrite !digits_val_dv, dv_app, dv_repeat0. reflexivity. Qed.

Lemma digits_val_snoc l d : digits_val (l ++ [d]) = 10 * digits_val l + Z.of_N d.
Proof. rewrite !digits_val_dv, dv_app, dv_cons, dv_nil. reflexivity. Qed.

Lemma digits_fuel_eq fuel n acc :
  digits_fuel fuel n acc =
  if n <=? 0 then acc
  else
    let '(q, r) := Z.div_eucl n 10 in
    let acc' := Z.to_N r :: acc in
    match fuel with
    | xH => acc'
    | xO f | xI f => digits_fuel f q acc'
    end.
Proof. destruct fuel; reflexivity. Qed.

(** one bit of fuel per decimal digit is enough *)
Lemma digits_fuel_spec fuel : forall n acc, 0 <= n <= Zpos fuel ->
  exists l, digits_fuel fuel n acc = l ++ acc /\ digits_val l = n /\ Forall le9 l /\ (0 < n -> l <> []).
Proof.
  induction fuel as [f IH|f IH|]; intros n acc Hn; rewrite digits_fuel_eq;
    (destruct (Z.leb_spec n 0) as [H0|H0];
     [exists []; split; [reflexivity|split; [rewrite digits_val_dv, dv_nil; lia|split; [constructor|lia]]]|]).
  - pose proof (Z_div_mod n 10 eq_refl) as D. destruct (Z.div_eucl n 10) as [q r]. destruct D as [D1 D2].
    cbv zeta.
    destruct (IH q (Z.to_N r :: acc)) as (l & E & V & F & _); [lia|].
    exists (l ++ [Z.to_N r]). rewrite E, <- app_assoc. split; [reflexivity|].
    split; [rewrite digits_val_snoc, V, Z2N.id; lia|].
    split; [apply Forall_app; split; [exact F|constructor; [unfold le9; lia|constructor]]|].
    intros _. destruct l; discriminate.
  - pose proof (Z_div_mod n 10 eq_refl) as D. destruct (Z.div_eucl n 10) as [q r]. destruct D as [D1 D2].
    cbv zeta.
    destruct (IH q (Z.to_N r :: acc)) as (l & E & V & F & _); [lia|].
    exists (l ++ [Z.to_N r]). rewrite E, <- app_assoc. split; [reflexivity|].
    split; [rewrite digits_val_snoc, V, Z2N.id; lia|].
    split; [apply Forall_app; split; [exact F|constructor; [unfold le9; lia|constructor]]|].
    intros _. destruct l; discriminate.
  - assert (n = 1) as -> by lia. exists [1%N]. split; [reflexivity|].
    split; [reflexivity|]. split; [constructor; [unfold le9; lia|constructor]|discriminate].
Qed.

Lemma to_digits_spec p :
  digits_val (to_digits (Zpos p)) = Zpos p /\ Forall le9 (to_digits (Zpos p)) /\ to_digits (Zpos p) <> [].
Proof.
  unfold to_digits. destruct (digits_fuel_spec p (Zpos p) []) as (l & E & V & F & Hne); [lia|].
  rewrite E, app_nil_r. split; [exact V|]. split; [exact F|]. apply Hne. lia.
Qed.

(** digit characters *)
Lemma dchars_app a b : dchars (a ++ b) = dchars a ++ dchars b.
Proof. apply map_app. Qed.

Lemma zeros_dchars z : zeros z = dchars (repeat 0%N (Z.to_nat z)).
Proof.
  unfold zeros, dchars. induction (Z.to_nat z) as [|k IH]; [reflexivity|].
  cbn [repeat map]. rewrite <- IH. reflexivity.
Qed.

Lemma zeros_nonpos z : z <= 0 -> zeros z = [].
Proof. intros H. unfold zeros. replace (Z.to_nat z) with 0%nat by lia. reflexivity. Qed.

Lemma Forall_le9_repeat0 k : Forall le9 (repeat 0%N k).
Proof. induction k; cbn [repeat]; constructor; [unfold le9; lia|assumption]. Qed.

Lemma is_digit_dchar d : le9 d -> is_digit (c_zero + d) = true.
Proof.
  intros H. unfold is_digit, c_zero, le9 in *. apply andb_true_iff. split; apply N.leb_le; lia.
Qed.

Lemma take_digits_cons_digit c r :
  is_digit c = true -> take_digits (c :: r) = ((c - 48)%N :: fst (take_digits r), snd (take_digits r)).
Proof. intros H. cbn [take_digits]. rewrite H. destruct (take_digits r); reflexivity. Qed.

Lemma take_digits_dchars ds rest : Forall le9 ds ->
  take_digits (dchars ds ++ rest) = (ds ++ fst (take_digits rest), snd (take_digits rest)).
Proof.
  induction 1 as [|d ds Hd F IH].
  - cbn [dchars map app]. destruct (take_digits rest); reflexivity.
  - change (dchars (d :: ds) ++ rest) with ((c_zero + d)%N :: (dchars ds ++ rest)).
    rewrite take_digits_cons_digit by (apply is_digit_dchar; exact Hd).
    rewrite IH. cbn [fst snd app]. f_equal. f_equal. unfold c_zero, le9 in *. lia.
Qed.

Lemma take_digits_dchars_end ds : Forall le9 ds -> take_digits (dchars ds) = (ds, []).
Proof.
  intros F. rewrite <- (app_nil_r (dchars ds)), take_digits_dchars by exact F.
  cbn [take_digits fst snd]. rewrite app_nil_r. reflexivity.
Qed.

(** * Step 2: what the parser sees *)
Lemma digit_not_special d r : le9 d ->
  is_inf_text ((c_zero + d)%N :: r) = false /\ is_nan_text ((c_zero + d)%N :: r) = false.
Proof.
  intros Hd. unfold is_inf_text, is_nan_text. cbn [map ustr_eqb].
  assert (to_upper (c_zero + d) = c_zero + d)%N as ->.
  { unfold to_upper. replace (97 <=? c_zero + d)%N with false; [reflexivity|].
    symmetry; apply N.leb_gt. unfold c_zero, le9 in *; lia. }
  replace (c_zero + d =? 73)%N with false by (symmetry; apply N.eqb_neq; unfold c_zero, le9 in *; lia).
  replace (c_zero + d =? 78)%N with false by (symmetry; apply N.eqb_neq; unfold c_zero, le9 in *; lia).
  split; reflexivity.
Qed.

Lemma parse_plain_frac s ip fp r :
  is_inf_text s = false -> is_nan_text s = false ->
  take_digits s = (ip, c_dot :: r) -> take_digits r = (fp, []) -> ip <> [] ->
  parse_unsigned_sf s = Some (round_ratio (digits_val (ip ++ fp)) (10 ^ Z.of_nat (length fp))).
Proof.
  intros E1 E2 T1 T2 Hne. unfold parse_unsigned_sf. rewrite E1, E2, T1.
  cbv iota beta. rewrite N.eqb_refl, T2.
  destruct ip as [|d ip']; [congruence|]. reflexivity.
Qed.

Lemma parse_plain_int s ip :
  is_inf_text s = false -> is_nan_text s = false ->
  take_digits s = (ip, []) -> ip <> [] ->
  parse_unsigned_sf s = Some (round_ratio (digits_val ip) 1).
Proof.
  intros E1 E2 T1 Hne. unfold parse_unsigned_sf. rewrite E1, E2, T1.
  cbv iota beta. rewrite app_nil_r.
  destruct ip as [|d ip']; [congruence|]. reflexivity.
Qed.

Lemma parse_int_frac ip fp : Forall le9 ip -> Forall le9 fp -> ip <> [] ->
  parse_unsigned_sf (dchars ip ++ c_dot :: dchars fp) =
  Some (round_ratio (digits_val (ip ++ fp)) (10 ^ Z.of_nat (length fp))).
Proof.
  intros Fi Ff Hne.
  destruct ip as [|d ip'] eqn:Eip; [congruence|]. rewrite <- Eip in *.
  assert (Hd : le9 d) by (rewrite Eip in Fi; inversion Fi; assumption).
  destruct (digit_not_special d (dchars ip' ++ c_dot :: dchars fp) Hd) as [E1 E2].
  apply parse_plain_frac with (r := dchars fp).
  - rewrite Eip. exact E1.
  - rewrite Eip. exact E2.
  - rewrite take_digits_dchars by exact Fi.
    assert (take_digits (c_dot :: dchars fp) = ([], c_dot :: dchars fp)) as -> by reflexivity.
    cbn [fst snd]. rewrite app_nil_r. reflexivity.
  - apply take_digits_dchars_end. exact Ff.
  - exact Hne.
Qed.

Lemma parse_int ip : Forall le9 ip -> ip <> [] ->
  parse_unsigned_sf (dchars ip) = Some (round_ratio (digits_val ip) 1).
Proof.
  intros Fi Hne.
  destruct ip as [|d ip'] eqn:Eip; [congruence|]. rewrite <- Eip in *.
  assert (Hd : le9 d) by (rewrite Eip in Fi; inversion Fi; assumption).
  destruct (digit_not_special d (dchars ip') Hd) as [E1 E2].
  apply parse_plain_int.
  - rewrite Eip. exact E1.
  - rewrite Eip. exact E2.
  - apply take_digits_dchars_end. exact Fi.
  - exact Hne.
Qed.

(** the positional text of 0.ds * 10^k is read as the fraction N * 10^(k - n) *)
Lemma layout ds k : Forall le9 ds -> ds <> [] ->
  parse_unsigned_sf (digits_to_dec_str ds k 0) =
  Some (if k <? Z.of_nat (length ds)
        then round_ratio (digits_val ds) (10 ^ (Z.of_nat (length ds) - k))
        else round_ratio (digits_val ds * 10 ^ (k - Z.of_nat (length ds))) 1).
Proof.
  intros F Hne. unfold digits_to_dec_str. change (Z.of_N 0) with 0.
  assert (Hn : 0 < Z.of_nat (length ds)) by (destruct ds; [congruence|cbn [length]; lia]).
  set (n := Z.of_nat (length ds)) in *.
  destruct (Z.leb_spec k 0) as [Hk0|Hk0].
  - destruct (Z.ltb_spec k n) as [_|?]; [|lia].
    rewrite (zeros_nonpos (0 - n - - k)) by lia. rewrite app_nil_r, zeros_dchars, <- dchars_app.
    change ([c_zero; c_dot] ++ dchars (repeat 0%N (Z.to_nat (- k)) ++ ds))
      with (dchars [0%N] ++ c_dot :: dchars (repeat 0%N (Z.to_nat (- k)) ++ ds)).
    rewrite parse_int_frac.
    + f_equal. f_equal.
      * change ([0%N] ++ repeat 0%N (Z.to_nat (- k)) ++ ds) with (repeat 0%N (S (Z.to_nat (- k))) ++ ds).
        apply digits_val_zeros_l.
      * f_equal. rewrite app_length, repeat_length. unfold n. lia.
    + constructor; [unfold le9; lia|constructor].
    + apply Forall_app. split; [apply Forall_le9_repeat0|exact F].
    + discriminate.
  - destruct (Z.ltb_spec k n) as [Hk|Hk].
    + rewrite (zeros_nonpos (0 - (n - k))) by lia. rewrite app_nil_r.
      change ([c_dot] ++ dchars (skipn (Z.to_nat k) ds)) with (c_dot :: dchars (skipn (Z.to_nat k) ds)).
      pose proof F as F'. rewrite <- (firstn_skipn (Z.to_nat k) ds) in F'. apply Forall_app in F' as [F1 F2].
      rewrite parse_int_frac; [| exact F1 | exact F2 |].
      * rewrite firstn_skipn. f_equal. f_equal. f_equal. rewrite skipn_length. unfold n. lia.
      * intros E. pose proof (firstn_length (Z.to_nat k) ds) as L. rewrite E in L. cbn [length] in L. unfold n in *. lia.
    + change (0 <? 0) with false. rewrite app_nil_r, zeros_dchars, <- dchars_app.
      rewrite parse_int.
      * f_equal. f_equal. rewrite digits_val_zeros_r. f_equal. f_equal. lia.
      * apply Forall_app. split; [exact F|apply Forall_le9_repeat0].
      * destruct ds; [congruence|discriminate].
Qed.

(** * Step 3: rounding an exactly representable ratio *)
Lemma round_ratio_sf_exact n d m e :
  (IZR (Zpos n) / IZR (Zpos d))%R = F2R (Float radix2 (Zpos m) e) ->
  SpecFloat.bounded 53 1024 m e = true ->
  round_ratio_sf n d = S754_finite false m e.
Proof.
  intros Hv Hb. unfold round_ratio_sf.
  pose proof (Bdiv_correct_aux 53 1024 Hp53 Hm1024 mode_NE false n 0 false d 0) as H.
  cbv zeta in H. cbn [cond_Zopp xorb] in H.
  assert (Ex : forall p, F2R (Float radix2 (Zpos p) 0) = IZR (Zpos p)).
  { intros p. unfold F2R. cbn [Fnum Fexp bpow]. apply Rmult_1_r. }
  rewrite !Ex, Hv in H.
  set (x := BinarySingleNaN.B754_finite false m e Hb : BinarySingleNaN.binary_float 53 1024).
  assert (Bx : BinarySingleNaN.B2R x = F2R (Float radix2 (Zpos m) e)) by reflexivity.
  rewrite <- Bx in H.
  rewrite round_generic in H;
    [|apply valid_rnd_round_mode|apply BinarySingleNaN.generic_format_B2R].
  rewrite Rlt_bool_true in H by apply BinarySingleNaN.abs_B2R_lt_emax.
  destruct H as [Hval (Hr & Hfin & Hsign)].
  destruct (let '(mz, ez, lz) := SFdiv_core_binary 53 1024 (Z.pos n) 0 (Z.pos d) 0 in
            BinarySingleNaN.binary_round_aux 53 1024 mode_NE false mz ez lz) as [s|s| |s m' e'].
  - exfalso. cbn [SF2R] in Hr. rewrite Bx in Hr.
    pose proof (F2R_gt_0 radix2 (Float radix2 (Zpos m) e) eq_refl). lra.
  - discriminate.
  - discriminate.
  - cbn [sign_SF] in Hsign. subst s.
    change (SpecFloat.valid_binary 53 1024 (S754_finite false m' e')) with (SpecFloat.bounded 53 1024 m' e') in Hval.
    set (y := BinarySingleNaN.B754_finite false m' e' Hval : BinarySingleNaN.binary_float 53 1024).
    assert (E : y = x).
    { apply BinarySingleNaN.B2R_inj; [reflexivity|reflexivity|exact Hr]. }
    inversion E. reflexivity.
Qed.

Lemma round_ratio_exact n d m e : 0 < n -> 0 < d ->
  (IZR n / IZR d)%R = F2R (Float radix2 (Zpos m) e) ->
  SpecFloat.bounded 53 1024 m e = true ->
  round_ratio n d = S754_finite false m e.
Proof.
  intros Hn Hd Hv Hb. destruct n as [|n|n]; try lia. destruct d as [|d|d]; try lia.
  apply round_ratio_sf_exact; assumption.
Qed.

(** * Step 4: the theorems *)
Theorem exact_expansion_reads_back (m : positive) (e : Z) :
  SpecFloat.bounded 53 1024 m e = true ->
  let '(ds, k) := exact_expansion m e in roundtrip_ok m e ds k = true.
Proof.
  intros Hb. unfold exact_expansion.
  destruct (Z.leb_spec 0 e) as [He|He].
  - assert (Hpos : 0 < Zpos m * 2 ^ e) by (apply Z.mul_pos_pos; [lia|apply Z.pow_pos_nonneg; lia]).
    destruct (Zpos m * 2 ^ e) as [|p|p] eqn:Ep; try lia.
    destruct (to_digits_spec p) as (V & F & Hne).
    unfold roundtrip_ok. rewrite (layout _ _ F Hne), Z.ltb_irrefl, Z.sub_diag, Z.pow_0_r, Z.mul_1_r, V.
    rewrite (round_ratio_exact (Zpos p) 1 m e); [|lia|lia| |exact Hb].
    + cbn [negb andb]. rewrite Pos.eqb_refl, Z.eqb_refl. reflexivity.
    + rewrite <- Ep. unfold F2R. cbn [Fnum Fexp]. rewrite mult_IZR, <- (IZR_Zpower radix2 e) by lia.
      change (Zpower radix2 e) with (2 ^ e). field.
  - set (p := - e). assert (Hpp : 0 < p) by (unfold p; lia).
    assert (Hpos : 0 < Zpos m * 5 ^ p) by (apply Z.mul_pos_pos; [lia|apply Z.pow_pos_nonneg; lia]).
    destruct (Zpos m * 5 ^ p) as [|q|q] eqn:Ep; try lia.
    destruct (to_digits_spec q) as (V & F & Hne).
    unfold roundtrip_ok. rewrite (layout _ _ F Hne).
    destruct (Z.ltb_spec (Z.of_nat (length (to_digits (Zpos q))) + e) (Z.of_nat (length (to_digits (Zpos q))))) as [_|?]; [|lia].
    replace (Z.of_nat (length (to_digits (Zpos q))) - (Z.of_nat (length (to_digits (Zpos q))) + e)) with p by (unfold p; lia).
    rewrite V.
    rewrite (round_ratio_exact (Zpos q) (10 ^ p) m e); [|lia|apply Z.pow_pos_nonneg; lia| |exact Hb].
    + cbn [negb andb]. rewrite Pos.eqb_refl, Z.eqb_refl. reflexivity.
    + rewrite <- Ep. unfold F2R. cbn [Fnum Fexp].
      replace e with (- p) by (unfold p; lia). rewrite bpow_opp, <- (IZR_Zpower radix2 p) by lia.
      change (Zpower radix2 p) with (2 ^ p).
      change 10 with (2 * 5). rewrite Z.pow_mul_l, !mult_IZR.
      assert (IZR (2 ^ p) <> 0)%R by (apply not_0_IZR; apply Z.pow_nonzero; lia).
      assert (IZR (5 ^ p) <> 0)%R by (apply not_0_IZR; apply Z.pow_nonzero; lia).
      field. split; assumption.
Qed.

Theorem digits_ok_always (m : positive) (e : Z) :
  SpecFloat.bounded 53 1024 m e = true -> digits_ok m e = true.
Proof.
  intros Hb. destruct (digits_ok_cases m e) as [H|[_ H]]; [exact H|].
  pose proof (exact_expansion_reads_back m e Hb) as R.
  destruct (exact_expansion m e) as [ds k]. congruence.
Qed.

Theorem f64_display_parses_back_all (x : binary64) :
  is_nan 53 1024 x = false -> f64_parse (f64_to_text fspec_default x) = Some x.
Proof.
  intros Hx. apply f64_display_parses_back.
  destruct x as [s|s|s pl H|s m e H]; [exact I|exact I|discriminate|].
  apply digits_ok_always. exact H.
Qed.

Print Assumptions exact_expansion_reads_back.
Print Assumptions digits_ok_always.
Print Assumptions f64_display_parses_back_all.
