(* Proofs/C07pi.v — the parsec family of the astronomical crate: pc = 648000/pi au
   (IAU 2015 B2).  The binary64 scale of each of pc, kpc, Mpc, Gpc (regenerated
   from the source, rounded by the model of rustc's literal conversion) is
   within f64::EPSILON = 2^-52 relative of its irrational definition.  Proved
   with the interval tactic (Coq-Interval), which brings in the standard
   library's real-number axioms and the primitive 63-bit integer axioms. *)
From Coq Require Import Reals QArith Qreals Lia String.
From Interval Require Import Tactic.
From QV Require Import Rt.Prelude Rt.Amount Macro.Defs Gen.Prefixes Gen.Catalogue Macro.Inst Amount.F64 Proofs.C07.
Local Close Scope Q_scope.

Definition idx_of_name (g : gen_def SIPrefix) (n : ustring) : nat :=
  match List.find (fun u => ustr_eqb (gen_name g u) n) (gen_iter g) with Some u => u | None => 0 end.

Definition astro_length_scale_Q (n : ustring) : Q :=
  match b64_to_Q (gen_scale F64 astro_Length_gen (idx_of_name astro_Length_gen n)) with Some q => q | None => 0%Q end.

Definition pc_q : Q := Eval vm_compute in astro_length_scale_Q (us "Parsec"%string).
Definition kpc_q : Q := Eval vm_compute in astro_length_scale_Q (us "Kiloparsec"%string).
Definition mpc_q : Q := Eval vm_compute in astro_length_scale_Q (us "Megaparsec"%string).
Definition gpc_q : Q := Eval vm_compute in astro_length_scale_Q (us "Gigaparsec"%string).

Lemma pc_q_is_scale :
  pc_q = astro_length_scale_Q (us "Parsec"%string) /\ kpc_q = astro_length_scale_Q (us "Kiloparsec"%string) /\
  mpc_q = astro_length_scale_Q (us "Megaparsec"%string) /\ gpc_q = astro_length_scale_Q (us "Gigaparsec"%string).
Proof. repeat split; vm_compute; reflexivity. Qed.

Open Scope R_scope.
Definition within_eps (x : Q) (spec : R) : Prop := Rabs (Q2R x - spec) <= spec * / 4503599627370496.

Lemma parsec_family :
  within_eps pc_q (648000 / PI) /\ within_eps kpc_q (648000 * 1000 / PI) /\
  within_eps mpc_q (648000 * 1000000 / PI) /\ within_eps gpc_q (648000 * 1000000000 / PI).
Proof.
  unfold within_eps, pc_q, kpc_q, mpc_q, gpc_q, Q2R. cbn [Qnum Qden].
  repeat split; interval with (i_prec 120).
Qed.
