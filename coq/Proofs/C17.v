(* Proofs/C17.v — serialisation round trips (property C17) over the model of
   the serde data model (Rt/Serde.v): generic in the amount type's codec. *)
From Coq Require Import Lia String ZArith.
From QV Require Import Rt.Prelude Rt.Amount Rt.Quantity Rt.Serde Macro.Defs Gen.Prefixes Gen.Catalogue Gen.Config
  Gen.Kernels Macro.Inst Amount.F64 Amount.DecModel Amount.Dec Amount.DecStr Amount.DecCodec Proofs.Laws Proofs.Instances Proofs.C09 Proofs.C19.
Local Open Scope string_scope.

Lemma index_of_nth (l : list ustring) : nodupb l = true -> forall i, i < length l -> index_of (nth i l []) l = Some i.
Proof.
  induction l as [|x r IH]; cbn [nodupb length]; intros H i Hi; [lia|].
  apply andb_true_iff in H as [Hx Hr]. apply negb_true_iff in Hx.
  destruct i as [|i]; cbn [nth index_of].
  - rewrite ustr_eqb_refl. reflexivity.
  - destruct (ustr_eqb x (nth i r [])) eqn:E.
    + exfalso. assert (existsb (ustr_eqb x) r = true); [|congruence].
      apply existsb_exists. exists (nth i r []). split; [apply nth_In; lia|exact E].
    + rewrite IH by (assumption || lia). reflexivity.
Qed.

Section RoundTrip.
Context (am : Amount) (enc : am -> sval) (dcd : sval -> option am).
Context (g : gen_def SIPrefix).
Hypothesis Hnodup : nodupb (gd_VARIANTS g) = true.

(** units serialise as their variant names and come back identical *)
Lemma unit_roundtrip u : u < length (gd_VARIANTS g) ->
  ser_unit g u = VStr (nth u (gd_VARIANTS g) []) /\ de_unit g (ser_unit g u) = Some u.
Proof. intros Hu. split; [reflexivity|]. cbn [de_unit ser_unit]. apply index_of_nth; assumption. Qed.

(** struct with fields {amount, unit} *)
Lemma qty_roundtrip_two (a : am) (u : nat) :
  gd_path g <> PSingle -> gd_struct_fields g = [us "amount"; us "unit"] ->
  dcd (enc a) = Some a -> u < length (gd_VARIANTS g) ->
  de_qty am dcd g (ser_qty am enc g (q_new (base_of_gen am g) a u)) = Some (q_new (base_of_gen am g) a u).
Proof.
  intros Hp Hf Ha Hu. unfold de_qty, ser_qty. rewrite Hf.
  assert (Ea : q_amount (base_of_gen am g) (q_new (base_of_gen am g) a u) = a).
  { unfold base_of_gen. destruct (gd_path g); reflexivity. }
  assert (Eu : q_unit (base_of_gen am g) (q_new (base_of_gen am g) a u) = u).
  { apply stores_unit_noref. exact Hp. }
  rewrite Ea, Eu. cbn. rewrite Ha. unfold variant_of. rewrite index_of_nth by assumption. reflexivity.
Qed.

(** single-unit struct with the field {amount} only *)
Lemma qty_roundtrip_one (a : am) (u : nat) :
  gd_path g = PSingle -> gd_struct_fields g = [us "amount"] -> dcd (enc a) = Some a ->
  de_qty am dcd g (ser_qty am enc g (q_new (base_of_gen am g) a u)) = Some (q_new (base_of_gen am g) a u).
Proof.
  intros Hp Hf Ha. unfold de_qty, ser_qty. rewrite Hf.
  assert (Ea : q_amount (base_of_gen am g) (q_new (base_of_gen am g) a u) = a).
  { unfold base_of_gen. rewrite Hp. reflexivity. }
  rewrite Ea. cbn. rewrite Ha. unfold base_of_gen. rewrite Hp. reflexivity.
Qed.

(** different values have different serialisations (a consequence of the round trip) *)
Lemma ser_injective (x y : Qt (base_of_gen am g)) :
  de_qty am dcd g (ser_qty am enc g x) = Some x -> de_qty am dcd g (ser_qty am enc g y) = Some y ->
  ser_qty am enc g x = ser_qty am enc g y -> x = y.
Proof. intros Hx Hy E. rewrite E in Hx. congruence. Qed.
End RoundTrip.

Lemma f64_codec_roundtrip x : dcd_f64 (enc_f64 x) = Some x.
Proof. reflexivity. Qed.

(** the generated types of the tree: both derives present on enum and struct,
    fields as the round-trip lemmas expect, variants pairwise distinct *)
Definition serde_ok (e : cat_entry SIPrefix) : bool :=
  let g := ce_gen e in
  gd_serde_enum g && gd_serde_struct g && nodupb (gd_VARIANTS g) &&
  match gd_path g with
  | PSingle => ulist_eqb (gd_struct_fields g) [us "amount"]
  | _ => ulist_eqb (gd_struct_fields g) [us "amount"; us "unit"]
  end.
Lemma all_serde_ok : forallb serde_ok all_entries = true.
Proof. vm_compute. reflexivity. Qed.

(** the crate's `serde` feature pulls in serde and switches the decimal type to its string form *)
Definition serde_feature_wired : bool :=
  match List.find (fun fd => ustr_eqb (fst fd) (us "serde")) cargo_features with
  | Some (_, ds) => umem (us "dep:serde") ds && umem (us "fpdec?/serde-as-str") ds
  | None => false
  end.
Lemma serde_wired : serde_feature_wired = true.
Proof. vm_compute. reflexivity. Qed.
