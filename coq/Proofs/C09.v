(* Proofs/C09.v — the unit registry (property C09): generic theorems about the
   look-up functions (every string, every amount, every instance) and computed
   facts about every definition of the current tree (the generator's actual
   output against the declaration). *)
From Coq Require Import Lia.
From QV Require Import Rt.Prelude Rt.Amount Rt.Quantity Macro.Defs Macro.Casing Gen.Prefixes Gen.Catalogue
  Gen.Kernels Macro.Inst Amount.F64 Amount.DecModel Amount.Dec Macro.Analyze Proofs.Laws Proofs.Kernel Proofs.Instances.

(** * Look-ups: generic *)
Section Lookups.
Context {am : Amount} (S : QBase am).

Definition first_with {T} (p : T -> bool) (l : list T) (o : option T) : Prop :=
  match o with
  | Some u => exists l1 l2, l = l1 ++ u :: l2 /\ p u = true /\ forall v, In v l1 -> p v = false
  | None => forall v, In v l -> p v = false
  end.

Lemma c09_from_symbol s :
  first_with (fun u => ustr_eqb (u_symbol S u) s) (u_iter S) (Unit_from_symbol S s) /\
  Quantity_unit_from_symbol S s = Unit_from_symbol S s.
Proof.
  split; [|apply unit_from_symbol_is_from_symbol]. unfold first_with, Unit_from_symbol, iter_find, iter_filter. rewrite ?hd_error_filter.
  exact (find_first (fun unit_ => ustr_eqb (u_symbol S unit_) s) (u_iter S)).
Qed.

Lemma c09_from_scale a :
  first_with (fun u => a_eqb am (u_scale S u) a) (u_iter S) (LinearScaledUnit_from_scale S a) /\
  HasRefUnit_unit_from_scale S a = LinearScaledUnit_from_scale S a.
Proof.
  split; [|apply unit_from_scale_is_from_scale]. unfold first_with, LinearScaledUnit_from_scale, iter_find, iter_filter. rewrite ?hd_error_filter.
  exact (find_first (fun unit_ => a_eqb am (u_scale S unit_) a) (u_iter S)).
Qed.

(** where symbols are pairwise distinct the look-up inverts [symbol] *)
Lemma c09_from_symbol_inverts :
  (forall v w, In v (u_iter S) -> In w (u_iter S) -> u_symbol S v = u_symbol S w -> v = w) ->
  forall u, In u (u_iter S) -> Unit_from_symbol S (u_symbol S u) = Some u.
Proof.
  intros Hinj u Hu. destruct (c09_from_symbol (u_symbol S u)) as [H _]. unfold first_with in H.
  destruct (Unit_from_symbol S (u_symbol S u)) as [u'|].
  - destruct H as (l1 & l2 & E & Hs & _). apply ustr_eqb_eq in Hs. f_equal. apply Hinj; [|exact Hu|exact Hs].
    rewrite E. apply in_or_app. right. left. reflexivity.
  - specialize (H u Hu). rewrite ustr_eqb_refl in H. discriminate.
Qed.

Lemma c09_unknown_symbol s : (forall v, In v (u_iter S) -> u_symbol S v <> s) -> Unit_from_symbol S s = None.
Proof.
  intros Hn. destruct (c09_from_symbol s) as [H _]. unfold first_with in H.
  destruct (Unit_from_symbol S s) as [u|]; [|reflexivity].
  destruct H as (l1 & l2 & E & Hs & _). apply ustr_eqb_eq in Hs. exfalso. apply (Hn u); [|exact Hs].
  rewrite E. apply in_or_app. right. left. reflexivity.
Qed.

Lemma c09_is_ref_unit u : LinearScaledUnit_is_ref_unit S u = true <-> u = u_ref_unit S.
Proof. apply is_ref_unit_spec. Qed.

Lemma c09_as_qty u : Unit_as_qty S u = q_new S (a_one am) u.
Proof. reflexivity. Qed.
End Lookups.

(** * The generator's output against the declaration: every definition *)
Fixpoint ulist_eqb (a b : list ustring) : bool :=
  match a, b with
  | [], [] => true
  | x :: a', y :: b' => ustr_eqb x y && ulist_eqb a' b'
  | _, _ => false
  end.

Fixpoint nodupb (l : list ustring) : bool :=
  match l with
  | [] => true
  | x :: r => negb (existsb (ustr_eqb x) r) && nodupb r
  end.

Definition lit_eqb (a b : lit) : bool :=
  Bool.eqb (l_neg a) (l_neg b) && Z.eqb (l_digits a) (l_digits b) && Z.eqb (l_exp a) (l_exp b) && Bool.eqb (l_is_int a) (l_is_int b).

Definition opt_eqb {T} (eqb : T -> T -> bool) (a b : option T) : bool :=
  match a, b with Some x, Some y => eqb x y | None, None => true | _, _ => false end.

Definition path_eqb (a b : gen_path) : bool :=
  match a, b with PSingle, PSingle | PNoRef, PNoRef | PRef, PRef => true | _, _ => false end.

Definition consts_eqb (a b : list (ustring * ustring)) : bool :=
  ulist_eqb (map fst a) (map fst b) && ulist_eqb (map snd a) (map snd b).

(** the generated registry is what the declaration says: same units in the
    order established by analyze, every arm of name/symbol/si_prefix/scale, the
    reference unit, one constant per variant named by its upper-snake form *)
Definition registry_ok (e : cat_entry SIPrefix) : bool :=
  match analyze (ce_raw e) with
  | None => false
  | Some a =>
      let g := ce_gen e in
      let us_ := an_units a in
      let vs := map variant_of_decl us_ in
      ulist_eqb vs (gd_VARIANTS g)
      && nodupb vs
      && nodupb (map (fun u => name_of_ident (ud_ident u)) us_)
      && Nat.eqb (List.length (gd_enum_variants g)) (List.length vs)
      && forallb (fun v => existsb (ustr_eqb v) (gd_enum_variants g)) vs
      && path_eqb (gd_path g) (expected_path a)
      && forallb (fun u => opt_eqb ustr_eqb (arm_lookup (variant_of_decl u) (gd_name_arms g)) (Some (name_of_ident (ud_ident u)))) us_
      && forallb (fun u => opt_eqb ustr_eqb (arm_lookup (variant_of_decl u) (gd_symbol_arms g)) (Some (ud_symbol u))) us_
      && forallb (fun u => opt_eqb SIPrefix_beq (arm_lookup (variant_of_decl u) (gd_prefix_arms g))
                             (match ud_prefix u with Some p => prefix_of_ident p | None => None end)
                           && match ud_prefix u with Some p => opt_is_some (prefix_of_ident p) | None => true end) us_
      && match gd_path g with
         | PRef => forallb (fun u => opt_eqb lit_eqb (arm_lookup (variant_of_decl u) (gd_scale_arms g)) (ud_scale u)) us_
                   && Nat.eqb (List.length (gd_scale_arms g)) (List.length us_)
         | _ => match gd_scale_arms g with [] => true | _ => false end
         end
      && match gd_path g with
         | PRef => opt_eqb ustr_eqb (gd_ref_unit_unit g) (an_ref a) && opt_eqb ustr_eqb (gd_ref_unit_qty g) (an_ref a)
                   && opt_is_some (an_ref a)
         | _ => opt_is_none (gd_ref_unit_unit g) && opt_is_none (gd_ref_unit_qty g)
         end
      && consts_eqb (gd_consts g) (map (fun u => (upper_snake (variant_of_decl u), variant_of_decl u)) us_)
      && nodupb (map fst (gd_consts g))
      && Nat.eqb (List.length (gd_name_arms g)) (List.length us_)
      && Nat.eqb (List.length (gd_symbol_arms g)) (List.length us_)
  end.

Lemma all_registry_ok : forallb registry_ok all_entries = true.
Proof. vm_compute. reflexivity. Qed.

(** * Order of iteration, judged directly on the generated tables in each
      back-end (independent of the analyze model) *)
Section Order.
Context (am : Amount).

Fixpoint adjacent_ok {T} (ok : T -> T -> bool) (l : list T) : bool :=
  match l with
  | x :: ((y :: _) as r) => ok x y && adjacent_ok ok r
  | _ => true
  end.

Definition not_gt (x y : am) : bool := match a_cmp am x y with Some Gt | None => false | _ => true end.

(** position of a variant in the declaration (unit/ref_unit attributes in source order) *)
Definition decl_names (e : cat_entry SIPrefix) : list ustring :=
  flat_map (fun a => match ra_kind a, ra_args a with
                     | AOtherAttr, _ => []
                     | _, TIdent id :: _ => [name_of_ident id]
                     | _, _ => [] end) (rd_attrs (ce_raw e)).

Fixpoint pos_of (s : ustring) (l : list ustring) : nat :=
  match l with [] => 0 | x :: r => if ustr_eqb x s then 0 else S (pos_of s r) end.

Definition order_ok (e : cat_entry SIPrefix) : bool :=
  let g := ce_gen e in
  let S := base_of_gen am g in
  let it := u_iter S in
  match gd_path g with
  | PRef =>
      let r := u_ref_unit S in
      (* non-decreasing scale *)
      adjacent_ok (fun u v => not_gt (u_scale S u) (u_scale S v)) it
      (* the reference unit has scale one and is the first unit of scale one *)
      && a_eqb am (u_scale S r) (a_one am)
      && opt_eqb Nat.eqb (List.find (fun u => a_eqb am (u_scale S u) (a_one am)) it) (Some r)
      && existsb (Nat.eqb r) it
      (* other ties: declaration order *)
      && adjacent_ok (fun u v => negb (a_eqb am (u_scale S u) (u_scale S v)) || Nat.eqb u r
                                 || Nat.ltb (pos_of (u_name S u) (decl_names e)) (pos_of (u_name S v) (decl_names e))) it
  | PNoRef => adjacent_ok (fun u v => match ustr_cmp (u_name S u) (u_name S v) with Lt => true | _ => false end) it
  | PSingle => Nat.eqb (List.length it) 1
  end.

Definition symbols_distinct (e : cat_entry SIPrefix) : bool := nodupb (map snd (gd_symbol_arms (ce_gen e))).
End Order.

Definition dec_entries : list (cat_entry SIPrefix) := catalogue_main ++ catalogue_synthetic.

Lemma order_ok_f64 : forallb (order_ok F64) all_entries = true.
Proof. vm_compute. reflexivity. Qed.

Lemma order_ok_dec : forallb (order_ok DEC) dec_entries = true.
Proof. vm_compute. reflexivity. Qed.

(** symbols are unique within every predefined quantity (main and astronomical crate) *)
Lemma catalogue_symbols_distinct : forallb symbols_distinct (catalogue_main ++ catalogue_astro) = true.
Proof. vm_compute. reflexivity. Qed.

(** hence, for those types, looking up a unit's symbol returns the unit *)
Lemma nodupb_inj (l : list ustring) : nodupb l = true ->
  forall i j, i < length l -> j < length l -> nth i l [] = nth j l [] -> i = j.
Proof.
  induction l as [|x r IH]; cbn [nodupb length]; [intros _ i j Hi; lia|].
  intros H i j Hi Hj E. apply andb_true_iff in H as [Hx Hr]. apply negb_true_iff in Hx.
  assert (Hnot : forall k, k < length r -> nth k r [] <> x).
  { intros k Hk Hn. assert (existsb (ustr_eqb x) r = true); [|congruence].
    apply existsb_exists. exists (nth k r []). split; [apply nth_In; exact Hk|]. rewrite Hn. apply ustr_eqb_refl. }
  destruct i as [|i], j as [|j]; cbn [nth] in E.
  - reflexivity.
  - exfalso. apply (Hnot j); [lia|]. symmetry. exact E.
  - exfalso. apply (Hnot i); [lia|]. exact E.
  - f_equal. apply IH; [exact Hr|lia|lia|exact E].
Qed.
