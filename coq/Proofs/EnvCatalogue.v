(* Proofs/EnvCatalogue.v — property C18, decimal configuration, instantiated on
   the catalogue: for every predefined quantity with a reference unit (main
   crate) every unit scale fits the decimal type and every ratio of two of its
   unit scales lies in the envelope 1e-15 .. 1e17 (computed), so the envelope
   theorems of Proofs/EnvDec.v hold with premises on the amounts only. *)
From Coq Require Import Reals ZArith Lra Lia Bool List.
From Flocq Require Import Core.Raux.
From QV Require Import Rt.Prelude Rt.Amount Rt.Quantity Macro.Defs Gen.Prefixes Gen.Catalogue Gen.Kernels Macro.Inst
  Amount.DecModel Amount.Dec Amount.DecAcc Proofs.Laws Proofs.Kernel Proofs.Instances Proofs.AccDec Proofs.EnvDec Proofs.AccCatalogue.
From QV Require Amount.Laws.
Local Open Scope Z_scope.

(** |x / y| in [1e-15, 1e17], decided on the coefficients *)
Definition ratio_env_b (x y : dec) : bool :=
  (Z.abs (d_coeff y) * ten_pow (d_nfd x) <=? Z.abs (d_coeff x) * ten_pow (d_nfd y) * ten_pow 15) &&
  (Z.abs (d_coeff x) * ten_pow (d_nfd y) <=? ten_pow 17 * (Z.abs (d_coeff y) * ten_pow (d_nfd x))).

Lemma ratio_env_sound x y : Amount.Laws.dec_ok x -> Amount.Laws.dec_ok y -> d_coeff y <> 0 ->
  ratio_env_b x y = true -> in_env (dval x / dval y)%R.
Proof.
  unfold Amount.Laws.dec_ok, ratio_env_b. intros Hx Hy Hy0 H. apply andb_true_iff in H as [H1 H2]. apply Z.leb_le in H1, H2.
  pose proof (IZR_ten_pow_pos (d_nfd x) (proj1 Hx)) as Px. pose proof (IZR_ten_pow_pos (d_nfd y) (proj1 Hy)) as Py.
  assert (Pc : (0 < IZR (Z.abs (d_coeff y)))%R) by (apply IZR_lt; lia).
  assert (Hcy : IZR (d_coeff y) <> 0%R) by (intros E; apply eq_IZR in E; contradiction).
  set (P := (IZR (Z.abs (d_coeff x)) * IZR (ten_pow (d_nfd y)))%R).
  set (D := (IZR (Z.abs (d_coeff y)) * IZR (ten_pow (d_nfd x)))%R).
  assert (PD : (0 < D)%R) by (apply Rmult_lt_0_compat; assumption).
  assert (E : Rabs (dval x / dval y) = (P / D)%R).
  { unfold dval.
    replace (IZR (d_coeff x) / IZR (ten_pow (d_nfd x)) / (IZR (d_coeff y) / IZR (ten_pow (d_nfd y))))%R
      with ((IZR (d_coeff x) * IZR (ten_pow (d_nfd y))) * / (IZR (d_coeff y) * IZR (ten_pow (d_nfd x))))%R by (field; repeat split; lra).
    rewrite Rabs_mult, Rabs_inv, !Rabs_mult, !(Rabs_pos_eq (IZR (ten_pow _))) by lra. rewrite <- !abs_IZR. reflexivity. }
  apply IZR_le in H1, H2. rewrite !mult_IZR in H1, H2. fold P D in H1, H2.
  replace (IZR (ten_pow 15)) with 1000000000000000%R in H1 by (replace (ten_pow 15) with 1000000000000000 by reflexivity; reflexivity).
  replace (IZR (ten_pow 17)) with 100000000000000000%R in H2 by (replace (ten_pow 17) with 100000000000000000 by reflexivity; reflexivity).
  unfold in_env, env_lo, env_hi. rewrite E. split.
  - apply Rmult_le_reg_r with D; [exact PD|]. unfold Rdiv. rewrite Rmult_assoc, Rinv_l by lra. lra.
  - apply Rmult_le_reg_r with D; [exact PD|]. unfold Rdiv. rewrite Rmult_assoc, Rinv_l by lra. lra.
Qed.

Definition dec_ratios_ok (g : gen_def SIPrefix) : bool :=
  match gd_path g with
  | PRef => let l := map (gen_scale DEC g) (gen_iter g) in forallb (fun a => forallb (ratio_env_b a) l) l
  | _ => true
  end.

(** true for every quantity of the main crate except Volume, whose extreme units (mm^3 and km^3,
    ratio 1e18) are further apart than the envelope allows - the property makes no claim for such a pair *)
Lemma catalogue_dec_ratios_ok :
  map (fun e => dec_ratios_ok (ce_gen e)) catalogue_main =
  [true; true; true; true; true; true; true; true; true; true; true; true; true; false] /\
  nth_error catalogue_main 13 = Some cat_Volume.
Proof. split; [vm_compute; reflexivity|reflexivity]. Qed.

Theorem catalogue_dec_ratios (e : cat_entry SIPrefix) (u v : nat) :
  In e catalogue_main -> gd_path (ce_gen e) = PRef -> dec_ratios_ok (ce_gen e) = true ->
  let S := base_of_gen DEC (ce_gen e) in
  In u (u_iter S) -> In v (u_iter S) -> in_env (dval (u_scale S u) / dval (u_scale S v))%R.
Proof.
  intros He Hp H S Hu Hv.
  destruct (catalogue_dec_scales e u He Hp Hu) as [[Hdu _] _]. destruct (catalogue_dec_scales e v He Hp Hv) as [[Hdv _] Hv0].
  fold S in Hdu, Hdv, Hv0.
  assert (Hcv : d_coeff (u_scale S v) <> 0) by (intros E; apply Hv0; apply dval_zero_coeff; exact E).
  apply ratio_env_sound; try assumption.
  unfold S in *. rewrite base_of_gen_iter in Hu, Hv. rewrite !base_of_gen_scale.
  unfold dec_ratios_ok in H. rewrite Hp in H.
  cbv zeta in H. rewrite forallb_forall in H. specialize (H (gen_scale DEC (ce_gen e) u) (in_map _ _ _ Hu)).
  rewrite forallb_forall in H. exact (H (gen_scale DEC (ce_gen e) v) (in_map _ _ _ Hv)).
Qed.

Local Open Scope R_scope.
(** conversion inside the envelope, for every catalogue quantity: premises on the amount only *)
Theorem catalogue_env_convert (e : cat_entry SIPrefix) :
  In e catalogue_main -> gd_path (ce_gen e) = PRef -> dec_ratios_ok (ce_gen e) = true ->
  let S := base_of_gen DEC (ce_gen e) in
  forall (q : Qt S) (v : nat), q_unit S q <> v -> In v (u_iter S) -> In (q_unit S q) (u_iter S) ->
  Amount.Laws.dec_ok (q_amount S q) -> Rabs (dval (q_amount S q)) <= env_hi ->
  Rabs (dval (q_amount S q) * (dval (u_scale S (q_unit S q)) / dval (u_scale S v))) <= env_hi ->
  exists q', HasRefUnit_convert S q v = Ok q'.
Proof.
  intros He Hp Hr S q v Hne Hv Hu Ha Ba BB.
  destruct (catalogue_dec_scales e _ He Hp Hu) as [Fu _]. destruct (catalogue_dec_scales e _ He Hp Hv) as [Fv _].
  apply (env_convert S (entry_laws DEC e (catalogue_ref_all e ltac:(unfold catalogue_ref; apply in_or_app; left; exact He))) q v Hne Ha Fu Fv
           (catalogue_dec_ratios e _ _ He Hp Hr Hu Hv) Ba BB).
Qed.

(** + - / and the comparisons likewise *)
Theorem catalogue_env_arith (e : cat_entry SIPrefix) :
  In e catalogue_main -> gd_path (ce_gen e) = PRef -> dec_ratios_ok (ce_gen e) = true ->
  let S := base_of_gen DEC (ce_gen e) in
  forall (x y : Qt S), q_unit S y <> q_unit S x -> In (q_unit S x) (u_iter S) -> In (q_unit S y) (u_iter S) ->
  Amount.Laws.dec_ok (q_amount S x) -> Amount.Laws.dec_ok (q_amount S y) ->
  Rabs (dval (q_amount S x)) <= env_hi -> Rabs (dval (q_amount S y)) <= env_hi ->
  Rabs (dval (q_amount S y) * (dval (u_scale S (q_unit S y)) / dval (u_scale S (q_unit S x)))) <= env_hi ->
  (exists r, HasRefUnit_add S x y = Ok r) /\ (exists r, HasRefUnit_sub S x y = Ok r) /\
  (env_lo <= Rabs (dval (q_amount S y) * (dval (u_scale S (q_unit S y)) / dval (u_scale S (q_unit S x)))) ->
   Rabs (dval (q_amount S x) / (dval (q_amount S y) * (dval (u_scale S (q_unit S y)) / dval (u_scale S (q_unit S x))))) <= env_hi ->
   exists r, HasRefUnit_div S x y = Ok r).
Proof.
  intros He Hp Hr S x y Hne Hx Hy Ha Hb Ba Bb BB.
  destruct (catalogue_dec_scales e _ He Hp Hx) as [Fx _]. destruct (catalogue_dec_scales e _ He Hp Hy) as [Fy _].
  pose proof (catalogue_dec_ratios e _ _ He Hp Hr Hy Hx) as Er.
  destruct (env_add_sub S x y Hne Ha Hb Fy Fx Er Ba Bb BB) as [A Sb]. split; [exact A|]. split; [exact Sb|].
  intros Blo Bq. apply (env_div S x y Hne Ha Hb Fy Fx Er Ba Bb (conj Blo BB) Bq).
Qed.

Print Assumptions catalogue_env_convert.
