(* Proofs/Laws.v — what the generator establishes about an instance, as
   hypotheses of the generic kernel theorems; proved for every instance built
   from generator output (base_of_gen) and for the dimensionless instance. *)
From Coq Require Import Lia.
From QV Require Import Rt.Prelude Rt.Amount Rt.Quantity Macro.Defs Gen.Prefixes Gen.Kernels Macro.Inst.

Record QLaws {am : Amount} (S : QBase am) : Prop := {
  law_amount_new : forall a u, q_amount S (q_new S a u) = a;
  law_unit_new : forall a u, In u (u_iter S) -> q_unit S (q_new S a u) = u;
  law_new_eta : forall q, q_new S (q_amount S q) (q_unit S q) = q
}.

(** struct with an explicit unit field: [new] stores any unit *)
Definition StoresUnit {am : Amount} (S : QBase am) : Prop :=
  forall a u, q_unit S (q_new S a u) = u.

Lemma base_of_gen_laws am (g : gen_def SIPrefix) :
  (gd_path g = PSingle -> gd_VARIANTS g <> [] -> length (gd_VARIANTS g) = 1) ->
  QLaws (base_of_gen am g).
Proof.
  intros Hs. unfold base_of_gen. destruct (gd_path g) eqn:Hp.
  - split; cbn.
    + reflexivity.
    + intros a u Hin. unfold tmpl_Quantity_PSingle_unit. unfold gen_iter in Hin.
      apply in_seq in Hin. destruct (gd_VARIANTS g) as [|v r] eqn:Hv; cbn in Hin; [lia|].
      specialize (Hs eq_refl ltac:(discriminate)). cbn in Hs. lia.
    + intros [a]. reflexivity.
  - split; cbn; [reflexivity|reflexivity|intros [a u]; reflexivity].
  - split; cbn; [reflexivity|reflexivity|intros [a u]; reflexivity].
Qed.

Lemma amount_base_laws am : QLaws (amount_base am).
Proof.
  split; cbn.
  - reflexivity.
  - intros a u [<-|[]]. reflexivity.
  - reflexivity.
Qed.

(** monad bookkeeping used by the kernel proofs *)
Lemma bind_assoc {T R V} (m : res T) (f : T -> res R) (g : R -> res V) :
  bind (bind m f) g = bind m (fun x => bind (f x) g).
Proof. destruct m; reflexivity. Qed.

Lemma bind_Ok_r {T} (m : res T) : bind m (fun x => Ok x) = m.
Proof. destruct m; reflexivity. Qed.

Lemma Nat_eqb_refl n : Nat.eqb n n = true.
Proof. apply PeanoNat.Nat.eqb_refl. Qed.
