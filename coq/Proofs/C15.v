(* Proofs/C15.v — text output (property C15): what Quantity::fmt, Unit::fmt
   and Display for Rate (translated from the source) produce, in terms of the
   model of core::fmt (Rt/Fmt.v) and the amount type's own Display. *)
From Coq Require Import Lia.
From QV Require Import Rt.Prelude Rt.Amount Rt.Quantity Rt.Fmt Rt.FmtProofs Macro.Defs Gen.Prefixes Gen.Catalogue
  Gen.Kernels Gen.KernelsFmt Macro.Inst Proofs.Laws Proofs.Kernel Proofs.Instances.

Section C15.
Context {am : Amount} (S : QBase am).

(** the formatter state that [format!("{:.*}", prec, x)] / [format!("{}", x)] hands to the amount's Display *)
Definition amount_spec (form : fspec) : fspec := mkfspec 32%N None false false None (f_prec form).

(** |amount| as the code computes it: abs() for decimals, a conditional negation for floats *)
Definition non_negative (q : Qt S) : bool :=
  if a_is_dec am then a_ge am (q_amount S q) (a_zero am) else negb (a_sign_neg am (q_amount S q)).

Definition abs_amount (q : Qt S) : am :=
  if a_is_dec am then a_abs am (q_amount S q)
  else if non_negative q then q_amount S q else a_neg am (q_amount S q).

Lemma unit_fmt_spec u form : Unit_fmt S u form = fmt_pad form (u_symbol S u).
Proof. reflexivity. Qed.

Lemma unit_fmt_default u : Unit_fmt S u fspec_default = u_symbol S u.
Proof.
  rewrite unit_fmt_spec. unfold fmt_pad, str_truncate, with_padding, fspec_default. cbn.
  rewrite app_nil_r. reflexivity.
Qed.

(** a value with a non-empty unit symbol: sign handling and padding are those
    of pad_integral applied to the text "<|amount|> <symbol>" *)
Theorem qty_fmt_spec q form : u_symbol S (q_unit S q) <> [] ->
  Quantity_fmt S q form =
  fmt_pad_integral form (non_negative q)
    (a_display am (amount_spec form) (abs_amount q) ++ [32%N] ++ u_symbol S (q_unit S q)).
Proof.
  intros Hne. unfold Quantity_fmt. destruct (u_symbol S (q_unit S q)) as [|c s] eqn:E; [contradiction|].
  cbn zeta. unfold tmpl_Display_Unit_none. rewrite unit_fmt_default, E.
  unfold abs_amount, non_negative, amount_spec. destruct (a_is_dec am); destruct (f_prec form); cbn zeta; rewrite <- ?app_assoc; reflexivity.
Qed.

(** unit-less values: the amount's own Display under the caller's formatter *)
Theorem qty_fmt_unitless q form : u_symbol S (q_unit S q) = [] ->
  Quantity_fmt S q form = a_display am form (q_amount S q).
Proof. intros E. unfold Quantity_fmt. rewrite E. reflexivity. Qed.

(** no flags: one optional leading minus, the amount text, one space, the symbol *)
Corollary qty_fmt_plain q : u_symbol S (q_unit S q) <> [] ->
  Quantity_fmt S q fspec_default =
  (if non_negative q then [] else [c_minus]) ++
  a_display am fspec_default (abs_amount q) ++ [32%N] ++ u_symbol S (q_unit S q).
Proof.
  intros Hne. rewrite (qty_fmt_spec q fspec_default Hne).
  change (amount_spec fspec_default) with fspec_default.
  destruct (non_negative q); [apply fmt_pad_integral_default_nonneg|apply fmt_pad_integral_default_neg].
Qed.

(** sign, '+', fill, alignment, zero flag and width apply to the text as a whole *)
Corollary qty_fmt_shape q form : u_symbol S (q_unit S q) <> [] ->
  let text := a_display am (amount_spec form) (abs_amount q) ++ [32%N] ++ u_symbol S (q_unit S q) in
  exists lfill sign zs rfill,
    Quantity_fmt S q form = lfill ++ sign ++ zs ++ text ++ rfill /\
    sign = (if negb (non_negative q) then [c_minus] else if f_plus form then [c_plus] else []) /\
    all_eq (f_fill form) lfill /\ all_eq (f_fill form) rfill /\ all_eq c_zero zs /\
    (f_zero form = false -> zs = [] /\
       (f_align form = Some ARight \/ f_align form = None -> rfill = []) /\
       (f_align form = Some ALeft -> lfill = [])) /\
    (f_zero form = true -> lfill = [] /\ rfill = []) /\
    (length lfill + length zs + length rfill = N.to_nat (width_of form - (nlen sign + utf8_len text)))%nat.
Proof.
  intros Hne text. rewrite (qty_fmt_spec q form Hne). apply fmt_pad_integral_shape.
Qed.
End C15.

(** when amount text and symbol are ASCII the width is the usual one: the
    output has max(width, natural length) characters *)
Corollary qty_fmt_length_ascii {am : Amount} (S : QBase am) q form : u_symbol S (q_unit S q) <> [] ->
  is_ascii (a_display am (amount_spec form) (abs_amount S q) ++ [32%N] ++ u_symbol S (q_unit S q)) ->
  length (Quantity_fmt S q form) =
  Nat.max (N.to_nat (width_of form))
          (length (sign_text (non_negative S q) (f_plus form) ++
                   a_display am (amount_spec form) (abs_amount S q) ++ [32%N] ++ u_symbol S (q_unit S q))).
Proof. intros Hne Ha. rewrite (qty_fmt_spec S q form Hne). apply fmt_pad_integral_length_ascii. exact Ha. Qed.

(** in general never longer, possibly shorter (pad_integral measures bytes) *)
Corollary qty_fmt_length_le {am : Amount} (S : QBase am) q form : u_symbol S (q_unit S q) <> [] ->
  (length (Quantity_fmt S q form) <=
   Nat.max (N.to_nat (width_of form))
           (length (sign_text (non_negative S q) (f_plus form) ++
                    a_display am (amount_spec form) (abs_amount S q) ++ [32%N] ++ u_symbol S (q_unit S q))))%nat.
Proof. intros Hne. rewrite (qty_fmt_spec S q form Hne). apply fmt_pad_integral_length_le. Qed.

(** a rate: "term / per", the per multiple omitted iff it equals one and the
    per unit has a symbol; empty symbols drop the unit text *)
Theorem rate_fmt_spec {am : Amount} (TQ PQ : QBase am) (r : rate am) form :
  Rate_fmt TQ PQ r form =
  (a_display am fspec_default (rt_term_amount r) ++
     (match u_symbol TQ (rt_term_unit r) with [] => [] | s => [32%N] ++ s end) ++ [32; 47; 32]%N) ++
  (match u_symbol PQ (rt_per_unit r) with
   | [] => a_display am fspec_default (rt_per_unit_multiple r)
   | s => if a_eqb am (rt_per_unit_multiple r) (a_one am) then s
          else a_display am fspec_default (rt_per_unit_multiple r) ++ [32%N] ++ s
   end).
Proof.
  unfold Rate_fmt, Rate_term_unit, Rate_per_unit, Rate_term_amount, Rate_per_unit_multiple.
  assert (Hp : forall s : ustring, fmt_pad fspec_default s = s).
  { intros s. unfold fmt_pad, str_truncate, with_padding, fspec_default. cbn. apply app_nil_r. }
  rewrite !Hp.
  destruct (u_symbol TQ (rt_term_unit r)) as [|c s]; destruct (u_symbol PQ (rt_per_unit r)) as [|c' s'];
    cbn [ustr_eqb]; try destruct (a_eqb am (rt_per_unit_multiple r) (a_one am));
    cbn [app]; rewrite <- ?app_assoc; cbn [app]; reflexivity.
Qed.

(** the generated Display impls forward to these functions *)
Lemma display_forwarders {am : Amount} (S : QBase am) q u form :
  tmpl_Display_Qty_none_PRef S q form = Quantity_fmt S q form /\
  tmpl_Display_Qty_none_PNoRef S q form = Quantity_fmt S q form /\
  tmpl_Display_Qty_none_PSingle S q form = Quantity_fmt S q form /\
  tmpl_Display_Unit_none S u form = Unit_fmt S u form.
Proof. repeat split. Qed.

(** symbols of the predefined quantities contain no space and are not empty,
    so "text before the last space" / "after" splits amount and symbol *)
Definition symbols_splittable (e : cat_entry SIPrefix) : bool :=
  forallb (fun vs => match snd vs with [] => false | s => negb (existsb (N.eqb 32) s) end) (gd_symbol_arms (ce_gen e)).
Lemma catalogue_symbols_splittable : forallb symbols_splittable (catalogue_main ++ catalogue_astro) = true.
Proof. vm_compute. reflexivity. Qed.

(** * Known findings, machine-checked on the model of the current tree *)
From QV Require Import Amount.F64 Amount.DecModel Amount.Dec.
From Flocq Require Import IEEE754.Bits.

(** (1) width with a non-ASCII symbol: 1.5 µm under {:8} has 7 characters, not 8
    (Formatter::pad_integral counts the UTF-8 bytes of the text) *)
Definition micrometer_example : ustring :=
  let S := full_of_gen F64 cat_Length_gen in
  Quantity_fmt S (q_new S (b64_of_bits 4609434218613702656) 1) (mkfspec 32%N None false false (Some 8%N) None).

Lemma width_nonascii_refuted :
  micrometer_example = [32; 49; 46; 53; 32; 181; 109]%N /\ length micrometer_example = 7.
Proof. split; vm_compute; reflexivity. Qed.

(** (2) the decimal type caps the precision at 18 fractional digits: {:.20} of 1.5 prints 18 *)
Definition decimal_precision_example : ustring :=
  dec_display (mkfspec 32%N None false false None (Some 20%N)) (mkdec 15 1).

Lemma decimal_precision_cap_refuted :
  decimal_precision_example = ([49; 46; 53] ++ repeat 48 17)%N /\ length decimal_precision_example = 20.
Proof. split; vm_compute; reflexivity. Qed.

(** up to 18 the decimal type prints exactly the requested number of fractional digits *)
Lemma fixdigits_length w n : length (fixdigits w n) = w.
Proof. revert n; induction w as [|w IH]; intros n; cbn [fixdigits length]; [reflexivity|]. rewrite IH. reflexivity. Qed.
