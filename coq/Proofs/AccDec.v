(* Proofs/AccDec.v — magnitude bounds and totality of the kernels in the decimal
   configuration, composed from the per-operation theorems of Amount/DecAcc.v.
   A rounded operation (the ratio of two scales, a product, a quotient) is
   within half a unit of the 18th fractional digit of the exact result and is
   exact when the exact result has at most 18 fractional digits; sums and
   differences are exact.  "No panic" statements name the real magnitudes that
   have to stay below 10^19. *)
From Coq Require Import Reals ZArith Lra Psatz Bool Lia List.
From Flocq Require Import Core.Raux.
From QV Require Import Rt.Prelude Rt.Amount Rt.Quantity Gen.Prefixes Gen.Kernels Amount.DecModel Amount.Dec.
From QV Require Amount.Laws.
From QV Require Import Amount.DecAcc Proofs.Laws Proofs.Kernel Proofs.C09 Proofs.Derived.
From QV Require Proofs.C14.
Import Amount.Laws.
Local Open Scope R_scope.

Notation h18 := half_ulp18.

(** amounts the decimal type can hold: 0..18 fractional digits, coefficient in i128 (MIN excluded) *)
Definition dfit (d : dec) : Prop := dec_ok d /\ (Z.abs (d_coeff d) <= i128_max)%Z.

Lemma dfit_of_bound d : dec_ok d -> Rabs (dval d) < big -> dfit d.
Proof.
  intros Hd Hb. split; [exact Hd|]. pose proof (coeff_bound_of_val d Hd Hb). pose proof i128_max_gt_1e37. lia.
Qed.

Lemma dfit_wf d : dfit d -> dec_wf d.
Proof.
  intros [Hd Hc]. unfold dec_ok in Hd. unfold dec_wf, dec_wfb, max_nfd.
  rewrite (in_i128_abs _ Hc). destruct (Z.leb_spec 0 (d_nfd d)), (Z.leb_spec (d_nfd d) 18); try reflexivity; exfalso; lia.
Qed.

Lemma big_val : big = 10 ^ 19.
Proof. unfold big, ten_pow. symmetry. rewrite pow_IZR. reflexivity. Qed.
Lemma h18_lt_1 : h18 < 1.
Proof.
  unfold half_ulp18. pose proof (IZR_ten_pow_pos 18 ltac:(lia)) as P.
  assert (1 <= IZR (ten_pow 18)) by (apply IZR_le; vm_compute; discriminate).
  assert (/ IZR (ten_pow 18) <= 1) by (rewrite <- Rinv_1; apply Rinv_le_contravar; lra). lra.
Qed.

Section Instance.
Context (S : QBase DEC).
Notation scale u := (u_scale S u).
Notation amt q := (q_amount S q : dec).

Definition dmag (q : Qt S) : R := dval (amt q) * dval (scale (q_unit S q)).

(** * C01 conversion: the stored amount is  round18 (round18 (su / sv) * a) *)
Theorem dec_convert_value (L : QLaws S) (q : Qt S) (v : nat) (q' : Qt S) :
  q_unit S q <> v -> In v (u_iter S) ->
  dec_ok (amt q) -> dec_ok (scale (q_unit S q)) -> dec_ok (scale v) ->
  HasRefUnit_convert S q v = Ok q' ->
  q_unit S q' = v /\ dec_ok (amt q') /\ dval (scale v) <> 0 /\
  exists r, Rabs (r - dval (scale (q_unit S q)) / dval (scale v)) <= h18 /\ Rabs (dval (amt q') - r * dval (amt q)) <= h18 /\
    (grid18 (dval (scale (q_unit S q)) / dval (scale v)) -> r = dval (scale (q_unit S q)) / dval (scale v)) /\
    (grid18 (r * dval (amt q)) -> dval (amt q') = r * dval (amt q)).
Proof.
  intros Hne Hin Ha Hu Hv. rewrite (convert_kernel S q v Hne). cbn [a_div a_mul DEC].
  destruct (dec_div (scale (q_unit S q)) (scale v)) as [r|] eqn:Er; cbn [bind]; [|discriminate].
  destruct (dec_mul r (q_amount S q)) as [m|] eqn:Em; cbn [bind]; [|discriminate]. intros [= <-].
  destruct (dec_div_acc _ _ _ Hu Hv Er) as (Hr & Hv0 & Br).
  destruct (dec_mul_acc _ _ _ Hr Ha Em) as (Hm & Bm & _).
  split; [apply (law_unit_new S L); exact Hin|]. rewrite (law_amount_new S L).
  split; [exact Hm|]. split; [exact Hv0|]. exists (dval r). split; [exact Br|]. split; [exact Bm|]. split.
  - intros G. apply (dec_div_exact_on_grid _ _ _ Hu Hv Er G).
  - intros G. apply (dec_mul_exact_on_grid _ _ _ Hr Ha Em G).
Qed.

(** the magnitude moves by at most h (|a| + 1) |sv| *)
Corollary dec_convert_bound (L : QLaws S) (q : Qt S) (v : nat) (q' : Qt S) :
  q_unit S q <> v -> In v (u_iter S) ->
  dec_ok (amt q) -> dec_ok (scale (q_unit S q)) -> dec_ok (scale v) ->
  HasRefUnit_convert S q v = Ok q' ->
  q_unit S q' = v /\ Rabs (dval (amt q') * dval (scale v) - dmag q) <= h18 * (Rabs (dval (amt q)) + 1) * Rabs (dval (scale v)).
Proof.
  intros Hne Hin Ha Hu Hv H. destruct (dec_convert_value L q v q' Hne Hin Ha Hu Hv H) as (Eu & _ & Hv0 & r & B1 & B2 & _).
  split; [exact Eu|]. unfold dmag.
  set (a := dval (amt q)) in *. set (su := dval (scale (q_unit S q))) in *. set (sv := dval (scale v)) in *. set (a' := dval (amt q')) in *.
  replace (a' * sv - a * su) with (((a' - r * a) + (r - su / sv) * a) * sv) by (field; exact Hv0).
  rewrite Rabs_mult. apply Rmult_le_compat_r; [apply Rabs_pos|].
  eapply Rle_trans; [apply Rabs_triang|]. rewrite Rabs_mult.
  pose proof (Rabs_pos a). pose proof half_ulp18_pos. nra.
Qed.

(** exact when the ratio of the scales and the converted amount have at most 18 fractional digits *)
Corollary dec_convert_exact (L : QLaws S) (q : Qt S) (v : nat) (q' : Qt S) :
  q_unit S q <> v -> In v (u_iter S) ->
  dec_ok (amt q) -> dec_ok (scale (q_unit S q)) -> dec_ok (scale v) ->
  HasRefUnit_convert S q v = Ok q' ->
  grid18 (dval (scale (q_unit S q)) / dval (scale v)) ->
  grid18 (dval (scale (q_unit S q)) / dval (scale v) * dval (amt q)) ->
  dval (amt q') * dval (scale v) = dmag q.
Proof.
  intros Hne Hin Ha Hu Hv H G1 G2. destruct (dec_convert_value L q v q' Hne Hin Ha Hu Hv H) as (_ & _ & Hv0 & r & _ & _ & E1 & E2).
  specialize (E1 G1). subst r. rewrite (E2 G2). unfold dmag. field. exact Hv0.
Qed.

(** no panic: the scales fit, their ratio and the converted amount stay below 10^19 *)
Theorem dec_convert_total (q : Qt S) (v : nat) :
  q_unit S q <> v -> dec_ok (amt q) -> dfit (scale (q_unit S q)) -> dfit (scale v) -> dval (scale v) <> 0 ->
  Rabs (dval (scale (q_unit S q)) / dval (scale v)) < big ->
  (Rabs (dval (scale (q_unit S q)) / dval (scale v)) + h18) * Rabs (dval (amt q)) < big ->
  exists q', HasRefUnit_convert S q v = Ok q'.
Proof.
  intros Hne Ha [Hu Cu] [Hv Cv] Hv0 B1 B2. rewrite (convert_kernel S q v Hne). cbn [a_div a_mul DEC].
  destruct (dec_div_total_R _ _ Hu Hv Cu Cv Hv0 B1) as [r Er]. rewrite Er. cbn [bind].
  destruct (dec_div_acc _ _ _ Hu Hv Er) as (Hr & _ & Br).
  assert (Bm : Rabs (dval r * dval (amt q)) < big).
  { rewrite Rabs_mult. eapply Rle_lt_trans; [|exact B2]. apply Rmult_le_compat_r; [apply Rabs_pos|].
    replace (dval r) with ((dval r - dval (scale (q_unit S q)) / dval (scale v)) + dval (scale (q_unit S q)) / dval (scale v)) by ring.
    eapply Rle_trans; [apply Rabs_triang|]. lra. }
  destruct (dec_mul_total_R _ _ Hr Ha Bm) as [m Em]. rewrite Em. cbn [bind]. eexists; reflexivity.
Qed.

(** * C03: sum, difference, ratio across units *)
Lemma dec_rhs_converted (x y : Qt S) b' :
  q_unit S y <> q_unit S x -> dec_ok (amt y) -> dec_ok (scale (q_unit S y)) -> dec_ok (scale (q_unit S x)) ->
  HasRefUnit_equiv_amount S y (q_unit S x) = Ok b' ->
  dec_ok b' /\ dval (scale (q_unit S x)) <> 0 /\
  Rabs (dval b' * dval (scale (q_unit S x)) - dmag y) <= h18 * (Rabs (dval (amt y)) + 1) * Rabs (dval (scale (q_unit S x))).
Proof.
  intros Hne Hb Hv Hu. rewrite (equiv_amount_diff S y (q_unit S x) Hne). cbn [a_div a_mul DEC].
  destruct (dec_div (scale (q_unit S y)) (scale (q_unit S x))) as [r|] eqn:Er; cbn [bind]; [|discriminate].
  intros Em. destruct (dec_div_acc _ _ _ Hv Hu Er) as (Hr & Hu0 & Br).
  destruct (dec_mul_acc _ _ _ Hr Hb Em) as (Hm & Bm & _).
  split; [exact Hm|]. split; [exact Hu0|]. unfold dmag.
  set (b := dval (amt y)) in *. set (sv := dval (scale (q_unit S y))) in *. set (su := dval (scale (q_unit S x))) in *.
  replace (dval b' * su - b * sv) with (((dval b' - dval r * b) + (dval r - sv / su) * b) * su) by (field; exact Hu0).
  rewrite Rabs_mult. apply Rmult_le_compat_r; [apply Rabs_pos|].
  eapply Rle_trans; [apply Rabs_triang|]. rewrite Rabs_mult. pose proof (Rabs_pos b). pose proof half_ulp18_pos. nra.
Qed.

Theorem dec_add_magnitude (L : QLaws S) (x y r : Qt S) :
  q_unit S y <> q_unit S x -> In (q_unit S x) (u_iter S) ->
  dec_ok (amt x) -> dec_ok (amt y) -> dec_ok (scale (q_unit S y)) -> dec_ok (scale (q_unit S x)) ->
  HasRefUnit_add S x y = Ok r ->
  q_unit S r = q_unit S x /\
  Rabs (dval (amt r) * dval (scale (q_unit S x)) - (dmag x + dmag y)) <= h18 * (Rabs (dval (amt y)) + 1) * Rabs (dval (scale (q_unit S x))).
Proof.
  intros Hne Hin Ha Hb Hv Hu. rewrite (ref_add_kernel S x y).
  destruct (HasRefUnit_equiv_amount S y (q_unit S x)) as [b'|] eqn:Eb; cbn [bind]; [|discriminate]. cbn [a_add DEC].
  destruct (dec_add (q_amount S x) b') as [s|] eqn:Es; cbn [bind]; [|discriminate]. intros [= <-].
  destruct (dec_rhs_converted x y b' Hne Hb Hv Hu Eb) as (Hb' & _ & B).
  destruct (dec_add_exact _ _ _ Ha Hb' Es) as [_ Ev].
  split; [apply (law_unit_new S L); exact Hin|]. rewrite (law_amount_new S L), Ev. unfold dmag at 1.
  replace ((dval (amt x) + dval b') * dval (scale (q_unit S x)) - (dval (amt x) * dval (scale (q_unit S x)) + dmag y))
    with (dval b' * dval (scale (q_unit S x)) - dmag y) by ring. exact B.
Qed.

Theorem dec_sub_magnitude (L : QLaws S) (x y r : Qt S) :
  q_unit S y <> q_unit S x -> In (q_unit S x) (u_iter S) ->
  dec_ok (amt x) -> dec_ok (amt y) -> dec_ok (scale (q_unit S y)) -> dec_ok (scale (q_unit S x)) ->
  HasRefUnit_sub S x y = Ok r ->
  q_unit S r = q_unit S x /\
  Rabs (dval (amt r) * dval (scale (q_unit S x)) - (dmag x - dmag y)) <= h18 * (Rabs (dval (amt y)) + 1) * Rabs (dval (scale (q_unit S x))).
Proof.
  intros Hne Hin Ha Hb Hv Hu. rewrite (ref_sub_kernel S x y).
  destruct (HasRefUnit_equiv_amount S y (q_unit S x)) as [b'|] eqn:Eb; cbn [bind]; [|discriminate]. cbn [a_sub DEC].
  destruct (dec_sub (q_amount S x) b') as [s|] eqn:Es; cbn [bind]; [|discriminate]. intros [= <-].
  destruct (dec_rhs_converted x y b' Hne Hb Hv Hu Eb) as (Hb' & _ & B).
  destruct (dec_sub_exact _ _ _ Ha Hb' Es) as [_ Ev].
  split; [apply (law_unit_new S L); exact Hin|]. rewrite (law_amount_new S L), Ev. unfold dmag at 1.
  replace ((dval (amt x) - dval b') * dval (scale (q_unit S x)) - (dval (amt x) * dval (scale (q_unit S x)) - dmag y))
    with (- (dval b' * dval (scale (q_unit S x)) - dmag y)) by ring. rewrite Rabs_Ropp. exact B.
Qed.

(** the ratio: a / b' with b' the converted right operand, rounded once more *)
Theorem dec_div_magnitude (x y : Qt S) (r : dec) :
  q_unit S y <> q_unit S x ->
  dec_ok (amt x) -> dec_ok (amt y) -> dec_ok (scale (q_unit S y)) -> dec_ok (scale (q_unit S x)) ->
  HasRefUnit_div S x y = Ok r ->
  exists b', HasRefUnit_equiv_amount S y (q_unit S x) = Ok b' /\ dval b' <> 0 /\
    Rabs (dval b' * dval (scale (q_unit S x)) - dmag y) <= h18 * (Rabs (dval (amt y)) + 1) * Rabs (dval (scale (q_unit S x))) /\
    Rabs (dval r - dval (amt x) / dval b') <= h18.
Proof.
  intros Hne Ha Hb Hv Hu. rewrite (ref_div_kernel S x y).
  destruct (HasRefUnit_equiv_amount S y (q_unit S x)) as [b'|] eqn:Eb; cbn [bind]; [|discriminate]. cbn [a_div DEC]. intros Ed.
  destruct (dec_rhs_converted x y b' Hne Hb Hv Hu Eb) as (Hb' & _ & B).
  destruct (dec_div_acc _ _ _ Ha Hb' Ed) as (_ & Hb0 & Bd).
  exists b'. split; [reflexivity|]. split; [exact Hb0|]. split; [exact B|exact Bd].
Qed.

(** * C02: comparison across units compares the magnitudes rounded to 18 digits *)
Theorem dec_cmp_magnitude (x y : Qt S) :
  q_unit S x <> q_unit S y ->
  dec_ok (amt x) -> dec_ok (amt y) -> dec_ok (scale (q_unit S x)) -> dec_ok (scale (q_unit S y)) ->
  Rabs (dmag x) < big - 1 -> Rabs (dmag y) < big - 1 ->
  exists c mx my, HasRefUnit_partial_cmp S x y = Ok (Some c) /\ HasRefUnit_eq S x y = Ok (match c with Eq => true | _ => false end) /\
    Rabs (mx - dmag x) <= h18 /\ Rabs (my - dmag y) <= h18 /\ c = Rcompare mx my /\
    (grid18 (dmag x) -> mx = dmag x) /\ (grid18 (dmag y) -> my = dmag y).
Proof.
  intros Hne Ha Hb Hu Hv Bx By.
  rewrite (ref_cmp_diff_unit S x y Hne), (ref_eq_diff_unit S x y Hne). unfold ref_magnitude. cbn [a_mul DEC a_cmp a_eqb].
  assert (Bx' : Rabs (dval (amt x) * dval (scale (q_unit S x))) < big) by (unfold dmag in Bx; lra).
  assert (By' : Rabs (dval (amt y) * dval (scale (q_unit S y))) < big) by (unfold dmag in By; lra).
  destruct (dec_mul_total_R _ _ Ha Hu Bx') as [mx Ex]. destruct (dec_mul_total_R _ _ Hb Hv By') as [my Ey].
  rewrite Ex, Ey. cbn [bind].
  destruct (dec_mul_acc _ _ _ Ha Hu Ex) as (Hmx & Bmx & _). destruct (dec_mul_acc _ _ _ Hb Hv Ey) as (Hmy & Bmy & _).
  fold (dmag x) in Bmx. fold (dmag y) in Bmy. pose proof h18_lt_1 as H1.
  assert (Fx : dfit mx).
  { apply dfit_of_bound; [exact Hmx|]. replace (dval mx) with ((dval mx - dmag x) + dmag x) by ring. eapply Rle_lt_trans; [apply Rabs_triang|]. lra. }
  assert (Fy : dfit my).
  { apply dfit_of_bound; [exact Hmy|]. replace (dval my) with ((dval my - dmag y) + dmag y) by ring. eapply Rle_lt_trans; [apply Rabs_triang|]. lra. }
  pose proof (dec_cmp_exact mx my (dfit_wf _ Fx) (dfit_wf _ Fy)) as Ec.
  exists (dec_cmp mx my), (dval mx), (dval my). split; [reflexivity|]. split.
  { f_equal. destruct (dec_cmp mx my) eqn:E.
    - apply (dec_cmp_eq_iff mx my Hmx Hmy). exact E.
    - destruct (dec_eqb mx my) eqn:E2; [|reflexivity]. apply (dec_cmp_eq_iff mx my Hmx Hmy) in E2. congruence.
    - destruct (dec_eqb mx my) eqn:E2; [|reflexivity]. apply (dec_cmp_eq_iff mx my Hmx Hmy) in E2. congruence. }
  split; [exact Bmx|]. split; [exact Bmy|]. split; [exact Ec|]. split.
  - intros G. apply (dec_mul_exact_on_grid _ _ _ Ha Hu Ex). exact G.
  - intros G. apply (dec_mul_exact_on_grid _ _ _ Hb Hv Ey). exact G.
Qed.

(** hence the verdict is the exact order whenever the magnitudes are more than 10^-18 apart,
    and always when they have at most 18 fractional digits *)
Corollary dec_cmp_separated (x y : Qt S) :
  q_unit S x <> q_unit S y ->
  dec_ok (amt x) -> dec_ok (amt y) -> dec_ok (scale (q_unit S x)) -> dec_ok (scale (q_unit S y)) ->
  Rabs (dmag x) < big - 1 -> Rabs (dmag y) < big - 1 ->
  exists c, HasRefUnit_partial_cmp S x y = Ok (Some c) /\
    (dmag x + 2 * h18 < dmag y -> c = Lt) /\ (dmag y + 2 * h18 < dmag x -> c = Gt) /\
    (grid18 (dmag x) -> grid18 (dmag y) -> c = Rcompare (dmag x) (dmag y)).
Proof.
  intros Hne Ha Hb Hu Hv Bx By.
  destruct (dec_cmp_magnitude x y Hne Ha Hb Hu Hv Bx By) as (c & mx & my & E & _ & Bmx & Bmy & Ec & Gx & Gy).
  exists c. split; [exact E|]. apply Rabs_le_inv in Bmx, Bmy. repeat split.
  - intros Hlt. rewrite Ec. apply Rcompare_Lt. lra.
  - intros Hlt. rewrite Ec. apply Rcompare_Gt. lra.
  - intros G1 G2. rewrite Ec, (Gx G1), (Gy G2). reflexivity.
Qed.
End Instance.

(** * C04 / C05 (decimal): derived products and quotients *)
(** a rounded binary operation of the decimal type with its exact counterpart *)
Definition dop_rel (op : dec -> dec -> res dec) (rop : R -> R -> R) (okr : dec -> Prop) : Prop :=
  forall x y z, dec_ok x -> dec_ok y -> op x y = Ok z ->
  dec_ok z /\ okr y /\ Rabs (dval z - rop (dval x) (dval y)) <= h18 /\ (grid18 (rop (dval x) (dval y)) -> dval z = rop (dval x) (dval y)).

Lemma mul_dop_rel : dop_rel dec_mul Rmult (fun _ => True).
Proof.
  intros x y z Hx Hy H. destruct (dec_mul_acc x y z Hx Hy H) as (Hz & B & _).
  split; [exact Hz|]. split; [exact I|]. split; [exact B|]. apply (dec_mul_exact_on_grid x y z Hx Hy H).
Qed.
Lemma div_dop_rel : dop_rel dec_div Rdiv (fun y => dval y <> 0).
Proof.
  intros x y z Hx Hy H. destruct (dec_div_acc x y z Hx Hy H) as (Hz & Hy0 & B).
  split; [exact Hz|]. split; [exact Hy0|]. split; [exact B|]. apply (dec_div_exact_on_grid x y z Hx Hy H).
Qed.

Section DerivedDec.
Context (op : dec -> dec -> res dec) (rop : R -> R -> R) (okr : dec -> Prop) (Hop : dop_rel op rop okr).
Context (R0 : QFull DEC).
Hypothesis LR : QLaws R0.
Hypothesis Hfit : forall m, q_fit R0 m = HasRefUnit__fit R0 m.
Hypothesis Hscales : forall w, In w (u_iter R0) -> dfit (u_scale R0 w).
Variables su sv a b : dec.
Hypotheses (Hu : dec_ok su) (Hv : dec_ok sv) (Ha : dec_ok a) (Hb : dec_ok b).

Definition dmag_o (z : Qt R0) : R := dval (q_amount R0 z : dec) * dval (u_scale R0 (q_unit R0 z)).
Notation AB := (rop (dval a) (dval b)).
Notation SC := (rop (dval su) (dval sv)).

(** natural unit: the amount is the rounded op of the amounts, the unit's scale the rounded op of the scales *)
Theorem dec_derived_natural z sc w : op su sv = Ok sc -> (Z.abs (d_coeff sc) <= i128_max)%Z ->
  HasRefUnit_unit_from_scale R0 sc = Some w ->
  @derived_nf DEC op R0 su sv a b = Ok z ->
  q_unit R0 z = w /\ In w (u_iter R0) /\
  Rabs (dmag_o z - AB * SC) <= h18 * (Rabs (dval sc) + Rabs AB) /\
  (grid18 AB -> grid18 SC -> dmag_o z = AB * SC).
Proof.
  intros Esc Csc Ew. unfold derived_nf. rewrite Esc. cbn [bind]. rewrite Ew.
  destruct (op a b) as [m|] eqn:Em; cbn [bind]; [|discriminate]. intros [= <-].
  destruct (Hop su sv sc Hu Hv Esc) as (Hsc & _ & Bsc & Gsc). destruct (Hop a b m Ha Hb Em) as (Hm & _ & Bm & Gm).
  destruct (c09_from_scale R0 sc) as [Hs E]. rewrite <- E, Ew in Hs. destruct Hs as (l1 & l2 & E1 & Heq & _).
  assert (Hin : In w (u_iter R0)) by (rewrite E1; apply in_or_app; right; left; reflexivity).
  unfold dmag_o. rewrite (law_unit_new R0 LR _ _ Hin), (law_amount_new R0 LR).
  split; [reflexivity|]. split; [exact Hin|].
  cbn [a_eqb DEC] in Heq. apply (dec_eqb_exact _ _ (dfit_wf _ (Hscales w Hin)) (dfit_wf _ (conj Hsc Csc))) in Heq. rewrite Heq.
  split.
  - replace (dval m * dval sc - AB * SC) with ((dval m - AB) * dval sc + AB * (dval sc - SC)) by ring.
    eapply Rle_trans; [apply Rabs_triang|]. rewrite !Rabs_mult. pose proof (Rabs_pos (dval sc)). pose proof (Rabs_pos AB). pose proof half_ulp18_pos. nra.
  - intros G1 G2. rewrite (Gm G1), (Gsc G2). reflexivity.
Qed.

(** no natural unit: (op a b) * sc, rounded, re-expressed by _fit in the unit it selects *)
Theorem dec_derived_fit z sc : op su sv = Ok sc -> HasRefUnit_unit_from_scale R0 sc = None ->
  @derived_nf DEC op R0 su sv a b = Ok z ->
  In (q_unit R0 z) (u_iter R0) /\
  exists m, fit_unit R0 m = Some (q_unit R0 z) /\ Rabs (dval m - AB * SC) <= h18 * (Rabs (dval sc) + Rabs AB + 1) /\
    Rabs (dmag_o z - dval m) <= h18 * Rabs (dval (u_scale R0 (q_unit R0 z))).
Proof.
  intros Esc Ew. unfold derived_nf. rewrite Esc. cbn [bind]. rewrite Ew.
  destruct (op a b) as [t|] eqn:Et; cbn [bind]; [|discriminate]. cbn [a_mul DEC].
  destruct (dec_mul t sc) as [m|] eqn:Em; cbn [bind]; [|discriminate].
  rewrite Hfit, fit_spec. destruct (fit_unit R0 m) as [w|] eqn:Eu; [|discriminate]. cbn [a_div DEC].
  destruct (dec_div m (u_scale R0 w)) as [x|] eqn:Ex; cbn [bind]; [|discriminate]. intros [= <-].
  destruct (Hop su sv sc Hu Hv Esc) as (Hsc & _ & Bsc & _). destruct (Hop a b t Ha Hb Et) as (Ht & _ & Bt & _).
  destruct (dec_mul_acc _ _ _ Ht Hsc Em) as (Hm & Bm & _).
  destruct (fit_unit_in_registry R0 m w Eu) as [_ Hin]. destruct (Hscales w Hin) as [Hw _].
  destruct (dec_div_acc _ _ _ Hm Hw Ex) as (_ & Hw0 & Bx).
  unfold dmag_o. rewrite (law_unit_new R0 LR _ _ Hin), (law_amount_new R0 LR).
  split; [exact Hin|]. exists m. split; [exact Eu|]. split.
  - replace (dval m - AB * SC) with ((dval m - dval t * dval sc) + ((dval t - AB) * dval sc + AB * (dval sc - SC))) by ring.
    eapply Rle_trans; [apply Rabs_triang|]. pose proof (Rabs_triang ((dval t - AB) * dval sc) (AB * (dval sc - SC))) as T.
    rewrite !Rabs_mult in T. pose proof (Rabs_pos (dval sc)). pose proof (Rabs_pos AB). pose proof half_ulp18_pos. nra.
  - replace (dval x * dval (u_scale R0 w) - dval m) with ((dval x - dval m / dval (u_scale R0 w)) * dval (u_scale R0 w)) by (field; exact Hw0).
    rewrite Rabs_mult. apply Rmult_le_compat_r; [apply Rabs_pos|exact Bx].
Qed.
End DerivedDec.

(** * C14 (decimal): a table conversion is amount * factor + offset, one rounding (the sum is exact) *)
Theorem dec_affine_value (S : QBase DEC) (LS : QLaws S) (q : Qt S) (to : nat) (k c : dec) (z : Qt S) :
  In to (u_iter S) -> dec_ok (q_amount S q) -> dec_ok k -> dec_ok c ->
  Proofs.C14.affine S q to (k, c) = Ok (Some z) ->
  q_unit S z = to /\ Rabs (dval (q_amount S z) - (dval (q_amount S q) * dval k + dval c)) <= h18 /\
  ((d_nfd (q_amount S q) + d_nfd k <= 18)%Z -> dval (q_amount S z) = dval (q_amount S q) * dval k + dval c).
Proof.
  intros Hin Ha Hk Hc. unfold Proofs.C14.affine. cbn [fst snd a_mul a_add DEC].
  destruct (dec_mul (q_amount S q) k) as [m|] eqn:Em; cbn [bind]; [|discriminate].
  destruct (dec_add m c) as [s|] eqn:Es; cbn [bind]; [|discriminate]. intros [= <-].
  destruct (dec_mul_acc _ _ _ Ha Hk Em) as (Hm & Bm & Xm). destruct (dec_add_exact _ _ _ Hm Hc Es) as [_ Ev].
  split; [apply (law_unit_new S LS); exact Hin|]. rewrite (law_amount_new S LS), Ev. split.
  - replace (dval m + dval c - (dval (q_amount S q) * dval k + dval c)) with (dval m - dval (q_amount S q) * dval k) by ring. exact Bm.
  - intros H. rewrite (Xm H). reflexivity.
Qed.
