(* Proofs/C13.v — rates (property C13), structural part. *)
From Coq Require Import Lia.
From QV Require Import Rt.Prelude Rt.Amount Rt.Quantity Macro.Defs Gen.Prefixes Gen.Catalogue
  Gen.Kernels Macro.Inst Proofs.Laws Proofs.Kernel Proofs.Instances.

Section C13.
Context {am : Amount}.

(** constructors and accessors *)
Lemma rate_new_accessors (TQ PQ : QBase am) t tu p pu :
  Rate_term_amount TQ PQ (Rate_new TQ PQ t tu p pu) = t /\
  Rate_term_unit TQ PQ (Rate_new TQ PQ t tu p pu) = tu /\
  Rate_per_unit_multiple TQ PQ (Rate_new TQ PQ t tu p pu) = p /\
  Rate_per_unit TQ PQ (Rate_new TQ PQ t tu p pu) = pu.
Proof. repeat split. Qed.

Lemma rate_from_qty_vals_accessors (TQ PQ : QBase am) (term : Qt TQ) (per : Qt PQ) :
  Rate_from_qty_vals TQ PQ term per = Rate_new TQ PQ (q_amount TQ term) (q_unit TQ term) (q_amount PQ per) (q_unit PQ per).
Proof. reflexivity. Qed.

(** reciprocal swaps term and per; applied twice it is the identity *)
Lemma rate_reciprocal_swaps (TQ PQ : QBase am) (r : rate am) :
  Rate_reciprocal TQ PQ r = Rate_new PQ TQ (rt_per_unit_multiple r) (rt_per_unit r) (rt_term_amount r) (rt_term_unit r).
Proof. reflexivity. Qed.

Lemma rate_reciprocal_involutive (TQ PQ : QBase am) (r : rate am) :
  Rate_reciprocal PQ TQ (Rate_reciprocal TQ PQ r) = r.
Proof. destruct r. reflexivity. Qed.

(** rate * value: term amount * ((value / 1 per-unit) / per multiple), in the term unit *)
Definition rate_mul_nf (TQ : QBase am) (PQ : QFull am) (r : rate am) (q : Qt PQ) : res (Qt TQ) :=
  bind (q_div PQ q (q_new PQ (a_one am) (rt_per_unit r))) (fun x1 =>
  bind (a_div am x1 (rt_per_unit_multiple r)) (fun x2 =>
  bind (a_mul am x2 (rt_term_amount r)) (fun x3 => Ok (q_new TQ x3 (rt_term_unit r))))).

Lemma rate_mul_kernel (TQ : QBase am) (PQ : QFull am) r q :
  Rate_mul TQ PQ r q = rate_mul_nf TQ PQ r q /\ tmpl_Mul_Qty_Rate PQ TQ q r = rate_mul_nf TQ PQ r q.
Proof.
  unfold Rate_mul, tmpl_Mul_Qty_Rate, rate_mul_nf, Unit_as_qty, Rate_per_unit, Rate_per_unit_multiple,
    Rate_term_amount, Rate_term_unit.
  rewrite ?bind_assoc. split; reflexivity.
Qed.

(** value / rate: per multiple * ((value / 1 term-unit) / term amount), in the per unit *)
Definition qty_div_rate_nf (TQ : QFull am) (PQ : QBase am) (q : Qt TQ) (r : rate am) : res (Qt PQ) :=
  bind (q_div TQ q (q_new TQ (a_one am) (rt_term_unit r))) (fun x1 =>
  bind (a_div am x1 (rt_term_amount r)) (fun x2 =>
  bind (a_mul am x2 (rt_per_unit_multiple r)) (fun x3 => Ok (q_new PQ x3 (rt_per_unit r))))).

Lemma qty_div_rate_kernel (TQ : QFull am) (PQ : QBase am) q r :
  tmpl_Div_Qty_Rate TQ PQ q r = qty_div_rate_nf TQ PQ q r.
Proof.
  unfold tmpl_Div_Qty_Rate, qty_div_rate_nf, Unit_as_qty, Rate_per_unit, Rate_per_unit_multiple,
    Rate_term_amount, Rate_term_unit.
  rewrite ?bind_assoc. reflexivity.
Qed.

(** dividing by the reciprocal IS multiplying by the rate (the same term) *)
Lemma div_by_reciprocal_is_mul (TQ : QBase am) (PQ : QFull am) (r : rate am) (q : Qt PQ) :
  tmpl_Div_Qty_Rate PQ TQ q (Rate_reciprocal TQ PQ r) = Rate_mul TQ PQ r q.
Proof.
  rewrite qty_div_rate_kernel. destruct (rate_mul_kernel TQ PQ r q) as [-> _]. reflexivity.
Qed.

(** result units *)
Lemma rate_mul_unit (TQ : QBase am) (L : QLaws TQ) (PQ : QFull am) r q y :
  In (rt_term_unit r) (u_iter TQ) -> Rate_mul TQ PQ r q = Ok y -> q_unit TQ y = rt_term_unit r.
Proof.
  intros Hin H. destruct (rate_mul_kernel TQ PQ r q) as [E _]. rewrite E in H. unfold rate_mul_nf in H.
  apply bind_ok in H as (x1 & _ & H). apply bind_ok in H as (x2 & _ & H). apply bind_ok in H as (x3 & _ & [= <-]).
  apply (law_unit_new TQ L). exact Hin.
Qed.

Lemma qty_div_rate_unit (TQ : QFull am) (PQ : QBase am) (L : QLaws PQ) q r y :
  In (rt_per_unit r) (u_iter PQ) -> tmpl_Div_Qty_Rate TQ PQ q r = Ok y -> q_unit PQ y = rt_per_unit r.
Proof.
  intros Hin H. rewrite qty_div_rate_kernel in H. unfold qty_div_rate_nf in H.
  apply bind_ok in H as (x1 & _ & H). apply bind_ok in H as (x2 & _ & H). apply bind_ok in H as (x3 & _ & [= <-]).
  apply (law_unit_new PQ L). exact Hin.
Qed.
End C13.
