(* Proofs/AccDecExamples.v — the hypotheses of the decimal accuracy / totality
   theorems are satisfiable: 2.5 inch -> centimetre in the decimal
   configuration meets every premise of dec_convert_exact and
   dec_convert_total, and the model computes 6.35 cm. *)
From Coq Require Import Reals ZArith Lra Lia String List.
From QV Require Import Rt.Prelude Rt.Amount Rt.Quantity Macro.Defs Gen.Prefixes Gen.Catalogue Gen.Kernels Macro.Inst
  Amount.DecModel Amount.Dec Amount.DecAcc Proofs.Laws Proofs.Kernel Proofs.Instances Proofs.AccDec.
From QV Require Amount.Laws.
Local Open Scope R_scope.

Definition LengthD : QBase DEC := base_of_gen DEC cat_Length_gen.
Definition inch_ixd : nat := 4%nat.
Definition cm_ixd : nat := 3%nat.
Definition q_exampled : Qt LengthD := q_new LengthD (mkdec 25 1) inch_ixd.     (* 2.5 in *)

Lemma exampled_units : gen_name cat_Length_gen inch_ixd = us "Inch"%string /\ gen_name cat_Length_gen cm_ixd = us "Centimeter"%string /\
  u_scale LengthD inch_ixd = mkdec 254 4 /\ u_scale LengthD cm_ixd = mkdec 1 2.
Proof. repeat split; vm_compute; reflexivity. Qed.

Lemma exampled_computes : exists q', HasRefUnit_convert LengthD q_exampled cm_ixd = Ok q' /\
  q_amount LengthD q' = mkdec 6350 3 /\ q_unit LengthD q' = cm_ixd.
Proof.
  assert (H : match HasRefUnit_convert LengthD q_exampled cm_ixd with
              | Ok q => Some (q_amount LengthD q : dec, q_unit LengthD q) | Panic _ => None end = Some (mkdec 6350 3, cm_ixd))
    by (vm_compute; reflexivity).
  destruct (HasRefUnit_convert LengthD q_exampled cm_ixd) as [q|]; [|discriminate].
  exists q. injection H as H1 H2. split; [reflexivity|]. split; assumption.
Qed.

Ltac tp := repeat match goal with |- context [ten_pow ?k] => let x := eval vm_compute in (ten_pow k) in change (ten_pow k) with x end.
Ltac dec_concrete := unfold dval; cbn [d_coeff d_nfd]; tp.

Theorem dec_convert_premises_hold :
  q_unit LengthD q_exampled <> cm_ixd /\ In cm_ixd (u_iter LengthD) /\
  Amount.Laws.dec_ok (q_amount LengthD q_exampled) /\ dfit (u_scale LengthD (q_unit LengthD q_exampled)) /\ dfit (u_scale LengthD cm_ixd) /\
  dval (u_scale LengthD cm_ixd) <> 0 /\
  grid18 (dval (u_scale LengthD (q_unit LengthD q_exampled)) / dval (u_scale LengthD cm_ixd)) /\
  grid18 (dval (u_scale LengthD (q_unit LengthD q_exampled)) / dval (u_scale LengthD cm_ixd) * dval (q_amount LengthD q_exampled)) /\
  Rabs (dval (u_scale LengthD (q_unit LengthD q_exampled)) / dval (u_scale LengthD cm_ixd)) < big /\
  (Rabs (dval (u_scale LengthD (q_unit LengthD q_exampled)) / dval (u_scale LengthD cm_ixd)) + half_ulp18) * Rabs (dval (q_amount LengthD q_exampled)) < big.
Proof.
  assert (Eu : q_unit LengthD q_exampled = inch_ixd) by reflexivity.
  assert (Ea : q_amount LengthD q_exampled = mkdec 25 1) by reflexivity.
  destruct exampled_units as (_ & _ & Ei & Ec). rewrite Eu, Ea, Ei, Ec.
  assert (R1 : dval (mkdec 254 4) / dval (mkdec 1 2) = 254 / 100) by (dec_concrete; lra).
  assert (R2 : dval (mkdec 25 1) = 25 / 10) by (dec_concrete; lra).
  assert (Hh : half_ulp18 < 1) by exact h18_lt_1.
  assert (Hb : big = 10000000000000000000) by (unfold big; tp; reflexivity).
  split; [discriminate|]. split; [vm_compute; tauto|].
  split; [unfold Amount.Laws.dec_ok; cbn; lia|].
  split; [split; [unfold Amount.Laws.dec_ok; cbn; lia|vm_compute; discriminate]|].
  split; [split; [unfold Amount.Laws.dec_ok; cbn; lia|vm_compute; discriminate]|].
  split; [dec_concrete; lra|].
  split; [exists 2540000000000000000%Z; rewrite R1; tp; lra|].
  split; [exists 6350000000000000000%Z; rewrite R1, R2; tp; lra|].
  rewrite R1, R2, Hb. rewrite !Rabs_pos_eq by lra. split; lra.
Qed.
