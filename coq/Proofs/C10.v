(* Proofs/C10.v — quantities without a reference unit never mix units
   silently (property C10).  Structural: every amount, both back-ends. *)
From Coq Require Import Lia.
From QV Require Import Rt.Prelude Rt.Amount Rt.Quantity Macro.Defs Gen.Prefixes Gen.Catalogue
  Gen.Kernels Macro.Inst Proofs.Laws Proofs.Kernel Proofs.Instances.

(** equal up to a case analysis on the conditions: robust against swapped branches / negated conditions *)
Ltac by_cases :=
  repeat first [ reflexivity
               | progress cbn [negb andb orb]
               | match goal with |- context [Nat.eqb ?a ?b] => destruct (Nat.eqb a b) eqn:? end
               | match goal with |- context [if ?b then _ else _] => destruct b eqn:? end ].

Section C10.
Context (am : Amount).
Variable g : gen_def SIPrefix.
Notation F := (full_of_gen am g).
Notation B := (base_of_gen am g).

(** types with several units and no reference unit *)
Section NoRef.
Hypothesis Hp : gd_path g = PNoRef.

Lemma noref_eq_spec (x y : Qt B) :
  q_eq F x y = Ok (Nat.eqb (q_unit B x) (q_unit B y) && a_eqb am (q_amount B x) (q_amount B y)).
Proof. cbn [q_eq full_of_gen]. rewrite Hp. first [reflexivity | unfold tmpl_PartialEq_Qty_Self_PNoRef, Quantity_eq; by_cases]. Qed.

Lemma noref_cmp_spec (x y : Qt B) :
  q_partial_cmp F x y =
  Ok (if Nat.eqb (q_unit B x) (q_unit B y) then a_cmp am (q_amount B x) (q_amount B y) else None).
Proof. cbn [q_partial_cmp full_of_gen]. rewrite Hp. first [reflexivity | unfold tmpl_PartialOrd_Qty_none_PNoRef, Quantity_partial_cmp; by_cases]. Qed.

Lemma noref_arith_diff (x y : Qt B) : q_unit B x <> q_unit B y ->
  q_add F x y = Panic PUnitMismatch /\ q_sub F x y = Panic PUnitMismatch /\ q_div F x y = Panic PUnitMismatch.
Proof.
  intros Hne. cbn [q_add q_sub q_div full_of_gen]. rewrite Hp.
  unfold tmpl_Add_Qty_Self_PNoRef, tmpl_Sub_Qty_Self_PNoRef, tmpl_Div_Qty_Self_PNoRef.
  rewrite noref_add_diff, noref_sub_diff, noref_div_diff by exact Hne. repeat split.
Qed.

Lemma noref_arith_same (x y : Qt B) : q_unit B x = q_unit B y ->
  q_add F x y = bind (a_add am (q_amount B x) (q_amount B y)) (fun s => Ok (q_new B s (q_unit B x))) /\
  q_sub F x y = bind (a_sub am (q_amount B x) (q_amount B y)) (fun s => Ok (q_new B s (q_unit B x))) /\
  q_div F x y = a_div am (q_amount B x) (q_amount B y).
Proof.
  intros E. cbn [q_add q_sub q_div full_of_gen]. rewrite Hp.
  unfold tmpl_Add_Qty_Self_PNoRef, tmpl_Sub_Qty_Self_PNoRef, tmpl_Div_Qty_Self_PNoRef.
  rewrite noref_add_same, noref_sub_same, noref_div_same by exact E. repeat split.
Qed.
End NoRef.

(** single-unit types *)
Section Single.
Hypothesis Hp : gd_path g = PSingle.

Lemma single_unit_const (x : Qt B) : q_unit B x = 0.
Proof. revert x. unfold base_of_gen. rewrite Hp. reflexivity. Qed.

Lemma single_new_any_unit (a : am) u v : q_new B a u = q_new B a v.
Proof. unfold base_of_gen. rewrite Hp. reflexivity. Qed.

Lemma single_arith (x y : Qt B) :
  q_add F x y = bind (a_add am (q_amount B x) (q_amount B y)) (fun s => Ok (q_new B s 0)) /\
  q_sub F x y = bind (a_sub am (q_amount B x) (q_amount B y)) (fun s => Ok (q_new B s 0)) /\
  q_div F x y = a_div am (q_amount B x) (q_amount B y).
Proof.
  cbn [q_add q_sub q_div full_of_gen]. rewrite Hp.
  unfold tmpl_Add_Qty_Self_PSingle, tmpl_Sub_Qty_Self_PSingle, tmpl_Div_Qty_Self_PSingle.
  rewrite (single_unit_const x). repeat split.
Qed.
End Single.
End C10.

(** the types of the current tree these theorems are about *)
Definition noref_entries : list (cat_entry SIPrefix) :=
  List.filter (fun e => match gd_path (ce_gen e) with PRef => false | _ => true end) all_entries.

Lemma noref_entries_nonempty :
  existsb (fun e => match gd_path (ce_gen e) with PNoRef => true | _ => false end) noref_entries = true /\
  existsb (fun e => match gd_path (ce_gen e) with PSingle => true | _ => false end) noref_entries = true.
Proof. split; vm_compute; reflexivity. Qed.

(** a type is on the reference-unit path exactly when it declares a reference unit *)
Definition path_matches_decl (e : cat_entry SIPrefix) : bool :=
  let has_ref := existsb (fun a => match ra_kind a with ARefUnit => true | _ => false end) (rd_attrs (ce_raw e)) in
  let n_units := List.length (List.filter (fun a => match ra_kind a with AOtherAttr => false | _ => true end) (rd_attrs (ce_raw e))) in
  match gd_path (ce_gen e) with
  | PRef => has_ref
  | PNoRef => negb has_ref && Nat.ltb 1 n_units
  | PSingle => Nat.eqb n_units 1
  end.

Lemma all_path_matches_decl : forallb path_matches_decl all_entries = true.
Proof. vm_compute. reflexivity. Qed.
