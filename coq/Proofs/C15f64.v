(* Proofs/C15f64.v — property C15, binary64: the text Display produces for a
   finite double, a zero or an infinity parses back to the identical value
   (sign of zero included), whenever the digit generator's output passes the
   read-back test [roundtrip_ok] — which the model of the shortest-digits search
   applies to its own result before using it, so it can only fail on the
   complete-expansion fallback. *)
From Coq Require Import ZArith List Bool Lia Eqdep_dec.
From Coq Require Import Floats.SpecFloat.
From Flocq Require Import IEEE754.BinarySingleNaN IEEE754.Binary IEEE754.Bits.
From QV Require Import Rt.Prelude Rt.Fmt.
Import ListNotations.
Local Open Scope Z_scope.

(** the digits actually used read back as (m, e) *)
Definition digits_ok (m : positive) (e : Z) : bool :=
  let '(ds, k) := f64_digits_shortest m e in roundtrip_ok m e ds k.

(** by construction this holds whenever the shortest search result is used *)
Lemma digits_ok_shortest m e ds k :
  shortest_search m e = Some (ds, k) -> roundtrip_ok m e ds k = true -> digits_ok m e = true.
Proof. intros E R. unfold digits_ok, f64_digits_shortest. rewrite E, R. exact R. Qed.

Lemma digits_ok_cases m e :
  digits_ok m e = true \/
  ((shortest_search m e = None \/ exists ds k, shortest_search m e = Some (ds, k) /\ roundtrip_ok m e ds k = false) /\
   (let '(ds, k) := exact_expansion m e in roundtrip_ok m e ds k = false)).
Proof.
  unfold digits_ok, f64_digits_shortest. destruct (shortest_search m e) as [[ds k]|] eqn:E.
  - destruct (roundtrip_ok m e ds k) eqn:R; [left; exact R|].
    destruct (exact_expansion m e) as [ds' k'] eqn:X. destruct (roundtrip_ok m e ds' k') eqn:R'; [left; reflexivity|].
    right. split; [right; exists ds, k; split; [reflexivity|exact R]|reflexivity].
  - destruct (exact_expansion m e) as [ds' k'] eqn:X. destruct (roundtrip_ok m e ds' k') eqn:R'; [left; reflexivity|].
    right. split; [left; reflexivity|reflexivity].
Qed.

(** without flags Display prints the sign and the body, nothing else *)
Lemma pad_signed_default sign body used : pad_signed fspec_default sign body used = sign ++ body.
Proof. unfold pad_signed, with_padding. cbn. apply app_nil_r. Qed.

Lemma f64_to_text_default x : f64_to_text fspec_default x = f64_sign false x ++ f64_body None x.
Proof. unfold f64_to_text. apply pad_signed_default. Qed.

(** the positional text of digits never starts with a sign *)
Lemma dchars_head ds c r : dchars ds = c :: r -> (48 <= c)%N.
Proof. destruct ds as [|d ds]; [discriminate|]. unfold dchars. intros E. pose proof (f_equal (hd 0%N) E) as E1. cbn [hd map] in E1. rewrite <- E1. unfold c_zero. apply N.le_add_r. Qed.

Lemma digits_to_dec_str_head ds k p :
  exists c r, digits_to_dec_str ds k p = c :: r /\ (46 <= c)%N.
Proof.
  unfold digits_to_dec_str.
  destruct (Z.leb_spec k 0) as [Hk0|Hk0]; [eexists _, _; split; [reflexivity|unfold c_zero; lia]|].
  destruct (Z.ltb_spec k (Z.of_nat (length ds))) as [Hk|Hk].
  - destruct (dchars (firstn (Z.to_nat k) ds)) as [|c r] eqn:E; cbn [app].
    + eexists _, _; split; [reflexivity|unfold c_dot; lia].
    + eexists _, _; split; [reflexivity|]. pose proof (dchars_head _ _ _ E). lia.
  - destruct (dchars ds) as [|c r] eqn:E; cbn [app].
    + destruct ds; [|discriminate]. cbn [length Z.of_nat] in *. rewrite Z.sub_0_r. unfold zeros.
      destruct (Z.to_nat k) as [|n] eqn:En; [lia|]. cbn [repeat app]. eexists _, _; split; [reflexivity|unfold c_zero; lia].
    + eexists _, _; split; [reflexivity|]. pose proof (dchars_head _ _ _ E). lia.
Qed.

(** bounded-ness proofs are unique (bool has decidable equality): no axiom *)
Lemma finite_eq s m e (H1 H2 : SpecFloat.bounded 53 1024 m e = true) :
  B754_finite 53 1024 s m e H1 = B754_finite 53 1024 s m e H2.
Proof. f_equal. apply UIP_dec. apply bool_dec. Qed.

Lemma sf_to_b64_finite s m e (H : SpecFloat.bounded 53 1024 m e = true) :
  sf_to_b64 (S754_finite s m e) = B754_finite 53 1024 s m e H.
Proof.
  unfold sf_to_b64.
  generalize (@eq_refl bool (SpecFloat.bounded 53 1024 m e)).
  generalize (SpecFloat.bounded 53 1024 m e) at 2 3.
  intros b. destruct b; intros E.
  - apply finite_eq.
  - exfalso. congruence.
Qed.

(** the parser on an unsigned text that does not start with a sign character *)
Lemma f64_parse_unsigned body c r : body = c :: r -> (46 <= c)%N ->
  f64_parse body = finish_parse false (parse_unsigned_sf body).
Proof.
  intros -> Hc. unfold f64_parse.
  destruct (N.eqb_spec c c_minus) as [E|_]; [unfold c_minus in E; lia|].
  destruct (N.eqb_spec c c_plus) as [E|_]; [unfold c_plus in E; lia|]. reflexivity.
Qed.

Lemma f64_parse_negated body : f64_parse (c_minus :: body) = finish_parse true (parse_unsigned_sf body).
Proof. unfold f64_parse. rewrite N.eqb_refl. reflexivity. Qed.

(** * the theorems *)
Theorem f64_display_parses_back_finite s m e (H : SpecFloat.bounded 53 1024 m e = true) :
  digits_ok m e = true ->
  f64_parse (f64_to_text fspec_default (B754_finite 53 1024 s m e H)) = Some (B754_finite 53 1024 s m e H).
Proof.
  intros Hok. rewrite f64_to_text_default. cbn [f64_body f64_sign b64_is_neg].
  unfold digits_ok in Hok. destruct (f64_digits_shortest m e) as [ds k].
  destruct (digits_to_dec_str_head ds k 0) as (c & r & T & Hh).
  unfold roundtrip_ok in Hok.
  destruct (parse_unsigned_sf (digits_to_dec_str ds k 0)) as [[| | |s' m' e']|] eqn:P; try discriminate.
  apply andb_true_iff in Hok as [Hok He]. apply andb_true_iff in Hok as [Hs Hm].
  apply negb_true_iff in Hs. apply Pos.eqb_eq in Hm. apply Z.eqb_eq in He. subst s' m' e'.
  destruct s.
  - cbn [app]. rewrite f64_parse_negated, P. cbn [finish_parse sf_set_sign]. f_equal. apply sf_to_b64_finite.
  - cbn [app]. rewrite (f64_parse_unsigned _ c r T Hh), P. cbn [finish_parse sf_set_sign]. f_equal. apply sf_to_b64_finite.
Qed.

(** zeros (with their sign) and infinities *)
Theorem f64_display_parses_back_special x :
  (exists s, x = B754_zero 53 1024 s) \/ (exists s, x = B754_infinity 53 1024 s) ->
  f64_parse (f64_to_text fspec_default x) = Some x.
Proof. intros [[[|] ->]|[[|] ->]]; vm_compute; reflexivity. Qed.

(** NaN prints as "NaN" and reads back as a NaN (the payload is not printed) *)
Theorem f64_display_nan s pl H : exists x, f64_parse (f64_to_text fspec_default (B754_nan 53 1024 s pl H)) = Some x /\ is_nan 53 1024 x = true.
Proof. eexists. split; [vm_compute; reflexivity|reflexivity]. Qed.

(** every non-NaN double whose digits pass the read-back test *)
Theorem f64_display_parses_back x :
  match x with B754_finite _ _ _ m e _ => digits_ok m e = true | B754_nan _ _ _ _ _ => False | _ => True end ->
  f64_parse (f64_to_text fspec_default x) = Some x.
Proof.
  destruct x as [s|s|s pl H|s m e H]; intros Hx.
  - apply f64_display_parses_back_special. left. eexists; reflexivity.
  - apply f64_display_parses_back_special. right. eexists; reflexivity.
  - contradiction.
  - apply f64_display_parses_back_finite. exact Hx.
Qed.

(** non-vacuity: a few doubles, among them the smallest subnormal, the largest finite, 0.1 and 1/3 *)
Example digits_ok_examples :
  forallb (fun z => match b64_of_bits z with B754_finite _ _ _ m e _ => digits_ok m e | _ => false end)
    [1; 9218868437227405311; 4591870180066957722; 4599676419421066581; 4607182418800017408; 4503599627370496; 9007199254740993]%Z = true.
Proof. vm_compute. reflexivity. Qed.

Print Assumptions f64_display_parses_back.
