(* Proofs/C15dec.v — text output (property C15) for the decimal configuration:
   the digits that <Decimal as Display>::fmt prints (Amount/DecModel.v,
   [dec_display_parts]) are those of |amount| correctly rounded to the
   requested number of fractional digits (capped at 18), written the way
   String::from(Decimal) writes a decimal; the text parses back to that value;
   and Quantity::fmt without flags prints "<amount> <symbol>" with the amount
   exactly as String::from prints it. *)
From Coq Require Import ZArith NArith List Bool Lia.
From QV Require Import Rt.Prelude Rt.Amount Rt.Quantity Rt.Fmt Rt.FmtProofs
  Amount.DecModel Amount.DecStr Amount.DecAcc Amount.Dec Gen.Kernels Gen.KernelsFmt Proofs.C15.
Import ListNotations.
Local Open Scope Z_scope.

(** * The specification value *)

(** number of fractional digits shown: the requested precision capped at 18
    (fpdec's MAX_N_FRAC_DIGITS), or the amount's own number without precision *)
Definition disp_prec (prec : option N) (d : dec) : Z :=
  match prec with Some p => Z.min (Z.of_N p) 18 | None => d_nfd d end.

(** the non-negative decimal whose digits are printed *)
Definition dec_shown (prec : option N) (d : dec) : dec :=
  let p := disp_prec prec d in
  let nfd := d_nfd d in
  if nfd <? p then mkdec (Z.abs (d_coeff d) * ten_pow (p - nfd)) p      (* padded with zeros *)
  else if p =? nfd then mkdec (Z.abs (d_coeff d)) nfd
  else mkdec (Z.abs (match i128_div_rounded (d_coeff d) (ten_pow (nfd - p)) with
                     | Ok r => r | Panic _ => 0 end)) p.                 (* rounded *)

Lemma disp_prec_range prec d : 0 <= d_nfd d <= 18 -> 0 <= disp_prec prec d <= 18.
Proof. intros H. unfold disp_prec. destruct prec; lia. Qed.

Lemma dec_shown_nfd prec d : d_nfd (dec_shown prec d) = disp_prec prec d.
Proof.
  unfold dec_shown. cbv zeta.
  destruct (Z.ltb_spec (d_nfd d) (disp_prec prec d)); [reflexivity|].
  destruct (Z.eqb_spec (disp_prec prec d) (d_nfd d)) as [E|]; [symmetry; exact E|reflexivity].
Qed.

Lemma dec_shown_nonneg prec d : 0 <= d_nfd d -> 0 <= d_coeff (dec_shown prec d).
Proof.
  intros Hn. unfold dec_shown. cbv zeta.
  destruct (Z.ltb_spec (d_nfd d) (disp_prec prec d)).
  - cbn [d_coeff]. pose proof (ten_pow_pos (disp_prec prec d - d_nfd d) ltac:(lia)). nia.
  - destruct (disp_prec prec d =? d_nfd d); cbn [d_coeff]; lia.
Qed.

(** * The text *)

Lemma dec_to_string_nonneg c n : 0 <= c -> dec_to_string (mkdec c n) = dec_body c n.
Proof.
  intros H. rewrite dec_to_string_body. cbn [d_coeff d_nfd].
  destruct (Z.geb_spec c 0); [|lia]. rewrite Z.abs_eq by assumption. reflexivity.
Qed.

Lemma dec_body_frac a n : n <> 0 ->
  dec_body a n = nat_digits (a / ten_pow n) ++ [ch_dot] ++ fixdigits (Z.to_nat n) (a mod ten_pow n).
Proof. intros H. unfold dec_body. destruct (Z.eqb_spec n 0); [contradiction|reflexivity]. Qed.

Lemma dec_body_int a : dec_body a 0 = nat_digits a.
Proof. reflexivity. Qed.

(** the digits of a value padded with k more zeros *)
Lemma pad_div a n k : 0 <= n -> 0 <= k -> (a * ten_pow k) / ten_pow (n + k) = a / ten_pow n.
Proof.
  intros Hn Hk. rewrite ten_pow_add by assumption.
  pose proof (ten_pow_pos n Hn). pose proof (ten_pow_pos k Hk).
  apply Z.div_mul_cancel_r; lia.
Qed.

Lemma pad_mod a n k : 0 <= n -> 0 <= k ->
  (a * ten_pow k) mod ten_pow (n + k) = (a mod ten_pow n) * ten_pow k.
Proof.
  intros Hn Hk. rewrite ten_pow_add by assumption.
  pose proof (ten_pow_pos n Hn). pose proof (ten_pow_pos k Hk).
  apply Z.mul_mod_distr_r; lia.
Qed.

(** the text is String::from of the shown value; the sign flag is that of the
    unrounded coefficient *)
Theorem dec_display_text (prec : option N) (d : dec) : 0 <= d_nfd d <= 18 ->
  snd (dec_display_parts prec d) = dec_to_string (dec_shown prec d) /\
  fst (dec_display_parts prec d) = (d_coeff d >=? 0).
Proof.
  intros Hn. split; [|reflexivity].
  pose proof (disp_prec_range prec d Hn) as Hp.
  unfold dec_display_parts, dec_shown. cbv zeta. cbn [snd].
  change (match prec with Some p => Z.min (Z.of_N p) max_nfd | None => d_nfd d end)
    with (disp_prec prec d).
  set (p := disp_prec prec d) in *. clearbody p.
  destruct d as [c nfd]. cbn [d_coeff d_nfd] in *.
  destruct (Z.eqb_spec nfd 0) as [->|Hn0].
  - (* an integer *)
    destruct (Z.gtb_spec p 0) as [Hp0|Hp0].
    + destruct (Z.ltb_spec 0 p); [|lia].
      pose proof (ten_pow_pos p ltac:(lia)) as HT.
      rewrite dec_to_string_nonneg by (rewrite Z.sub_0_r; nia).
      rewrite dec_body_frac by lia. rewrite Z.sub_0_r.
      rewrite Z.div_mul, Z.mod_mul by lia. reflexivity.
    + assert (p = 0) as -> by lia. cbn [Z.ltb Z.eqb Z.compare].
      rewrite dec_to_string_nonneg by lia. reflexivity.
  - destruct (Z.compare_spec p nfd) as [E|L|G].
    + (* as many digits as the value has *)
      subst p. rewrite Z.ltb_irrefl, Z.eqb_refl.
      destruct (Z.gtb_spec nfd 0); [|lia].
      rewrite dec_to_string_nonneg by lia. rewrite dec_body_frac by assumption. reflexivity.
    + (* fewer: rounded *)
      destruct (Z.ltb_spec nfd p); [lia|]. destruct (Z.eqb_spec p nfd); [lia|].
      set (c' := match i128_div_rounded c (ten_pow (nfd - p)) with Ok r => r | Panic _ => 0 end).
      rewrite dec_to_string_nonneg by lia.
      destruct (Z.gtb_spec p 0).
      * rewrite dec_body_frac by lia. reflexivity.
      * assert (p = 0) as -> by lia. rewrite dec_body_int.
        change (ten_pow 0) with 1. rewrite Z.div_1_r. reflexivity.
    + (* more: padded *)
      destruct (Z.ltb_spec nfd p); [|lia].
      destruct (Z.gtb_spec p 0); [|lia].
      pose proof (ten_pow_pos (p - nfd) ltac:(lia)) as HT.
      rewrite dec_to_string_nonneg by nia.
      rewrite dec_body_frac by lia.
      replace (ten_pow p) with (ten_pow (nfd + (p - nfd))) by (f_equal; lia).
      rewrite pad_div, pad_mod by lia. reflexivity.
Qed.

(** * Correct rounding *)

Lemma ten_pow_18_le : ten_pow 18 <= i128_max.
Proof. vm_compute. discriminate. Qed.

(** rounding away at least one digit of an i128 never panics (the model's
    [Panic _ => 0] branch is dead) — including for i128::MIN *)
Lemma div_rounded_ten_pow_ok c k : 1 <= k <= 18 -> i128_min <= c <= i128_max ->
  exists r, i128_div_rounded c (ten_pow k) = Ok r.
Proof.
  intros Hk Hc.
  pose proof (ten_pow_pos k ltac:(lia)) as HT.
  assert (H10 : 10 <= ten_pow k) by (change 10 with (ten_pow 1); apply ten_pow_mono; lia).
  unfold i128_div_rounded. destruct (Z.eqb_spec (ten_pow k) 0); [lia|].
  unfold flip_signs. destruct (Z.ltb_spec (ten_pow k) 0); [lia|]. cbn [bind].
  apply round_quot_total.
  set (T := ten_pow k) in *. clearbody T.
  unfold i128_min, i128_max in *.
  set (M := 2 ^ 127) in *. assert (HM : 10 <= M) by (vm_compute; discriminate). clearbody M.
  assert (Hq : - M <= c / T <= (M - 1) / 10).
  { split.
    - apply Z.div_le_lower_bound; nia.
    - destruct (Z.le_gt_cases 0 c).
      + apply Z.le_trans with (c / 10).
        * apply Z.div_le_compat_l; lia.
        * apply Z.div_le_mono; lia.
      + apply Z.le_trans with 0; [|apply Z.div_pos; lia].
        assert (c / T < 0) by (apply Z.div_lt_upper_bound; lia). lia. }
  assert ((M - 1) / 10 < M - 1) by (apply Z.div_lt_upper_bound; lia).
  lia.
Qed.

(** fewer digits than the value has: the shown value is |d| rounded to the
    nearest multiple of 10^-p, i.e. off by at most half a unit of the last
    shown digit (ties: half-even, see [round_quot]) *)
Theorem dec_shown_rounded (prec : option N) (d : dec) :
  0 <= d_nfd d <= 18 -> i128_min <= d_coeff d <= i128_max ->
  disp_prec prec d < d_nfd d ->
  let k := d_nfd d - disp_prec prec d in
  2 * Z.abs (d_coeff (dec_shown prec d) * ten_pow k - Z.abs (d_coeff d)) <= ten_pow k.
Proof.
  intros Hn Hc Hlt k.
  pose proof (disp_prec_range prec d Hn) as Hp.
  unfold dec_shown. cbv zeta. fold k.
  destruct (Z.ltb_spec (d_nfd d) (disp_prec prec d)); [lia|].
  destruct (Z.eqb_spec (disp_prec prec d) (d_nfd d)); [lia|].
  cbn [d_coeff].
  destruct (div_rounded_ten_pow_ok (d_coeff d) k ltac:(lia) Hc) as [r Hr].
  rewrite Hr.
  destruct (i128_div_rounded_spec _ _ _ Hr) as [_ Hs].
  pose proof (ten_pow_pos k ltac:(lia)) as HT.
  rewrite (Z.abs_eq (ten_pow k)) in Hs by lia.
  replace (Z.abs r * ten_pow k) with (Z.abs (r * ten_pow k))
    by (rewrite Z.abs_mul, (Z.abs_eq (ten_pow k)) by lia; reflexivity).
  lia.
Qed.

(** the same under the bound used by the parse-back theorems *)
Corollary dec_shown_rounded_abs (prec : option N) (d : dec) :
  0 <= d_nfd d <= 18 -> Z.abs (d_coeff d) <= i128_max ->
  disp_prec prec d < d_nfd d ->
  let k := d_nfd d - disp_prec prec d in
  2 * Z.abs (d_coeff (dec_shown prec d) * ten_pow k - Z.abs (d_coeff d)) <= ten_pow k.
Proof.
  intros Hn Hc. apply dec_shown_rounded; [assumption|].
  change i128_min with (- (i128_max + 1)). lia.
Qed.

(** at least as many digits as the value has: exactly |d|, padded *)
Theorem dec_shown_exact (prec : option N) (d : dec) :
  d_nfd d <= disp_prec prec d ->
  d_coeff (dec_shown prec d) = Z.abs (d_coeff d) * ten_pow (disp_prec prec d - d_nfd d).
Proof.
  intros Hle. unfold dec_shown. cbv zeta.
  destruct (Z.ltb_spec (d_nfd d) (disp_prec prec d)); [reflexivity|].
  assert (E : disp_prec prec d = d_nfd d) by lia.
  rewrite E, Z.eqb_refl, Z.sub_diag. cbn [d_coeff]. change (ten_pow 0) with 1. lia.
Qed.

(** rounding never increases the magnitude beyond i128: the shown coefficient
    of a rounded value is at most |coeff| / 10^k + 1 *)
Lemma dec_shown_rounded_bound (prec : option N) (d : dec) :
  0 <= d_nfd d <= 18 -> Z.abs (d_coeff d) <= i128_max ->
  disp_prec prec d < d_nfd d -> Z.abs (d_coeff (dec_shown prec d)) <= i128_max.
Proof.
  intros Hn Hc Hlt.
  pose proof (dec_shown_rounded_abs prec d Hn Hc Hlt) as H. cbv zeta in H.
  pose proof (dec_shown_nonneg prec d ltac:(lia)) as H0.
  pose proof (disp_prec_range prec d Hn) as Hp.
  set (k := d_nfd d - disp_prec prec d) in *.
  assert (H10 : 10 <= ten_pow k) by (change 10 with (ten_pow 1); apply ten_pow_mono; lia).
  set (T := ten_pow k) in *. clearbody T.
  set (s := d_coeff (dec_shown prec d)) in *. clearbody s.
  set (a := Z.abs (d_coeff d)) in *. assert (0 <= a) by (unfold a; lia). clearbody a.
  rewrite Z.abs_eq by assumption.
  assert (HM : 10 <= i128_max) by (vm_compute; discriminate).
  set (M := i128_max) in *. clearbody M.
  nia.
Qed.

(** * Parse-back *)

Theorem dec_display_parse_back (prec : option N) (d : dec) :
  0 <= d_nfd d <= 18 -> Z.abs (d_coeff (dec_shown prec d)) <= i128_max ->
  dec_from_str (snd (dec_display_parts prec d)) = Some (dec_shown prec d).
Proof.
  intros Hn Hc. destruct (dec_display_text prec d Hn) as [-> _].
  apply dec_string_roundtrip; [|assumption].
  rewrite dec_shown_nfd. apply disp_prec_range. assumption.
Qed.

(** when digits are rounded away, or none are added, the bound on the value
    itself is enough *)
Corollary dec_display_parse_back_le (prec : option N) (d : dec) :
  0 <= d_nfd d <= 18 -> Z.abs (d_coeff d) <= i128_max ->
  disp_prec prec d <= d_nfd d ->
  dec_from_str (snd (dec_display_parts prec d)) = Some (dec_shown prec d).
Proof.
  intros Hn Hc Hle. apply dec_display_parse_back; [assumption|].
  destruct (Z.eq_dec (disp_prec prec d) (d_nfd d)) as [E|NE].
  - rewrite dec_shown_exact by lia. rewrite E, Z.sub_diag. change (ten_pow 0) with 1. lia.
  - apply dec_shown_rounded_bound; [assumption|assumption|lia].
Qed.

Lemma dec_shown_none d : dec_shown None d = mkdec (Z.abs (d_coeff d)) (d_nfd d).
Proof.
  unfold dec_shown, disp_prec. cbv zeta. rewrite Z.ltb_irrefl, Z.eqb_refl. reflexivity.
Qed.

(** without precision: sign and digits together are String::from(d) *)
Theorem dec_display_plain (d : dec) : 0 <= d_nfd d <= 18 ->
  (if d_coeff d >=? 0 then [] else [ch_minus]) ++ snd (dec_display_parts None d) = dec_to_string d.
Proof.
  intros Hn. destruct (dec_display_text None d Hn) as [-> _].
  rewrite dec_shown_none, dec_to_string_nonneg by lia.
  symmetry. apply dec_to_string_body.
Qed.

Corollary dec_display_plain_parse_back (d : dec) :
  0 <= d_nfd d <= 18 -> Z.abs (d_coeff d) <= i128_max ->
  dec_from_str ((if d_coeff d >=? 0 then [] else [ch_minus]) ++ snd (dec_display_parts None d)) = Some d.
Proof.
  intros Hn Hc. rewrite dec_display_plain by assumption. apply dec_string_roundtrip; assumption.
Qed.

(** * Quantity level *)

(** [amount >= Decimal::ZERO] is the sign test of the coefficient *)
Lemma dec_cmp_zero d : 0 <= d_nfd d <= 18 -> dec_cmp d dec_zero = (d_coeff d ?= 0).
Proof.
  intros Hn. unfold dec_cmp, checked_adjust_coeffs, dec_zero. cbn [d_coeff d_nfd].
  destruct (Z.compare_spec (d_nfd d) 0) as [E|L|G]; [reflexivity|lia|].
  unfold checked_mul_pow_ten. destruct (Z.gtb_spec (d_nfd d - 0) 38); [lia|].
  rewrite Z.mul_0_l. reflexivity.
Qed.

Lemma dec_ge_zero d : 0 <= d_nfd d <= 18 -> a_ge DEC d (a_zero DEC) = (d_coeff d >=? 0).
Proof.
  intros Hn. unfold a_ge. cbn [a_cmp a_zero DEC]. rewrite dec_cmp_zero by assumption. reflexivity.
Qed.

(** the formatter handed to the amount has no width and no flags: a
    non-negative amount is printed as its bare digits *)
Lemma fmt_pad_integral_amount_spec form buf : fmt_pad_integral (amount_spec form) true buf = buf.
Proof.
  unfold fmt_pad_integral, pad_signed, amount_spec. cbn.
  rewrite app_nil_r. reflexivity.
Qed.

Lemma dec_display_abs form d : 0 <= d_nfd d <= 18 ->
  dec_display (amount_spec form) (dec_abs d) = dec_to_string (dec_shown (f_prec form) (dec_abs d)).
Proof.
  intros Hn. unfold dec_display.
  change (f_prec (amount_spec form)) with (f_prec form).
  destruct (dec_display_text (f_prec form) (dec_abs d) Hn) as [Ht Hs].
  destruct (dec_display_parts (f_prec form) (dec_abs d)) as [nn text]. cbn [fst snd] in Ht, Hs.
  subst text. rewrite Hs. cbn [dec_abs d_coeff].
  destruct (Z.geb_spec (Z.abs (d_coeff d)) 0); [|lia].
  apply fmt_pad_integral_amount_spec.
Qed.

(** Quantity::fmt without flags: "<String::from(amount)> <symbol>" *)
Theorem qty_fmt_dec_plain (S : QBase DEC) (q : Qt S) :
  u_symbol S (q_unit S q) <> [] -> 0 <= d_nfd (q_amount S q) <= 18 ->
  Quantity_fmt S q fspec_default = dec_to_string (q_amount S q) ++ [32%N] ++ u_symbol S (q_unit S q).
Proof.
  intros Hne Hn. rewrite (qty_fmt_plain S q Hne).
  unfold non_negative, abs_amount. cbn [a_is_dec DEC a_display a_abs].
  change dec_zero with (a_zero DEC). rewrite dec_ge_zero by assumption.
  change fspec_default with (amount_spec fspec_default) at 1.
  rewrite dec_display_abs by assumption.
  change (f_prec fspec_default) with (@None N).
  rewrite dec_shown_none. cbn [dec_abs d_coeff d_nfd].
  rewrite dec_to_string_nonneg by lia. rewrite Z.abs_involutive.
  rewrite (dec_to_string_body (q_amount S q)). rewrite <- app_assoc. reflexivity.
Qed.

(** hence amount and symbol can be read back from the text: the part before
    the separating space parses to the amount *)
Corollary qty_fmt_dec_plain_parse_back (S : QBase DEC) (q : Qt S) :
  u_symbol S (q_unit S q) <> [] -> 0 <= d_nfd (q_amount S q) <= 18 ->
  Z.abs (d_coeff (q_amount S q)) <= i128_max ->
  exists text, Quantity_fmt S q fspec_default = text ++ [32%N] ++ u_symbol S (q_unit S q) /\
               dec_from_str text = Some (q_amount S q).
Proof.
  intros Hne Hn Hc. exists (dec_to_string (q_amount S q)). split.
  - apply qty_fmt_dec_plain; assumption.
  - apply dec_string_roundtrip; assumption.
Qed.

(** ** with a format specification: rounding is symmetric, so the digits of
    |amount| are those of the amount *)

Lemma round_quot_neg q m T r r' : 0 < m < T ->
  round_quot q m T = Ok r -> round_quot (- q - 1) (T - m) T = Ok r' -> r' = - r.
Proof.
  intros Hm. unfold round_quot.
  destruct (Z.eqb_spec m 0); [lia|]. destruct (Z.eqb_spec (T - m) 0); [lia|].
  assert (Ev : Z.even (- q - 1) = negb (Z.even q)).
  { rewrite Z.even_sub, Z.even_opp. destruct (Z.even q); reflexivity. }
  rewrite Ev, negb_involutive.
  unfold ovf.
  destruct (Z.gtb_spec (2 * m) T); destruct (Z.gtb_spec (2 * (T - m)) T); try lia;
    destruct (Z.eqb_spec (2 * m) T); destruct (Z.eqb_spec (2 * (T - m)) T); try lia;
    cbn [orb andb]; destruct (Z.even q); cbn [negb];
    repeat match goal with |- context [in_i128 ?z] => destruct (in_i128 z) end;
    intros H1 H2; inversion H1; inversion H2; lia.
Qed.

Lemma div_rounded_opp c T r r' : 0 < T ->
  i128_div_rounded c T = Ok r -> i128_div_rounded (- c) T = Ok r' -> r' = - r.
Proof.
  intros HT. unfold i128_div_rounded, flip_signs.
  destruct (Z.eqb_spec T 0); [lia|]. destruct (Z.ltb_spec T 0); [lia|]. cbn [bind].
  destruct (Z.eq_dec (c mod T) 0) as [E|NE].
  - rewrite Z.mod_opp_l_z, Z.div_opp_l_z, E by lia.
    unfold round_quot. cbn [Z.eqb]. intros H1 H2. inversion H1; inversion H2; reflexivity.
  - rewrite Z.mod_opp_l_nz, Z.div_opp_l_nz by lia.
    apply round_quot_neg. pose proof (Z.mod_pos_bound c T HT). lia.
Qed.

Lemma dec_shown_abs prec d : 0 <= d_nfd d <= 18 -> Z.abs (d_coeff d) <= i128_max ->
  dec_shown prec (dec_abs d) = dec_shown prec d.
Proof.
  intros Hn Hc.
  pose proof (disp_prec_range prec d Hn) as Hp.
  unfold dec_shown. cbv zeta.
  change (disp_prec prec (dec_abs d)) with (disp_prec prec d).
  cbn [dec_abs d_coeff d_nfd]. rewrite Z.abs_involutive.
  destruct (Z.ltb_spec (d_nfd d) (disp_prec prec d)); [reflexivity|].
  destruct (Z.eqb_spec (disp_prec prec d) (d_nfd d)); [reflexivity|].
  f_equal.
  destruct (Z.le_gt_cases 0 (d_coeff d)) as [Hc0|Hc0]; [rewrite (Z.abs_eq (d_coeff d)) by assumption; reflexivity|].
  rewrite (Z.abs_neq (d_coeff d)) by lia.
  set (k := d_nfd d - disp_prec prec d).
  assert (Hr : i128_min <= d_coeff d <= i128_max /\ i128_min <= - d_coeff d <= i128_max)
    by (change i128_min with (- (i128_max + 1)); lia).
  destruct (div_rounded_ten_pow_ok (d_coeff d) k ltac:(lia) (proj1 Hr)) as [r E].
  destruct (div_rounded_ten_pow_ok (- d_coeff d) k ltac:(lia) (proj2 Hr)) as [r' E'].
  rewrite E, E'.
  rewrite (div_rounded_opp _ _ _ _ (ten_pow_pos k ltac:(lia)) E E'). apply Z.abs_opp.
Qed.

(** Quantity::fmt in general: sign flag of the amount; the digits of |amount|
    rounded to the precision; a space; the symbol — all handed to
    pad_integral, which adds sign, '+', fill, width *)
Theorem qty_fmt_dec_spec (S : QBase DEC) (q : Qt S) (form : fspec) :
  u_symbol S (q_unit S q) <> [] -> 0 <= d_nfd (q_amount S q) <= 18 ->
  Z.abs (d_coeff (q_amount S q)) <= i128_max ->
  Quantity_fmt S q form =
  fmt_pad_integral form (d_coeff (q_amount S q) >=? 0)
    (dec_to_string (dec_shown (f_prec form) (q_amount S q)) ++ [32%N] ++ u_symbol S (q_unit S q)).
Proof.
  intros Hne Hn Hc. rewrite (qty_fmt_spec S q form Hne).
  unfold non_negative, abs_amount. cbn [a_is_dec DEC a_display a_abs].
  change dec_zero with (a_zero DEC). rewrite dec_ge_zero by assumption.
  rewrite dec_display_abs, dec_shown_abs by assumption. reflexivity.
Qed.

(** * Non-vacuity and the half-even ties, on concrete values *)
Example shown_examples :
  dec_display_parts (Some 1%N) (mkdec (-125) 3) = (false, [48; 46; 49]%N) /\    (* -0.125 -> "0.1" *)
  dec_display_parts (Some 2%N) (mkdec (-125) 3) = (false, [48; 46; 49; 50]%N) /\ (* tie -> even: "0.12" *)
  dec_display_parts (Some 2%N) (mkdec 135 3) = (true, [48; 46; 49; 52]%N) /\     (* tie -> even: "0.14" *)
  dec_display_parts (Some 0%N) (mkdec 25 1) = (true, [50]%N) /\                   (* 2.5 -> "2" *)
  dec_display_parts (Some 0%N) (mkdec 35 1) = (true, [52]%N) /\                   (* 3.5 -> "4" *)
  dec_display_parts (Some 2%N) (mkdec (-4) 3) = (false, [48; 46; 48; 48]%N) /\   (* -0.004 -> sign flag kept, "0.00" *)
  dec_display_parts (Some 2%N) (mkdec 7 0) = (true, [55; 46; 48; 48]%N) /\       (* 7 -> "7.00" *)
  dec_shown (Some 20%N) (mkdec 15 1) = mkdec 1500000000000000000 18.              (* precision capped at 18 *)
Proof. repeat split; vm_compute; reflexivity. Qed.

(** padding can leave the i128 range, in which case the text is not a Decimal
    literal any more: coefficient 10^25 with nfd 2 (in range) shown with 18
    fractional digits has coefficient 10^41 *)
Example padded_not_parsable :
  let d := mkdec (10 ^ 25) 2 in
  Z.abs (d_coeff d) <= i128_max /\ i128_max < d_coeff (dec_shown (Some 18%N) d) /\
  dec_from_str (snd (dec_display_parts (Some 18%N) d)) = None.
Proof. cbv zeta. split; [vm_compute; discriminate|]. split; vm_compute; reflexivity. Qed.

Print Assumptions dec_display_text.
Print Assumptions dec_shown_rounded.
Print Assumptions dec_shown_rounded_abs.
Print Assumptions dec_shown_exact.
Print Assumptions dec_shown_nfd.
Print Assumptions dec_display_parse_back.
Print Assumptions dec_display_parse_back_le.
Print Assumptions dec_display_plain.
Print Assumptions dec_display_plain_parse_back.
Print Assumptions qty_fmt_dec_plain.
Print Assumptions qty_fmt_dec_plain_parse_back.
Print Assumptions qty_fmt_dec_spec.
