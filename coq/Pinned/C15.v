(* Pinned statements of property C15: fails to compile if a theorem of
   Props/C15.v is weakened or renamed.  Created by tools/mkpinned.py. *)
From QV Require Import Rt.Prelude Rt.Amount Rt.Quantity Rt.Fmt Rt.FmtProofs Macro.Defs Gen.Prefixes Gen.Catalogue
  Gen.Kernels Gen.KernelsFmt Macro.Inst Proofs.Laws Proofs.Instances Amount.F64 Amount.DecModel Amount.Dec Proofs.C15.
From QV Require Import Props.C15.
Check C15_quantity_fmt : forall (am : Amount) (S : QBase am) q form, u_symbol S (q_unit S q) <> [] ->
  Quantity_fmt S q form =
  fmt_pad_integral form (non_negative S q)
    (a_display am (amount_spec form) (abs_amount S q) ++ [32%N] ++ u_symbol S (q_unit S q)).
Check C15_unitless : forall (am : Amount) (S : QBase am) q form, u_symbol S (q_unit S q) = [] ->
  Quantity_fmt S q form = a_display am form (q_amount S q).
Check C15_plain : forall (am : Amount) (S : QBase am) q, u_symbol S (q_unit S q) <> [] ->
  Quantity_fmt S q fspec_default =
  (if non_negative S q then [] else [c_minus]) ++
  a_display am fspec_default (abs_amount S q) ++ [32%N] ++ u_symbol S (q_unit S q).
Check C15_flags_and_width : forall (am : Amount) (S : QBase am) q form, u_symbol S (q_unit S q) <> [] ->
  let text := a_display am (amount_spec form) (abs_amount S q) ++ [32%N] ++ u_symbol S (q_unit S q) in
  exists lfill sign zs rfill,
    Quantity_fmt S q form = lfill ++ sign ++ zs ++ text ++ rfill /\
    sign = (if negb (non_negative S q) then [c_minus] else if f_plus form then [c_plus] else []) /\
    all_eq (f_fill form) lfill /\ all_eq (f_fill form) rfill /\ all_eq c_zero zs /\
    (f_zero form = false -> zs = [] /\
       (f_align form = Some ARight \/ f_align form = None -> rfill = []) /\
       (f_align form = Some ALeft -> lfill = [])) /\
    (f_zero form = true -> lfill = [] /\ rfill = []) /\
    (length lfill + length zs + length rfill = N.to_nat (width_of form - (nlen sign + utf8_len text)))%nat.
Check C15_width_ascii : forall (am : Amount) (S : QBase am) q form, u_symbol S (q_unit S q) <> [] ->
  is_ascii (a_display am (amount_spec form) (abs_amount S q) ++ [32%N] ++ u_symbol S (q_unit S q)) ->
  length (Quantity_fmt S q form) =
  Nat.max (N.to_nat (width_of form))
          (length (sign_text (non_negative S q) (f_plus form) ++
                   a_display am (amount_spec form) (abs_amount S q) ++ [32%N] ++ u_symbol S (q_unit S q))).
Check C15_width_upper_bound : forall (am : Amount) (S : QBase am) q form, u_symbol S (q_unit S q) <> [] ->
  (length (Quantity_fmt S q form) <=
   Nat.max (N.to_nat (width_of form))
           (length (sign_text (non_negative S q) (f_plus form) ++
                    a_display am (amount_spec form) (abs_amount S q) ++ [32%N] ++ u_symbol S (q_unit S q))))%nat.
Check C15_width_nonascii_refuted :
  micrometer_example = [32; 49; 46; 53; 32; 181; 109]%N /\ length micrometer_example = 7.
Check C15_decimal_precision_cap_refuted :
  decimal_precision_example = ([49; 46; 53] ++ repeat 48 17)%N /\ length decimal_precision_example = 20.
Check C15_unit_fmt : forall (am : Amount) (S : QBase am) u form,
  Unit_fmt S u form = fmt_pad form (u_symbol S u) /\ Unit_fmt S u fspec_default = u_symbol S u.
Check C15_rate_fmt : forall (am : Amount) (TQ PQ : QBase am) (r : rate am) form,
  Rate_fmt TQ PQ r form =
  (a_display am fspec_default (rt_term_amount r) ++
     (match u_symbol TQ (rt_term_unit r) with [] => [] | s => [32%N] ++ s end) ++ [32; 47; 32]%N) ++
  (match u_symbol PQ (rt_per_unit r) with
   | [] => a_display am fspec_default (rt_per_unit_multiple r)
   | s => if a_eqb am (rt_per_unit_multiple r) (a_one am) then s
          else a_display am fspec_default (rt_per_unit_multiple r) ++ [32%N] ++ s
   end).
Check C15_generated_display_impls : forall (am : Amount) (S : QBase am) q u form,
  tmpl_Display_Qty_none_PRef S q form = Quantity_fmt S q form /\
  tmpl_Display_Qty_none_PNoRef S q form = Quantity_fmt S q form /\
  tmpl_Display_Qty_none_PSingle S q form = Quantity_fmt S q form /\
  tmpl_Display_Unit_none S u form = Unit_fmt S u form.
Check C15_symbols_splittable : forallb symbols_splittable (catalogue_main ++ catalogue_astro) = true.
