(* Pinned statements of property C11: fails to compile if a theorem of
   Props/C11.v is weakened or renamed.  Created by tools/mkpinned.py. *)
From Coq Require Import List Permutation Sorted.
From QV Require Import Rt.Prelude Rt.Amount Macro.Defs Macro.Casing Macro.Impls Macro.Analyze Gen.Prefixes Gen.Catalogue
  Amount.F64 Proofs.Instances Proofs.Sort Proofs.C09 Proofs.DerivedCat Proofs.C11 Proofs.SortPerm.
From Flocq Require IEEE754.Binary.
From QV Require Import Props.C11.
Import ListNotations.
Check C11_stable_sort : forall (T : Type) (gt : T -> T -> bool) (P : T -> Prop),
  (forall a b, P a -> P b -> gt a b = true -> gt b a = false) ->
  (forall a b c, P a -> P b -> P c -> gt a b = false -> gt b c = false -> gt a c = false) ->
  forall l, Forall P l ->
  Permutation (sort_stable gt l) l /\ Sorted (le_rel gt) (sort_stable gt l) /\
  forall k, P k -> List.filter (same_key gt k) (sort_stable gt l) = List.filter (same_key gt k) l.
Check C11_analyze_shape : forall d a, analyze d = Some a -> analysed_shape a.
Check C11_units_without_reference_unit : forall a us, an_ref a = None -> an_units a = sort_stable name_gt us ->
  Permutation (an_units a) us /\ Sorted (le_rel name_gt) (an_units a) /\
  forall k, List.filter (same_key name_gt k) (an_units a) = List.filter (same_key name_gt k) us.
Check C11_units_with_reference_unit : forall a r us, an_units a = sort_stable key_gt (r :: us) -> Forall key_finite (r :: us) ->
  Permutation (an_units a) (r :: us) /\ Sorted (le_rel key_gt) (an_units a) /\
  (forall k, key_finite k -> List.filter (same_key key_gt k) (an_units a) = List.filter (same_key key_gt k) (r :: us)) /\
  exists rest, List.filter (same_key key_gt r) (an_units a) = r :: rest.
Check C11_attribute_order_general : forall d1 d2 a1,
  Permutation (rd_attrs d1) (rd_attrs d2) -> analyze d1 = Some a1 ->
  (an_ref a1 <> None -> Forall key_finite (an_units a1)) ->
  exists a2, analyze d2 = Some a2 /\ an_ref a2 = an_ref a1 /\
    Permutation (an_units a1) (an_units a2) /\
    match an_ref a1 with
    | None => Forall2 (fun a b => same_key name_gt a b = true) (an_units a1) (an_units a2)
    | Some _ => Forall2 (fun a b => same_key key_gt a b = true) (an_units a1) (an_units a2)
    end.
Check C11_attribute_order_names : forall d1 d2 a1,
  Permutation (rd_attrs d1) (rd_attrs d2) ->
  analyze d1 = Some a1 -> an_ref a1 = None ->
  NoDup (map (fun u => name_of_ident (ud_ident u)) (an_units a1)) ->
  analyze d2 = Some a1.
Check C11_attribute_order_scales : forall d1 d2 a1,
  Permutation (rd_attrs d1) (rd_attrs d2) ->
  analyze d1 = Some a1 -> an_ref a1 <> None ->
  Forall key_finite (an_units a1) ->
  NoDup (map (fun u => Binary.B2R 53 1024 (scale_key u)) (an_units a1)) ->
  analyze d2 = Some a1.
Check C11_path_selection : forall a,
  expected_path a = match an_units a with [_] => PSingle | _ => match an_ref a with Some _ => PRef | None => PNoRef end end.
Check C11_model_is_generator :
  forallb registry_ok all_entries = true /\ forallb derived_rows_ok all_entries = true /\
  forallb (fun e => wiring_ok (ce_gen e)) all_entries = true.
