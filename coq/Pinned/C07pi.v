(* Pinned statements of property C07pi: fails to compile if a theorem of
   Props/C07pi.v is weakened or renamed.  Created by tools/mkpinned.py. *)
From Coq Require Import Reals QArith String.
From QV Require Import Rt.Prelude Rt.Amount Macro.Defs Gen.Prefixes Gen.Catalogue Macro.Inst Amount.F64
  Proofs.C07 Proofs.C07pi.
From QV Require Import Props.C07pi.
Local Close Scope Q_scope.
Local Close Scope R_scope.
Check C07_parsec_family :
  within_eps pc_q (648000 / PI)%R /\ within_eps kpc_q (648000 * 1000 / PI)%R /\
  within_eps mpc_q (648000 * 1000000 / PI)%R /\ within_eps gpc_q (648000 * 1000000000 / PI)%R.
Check C07_parsec_scales_are_the_generated_ones :
  pc_q = astro_length_scale_Q (us "Parsec"%string) /\ kpc_q = astro_length_scale_Q (us "Kiloparsec"%string) /\
  mpc_q = astro_length_scale_Q (us "Megaparsec"%string) /\ gpc_q = astro_length_scale_Q (us "Gigaparsec"%string).
