(* Pinned statements of property Programs: fails to compile if a theorem of
   Props/Programs.v is weakened or renamed.  Created by tools/mkpinned.py. *)
From Coq Require Import QArith Qcanon List.
From QV Require Import Rt.Prelude Rt.Amount Rt.Quantity Macro.Defs Gen.Prefixes Gen.Catalogue Gen.Kernels Macro.Inst
  Proofs.Laws Proofs.Kernel Proofs.C01 Proofs.Programs Proofs.ProgramsCat.
From QV Require Import Props.Programs.
Local Open Scope Qc_scope.
Check PROG_refines : forall (am : Amount) (E : ExactAmount am) (S : QBase am), QLaws S ->
  forall (p : prog) (x : Qt S), wf S p -> run S p = Ok x ->
  q_unit S x = unit_of p /\ magnitude E S x = sem E S p.
Check PROG_ratio : forall (am : Amount) (E : ExactAmount am) (S : QBase am), QLaws S ->
  (forall u, In u (u_iter S) -> sc E S u <> 0) ->
  forall (p q : prog) (x y : Qt S) (r : am), wf S p -> wf S q -> run S p = Ok x -> run S q = Ok y ->
  HasRefUnit_div S x y = Ok r -> sem E S q <> 0 /\ val E r = sem E S p / sem E S q.
Check PROG_eq : forall (am : Amount) (E : ExactAmount am) (S : QBase am), QLaws S ->
  (forall u, In u (u_iter S) -> sc E S u <> 0) ->
  forall (p q : prog) (x y : Qt S) (b : bool), wf S p -> wf S q -> run S p = Ok x -> run S q = Ok y ->
  HasRefUnit_eq S x y = Ok b -> (b = true <-> sem E S p = sem E S q).
Check PROG_cmp : forall (am : Amount) (E : ExactAmount am) (S : QBase am), QLaws S ->
  forall (p q : prog) (x y : Qt S) (c : option comparison), wf S p -> wf S q ->
  (forall u, In u (u_iter S) -> 0 < sc E S u) -> run S p = Ok x -> run S q = Ok y ->
  HasRefUnit_partial_cmp S x y = Ok c -> c = Some (sem E S p ?= sem E S q).
Check PROG_exact_instance : ExactAmount QAM.
Check PROG_catalogue_scales : forall e, In e ref_entries ->
  forall u, In u (u_iter (base_of_gen QAM (ce_gen e))) -> 0 < sc QAM_exact (base_of_gen QAM (ce_gen e)) u.
Check PROG_catalogue : forall e (p : @prog QAM) x, In e ref_entries ->
  wf (base_of_gen QAM (ce_gen e)) p -> run (base_of_gen QAM (ce_gen e)) p = Ok x ->
  q_unit (base_of_gen QAM (ce_gen e)) x = unit_of p /\
  magnitude QAM_exact (base_of_gen QAM (ce_gen e)) x = sem QAM_exact (base_of_gen QAM (ce_gen e)) p.
Check PROG_not_vacuous :
  match run LengthQ example_prog with
  | Ok x => Some (this (q_amount LengthQ x), q_unit LengthQ x)
  | Panic _ => None end = Some ((137 # 60)%Q, cm_ix) /\
  wf LengthQ example_prog /\ this (sem QAM_exact LengthQ example_prog) = (137 # 6000)%Q.
