(* Pinned statements of property C17: fails to compile if a theorem of
   Props/C17.v is weakened or renamed.  Created by tools/mkpinned.py. *)
From Coq Require Import String ZArith.
From QV Require Import Rt.Prelude Rt.Amount Rt.Quantity Rt.Serde Macro.Defs Gen.Prefixes Gen.Catalogue Gen.Config
  Gen.Kernels Macro.Inst Amount.F64 Amount.DecModel Amount.Dec Amount.DecCodec Proofs.Laws Proofs.Instances Proofs.C09 Proofs.C17.
From QV Require Import Props.C17.
Local Open Scope string_scope.
Check C17_unit_roundtrip : forall (g : gen_def SIPrefix), nodupb (gd_VARIANTS g) = true ->
  forall u, u < length (gd_VARIANTS g) ->
  ser_unit g u = VStr (nth u (gd_VARIANTS g) []) /\ de_unit g (ser_unit g u) = Some u.
Check C17_quantity_roundtrip : forall (am : Amount) (enc : am -> sval) (dcd : sval -> option am) (g : gen_def SIPrefix),
  nodupb (gd_VARIANTS g) = true -> forall (a : am) (u : nat),
  gd_path g <> PSingle -> gd_struct_fields g = [us "amount"; us "unit"] ->
  dcd (enc a) = Some a -> u < length (gd_VARIANTS g) ->
  de_qty am dcd g (ser_qty am enc g (q_new (base_of_gen am g) a u)) = Some (q_new (base_of_gen am g) a u).
Check C17_single_unit_roundtrip : forall (am : Amount) (enc : am -> sval) (dcd : sval -> option am) (g : gen_def SIPrefix)
  (a : am) (u : nat),
  gd_path g = PSingle -> gd_struct_fields g = [us "amount"] -> dcd (enc a) = Some a ->
  de_qty am dcd g (ser_qty am enc g (q_new (base_of_gen am g) a u)) = Some (q_new (base_of_gen am g) a u).
Check C17_distinct_values_distinct_serialisations : forall (am : Amount) (enc : am -> sval) (dcd : sval -> option am)
  (g : gen_def SIPrefix) (x y : Qt (base_of_gen am g)),
  de_qty am dcd g (ser_qty am enc g x) = Some x -> de_qty am dcd g (ser_qty am enc g y) = Some y ->
  ser_qty am enc g x = ser_qty am enc g y -> x = y.
Check C17_f64_codec : forall x, dcd_f64 (enc_f64 x) = Some x.
Check C17_decimal_codec : forall d : dec, (0 <= d_nfd d <= 18)%Z -> (Z.abs (d_coeff d) <= i128_max)%Z ->
  dcd_dec (enc_dec d) = Some d.
Check C17_tree_facts : forallb serde_ok all_entries = true /\ serde_feature_wired = true.
