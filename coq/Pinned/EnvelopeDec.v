(* Pinned statements of property EnvelopeDec: fails to compile if a theorem of
   Props/EnvelopeDec.v is weakened or renamed.  Created by tools/mkpinned.py. *)
From Coq Require Import Reals ZArith List.
From QV Require Import Rt.Prelude Rt.Amount Rt.Quantity Gen.Prefixes Gen.Kernels Amount.DecModel Amount.Dec Amount.DecAcc
  Proofs.Laws Proofs.Kernel Proofs.AccDec Proofs.EnvDec.
From QV Require Amount.Laws.
From QV Require Import Props.EnvelopeDec.
Local Open Scope R_scope.
Check DEC_C18_envelope_convert : forall (S : QBase DEC), QLaws S -> forall (q : Qt S) (v : nat),
  q_unit S q <> v -> Amount.Laws.dec_ok (q_amount S q) -> dfit (u_scale S (q_unit S q)) -> dfit (u_scale S v) ->
  in_env (dval (u_scale S (q_unit S q)) / dval (u_scale S v)) ->
  Rabs (dval (q_amount S q)) <= env_hi ->
  Rabs (dval (q_amount S q) * (dval (u_scale S (q_unit S q)) / dval (u_scale S v))) <= env_hi ->
  exists q', HasRefUnit_convert S q v = Ok q'.
Check DEC_C18_envelope_add_sub : forall (S : QBase DEC) (x y : Qt S),
  q_unit S y <> q_unit S x -> Amount.Laws.dec_ok (q_amount S x) -> Amount.Laws.dec_ok (q_amount S y) ->
  dfit (u_scale S (q_unit S y)) -> dfit (u_scale S (q_unit S x)) ->
  in_env (dval (u_scale S (q_unit S y)) / dval (u_scale S (q_unit S x))) ->
  Rabs (dval (q_amount S x)) <= env_hi -> Rabs (dval (q_amount S y)) <= env_hi ->
  Rabs (dval (q_amount S y) * (dval (u_scale S (q_unit S y)) / dval (u_scale S (q_unit S x)))) <= env_hi ->
  (exists r, HasRefUnit_add S x y = Ok r) /\ (exists r, HasRefUnit_sub S x y = Ok r).
Check DEC_C18_envelope_div : forall (S : QBase DEC) (x y : Qt S),
  q_unit S y <> q_unit S x -> Amount.Laws.dec_ok (q_amount S x) -> Amount.Laws.dec_ok (q_amount S y) ->
  dfit (u_scale S (q_unit S y)) -> dfit (u_scale S (q_unit S x)) ->
  in_env (dval (u_scale S (q_unit S y)) / dval (u_scale S (q_unit S x))) ->
  Rabs (dval (q_amount S x)) <= env_hi -> Rabs (dval (q_amount S y)) <= env_hi ->
  in_env (dval (q_amount S y) * (dval (u_scale S (q_unit S y)) / dval (u_scale S (q_unit S x)))) ->
  Rabs (dval (q_amount S x) / (dval (q_amount S y) * (dval (u_scale S (q_unit S y)) / dval (u_scale S (q_unit S x))))) <= env_hi ->
  exists r, HasRefUnit_div S x y = Ok r.
Check DEC_C18_envelope_cmp : forall (S : QBase DEC) (x y : Qt S),
  q_unit S x <> q_unit S y -> Amount.Laws.dec_ok (q_amount S x) -> Amount.Laws.dec_ok (q_amount S y) ->
  Amount.Laws.dec_ok (u_scale S (q_unit S x)) -> Amount.Laws.dec_ok (u_scale S (q_unit S y)) ->
  Rabs (dmag S x) <= env_hi -> Rabs (dmag S y) <= env_hi ->
  exists c, HasRefUnit_partial_cmp S x y = Ok (Some c) /\ HasRefUnit_eq S x y = Ok (match c with Eq => true | _ => false end).
Check DEC_C18_envelope_constants : env_lo = / 1000000000000000 /\ env_hi = 100000000000000000 /\
  (forall r, in_env r <-> env_lo <= Rabs r <= env_hi).
