(* Pinned statements of property Accuracy: fails to compile if a theorem of
   Props/Accuracy.v is weakened or renamed.  Created by tools/mkpinned.py. *)
From Coq Require Import Reals.
From Flocq Require Import Core IEEE754.Binary IEEE754.Bits.
From QV Require Import Rt.Prelude Rt.Amount Rt.Quantity Gen.Prefixes Gen.Kernels Amount.F64 Amount.F64Acc
  Proofs.Laws Proofs.Kernel Proofs.C09 Proofs.Derived Proofs.C14 Proofs.AccF64 Proofs.AccExamples Proofs.AccCatalogue Proofs.AccInverse.
From QV Require Import Macro.Defs Gen.Catalogue Macro.Inst.
From QV Require Import Props.Accuracy.
Local Open Scope R_scope.
Check ACC_operations :
  (forall x y, is_finite 53 1024 x = true -> is_finite 53 1024 y = true ->
     tiny <= Rabs (B2R 53 1024 x * B2R 53 1024 y) -> Rabs (B2R 53 1024 x * B2R 53 1024 y) * (1 + u64) < huge ->
     exists d, Rabs d <= u64 /\ is_finite 53 1024 (f64_mul x y) = true /\ B2R 53 1024 (f64_mul x y) = B2R 53 1024 x * B2R 53 1024 y * (1 + d)) /\
  (forall x y, is_finite 53 1024 x = true -> is_finite 53 1024 y = true -> B2R 53 1024 y <> 0 ->
     tiny <= Rabs (B2R 53 1024 x / B2R 53 1024 y) -> Rabs (B2R 53 1024 x / B2R 53 1024 y) * (1 + u64) < huge ->
     exists d, Rabs d <= u64 /\ is_finite 53 1024 (f64_div x y) = true /\ B2R 53 1024 (f64_div x y) = B2R 53 1024 x / B2R 53 1024 y * (1 + d)) /\
  (forall x y, is_finite 53 1024 x = true -> is_finite 53 1024 y = true ->
     tiny <= Rabs (B2R 53 1024 x + B2R 53 1024 y) -> Rabs (B2R 53 1024 x + B2R 53 1024 y) * (1 + u64) < huge ->
     exists d, Rabs d <= u64 /\ is_finite 53 1024 (f64_add x y) = true /\ B2R 53 1024 (f64_add x y) = (B2R 53 1024 x + B2R 53 1024 y) * (1 + d)) /\
  (forall x y, is_finite 53 1024 x = true -> is_finite 53 1024 y = true ->
     tiny <= Rabs (B2R 53 1024 x - B2R 53 1024 y) -> Rabs (B2R 53 1024 x - B2R 53 1024 y) * (1 + u64) < huge ->
     exists d, Rabs d <= u64 /\ is_finite 53 1024 (f64_sub x y) = true /\ B2R 53 1024 (f64_sub x y) = (B2R 53 1024 x - B2R 53 1024 y) * (1 + d)).
Check ACC_C01_convert : forall (S : QBase F64), QLaws S -> forall (q : Qt S) (v : nat),
  q_unit S q <> v -> In v (u_iter S) ->
  is_finite 53 1024 (q_amount S q) = true -> is_finite 53 1024 (u_scale S (q_unit S q)) = true ->
  is_finite 53 1024 (u_scale S v) = true -> B2R 53 1024 (u_scale S v) <> 0 ->
  normal (B2R 53 1024 (u_scale S (q_unit S q)) / B2R 53 1024 (u_scale S v)) ->
  normal (B2R 53 1024 (f64_div (u_scale S (q_unit S q)) (u_scale S v)) * B2R 53 1024 (q_amount S q)) ->
  exists q', HasRefUnit_convert S q v = Ok q' /\ q_unit S q' = v /\
    Rabs (B2R 53 1024 (q_amount S q') * B2R 53 1024 (u_scale S v) - magnitude S q) <= ((1 + u64) ^ 2 - 1) * Rabs (magnitude S q).
Check ACC_C01_not_vacuous :
  q_unit LengthF q_example <> cm_ix /\ In cm_ix (u_iter LengthF) /\
  is_finite 53 1024 (q_amount LengthF q_example) = true /\ is_finite 53 1024 (u_scale LengthF (q_unit LengthF q_example)) = true /\
  is_finite 53 1024 (u_scale LengthF cm_ix) = true /\ B2R 53 1024 (u_scale LengthF cm_ix) <> 0 /\
  normal (B2R 53 1024 (u_scale LengthF (q_unit LengthF q_example)) / B2R 53 1024 (u_scale LengthF cm_ix)) /\
  normal (B2R 53 1024 (f64_div (u_scale LengthF (q_unit LengthF q_example)) (u_scale LengthF cm_ix)) * B2R 53 1024 (q_amount LengthF q_example)).
Check ACC_C01_catalogue_scales : forall (e : cat_entry SIPrefix) (u v : nat),
  In e (catalogue_main ++ catalogue_astro) -> gd_path (ce_gen e) = PRef ->
  In u (gen_iter (ce_gen e)) -> In v (gen_iter (ce_gen e)) ->
  let su := gen_scale F64 (ce_gen e) u in let sv := gen_scale F64 (ce_gen e) v in
  is_finite 53 1024 su = true /\ is_finite 53 1024 sv = true /\ B2R 53 1024 sv <> 0 /\ normal (B2R 53 1024 su / B2R 53 1024 sv).
Check ACC_C01_catalogue_convert : forall (e : cat_entry SIPrefix),
  In e (catalogue_main ++ catalogue_astro) -> gd_path (ce_gen e) = PRef ->
  let S := base_of_gen F64 (ce_gen e) in
  forall (q : Qt S) (v : nat), q_unit S q <> v -> In v (u_iter S) -> In (q_unit S q) (u_iter S) ->
  is_finite 53 1024 (q_amount S q) = true ->
  normal (B2R 53 1024 (f64_div (u_scale S (q_unit S q)) (u_scale S v)) * B2R 53 1024 (q_amount S q)) ->
  exists q', HasRefUnit_convert S q v = Ok q' /\ q_unit S q' = v /\
    Rabs (B2R 53 1024 (q_amount S q') * B2R 53 1024 (u_scale S v) - magnitude S q) <= ((1 + u64) ^ 2 - 1) * Rabs (magnitude S q).
Check ACC_C02_order : forall (S : QBase F64) (x y : Qt S),
  q_unit S x <> q_unit S y ->
  is_finite 53 1024 (q_amount S x) = true -> is_finite 53 1024 (q_amount S y) = true ->
  is_finite 53 1024 (u_scale S (q_unit S x)) = true -> is_finite 53 1024 (u_scale S (q_unit S y)) = true ->
  Rabs (magnitude S x) * (1 + u64) < huge -> Rabs (magnitude S y) * (1 + u64) < huge ->
  exists c, HasRefUnit_partial_cmp S x y = Ok (Some c) /\
    (magnitude S x < magnitude S y -> c <> Gt) /\ (magnitude S y < magnitude S x -> c <> Lt) /\ (magnitude S x = magnitude S y -> c = Eq).
Check ACC_C02_separated : forall (S : QBase F64) (x y : Qt S),
  q_unit S x <> q_unit S y ->
  is_finite 53 1024 (q_amount S x) = true -> is_finite 53 1024 (q_amount S y) = true ->
  is_finite 53 1024 (u_scale S (q_unit S x)) = true -> is_finite 53 1024 (u_scale S (q_unit S y)) = true ->
  normal (magnitude S x) -> normal (magnitude S y) ->
  exists c, HasRefUnit_partial_cmp S x y = Ok (Some c) /\
    (magnitude S x + u64 * (Rabs (magnitude S x) + Rabs (magnitude S y)) < magnitude S y -> c = Lt) /\
    (magnitude S y + u64 * (Rabs (magnitude S x) + Rabs (magnitude S y)) < magnitude S x -> c = Gt).
Check ACC_C03_add : forall (S : QBase F64), QLaws S -> forall (x y : Qt S),
  q_unit S y <> q_unit S x -> In (q_unit S x) (u_iter S) ->
  is_finite 53 1024 (q_amount S x) = true -> is_finite 53 1024 (q_amount S y) = true ->
  is_finite 53 1024 (u_scale S (q_unit S y)) = true -> is_finite 53 1024 (u_scale S (q_unit S x)) = true ->
  B2R 53 1024 (u_scale S (q_unit S x)) <> 0 ->
  normal (B2R 53 1024 (u_scale S (q_unit S y)) / B2R 53 1024 (u_scale S (q_unit S x))) ->
  normal (B2R 53 1024 (f64_div (u_scale S (q_unit S y)) (u_scale S (q_unit S x))) * B2R 53 1024 (q_amount S y)) ->
  (forall b', HasRefUnit_equiv_amount S y (q_unit S x) = Ok b' -> normal (B2R 53 1024 (q_amount S x) + B2R 53 1024 b')) ->
  exists r d1 d2 d3,
    HasRefUnit_add S x y = Ok r /\ q_unit S r = q_unit S x /\
    Rabs d1 <= u64 /\ Rabs d2 <= u64 /\ Rabs d3 <= u64 /\
    B2R 53 1024 (q_amount S r) * B2R 53 1024 (u_scale S (q_unit S x)) = (magnitude S x + magnitude S y * (1 + d1) * (1 + d2)) * (1 + d3).
Check ACC_C03_sub : forall (S : QBase F64), QLaws S -> forall (x y : Qt S),
  q_unit S y <> q_unit S x -> In (q_unit S x) (u_iter S) ->
  is_finite 53 1024 (q_amount S x) = true -> is_finite 53 1024 (q_amount S y) = true ->
  is_finite 53 1024 (u_scale S (q_unit S y)) = true -> is_finite 53 1024 (u_scale S (q_unit S x)) = true ->
  B2R 53 1024 (u_scale S (q_unit S x)) <> 0 ->
  normal (B2R 53 1024 (u_scale S (q_unit S y)) / B2R 53 1024 (u_scale S (q_unit S x))) ->
  normal (B2R 53 1024 (f64_div (u_scale S (q_unit S y)) (u_scale S (q_unit S x))) * B2R 53 1024 (q_amount S y)) ->
  (forall b', HasRefUnit_equiv_amount S y (q_unit S x) = Ok b' -> normal (B2R 53 1024 (q_amount S x) - B2R 53 1024 b')) ->
  exists r d1 d2 d3,
    HasRefUnit_sub S x y = Ok r /\ q_unit S r = q_unit S x /\
    Rabs d1 <= u64 /\ Rabs d2 <= u64 /\ Rabs d3 <= u64 /\
    B2R 53 1024 (q_amount S r) * B2R 53 1024 (u_scale S (q_unit S x)) = (magnitude S x - magnitude S y * (1 + d1) * (1 + d2)) * (1 + d3).
Check ACC_C03_ratio : forall (S : QBase F64) (x y : Qt S),
  q_unit S y <> q_unit S x ->
  is_finite 53 1024 (q_amount S x) = true -> is_finite 53 1024 (q_amount S y) = true ->
  is_finite 53 1024 (u_scale S (q_unit S y)) = true -> is_finite 53 1024 (u_scale S (q_unit S x)) = true ->
  B2R 53 1024 (u_scale S (q_unit S x)) <> 0 ->
  normal (B2R 53 1024 (u_scale S (q_unit S y)) / B2R 53 1024 (u_scale S (q_unit S x))) ->
  normal (B2R 53 1024 (f64_div (u_scale S (q_unit S y)) (u_scale S (q_unit S x))) * B2R 53 1024 (q_amount S y)) ->
  (forall b', HasRefUnit_equiv_amount S y (q_unit S x) = Ok b' -> normal (B2R 53 1024 (q_amount S x) / B2R 53 1024 b')) ->
  exists r d1 d2 d3,
    HasRefUnit_div S x y = Ok r /\ Rabs d1 <= u64 /\ Rabs d2 <= u64 /\ Rabs d3 <= u64 /\
    B2R 53 1024 r * (magnitude S y * (1 + d1) * (1 + d2)) = magnitude S x * (1 + d3).
Check ACC_C04_natural_unit : forall (op : f64 -> f64 -> f64) (rop : R -> R -> R) (ok : f64 -> Prop), op_rel op rop ok ->
  forall (R0 : QFull F64), QLaws R0 ->
  (forall w, In w (u_iter R0) -> is_finite 53 1024 (u_scale R0 w) = true /\ B2R 53 1024 (u_scale R0 w) <> 0) ->
  forall su sv a b : f64,
  is_finite 53 1024 su = true -> is_finite 53 1024 sv = true -> is_finite 53 1024 a = true -> is_finite 53 1024 b = true ->
  ok sv -> ok b -> normal (rop (B2R 53 1024 su) (B2R 53 1024 sv)) -> normal (rop (B2R 53 1024 a) (B2R 53 1024 b)) ->
  forall w, HasRefUnit_unit_from_scale R0 (op su sv) = Some w ->
  exists z d0 d1,
    @derived_nf F64 (fun x y : f64 => Ok (op x y)) R0 su sv a b = Ok z /\ q_unit R0 z = w /\ In w (u_iter R0) /\
    Rabs d0 <= u64 /\ Rabs d1 <= u64 /\
    mag_o R0 z = rop (B2R 53 1024 a) (B2R 53 1024 b) * rop (B2R 53 1024 su) (B2R 53 1024 sv) * (1 + d0) * (1 + d1).
Check ACC_C04_fit_path : forall (op : f64 -> f64 -> f64) (rop : R -> R -> R) (ok : f64 -> Prop), op_rel op rop ok ->
  forall (R0 : QFull F64), QLaws R0 -> (forall m, q_fit R0 m = HasRefUnit__fit R0 m) ->
  (forall w, In w (u_iter R0) -> is_finite 53 1024 (u_scale R0 w) = true /\ B2R 53 1024 (u_scale R0 w) <> 0) ->
  forall su sv a b : f64,
  is_finite 53 1024 su = true -> is_finite 53 1024 sv = true -> is_finite 53 1024 a = true -> is_finite 53 1024 b = true ->
  ok sv -> ok b -> normal (rop (B2R 53 1024 su) (B2R 53 1024 sv)) -> normal (rop (B2R 53 1024 a) (B2R 53 1024 b)) ->
  HasRefUnit_unit_from_scale R0 (op su sv) = None -> In (u_ref_unit R0) (u_iter R0) ->
  normal (B2R 53 1024 (op a b) * B2R 53 1024 (op su sv)) ->
  (forall w, In w (u_iter R0) -> normal (B2R 53 1024 (f64_mul (op a b) (op su sv)) / B2R 53 1024 (u_scale R0 w))) ->
  exists z d0 d1 d2 d3,
    @derived_nf F64 (fun x y : f64 => Ok (op x y)) R0 su sv a b = Ok z /\ In (q_unit R0 z) (u_iter R0) /\
    fit_unit R0 (f64_mul (op a b) (op su sv)) = Some (q_unit R0 z) /\
    Rabs d0 <= u64 /\ Rabs d1 <= u64 /\ Rabs d2 <= u64 /\ Rabs d3 <= u64 /\
    mag_o R0 z = rop (B2R 53 1024 a) (B2R 53 1024 b) * rop (B2R 53 1024 su) (B2R 53 1024 sv) * (1 + d0) * (1 + d1) * (1 + d2) * (1 + d3).
Check ACC_C04_operators_are_instances :
  op_rel f64_mul Rmult (fun _ => True) /\ op_rel f64_div Rdiv (fun y => B2R 53 1024 y <> 0) /\
  (forall (L Rr : QBase F64) (R0 : QFull F64) x y,
     tmpl_Mul_Qty_Qty L Rr R0 x y =
     @derived_nf F64 (fun a b : f64 => Ok (f64_mul a b)) R0 (u_scale L (q_unit L x)) (u_scale Rr (q_unit Rr y)) (q_amount L x) (q_amount Rr y)) /\
  (forall (L Rr : QBase F64) (R0 : QFull F64) x y,
     tmpl_Div_Qty_Qty L Rr R0 x y =
     @derived_nf F64 (fun a b : f64 => Ok (f64_div a b)) R0 (u_scale L (q_unit L x)) (u_scale Rr (q_unit Rr y)) (q_amount L x) (q_amount Rr y)).
Check ACC_C04_mul_then_div : forall (R0 L0 : QFull F64), QLaws R0 -> QLaws L0 ->
  (forall w, In w (u_iter R0) -> is_finite 53 1024 (u_scale R0 w) = true /\ B2R 53 1024 (u_scale R0 w) <> 0) ->
  (forall w, In w (u_iter L0) -> is_finite 53 1024 (u_scale L0 w) = true /\ B2R 53 1024 (u_scale L0 w) <> 0) ->
  forall su sv a b : f64,
  is_finite 53 1024 su = true -> is_finite 53 1024 sv = true -> is_finite 53 1024 a = true -> is_finite 53 1024 b = true ->
  B2R 53 1024 sv <> 0 -> B2R 53 1024 b <> 0 ->
  forall (w u' : nat),
  normal (B2R 53 1024 su * B2R 53 1024 sv) -> normal (B2R 53 1024 a * B2R 53 1024 b) ->
  HasRefUnit_unit_from_scale R0 (f64_mul su sv) = Some w ->
  normal (B2R 53 1024 (u_scale R0 w) / B2R 53 1024 sv) -> normal (B2R 53 1024 (f64_mul a b) / B2R 53 1024 b) ->
  HasRefUnit_unit_from_scale L0 (f64_div (u_scale R0 w) sv) = Some u' ->
  exists z z' d0 d1 d2 d3,
    @derived_nf F64 (fun x y : f64 => Ok (f64_mul x y)) R0 su sv a b = Ok z /\ q_unit R0 z = w /\
    @derived_nf F64 (fun x y : f64 => Ok (f64_div x y)) L0 (u_scale R0 (q_unit R0 z)) sv (q_amount R0 z) b = Ok z' /\ q_unit L0 z' = u' /\
    Rabs d0 <= u64 /\ Rabs d1 <= u64 /\ Rabs d2 <= u64 /\ Rabs d3 <= u64 /\
    mag_o L0 z' = B2R 53 1024 a * B2R 53 1024 su * (1 + d0) * (1 + d1) * (1 + d2) * (1 + d3).
Check ACC_C14_affine : forall (S : QBase F64), QLaws S -> forall (q : Qt S) (to : nat) (k c : f64),
  In to (u_iter S) -> is_finite 53 1024 (q_amount S q) = true -> is_finite 53 1024 k = true -> is_finite 53 1024 c = true ->
  normal (B2R 53 1024 (q_amount S q) * B2R 53 1024 k) -> normal (B2R 53 1024 (f64_mul (q_amount S q) k) + B2R 53 1024 c) ->
  exists z d1 d2, affine S q to (k, c) = Ok (Some z) /\ q_unit S z = to /\
    Rabs d1 <= u64 /\ Rabs d2 <= u64 /\
    B2R 53 1024 (q_amount S z) = (B2R 53 1024 (q_amount S q) * B2R 53 1024 k * (1 + d1) + B2R 53 1024 c) * (1 + d2).
