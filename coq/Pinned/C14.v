(* Pinned statements of property C14: fails to compile if a theorem of
   Props/C14.v is weakened or renamed.  Created by tools/mkpinned.py. *)
From Coq Require Import QArith.
From QV Require Import Rt.Prelude Rt.Amount Rt.Quantity Macro.Defs Gen.Prefixes Gen.Catalogue Gen.TempTable
  Gen.Kernels Macro.Inst Macro.TempInst Proofs.Laws Proofs.Instances Spec.Temperature Proofs.C14.
From QV Require Import Props.C14.
Local Close Scope Q_scope.
Check C14_convert_table : forall (am : Amount) (S : QBase am) (rows : list (nat * nat * A am * A am)) (q : Qt S) (to : nat),
  ConversionTable_convert S rows q to =
  if Nat.eqb (q_unit S q) to then Ok (Some q)
  else match first_row rows (q_unit S q) to with
       | Some kc => affine S q to kc
       | None => Ok None
       end.
Check C14_first_entry : forall (am : Amount) (rows : list (nat * nat * A am * A am)) f t,
  (forall k c, first_row rows f t = Some (k, c) ->
     exists r1 r2, rows = r1 ++ (f, t, k, c) :: r2 /\
                   forall f' t' k' c', In (f', t', k', c') r1 -> ~ (f' = f /\ t' = t)) /\
  (first_row rows f t = None <-> forall f' t' k c, In (f', t', k, c) rows -> ~ (f' = f /\ t' = t)).
Check C14_temperature_table : temperature_table_ok = true /\
  map name_of_unit [0;1;2] = [n_celsius; n_fahrenheit; n_kelvin].
Check C14_temperature_total : forall (am : Amount) i j, i < 3 -> j < 3 -> i <> j ->
  exists kc, first_row (temp_rows am) i j = Some kc.
