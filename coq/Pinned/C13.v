(* Pinned statements of property C13: fails to compile if a theorem of
   Props/C13.v is weakened or renamed.  Created by tools/mkpinned.py. *)
From QV Require Import Rt.Prelude Rt.Amount Rt.Quantity Macro.Defs Gen.Prefixes Gen.Catalogue
  Gen.Kernels Macro.Inst Proofs.Laws Proofs.Instances Proofs.C13.
From QV Require Import Props.C13.
Check C13_accessors : forall (am : Amount) (TQ PQ : QBase am) t tu p pu,
  Rate_term_amount TQ PQ (Rate_new TQ PQ t tu p pu) = t /\
  Rate_term_unit TQ PQ (Rate_new TQ PQ t tu p pu) = tu /\
  Rate_per_unit_multiple TQ PQ (Rate_new TQ PQ t tu p pu) = p /\
  Rate_per_unit TQ PQ (Rate_new TQ PQ t tu p pu) = pu.
Check C13_from_qty_vals : forall (am : Amount) (TQ PQ : QBase am) (term : Qt TQ) (per : Qt PQ),
  Rate_from_qty_vals TQ PQ term per = Rate_new TQ PQ (q_amount TQ term) (q_unit TQ term) (q_amount PQ per) (q_unit PQ per).
Check C13_reciprocal : forall (am : Amount) (TQ PQ : QBase am) (r : rate am),
  Rate_reciprocal TQ PQ r = Rate_new PQ TQ (rt_per_unit_multiple r) (rt_per_unit r) (rt_term_amount r) (rt_term_unit r) /\
  Rate_reciprocal PQ TQ (Rate_reciprocal TQ PQ r) = r.
Check C13_rate_mul : forall (am : Amount) (TQ : QBase am) (PQ : QFull am) (r : rate am) (q : Qt PQ),
  Rate_mul TQ PQ r q = rate_mul_nf TQ PQ r q /\ tmpl_Mul_Qty_Rate PQ TQ q r = rate_mul_nf TQ PQ r q.
Check C13_qty_div_rate : forall (am : Amount) (TQ : QFull am) (PQ : QBase am) (q : Qt TQ) (r : rate am),
  tmpl_Div_Qty_Rate TQ PQ q r = qty_div_rate_nf TQ PQ q r.
Check C13_div_by_reciprocal : forall (am : Amount) (TQ : QBase am) (PQ : QFull am) (r : rate am) (q : Qt PQ),
  tmpl_Div_Qty_Rate PQ TQ q (Rate_reciprocal TQ PQ r) = Rate_mul TQ PQ r q.
Check C13_result_units : forall (am : Amount),
  (forall (TQ : QBase am), QLaws TQ -> forall (PQ : QFull am) r q y,
     In (rt_term_unit r) (u_iter TQ) -> Rate_mul TQ PQ r q = Ok y -> q_unit TQ y = rt_term_unit r) /\
  (forall (TQ : QFull am) (PQ : QBase am), QLaws PQ -> forall q r y,
     In (rt_per_unit r) (u_iter PQ) -> tmpl_Div_Qty_Rate TQ PQ q r = Ok y -> q_unit PQ y = rt_per_unit r).
