(* Pinned statements of property C02: fails to compile if a theorem of
   Props/C02.v is weakened or renamed.  Created by tools/mkpinned.py. *)
From QV Require Import Rt.Prelude Rt.Amount Rt.Quantity Macro.Defs Gen.Prefixes Gen.Catalogue
  Gen.Kernels Macro.Inst Amount.F64 Amount.DecModel Amount.Dec Amount.Laws Proofs.Laws Proofs.Kernel Proofs.Instances Proofs.C09 Proofs.C02.
From QV Require Import Props.C02.
Check C02_same_unit : forall (am : Amount) (S : QBase am) x y, q_unit S x = q_unit S y ->
  HasRefUnit_eq S x y = Ok (a_eqb am (q_amount S x) (q_amount S y)) /\
  HasRefUnit_partial_cmp S x y = Ok (a_cmp am (q_amount S x) (q_amount S y)).
Check C02_diff_unit : forall (am : Amount) (S : QBase am) x y, q_unit S x <> q_unit S y ->
  HasRefUnit_eq S x y = bind (ref_magnitude S x) (fun mx => bind (ref_magnitude S y) (fun my => Ok (a_eqb am mx my))) /\
  HasRefUnit_partial_cmp S x y = bind (ref_magnitude S x) (fun mx => bind (ref_magnitude S y) (fun my => Ok (a_cmp am mx my))).
Check C02_eq_symmetric : forall (am : Amount) (S : QBase am) (ok : am -> Prop), CmpLaws am ok ->
  forall x y b, operand_ok S ok x -> operand_ok S ok y ->
  HasRefUnit_eq S x y = Ok b -> HasRefUnit_eq S y x = Ok b.
Check C02_cmp_antisymmetric : forall (am : Amount) (S : QBase am) (ok : am -> Prop), CmpLaws am ok ->
  forall x y c, operand_ok S ok x -> operand_ok S ok y ->
  HasRefUnit_partial_cmp S x y = Ok c -> HasRefUnit_partial_cmp S y x = Ok (option_map CompOpp c).
Check C02_equal_iff_eq : forall (am : Amount) (S : QBase am) (ok : am -> Prop), CmpLaws am ok ->
  forall x y c b, operand_ok S ok x -> operand_ok S ok y ->
  HasRefUnit_partial_cmp S x y = Ok c -> HasRefUnit_eq S x y = Ok b -> (c = Some Eq <-> b = true).
Check C02_panic_symmetric : forall (am : Amount) (S : QBase am) x y, q_unit S x <> q_unit S y ->
  is_ok (HasRefUnit_eq S x y) = is_ok (HasRefUnit_eq S y x) /\
  is_ok (HasRefUnit_partial_cmp S x y) = is_ok (HasRefUnit_partial_cmp S y x).
Check C02_derived_relations : forall c : option comparison,
  let r := option_map CompOpp c in
  (match c with Some Lt => true | _ => false end = match r with Some Gt => true | _ => false end) /\
  (match c with Some Lt | Some Eq => true | _ => false end = match r with Some Gt | Some Eq => true | _ => false end) /\
  (match c with Some Gt => true | _ => false end = match r with Some Lt => true | _ => false end) /\
  (match c with Some Gt | Some Eq => true | _ => false end = match r with Some Lt | Some Eq => true | _ => false end).
Check C02_amount_laws : CmpLaws F64 (fun _ => True) /\ CmpLaws DEC dec_ok.
Check C02_operators : forall (am : Amount) (g : gen_def SIPrefix), gd_path g = PRef ->
  forall x y : Qt (base_of_gen am g),
  q_eq (full_of_gen am g) x y = HasRefUnit_eq (base_of_gen am g) x y /\
  q_partial_cmp (full_of_gen am g) x y = HasRefUnit_partial_cmp (base_of_gen am g) x y.
Check C02_decimal_scales_wellformed : forallb dec_scales_ok dec_entries = true.
