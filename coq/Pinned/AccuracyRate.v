(* Pinned statements of property AccuracyRate: fails to compile if a theorem of
   Props/AccuracyRate.v is weakened or renamed.  Created by tools/mkpinned.py. *)
From Coq Require Import Reals ZArith List.
From Flocq Require Import Core IEEE754.Binary IEEE754.Bits.
From QV Require Import Rt.Prelude Rt.Amount Rt.Quantity Gen.Prefixes Gen.Kernels Amount.F64 Amount.F64Acc
  Amount.DecModel Amount.Dec Amount.DecAcc Proofs.Laws Proofs.Kernel Proofs.C13 Proofs.AccF64 Proofs.AccDec Proofs.AccRate Proofs.AccInverse.
From QV Require Amount.Laws.
From QV Require Import Props.AccuracyRate.
Local Open Scope R_scope.
Check ACC_C13_rate_mul : forall (TQ : QBase F64) (PQ : QFull F64), QLaws TQ -> forall (r : rate F64) (q : Qt PQ) (x1 : f64),
  q_div PQ q (q_new PQ (a_one F64) (rt_per_unit r)) = Ok x1 ->
  In (rt_term_unit r) (u_iter TQ) ->
  is_finite 53 1024 x1 = true -> is_finite 53 1024 (rt_per_unit_multiple r) = true -> is_finite 53 1024 (rt_term_amount r) = true ->
  B2R 53 1024 (rt_per_unit_multiple r) <> 0 ->
  normal (B2R 53 1024 x1 / B2R 53 1024 (rt_per_unit_multiple r)) ->
  normal (B2R 53 1024 (f64_div x1 (rt_per_unit_multiple r)) * B2R 53 1024 (rt_term_amount r)) ->
  exists y d1 d2, Rate_mul TQ PQ r q = Ok y /\ tmpl_Mul_Qty_Rate PQ TQ q r = Ok y /\ q_unit TQ y = rt_term_unit r /\
    Rabs d1 <= u64 /\ Rabs d2 <= u64 /\
    B2R 53 1024 (q_amount TQ y) = B2R 53 1024 (rt_term_amount r) * (B2R 53 1024 x1 / B2R 53 1024 (rt_per_unit_multiple r)) * (1 + d1) * (1 + d2).
Check ACC_C13_qty_div_rate : forall (TQ : QFull F64) (PQ : QBase F64), QLaws PQ -> forall (q : Qt TQ) (r : rate F64) (x1 : f64),
  q_div TQ q (q_new TQ (a_one F64) (rt_term_unit r)) = Ok x1 ->
  In (rt_per_unit r) (u_iter PQ) ->
  is_finite 53 1024 x1 = true -> is_finite 53 1024 (rt_term_amount r) = true -> is_finite 53 1024 (rt_per_unit_multiple r) = true ->
  B2R 53 1024 (rt_term_amount r) <> 0 ->
  normal (B2R 53 1024 x1 / B2R 53 1024 (rt_term_amount r)) ->
  normal (B2R 53 1024 (f64_div x1 (rt_term_amount r)) * B2R 53 1024 (rt_per_unit_multiple r)) ->
  exists y d1 d2, tmpl_Div_Qty_Rate TQ PQ q r = Ok y /\ q_unit PQ y = rt_per_unit r /\
    Rabs d1 <= u64 /\ Rabs d2 <= u64 /\
    B2R 53 1024 (q_amount PQ y) = B2R 53 1024 (rt_per_unit_multiple r) * (B2R 53 1024 x1 / B2R 53 1024 (rt_term_amount r)) * (1 + d1) * (1 + d2).
Check ACC_C13_ratio_same_unit : forall (S : QBase F64), QLaws S -> forall (q : Qt S) (u : nat),
  In u (u_iter S) -> q_unit S q = u -> is_finite 53 1024 (q_amount S q) = true ->
  exists x1, HasRefUnit_div S q (q_new S (a_one F64) u) = Ok x1 /\ is_finite 53 1024 x1 = true /\ B2R 53 1024 x1 = B2R 53 1024 (q_amount S q).
Check DEC_C13_rate_mul : forall (TQ : QBase DEC) (PQ : QFull DEC), QLaws TQ -> forall (r : rate DEC) (q : Qt PQ) (x1 : dec) (y : Qt TQ),
  q_div PQ q (q_new PQ (a_one DEC) (rt_per_unit r)) = Ok x1 ->
  In (rt_term_unit r) (u_iter TQ) ->
  Amount.Laws.dec_ok x1 -> Amount.Laws.dec_ok (rt_per_unit_multiple r) -> Amount.Laws.dec_ok (rt_term_amount r) ->
  Rate_mul TQ PQ r q = Ok y ->
  tmpl_Mul_Qty_Rate PQ TQ q r = Ok y /\ q_unit TQ y = rt_term_unit r /\ dval (rt_per_unit_multiple r) <> 0 /\
  Rabs (dval (q_amount TQ y) - dval (rt_term_amount r) * (dval x1 / dval (rt_per_unit_multiple r))) <= half_ulp18 * (Rabs (dval (rt_term_amount r)) + 1).
Check DEC_C13_qty_div_rate : forall (TQ : QFull DEC) (PQ : QBase DEC), QLaws PQ -> forall (q : Qt TQ) (r : rate DEC) (x1 : dec) (y : Qt PQ),
  q_div TQ q (q_new TQ (a_one DEC) (rt_term_unit r)) = Ok x1 ->
  In (rt_per_unit r) (u_iter PQ) ->
  Amount.Laws.dec_ok x1 -> Amount.Laws.dec_ok (rt_term_amount r) -> Amount.Laws.dec_ok (rt_per_unit_multiple r) ->
  tmpl_Div_Qty_Rate TQ PQ q r = Ok y ->
  q_unit PQ y = rt_per_unit r /\ dval (rt_term_amount r) <> 0 /\
  Rabs (dval (q_amount PQ y) - dval (rt_per_unit_multiple r) * (dval x1 / dval (rt_term_amount r))) <= half_ulp18 * (Rabs (dval (rt_per_unit_multiple r)) + 1).
Check DEC_C13_ratio_same_unit : forall (S : QBase DEC), QLaws S -> forall (q : Qt S) (u : nat),
  In u (u_iter S) -> q_unit S q = u ->
  exists x1, HasRefUnit_div S q (q_new S (a_one DEC) u) = Ok x1 /\ dval x1 = dval (q_amount S q).
Check ACC_C13_mul_then_div : forall (TQ PQ : QFull F64), QLaws TQ -> QLaws PQ ->
  (forall x y, q_div TQ x y = HasRefUnit_div TQ x y) -> (forall x y, q_div PQ x y = HasRefUnit_div PQ x y) ->
  forall (r : rate F64) (q : Qt PQ),
  let a := q_amount PQ q in let t := rt_term_amount r in let p := rt_per_unit_multiple r in
  let x1 := f64_div a f64_one in
  let y0 := f64_mul (f64_div x1 p) t in
  let x1' := f64_div y0 f64_one in
  In (rt_term_unit r) (u_iter TQ) -> In (rt_per_unit r) (u_iter PQ) -> q_unit PQ q = rt_per_unit r ->
  is_finite 53 1024 a = true -> is_finite 53 1024 t = true -> is_finite 53 1024 p = true -> B2R 53 1024 t <> 0 -> B2R 53 1024 p <> 0 ->
  normal (B2R 53 1024 x1 / B2R 53 1024 p) -> normal (B2R 53 1024 (f64_div x1 p) * B2R 53 1024 t) ->
  normal (B2R 53 1024 x1' / B2R 53 1024 t) -> normal (B2R 53 1024 (f64_div x1' t) * B2R 53 1024 p) ->
  exists y y' d1 d2 d3 d4,
    Rate_mul TQ PQ r q = Ok y /\ q_unit TQ y = rt_term_unit r /\
    tmpl_Div_Qty_Rate TQ PQ y r = Ok y' /\ q_unit PQ y' = rt_per_unit r /\
    Rabs d1 <= u64 /\ Rabs d2 <= u64 /\ Rabs d3 <= u64 /\ Rabs d4 <= u64 /\
    B2R 53 1024 x1 = B2R 53 1024 a /\
    B2R 53 1024 (q_amount PQ y') = B2R 53 1024 a * (1 + d1) * (1 + d2) * (1 + d3) * (1 + d4).
Check DEC_C13_mul_then_div : forall (TQ PQ : QFull DEC), QLaws TQ -> QLaws PQ ->
  (forall x y, q_div TQ x y = HasRefUnit_div TQ x y) -> (forall x y, q_div PQ x y = HasRefUnit_div PQ x y) ->
  forall (r : rate DEC) (q : Qt PQ) (y : Qt TQ) (y' : Qt PQ),
  let a := dval (q_amount PQ q) in let t := dval (rt_term_amount r) in let p := dval (rt_per_unit_multiple r) in
  In (rt_term_unit r) (u_iter TQ) -> In (rt_per_unit r) (u_iter PQ) -> q_unit PQ q = rt_per_unit r ->
  Amount.Laws.dec_ok (q_amount PQ q) -> Amount.Laws.dec_ok (rt_term_amount r) -> Amount.Laws.dec_ok (rt_per_unit_multiple r) ->
  Rate_mul TQ PQ r q = Ok y -> tmpl_Div_Qty_Rate TQ PQ y r = Ok y' ->
  q_unit TQ y = rt_term_unit r /\ q_unit PQ y' = rt_per_unit r /\ t <> 0 /\ p <> 0 /\
  Rabs (dval (q_amount PQ y') - a) <= half_ulp18 * ((Rabs p + 1) + Rabs p / Rabs t * (Rabs t + 1)).
