(* Pinned statements of property C15amount: fails to compile if a theorem of
   Props/C15amount.v is weakened or renamed.  Created by tools/mkpinned.py. *)
From Coq Require Import ZArith List Bool.
From Coq Require Import Floats.SpecFloat.
From Flocq Require Import IEEE754.BinarySingleNaN IEEE754.Binary IEEE754.Bits.
From QV Require Import Rt.Prelude Rt.Amount Rt.Quantity Rt.Fmt Gen.Prefixes Gen.Kernels Gen.KernelsFmt
  Amount.DecModel Amount.Dec Amount.DecStr Proofs.C15 Proofs.C15dec Proofs.C15f64 Proofs.C15f64exp Proofs.C15f64prec.
From QV Require Import Props.C15amount.
Import ListNotations.
Local Open Scope Z_scope.
Check C15_dec_text : forall (prec : option N) (d : dec), 0 <= d_nfd d <= 18 ->
  snd (dec_display_parts prec d) = dec_to_string (dec_shown prec d) /\
  fst (dec_display_parts prec d) = (d_coeff d >=? 0).
Check C15_dec_precision : forall (prec : option N) (d : dec), d_nfd (dec_shown prec d) = disp_prec prec d.
Check C15_dec_rounded : forall (prec : option N) (d : dec),
  0 <= d_nfd d <= 18 -> Z.abs (d_coeff d) <= i128_max ->
  disp_prec prec d < d_nfd d ->
  let k := d_nfd d - disp_prec prec d in
  2 * Z.abs (d_coeff (dec_shown prec d) * ten_pow k - Z.abs (d_coeff d)) <= ten_pow k.
Check C15_dec_exact : forall (prec : option N) (d : dec),
  d_nfd d <= disp_prec prec d ->
  d_coeff (dec_shown prec d) = Z.abs (d_coeff d) * ten_pow (disp_prec prec d - d_nfd d).
Check C15_dec_parse_back : forall (prec : option N) (d : dec),
  0 <= d_nfd d <= 18 -> Z.abs (d_coeff (dec_shown prec d)) <= i128_max ->
  dec_from_str (snd (dec_display_parts prec d)) = Some (dec_shown prec d).
Check C15_dec_plain_parse_back : forall d : dec,
  0 <= d_nfd d <= 18 -> Z.abs (d_coeff d) <= i128_max ->
  dec_from_str ((if d_coeff d >=? 0 then [] else [ch_minus]) ++ snd (dec_display_parts None d)) = Some d.
Check C15_dec_quantity_plain : forall (S : QBase DEC) (q : Qt S),
  u_symbol S (q_unit S q) <> [] -> 0 <= d_nfd (q_amount S q) <= 18 ->
  Z.abs (d_coeff (q_amount S q)) <= i128_max ->
  exists text, Quantity_fmt S q fspec_default = text ++ [32%N] ++ u_symbol S (q_unit S q) /\
               dec_from_str text = Some (q_amount S q).
Check C15_dec_quantity_fmt : forall (S : QBase DEC) (q : Qt S) (form : fspec),
  u_symbol S (q_unit S q) <> [] -> 0 <= d_nfd (q_amount S q) <= 18 ->
  Z.abs (d_coeff (q_amount S q)) <= i128_max ->
  Quantity_fmt S q form =
  fmt_pad_integral form (d_coeff (q_amount S q) >=? 0)
    (dec_to_string (dec_shown (f_prec form) (q_amount S q)) ++ [32%N] ++ u_symbol S (q_unit S q)).
Check C15_f64_digits_checked : forall m e ds k,
  shortest_search m e = Some (ds, k) -> roundtrip_ok m e ds k = true -> digits_ok m e = true.
Check C15_f64_digits_always : forall (m : positive) (e : Z), SpecFloat.bounded 53 1024 m e = true -> digits_ok m e = true.
Check C15_f64_parse_back : forall x : binary64, is_nan 53 1024 x = false ->
  f64_parse (f64_to_text fspec_default x) = Some x.
Check C15_f64_precision_rounding : forall (m : positive) (e : Z) (p : N),
  (0 <= e -> f64_scaled m e p = Zpos m * 2 ^ e * 10 ^ Z.of_N p) /\
  (e < 0 -> 2 * Z.abs (f64_scaled m e p * 2 ^ (- e) - Zpos m * 10 ^ Z.of_N p) <= 2 ^ (- e)).
Check C15_f64_precision_text : forall (s : bool) (m : positive) (e : Z) (H : SpecFloat.bounded 53 1024 m e = true) (p : N),
  f64_scaled m e p <> 0 ->
  parse_unsigned_sf (f64_body (Some p) (B754_finite 53 1024 s m e H)) = Some (round_ratio (f64_scaled m e p) (10 ^ Z.of_N p)).
Check C15_f64_precision_zero : forall (s : bool) (m : positive) (e : Z) (H : SpecFloat.bounded 53 1024 m e = true) (p : N),
  f64_scaled m e p = 0 -> f64_body (Some p) (B754_finite 53 1024 s m e H) = zero_text p.
Check C15_f64_nan : forall s pl H, exists x,
  f64_parse (f64_to_text fspec_default (B754_nan 53 1024 s pl H)) = Some x /\ is_nan 53 1024 x = true.
