(* Pinned statements of property C09: fails to compile if a theorem of
   Props/C09.v is weakened or renamed.  Created by tools/mkpinned.py. *)
From QV Require Import Rt.Prelude Rt.Amount Rt.Quantity Macro.Defs Macro.Casing Gen.Prefixes Gen.Catalogue
  Gen.Kernels Macro.Inst Amount.F64 Amount.Dec Macro.Analyze Proofs.Laws Proofs.Instances Proofs.C09.
From QV Require Import Props.C09.
Check C09_from_symbol : forall (am : Amount) (S : QBase am) s,
  first_with (fun u => ustr_eqb (u_symbol S u) s) (u_iter S) (Unit_from_symbol S s) /\
  Quantity_unit_from_symbol S s = Unit_from_symbol S s.
Check C09_from_scale : forall (am : Amount) (S : QBase am) a,
  first_with (fun u => a_eqb am (u_scale S u) a) (u_iter S) (LinearScaledUnit_from_scale S a) /\
  HasRefUnit_unit_from_scale S a = LinearScaledUnit_from_scale S a.
Check C09_from_symbol_inverts : forall (am : Amount) (S : QBase am),
  (forall v w, In v (u_iter S) -> In w (u_iter S) -> u_symbol S v = u_symbol S w -> v = w) ->
  forall u, In u (u_iter S) -> Unit_from_symbol S (u_symbol S u) = Some u.
Check C09_unknown_symbol : forall (am : Amount) (S : QBase am) s,
  (forall v, In v (u_iter S) -> u_symbol S v <> s) -> Unit_from_symbol S s = None.
Check C09_ref_unit_and_as_qty : forall (am : Amount) (S : QBase am) u,
  (LinearScaledUnit_is_ref_unit S u = true <-> u = u_ref_unit S) /\
  Unit_as_qty S u = q_new S (a_one am) u.
Check C09_registry_is_declaration : forallb registry_ok all_entries = true.
Check C09_iteration_order :
  forallb (order_ok F64) all_entries = true /\ forallb (order_ok DEC) dec_entries = true.
Check C09_catalogue_symbols_distinct :
  forallb symbols_distinct (catalogue_main ++ catalogue_astro) = true.
