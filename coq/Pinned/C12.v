(* Pinned statements of property C12: fails to compile if a theorem of
   Props/C12.v is weakened or renamed.  Created by tools/mkpinned.py. *)
From Coq Require Import List.
From QV Require Import Rt.Prelude Macro.Defs Macro.Casing Macro.Impls Macro.Analyze Gen.Prefixes Gen.Catalogue
  Proofs.Instances Proofs.DerivedCat Proofs.C11 Proofs.C12.
From QV Require Import Props.C12.
Check C12_not_a_struct : forall d, rd_kind d <> IStruct -> validate d = false.
Check C12_generic_parameters : forall d, rd_n_generics d <> 0%N -> validate d = false.
Check C12_struct_fields : forall d, rd_n_fields d <> 0%N -> validate d = false.
Check C12_bad_derivation : forall d, parse_qargs (rd_qargs d) = DBad -> validate d = false.
Check C12_bad_derivation_shapes : forall ts,
  parse_qargs ts = DBad <->
  ts <> [] /\ (forall a b, ts <> [TIdent a; TPunct 42%N; TIdent b]) /\ (forall a b, ts <> [TIdent a; TPunct 47%N; TIdent b]).
Check C12_unit_defects_reject : forall d, analyze d = None -> validate d = false.
Check C12_no_unit : forall d,
  List.filter (fun a => match ra_kind a with AUnit => true | _ => false end)
    (List.filter (fun a => match ra_kind a with AOtherAttr => false | _ => true end) (rd_attrs d)) = [] -> analyze d = None.
Check C12_two_reference_units : forall d,
  2 <= List.length (List.filter (fun a => match ra_kind a with ARefUnit => true | _ => false end)
         (List.filter (fun a => match ra_kind a with AOtherAttr => false | _ => true end) (rd_attrs d))) -> analyze d = None.
Check C12_wrong_number_or_kind_of_arguments : forall d,
  (exists a, In a (List.filter (fun a => match ra_kind a with AUnit => true | _ => false end)
                    (List.filter (fun a => match ra_kind a with AOtherAttr => false | _ => true end) (rd_attrs d)))
             /\ parse_unit_args (ra_args a) = None) -> analyze d = None.
Check C12_malformed_reference_unit : forall d ra,
  List.filter (fun a => match ra_kind a with ARefUnit => true | _ => false end)
    (List.filter (fun a => match ra_kind a with AOtherAttr => false | _ => true end) (rd_attrs d)) = [ra] ->
  parse_unit_args (ra_args ra) = None -> analyze d = None.
Check C12_scale_on_reference_unit : forall d ra r l,
  List.filter (fun a => match ra_kind a with ARefUnit => true | _ => false end)
    (List.filter (fun a => match ra_kind a with AOtherAttr => false | _ => true end) (rd_attrs d)) = [ra] ->
  parse_unit_args (ra_args ra) = Some r -> ud_scale r = Some l -> analyze d = None.
Check C12_unit_without_scale_beside_reference_unit : forall d ra us,
  List.filter (fun a => match ra_kind a with ARefUnit => true | _ => false end)
    (List.filter (fun a => match ra_kind a with AOtherAttr => false | _ => true end) (rd_attrs d)) = [ra] ->
  parse_all (List.filter (fun a => match ra_kind a with AUnit => true | _ => false end)
    (List.filter (fun a => match ra_kind a with AOtherAttr => false | _ => true end) (rd_attrs d))) = Some us ->
  (exists u, In u us /\ ud_scale u = None) -> analyze d = None.
Check C12_scale_or_prefix_without_reference_unit : forall d us,
  List.filter (fun a => match ra_kind a with ARefUnit => true | _ => false end)
    (List.filter (fun a => match ra_kind a with AOtherAttr => false | _ => true end) (rd_attrs d)) = [] ->
  parse_all (List.filter (fun a => match ra_kind a with AUnit => true | _ => false end)
    (List.filter (fun a => match ra_kind a with AOtherAttr => false | _ => true end) (rd_attrs d))) = Some us ->
  (exists u, In u us /\ (ud_scale u <> None \/ ud_prefix u <> None)) -> analyze d = None.
Check C12_accept_sound : forall d, validate d = true ->
  rd_kind d = IStruct /\ rd_n_generics d = 0%N /\ rd_n_fields d = 0%N /\
  parse_qargs (rd_qargs d) <> DBad /\ exists a, analyze d = Some a /\ analysed_shape a.
Check C12_tree_facts :
  forallb (fun e => validate (ce_raw e)) all_entries = true /\
  forallb (fun e => forallb owned_derived_row_bounded (gd_impls (ce_gen e))) all_entries = true.
