(* Pinned statements of property C10: fails to compile if a theorem of
   Props/C10.v is weakened or renamed.  Created by tools/mkpinned.py. *)
From QV Require Import Rt.Prelude Rt.Amount Rt.Quantity Macro.Defs Gen.Prefixes Gen.Catalogue
  Gen.Kernels Macro.Inst Proofs.Laws Proofs.Instances Proofs.C10.
From QV Require Import Props.C10.
Check C10_eq : forall (am : Amount) (g : gen_def SIPrefix), gd_path g = PNoRef ->
  forall x y : Qt (base_of_gen am g),
  q_eq (full_of_gen am g) x y =
  Ok (Nat.eqb (q_unit (base_of_gen am g) x) (q_unit (base_of_gen am g) y)
      && a_eqb am (q_amount (base_of_gen am g) x) (q_amount (base_of_gen am g) y)).
Check C10_partial_cmp : forall (am : Amount) (g : gen_def SIPrefix), gd_path g = PNoRef ->
  forall x y : Qt (base_of_gen am g),
  q_partial_cmp (full_of_gen am g) x y =
  Ok (if Nat.eqb (q_unit (base_of_gen am g) x) (q_unit (base_of_gen am g) y)
      then a_cmp am (q_amount (base_of_gen am g) x) (q_amount (base_of_gen am g) y) else None).
Check C10_mixed_units_panic : forall (am : Amount) (g : gen_def SIPrefix), gd_path g = PNoRef ->
  forall x y : Qt (base_of_gen am g), q_unit (base_of_gen am g) x <> q_unit (base_of_gen am g) y ->
  q_add (full_of_gen am g) x y = Panic PUnitMismatch /\
  q_sub (full_of_gen am g) x y = Panic PUnitMismatch /\
  q_div (full_of_gen am g) x y = Panic PUnitMismatch.
Check C10_same_unit : forall (am : Amount) (g : gen_def SIPrefix), gd_path g = PNoRef ->
  forall x y : Qt (base_of_gen am g), q_unit (base_of_gen am g) x = q_unit (base_of_gen am g) y ->
  q_add (full_of_gen am g) x y =
    bind (a_add am (q_amount (base_of_gen am g) x) (q_amount (base_of_gen am g) y))
         (fun s => Ok (q_new (base_of_gen am g) s (q_unit (base_of_gen am g) x))) /\
  q_sub (full_of_gen am g) x y =
    bind (a_sub am (q_amount (base_of_gen am g) x) (q_amount (base_of_gen am g) y))
         (fun s => Ok (q_new (base_of_gen am g) s (q_unit (base_of_gen am g) x))) /\
  q_div (full_of_gen am g) x y = a_div am (q_amount (base_of_gen am g) x) (q_amount (base_of_gen am g) y).
Check C10_single_unit : forall (am : Amount) (g : gen_def SIPrefix), gd_path g = PSingle ->
  (forall x : Qt (base_of_gen am g), q_unit (base_of_gen am g) x = 0) /\
  (forall (a : am) u v, q_new (base_of_gen am g) a u = q_new (base_of_gen am g) a v) /\
  (forall x y : Qt (base_of_gen am g),
    q_add (full_of_gen am g) x y =
      bind (a_add am (q_amount (base_of_gen am g) x) (q_amount (base_of_gen am g) y)) (fun s => Ok (q_new (base_of_gen am g) s 0)) /\
    q_sub (full_of_gen am g) x y =
      bind (a_sub am (q_amount (base_of_gen am g) x) (q_amount (base_of_gen am g) y)) (fun s => Ok (q_new (base_of_gen am g) s 0)) /\
    q_div (full_of_gen am g) x y = a_div am (q_amount (base_of_gen am g) x) (q_amount (base_of_gen am g) y)).
Check C10_catalogue :
  forallb path_matches_decl all_entries = true /\
  forallb (fun e => wiring_ok (ce_gen e)) all_entries = true /\
  existsb (fun e => match gd_path (ce_gen e) with PNoRef => true | _ => false end) noref_entries = true /\
  existsb (fun e => match gd_path (ce_gen e) with PSingle => true | _ => false end) noref_entries = true.
