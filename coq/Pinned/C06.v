(* Pinned statements of property C06: fails to compile if a theorem of
   Props/C06.v is weakened or renamed.  Created by tools/mkpinned.py. *)
From QV Require Import Rt.Prelude Macro.Defs Macro.Impls Gen.Prefixes Gen.Catalogue Proofs.Instances Proofs.DerivedCat Spec.Dimensions Proofs.C06.
From QV Require Import Props.C06.
Check C06_type_safety : type_safe = true /\ List.length all_programs = 1350.
Check C06_rejected_iff_meaningless : forall o l r, In l main_types -> In r main_types ->
  typechecks o l r = None <-> meaningful o l r = None.
Check C06_coherent : coherent = true.
Check C06_dimensionally_sound : dimensionally_sound = true.
Check C06_operator_instances : forallb derived_rows_ok all_entries = true /\ forallb derivation_operands_ok all_entries = true.
