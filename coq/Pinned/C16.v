(* Pinned statements of property C16: fails to compile if a theorem of
   Props/C16.v is weakened or renamed. *)
From QV Require Import Rt.Prelude Gen.Prefixes Spec.SIBrochure Proofs.PrefixModel Proofs.C16 Props.C16.
Check C16_table_is_brochure : map prefix_row prefix_iter = map Some si_brochure.
Check C16_from_exp : forall e p, (-128 <= e <= 127)%Z -> (prefix_from_exp e = Some p <-> prefix_exp p = e).
Check C16_from_abbr : forall s p, prefix_from_abbr s = Some p <-> prefix_abbr p = Some s.
Check C16_from_abbr_none : forall s, (forall p, prefix_abbr p <> Some s) -> prefix_from_abbr s = None.
Check C16_bijection : forall p q,
  (prefix_exp p = prefix_exp q -> p = q) /\ (prefix_abbr p = prefix_abbr q -> p = q) /\ (prefix_name p = prefix_name q -> p = q).
Check C16_iteration : (forall p, In p prefix_iter) /\ NoDup prefix_iter /\ length prefix_iter = 25 /\
  strictly_increasing (map prefix_exp prefix_iter) = true.
