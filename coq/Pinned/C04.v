(* Pinned statements of property C04: fails to compile if a theorem of
   Props/C04.v is weakened or renamed.  Created by tools/mkpinned.py. *)
From QV Require Import Rt.Prelude Rt.Amount Rt.Quantity Macro.Defs Macro.Impls Gen.Prefixes Gen.Catalogue
  Gen.Kernels Macro.Inst Amount.F64 Amount.Dec Proofs.Laws Proofs.Instances Proofs.C09 Proofs.Derived Proofs.DerivedCat.
From QV Require Import Props.C04.
Check C04_templates : forall (am : Amount) (L Rr : QBase am) (R : QFull am),
  (forall x y, tmpl_Mul_Qty_Qty L Rr R x y =
     derived_nf (a_mul am) R (u_scale L (q_unit L x)) (u_scale Rr (q_unit Rr y)) (q_amount L x) (q_amount Rr y)) /\
  (forall x y, tmpl_Mul_Qty_Self_PRef L R x y =
     derived_nf (a_mul am) R (u_scale L (q_unit L x)) (u_scale L (q_unit L y)) (q_amount L x) (q_amount L y)) /\
  (forall x y, tmpl_Div_Qty_Qty L Rr R x y =
     derived_nf (a_div am) R (u_scale L (q_unit L x)) (u_scale Rr (q_unit Rr y)) (q_amount L x) (q_amount Rr y)) /\
  (forall (x : am) y, tmpl_Div_Amnt_Qty Rr R x y =
     derived_nf (a_div am) R (a_one am) (u_scale Rr (q_unit Rr y)) x (q_amount Rr y)).
Check C04_borrowed_forms : forall (X Y Z : Type) (owned : X -> Y -> Z) x y,
  tmpl_Mul_refQty_Qty owned x y = owned x y /\ tmpl_Mul_Qty_refQty owned x y = owned x y /\
  tmpl_Mul_refQty_refQty owned x y = owned x y /\
  tmpl_Div_refQty_Qty owned x y = owned x y /\ tmpl_Div_Qty_refQty owned x y = owned x y /\
  tmpl_Div_refQty_refQty owned x y = owned x y /\
  tmpl_Mul_refQty_Same owned x y = owned x y /\ tmpl_Mul_Qty_refSelf owned x y = owned x y /\
  tmpl_Mul_refQty_Self owned x y = owned x y /\
  tmpl_Div_refAmnt_Qty owned x y = owned x y /\ tmpl_Div_Amnt_refQty owned x y = owned x y /\
  tmpl_Div_refAmnt_refQty owned x y = owned x y.
Check C04_operator_instances :
  forallb derived_rows_ok all_entries = true /\
  forallb derivation_operands_ok all_entries = true /\
  List.length (List.filter (fun e => match derivation_of e with DMul _ _ | DDiv _ _ => true | _ => false end) catalogue_main) = 9 /\
  n_owned_derived catalogue_main = 34.
