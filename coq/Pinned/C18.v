(* Pinned statements of property C18: fails to compile if a theorem of
   Props/C18.v is weakened or renamed.  Created by tools/mkpinned.py. *)
From QV Require Import Rt.Prelude Rt.Amount Rt.Quantity Macro.Defs Gen.Prefixes Gen.Catalogue
  Gen.Kernels Macro.Inst Amount.F64 Proofs.Laws Proofs.Instances Proofs.C09 Proofs.Derived Proofs.C13 Proofs.C14 Proofs.C10 Proofs.C18.
From QV Require Import Props.C18.
Check C18_f64_amount_total : AmountTotal F64.
Check C18_kernels_total : forall (am : Amount), AmountTotal am -> forall (S : QBase am) (x y : Qt S) (v : nat),
  total (HasRefUnit_convert S x v) /\ total (HasRefUnit_equiv_amount S x v) /\
  total (HasRefUnit_eq S x y) /\ total (HasRefUnit_partial_cmp S x y) /\
  total (HasRefUnit_add S x y) /\ total (HasRefUnit_sub S x y) /\ total (HasRefUnit_div S x y).
Check C18_fit_total : forall (am : Amount), AmountTotal am -> forall (S : QBase am),
  In (u_ref_unit S) (u_iter S) -> forall m, total (HasRefUnit__fit S m).
Check C18_derived_total : forall (am : Amount), AmountTotal am -> forall (op : am -> am -> res am) (R : QFull am) su sv a b,
  (forall x y, total (op x y)) -> (forall m, total (q_fit R m)) -> total (derived_nf op R su sv a b).
Check C18_rates_total : forall (am : Amount), AmountTotal am ->
  (forall (TQ : QBase am) (PQ : QFull am) r q, (forall x y, total (q_div PQ x y)) ->
     total (Rate_mul TQ PQ r q) /\ total (tmpl_Mul_Qty_Rate PQ TQ q r)) /\
  (forall (TQ : QFull am) (PQ : QBase am) q r, (forall x y, total (q_div TQ x y)) -> total (tmpl_Div_Qty_Rate TQ PQ q r)).
Check C18_table_and_scalar_total : forall (am : Amount), AmountTotal am -> forall (S : QBase am),
  (forall rows q to, total (ConversionTable_convert S rows q to)) /\
  (forall k q, total (tmpl_Mul_Amnt_Qty S k q) /\ total (tmpl_Mul_Qty_Amnt S q k) /\ total (tmpl_Div_Qty_Amnt S q k)).
Check C18_operators_total : forall (am : Amount), AmountTotal am -> forall (g : gen_def SIPrefix), gd_path g = PRef ->
  In (gen_ref g) (gen_iter g) ->
  forall (x y : Qt (base_of_gen am g)) (m : am),
  total (q_eq (full_of_gen am g) x y) /\ total (q_partial_cmp (full_of_gen am g) x y) /\
  total (q_add (full_of_gen am g) x y) /\ total (q_sub (full_of_gen am g) x y) /\
  total (q_div (full_of_gen am g) x y) /\ total (q_fit (full_of_gen am g) m).
Check C18_reference_units_iterated : forallb ref_iterated all_entries = true.
Check C18_documented_panic : forall (am : Amount) (g : gen_def SIPrefix), gd_path g = PNoRef ->
  forall x y : Qt (base_of_gen am g), q_unit (base_of_gen am g) x <> q_unit (base_of_gen am g) y ->
  q_add (full_of_gen am g) x y = Panic PUnitMismatch /\
  q_sub (full_of_gen am g) x y = Panic PUnitMismatch /\
  q_div (full_of_gen am g) x y = Panic PUnitMismatch.
