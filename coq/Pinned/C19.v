(* Pinned statements of property C19: fails to compile if a theorem of
   Props/C19.v is weakened or renamed.  Created by tools/mkpinned.py. *)
From QV Require Import Rt.Prelude Macro.Defs Gen.Prefixes Gen.Catalogue Gen.Config Proofs.Instances Proofs.C19.
From QV Require Import Props.C19.
Check C19_closure_self_contained : forall (S : list ustring) m m',
  In m module_names -> In m' (refs_of m) -> module_enabled S m -> module_enabled S m'.
Check C19_features_monotone : forall (S S' : list ustring) m,
  (forall f, In f S -> In f S') -> module_enabled S m -> module_enabled S' m.
Check C19_feature_enables_its_module : forall (S : list ustring) f,
  In f S -> gate_of f = Some (Some f) -> module_enabled S f.
Check C19_tree_facts : module_gates_ok = true /\ derivation_modules_ok = true /\ no_inner_cfgs = true /\
  doc_is_all = true /\ amount_backends_ok = true.
