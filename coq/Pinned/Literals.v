(* Pinned statements of property Literals: fails to compile if a theorem of
   Props/Literals.v is weakened or renamed.  Created by tools/mkpinned.py. *)
From Coq Require Import Reals ZArith.
From Coq Require Import Floats.SpecFloat.
From Flocq Require Import Core IEEE754.BinarySingleNaN IEEE754.Binary IEEE754.Bits.
From QV Require Import Rt.Prelude Rt.Fmt Amount.F64 Amount.DecModel Amount.DecAcc Amount.DecLit Proofs.LitF64.
From QV Require Amount.Laws.
From QV Require Import Props.Literals.
Local Notation rnd64 := (round radix2 (SpecFloat.fexp 53 1024) (round_mode mode_NE)).
Check LIT_f64_cases : forall (l : lit) (x : f64), (0 <= l_digits l)%Z -> f64_of_lit l = Some x ->
  Bsign 53 1024 x = l_neg l /\
  ((Rabs (rnd64 (lit_R l)) < bpow radix2 1024 /\ is_finite 53 1024 x = true /\ B2R 53 1024 x = rnd64 (lit_R l)) \/
   (bpow radix2 1024 <= Rabs (rnd64 (lit_R l)) /\ x = B754_infinity 53 1024 (l_neg l)))%R.
Check LIT_f64_in_range : forall (l : lit) (x : f64), (0 <= l_digits l)%Z -> lit_in_range l = true -> f64_of_lit l = Some x ->
  is_finite 53 1024 x = true /\ B2R 53 1024 x = rnd64 (lit_R l) /\ Bsign 53 1024 x = l_neg l.
Check LIT_f64_total : forall l : lit, exists x, f64_of_lit l = Some x.
Check LIT_dec_spec : forall (l : lit) (d : dec), dec_of_lit l = Some d <-> lit_accepted l /\ d = lit_dec l.
Check LIT_dec_exact : forall (l : lit) (d : dec), dec_of_lit l = Some d -> (l_digits l < 2 ^ 128)%Z ->
  (0 <= d_nfd d <= 18)%Z /\ in_i128 (d_coeff d) = true /\
  ((0 <= l_exp l)%Z -> d_nfd d = 0%Z /\ d_coeff d = (lit_sign l * l_digits l * 10 ^ l_exp l)%Z) /\
  ((l_exp l < 0)%Z -> d_coeff d = (lit_sign l * l_digits l)%Z /\
     (d_nfd d = (- l_exp l)%Z \/ (l_digits l = 0%Z /\ l_is_int l = true /\ d_nfd d = 0%Z))).
Check LIT_dec_value : forall (l : lit) (d : dec), dec_of_lit l = Some d -> (l_digits l < 2 ^ 128)%Z ->
  dval d = (IZR (lit_sign l * l_digits l) * (if (0 <=? l_exp l)%Z then IZR (10 ^ l_exp l) else / IZR (10 ^ (- l_exp l))))%R.
Check LIT_dec_rejection : forall l : lit, dec_of_lit l = None <-> lit_rejected l.
