(* Pinned statements of property C05: fails to compile if a theorem of
   Props/C05.v is weakened or renamed.  Created by tools/mkpinned.py. *)
From QV Require Import Rt.Prelude Rt.Amount Rt.Quantity Macro.Defs Gen.Prefixes Gen.Catalogue
  Gen.Kernels Macro.Inst Amount.F64 Amount.Dec Proofs.Laws Proofs.Instances Proofs.C09 Proofs.Derived Proofs.DerivedCat.
From QV Require Import Props.C05.
Check C05_templates : forall (am : Amount) (L Rr : QBase am) (R : QFull am),
  (forall x y, tmpl_Mul_Qty_Qty L Rr R x y =
     derived_nf (a_mul am) R (u_scale L (q_unit L x)) (u_scale Rr (q_unit Rr y)) (q_amount L x) (q_amount Rr y)) /\
  (forall x y, tmpl_Mul_Qty_Self_PRef L R x y =
     derived_nf (a_mul am) R (u_scale L (q_unit L x)) (u_scale L (q_unit L y)) (q_amount L x) (q_amount L y)) /\
  (forall x y, tmpl_Div_Qty_Qty L Rr R x y =
     derived_nf (a_div am) R (u_scale L (q_unit L x)) (u_scale Rr (q_unit Rr y)) (q_amount L x) (q_amount Rr y)) /\
  (forall (x : am) y, tmpl_Div_Amnt_Qty Rr R x y =
     derived_nf (a_div am) R (a_one am) (u_scale Rr (q_unit Rr y)) x (q_amount Rr y)).
Check C05_natural_unit : forall (am : Amount) (op : am -> am -> res am) (R : QFull am) su sv a b sc w,
  op su sv = Ok sc -> HasRefUnit_unit_from_scale R sc = Some w ->
  derived_nf op R su sv a b = bind (op a b) (fun m => Ok (q_new R m w)) /\
  a_eqb am (u_scale R w) sc = true /\
  exists l1 l2, u_iter R = l1 ++ w :: l2 /\ forall v, In v l1 -> a_eqb am (u_scale R v) sc = false.
Check C05_fit_path : forall (am : Amount) (op : am -> am -> res am) (R : QFull am) su sv a b sc,
  op su sv = Ok sc -> HasRefUnit_unit_from_scale R sc = None ->
  derived_nf op R su sv a b = bind (op a b) (fun t => bind (a_mul am t sc) (fun m => q_fit R m)) /\
  forall v, In v (u_iter R) -> a_eqb am (u_scale R v) sc = false.
Check C05_fit_spec : forall (am : Amount) (S : QBase am) (m : am),
  HasRefUnit__fit S m =
  match fit_unit S m with
  | None => Panic PUnwrapNone
  | Some w => bind (a_div am m (u_scale S w)) (fun x => Ok (q_new S x w))
  end.
Check C05_fit_unit : forall (am : Amount) (S : QBase am) (m : am) w, fit_unit S m = Some w ->
  exists first rest, eligible S = first :: rest /\
    ((w = first /\ forall u, In u rest -> fit_cond S first m u = false) \/
     (exists r1 r2, rest = r1 ++ w :: r2 /\ fit_cond S first m w = true /\ forall u, In u r2 -> fit_cond S first m u = false)).
Check C05_fit_total : forall (am : Amount) (S : QBase am),
  In (u_ref_unit S) (u_iter S) -> forall m, exists w, fit_unit S m = Some w /\ In w (eligible S) /\ In w (u_iter S).
Check C05_result_unit_in_registry : forall (am : Amount) (op : am -> am -> res am) (R : QFull am), QLaws R ->
  forall su sv a b z, (forall m, q_fit R m = HasRefUnit__fit R m) ->
  derived_nf op R su sv a b = Ok z -> In (q_unit R z) (u_iter R).
Check C05_ref_in_ref_out :
  forallb (ref_in_ref_out F64) all_entries = true /\ forallb (ref_in_ref_out DEC) dec_entries = true /\
  forall am, forallb (fit_total_ok am) all_entries = true.
