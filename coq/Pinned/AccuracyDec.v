(* Pinned statements of property AccuracyDec: fails to compile if a theorem of
   Props/AccuracyDec.v is weakened or renamed.  Created by tools/mkpinned.py. *)
From Coq Require Import Reals ZArith List.
From Flocq Require Import Core.Raux.
From QV Require Import Rt.Prelude Rt.Amount Rt.Quantity Gen.Prefixes Gen.Kernels Amount.DecModel Amount.Dec Amount.DecAcc
  Proofs.Laws Proofs.Kernel Proofs.C09 Proofs.Derived Proofs.AccDec Proofs.AccDecExamples Proofs.AccInverse.
From QV Require Amount.Laws Proofs.C14.
From QV Require Import Props.AccuracyDec.
Local Open Scope R_scope.
Check DEC_operations :
  (forall x y z, Amount.Laws.dec_ok x -> Amount.Laws.dec_ok y -> dec_add x y = Ok z -> Amount.Laws.dec_ok z /\ dval z = dval x + dval y) /\
  (forall x y z, Amount.Laws.dec_ok x -> Amount.Laws.dec_ok y -> dec_sub x y = Ok z -> Amount.Laws.dec_ok z /\ dval z = dval x - dval y) /\
  (forall x y z, Amount.Laws.dec_ok x -> Amount.Laws.dec_ok y -> dec_mul x y = Ok z ->
     Amount.Laws.dec_ok z /\ Rabs (dval z - dval x * dval y) <= half_ulp18 /\ ((d_nfd x + d_nfd y <= 18)%Z -> dval z = dval x * dval y)) /\
  (forall x y z, Amount.Laws.dec_ok x -> Amount.Laws.dec_ok y -> dec_div x y = Ok z ->
     Amount.Laws.dec_ok z /\ dval y <> 0 /\ Rabs (dval z - dval x / dval y) <= half_ulp18) /\
  (forall x y z, Amount.Laws.dec_ok x -> Amount.Laws.dec_ok y -> dec_mul x y = Ok z -> grid18 (dval x * dval y) -> dval z = dval x * dval y) /\
  (forall x y z, Amount.Laws.dec_ok x -> Amount.Laws.dec_ok y -> dec_div x y = Ok z -> grid18 (dval x / dval y) -> dval z = dval x / dval y).
Check DEC_comparison :
  (forall x y, dec_wf x -> dec_wf y -> dec_cmp x y = Rcompare (dval x) (dval y)) /\
  (forall x y, dec_wf x -> dec_wf y -> (dec_eqb x y = true <-> dval x = dval y)).
Check DEC_totality :
  (forall x y, Amount.Laws.dec_ok x -> Amount.Laws.dec_ok y -> Rabs (dval x) < big -> Rabs (dval y) < big -> exists z, dec_add x y = Ok z) /\
  (forall x y, Amount.Laws.dec_ok x -> Amount.Laws.dec_ok y -> Rabs (dval x) < big -> Rabs (dval y) < big -> exists z, dec_sub x y = Ok z) /\
  (forall x y, Amount.Laws.dec_ok x -> Amount.Laws.dec_ok y -> Rabs (dval x * dval y) < big -> exists z, dec_mul x y = Ok z) /\
  (forall x y, Amount.Laws.dec_ok x -> Amount.Laws.dec_ok y -> (Z.abs (d_coeff x) <= i128_max)%Z -> (Z.abs (d_coeff y) <= i128_max)%Z ->
     dval y <> 0 -> Rabs (dval x / dval y) < big -> exists z, dec_div x y = Ok z).
Check DEC_C01_convert : forall (S : QBase DEC), QLaws S -> forall (q : Qt S) (v : nat) (q' : Qt S),
  q_unit S q <> v -> In v (u_iter S) ->
  Amount.Laws.dec_ok (q_amount S q) -> Amount.Laws.dec_ok (u_scale S (q_unit S q)) -> Amount.Laws.dec_ok (u_scale S v) ->
  HasRefUnit_convert S q v = Ok q' ->
  q_unit S q' = v /\
  Rabs (dval (q_amount S q') * dval (u_scale S v) - dmag S q) <= half_ulp18 * (Rabs (dval (q_amount S q)) + 1) * Rabs (dval (u_scale S v)).
Check DEC_C01_convert_exact : forall (S : QBase DEC), QLaws S -> forall (q : Qt S) (v : nat) (q' : Qt S),
  q_unit S q <> v -> In v (u_iter S) ->
  Amount.Laws.dec_ok (q_amount S q) -> Amount.Laws.dec_ok (u_scale S (q_unit S q)) -> Amount.Laws.dec_ok (u_scale S v) ->
  HasRefUnit_convert S q v = Ok q' ->
  grid18 (dval (u_scale S (q_unit S q)) / dval (u_scale S v)) ->
  grid18 (dval (u_scale S (q_unit S q)) / dval (u_scale S v) * dval (q_amount S q)) ->
  dval (q_amount S q') * dval (u_scale S v) = dmag S q.
Check DEC_C18_convert_total : forall (S : QBase DEC) (q : Qt S) (v : nat),
  q_unit S q <> v -> Amount.Laws.dec_ok (q_amount S q) -> dfit (u_scale S (q_unit S q)) -> dfit (u_scale S v) -> dval (u_scale S v) <> 0 ->
  Rabs (dval (u_scale S (q_unit S q)) / dval (u_scale S v)) < big ->
  (Rabs (dval (u_scale S (q_unit S q)) / dval (u_scale S v)) + half_ulp18) * Rabs (dval (q_amount S q)) < big ->
  exists q', HasRefUnit_convert S q v = Ok q'.
Check DEC_C01_not_vacuous :
  (q_unit LengthD q_exampled <> cm_ixd /\ In cm_ixd (u_iter LengthD) /\
   Amount.Laws.dec_ok (q_amount LengthD q_exampled) /\ dfit (u_scale LengthD (q_unit LengthD q_exampled)) /\ dfit (u_scale LengthD cm_ixd) /\
   dval (u_scale LengthD cm_ixd) <> 0 /\
   grid18 (dval (u_scale LengthD (q_unit LengthD q_exampled)) / dval (u_scale LengthD cm_ixd)) /\
   grid18 (dval (u_scale LengthD (q_unit LengthD q_exampled)) / dval (u_scale LengthD cm_ixd) * dval (q_amount LengthD q_exampled)) /\
   Rabs (dval (u_scale LengthD (q_unit LengthD q_exampled)) / dval (u_scale LengthD cm_ixd)) < big /\
   (Rabs (dval (u_scale LengthD (q_unit LengthD q_exampled)) / dval (u_scale LengthD cm_ixd)) + half_ulp18) * Rabs (dval (q_amount LengthD q_exampled)) < big) /\
  (exists q', HasRefUnit_convert LengthD q_exampled cm_ixd = Ok q' /\ q_amount LengthD q' = mkdec 6350 3 /\ q_unit LengthD q' = cm_ixd).
Check DEC_C03_add : forall (S : QBase DEC), QLaws S -> forall (x y r : Qt S),
  q_unit S y <> q_unit S x -> In (q_unit S x) (u_iter S) ->
  Amount.Laws.dec_ok (q_amount S x) -> Amount.Laws.dec_ok (q_amount S y) -> Amount.Laws.dec_ok (u_scale S (q_unit S y)) -> Amount.Laws.dec_ok (u_scale S (q_unit S x)) ->
  HasRefUnit_add S x y = Ok r ->
  q_unit S r = q_unit S x /\
  Rabs (dval (q_amount S r) * dval (u_scale S (q_unit S x)) - (dmag S x + dmag S y)) <= half_ulp18 * (Rabs (dval (q_amount S y)) + 1) * Rabs (dval (u_scale S (q_unit S x))).
Check DEC_C03_sub : forall (S : QBase DEC), QLaws S -> forall (x y r : Qt S),
  q_unit S y <> q_unit S x -> In (q_unit S x) (u_iter S) ->
  Amount.Laws.dec_ok (q_amount S x) -> Amount.Laws.dec_ok (q_amount S y) -> Amount.Laws.dec_ok (u_scale S (q_unit S y)) -> Amount.Laws.dec_ok (u_scale S (q_unit S x)) ->
  HasRefUnit_sub S x y = Ok r ->
  q_unit S r = q_unit S x /\
  Rabs (dval (q_amount S r) * dval (u_scale S (q_unit S x)) - (dmag S x - dmag S y)) <= half_ulp18 * (Rabs (dval (q_amount S y)) + 1) * Rabs (dval (u_scale S (q_unit S x))).
Check DEC_C03_div : forall (S : QBase DEC) (x y : Qt S) (r : dec),
  q_unit S y <> q_unit S x ->
  Amount.Laws.dec_ok (q_amount S x) -> Amount.Laws.dec_ok (q_amount S y) -> Amount.Laws.dec_ok (u_scale S (q_unit S y)) -> Amount.Laws.dec_ok (u_scale S (q_unit S x)) ->
  HasRefUnit_div S x y = Ok r ->
  exists b', HasRefUnit_equiv_amount S y (q_unit S x) = Ok b' /\ dval b' <> 0 /\
    Rabs (dval b' * dval (u_scale S (q_unit S x)) - dmag S y) <= half_ulp18 * (Rabs (dval (q_amount S y)) + 1) * Rabs (dval (u_scale S (q_unit S x))) /\
    Rabs (dval r - dval (q_amount S x) / dval b') <= half_ulp18.
Check DEC_C02_order : forall (S : QBase DEC) (x y : Qt S),
  q_unit S x <> q_unit S y ->
  Amount.Laws.dec_ok (q_amount S x) -> Amount.Laws.dec_ok (q_amount S y) -> Amount.Laws.dec_ok (u_scale S (q_unit S x)) -> Amount.Laws.dec_ok (u_scale S (q_unit S y)) ->
  Rabs (dmag S x) < big - 1 -> Rabs (dmag S y) < big - 1 ->
  exists c, HasRefUnit_partial_cmp S x y = Ok (Some c) /\
    (dmag S x + 2 * half_ulp18 < dmag S y -> c = Lt) /\ (dmag S y + 2 * half_ulp18 < dmag S x -> c = Gt) /\
    (grid18 (dmag S x) -> grid18 (dmag S y) -> c = Rcompare (dmag S x) (dmag S y)).
Check DEC_C04_natural_unit : forall (op : dec -> dec -> res dec) (rop : R -> R -> R) (okr : dec -> Prop), dop_rel op rop okr ->
  forall (R0 : QFull DEC), QLaws R0 -> (forall w, In w (u_iter R0) -> dfit (u_scale R0 w)) ->
  forall su sv a b : dec, Amount.Laws.dec_ok su -> Amount.Laws.dec_ok sv -> Amount.Laws.dec_ok a -> Amount.Laws.dec_ok b ->
  forall (z : Qt R0) (sc : dec) (w : nat), op su sv = Ok sc -> (Z.abs (d_coeff sc) <= i128_max)%Z ->
  HasRefUnit_unit_from_scale R0 sc = Some w ->
  @derived_nf DEC op R0 su sv a b = Ok z ->
  q_unit R0 z = w /\ In w (u_iter R0) /\
  Rabs (dmag_o R0 z - rop (dval a) (dval b) * rop (dval su) (dval sv)) <= half_ulp18 * (Rabs (dval sc) + Rabs (rop (dval a) (dval b))) /\
  (grid18 (rop (dval a) (dval b)) -> grid18 (rop (dval su) (dval sv)) -> dmag_o R0 z = rop (dval a) (dval b) * rop (dval su) (dval sv)).
Check DEC_C04_fit_path : forall (op : dec -> dec -> res dec) (rop : R -> R -> R) (okr : dec -> Prop), dop_rel op rop okr ->
  forall (R0 : QFull DEC), QLaws R0 -> (forall m, q_fit R0 m = HasRefUnit__fit R0 m) -> (forall w, In w (u_iter R0) -> dfit (u_scale R0 w)) ->
  forall su sv a b : dec, Amount.Laws.dec_ok su -> Amount.Laws.dec_ok sv -> Amount.Laws.dec_ok a -> Amount.Laws.dec_ok b ->
  forall (z : Qt R0) (sc : dec), op su sv = Ok sc -> HasRefUnit_unit_from_scale R0 sc = None ->
  @derived_nf DEC op R0 su sv a b = Ok z ->
  In (q_unit R0 z) (u_iter R0) /\
  exists m, fit_unit R0 m = Some (q_unit R0 z) /\
    Rabs (dval m - rop (dval a) (dval b) * rop (dval su) (dval sv)) <= half_ulp18 * (Rabs (dval sc) + Rabs (rop (dval a) (dval b)) + 1) /\
    Rabs (dmag_o R0 z - dval m) <= half_ulp18 * Rabs (dval (u_scale R0 (q_unit R0 z))).
Check DEC_C04_operations : dop_rel dec_mul Rmult (fun _ => True) /\ dop_rel dec_div Rdiv (fun y => dval y <> 0).
Check DEC_C14_affine : forall (S : QBase DEC), QLaws S -> forall (q : Qt S) (to : nat) (k c : dec) (z : Qt S),
  In to (u_iter S) -> Amount.Laws.dec_ok (q_amount S q) -> Amount.Laws.dec_ok k -> Amount.Laws.dec_ok c ->
  Proofs.C14.affine S q to (k, c) = Ok (Some z) ->
  q_unit S z = to /\ Rabs (dval (q_amount S z) - (dval (q_amount S q) * dval k + dval c)) <= half_ulp18 /\
  ((d_nfd (q_amount S q) + d_nfd k <= 18)%Z -> dval (q_amount S z) = dval (q_amount S q) * dval k + dval c).
Check DEC_C04_mul_then_div : forall (R0 L0 : QFull DEC), QLaws R0 -> QLaws L0 ->
  (forall w, In w (u_iter R0) -> dfit (u_scale R0 w)) -> (forall w, In w (u_iter L0) -> dfit (u_scale L0 w)) ->
  forall su sv a b : dec, Amount.Laws.dec_ok su -> Amount.Laws.dec_ok sv -> Amount.Laws.dec_ok a -> Amount.Laws.dec_ok b ->
  forall (z : Qt R0) (z' : Qt L0) (sc sc2 : dec) (w u' : nat),
  dec_mul su sv = Ok sc -> (Z.abs (d_coeff sc) <= i128_max)%Z -> HasRefUnit_unit_from_scale R0 sc = Some w ->
  @derived_nf DEC dec_mul R0 su sv a b = Ok z ->
  dec_div (u_scale R0 w) sv = Ok sc2 -> (Z.abs (d_coeff sc2) <= i128_max)%Z -> HasRefUnit_unit_from_scale L0 sc2 = Some u' ->
  @derived_nf DEC dec_div L0 (u_scale R0 (q_unit R0 z)) sv (q_amount R0 z) b = Ok z' ->
  q_unit R0 z = w /\ q_unit L0 z' = u' /\ dval sv <> 0 /\ dval b <> 0 /\
  Rabs (dmag_o L0 z' - dval a * dval su) <=
    half_ulp18 * (Rabs (dval sc2) + Rabs (dval (q_amount R0 z) / dval b)) +
    half_ulp18 * (Rabs (dval sc) + Rabs (dval a * dval b)) / (Rabs (dval b) * Rabs (dval sv)).
