(* Pinned statements of property C07: fails to compile if a theorem of
   Props/C07.v is weakened or renamed.  Created by tools/mkpinned.py. *)
From Coq Require Import Reals QArith String.
From QV Require Import Rt.Prelude Rt.Amount Macro.Defs Gen.Prefixes Gen.Catalogue Macro.Inst Amount.F64 Amount.Dec
  Proofs.Instances Proofs.C09 Spec.Units Proofs.C07.
From QV Require Import Props.C07.
Local Close Scope Q_scope.
Local Close Scope R_scope.
Check C07_main_crate : forallb (entry_matches_spec true) catalogue_main = true.
Check C07_astronomical_crate : forallb (entry_matches_spec false) catalogue_astro = true.
Check C07_generated_tables_are_declarations : forallb registry_ok all_entries = true.
Check C07_sizes :
  List.length catalogue_main = 14 /\ List.length catalogue_astro = 4 /\
  List.length (flat_map (fun e => gd_VARIANTS (ce_gen e)) catalogue_main) = 112 /\
  List.length (flat_map (fun e => gd_VARIANTS (ce_gen e)) catalogue_astro) = 27.
