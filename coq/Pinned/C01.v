(* Pinned statements of property C01: fails to compile if a theorem of
   Props/C01.v is weakened or renamed.  Created by tools/mkpinned.py. *)
From QV Require Import Rt.Prelude Rt.Amount Rt.Quantity Macro.Defs Gen.Prefixes Gen.Catalogue
  Gen.Kernels Macro.Inst Proofs.Laws Proofs.Instances Proofs.C01.
From QV Require Import Props.C01.
Check C01_convert_unit : forall (am : Amount) (S : QBase am), QLaws S -> forall q v q',
  In v (u_iter S) -> HasRefUnit_convert S q v = Ok q' -> q_unit S q' = v.
Check C01_convert_same_unit : forall (am : Amount) (S : QBase am), QLaws S -> forall q,
  HasRefUnit_convert S q (q_unit S q) = Ok q /\
  HasRefUnit_equiv_amount S q (q_unit S q) = Ok (q_amount S q).
Check C01_equiv_amount_is_convert : forall (am : Amount) (S : QBase am), QLaws S -> forall q v,
  (forall q', HasRefUnit_convert S q v = Ok q' -> HasRefUnit_equiv_amount S q v = Ok (q_amount S q')) /\
  (forall x, HasRefUnit_equiv_amount S q v = Ok x -> HasRefUnit_convert S q v = Ok (q_new S x v)) /\
  (forall k, HasRefUnit_equiv_amount S q v = Panic k <-> HasRefUnit_convert S q v = Panic k).
Check C01_convert_kernel : forall (am : Amount) (S : QBase am) q v, q_unit S q <> v ->
  HasRefUnit_convert S q v =
  bind (a_div am (u_scale S (q_unit S q)) (u_scale S v)) (fun r =>
  bind (a_mul am r (q_amount S q)) (fun m => Ok (q_new S m v))).
Check C01_dimensionless : forall (am : Amount) (a : am),
  HasRefUnit_convert (amount_base am) a 0 = Ok a /\ HasRefUnit_equiv_amount (amount_base am) a 0 = Ok a.
Check C01_catalogue : forall (am : Amount) e, In e ref_entries -> QLaws (base_of_gen am (ce_gen e)).
