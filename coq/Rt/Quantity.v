(* Rt/Quantity.v — what the traits of src/lib.rs REQUIRE of an implementor
   (the methods without default body), as records.  The default methods and the
   generated impls are translated from the source into functions over these
   records (Gen/Kernels.v).  Units are identified with their index in the
   VARIANTS array (a fieldless enum is a finite index set). *)
From QV Require Import Rt.Prelude Rt.Amount Gen.Prefixes.

(** required items of Quantity + Unit (+ LinearScaledUnit / HasRefUnit consts) *)
Record QBase (am : Amount) := mkQBase {
  Qt : Type;                               (* the quantity struct *)
  q_new : am -> nat -> Qt;                 (* Quantity::new *)
  q_amount : Qt -> am;                     (* Quantity::amount *)
  q_unit : Qt -> nat;                      (* Quantity::unit *)
  u_iter : list nat;                       (* Unit::iter() *)
  u_name : nat -> ustring;                 (* Unit::name *)
  u_symbol : nat -> ustring;               (* Unit::symbol *)
  u_si_prefix : nat -> option SIPrefix;    (* Unit::si_prefix *)
  u_ref_unit : nat;                        (* LinearScaledUnit::REF_UNIT = HasRefUnit::REF_UNIT *)
  u_scale : nat -> am                      (* LinearScaledUnit::scale *)
}.
Arguments Qt {am}. Arguments q_new {am}. Arguments q_amount {am}. Arguments q_unit {am}.
Arguments u_iter {am}. Arguments u_name {am}. Arguments u_symbol {am}. Arguments u_si_prefix {am}.
Arguments u_ref_unit {am}. Arguments u_scale {am}.

(** the operator impls a quantity type comes with (PartialEq, PartialOrd, Add,
    Sub, Div<Self>) and the overridable HasRefUnit::_fit *)
Record QFull (am : Amount) := mkQFull {
  qb :> QBase am;
  q_eq : Qt qb -> Qt qb -> res bool;                       (* a conversion inside may panic (decimal) *)
  q_partial_cmp : Qt qb -> Qt qb -> res (option comparison);
  q_add : Qt qb -> Qt qb -> res (Qt qb);
  q_sub : Qt qb -> Qt qb -> res (Qt qb);
  q_div : Qt qb -> Qt qb -> res am;
  q_fit : am -> res (Qt qb)
}.
Arguments qb {am}. Arguments q_eq {am}. Arguments q_partial_cmp {am}. Arguments q_add {am}.
Arguments q_sub {am}. Arguments q_div {am}. Arguments q_fit {am}.

Definition opt_cmp_is (o : option comparison) (c : comparison) : bool :=
  match o, c with Some Lt, Lt | Some Eq, Eq | Some Gt, Gt => true | _, _ => false end.
