(* Rt/Prelude.v — run-time prelude shared by the generated and the hand-written
   parts of the model: the result monad (Rust panics), iterators as lists,
   strings as lists of Unicode code points, numeric literals. *)
From Coq Require Export List ZArith NArith Bool.
From Coq Require Import String Ascii.
Export ListNotations.

(** * Panics *)
Inductive panic_kind :=
| PUnitMismatch   (* documented panic of Quantity::add/sub/div on different units *)
| PAmount         (* the amount type panicked: decimal overflow, zero divisor *)
| PUnwrapNone     (* Option::unwrap on None *)
| POther.

Inductive res (T : Type) : Type :=
| Ok (x : T)
| Panic (k : panic_kind).
Arguments Ok {T} x.
Arguments Panic {T} k.

Definition bind {T R : Type} (m : res T) (f : T -> res R) : res R :=
  match m with Ok x => f x | Panic k => Panic k end.

Notation "'do' x <- m ; f" := (bind m (fun x => f))
  (at level 200, x name, m at level 100, f at level 200, right associativity).

Definition is_ok {T} (m : res T) : bool := match m with Ok _ => true | Panic _ => false end.

Lemma bind_ok {T R} (m : res T) (f : T -> res R) (r : R) :
  bind m f = Ok r -> exists x, m = Ok x /\ f x = Ok r.
Proof. destruct m as [x|k]; cbn; intros H; [exists x; auto|discriminate]. Qed.

Lemma bind_Ok_l {T R} (x : T) (f : T -> res R) : bind (Ok x) f = f x.
Proof. reflexivity. Qed.

(** * Strings: lists of Unicode code points (symbols are not ASCII, and the
      formatting width counts characters) *)
Definition ustring := list N.

Fixpoint ustr_eqb (a b : ustring) : bool :=
  match a, b with
  | [], [] => true
  | x :: a', y :: b' => N.eqb x y && ustr_eqb a' b'
  | _, _ => false
  end.

Lemma ustr_eqb_spec a b : reflect (a = b) (ustr_eqb a b).
Proof.
  revert b; induction a as [|x a IH]; intros [|y b]; cbn; try (constructor; congruence).
  destruct (N.eqb_spec x y) as [->|Hn]; cbn.
  - destruct (IH b) as [->|Hn]; constructor; congruence.
  - constructor; congruence.
Qed.

Lemma ustr_eqb_refl a : ustr_eqb a a = true.
Proof. destruct (ustr_eqb_spec a a); congruence. Qed.

Lemma ustr_eqb_eq a b : ustr_eqb a b = true <-> a = b.
Proof. destruct (ustr_eqb_spec a b); split; congruence. Qed.

(** an ASCII string literal as a ustring *)
Fixpoint us (s : string) : ustring :=
  match s with
  | EmptyString => []
  | String c r => N_of_ascii c :: us r
  end.

(** a UTF-8 string literal as code points (the .v files are UTF-8; Coq strings are bytes) *)
Fixpoint utf8_decode (fuel : nat) (b : list N) : ustring :=
  match fuel with
  | O => []
  | S f =>
      match b with
      | [] => []
      | c :: r =>
          if (c <? 128)%N then c :: utf8_decode f r
          else if (c <? 224)%N then
            match r with c1 :: r' => ((c - 192) * 64 + (c1 - 128))%N :: utf8_decode f r' | _ => [] end
          else if (c <? 240)%N then
            match r with c1 :: c2 :: r' => ((c - 224) * 4096 + (c1 - 128) * 64 + (c2 - 128))%N :: utf8_decode f r' | _ => [] end
          else
            match r with c1 :: c2 :: c3 :: r' =>
              ((c - 240) * 262144 + (c1 - 128) * 4096 + (c2 - 128) * 64 + (c3 - 128))%N :: utf8_decode f r' | _ => [] end
      end
  end.
Definition u8 (s : string) : ustring := let b := us s in utf8_decode (List.length b) b.

(** lexicographic order by code point = Rust's [str::cmp] (UTF-8 byte order
    coincides with code point order) *)
Fixpoint ustr_cmp (a b : ustring) : comparison :=
  match a, b with
  | [], [] => Eq
  | [], _ :: _ => Lt
  | _ :: _, [] => Gt
  | x :: a', y :: b' => match N.compare x y with Eq => ustr_cmp a' b' | c => c end
  end.

(** * Iterators are lists; the adaptors the code uses *)
Definition iter_find {T} (p : T -> bool) (l : list T) : option T := List.find p l.
Definition iter_filter {T} (p : T -> bool) (l : list T) : list T := List.filter p l.
Definition iter_last {T} (l : list T) : option T :=
  match l with [] => None | x :: l' => Some (List.last l' x) end.
(** [it.next()] on a [let mut it]: yields the head and leaves the tail *)
Definition iter_next {T} (l : list T) : option T * list T :=
  match l with [] => (None, []) | x :: l' => (Some x, l') end.

Fixpoint iter_find_map_res {T R} (f : T -> res (option R)) (l : list T) : res (option R) :=
  match l with
  | [] => Ok None
  | x :: l' => bind (f x) (fun o => match o with Some r => Ok (Some r) | None => iter_find_map_res f l' end)
  end.

Definition opt_unwrap {T} (o : option T) : res T :=
  match o with Some x => Ok x | None => Panic PUnwrapNone end.
Definition opt_is_some {T} (o : option T) : bool := match o with Some _ => true | None => false end.
Definition opt_is_none {T} (o : option T) : bool := match o with Some _ => false | None => true end.

(** * Numeric literals as written in the source: sign, all digits as one
      integer, power of ten.  [1000.] = (1000,0); [0.0254] = (254,-4);
      [1.0] = (10,-1); [1e3] = (1,3).  The value is [digits * 10^exp]. *)
Record lit := mklit { l_neg : bool; l_digits : Z; l_exp : Z; l_is_int : bool }.

Definition lit_Q_num_den (l : lit) : Z * Z :=
  let s := if l_neg l then (-1)%Z else 1%Z in
  if (0 <=? l_exp l)%Z then (s * l_digits l * 10 ^ l_exp l, 1)%Z
  else (s * l_digits l, 10 ^ (- l_exp l))%Z.

(** * Format specifications ([core::fmt::Formatter] state the code can observe) *)
Inductive align := ALeft | ARight | ACenter.
Record fspec := mkfspec {
  f_fill : N;                 (* fill character, default space = 32 *)
  f_align : option align;     (* [<], [>], [^] or unspecified *)
  f_plus : bool;              (* [+] flag *)
  f_zero : bool;              (* [0] flag: sign-aware zero padding *)
  f_width : option N;
  f_prec : option N
}.
Definition fspec_default : fspec := mkfspec 32%N None false false None None.
