(* Rt/Show.v — canonical text of model results, for the correspondence check:
   the harness prints the implementation's results in the same format. *)
From Coq Require Import String Ascii DecimalString.
From QV Require Import Rt.Prelude.
Open Scope string_scope.

Definition show_Z (z : Z) : string := NilZero.string_of_int (Z.to_int z).
Definition show_N (n : N) : string := show_Z (Z.of_N n).
Definition show_nat (n : nat) : string := show_Z (Z.of_nat n).
Definition show_bool (b : bool) : string := if b then "true" else "false".

Fixpoint show_sep {T} (f : T -> string) (sep : string) (l : list T) : string :=
  match l with
  | [] => ""
  | [x] => f x
  | x :: r => f x ++ sep ++ show_sep f sep r
  end.

(** a string as its code points: <104 105> *)
Definition show_ustr (s : ustring) : string := "<" ++ show_sep show_N " " s ++ ">".

Definition show_opt {T} (f : T -> string) (o : option T) : string :=
  match o with None => "None" | Some x => "Some " ++ f x end.

Definition show_cmp (c : comparison) : string :=
  match c with Lt => "Less" | Eq => "Equal" | Gt => "Greater" end.

Definition show_res {T} (f : T -> string) (r : res T) : string :=
  match r with Ok x => f x | Panic _ => "PANIC" end.

(** text of an ASCII-only ustring (identifiers) *)
Fixpoint string_of_ustr (s : ustring) : string :=
  match s with
  | [] => ""
  | c :: r => String (ascii_of_N c) (string_of_ustr r)
  end.

(** 16 lower-case hex digits of a 64-bit pattern *)
Definition hex_digit (n : Z) : ascii :=
  ascii_of_N (Z.to_N (if (n <? 10)%Z then 48 + n else 87 + n)%Z).
Fixpoint hex_go (k : nat) (z : Z) (acc : string) : string :=
  match k with
  | O => acc
  | S k' => hex_go k' (z / 16)%Z (String (hex_digit (z mod 16)%Z) acc)
  end.
Definition show_hex64 (z : Z) : string := hex_go 16 z "".
