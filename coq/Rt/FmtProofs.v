(* Rt/FmtProofs.v — lemmas about the formatting model Rt/Fmt.v.
   No axioms, no admits; see the [Print Assumptions] at the end. *)
From QV Require Import Rt.Prelude Rt.Fmt.
From Coq Require Import ZArith NArith List Bool Lia Floats.SpecFloat.
From Flocq Require Import IEEE754.BinarySingleNaN IEEE754.Binary IEEE754.Bits.
Import ListNotations.

(** * Fill strings *)
Definition all_eq (c : N) (s : ustring) : Prop := Forall (eq c) s.

Lemma fillN_length c n : length (fillN c n) = N.to_nat n.
Proof. apply repeat_length. Qed.

Lemma fillN_all c n : all_eq c (fillN c n).
Proof.
  unfold all_eq, fillN. induction (N.to_nat n); cbn; constructor; auto.
Qed.

Lemma fillN_0 c : fillN c 0 = [].
Proof. reflexivity. Qed.

Lemma nlen_to_nat s : N.to_nat (nlen s) = length s.
Proof. unfold nlen. apply Nat2N.id. Qed.

Lemma pad_split_sum al pad :
  (fst (pad_split al pad) + snd (pad_split al pad) = pad)%N.
Proof.
  destruct al; cbn; try lia.
  assert (pad / 2 <= pad)%N by (apply N.div_le_upper_bound; lia). lia.
Qed.

Lemma with_padding_length sp dflt pad body :
  length (with_padding sp dflt pad body) = (N.to_nat pad + length body)%nat.
Proof.
  unfold with_padding.
  pose proof (pad_split_sum (eff_align sp dflt) pad) as H.
  destruct (pad_split (eff_align sp dflt) pad) as [l r]; cbn in H.
  rewrite !app_length, !fillN_length. lia.
Qed.

Lemma with_padding_shape sp dflt pad body :
  exists l r,
    with_padding sp dflt pad body = l ++ body ++ r /\
    all_eq (f_fill sp) l /\ all_eq (f_fill sp) r /\
    (length l + length r = N.to_nat pad)%nat /\
    (eff_align sp dflt = ALeft -> l = []) /\
    (eff_align sp dflt = ARight -> r = []) /\
    (eff_align sp dflt = ACenter -> length l = N.to_nat (pad / 2)).
Proof.
  unfold with_padding.
  pose proof (pad_split_sum (eff_align sp dflt) pad) as H.
  destruct (pad_split (eff_align sp dflt) pad) as [l r] eqn:E; cbn in H.
  exists (fillN (f_fill sp) l), (fillN (f_fill sp) r).
  repeat split; try apply fillN_all.
  - rewrite !fillN_length. lia.
  - intros A; rewrite A in E; inversion E; reflexivity.
  - intros A; rewrite A in E; inversion E; reflexivity.
  - intros A; rewrite A in E; inversion E; subst. apply fillN_length.
Qed.

Lemma with_padding_0 sp dflt body : with_padding sp dflt 0 body = body.
Proof.
  unfold with_padding. destruct (eff_align sp dflt); cbn; apply app_nil_r.
Qed.

(** * 1. [Formatter::pad] *)

(** the text after applying the precision (= maximum number of characters) *)
Lemma str_truncate_length sp s :
  length (str_truncate sp s) =
  match f_prec sp with Some p => Nat.min (N.to_nat p) (length s) | None => length s end.
Proof. unfold str_truncate. destruct (f_prec sp); auto using firstn_length. Qed.

Theorem fmt_pad_length sp s :
  length (fmt_pad sp s) =
  Nat.max (N.to_nat (width_of sp)) (length (str_truncate sp s)).
Proof.
  unfold fmt_pad. rewrite with_padding_length.
  rewrite N2Nat.inj_sub, nlen_to_nat. lia.
Qed.

(** general shape: fill ++ (truncated text) ++ fill; which side is filled is
    decided by the alignment, LEFT (text first) by default *)
Theorem fmt_pad_shape sp s :
  exists l r,
    fmt_pad sp s = l ++ str_truncate sp s ++ r /\
    all_eq (f_fill sp) l /\ all_eq (f_fill sp) r /\
    (length l + length r =
       N.to_nat (width_of sp) - length (str_truncate sp s))%nat /\
    (f_align sp = Some ALeft \/ f_align sp = None -> l = []) /\
    (f_align sp = Some ARight -> r = []) /\
    (f_align sp = Some ACenter ->
       length l = ((N.to_nat (width_of sp) - length (str_truncate sp s)) / 2)%nat).
Proof.
  unfold fmt_pad.
  destruct (with_padding_shape sp ALeft (width_of sp - nlen (str_truncate sp s))
              (str_truncate sp s)) as (l & r & E & Hl & Hr & Hlen & HL & HR & HC).
  exists l, r. rewrite N2Nat.inj_sub, nlen_to_nat in Hlen.
  repeat split; auto.
  - intros [A|A]; apply HL; unfold eff_align; rewrite A; reflexivity.
  - intros A; apply HR; unfold eff_align; rewrite A; reflexivity.
  - intros A. rewrite HC by (unfold eff_align; rewrite A; reflexivity).
    change 2%N with (N.of_nat 2).
    rewrite <- (nlen_to_nat (str_truncate sp s)), <- N2Nat.inj_sub.
    rewrite <- (N2Nat.id (width_of sp - nlen (str_truncate sp s))) at 1.
    rewrite <- Nat2N.inj_div, Nat2N.id. reflexivity.
Qed.

(** without a precision the text itself appears *)
Corollary fmt_pad_noprec sp s :
  f_prec sp = None ->
  exists l r,
    fmt_pad sp s = l ++ s ++ r /\ all_eq (f_fill sp) l /\ all_eq (f_fill sp) r /\
    (length l + length r = N.to_nat (width_of sp) - length s)%nat.
Proof.
  intros Hp. destruct (fmt_pad_shape sp s) as (l & r & E & Hl & Hr & Hlen & _).
  unfold str_truncate in *. rewrite Hp in *. exists l, r; auto.
Qed.

Corollary fmt_pad_plain sp s :
  f_width sp = None -> f_prec sp = None -> fmt_pad sp s = s.
Proof.
  intros Hw Hp. unfold fmt_pad, str_truncate, width_of. rewrite Hw, Hp.
  cbn. apply with_padding_0.
Qed.

(** * 2. [Formatter::pad_integral] *)

Lemma sign_text_spec nn plus :
  sign_text nn plus =
  if negb nn then [c_minus] else if plus then [c_plus] else [].
Proof. reflexivity. Qed.

Lemma pad_signed_length sp sign body used :
  length (pad_signed sp sign body used) =
  (length (sign ++ body) + N.to_nat (width_of sp - used))%nat.
Proof.
  unfold pad_signed. destruct (f_zero sp).
  - rewrite !app_length, fillN_length. lia.
  - rewrite with_padding_length. lia.
Qed.

Lemma pad_signed_shape sp sign body used :
  exists lfill zs rfill,
    pad_signed sp sign body used = lfill ++ sign ++ zs ++ body ++ rfill /\
    all_eq (f_fill sp) lfill /\ all_eq (f_fill sp) rfill /\ all_eq c_zero zs /\
    (f_zero sp = false -> zs = [] /\
       (length lfill + length rfill = N.to_nat (width_of sp - used))%nat /\
       (f_align sp = Some ARight \/ f_align sp = None -> rfill = []) /\
       (f_align sp = Some ALeft -> lfill = [])) /\
    (f_zero sp = true -> lfill = [] /\ rfill = [] /\
       length zs = N.to_nat (width_of sp - used)).
Proof.
  unfold pad_signed. destruct (f_zero sp) eqn:Z.
  - exists [], (fillN c_zero (width_of sp - used)), [].
    cbn. rewrite app_nil_r.
    repeat split; try constructor; try discriminate; try apply fillN_all.
    apply fillN_length.
  - destruct (with_padding_shape sp ARight (width_of sp - used) (sign ++ body))
      as (l & r & E & Hl & Hr & Hlen & HL & HR & _).
    exists l, [], r. rewrite E. cbn. rewrite <- app_assoc.
    repeat split; auto; try constructor; try discriminate.
    + intros [A|A]; apply HR; unfold eff_align; rewrite A; reflexivity.
    + intros A; apply HL; unfold eff_align; rewrite A; reflexivity.
Qed.

(** [pad_integral] measures [buf] in UTF-8 bytes ([buf.len()]) but emits
    characters: the number of fill characters is
    width - (|sign| + utf8_len buf), cut off at 0. *)
Theorem fmt_pad_integral_length sp nn buf :
  let sign := sign_text nn (f_plus sp) in
  length (fmt_pad_integral sp nn buf) =
  (length (sign ++ buf) + N.to_nat (width_of sp - (nlen sign + utf8_len buf)))%nat.
Proof. cbv zeta. unfold fmt_pad_integral. apply pad_signed_length. Qed.

Definition is_ascii (s : ustring) : Prop := Forall (fun c => (c < 128)%N) s.

Lemma utf8_len_ascii s : is_ascii s -> utf8_len s = nlen s.
Proof.
  unfold nlen. induction 1 as [|c s Hc Hs IH]; cbn [utf8_len fold_right length]; auto.
  fold (utf8_len s). rewrite IH. unfold utf8_len1.
  apply N.ltb_lt in Hc. rewrite Hc. lia.
Qed.

Lemma utf8_len_ge s : (nlen s <= utf8_len s)%N.
Proof.
  unfold nlen. induction s as [|c s IH]; cbn [utf8_len fold_right length]; [lia|].
  fold (utf8_len s). unfold utf8_len1.
  destruct (c <? 128)%N, (c <? 2048)%N, (c <? 65536)%N; lia.
Qed.

(** for ASCII text (in particular digits) the usual statement holds *)
Corollary fmt_pad_integral_length_ascii sp nn buf :
  is_ascii buf ->
  length (fmt_pad_integral sp nn buf) =
  Nat.max (N.to_nat (width_of sp)) (length (sign_text nn (f_plus sp) ++ buf)).
Proof.
  intros Ha. rewrite fmt_pad_integral_length. cbv zeta.
  rewrite (utf8_len_ascii _ Ha). rewrite N2Nat.inj_sub, N2Nat.inj_add, !nlen_to_nat.
  rewrite app_length. lia.
Qed.

(** in general the result can be shorter than the requested width, never longer
    than max(width, chars) *)
Corollary fmt_pad_integral_length_le sp nn buf :
  (length (fmt_pad_integral sp nn buf) <=
   Nat.max (N.to_nat (width_of sp)) (length (sign_text nn (f_plus sp) ++ buf)))%nat.
Proof.
  rewrite fmt_pad_integral_length. cbv zeta.
  pose proof (utf8_len_ge buf) as H.
  rewrite app_length.
  assert (N.to_nat (width_of sp - (nlen (sign_text nn (f_plus sp)) + utf8_len buf)) <=
          N.to_nat (width_of sp) - (length (sign_text nn (f_plus sp)) + length buf))%nat.
  { rewrite N2Nat.inj_sub, N2Nat.inj_add, nlen_to_nat.
    rewrite <- (nlen_to_nat buf). lia. }
  lia.
Qed.

Theorem fmt_pad_integral_shape sp nn buf :
  exists lfill sign zs rfill,
    fmt_pad_integral sp nn buf = lfill ++ sign ++ zs ++ buf ++ rfill /\
    sign = (if negb nn then [c_minus] else if f_plus sp then [c_plus] else []) /\
    all_eq (f_fill sp) lfill /\ all_eq (f_fill sp) rfill /\ all_eq c_zero zs /\
    (f_zero sp = false -> zs = [] /\
       (f_align sp = Some ARight \/ f_align sp = None -> rfill = []) /\
       (f_align sp = Some ALeft -> lfill = [])) /\
    (f_zero sp = true -> lfill = [] /\ rfill = []) /\
    (length lfill + length zs + length rfill =
       N.to_nat (width_of sp - (nlen sign + utf8_len buf)))%nat.
Proof.
  unfold fmt_pad_integral.
  set (sign := sign_text nn (f_plus sp)).
  destruct (pad_signed_shape sp sign buf (nlen sign + utf8_len buf))
    as (l & zs & r & E & Hl & Hr & Hz & H0 & H1).
  exists l, sign, zs, r. repeat split; auto.
  - apply H0; auto.
  - apply H0; auto.
  - apply H0; auto.
  - apply H1; auto.
  - apply H1; auto.
  - destruct (f_zero sp).
    + destruct H1 as (-> & -> & ->); [reflexivity|]. cbn. lia.
    + destruct H0 as (-> & <- & _); [reflexivity|]. cbn. lia.
Qed.

Theorem fmt_pad_integral_default_nonneg buf :
  fmt_pad_integral fspec_default true buf = buf.
Proof.
  unfold fmt_pad_integral, pad_signed. cbn.
  rewrite app_nil_r. reflexivity.
Qed.

Theorem fmt_pad_integral_default_neg buf :
  fmt_pad_integral fspec_default false buf = c_minus :: buf.
Proof.
  unfold fmt_pad_integral, pad_signed. cbn.
  rewrite app_nil_r. reflexivity.
Qed.
