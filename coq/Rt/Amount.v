(* Rt/Amount.v — the interface of the amount type (`AmountT`): what the
   library's code can do with an amount.  Two instances exist: Amount/F64.v
   (binary64, Flocq) and Amount/Dec.v (model of fpdec::Decimal). *)
From QV Require Import Rt.Prelude.

Record Amount := mkAmount {
  A :> Type;
  a_zero : A;                              (* AMNT_ZERO *)
  a_one : A;                               (* AMNT_ONE *)
  a_add : A -> A -> res A;                 (* +  (Decimal panics on overflow) *)
  a_sub : A -> A -> res A;
  a_mul : A -> A -> res A;
  a_div : A -> A -> res A;                 (* Decimal panics on a zero divisor *)
  a_neg : A -> A;                          (* unary minus *)
  a_abs : A -> A;
  a_sign_neg : A -> bool;                  (* f64::is_sign_negative: the sign bit (also of zeros and NaNs) *)
  a_eqb : A -> A -> bool;                  (* PartialEq::eq *)
  a_cmp : A -> A -> option comparison;     (* PartialOrd::partial_cmp *)
  a_of_lit : lit -> option A;              (* Amnt!(literal); None: does not compile *)
  a_is_dec : bool;                         (* cfg!(feature = "fpdec") *)
  a_display : fspec -> A -> ustring        (* <AmountT as Display>::fmt under a formatter state *)
}.

Section Derived.
Context (am : Amount).
(** core's provided methods of PartialOrd, in terms of partial_cmp (for f64
    the primitive comparisons agree with partial_cmp) *)
Definition a_lt (x y : am) : bool := match a_cmp am x y with Some Lt => true | _ => false end.
Definition a_le (x y : am) : bool := match a_cmp am x y with Some Lt | Some Eq => true | _ => false end.
Definition a_gt (x y : am) : bool := match a_cmp am x y with Some Gt => true | _ => false end.
Definition a_ge (x y : am) : bool := match a_cmp am x y with Some Gt | Some Eq => true | _ => false end.
Definition a_neb (x y : am) : bool := negb (a_eqb am x y).
Definition a_lit (l : lit) : am := match a_of_lit am l with Some a => a | None => a_zero am end.
End Derived.
