(* Rt/Fmt.v — executable model of the parts of Rust's [core::fmt] (rustc 1.95)
   that the units-of-measure library observes.

     fmt_pad            Formatter::pad            (Display for str)
     fmt_pad_integral   Formatter::pad_integral   (with an empty prefix)
     f64_to_text        impl Display for f64      (float_to_decimal_display +
                                                   Formatter::pad_formatted_parts)
     f64_digits_shortest / f64_digits_exact
                        core::num::flt2dec::strategy::{grisu,dragon}::
                        format_shortest / format_exact (fixed mode)
     f64_parse          str::parse::<f64>         (core::num::dec2flt)

   Everything is definitional and evaluates with [vm_compute]; the lemmas are
   in Rt/FmtProofs.v; the differential test against real [format!] is
   tools/fmttest.  Modelled after reading library/core/src/fmt/{mod,float}.rs,
   core/src/num/flt2dec/{mod,decoder,strategy/dragon,strategy/grisu}.rs and
   core/src/num/dec2flt/parse.rs of the 1.95 sources.

   Behaviour worth knowing (all confirmed by the differential test):
   - [pad] counts CHARACTERS (list elements), [pad_integral] counts the UTF-8
     BYTES of [buf] ([buf.len()]) — "1.5 µm" is 6 chars but 7 bytes, so
     [{:8}] through pad_integral emits only one fill character;
   - the [0] flag makes fill and alignment irrelevant: sign, then '0's, then
     the text; this also applies to "inf" and "NaN" ("00000inf", "-0000inf");
   - NaN never carries a sign, not even with [+]; -0.0 prints "-0";
   - width 0 is the same as no width;
   - [{:.p}] rounds the EXACT binary value half-to-even at the p-th digit;
   - [{}] never uses exponent notation. *)
From QV Require Import Rt.Prelude.
From Coq Require Import ZArith NArith List Bool Floats.SpecFloat.
From Flocq Require Import IEEE754.BinarySingleNaN IEEE754.Binary IEEE754.Bits.
Import ListNotations.

(** * Characters *)
Definition c_plus  : N := 43%N.
Definition c_minus : N := 45%N.
Definition c_dot   : N := 46%N.
Definition c_zero  : N := 48%N.

Definition nlen (s : ustring) : N := N.of_nat (length s).

(** [n] copies of [c] *)
Definition fillN (c : N) (n : N) : ustring := repeat c (N.to_nat n).

(** number of bytes of the UTF-8 encoding *)
Definition utf8_len1 (c : N) : N :=
  if (c <? 128)%N then 1%N
  else if (c <? 2048)%N then 2%N
  else if (c <? 65536)%N then 3%N else 4%N.
Definition utf8_len (s : ustring) : N :=
  fold_right (fun c a => (utf8_len1 c + a)%N) 0%N s.

(** * Padding ([Formatter::padding] + [PostPadding::write]) *)
Definition width_of (sp : fspec) : N :=
  match f_width sp with Some w => w | None => 0%N end.

Definition pad_split (al : align) (pad : N) : N * N :=
  match al with
  | ALeft => (0%N, pad)
  | ARight => (pad, 0%N)
  | ACenter => ((pad / 2)%N, (pad - pad / 2)%N)
  end.

Definition eff_align (sp : fspec) (dflt : align) : align :=
  match f_align sp with Some a => a | None => dflt end.

Definition with_padding (sp : fspec) (dflt : align) (pad : N) (body : ustring) : ustring :=
  let '(l, r) := pad_split (eff_align sp dflt) pad in
  fillN (f_fill sp) l ++ body ++ fillN (f_fill sp) r.

(** * [Formatter::pad] *)
Definition str_truncate (sp : fspec) (s : ustring) : ustring :=
  match f_prec sp with Some p => firstn (N.to_nat p) s | None => s end.

Definition fmt_pad (sp : fspec) (s : ustring) : ustring :=
  let s' := str_truncate sp s in
  with_padding sp ALeft (width_of sp - nlen s')%N s'.

(** * [Formatter::pad_integral] with an empty prefix *)
Definition sign_text (is_nonneg plus : bool) : ustring :=
  if negb is_nonneg then [c_minus] else if plus then [c_plus] else [].

(** sign, then either zeros (flag [0]: fill and alignment are overridden by
    '0' and Right) or ordinary padding around sign ++ body.  [used] is the
    width the text is deemed to occupy. *)
Definition pad_signed (sp : fspec) (sign body : ustring) (used : N) : ustring :=
  let pad := (width_of sp - used)%N in
  if f_zero sp then sign ++ fillN c_zero pad ++ body
  else with_padding sp ARight pad (sign ++ body).

Definition fmt_pad_integral (sp : fspec) (is_nonneg : bool) (buf : ustring) : ustring :=
  let sign := sign_text is_nonneg (f_plus sp) in
  pad_signed sp sign buf (nlen sign + utf8_len buf)%N.

(** * Decimal digits of integers *)
Local Open Scope Z_scope.

(** most significant digit first; fuel = the number itself, consumed one bit
    per decimal digit, which is always enough *)
Fixpoint digits_fuel (fuel : positive) (n : Z) (acc : list N) : list N :=
  if n <=? 0 then acc
  else
    let '(q, r) := Z.div_eucl n 10 in
    let acc' := Z.to_N r :: acc in
    match fuel with
    | xH => acc'
    | xO f | xI f => digits_fuel f q acc'
    end.

(** [] for n <= 0 *)
Definition to_digits (n : Z) : list N :=
  match n with Zpos p => digits_fuel p n [] | _ => [] end.

Definition digits_val (ds : list N) : Z :=
  fold_left (fun a d => 10 * a + Z.of_N d) ds 0.

Definition dchars (ds : list N) : ustring := map (fun d => (c_zero + d)%N) ds.
Definition zeros (z : Z) : ustring := repeat c_zero (Z.to_nat z).

(** * flt2dec::digits_to_dec_str: 0.d1..dn * 10^k in positional notation with at
      least [p] fractional digits *)
Definition digits_to_dec_str (ds : list N) (k : Z) (p : N) : ustring :=
  let n := Z.of_nat (length ds) in
  let pz := Z.of_N p in
  if k <=? 0 then
    [c_zero; c_dot] ++ zeros (- k) ++ dchars ds ++ zeros (pz - n - (- k))
  else if k <? n then
    dchars (firstn (Z.to_nat k) ds) ++ [c_dot] ++ dchars (skipn (Z.to_nat k) ds)
      ++ zeros (pz - (n - k))
  else
    dchars ds ++ zeros (k - n) ++ (if 0 <? pz then [c_dot] ++ zeros pz else []).

(** * Correctly rounded decimal -> binary64 (the rounding pipeline of Flocq's Bdiv) *)
Definition b64_nan (s : bool) : binary64 :=
  B754_nan 53 1024 s 2251799813685248%positive eq_refl.   (* quiet NaN, payload 2^51 *)

Definition sf_set_sign (neg : bool) (x : spec_float) : spec_float :=
  match x with
  | S754_zero _ => S754_zero neg
  | S754_infinity _ => S754_infinity neg
  | S754_finite _ m e => S754_finite neg m e
  | S754_nan => S754_nan
  end.

Definition sf_to_b64 (x : spec_float) : binary64 :=
  match x with
  | S754_zero s => B754_zero 53 1024 s
  | S754_infinity s => B754_infinity 53 1024 s
  | S754_nan => b64_nan false
  | S754_finite s m e =>
      match SpecFloat.bounded 53 1024 m e as b
            return (SpecFloat.bounded 53 1024 m e = b -> binary64) with
      | true => fun H => B754_finite 53 1024 s m e H
      | false => fun _ => b64_nan false
      end eq_refl
  end.

(** round-to-nearest-even of n/d, as a positive spec_float *)
Definition round_ratio_sf (n d : positive) : spec_float :=
  let '(mz, ez, lz) := SFdiv_core_binary 53 1024 (Zpos n) 0 (Zpos d) 0 in
  BinarySingleNaN.binary_round_aux 53 1024 mode_NE false mz ez lz.

(** the unsigned value [n / d] (n >= 0, d > 0) correctly rounded *)
Definition round_ratio (n d : Z) : spec_float :=
  match n, d with
  | Zpos pn, Zpos pd => round_ratio_sf pn pd
  | _, _ => S754_zero false
  end.

(** * [str::parse::<f64>] (dec2flt): [sign] (digits [. digits] | . digits) [e [sign] digits]
      | [sign] inf | infinity | nan  (case-insensitive) *)
Definition is_digit (c : N) : bool := ((48 <=? c) && (c <=? 57))%N.

Fixpoint take_digits (s : ustring) : list N * ustring :=
  match s with
  | c :: r =>
      if is_digit c then let '(ds, rest) := take_digits r in ((c - 48)%N :: ds, rest)
      else ([], s)
  | [] => ([], [])
  end.

Definition to_upper (c : N) : N := if ((97 <=? c) && (c <=? 122))%N then (c - 32)%N else c.

Definition is_inf_text (s : ustring) : bool :=
  let u := map to_upper s in
  ustr_eqb u [73;78;70]%N || ustr_eqb u [73;78;70;73;78;73;84;89]%N.
Definition is_nan_text (s : ustring) : bool := ustr_eqb (map to_upper s) [78;65;78]%N.

(** dec2flt::parse::parse_scientific's accumulation: stops growing at 0x10000 *)
Definition exp_accum (ds : list N) : Z :=
  fold_left (fun a d => if a <? 65536 then 10 * a + Z.of_N d else a) ds 0.

(** the part after 'e'/'E': optional sign, at least one digit, nothing after *)
Definition parse_exponent (s : ustring) : option Z :=
  let '(neg, s1) :=
    match s with
    | c :: r => if (c =? c_minus)%N then (true, r) else if (c =? c_plus)%N then (false, r) else (false, s)
    | [] => (false, s)
    end in
  match take_digits s1 with
  | ([], _) => None
  | (ds, []) => Some (if neg then - exp_accum ds else exp_accum ds)
  | (_, _ :: _) => None
  end.

(** value n * 10^x for n > 0, with shortcuts that keep evaluation cheap when an
    explicit exponent is far outside the binary64 range ([ndig] = number of
    digits n was read from) *)
Definition round_scaled (n : Z) (ndig : Z) (x : Z) : spec_float :=
  if 0 <=? x then
    if 310 <? x then S754_infinity false else round_ratio (n * 10 ^ x) 1
  else
    if ndig + x <? -330 then S754_zero false else round_ratio n (10 ^ (- x)).

(** unsigned number -> positive spec_float *)
Definition parse_unsigned_sf (s : ustring) : option spec_float :=
  if is_inf_text s then Some (S754_infinity false)
  else if is_nan_text s then Some S754_nan
  else
    let '(ip, r1) := take_digits s in
    let '(fp, r2) :=
      match r1 with
      | c :: r => if (c =? c_dot)%N then take_digits r else ([], r1)
      | [] => ([], r1)
      end in
    match ip ++ fp with
    | [] => None
    | ds =>
        let n := digits_val ds in
        let f := Z.of_nat (length fp) in
        match r2 with
        | [] => Some (round_ratio n (10 ^ f))
        | c :: r =>
            if ((c =? 101) || (c =? 69))%N then
              match parse_exponent r with
              | Some ex =>
                  Some (if n =? 0 then S754_zero false
                        else round_scaled n (Z.of_nat (length ds)) (ex - f))
              | None => None
              end
            else None
        end
    end.

Definition finish_parse (neg : bool) (o : option spec_float) : option binary64 :=
  match o with
  | Some S754_nan => Some (b64_nan neg)
  | Some x => Some (sf_to_b64 (sf_set_sign neg x))
  | None => None
  end.

Definition f64_parse (s : ustring) : option binary64 :=
  match s with
  | c :: r =>
      if (c =? c_minus)%N then finish_parse true (parse_unsigned_sf r)
      else if (c =? c_plus)%N then finish_parse false (parse_unsigned_sf r)
      else finish_parse false (parse_unsigned_sf s)
  | [] => None
  end.

(** * flt2dec shortest mode (strategy::dragon::format_shortest, which grisu's
      format_shortest agrees with whenever it does not give up)

    (m, e) is the canonical pair stored in [B754_finite] (m < 2^53, e >= -1074).
    Everything is scaled by 4 so that the half-ulp bounds are integers:
      v = 4m * 2^(e-2), low = v - minus, high = v + plus
    with plus = 2 (half an ulp) and minus = 2, except minus = 1 when m = 2^52
    (decoder.rs: [mant == minnorm.0], the binade boundary — Rust applies this
    also to f64::MIN_POSITIVE whose lower neighbour is in fact a full ulp away).
    The interval is closed iff the decoded mantissa is even; Rust's
    [integer_decode] doubles the mantissa of subnormals, so for them it is
    always closed. *)
Definition lt_or_le (incl : bool) (a b : Z) : bool := if incl then a <=? b else a <? b.

Record sh_state := mk_sh {
  sh_V : Z;      (* value numerator *)
  sh_Mi : Z;     (* v - low numerator *)
  sh_Pl : Z;     (* high - v numerator *)
  sh_S : Z;      (* common denominator *)
  sh_incl : bool
}.

Definition sh_init (m : positive) (e : Z) : sh_state :=
  let mz := Zpos m in
  let two52 := 4503599627370496 in
  let minus := if mz =? two52 then 1 else 2 in
  let incl := Z.even mz || (mz <? two52) in
  let E := e - 2 in
  if 0 <=? E then
    let p := 2 ^ E in mk_sh (4 * mz * p) (minus * p) (2 * p) 1 incl
  else
    mk_sh (4 * mz) minus 2 (2 ^ (- E)) incl.

(** high <= 10^k (open interval) resp. high < 10^k (closed interval) *)
Definition sh_k_ok (st : sh_state) (k : Z) : bool :=
  let H := sh_V st + sh_Pl st in
  if 0 <=? k then lt_or_le (negb (sh_incl st)) H (sh_S st * 10 ^ k)
  else lt_or_le (negb (sh_incl st)) (H * 10 ^ (- k)) (sh_S st).

Fixpoint sh_find_k (fuel : nat) (st : sh_state) (k : Z) : Z :=
  match fuel with
  | O => k
  | S f => if sh_k_ok st k then k else sh_find_k f st (k + 1)
  end.

(** the least k with [sh_k_ok]: start one below a lower estimate of log10(high) *)
Definition sh_k (st : sh_state) : Z :=
  let H := sh_V st + sh_Pl st in
  let t := Z.log2 H - Z.log2 (sh_S st) in
  sh_find_k 8 st ((t * 1233) / 4096 - 1).

(** one decimal digit of mant/scale (< 10) by compare-and-subtract, like
    dragon.rs's div_rem_upto_16 *)
Definition small_div (mant scale : Z) : Z * Z :=
  let s2 := 2 * scale in let s4 := 4 * scale in let s8 := 8 * scale in
  let '(d, x) := if s8 <=? mant then (8, mant - s8) else (0, mant) in
  let '(d, x) := if s4 <=? x then (d + 4, x - s4) else (d, x) in
  let '(d, x) := if s2 <=? x then (d + 2, x - s2) else (d, x) in
  if scale <=? x then (d + 1, x - scale) else (d, x).

(** digit generation (the loop of dragon::format_shortest).  Invariant before
    step n: v = (q + mant/scale) * 10^(k-n+1) where q is the integer formed by
    the n-1 digits generated so far, v - low = minus/scale * 10^(k-n+1),
    high - v = plus/scale * 10^(k-n+1).  After generating digit n the
    candidates are q (round down, admissible iff q*10^(k-n) is inside the
    interval) and q+1 (round up); with both admissible the closer one wins, a
    tie goes up. *)
Fixpoint sh_loop (fuel : nat) (incl : bool) (scale mant minus plus q : Z) : option Z :=
  match fuel with
  | O => None
  | S f =>
      let mant := 10 * mant in
      let minus := 10 * minus in
      let plus := 10 * plus in
      let '(d, mant) := small_div mant scale in
      let q := 10 * q + d in
      let down := lt_or_le incl mant minus in
      let up := lt_or_le incl (scale - mant) plus in
      if down || up then
        Some (if up && (negb down || (scale <=? 2 * mant)) then q + 1 else q)
      else sh_loop f incl scale mant minus plus q
  end.

Definition shortest_search (m : positive) (e : Z) : option (list N * Z) :=
  let st := sh_init m e in
  let k := sh_k st in
  let c := if 0 <=? k then 1 else 10 ^ (- k) in
  let scale := if 0 <=? k then sh_S st * 10 ^ k else sh_S st in
  match sh_loop 20 (sh_incl st) scale (sh_V st * c) (sh_Mi st * c) (sh_Pl st * c) 0 with
  | Some q => Some (to_digits q, k)
  | None => None
  end.

(** the complete (finite) decimal expansion of m * 2^e *)
Definition exact_expansion (m : positive) (e : Z) : list N * Z :=
  if 0 <=? e then
    let ds := to_digits (Zpos m * 2 ^ e) in (ds, Z.of_nat (length ds))
  else
    let ds := to_digits (Zpos m * 5 ^ (- e)) in (ds, Z.of_nat (length ds) + e).

(** does the positional text of 0.ds * 10^k parse back to +m*2^e ? *)
Definition roundtrip_ok (m : positive) (e : Z) (ds : list N) (k : Z) : bool :=
  match parse_unsigned_sf (digits_to_dec_str ds k 0) with
  | Some (S754_finite s' m' e') => negb s' && Pos.eqb m m' && Z.eqb e e'
  | _ => false
  end.

(** The result of the shortest search is used only after checking that it
    reads back as the same double; otherwise (never observed: the differential
    test would show it, and it is a theorem of the literature that it cannot
    happen) the complete expansion is used, which always reads back. *)
Definition f64_digits_shortest (m : positive) (e : Z) : list N * Z :=
  match shortest_search m e with
  | Some (ds, k) => if roundtrip_ok m e ds k then (ds, k) else exact_expansion m e
  | None => exact_expansion m e
  end.

(** * flt2dec exact mode with a last-digit limit (format_exact, limit = -p):
      m*2^e rounded half-to-even to an integer multiple of 10^-p.  The digits
      are those of that integer (no digit at all when it is 0) and k is such
      that the value is 0.d1..dn * 10^k, i.e. k = n - p. *)
Definition round_half_even_div (a b : Z) : Z :=
  let '(q, r) := Z.div_eucl a b in
  match 2 * r ?= b with
  | Lt => q
  | Gt => q + 1
  | Eq => if Z.even q then q else q + 1
  end.

Definition f64_digits_exact (m : positive) (e : Z) (frac_digits : N) : list N * Z :=
  let p := Z.of_N frac_digits in
  let scaled :=
    if 0 <=? e then Zpos m * 2 ^ e * 10 ^ p
    else round_half_even_div (Zpos m * 10 ^ p) (2 ^ (- e)) in
  let ds := to_digits scaled in
  (ds, Z.of_nat (length ds) - p).

(** * [impl Display for f64] *)
Definition zero_text (p : N) : ustring :=
  if (0 <? p)%N then [c_zero; c_dot] ++ zeros (Z.of_N p) else [c_zero].

Definition f64_body (prec : option N) (x : binary64) : ustring :=
  match x with
  | B754_nan _ _ _ _ _ => [78; 97; 78]%N           (* NaN *)
  | B754_infinity _ _ _ => [105; 110; 102]%N       (* inf *)
  | B754_zero _ _ _ => match prec with Some p => zero_text p | None => [c_zero] end
  | B754_finite _ _ _ m e _ =>
      match prec with
      | None => let '(ds, k) := f64_digits_shortest m e in digits_to_dec_str ds k 0
      | Some p =>
          let '(ds, k) := f64_digits_exact m e p in
          match ds with
          | [] => zero_text p
          | _ => digits_to_dec_str ds k p
          end
      end
  end.

Definition b64_is_neg (x : binary64) : bool :=
  match x with
  | B754_zero _ _ s | B754_infinity _ _ s => s
  | B754_finite _ _ s _ _ _ => s
  | B754_nan _ _ _ _ _ => false
  end.

Definition f64_sign (plus : bool) (x : binary64) : ustring :=
  match x with
  | B754_nan _ _ _ _ _ => []
  | _ => if b64_is_neg x then [c_minus] else if plus then [c_plus] else []
  end.

Definition f64_to_text (sp : fspec) (x : binary64) : ustring :=
  let sign := f64_sign (f_plus sp) x in
  let body := f64_body (f_prec sp) x in
  pad_signed sp sign body (nlen sign + nlen body)%N.
