(* Rt/Serde.v — the serde data model as far as the generated types use it
   (MODELLED: serde, serde_derive and serde_json are dependencies): a value
   tree; derive(Serialize, Deserialize) on a field-less enum serialises a
   variant as its name, on a struct with named fields as a map field -> value;
   an f64 is a number holding the double (finite values), a Decimal - with
   fpdec's feature serde-as-str, which the crate's `serde` feature enables - is
   the string of <String as From<Decimal>>. *)
From Coq Require Import String.
From Flocq Require Import IEEE754.Binary IEEE754.Bits.
From QV Require Import Rt.Prelude Rt.Amount Rt.Quantity Macro.Defs Gen.Prefixes Gen.Kernels Macro.Inst.

Inductive sval :=
| VStr (s : ustring)
| VF64 (x : binary64)
| VMap (l : list (ustring * sval)).

Section Codec.
Context (am : Amount).
(** how the amount type serialises / deserialises *)
Context (enc : am -> sval) (dcd : sval -> option am).
Context (g : gen_def SIPrefix).

Definition ser_unit (u : nat) : sval := VStr (variant_of g u).
Definition de_unit (v : sval) : option nat :=
  match v with VStr s => index_of s (gd_VARIANTS g) | _ => None end.

Definition field (name : ustring) (v : sval) : option sval :=
  match v with VMap l => arm_lookup name l | _ => None end.

(** derive(Serialize) on the generated struct: its fields in declaration order *)
Definition ser_qty (q : Qt (base_of_gen am g)) : sval :=
  VMap (map (fun f =>
          if ustr_eqb f (us "amount") then (f, enc (q_amount (base_of_gen am g) q))
          else (f, ser_unit (q_unit (base_of_gen am g) q)))
        (gd_struct_fields g)).

(** derive(Deserialize): every field must be present and decode *)
Definition de_qty (v : sval) : option (Qt (base_of_gen am g)) :=
  match field (us "amount") v with
  | None => None
  | Some av =>
      match dcd av with
      | None => None
      | Some a =>
          if existsb (ustr_eqb (us "unit")) (gd_struct_fields g) then
            match field (us "unit") v with
            | Some uv => match de_unit uv with Some u => Some (q_new (base_of_gen am g) a u) | None => None end
            | None => None
            end
          else Some (q_new (base_of_gen am g) a 0)
      end
  end.
End Codec.

(** the two amount codecs *)
Definition enc_f64 (x : binary64) : sval := VF64 x.
Definition dcd_f64 (v : sval) : option binary64 := match v with VF64 x => Some x | _ => None end.

(** canonical text of a serialised value, for the correspondence check *)
From QV Require Import Rt.Show.
Local Open Scope string_scope.
Definition show_amount_sval (v : sval) : string :=
  match v with
  | VF64 x => "F" ++ show_hex64 (bits_of_b64 x)
  | VStr s => "S" ++ show_ustr s
  | VMap _ => "?"
  end.
Definition show_qty_sval (v : sval) : string :=
  match v with
  | VMap l =>
      (match arm_lookup (us "amount") l with Some a => show_amount_sval a | None => "?" end) ++ " " ++
      (match arm_lookup (us "unit") l with Some (VStr u) => show_ustr u | Some _ => "?" | None => "-" end) ++
      " keys=" ++ show_nat (List.length l)
  | _ => "?"
  end.

(** entry points for the correspondence (types syntactically aligned, so that
    evaluating a case does not spend its time in conversion checks) *)
Definition ser_entry (am : Amount) (enc : am -> sval) (g : gen_def SIPrefix) (a : am) (u : nat) : sval :=
  ser_qty am enc g (q_new (base_of_gen am g) a u).
Definition rt_entry (am : Amount) (enc : am -> sval) (dcd : sval -> option am) (sa : am -> string)
    (g : gen_def SIPrefix) (a : am) (u : nat) : string :=
  match de_qty am dcd g (ser_entry am enc g a u) with
  | Some q => sa (q_amount (base_of_gen am g) q) ++ " " ++ show_nat (q_unit (base_of_gen am g) q)
  | None => "DE-ERROR"
  end.
